/-
C12 round trip (encoder → decoder): for every TOML-safe tree the decoder model accepts the
emission of the encoder model and produces the facts of the tree (`roundtrip`).

Parts: TomlRoundFacts (the appended facts have the members of `t.facts`), TomlRoundInl (inline
values), TomlRoundStep (open-array invariants and the three header steps), this file (the
simulation along `emit`).
-/
import CueVerif.Spec.Toml
import CueVerif.Proofs.TomlRoundFacts
import CueVerif.Proofs.TomlRoundStep
open CueVerif.Toml.Spec
namespace CueVerif.Toml

/-- what a run may have changed: only open arrays / seen keys whose key satisfies `Q` -/
def Frame (Q : Path → Prop) (s s' : St) : Prop :=
  (∀ a, ¬ Q a.rkey → (a ∈ s'.arrays ↔ a ∈ s.arrays)) ∧ (∀ key ∈ s'.seen, key ∈ s.seen ∨ Q key)

theorem Frame.refl (Q : Path → Prop) (s : St) : Frame Q s s :=
  ⟨fun _ _ => Iff.rfl, fun _ h => .inl h⟩

theorem Frame.trans {Q : Path → Prop} {s s1 s2 : St} (h1 : Frame Q s s1) (h2 : Frame Q s1 s2) :
    Frame Q s s2 := by
  refine ⟨fun a ha => (h2.1 a ha).trans (h1.1 a ha), fun key hk => ?_⟩
  rcases h2.2 key hk with h | h
  · exact h1.2 key h
  · exact .inr h

theorem Frame.mono {Q Q' : Path → Prop} {s s' : St} (hq : ∀ k, Q k → Q' k) (h : Frame Q s s') :
    Frame Q' s s' :=
  ⟨fun a ha => h.1 a (fun hq' => ha (hq _ hq')), fun key hk => (h.2 key hk).imp id (hq _)⟩

theorem Encl.frame {Q : Path → Prop} {s s' : St} {K : List Name} {P : Path} (hf : Frame Q s s')
    (hq : ∀ k, Q k → ¬ k <+: keyPath K) (he : Encl s.arrays K P) : Encl s'.arrays K P := by
  have hiff : ∀ a : OpenArr, a.rkey <+: keyPath K → (a ∈ s'.arrays ↔ a ∈ s.arrays) :=
    fun a hp => hf.1 a (fun h => hq _ h hp)
  rcases he with ⟨a, ha, hp, hmax, rfl⟩ | ⟨hno, rfl⟩
  · exact .inl ⟨a, (hiff a hp).mpr ha, hp, fun b hb hpb => hmax b ((hiff b hpb).mp hb) hpb, rfl⟩
  · exact .inr ⟨fun b hb hpb => hno b ((hiff b hpb).mp hb) hpb, rfl⟩

theorem FreshAt.frame {Q : Path → Prop} {s s' : St} {K' : List Name} (hf : Frame Q s s')
    (hq : ∀ k, Q k → ¬ keyPath K' <+: k) (h : FreshAt K' s) : FreshAt K' s' := by
  refine ⟨fun key hk hp => ?_, fun a ha hp => ?_⟩
  · rcases hf.2 key hk with h' | h'
    · exact h.1 key h' hp
    · exact hq _ h' hp
  · exact h.2 a ((hf.1 a (fun h' => hq _ h' hp)).mp ha) hp

/-- the postcondition of a run of a piece of the emission -/
structure Post (Q : Path → Prop) (s s' : St) (facts : List Fact) : Prop where
  out : s'.out = s.out ++ facts
  wf : WF s'.arrays
  ord : ArrOrd s'.arrays
  frame : Frame Q s s'

theorem Post.trans {Q : Path → Prop} {s s1 s2 : St} {f1 f2 : List Fact} (h1 : Post Q s s1 f1)
    (h2 : Post Q s1 s2 f2) : Post Q s s2 (f1 ++ f2) :=
  ⟨by rw [h2.out, h1.out, List.append_assoc], h2.wf, h2.ord, h1.frame.trans h2.frame⟩

theorem Post.mono {Q Q' : Path → Prop} {s s' : St} {f : List Fact} (hq : ∀ k, Q k → Q' k)
    (h : Post Q s s' f) : Post Q' s s' f :=
  ⟨h.out, h.wf, h.ord, h.frame.mono hq⟩

theorem run_append {s s1 s2 : St} {a b : List Ev} (h1 : run s a = .ok s1) (h2 : run s1 b = .ok s2) :
    run s (a ++ b) = .ok s2 := by
  induction a generalizing s with
  | nil => simp only [run] at h1; cases h1; exact h2
  | cons e es ih =>
    simp only [List.cons_append, run] at h1 ⊢
    cases hs : step s e with
    | error err => rw [hs] at h1; cases h1
    | ok s' => rw [hs] at h1; exact ih h1

theorem run_cons {s s1 s2 : St} {e : Ev} {b : List Ev} (h1 : step s e = .ok s1)
    (h2 : run s1 b = .ok s2) : run s (e :: b) = .ok s2 := by
  simp only [run, h1, h2]

theorem nodup_fst_eq : ∀ {fs : List (Name × Tree)}, (fs.map (·.1)).Nodup → ∀ {f f' : Name × Tree},
    f ∈ fs → f' ∈ fs → f.1 = f'.1 → f = f'
  | [], _, _, _, h, _, _ => by cases h
  | g :: fs, hn, f, f', hf, hf', he => by
    simp only [List.map_cons, List.nodup_cons] at hn
    rcases List.mem_cons.mp hf with e1 | h1 <;> rcases List.mem_cons.mp hf' with e2 | h2
    · rw [e1, e2]
    · subst e1
      exact absurd (List.mem_map.mpr ⟨f', h2, he.symm⟩) hn.1
    · subst e2
      exact absurd (List.mem_map.mpr ⟨f, h1, he⟩) hn.1
    · exact nodup_fst_eq hn.2 h1 h2 he

/-- the first pass of a table body: the `key = value` lines -/
theorem kv_phase (R P : Path) : ∀ (fs : List (Name × Tree)) (s : St),
    s.curKey = R → s.cur = P → (fs.map (·.1)).Nodup → SafeFields fs →
    (∀ f ∈ fs, ∀ key ∈ s.seen, ¬ (R ++ [.key f.1]) <+: key) →
    (∀ a ∈ s.arrays, ¬ SExt R a.rkey) →
    ∃ s', run s (emitKVs fs) = .ok s' ∧ s'.out = s.out ++ kvFacts P fs ∧
      s'.arrays = s.arrays ∧ s'.cur = P ∧ s'.curKey = R ∧
      ∀ key ∈ s'.seen, key ∈ s.seen ∨
        ∃ f ∈ fs, f.2.entryIsTable = false ∧ (R ++ [.key f.1]) <+: key
  | [], s, hk, hc, _, _, _, _ => by
    refine ⟨s, by simp only [emitKVs, run], ?_, rfl, hc, hk, fun key h => .inl h⟩
    simp [kvFacts]
  | f :: rest, s, hk, hc, hn, hs, h1, h2 => by
    simp only [SafeFields] at hs
    have hn' := hn
    simp only [List.map_cons, List.nodup_cons] at hn'
    cases hb : f.2.entryIsTable
    · -- a key-value line
      obtain ⟨s1, hr1, ho1, ha1, hc1, hk1, hse1⟩ :=
        inl_fields [f] R P s (by simp) (by simp only [SafeFields]; exact ⟨hs.1, trivial⟩)
          (fun f' hf' key hkey hp => by
            rw [List.mem_singleton] at hf'
            subst hf'
            exact h1 f' (List.mem_cons_self ..) key hkey hp) h2
      have hstep : step s (.kv [f.1] f.2.toVal) = .ok s1 := by
        simp only [step, hk, hc]
        simpa only [toValFields] using hr1
      have hse1' : ∀ key ∈ s1.seen, key ∈ s.seen ∨ (R ++ [.key f.1]) <+: key := by
        intro key hkey
        rcases hse1 key hkey with h | ⟨f', hf', hp⟩
        · exact .inl h
        · rw [List.mem_singleton] at hf'
          subst hf'
          exact .inr hp
      obtain ⟨s2, hr2, ho2, ha2, hc2, hk2, hse2⟩ :=
        kv_phase R P rest s1 (by rw [hk1, hk]) (by rw [hc1, hc]) hn'.2 hs.2
          (fun f' hf' key hkey hp => by
            rcases hse1' key hkey with h | h
            · exact h1 f' (List.mem_cons_of_mem _ hf') key h hp
            · have := snoc_prefix_eq hp h
              injection this with this
              exact hn'.1 (List.mem_map.mpr ⟨f', hf', this⟩))
          (by rw [ha1]; exact h2)
      refine ⟨s2, ?_, ?_, by rw [ha2, ha1], hc2, hk2, ?_⟩
      · simp only [emitKVs, hb, Bool.false_eq_true, if_false, List.singleton_append]
        exact run_cons hstep hr2
      · simp [ho2, ho1, kvFacts, hb, treeFactsFields]
      · intro key hkey
        rcases hse2 key hkey with h | ⟨f', hf', hb', hp⟩
        · rcases hse1' key h with h | h
          · exact .inl h
          · exact .inr ⟨f, List.mem_cons_self .., hb, h⟩
        · exact .inr ⟨f', List.mem_cons_of_mem _ hf', hb', hp⟩
    · -- a table-like entry: nothing in this pass
      obtain ⟨s2, hr2, ho2, ha2, hc2, hk2, hse2⟩ :=
        kv_phase R P rest s hk hc hn'.2 hs.2
          (fun f' hf' => h1 f' (List.mem_cons_of_mem _ hf')) h2
      refine ⟨s2, ?_, ?_, ha2, hc2, hk2, ?_⟩
      · simpa only [emitKVs, hb, if_true, List.nil_append] using hr2
      · simp [ho2, kvFacts, hb]
      · intro key hkey
        rcases hse2 key hkey with h | ⟨f', hf', hb', hp⟩
        · exact .inl h
        · exact .inr ⟨f', List.mem_cons_of_mem _ hf', hb', hp⟩

/-- a table body (both passes), given the second pass -/
theorem body_ok {K : List Name} {R P : Path} {fs : List (Name × Tree)} {s : St}
    (hsubs : ∀ s1 : St, WF s1.arrays → ArrOrd s1.arrays → Encl s1.arrays K P →
      (∀ f ∈ fs, f.2.entryIsTable = true → FreshAt (K ++ [f.1]) s1) →
      ∃ s', run s1 (emitSubs K fs) = .ok s' ∧ Post (SExt (keyPath K)) s1 s' (subFacts P fs))
    (hR : R = keyPath K ∨ ∃ i, R = keyPath K ++ [.idx i]) (hck : s.curKey = R) (hc : s.cur = P)
    (hw : WF s.arrays) (ho : ArrOrd s.arrays) (he : Encl s.arrays K P)
    (hfs : ∀ key ∈ s.seen, ¬ SExt (keyPath K) key) (hfa : ∀ a ∈ s.arrays, ¬ SExt (keyPath K) a.rkey)
    (hn : (fs.map (·.1)).Nodup) (hsafe : SafeFields fs) :
    ∃ s', run s (emitKVs fs ++ emitSubs K fs) = .ok s' ∧
      Post (SExt (keyPath K)) s s' (kvFacts P fs ++ subFacts P fs) := by
  have hRext : ∀ {x : Seg} {key : Path}, (R ++ [x]) <+: key → SExt (keyPath K) key := by
    intro x key hp
    rcases hR with rfl | ⟨i, rfl⟩
    · exact sext_of_snoc_prefix hp
    · exact sext_snoc_of_sext (sext_of_snoc_prefix hp)
  obtain ⟨s1, hr1, ho1, ha1, hc1, hk1, hse1⟩ :=
    kv_phase R P fs s hck hc hn hsafe
      (fun f _ key hkey hp => hfs key hkey (hRext hp))
      (fun a ha hp => by
        apply hfa a ha
        rcases hR with rfl | ⟨i, rfl⟩
        · exact hp
        · exact sext_snoc_of_sext hp)
  obtain ⟨s2, hr2, hp2⟩ := hsubs s1 (ha1 ▸ hw) (ha1 ▸ ho) (ha1 ▸ he) (by
    intro f hf hb
    refine ⟨fun key hkey hp => ?_, fun a ha hp => ?_⟩
    · rw [keyPath_snoc] at hp
      rcases hse1 key hkey with h | ⟨f', hf', hb', hp'⟩
      · exact hfs key h (sext_of_snoc_prefix hp)
      · rcases hR with rfl | ⟨i, rfl⟩
        · have := snoc_prefix_eq hp hp'
          injection this with this
          have := nodup_fst_eq hn hf hf' this
          subst this
          rw [hb] at hb'
          cases hb'
        · have := prefix_seg_eq (B := []) (C := [.key f'.1]) hp (by simpa using hp')
          cases this
    · rw [ha1] at ha
      rw [keyPath_snoc] at hp
      exact hfa a ha (sext_of_snoc_prefix hp))
  refine ⟨s2, run_append hr1 hr2, ?_⟩
  have hp1 : Post (SExt (keyPath K)) s s1 (kvFacts P fs) :=
    ⟨ho1, ha1 ▸ hw, ha1 ▸ ho, fun a _ => by rw [ha1], fun key hkey => by
      rcases hse1 key hkey with h | ⟨f', _, _, hp'⟩
      · exact .inl h
      · exact .inr (hRext hp')⟩
  exact hp1.trans hp2

end CueVerif.Toml
