/-
C12 round trip (encoder → decoder): for every TOML-safe tree the decoder model accepts the
emission of the encoder model and produces the facts of the tree (`roundtrip`).

Parts: TomlRoundFacts (the appended facts have the members of `t.facts`), TomlRoundInl (inline
values), TomlRoundStep (open-array invariants and the three header steps), this file (the
simulation along `emit`).
-/
import CueVerif.Spec.Toml
import CueVerif.Proofs.TomlRoundFacts
import CueVerif.Proofs.TomlRoundStep
open CueVerif.Toml.Spec
namespace CueVerif.Toml.Round
open CueVerif.Toml

/-- what a run may have changed: only open arrays / seen keys whose key satisfies `Q` -/
def Frame (Q : Path → Prop) (s s' : St) : Prop :=
  (∀ a, ¬ Q a.rkey → (a ∈ s'.arrays ↔ a ∈ s.arrays)) ∧ (∀ key ∈ s'.seen, key ∈ s.seen ∨ Q key)

theorem Frame.refl (Q : Path → Prop) (s : St) : Frame Q s s :=
  ⟨fun _ _ => Iff.rfl, fun _ h => .inl h⟩

theorem Frame.trans {Q : Path → Prop} {s s1 s2 : St} (h1 : Frame Q s s1) (h2 : Frame Q s1 s2) :
    Frame Q s s2 := by
  refine ⟨fun a ha => (h2.1 a ha).trans (h1.1 a ha), fun key hk => ?_⟩
  rcases h2.2 key hk with h | h
  · exact h1.2 key h
  · exact .inr h

theorem Frame.mono {Q Q' : Path → Prop} {s s' : St} (hq : ∀ k, Q k → Q' k) (h : Frame Q s s') :
    Frame Q' s s' :=
  ⟨fun a ha => h.1 a (fun hq' => ha (hq _ hq')), fun key hk => (h.2 key hk).imp id (hq _)⟩

theorem Encl.frame {Q : Path → Prop} {s s' : St} {K : List Name} {P : Path} (hf : Frame Q s s')
    (hq : ∀ k, Q k → ¬ k <+: keyPath K) (he : Encl s.arrays K P) : Encl s'.arrays K P := by
  have hiff : ∀ a : OpenArr, a.rkey <+: keyPath K → (a ∈ s'.arrays ↔ a ∈ s.arrays) :=
    fun a hp => hf.1 a (fun h => hq _ h hp)
  rcases he with ⟨a, ha, hp, hmax, rfl⟩ | ⟨hno, rfl⟩
  · exact .inl ⟨a, (hiff a hp).mpr ha, hp, fun b hb hpb => hmax b ((hiff b hpb).mp hb) hpb, rfl⟩
  · exact .inr ⟨fun b hb hpb => hno b ((hiff b hpb).mp hb) hpb, rfl⟩

theorem FreshAt.frame {Q : Path → Prop} {s s' : St} {K' : List Name} (hf : Frame Q s s')
    (hq : ∀ k, Q k → ¬ keyPath K' <+: k) (h : FreshAt K' s) : FreshAt K' s' := by
  refine ⟨fun key hk hp => ?_, fun a ha hp => ?_⟩
  · rcases hf.2 key hk with h' | h'
    · exact h.1 key h' hp
    · exact hq _ h' hp
  · exact h.2 a ((hf.1 a (fun h' => hq _ h' hp)).mp ha) hp

/-- the postcondition of a run of a piece of the emission -/
structure Post (Q : Path → Prop) (s s' : St) (facts : List Fact) : Prop where
  out : s'.out = s.out ++ facts
  wf : WF s'.arrays
  ord : ArrOrd s'.arrays
  frame : Frame Q s s'

theorem Post.trans {Q : Path → Prop} {s s1 s2 : St} {f1 f2 : List Fact} (h1 : Post Q s s1 f1)
    (h2 : Post Q s1 s2 f2) : Post Q s s2 (f1 ++ f2) :=
  ⟨by rw [h2.out, h1.out, List.append_assoc], h2.wf, h2.ord, h1.frame.trans h2.frame⟩

theorem Post.mono {Q Q' : Path → Prop} {s s' : St} {f : List Fact} (hq : ∀ k, Q k → Q' k)
    (h : Post Q s s' f) : Post Q' s s' f :=
  ⟨h.out, h.wf, h.ord, h.frame.mono hq⟩

theorem run_append {s s1 s2 : St} {a b : List Ev} (h1 : run s a = .ok s1) (h2 : run s1 b = .ok s2) :
    run s (a ++ b) = .ok s2 := by
  induction a generalizing s with
  | nil => simp only [run] at h1; cases h1; exact h2
  | cons e es ih =>
    simp only [List.cons_append, run] at h1 ⊢
    cases hs : step s e with
    | error err => rw [hs] at h1; cases h1
    | ok s' => rw [hs] at h1; exact ih h1

theorem run_cons {s s1 s2 : St} {e : Ev} {b : List Ev} (h1 : step s e = .ok s1)
    (h2 : run s1 b = .ok s2) : run s (e :: b) = .ok s2 := by
  simp only [run, h1, h2]

theorem nodup_fst_eq : ∀ {fs : List (Name × Tree)}, (fs.map (·.1)).Nodup → ∀ {f f' : Name × Tree},
    f ∈ fs → f' ∈ fs → f.1 = f'.1 → f = f'
  | [], _, _, _, h, _, _ => by cases h
  | g :: fs, hn, f, f', hf, hf', he => by
    simp only [List.map_cons, List.nodup_cons] at hn
    rcases List.mem_cons.mp hf with e1 | h1 <;> rcases List.mem_cons.mp hf' with e2 | h2
    · rw [e1, e2]
    · subst e1
      exact absurd (List.mem_map.mpr ⟨f', h2, he.symm⟩) hn.1
    · subst e2
      exact absurd (List.mem_map.mpr ⟨f, h1, he⟩) hn.1
    · exact nodup_fst_eq hn.2 h1 h2 he

/-- the first pass of a table body: the `key = value` lines -/
theorem kv_phase (R P : Path) : ∀ (fs : List (Name × Tree)) (s : St),
    s.curKey = R → s.cur = P → (fs.map (·.1)).Nodup → SafeFields fs →
    (∀ f ∈ fs, ∀ key ∈ s.seen, ¬ (R ++ [.key f.1]) <+: key) →
    (∀ a ∈ s.arrays, ¬ SExt R a.rkey) →
    ∃ s', run s (emitKVs fs) = .ok s' ∧ s'.out = s.out ++ kvFacts P fs ∧
      s'.arrays = s.arrays ∧ s'.cur = P ∧ s'.curKey = R ∧
      ∀ key ∈ s'.seen, key ∈ s.seen ∨
        ∃ f ∈ fs, f.2.entryIsTable = false ∧ (R ++ [.key f.1]) <+: key
  | [], s, hk, hc, _, _, _, _ => by
    refine ⟨s, by simp only [emitKVs, run], ?_, rfl, hc, hk, fun key h => .inl h⟩
    simp [kvFacts]
  | f :: rest, s, hk, hc, hn, hs, h1, h2 => by
    simp only [SafeFields] at hs
    have hn' := hn
    simp only [List.map_cons, List.nodup_cons] at hn'
    cases hb : f.2.entryIsTable
    · -- a key-value line
      obtain ⟨s1, hr1, ho1, ha1, hc1, hk1, hse1⟩ :=
        inl_fields [f] R P s (by simp) (by simp only [SafeFields]; exact ⟨hs.1, trivial⟩)
          (fun f' hf' key hkey hp => by
            rw [List.mem_singleton] at hf'
            subst hf'
            exact h1 f' (List.mem_cons_self ..) key hkey hp) h2
      have hstep : step s (.kv [f.1] f.2.toVal) = .ok s1 := by
        simp only [step, hk, hc]
        simpa only [toValFields] using hr1
      have hse1' : ∀ key ∈ s1.seen, key ∈ s.seen ∨ (R ++ [.key f.1]) <+: key := by
        intro key hkey
        rcases hse1 key hkey with h | ⟨f', hf', hp⟩
        · exact .inl h
        · rw [List.mem_singleton] at hf'
          subst hf'
          exact .inr hp
      obtain ⟨s2, hr2, ho2, ha2, hc2, hk2, hse2⟩ :=
        kv_phase R P rest s1 (by rw [hk1, hk]) (by rw [hc1, hc]) hn'.2 hs.2
          (fun f' hf' key hkey hp => by
            rcases hse1' key hkey with h | h
            · exact h1 f' (List.mem_cons_of_mem _ hf') key h hp
            · have := snoc_prefix_eq hp h
              injection this with this
              exact hn'.1 (List.mem_map.mpr ⟨f', hf', this⟩))
          (by rw [ha1]; exact h2)
      refine ⟨s2, ?_, ?_, by rw [ha2, ha1], hc2, hk2, ?_⟩
      · simp only [emitKVs, hb, Bool.false_eq_true, if_false, List.singleton_append]
        exact run_cons hstep hr2
      · simp [ho2, ho1, kvFacts, hb, treeFactsFields]
      · intro key hkey
        rcases hse2 key hkey with h | ⟨f', hf', hb', hp⟩
        · rcases hse1' key h with h | h
          · exact .inl h
          · exact .inr ⟨f, List.mem_cons_self .., hb, h⟩
        · exact .inr ⟨f', List.mem_cons_of_mem _ hf', hb', hp⟩
    · -- a table-like entry: nothing in this pass
      obtain ⟨s2, hr2, ho2, ha2, hc2, hk2, hse2⟩ :=
        kv_phase R P rest s hk hc hn'.2 hs.2
          (fun f' hf' => h1 f' (List.mem_cons_of_mem _ hf')) h2
      refine ⟨s2, ?_, ?_, ha2, hc2, hk2, ?_⟩
      · simpa only [emitKVs, hb, if_true, List.nil_append] using hr2
      · simp [ho2, kvFacts, hb]
      · intro key hkey
        rcases hse2 key hkey with h | ⟨f', hf', hb', hp⟩
        · exact .inl h
        · exact .inr ⟨f', List.mem_cons_of_mem _ hf', hb', hp⟩

/-- a table body (both passes), given the second pass -/
theorem body_ok {K : List Name} {R P : Path} {fs : List (Name × Tree)} {s : St}
    (hsubs : ∀ s1 : St, WF s1.arrays → ArrOrd s1.arrays → Encl s1.arrays K P →
      (∀ f ∈ fs, f.2.entryIsTable = true → FreshAt (K ++ [f.1]) s1) →
      ∃ s', run s1 (emitSubs K fs) = .ok s' ∧ Post (SExt (keyPath K)) s1 s' (subFacts P fs))
    (hR : R = keyPath K ∨ ∃ i, R = keyPath K ++ [.idx i]) (hck : s.curKey = R) (hc : s.cur = P)
    (hw : WF s.arrays) (ho : ArrOrd s.arrays) (he : Encl s.arrays K P)
    (hfs : ∀ key ∈ s.seen, ¬ SExt (keyPath K) key) (hfa : ∀ a ∈ s.arrays, ¬ SExt (keyPath K) a.rkey)
    (hn : (fs.map (·.1)).Nodup) (hsafe : SafeFields fs) :
    ∃ s', run s (emitKVs fs ++ emitSubs K fs) = .ok s' ∧
      Post (SExt (keyPath K)) s s' (kvFacts P fs ++ subFacts P fs) := by
  have hRext : ∀ {x : Seg} {key : Path}, (R ++ [x]) <+: key → SExt (keyPath K) key := by
    intro x key hp
    rcases hR with rfl | ⟨i, rfl⟩
    · exact sext_of_snoc_prefix hp
    · exact sext_snoc_of_sext (sext_of_snoc_prefix hp)
  obtain ⟨s1, hr1, ho1, ha1, hc1, hk1, hse1⟩ :=
    kv_phase R P fs s hck hc hn hsafe
      (fun f _ key hkey hp => hfs key hkey (hRext hp))
      (fun a ha hp => by
        apply hfa a ha
        rcases hR with rfl | ⟨i, rfl⟩
        · exact hp
        · exact sext_snoc_of_sext hp)
  obtain ⟨s2, hr2, hp2⟩ := hsubs s1 (ha1 ▸ hw) (ha1 ▸ ho) (ha1 ▸ he) (by
    intro f hf hb
    refine ⟨fun key hkey hp => ?_, fun a ha hp => ?_⟩
    · rw [keyPath_snoc] at hp
      rcases hse1 key hkey with h | ⟨f', hf', hb', hp'⟩
      · exact hfs key h (sext_of_snoc_prefix hp)
      · rcases hR with rfl | ⟨i, rfl⟩
        · have := snoc_prefix_eq hp hp'
          injection this with this
          have := nodup_fst_eq hn hf hf' this
          subst this
          rw [hb] at hb'
          cases hb'
        · have := prefix_seg_eq (B := []) (C := [.key f'.1]) hp (by simpa using hp')
          cases this
    · rw [ha1] at ha
      rw [keyPath_snoc] at hp
      exact hfa a ha (sext_of_snoc_prefix hp))
  refine ⟨s2, run_append hr1 hr2, ?_⟩
  have hp1 : Post (SExt (keyPath K)) s s1 (kvFacts P fs) :=
    ⟨ho1, ha1 ▸ hw, ha1 ▸ ho, fun a _ => by rw [ha1], fun key hkey => by
      rcases hse1 key hkey with h | ⟨f', _, _, hp'⟩
      · exact .inl h
      · exact .inr (hRext hp')⟩
  exact hp1.trans hp2

theorem emitEntry_nil (K' : List Name) : ∀ t : Tree, t.entryIsTable = false → emitEntry K' t = []
  | .sc _, _ => by simp [emitEntry]
  | .tbl _, h => by simp [Tree.entryIsTable, Tree.isTable] at h
  | .arr xs, h => by
    simp [Tree.entryIsTable, Tree.isTable] at h
    simp [emitEntry, h]

theorem step_table' {s : St} {K' : List Name} {Q : Path} (hw : WF s.arrays) (ho : ArrOrd s.arrays)
    (he : Encl s.arrays K' Q) (hf : FreshAt K' s) :
    ∃ s1, step s (.table K') = .ok s1 ∧ s1.seen = keyPath K' :: s.seen ∧ s1.arrays = s.arrays ∧
      s1.out = s.out ++ [(Q, .tbl)] ∧ s1.cur = Q ∧ s1.curKey = keyPath K' :=
  ⟨_, step_table hw ho he hf, rfl, rfl, rfl, rfl, rfl⟩

theorem step_arrayTable_fresh' {s : St} {K' : List Name} {base : Path} (hw : WF s.arrays)
    (ho : ArrOrd s.arrays) (he : Encl s.arrays K' base) (hf : FreshAt K' s) :
    ∃ s1, step s (.arrayTable K') = .ok s1 ∧ s1.seen = s.seen ∧
      s1.arrays = s.arrays ++ [mkArr K' base 1] ∧
      s1.out = s.out ++ [(base, .arr), (base ++ [.idx 0], .tbl)] ∧ s1.cur = base ++ [.idx 0] ∧
      s1.curKey = keyPath K' ++ [.idx 0] :=
  ⟨_, step_arrayTable_fresh hw ho he hf, rfl, rfl, rfl, rfl, rfl⟩

theorem step_arrayTable_next' {s : St} {K' : List Name} {base : Path} {i : Nat}
    {pre post : List OpenArr} (harr : s.arrays = pre ++ mkArr K' base i :: post)
    (ho : ArrOrd s.arrays) (hseen : keyPath K' ∉ s.seen) :
    ∃ s1, step s (.arrayTable K') = .ok s1 ∧
      s1.seen = s.seen.filter (fun k => !strictPrefix (keyPath K') k) ∧
      s1.arrays = pre ++ mkArr K' base (i + 1) ::
        post.filter (fun a => !strictPrefix (keyPath K') a.rkey) ∧
      s1.out = s.out ++ [(base ++ [.idx i], .tbl)] ∧ s1.cur = base ++ [.idx i] ∧
      s1.curKey = keyPath K' ++ [.idx i] :=
  ⟨_, step_arrayTable_next harr ho hseen, rfl, rfl, rfl, rfl, rfl⟩

/-- the open arrays after `[[K']]` appended an element to an existing array -/
theorem next_arrays {arrays pre post : List OpenArr} {K' : List Name} {base : Path} {i : Nat}
    (harr : arrays = pre ++ mkArr K' base i :: post) (hw : WF arrays) (ho : ArrOrd arrays) :
    let arrays' := pre ++ mkArr K' base (i + 1) ::
      post.filter (fun a => !strictPrefix (keyPath K') a.rkey)
    WF arrays' ∧ ArrOrd arrays' ∧
      (∀ a, ¬ keyPath K' <+: a.rkey → (a ∈ arrays' ↔ a ∈ arrays)) ∧
      (∀ a ∈ arrays', ¬ SExt (keyPath K') a.rkey) ∧ mkArr K' base (i + 1) ∈ arrays' := by
  subst harr
  intro arrays'
  have hfilt : ∀ a, a ∈ post.filter (fun a => !strictPrefix (keyPath K') a.rkey) ↔
      a ∈ post ∧ ¬ SExt (keyPath K') a.rkey := by
    intro a
    simp only [List.mem_filter, Bool.not_eq_true', strictPrefix_false_iff]
  rw [ArrOrd, List.pairwise_append, List.pairwise_cons] at ho
  obtain ⟨hopre, ⟨ho0, hopost⟩, hocross⟩ := ho
  refine ⟨?_, ?_, ?_, ?_, ?_⟩
  · intro a ha
    simp only [arrays', List.mem_append, List.mem_cons, hfilt] at ha
    rcases ha with ha | rfl | ha
    · exact hw a (List.mem_append_left _ ha)
    · exact hw (mkArr K' base i) (List.mem_append_right _ (List.mem_cons_self ..))
    · exact hw a (List.mem_append_right _ (List.mem_cons_of_mem _ ha.1))
  · rw [ArrOrd, List.pairwise_append, List.pairwise_cons]
    refine ⟨hopre, ⟨fun c hc => ho0 c ((hfilt c).mp hc).1, hopost.filter _⟩, ?_⟩
    intro b hb c hc
    rcases List.mem_cons.mp hc with rfl | hc
    · exact hocross b hb (mkArr K' base i) (List.mem_cons_self ..)
    · exact hocross b hb c (List.mem_cons_of_mem _ ((hfilt c).mp hc).1)
  · intro a hna
    have hne : ∀ n, a ≠ mkArr K' base n := by
      intro n e
      apply hna
      rw [e]
      exact List.prefix_refl _
    simp only [arrays', List.mem_append, List.mem_cons, hfilt, hne, false_or]
    constructor
    · rintro (h | h)
      · exact .inl h
      · exact .inr h.1
    · rintro (h | h)
      · exact .inl h
      · exact .inr ⟨h, fun hs => hna hs.isPrefix⟩
  · intro a ha
    simp only [arrays', List.mem_append, List.mem_cons, hfilt] at ha
    rcases ha with ha | rfl | ha
    · exact fun hs => hocross a ha (mkArr K' base i) (List.mem_cons_self ..) hs.isPrefix
    · exact SExt_irrefl _
    · exact ha.2
  · simp [arrays']

mutual
/-- the second pass of a table body under the header key stack `K` at position `P` -/
theorem subs_ok : ∀ (fs : List (Name × Tree)) (K : List Name) (P : Path) (s : St),
    (fs.map (·.1)).Nodup → SafeFields fs → WF s.arrays → ArrOrd s.arrays → Encl s.arrays K P →
    (∀ f ∈ fs, f.2.entryIsTable = true → FreshAt (K ++ [f.1]) s) →
    ∃ s', run s (emitSubs K fs) = .ok s' ∧ Post (SExt (keyPath K)) s s' (subFacts P fs)
  | [], K, P, s, _, _, hw, ho, _, _ => by
    refine ⟨s, by simp only [emitSubs, run], ?_, hw, ho, Frame.refl _ _⟩
    simp [subFacts]
  | f :: rest, K, P, s, hn, hs, hw, ho, he, hfr => by
    simp only [SafeFields] at hs
    simp only [List.map_cons, List.nodup_cons] at hn
    cases hb : f.2.entryIsTable
    · obtain ⟨s2, hr2, hp2⟩ := subs_ok rest K P s hn.2 hs.2 hw ho he
        (fun f' hf' => hfr f' (List.mem_cons_of_mem _ hf'))
      refine ⟨s2, ?_, ?_⟩
      · simpa only [emitSubs, emitEntry_nil _ _ hb, List.nil_append] using hr2
      · simpa only [subFacts, entryFacts_nil _ _ hb, List.nil_append] using hp2
    · have hfr0 := hfr f (List.mem_cons_self ..) hb
      obtain ⟨s1, hr1, hp1⟩ := entry_ok f.2 K f.1 (P ++ [.key f.1]) s hs.1 hb hw ho
        (Encl_extend hw he (fun a ha e => hfr0.2 a ha (e ▸ List.prefix_refl _))) hfr0
      obtain ⟨s2, hr2, hp2⟩ := subs_ok rest K P s1 hn.2 hs.2 hp1.wf hp1.ord
        (Encl.frame hp1.frame (fun k hk hk' => by
          have h1 := hk.length_le
          have h2 := hk'.length_le
          rw [keyPath_length] at h1 h2
          simp at h1
          omega) he)
        (fun f' hf' hb' => FreshAt.frame hp1.frame (fun k hk hk' => by
          rw [keyPath_snoc] at hk hk'
          have := snoc_prefix_eq hk hk'
          injection this with this
          exact hn.1 (List.mem_map.mpr ⟨f', hf', this.symm⟩))
          (hfr f' (List.mem_cons_of_mem _ hf') hb'))
      refine ⟨s2, ?_, ?_⟩
      · simp only [emitSubs]
        exact run_append hr1 hr2
      · simp only [subFacts]
        refine (hp1.mono (fun k hk => ?_)).trans hp2
        rw [keyPath_snoc] at hk
        exact sext_of_snoc_prefix hk
/-- one table-like entry `K ++ [k]` whose data sits at `Q` -/
theorem entry_ok : ∀ (t : Tree) (K : List Name) (k : Name) (Q : Path) (s : St),
    SafeTree t → t.entryIsTable = true → WF s.arrays → ArrOrd s.arrays →
    Encl s.arrays (K ++ [k]) Q → FreshAt (K ++ [k]) s →
    ∃ s', run s (emitEntry (K ++ [k]) t) = .ok s' ∧
      Post (fun key => keyPath (K ++ [k]) <+: key) s s' (entryFacts Q t)
  | .sc _, _, _, _, _, _, hb, _, _, _, _ => by
    simp [Tree.entryIsTable, Tree.isTable, Tree.isAoT] at hb
  | .tbl fs, K, k, Q, s, hsafe, _, hw, ho, he, hf => by
    simp only [SafeTree] at hsafe
    obtain ⟨s1, hstep, hseen1, harr1, hout1, hcur1, hck1⟩ := step_table' hw ho he hf
    obtain ⟨s2, hr2, hp2⟩ := body_ok (K := K ++ [k]) (R := keyPath (K ++ [k])) (P := Q) (fs := fs)
      (s := s1) (fun s' hw' ho' he' hfr' => subs_ok fs (K ++ [k]) Q s' hsafe.1 hsafe.2 hw' ho' he' hfr')
      (.inl rfl) hck1 hcur1 (harr1 ▸ hw) (harr1 ▸ ho) (harr1 ▸ he)
      (fun key hkey hs => by
        rw [hseen1] at hkey
        rcases List.mem_cons.mp hkey with rfl | hkey
        · exact SExt_irrefl _ hs
        · exact hf.1 key hkey hs.isPrefix)
      (fun a ha hs => hf.2 a (harr1 ▸ ha) hs.isPrefix) hsafe.1 hsafe.2
    have hp1 : Post (fun key => keyPath (K ++ [k]) <+: key) s s1 [(Q, .tbl)] :=
      ⟨hout1, harr1 ▸ hw, harr1 ▸ ho, fun a _ => by rw [harr1], fun key hkey => by
        rw [hseen1] at hkey
        rcases List.mem_cons.mp hkey with rfl | hkey
        · exact .inr (List.prefix_refl _)
        · exact .inl hkey⟩
    refine ⟨s2, ?_, ?_⟩
    · simp only [emitEntry]
      exact run_cons hstep hr2
    · have := hp1.trans (hp2.mono (fun k hk => hk.isPrefix))
      simpa only [entryFacts, List.singleton_append] using this
  | .arr [], _, _, _, _, _, hb, _, _, _, _ => by
    simp [Tree.entryIsTable, Tree.isTable, Tree.isAoT] at hb
  | .arr (.sc _ :: _), _, _, _, _, _, hb, _, _, _, _ => by
    simp [Tree.entryIsTable, Tree.isTable, Tree.isAoT] at hb
  | .arr (.arr _ :: _), _, _, _, _, _, hb, _, _, _, _ => by
    simp [Tree.entryIsTable, Tree.isTable, Tree.isAoT] at hb
  | .arr (.tbl fs :: xs), K, k, Q, s, hsafe, hb, hw, ho, he, hf => by
    simp only [SafeTree, SafeElems] at hsafe
    obtain ⟨⟨hn, hsf⟩, hsx⟩ := hsafe
    have haot : (Tree.arr (.tbl fs :: xs)).isAoT = true := by
      simpa [Tree.entryIsTable, Tree.isTable] using hb
    have hall : xs.all Tree.isTable = true := by
      simpa [Tree.isAoT, Tree.isTable] using haot
    obtain ⟨s1, hstep, hseen1, harr1, hout1, hcur1, hck1⟩ := step_arrayTable_fresh' hw ho he hf
    have hK : 0 < (K ++ [k]).length := by simp
    have hw1 : WF s1.arrays := by
      intro a ha
      rw [harr1] at ha
      rcases List.mem_append.mp ha with ha | ha
      · exact hw a ha
      · rw [List.mem_singleton] at ha
        subst ha
        exact ⟨by simp only [mkArr, keyPath_length], hK⟩
    have ho1 : ArrOrd s1.arrays := by
      rw [harr1, ArrOrd, List.pairwise_append]
      refine ⟨ho, List.pairwise_singleton _ _, fun b hb c hc => ?_⟩
      rw [List.mem_singleton] at hc
      subst hc
      exact hf.2 b hb
    have hm1 : mkArr (K ++ [k]) Q (0 + 1) ∈ s1.arrays := by
      rw [harr1]; exact List.mem_append_right _ (List.mem_singleton.mpr rfl)
    obtain ⟨s2, hr2, hp2⟩ := body_ok (K := K ++ [k]) (R := keyPath (K ++ [k]) ++ [.idx 0])
      (P := Q ++ [.idx 0]) (fs := fs) (s := s1)
      (fun s' hw' ho' he' hfr' => subs_ok fs (K ++ [k]) (Q ++ [.idx 0]) s' hn hsf hw' ho' he' hfr')
      (.inr ⟨0, rfl⟩) hck1 hcur1 hw1 ho1 (Encl_self hw1 hm1)
      (fun key hkey hs => hf.1 key (hseen1 ▸ hkey) hs.isPrefix)
      (fun a ha hs => by
        rw [harr1] at ha
        rcases List.mem_append.mp ha with ha | ha
        · exact hf.2 a ha hs.isPrefix
        · rw [List.mem_singleton] at ha
          subst ha
          exact SExt_irrefl _ hs) hn hsf
    have hm2 : mkArr (K ++ [k]) Q 1 ∈ s2.arrays := (hp2.frame.1 _ (SExt_irrefl _)).mpr hm1
    have hns2 : keyPath (K ++ [k]) ∉ s2.seen := by
      intro hmem
      rcases hp2.frame.2 _ hmem with h | h
      · exact hf.1 _ (hseen1 ▸ h) (List.prefix_refl _)
      · exact SExt_irrefl _ h
    obtain ⟨s3, hr3, hp3, _, _⟩ := elems_ok xs (K ++ [k]) Q 1 s2 hsx hall hp2.wf hp2.ord hm2 hns2
    have hp1 : Post (fun key => keyPath (K ++ [k]) <+: key) s s1
        [(Q, .arr), (Q ++ [.idx 0], .tbl)] :=
      ⟨hout1, hw1, ho1, fun a hna => by
        rw [harr1, List.mem_append, List.mem_singleton]
        constructor
        · rintro (h | h)
          · exact h
          · exact absurd (h ▸ List.prefix_refl _) hna
        · exact .inl, fun key hkey => .inl (hseen1 ▸ hkey)⟩
    refine ⟨s3, ?_, ?_⟩
    · simp only [emitEntry, haot, if_true, emitElems, emitElem]
      exact run_append (run_cons hstep hr2) hr3
    · have := (hp1.trans (hp2.mono (fun k hk => hk.isPrefix))).trans hp3
      simpa only [entryFacts, haot, if_true, elemsFacts, elemFacts, List.cons_append,
        List.nil_append, List.append_assoc, Nat.zero_add] using this
/-- the elements after the first of an array of tables `[[K']]` whose list sits at `base` -/
theorem elems_ok : ∀ (xs : List Tree) (K' : List Name) (base : Path) (i : Nat) (s : St),
    SafeElems xs → xs.all Tree.isTable = true → WF s.arrays → ArrOrd s.arrays →
    mkArr K' base i ∈ s.arrays → keyPath K' ∉ s.seen →
    ∃ s', run s (emitElems K' xs) = .ok s' ∧
      Post (fun key => keyPath K' <+: key) s s' (elemsFacts base i xs) ∧
      mkArr K' base (i + xs.length) ∈ s'.arrays ∧ keyPath K' ∉ s'.seen
  | [], K', base, i, s, _, _, hw, ho, hm, hns => by
    refine ⟨s, by simp only [emitElems, run], ⟨?_, hw, ho, Frame.refl _ _⟩, by simpa using hm, hns⟩
    simp [elemsFacts]
  | .sc _ :: _, _, _, _, _, _, hall, _, _, _, _ => by simp [Tree.isTable] at hall
  | .arr _ :: _, _, _, _, _, _, hall, _, _, _, _ => by simp [Tree.isTable] at hall
  | .tbl fs :: xs, K', base, i, s, hsafe, hall, hw, ho, hm, hns => by
    simp only [SafeElems, SafeTree] at hsafe
    obtain ⟨⟨hn, hsf⟩, hsx⟩ := hsafe
    have hall' : xs.all Tree.isTable = true := by simpa [Tree.isTable] using hall
    obtain ⟨pre, post, harr⟩ := List.append_of_mem hm
    obtain ⟨s1, hstep, hseen1, harr1, hout1, hcur1, hck1⟩ := step_arrayTable_next' harr ho hns
    obtain ⟨hw1, ho1, hfr1, hbel1, hm1⟩ := next_arrays harr hw ho
    rw [← harr1] at hw1 ho1 hfr1 hbel1 hm1
    obtain ⟨s2, hr2, hp2⟩ := body_ok (K := K') (R := keyPath K' ++ [.idx i])
      (P := base ++ [.idx i]) (fs := fs) (s := s1)
      (fun s' hw' ho' he' hfr' => subs_ok fs K' (base ++ [.idx i]) s' hn hsf hw' ho' he' hfr')
      (.inr ⟨i, rfl⟩) hck1 hcur1 hw1 ho1 (Encl_self hw1 hm1)
      (fun key hkey hs => by
        rw [hseen1, List.mem_filter] at hkey
        have := hkey.2
        simp only [Bool.not_eq_true', strictPrefix_false_iff] at this
        exact this hs)
      hbel1 hn hsf
    have hm2 : mkArr K' base (i + 1) ∈ s2.arrays := (hp2.frame.1 _ (SExt_irrefl _)).mpr hm1
    have hns1 : keyPath K' ∉ s1.seen := by
      rw [hseen1, List.mem_filter]
      exact fun h => hns h.1
    have hns2 : keyPath K' ∉ s2.seen := by
      intro hmem
      rcases hp2.frame.2 _ hmem with h | h
      · exact hns1 h
      · exact SExt_irrefl _ h
    obtain ⟨s3, hr3, hp3, hm3, hns3⟩ :=
      elems_ok xs K' base (i + 1) s2 hsx hall' hp2.wf hp2.ord hm2 hns2
    have hp1 : Post (fun key => keyPath K' <+: key) s s1 [(base ++ [.idx i], .tbl)] :=
      ⟨hout1, hw1, ho1, hfr1, fun key hkey => by
        rw [hseen1, List.mem_filter] at hkey
        exact .inl hkey.1⟩
    refine ⟨s3, ?_, ?_, ?_, hns3⟩
    · simp only [emitElems, emitElem]
      exact run_append (run_cons hstep hr2) hr3
    · have := (hp1.trans (hp2.mono (fun k hk => hk.isPrefix))).trans hp3
      simpa only [elemsFacts, elemFacts, List.cons_append, List.nil_append,
        List.append_assoc] using this
    · have e : i + (Tree.tbl fs :: xs).length = i + 1 + xs.length := by
        simp only [List.length_cons]; omega
      rw [e]; exact hm3
end

end CueVerif.Toml.Round

namespace CueVerif.Toml
open Round

/-- the encoder → decoder round trip on every TOML-safe tree -/
theorem roundtrip (t : Tree) (evs : List Ev) (hs : SafeTree t) (he : emit t = some evs) :
    ∃ fs, decode evs = .ok fs ∧ SameData fs (t.facts []) := by
  cases t with
  | sc a => simp [emit] at he
  | arr xs => simp [emit] at he
  | tbl fs =>
    simp only [emit, Option.some.injEq] at he
    subst he
    simp only [SafeTree] at hs
    have hw0 : WF St.init.arrays := fun a ha => by cases ha
    have ho0 : ArrOrd St.init.arrays := List.Pairwise.nil
    obtain ⟨s', hr, hp⟩ := body_ok (K := []) (R := []) (P := []) (fs := fs) (s := St.init)
      (fun s' hw' ho' he' hfr' => subs_ok fs [] [] s' hs.1 hs.2 hw' ho' he' hfr')
      (.inl rfl) rfl rfl hw0 ho0 (.inr ⟨fun b hb => (by cases hb), rfl⟩)
      (fun key hkey => by cases hkey) (fun a ha => by cases ha) hs.1 hs.2
    refine ⟨([], .tbl) :: s'.out, by simp only [decode, hr], ?_⟩
    rw [hp.out]
    exact bodyFacts_sameData fs

end CueVerif.Toml

