import CueVerif.Proofs.ExportValue
/-!
C07 (4) — proofs: export under `cue.Final()` evaluates to the Final projection of the value.
Core Lean only.
-/
namespace CueVerif.Export
open CueVerif CueVerif.Core

theorem projFinal_isBot (v : Val) : (projFinal v).isBot = v.isBot := by
  cases v <;> simp [projFinal, Val.isBot]

theorem isRegBot_proj (s : Slot) : (projSlot s).isRegBot = s.isRegBot := by
  cases s with
  | none => rfl
  | some t v => cases t <;> cases v <;> simp [projSlot, projFinal, Slot.isRegBot]

theorem hasRegBot_proj : ∀ xs : Slots, (projSlots xs).hasRegBot = xs.hasRegBot
  | .nil => rfl
  | .cons s rest => by simp [projSlots, Slots.hasRegBot, isRegBot_proj, hasRegBot_proj rest]

theorem hasBot_proj : ∀ vs : Vals, (projVals vs).hasBot = vs.hasBot
  | .nil => rfl
  | .cons v rest => by simp [projVals, Vals.hasBot, projFinal_isBot, hasBot_proj rest]

theorem exportFinalSlots_nil_iff : ∀ (xs : Slots) (i : Nat),
    exportFinalSlots i xs = .nil ↔ (trimSlots (projSlots xs)).isNil = true
  | .nil, i => by simp [exportFinalSlots, projSlots, trimSlots, Slots.isNil]
  | .cons .none rest, i => by
    simp only [projSlots, projSlot]
    rw [trim_cons_none]
    simp only [exportFinalSlots, exportFinalSlot]
    rw [exportFinalSlots_nil_iff rest (i + 1)]
    cases (trimSlots (projSlots rest)).isNil <;> simp [Slots.isNil]
  | .cons (.some .optional v) rest, i => by
    simp only [projSlots, projSlot]
    rw [trim_cons_none]
    simp only [exportFinalSlots, exportFinalSlot]
    rw [exportFinalSlots_nil_iff rest (i + 1)]
    cases (trimSlots (projSlots rest)).isNil <;> simp [Slots.isNil]
  | .cons (.some .regular v) rest, i => by
    simp only [projSlots, projSlot]
    rw [trim_cons_some]
    simp [exportFinalSlots, exportFinalSlot, Slots.isNil]
  | .cons (.some .required v) rest, i => by
    simp only [projSlots, projSlot]
    rw [trim_cons_some]
    simp [exportFinalSlots, exportFinalSlot, Slots.isNil]

/-- the step for a kept (regular or required) field -/
theorem final_step (i : Nat) (t : ArcTy) (v : Val) (rest : Slots) (ht : t ≠ .optional)
    (hv : eval (exportFinal v) = projFinal v)
    (ih : evalDecls (exportFinalSlots (i + 1) rest) = ofTrimmed (i + 1) (trimSlots (projSlots rest)))
    (hb1 : (Slot.some t v).isRegBot = false) (hb2 : rest.hasRegBot = false) :
    evalDecls (exportFinalSlots i (.cons (.some t v) rest)) =
      ofTrimmed i (trimSlots (projSlots (.cons (.some t v) rest))) := by
  have hp : projSlot (.some t v) = .some t (projFinal v) := by cases t <;> simp [projSlot] at ht ⊢
  have he : exportFinalSlot i (.some t v) = some (.field i t (exportFinal v)) := by
    cases t <;> simp [exportFinalSlot] at ht ⊢
  simp only [exportFinalSlots, he, projSlots, hp, evalDecls, evalDecl]
  rw [hv, ih, trim_cons_some,
    step_some i t (projFinal v) _ (by rw [← hp, isRegBot_proj]; exact hb1)
      (by rw [hasRegBot_trim, hasRegBot_proj]; exact hb2)]
  simp [ofTrimmed, Slots.isNil]

/-- the step for a skipped (absent or optional) slot -/
theorem final_skip (i : Nat) (s : Slot) (rest : Slots) (hs : exportFinalSlot i s = none)
    (hp : projSlot s = .none)
    (ih : evalDecls (exportFinalSlots (i + 1) rest) = ofTrimmed (i + 1) (trimSlots (projSlots rest))) :
    evalDecls (exportFinalSlots i (.cons s rest)) = ofTrimmed i (trimSlots (projSlots (.cons s rest))) := by
  simp only [exportFinalSlots, hs, projSlots, hp]
  rw [ih, step_none, trim_cons_none]

mutual
theorem eval_exportFinal : ∀ v : Val, v.wf = true → eval (exportFinal v) = projFinal v
  | .bot, _ => by simp [exportFinal, projFinal, eval]
  | .top, _ => by simp [exportFinal, projFinal, eval]
  | .sc s, h => by
    simp only [Val.wf] at h
    simp [exportFinal, projFinal, eval, litV, norm_of_wf s h]
  | .struct xs c, h => by
    simp only [Val.wf, Bool.and_eq_true, Bool.not_eq_true'] at h
    have hs := evalDecls_exportFinalSlots xs h.1.1 h.2 0
    have hn := exportFinalSlots_nil_iff xs 0
    simp only [exportFinal, projFinal]
    rw [eval_struct]
    cases hd : exportFinalSlots 0 xs with
    | nil =>
      have := (isNil_iff _).1 (hn.1 hd)
      rw [this]
    | cons d r =>
      simp only
      rw [← hd, hs]
      unfold ofTrimmed
      have : (trimSlots (projSlots xs)).isNil = false := by
        cases hx : (trimSlots (projSlots xs)).isNil with
        | false => rfl
        | true => rw [hn.2 hx] at hd; cases hd
      simp [this, pad]
  | .list vs, h => by
    simp only [Val.wf, Bool.and_eq_true, Bool.not_eq_true'] at h
    simp [exportFinal, projFinal, eval, evalList_exportFinalVals vs h.1, normL, hasBot_proj, h.2]
termination_by structural v => v
theorem evalDecls_exportFinalSlots : ∀ xs : Slots, xs.wf = true → xs.hasRegBot = false →
    ∀ i, evalDecls (exportFinalSlots i xs) = ofTrimmed i (trimSlots (projSlots xs))
  | .nil, _, _, i => by
    simp [exportFinalSlots, evalDecls, projSlots, trimSlots, ofTrimmed, Slots.isNil]
  | .cons s rest, h, hb, i => by
    simp only [Slots.wf, Bool.and_eq_true] at h
    simp only [Slots.hasRegBot, Bool.or_eq_false_iff] at hb
    have ih := evalDecls_exportFinalSlots rest h.2 hb.2 (i + 1)
    have hs := exportFinalSlot_sound s h.1
    cases s with
    | none => exact final_skip i .none rest rfl rfl ih
    | some t v =>
      cases t with
      | optional => exact final_skip i _ rest rfl rfl ih
      | regular => exact final_step i .regular v rest (by simp) hs ih hb.1 hb.2
      | required => exact final_step i .required v rest (by simp) hs ih hb.1 hb.2
termination_by structural xs => xs
theorem exportFinalSlot_sound : ∀ s : Slot, s.wf = true →
    (match s with
     | .none => True
     | .some _ v => eval (exportFinal v) = projFinal v)
  | .none, _ => trivial
  | .some _ v, h => by
    simp only [Slot.wf] at h
    exact eval_exportFinal v h
termination_by structural s => s
theorem evalList_exportFinalVals : ∀ vs : Vals, vs.wf = true →
    evalList (exportFinalVals vs) = projVals vs
  | .nil, _ => by simp [exportFinalVals, projVals, evalList]
  | .cons v rest, h => by
    simp only [Vals.wf, Bool.and_eq_true] at h
    simp [exportFinalVals, projVals, evalList, eval_exportFinal v h.1, evalList_exportFinalVals rest h.2]
termination_by structural vs => vs
end

/-- the Final projection is again a normal form -/
theorem noTrail_trim : ∀ xs : Slots, (trimSlots xs).noTrail = true
  | .nil => rfl
  | .cons s rest => by
    have ih := noTrail_trim rest
    simp only [trimSlots]
    split
    · rfl
    · rename_i h
      simp only [Bool.and_eq_true, Bool.not_eq_true', not_and, Bool.not_eq_true] at h
      simp only [Slots.noTrail, ih, Bool.and_true, Bool.or_eq_true, Bool.not_eq_true']
      cases hs : s.isSome with
      | true => exact Or.inl rfl
      | false => exact Or.inr (h hs)

theorem projFinal_wf (v : Val) (h : v.wf = true) : (projFinal v).wf = true := by
  rw [← eval_exportFinal v h]; exact eval_wf _

end CueVerif.Export
