/-
Assembly of the C09 quoting theorems from Proofs/Quote.lean (plain single-line round trip),
Proofs/QuoteHash.lean (raw copy between #…#) and Proofs/QuoteAscii.lean.
-/
import CueVerif.Proofs.Quote
import CueVerif.Proofs.QuoteHash
import CueVerif.Proofs.QuoteAscii
namespace CueVerif.Quote

/-- single-line round trip for either hash counter, outside the region where the raw copy
reads as a multi-line opener -/
theorem roundtrip_single_with {E : Env} (hE : E.Ok) (slhc : Env → Form → Bytes → Nat)
    (hpos : ∀ f s h, slhc E f s = h → 1 ≤ h →
      slhcLoop E f s 1 = some h)
    (f : Form) (hf : f.WF) (s : Bytes) (hb : IsBytes s) (hv : f.exact = true ∨ validUTF8 s = true)
    (hml : f.effMultiline s = false)
    (h2 : f.autoHash = true → 1 ≤ slhc E f s → startsTwoQuotes f.quote s = false) :
    unquote (quoteWith slhc E f s) = .ok s := by
  by_cases ha : f.autoHash = true
  · by_cases h0 : slhc E f s = 0
    · exact roundtrip_single_plain hE slhc f hf s hb hv hml (by simp [hashCountWith, ha, h0])
    · have hp : 1 ≤ slhc E f s := by omega
      rw [quoteWith_hashes_eq slhc f s hml ha _ rfl hp]
      exact roundtrip_hashes_core hE f hf s hb _ (hpos f s _ rfl hp) (h2 ha hp)
  · have ha' : f.autoHash = false := by simpa using ha
    exact roundtrip_single_plain hE slhc f hf s hb hv hml (by simp [hashCountWith, ha'])

theorem roundtrip_single {E : Env} (hE : E.Ok) (f : Form) (hf : f.WF) (s : Bytes) (hb : IsBytes s)
    (hv : f.exact = true ∨ validUTF8 s = true) (hml : f.effMultiline s = false)
    (ha : f.autoHash = false) : unquote (quote E f s) = .ok s :=
  roundtrip_single_with hE singleLineHashCount
    (fun f s h hs hp => slhc_pos_imp f s h hp hs) f hf s hb hv hml
    (fun h => by rw [ha] at h; cases h)

theorem roundtrip_hashes_partial {E : Env} (hE : E.Ok) (f : Form) (hf : f.WF) (s : Bytes)
    (hb : IsBytes s) (hv : f.exact = true ∨ validUTF8 s = true) (hml : f.effMultiline s = false)
    (h2 : startsTwoQuotes f.quote s = false) : unquote (quote E f s) = .ok s :=
  roundtrip_single_with hE singleLineHashCount
    (fun f s h hs hp => slhc_pos_imp f s h hp hs) f hf s hb hv hml (fun _ _ => h2)

theorem roundtrip_hashes_fixed {E : Env} (hE : E.Ok) (f : Form) (hf : f.WF) (s : Bytes)
    (hb : IsBytes s) (hv : f.exact = true ∨ validUTF8 s = true) (hml : f.effMultiline s = false) :
    unquote (quoteFixed E f s) = .ok s :=
  roundtrip_single_with hE singleLineHashCountFixed
    (fun f s h hs hp => (slhcFixed_pos_imp f s h hs hp).1) f hf s hb hv hml
    (fun _ hp => (slhcFixed_pos_imp f s _ rfl hp).2)

/-- an environment in which printable = graphic = the ASCII range 0x20..0x7E (for witnesses) -/
def asciiEnv : Env :=
  { isPrint := fun r => decide (0x20 ≤ r) && decide (r < 0x7F),
    isGraphic := fun r => decide (0x20 ≤ r) && decide (r < 0x7F) }

theorem asciiEnv_ok : asciiEnv.Ok := by constructor <;> decide

/-- the full-strength statement about `WithOptionalHashes` … -/
def roundtrip_hashes_stmt : Prop :=
  ∀ (E : Env), E.Ok → ∀ (f : Form), f.WF → ∀ (s : Bytes), IsBytes s →
    (f.exact = true ∨ validUTF8 s = true) → f.effMultiline s = false →
    unquote (quote E f s) = .ok s

/-- … is false of the code as it is: `""x` quotes to `#"""x"#`, which reads as a multi-line
opener -/
theorem roundtrip_hashes_false : ¬ roundtrip_hashes_stmt := by
  intro h
  have h1 := h asciiEnv asciiEnv_ok stringForm.withOptionalHashes (Or.inl ⟨rfl, rfl⟩)
    [0x22, 0x22, 0x78] (by intro b hb; simp at hb; omega) (Or.inr (by simp [validUTF8, decodeFirst])) (by decide)
  rw [hashes_witness_fails asciiEnv (by decide) (by decide)] at h1
  cases h1

theorem slhcFixed_cases (E : Env) (f : Form) (s : Bytes) :
    singleLineHashCountFixed E f s = 0 ∨ singleLineHashCountFixed E f s = singleLineHashCount E f s := by
  unfold singleLineHashCountFixed
  split
  · split
    · left; rfl
    · right; rfl
  · right; rfl

theorem quote_ascii {E : Env} (f : Form) (hf : f.WF) (ha : f.asciiOnly = true) (s : Bytes) :
    AllAscii (quote E f s) :=
  quoteWith_ascii singleLineHashCount (fun _ _ => Or.inr rfl) f
    (by rcases hf with h | h <;> simp [h.1]) ha s

theorem quoteFixed_ascii {E : Env} (f : Form) (hf : f.WF) (ha : f.asciiOnly = true) (s : Bytes) :
    AllAscii (quoteFixed E f s) :=
  quoteWith_ascii singleLineHashCountFixed (fun f s => slhcFixed_cases E f s) f
    (by rcases hf with h | h <;> simp [h.1]) ha s

end CueVerif.Quote
