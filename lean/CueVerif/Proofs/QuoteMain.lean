/-
Assembly of the C09 quoting theorems from Proofs/Quote.lean (plain single-line round trip),
Proofs/QuoteHash.lean (raw copy between #…#) and Proofs/QuoteAscii.lean.
-/
import CueVerif.Proofs.Quote
import CueVerif.Proofs.QuoteHash
import CueVerif.Proofs.QuoteAscii
namespace CueVerif.Quote

/-- single-line round trip for any hash counter that, when positive, is the loop's answer and
is never positive where the raw copy would read as a multi-line opener -/
theorem roundtrip_single_with {E : Env} (hE : E.Ok) (slhc : Env → Form → Bytes → Nat)
    (hpos : ∀ f s h, slhc E f s = h → 1 ≤ h →
      slhcLoop E f s 1 = some h)
    (f : Form) (hf : f.WF) (s : Bytes) (hb : IsBytes s) (hv : f.exact = true ∨ validUTF8 s = true)
    (hml : f.effMultiline s = false)
    (h2 : f.autoHash = true → 1 ≤ slhc E f s → startsTwoQuotes f.quote s = false) :
    unquote (quoteWith slhc E f s) = .ok s := by
  by_cases ha : f.autoHash = true
  · by_cases h0 : slhc E f s = 0
    · exact roundtrip_single_plain hE slhc f hf s hb hv hml (by simp [hashCountWith, ha, h0])
    · have hp : 1 ≤ slhc E f s := by omega
      rw [quoteWith_hashes_eq slhc f s hml ha _ rfl hp]
      exact roundtrip_hashes_core hE f hf s hb _ (hpos f s _ rfl hp) (h2 ha hp)
  · have ha' : f.autoHash = false := by simpa using ha
    exact roundtrip_single_plain hE slhc f hf s hb hv hml (by simp [hashCountWith, ha'])

/-- EVERY single-line form, with or without `WithOptionalHashes`, any number of '#' -/
theorem roundtrip_single_all {E : Env} (hE : E.Ok) (f : Form) (hf : f.WF) (s : Bytes)
    (hb : IsBytes s) (hv : f.exact = true ∨ validUTF8 s = true) (hml : f.effMultiline s = false) :
    unquote (quote E f s) = .ok s :=
  roundtrip_single_with hE singleLineHashCount
    (fun f s h hs hp => (slhc_pos_imp f s h hs hp).1) f hf s hb hv hml
    (fun _ hp => (slhc_pos_imp f s _ rfl hp).2)

/-- the OLD code round-trips outside the region where its raw copy read as a multi-line opener -/
theorem roundtrip_hashes_old_partial {E : Env} (hE : E.Ok) (f : Form) (hf : f.WF) (s : Bytes)
    (hb : IsBytes s) (hv : f.exact = true ∨ validUTF8 s = true) (hml : f.effMultiline s = false)
    (h2 : startsTwoQuotes f.quote s = false) : unquote (quoteOld E f s) = .ok s :=
  roundtrip_single_with hE singleLineHashCountOld
    (fun f s h hs hp => slhcOld_pos_imp f s h hp hs) f hf s hb hv hml (fun _ _ => h2)

/-- an environment in which printable = graphic = the ASCII range 0x20..0x7E (for witnesses) -/
def asciiEnv : Env :=
  { isPrint := fun r => decide (0x20 ≤ r) && decide (r < 0x7F),
    isGraphic := fun r => decide (0x20 ≤ r) && decide (r < 0x7F) }

theorem asciiEnv_ok : asciiEnv.Ok := by constructor <;> decide

/-- the full-strength statement for the OLD variant (before /repo a2b8800) … -/
def roundtrip_hashes_old_stmt : Prop :=
  ∀ (E : Env), E.Ok → ∀ (f : Form), f.WF → ∀ (s : Bytes), IsBytes s →
    (f.exact = true ∨ validUTF8 s = true) → f.effMultiline s = false →
    unquote (quoteOld E f s) = .ok s

/-- … was false: `""x` quoted to `#"""x"#`, which reads as a multi-line opener -/
theorem roundtrip_hashes_old_false : ¬ roundtrip_hashes_old_stmt := by
  intro h
  have h1 := h asciiEnv asciiEnv_ok stringForm.withOptionalHashes (Or.inl ⟨rfl, rfl⟩)
    [0x22, 0x22, 0x78] (by intro b hb; simp at hb; omega) (Or.inr (by simp [validUTF8, decodeFirst])) (by decide)
  rw [hashes_witness_fails_old asciiEnv (by decide) (by decide)] at h1
  cases h1

theorem slhc_cases (E : Env) (f : Form) (s : Bytes) :
    singleLineHashCount E f s = 0 ∨ singleLineHashCount E f s = singleLineHashCountOld E f s := by
  unfold singleLineHashCount singleLineHashCountOld
  split
  · left; rfl
  · split
    · left; rfl
    · right; rfl

theorem quote_ascii {E : Env} (f : Form) (hf : f.WF) (ha : f.asciiOnly = true) (s : Bytes) :
    AllAscii (quote E f s) :=
  quoteWith_ascii singleLineHashCount (fun f s => slhc_cases E f s) f
    (by rcases hf with h | h <;> simp [h.1]) ha s

/-- `\\u` / `\\U` escapes: the result is a rune ≤ MaxRune or a syntax error — never one of the
loop's sentinels, never a panic (the int32 overflow repaired by /repo 4627158) -/
theorem unquoteEscape_U_total (q : QuoteInfo) (e : Nat) (he : e = 0x75 ∨ e = 0x55) (t : Bytes) :
    (∃ v t', unquoteEscape q e t = .ok (.char v true, t') ∧ v ≤ 0x10FFFF) ∨
    unquoteEscape q e t = .error .syntax := by
  rcases he with rfl | rfl
  all_goals
    simp only [unquoteEscape]
    simp only [show ((0x75 : Nat) == 0x61) = false from rfl, show ((0x55 : Nat) == 0x61) = false from rfl]
    simp (config := { decide := true }) only [Bool.false_eq_true, if_false, if_true, Bool.or_true, Bool.true_or,
      beq_self_eq_true, Bool.or_false, Bool.false_or]
    split
    · right; rfl
    · split
      · right; rfl
      · next v hv =>
        split
        · right; rfl
        · next hc =>
          left
          refine ⟨v, _, rfl, ?_⟩
          simp only [Bool.or_eq_true, decide_eq_true_eq, not_or] at hc
          omega

end CueVerif.Quote
