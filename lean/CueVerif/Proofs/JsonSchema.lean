/-
C13 — laws of the JSON Schema oracle semantics `valid` (Spec/JsonSchema.lean): the strict
three-valued connectives, the Boolean applicators (double negation, De Morgan, allOf / anyOf /
oneOf, if/then/else), `const` = one-element `enum`, vacuity of kind-specific keywords on
other kinds, and fuel monotonicity (`valid_mono`).  Core Lean only.
-/
import CueVerif.Spec.JsonSchema

namespace CueVerif.JS

def sNot (s : Schema) : Schema := .obj [.not s]
def sAllOf (ss : List Schema) : Schema := .obj [.allOf ss]
def sAnyOf (ss : List Schema) : Schema := .obj [.anyOf ss]
def sOneOf (ss : List Schema) : Schema := .obj [.oneOf ss]
def sIf (c t e : Schema) : Schema := .obj [.ifS c, .thenS t, .elseS e]

/-! ## the strict connectives -/

@[simp] theorem all3_nil : all3 [] = some true := rfl
@[simp] theorem all3_none_cons (r) : all3 (none :: r) = none := rfl
@[simp] theorem all3_some_cons (b r) : all3 (some b :: r) = (all3 r).map (b && ·) := rfl
@[simp] theorem count3_nil : count3 [] = some 0 := rfl
@[simp] theorem count3_none_cons (r) : count3 (none :: r) = none := rfl
@[simp] theorem count3_some_cons (b r) :
    count3 (some b :: r) = (count3 r).map ((if b then 1 else 0) + ·) := rfl

theorem all3_singleton (x : Option Bool) : all3 [x] = x := by
  cases x <;> simp

theorem all3_cons_true (x : Option Bool) (r) (h : all3 r = some true) : all3 (x :: r) = x := by
  cases x <;> simp [h]

theorem not3_not3 (x : Option Bool) : not3 (not3 x) = x := by
  cases x <;> simp [not3]

/-- strictness of `all3`: a determined result means every operand is determined -/
theorem all3_isSome : ∀ (l : List (Option Bool)) (b), all3 l = some b → ∀ x ∈ l, x.isSome
  | [], _, _, x, hx => by cases hx
  | none :: r, b, h, _, _ => by simp at h
  | some a :: r, b, h, x, hx => by
    cases hr : all3 r with
    | none => simp [hr] at h
    | some c =>
      rcases List.mem_cons.1 hx with rfl | hx
      · rfl
      · exact all3_isSome r c hr x hx

/-- strictness of `count3` -/
theorem count3_isSome : ∀ (l : List (Option Bool)) (c), count3 l = some c → ∀ x ∈ l, x.isSome
  | [], _, _, x, hx => by cases hx
  | none :: r, b, h, _, _ => by simp at h
  | some a :: r, b, h, x, hx => by
    cases hr : count3 r with
    | none => simp [hr] at h
    | some c =>
      rcases List.mem_cons.1 hx with rfl | hx
      · rfl
      · exact count3_isSome r c hr x hx

/-- the converse: all operands determined ⇒ `count3` is determined and counts `some true` -/
theorem count3_of_isSome : ∀ (l : List (Option Bool)), (∀ x ∈ l, x.isSome) →
    count3 l = some (l.count (some true))
  | [], _ => rfl
  | none :: r, h => by have := h none (List.mem_cons_self ..); simp at this
  | some a :: r, h => by
    have ih := count3_of_isSome r (fun x hx => h x (List.mem_cons_of_mem _ hx))
    cases a <;> simp [ih] <;> omega

theorem count3_eq_some_iff (l : List (Option Bool)) (c : Nat) :
    count3 l = some c ↔ (∀ x ∈ l, x.isSome) ∧ c = l.count (some true) := by
  constructor
  · intro h
    have hs := count3_isSome l c h
    refine ⟨hs, ?_⟩
    rw [count3_of_isSome l hs] at h
    exact (Option.some.inj h).symm
  · rintro ⟨hs, rfl⟩
    exact count3_of_isSome l hs

theorem count3_map_not3_none (l : List (Option Bool)) :
    count3 (l.map not3) = none ↔ count3 l = none := by
  induction l with
  | nil => simp
  | cons x r ih =>
    cases x with
    | none => simp [not3]
    | some a =>
      cases hr : count3 r <;> cases hr' : count3 (r.map not3) <;> simp_all [not3]

/-- De Morgan on the connectives -/
theorem not3_any3 (l : List (Option Bool)) : not3 (any3 l) = all3 (l.map not3) := by
  induction l with
  | nil => rfl
  | cons x r ih =>
    cases x with
    | none => rfl
    | some a =>
      simp only [any3, not3, count3_some_cons, List.map_cons, Option.map_some, all3_some_cons,
        Option.map_map] at ih ⊢
      rw [← ih]
      cases count3 r with
      | none => rfl
      | some c => cases a <;> simp <;> omega

theorem not3_all3 (l : List (Option Bool)) : not3 (all3 l) = any3 (l.map not3) := by
  have h := not3_any3 (l.map not3)
  have hl : (l.map not3).map not3 = l := by
    rw [List.map_map]
    conv => rhs; rw [← List.map_id l]
    apply List.map_congr_left
    intro x _
    exact not3_not3 x
  rw [hl] at h
  rw [← h, not3_not3]

/-! ## Boolean schemas and the empty schema -/

theorem valid_true (re root n j) : valid re root (n+1) (.bool true) j = some true := rfl
theorem valid_false (re root n j) : valid re root (n+1) (.bool false) j = some false := rfl
theorem valid_empty (re root n j) : valid re root (n+1) (.obj []) j = some true := rfl

/-! ## applicators -/

theorem valid_sNot (re root n s j) :
    valid re root (n+1) (sNot s) j = not3 (valid re root n s j) := by
  simp only [sNot, valid, List.map_cons, List.map_nil, all3_singleton]
  cases j <;> rfl

/-- allOf / anyOf / oneOf are "all" / "at least one" / "exactly one" of the members' verdicts -/
theorem valid_allOf (re root n ss j) :
    valid re root (n+1) (sAllOf ss) j = all3 (ss.map (valid re root n · j)) := by
  simp only [sAllOf, valid, List.map_cons, List.map_nil, all3_singleton]
  cases j <;> rfl

theorem valid_anyOf (re root n ss j) :
    valid re root (n+1) (sAnyOf ss) j = any3 (ss.map (valid re root n · j)) := by
  simp only [sAnyOf, valid, List.map_cons, List.map_nil, all3_singleton]
  cases j <;> rfl

theorem valid_oneOf (re root n ss j) :
    valid re root (n+1) (sOneOf ss) j = one3 (ss.map (valid re root n · j)) := by
  simp only [sOneOf, valid, List.map_cons, List.map_nil, all3_singleton]
  cases j <;> rfl

/-- double negation -/
theorem valid_not_not (re root n s j) :
    valid re root (n+2) (sNot (sNot s)) j = valid re root n s j := by
  rw [valid_sNot, valid_sNot, not3_not3]

/-- De Morgan -/
theorem valid_not_anyOf (re root n ss j) :
    valid re root (n+2) (sNot (sAnyOf ss)) j = valid re root (n+2) (sAllOf (ss.map sNot)) j := by
  rw [valid_sNot, valid_anyOf, valid_allOf, not3_any3, List.map_map, List.map_map]
  apply congrArg
  apply List.map_congr_left
  intro s _
  simp only [Function.comp, valid_sNot]

theorem valid_not_allOf (re root n ss j) :
    valid re root (n+2) (sNot (sAllOf ss)) j = valid re root (n+2) (sAnyOf (ss.map sNot)) j := by
  rw [valid_sNot, valid_allOf, valid_anyOf, not3_all3, List.map_map, List.map_map]
  apply congrArg
  apply List.map_congr_left
  intro s _
  simp only [Function.comp, valid_sNot]

/-- when every member is determined, the three connectives are the Boolean
all / any / exactly-one -/
theorem all3_det (l : List Bool) : all3 (l.map some) = some (l.all id) := by
  induction l with
  | nil => rfl
  | cons a r ih => simp [ih]

theorem count3_det (l : List Bool) : count3 (l.map some) = some (l.count true) := by
  induction l with
  | nil => rfl
  | cons a r ih => cases a <;> simp [ih] <;> omega

theorem any3_det (l : List Bool) : any3 (l.map some) = some (l.any id) := by
  rw [any3, count3_det]
  simp only [Option.map_some, Option.some.injEq]
  induction l with
  | nil => rfl
  | cons a r ih =>
    cases a
    · simpa using ih
    · simp

theorem one3_det (l : List Bool) : one3 (l.map some) = some (l.count true == 1) := by
  rw [one3, count3_det]; rfl

/-- if/then/else -/
theorem valid_if (re root n c t e j) :
    valid re root (n+1) (sIf c t e) j =
      match valid re root n c j with
      | none => none
      | some true => valid re root n t j
      | some false => valid re root n e j := by
  have h2 : ∀ x : Option Bool, all3 [x, some true, some true] = x := by
    intro x; cases x <;> simp
  have hk : ∀ (rec : Schema → Json → Option Bool) res,
      all3 ([Kw.ifS c, .thenS t, .elseS e].map
        fun kw => kwHolds re rec res [Kw.ifS c, .thenS t, .elseS e] kw j) =
      match rec c j with
      | none => none
      | some true => rec t j
      | some false => rec e j := by
    intro rec res
    have e1 : kwHolds re rec res [Kw.ifS c, .thenS t, .elseS e] (.thenS t) j = some true := by
      cases j <;> rfl
    have e2 : kwHolds re rec res [Kw.ifS c, .thenS t, .elseS e] (.elseS e) j = some true := by
      cases j <;> rfl
    have e0 : kwHolds re rec res [Kw.ifS c, .thenS t, .elseS e] (.ifS c) j =
        match rec c j with
        | none => none
        | some true => rec t j
        | some false => rec e j := by
      cases j <;> rfl
    simp only [List.map_cons, List.map_nil, e1, e2, h2, e0]
  simp only [sIf, valid]
  exact hk _ _

/-- const is a one-element enum -/
theorem const_eq_enum (re rec res kws v j) :
    kwHolds re rec res kws (.const v) j = kwHolds re rec res kws (.enum [v]) j := by
  have h : ∀ j, jeq v j = [v].any (jeq · j) := by intro j; simp
  cases j <;> exact congrArg some (h _)

/-- a keyword specific to one kind holds on every instance of another kind -/
theorem kw_other_kind (re rec res kws) (kw : Kw) (k : Kind) (j : Json)
    (hk : kw.kindOf = some k) (hj : j.kind ≠ k) : kwHolds re rec res kws kw j = some true := by
  cases kw <;> cases j <;> first
    | rfl
    | (simp [Kw.kindOf] at hk; done)
    | (simp [Kw.kindOf] at hk; subst hk; simp [Json.kind] at hj; done)

/-! ## fuel monotonicity -/

/-- `rec'` extends `rec`: every verdict determined by `rec` is the same under `rec'` -/
def Ext (rec rec' : Schema → Json → Option Bool) : Prop :=
  ∀ s j b, rec s j = some b → rec' s j = some b

theorem map_eq_of_isSome {α} (f g : α → Option Bool) (l : List α)
    (hs : ∀ y ∈ l.map f, y.isSome) (hfg : ∀ x ∈ l, ∀ c, f x = some c → g x = some c) :
    l.map g = l.map f := by
  apply List.map_congr_left
  intro x hx
  have := hs (f x) (List.mem_map_of_mem hx)
  cases hfx : f x with
  | none => simp [hfx] at this
  | some c => exact hfg x hx c hfx

theorem all3_map_ext {α} (f g : α → Option Bool) (l : List α) (b)
    (h : all3 (l.map f) = some b) (hfg : ∀ x ∈ l, ∀ c, f x = some c → g x = some c) :
    all3 (l.map g) = some b := by
  rw [map_eq_of_isSome f g l (all3_isSome _ b h) hfg]; exact h

theorem count3_map_ext {α} (f g : α → Option Bool) (l : List α) (c)
    (h : count3 (l.map f) = some c) (hfg : ∀ x ∈ l, ∀ c, f x = some c → g x = some c) :
    count3 (l.map g) = some c := by
  rw [map_eq_of_isSome f g l (count3_isSome _ c h) hfg]; exact h

theorem all3_zipWith_ext (rec rec' : Schema → Json → Option Bool) (h : Ext rec rec') :
    ∀ (ss : List Schema) (xs : List Json) (b), all3 (List.zipWith rec ss xs) = some b →
      all3 (List.zipWith rec' ss xs) = some b
  | [], _, _, hb => by simpa using hb
  | _ :: _, [], _, hb => by simpa using hb
  | s :: ss, x :: xs, b, hb => by
    simp only [List.zipWith_cons_cons] at hb ⊢
    cases hr : rec s x with
    | none => simp [hr] at hb
    | some a =>
      rw [hr] at hb
      rw [h s x a hr]
      cases ht : all3 (List.zipWith rec ss xs) with
      | none => simp [ht] at hb
      | some c =>
        rw [all3_some_cons, ht] at hb
        rw [all3_some_cons, all3_zipWith_ext rec rec' h ss xs c ht]
        exact hb

/-! equations of `kwHolds` for the applicators that apply to every instance -/
theorem kwHolds_allOf (re rec res kws ss j) :
    kwHolds re rec res kws (.allOf ss) j = all3 (ss.map (rec · j)) := by cases j <;> rfl
theorem kwHolds_anyOf (re rec res kws ss j) :
    kwHolds re rec res kws (.anyOf ss) j = any3 (ss.map (rec · j)) := by cases j <;> rfl
theorem kwHolds_oneOf (re rec res kws ss j) :
    kwHolds re rec res kws (.oneOf ss) j = one3 (ss.map (rec · j)) := by cases j <;> rfl
theorem kwHolds_not (re rec res kws s j) :
    kwHolds re rec res kws (.not s) j = not3 (rec s j) := by cases j <;> rfl
theorem kwHolds_ifS (re rec res kws s j) :
    kwHolds re rec res kws (.ifS s) j =
      match rec s j with
      | none => none
      | some true => (match findThen kws with | some t => rec t j | none => some true)
      | some false => (match findElse kws with | some e => rec e j | none => some true) := by
  cases j <;> rfl
theorem kwHolds_ref (re rec res kws r j) :
    kwHolds re rec res kws (.ref r) j =
      (match res r with | some t => rec t j | none => none) := by cases j <;> rfl

theorem count3_map_map_ext {α β} (f g : α → Option Bool) (F : Nat → β) (l : List α) (b)
    (h : (count3 (l.map f)).map F = some b)
    (hfg : ∀ x ∈ l, ∀ c, f x = some c → g x = some c) :
    (count3 (l.map g)).map F = some b := by
  cases hc : count3 (l.map f) with
  | none => simp [hc] at h
  | some c => rw [count3_map_ext f g l c hc hfg, ← hc]; exact h

section
variable (re : String → String → Bool) (rec rec' : Schema → Json → Option Bool)
  (hx : Ext rec rec') (res : Ref → Option Schema) (kws : List Kw)
include hx

theorem kwHolds_ext_properties (ps kvs b) :
    kwHolds re rec res kws (.properties ps) (.obj kvs) = some b →
    kwHolds re rec' res kws (.properties ps) (.obj kvs) = some b := by
  intro hb
  refine all3_map_ext _ _ _ b hb ?_
  intro kv _ c
  cases ps.lookup kv.1 with
  | none => exact id
  | some s => exact hx _ _ _

theorem kwHolds_ext_patternProperties (ps kvs b) :
    kwHolds re rec res kws (.patternProperties ps) (.obj kvs) = some b →
    kwHolds re rec' res kws (.patternProperties ps) (.obj kvs) = some b := by
  intro hb
  refine all3_map_ext _ _ _ b hb ?_
  intro kv _ c hc
  exact all3_map_ext _ _ _ c hc (fun p _ c' => hx _ _ _)

theorem kwHolds_ext_additionalProperties (s kvs b) :
    kwHolds re rec res kws (.additionalProperties s) (.obj kvs) = some b →
    kwHolds re rec' res kws (.additionalProperties s) (.obj kvs) = some b := by
  intro hb
  exact all3_map_ext _ _ _ b hb (fun kv _ c => hx _ _ _)

theorem kwHolds_ext_propertyNames (s kvs b) :
    kwHolds re rec res kws (.propertyNames s) (.obj kvs) = some b →
    kwHolds re rec' res kws (.propertyNames s) (.obj kvs) = some b := by
  intro hb
  exact all3_map_ext _ _ _ b hb (fun kv _ c => hx _ _ _)

theorem kwHolds_ext_items (s xs b) :
    kwHolds re rec res kws (.items s) (.arr xs) = some b →
    kwHolds re rec' res kws (.items s) (.arr xs) = some b := by
  intro hb
  exact all3_map_ext _ _ _ b hb (fun x _ c => hx _ _ _)

theorem kwHolds_ext_prefixItems (ss xs b) :
    kwHolds re rec res kws (.prefixItems ss) (.arr xs) = some b →
    kwHolds re rec' res kws (.prefixItems ss) (.arr xs) = some b :=
  all3_zipWith_ext rec rec' hx ss xs b

theorem kwHolds_ext_contains (s xs b) :
    kwHolds re rec res kws (.contains s) (.arr xs) = some b →
    kwHolds re rec' res kws (.contains s) (.arr xs) = some b := by
  intro hb
  exact count3_map_map_ext _ _ _ _ b hb (fun x _ c => hx _ _ _)

theorem kwHolds_ext_allOf (ss j b) :
    kwHolds re rec res kws (.allOf ss) j = some b →
    kwHolds re rec' res kws (.allOf ss) j = some b := by
  rw [kwHolds_allOf, kwHolds_allOf]
  intro hb
  exact all3_map_ext _ _ _ b hb (fun s _ c => hx _ _ _)

theorem kwHolds_ext_anyOf (ss j b) :
    kwHolds re rec res kws (.anyOf ss) j = some b →
    kwHolds re rec' res kws (.anyOf ss) j = some b := by
  rw [kwHolds_anyOf, kwHolds_anyOf]
  intro hb
  exact count3_map_map_ext _ _ _ _ b hb (fun s _ c => hx _ _ _)

theorem kwHolds_ext_oneOf (ss j b) :
    kwHolds re rec res kws (.oneOf ss) j = some b →
    kwHolds re rec' res kws (.oneOf ss) j = some b := by
  rw [kwHolds_oneOf, kwHolds_oneOf]
  intro hb
  exact count3_map_map_ext _ _ _ _ b hb (fun s _ c => hx _ _ _)

theorem kwHolds_ext_not (s j b) :
    kwHolds re rec res kws (.not s) j = some b →
    kwHolds re rec' res kws (.not s) j = some b := by
  rw [kwHolds_not, kwHolds_not]
  cases hr : rec s j with
  | none => intro hb; simp [not3] at hb
  | some a => rw [hx s j a hr]; exact id

theorem kwHolds_ext_ifS (s j b) :
    kwHolds re rec res kws (.ifS s) j = some b →
    kwHolds re rec' res kws (.ifS s) j = some b := by
  rw [kwHolds_ifS, kwHolds_ifS]
  cases hr : rec s j with
  | none => intro hb; simp at hb
  | some a =>
    rw [hx s j a hr]
    cases a with
    | true =>
      cases findThen kws with
      | none => exact id
      | some t => exact hx _ _ _
    | false =>
      cases findElse kws with
      | none => exact id
      | some t => exact hx _ _ _

theorem kwHolds_ext_ref (r j b) :
    kwHolds re rec res kws (.ref r) j = some b →
    kwHolds re rec' res kws (.ref r) j = some b := by
  rw [kwHolds_ref, kwHolds_ref]
  cases res r with
  | none => exact id
  | some t => exact hx _ _ _

/-- one keyword: a verdict determined with evaluator `rec` is the same with any extension -/
theorem kwHolds_ext (kw : Kw) (j : Json) (b : Bool) :
    kwHolds re rec res kws kw j = some b → kwHolds re rec' res kws kw j = some b := by
  cases kw with
  | properties ps => cases j <;> first | exact id | exact kwHolds_ext_properties re rec rec' hx res kws _ _ b
  | patternProperties ps =>
    cases j <;> first | exact id | exact kwHolds_ext_patternProperties re rec rec' hx res kws _ _ b
  | additionalProperties s =>
    cases j <;> first | exact id | exact kwHolds_ext_additionalProperties re rec rec' hx res kws _ _ b
  | propertyNames s =>
    cases j <;> first | exact id | exact kwHolds_ext_propertyNames re rec rec' hx res kws _ _ b
  | items s => cases j <;> first | exact id | exact kwHolds_ext_items re rec rec' hx res kws _ _ b
  | prefixItems ss =>
    cases j <;> first | exact id | exact kwHolds_ext_prefixItems re rec rec' hx res kws _ _ b
  | contains s => cases j <;> first | exact id | exact kwHolds_ext_contains re rec rec' hx res kws _ _ b
  | allOf ss => exact kwHolds_ext_allOf re rec rec' hx res kws _ _ b
  | anyOf ss => exact kwHolds_ext_anyOf re rec rec' hx res kws _ _ b
  | oneOf ss => exact kwHolds_ext_oneOf re rec rec' hx res kws _ _ b
  | not s => exact kwHolds_ext_not re rec rec' hx res kws _ _ b
  | ifS s => exact kwHolds_ext_ifS re rec rec' hx res kws _ _ b
  | ref r => exact kwHolds_ext_ref re rec rec' hx res kws _ _ b
  | _ => cases j <;> exact id

end

/-- fuel monotonicity: a determined verdict never changes with more fuel -/
theorem valid_mono (re root) :
    ∀ n s j b, valid re root n s j = some b → valid re root (n+1) s j = some b := by
  intro n
  induction n with
  | zero => intro s j b h; simp [valid] at h
  | succ n ih =>
    intro s j b h
    cases s with
    | bool a => exact h
    | obj kws =>
      simp only [valid] at h ⊢
      exact all3_map_ext _ _ _ b h
        (fun kw _ c => kwHolds_ext re _ _ ih (resolve root) kws kw j c)

theorem valid_mono_le (re root n m s j b) (h : n ≤ m) :
    valid re root n s j = some b → valid re root m s j = some b := by
  induction h with
  | refl => exact id
  | step _ ih => exact fun hb => valid_mono re root _ s j b (ih hb)

end CueVerif.JS
