/-
Proofs for the intern-table model (Model/Intern.lean): invariant over all interleavings,
growth, injectivity, linearization points.
-/
import CueVerif.Model.Intern
import CueVerif.Proofs.LocksetMutex
namespace CueVerif.Intern
open CueVerif.Lockset

theorem progs_wellLocked : ∀ p ∈ progs, wellLocked guard true p = true := by
  decide

theorem grows (d0 : Tab) (hc : Consistent d0) (s s' : State)
    (hr : IRun d0 s) (hs : Steps sem progs initL s s') :
    ∃ ext, s'.data.labels = s.data.labels ++ ext := by
  sorry

theorem never_reassigned (d0 : Tab) (hc : Consistent d0)
    (s s' : State) (hr : IRun d0 s)
    (hs : Steps sem progs initL s s') (i : Nat) (k : Key)
    (h : s.data.labels[i]? = some k) : s'.data.labels[i]? = some k := by
  sorry

theorem nodup (d0 : Tab) (hc : Consistent d0) (s : State)
    (hr : IRun d0 s) : s.data.labels.Nodup := by
  sorry

theorem result (d0 : Tab) (hc : Consistent d0) (s : State)
    (hr : IRun d0 s) (t : Th Loc) (ht : t ∈ s.ths)
    (hp : t.prog = getKeyProg) (hd : t.st = .done) :
    s.data.labels[t.loc.p]? = some t.loc.s := by
  sorry

theorem injective (d0 : Tab) (hc : Consistent d0) (s : State)
    (hr : IRun d0 s) (t u : Th Loc) (ht : t ∈ s.ths) (hu : u ∈ s.ths)
    (hpt : t.prog = getKeyProg) (hpu : u.prog = getKeyProg)
    (hdt : t.st = .done) (hdu : u.st = .done) :
    t.loc.s = u.loc.s ↔ t.loc.p = u.loc.p := by
  sorry

theorem consistent_quiescent (d0 : Tab) (hc : Consistent d0) (s : State)
    (hr : IRun d0 s) (hq : ∀ t ∈ s.ths, t.held.contains ("mutex", true) = false) :
    Consistent s.data := by
  sorry

theorem name_stable (d0 : Tab) (hc : Consistent d0) (s s' : State)
    (hr : IRun d0 s) (i : Nat) (k : Key) (hk : s.data.labels[i]? = some k)
    (hs : Steps sem progs initL s s')
    (j : Nat) (t : Th Loc) (hj : s.ths.length ≤ j) (ht : s'.ths[j]? = some t)
    (hp : t.prog = indexToStringProg) (hi : t.loc.i = i) (hd : t.st = .done) :
    t.loc.out = some k := by
  sorry

theorem linearizable (d0 : Tab) (hc : Consistent d0)
    (s s' : State) (hr : IRun d0 s) (hst : IStep s s') :
    (∃ t, s'.ths = s.ths ++ [t] ∧ t.loc.lin = none ∧ s'.data = s.data) ∨
    (∃ i t t', s.ths[i]? = some t ∧ s'.ths = s.ths.set i t' ∧
      ((t'.loc.lin = t.loc.lin ∧ s'.data.labels = s.data.labels) ∨
       (t.prog = getKeyProg ∧ t.loc.lin = none ∧ t'.loc.s = t.loc.s ∧
        ∃ r, t'.loc.lin = some r ∧
          InternSpec.intern s.data.labels t.loc.s = (r, s'.data.labels)))) := by
  sorry

theorem returns_lin (d0 : Tab) (hc : Consistent d0) (s : State)
    (hr : IRun d0 s) (t : Th Loc) (ht : t ∈ s.ths)
    (hp : t.prog = getKeyProg) (hd : t.st = .done) :
    t.loc.lin = some t.loc.p := by
  sorry

end CueVerif.Intern
