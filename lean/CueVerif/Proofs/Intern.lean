/-
Proofs for the intern-table model (Model/Intern.lean): invariant over all interleavings,
growth, injectivity, linearization points.

The per-instruction lemmas are in Proofs/InternStep.lean, the global invariant `Inv` in
Proofs/InternInv.lean; here the theorems are read off.
-/
import CueVerif.Model.Intern
import CueVerif.Proofs.LocksetMutex
import CueVerif.Proofs.InternInv
namespace CueVerif.Intern
open CueVerif.Lockset

theorem progs_wellLocked : ∀ p ∈ progs, wellLocked guard true p = true := by
  decide

/-! ### the table only grows (needs no invariant) -/

theorem step_grows {s s' : State} (hs : IStep s s') :
    ∃ ext, s'.data.labels = s.data.labels ++ ext := by
  cases hs with
  | spawn p hp l0 hl => exact ⟨[], by simp⟩
  | thread a t ha d' t' hn =>
    rcases next_data sem _ _ t d' t' hn with ⟨hd, _⟩ | ⟨_, x, k, _, hd, _⟩
    · exact ⟨[], by simp [hd]⟩
    · obtain ⟨ext, he⟩ := (sem_acc_facts x k s.data t.loc).2.2.1
      exact ⟨ext, by rw [← he, ← hd]⟩

theorem steps_grows {s s' : State} (hs : Steps sem progs initL s s') :
    ∃ ext, s'.data.labels = s.data.labels ++ ext := by
  induction hs with
  | refl => exact ⟨[], by simp⟩
  | step _ h ih =>
    obtain ⟨e1, h1⟩ := ih
    obtain ⟨e2, h2⟩ := step_grows h
    exact ⟨e1 ++ e2, by rw [h2, h1, List.append_assoc]⟩

set_option linter.unusedVariables false in
theorem grows (d0 : Tab) (hc : Consistent d0) (s s' : State)
    (hr : IRun d0 s) (hs : Steps sem progs initL s s') :
    ∃ ext, s'.data.labels = s.data.labels ++ ext :=
  steps_grows hs

theorem get_of_grows {ls ext : List Key} {i : Nat} {k : Key} (h : ls[i]? = some k) :
    (ls ++ ext)[i]? = some k := by
  rw [List.getElem?_append_left (List.getElem?_eq_some_iff.1 h).1]; exact h

set_option linter.unusedVariables false in
theorem never_reassigned (d0 : Tab) (hc : Consistent d0)
    (s s' : State) (hr : IRun d0 s)
    (hs : Steps sem progs initL s s') (i : Nat) (k : Key)
    (h : s.data.labels[i]? = some k) : s'.data.labels[i]? = some k := by
  obtain ⟨ext, he⟩ := steps_grows hs
  rw [he]; exact get_of_grows h

/-! ### read off the invariant -/

theorem nodup (d0 : Tab) (hc : Consistent d0) (s : State)
    (hr : IRun d0 s) : s.data.labels.Nodup :=
  (Inv_run hc hr).C

theorem result (d0 : Tab) (hc : Consistent d0) (s : State)
    (hr : IRun d0 s) (t : Th Loc) (ht : t ∈ s.ths)
    (hp : t.prog = getKeyProg) (hd : t.st = .done) :
    s.data.labels[t.loc.p]? = some t.loc.s :=
  (GK_done ((Inv_run hc hr).D t ht hp) hd).1.1

theorem injective (d0 : Tab) (hc : Consistent d0) (s : State)
    (hr : IRun d0 s) (t u : Th Loc) (ht : t ∈ s.ths) (hu : u ∈ s.ths)
    (hpt : t.prog = getKeyProg) (hpu : u.prog = getKeyProg)
    (hdt : t.st = .done) (hdu : u.st = .done) :
    t.loc.s = u.loc.s ↔ t.loc.p = u.loc.p := by
  have h1 := result d0 hc s hr t ht hpt hdt
  have h2 := result d0 hc s hr u hu hpu hdu
  constructor
  · intro h
    rw [h] at h1
    exact nodup_get_inj (nodup d0 hc s hr) h1 h2
  · intro h
    rw [h, h2] at h1
    exact (Option.some.inj h1).symm

theorem consistent_quiescent (d0 : Tab) (hc : Consistent d0) (s : State)
    (hr : IRun d0 s) (hq : ∀ t ∈ s.ths, t.held.contains ("mutex", true) = false) :
    Consistent s.data := by
  have inv := Inv_run hc hr
  intro k i
  refine ⟨inv.A k i, fun h => ?_⟩
  rcases inv.B i k h with h | ⟨j, u, hj, hup, hust, hupc, _, _⟩
  · exact h
  · exfalso
    have hm := List.mem_of_getElem? hj
    have huW := (GK_run12 (inv.D u hm hup) hust hupc).1
    have := hq u hm
    rw [huW] at this
    simp at this

theorem returns_lin (d0 : Tab) (hc : Consistent d0) (s : State)
    (hr : IRun d0 s) (t : Th Loc) (ht : t ∈ s.ths)
    (hp : t.prog = getKeyProg) (hd : t.st = .done) :
    t.loc.lin = some t.loc.p :=
  (GK_done ((Inv_run hc hr).D t ht hp) hd).1.2

/-! ### `IndexToString` of an existing index -/

/-- state of an `IndexToString(i)` call relative to an entry `k` that exists: it has not
read yet, or it has read `k` -/
def NSOk (k : Key) (t : Th Loc) : Prop :=
  (t.st = .run ∧ t.pc ≤ 1 ∧ t.loc.out = none) ∨ t.loc.out = some k

theorem its_at0 : indexToStringProg[0]? = some (.acq "mutex" false) := rfl
theorem its_at1 : indexToStringProg[1]? = some (.acc "labels" .index) := rfl

theorem NSOk_next {fr : Lk → Bool → Bool} {d d' : Tab} {t t' : Th Loc} {k : Key}
    (hp : t.prog = indexToStringProg) (hk : d.labels[t.loc.i]? = some k) (hok : NSOk k t)
    (h : next sem fr d t = some (d', t')) : NSOk k t' := by
  rcases hok with ⟨hst, hpc, hout⟩ | hout
  · obtain ⟨prog, pc, held, dfr, st, loc⟩ := t
    simp only at hp hst hpc hout hk
    subst hp; subst hst
    match pc, hpc, h with
    | 0, _, h =>
      simp only [next, its_at0] at h
      split at h
      · cases h; exact .inl ⟨rfl, Nat.le_refl 1, hout⟩
      · cases h
    | 1, _, h =>
      simp only [next, its_at1, sem_index] at h
      cases h
      exact .inr hk
  · rcases next_data sem fr d t d' t' h with ⟨_, hl⟩ | ⟨_, x, a, _, _, hl⟩
    · exact .inr (by rw [hl]; exact hout)
    · rcases (sem_acc_facts x a d t.loc).2.2.2 with ho | ho
      · exact .inr (by rw [hl, ho]; exact hout)
      · exact .inr (by rw [hl, ho]; exact hk)

theorem next_loc_i {fr : Lk → Bool → Bool} {d d' : Tab} {t t' : Th Loc}
    (h : next sem fr d t = some (d', t')) : t'.loc.i = t.loc.i := by
  rcases next_data sem fr d t d' t' h with ⟨_, hl⟩ | ⟨_, x, a, _, _, hl⟩
  · rw [hl]
  · rw [hl]; exact (sem_acc_facts x a d t.loc).2.1

/-- the invariant of `name_stable` along `Steps s s'` -/
def NSInv (n i : Nat) (k : Key) (s' : State) : Prop :=
  s'.data.labels[i]? = some k ∧
  ∀ (j : Nat) (t : Th Loc), n ≤ j → s'.ths[j]? = some t → t.prog = indexToStringProg →
    t.loc.i = i → NSOk k t

theorem NSInv_step {n i : Nat} {k : Key} {s s' : State} (ih : NSInv n i k s)
    (hs : IStep s s') : NSInv n i k s' := by
  refine ⟨?_, ?_⟩
  · obtain ⟨ext, he⟩ := step_grows hs
    rw [he]; exact get_of_grows ih.1
  · cases hs with
    | spawn p hp l0 hl =>
      intro j t hj ht hpt hti
      change (s.ths ++ [Th.new p l0])[j]? = some t at ht
      by_cases hlt : j < s.ths.length
      · rw [List.getElem?_append_left hlt] at ht
        exact ih.2 j t hj ht hpt hti
      · rw [List.getElem?_append_right (Nat.le_of_not_lt hlt)] at ht
        have hm := List.mem_of_getElem? ht
        rw [List.mem_singleton] at hm
        subst hm
        exact .inl ⟨rfl, Nat.zero_le 1, hl.2.1⟩
    | thread a u ha d' u' hn =>
      intro j t hj ht hpt hti
      change (s.ths.set a u')[j]? = some t at ht
      by_cases haj : a = j
      · subst haj
        rw [List.getElem?_set_self (List.getElem?_eq_some_iff.1 ha).1] at ht
        cases ht
        have hpu : u.prog = indexToStringProg := (next_prog _ _ _ _ _ _ hn).symm.trans hpt
        have hiu : u.loc.i = i := (next_loc_i hn).symm.trans hti
        exact NSOk_next hpu (by rw [hiu]; exact ih.1) (ih.2 a u hj ha hpu hiu) hn
      · rw [List.getElem?_set_ne haj] at ht
        exact ih.2 j t hj ht hpt hti

theorem steps_NSInv {i : Nat} {k : Key} {s s' : State} (hk : s.data.labels[i]? = some k)
    (hs : Steps sem progs initL s s') : NSInv s.ths.length i k s' := by
  induction hs with
  | refl =>
    refine ⟨hk, ?_⟩
    intro j t hj ht
    rw [List.getElem?_eq_none hj] at ht
    cases ht
  | step _ h ih => exact NSInv_step ih h

set_option linter.unusedVariables false in
theorem name_stable (d0 : Tab) (hc : Consistent d0) (s s' : State)
    (hr : IRun d0 s) (i : Nat) (k : Key) (hk : s.data.labels[i]? = some k)
    (hs : Steps sem progs initL s s')
    (j : Nat) (t : Th Loc) (hj : s.ths.length ≤ j) (ht : s'.ths[j]? = some t)
    (hp : t.prog = indexToStringProg) (hi : t.loc.i = i) (hd : t.st = .done) :
    t.loc.out = some k := by
  have hinv := steps_NSInv hk hs
  rcases hinv.2 j t hj ht hp hi with ⟨hst, _, _⟩ | h
  · rw [hd] at hst; cases hst
  · exact h

/-! ### linearization points -/

theorem idxOf_of_get {ls : List Key} (hn : ls.Nodup) {r : Nat} {k : Key}
    (h : ls[r]? = some k) : InternSpec.idxOf? ls k = some r := by
  induction ls generalizing r with
  | nil => simp at h
  | cons x rest ih =>
    rw [List.nodup_cons] at hn
    rw [InternSpec.idxOf?]
    cases r with
    | zero =>
      simp only [List.getElem?_cons_zero, Option.some.injEq] at h
      rw [if_pos h]
    | succ n =>
      simp only [List.getElem?_cons_succ] at h
      have hne : ¬ x = k := by
        rintro rfl
        exact hn.1 (List.mem_of_getElem? h)
      rw [if_neg hne, ih hn.2 h]
      rfl

theorem idxOf_none {ls : List Key} {k : Key} (h : k ∉ ls) : InternSpec.idxOf? ls k = none := by
  induction ls with
  | nil => rfl
  | cons x rest ih =>
    rw [List.mem_cons, not_or] at h
    rw [InternSpec.idxOf?, if_neg (fun e => h.1 e.symm), ih h.2]
    rfl

theorem linearizable (d0 : Tab) (hc : Consistent d0)
    (s s' : State) (hr : IRun d0 s) (hst : IStep s s') :
    (∃ t, s'.ths = s.ths ++ [t] ∧ t.loc.lin = none ∧ s'.data = s.data) ∨
    (∃ i t t', s.ths[i]? = some t ∧ s'.ths = s.ths.set i t' ∧
      ((t'.loc.lin = t.loc.lin ∧ s'.data.labels = s.data.labels) ∨
       (t.prog = getKeyProg ∧ t.loc.lin = none ∧ t'.loc.s = t.loc.s ∧
        ∃ r, t'.loc.lin = some r ∧
          InternSpec.intern s.data.labels t.loc.s = (r, s'.data.labels)))) := by
  have inv := Inv_run hc hr
  have hmx := MX_run sem progs initL d0 s hr
  cases hst with
  | spawn p hp l0 hl => exact .inl ⟨Th.new p l0, rfl, hl.2.2, rfl⟩
  | thread a t ha d' t' hn =>
    refine .inr ⟨a, t, t', ha, rfl, ?_⟩
    rcases inv.P t (List.mem_of_getElem? ha) with hp | hp
    · have so := (Inv_gk inv hmx ha hp hn).2
      rcases so.lin with h | ⟨hl, r, hr', h⟩
      · exact .inl h
      · refine .inr ⟨hp, hl, so.s, r, hr', ?_⟩
        show InternSpec.intern s.data.labels t.loc.s = (r, d'.labels)
        rcases h with ⟨hd, hg⟩ | ⟨rfl, hd, hnin⟩
        · rw [InternSpec.intern, idxOf_of_get inv.C hg, hd]
        · rw [InternSpec.intern, idxOf_none hnin, hd]
    · obtain ⟨hd, hl⟩ := its_step hp hn
      exact .inl ⟨hl, by rw [hd]⟩

end CueVerif.Intern
