/-
C13 — the importer's KIND SKELETON (`finalize`) and COMBINATOR ENCODINGS
(Model/JsonSchemaSkel.lean) against the oracle semantics `valid` (Spec/JsonSchema.lean).
Core Lean only.
-/
import CueVerif.Model.JsonSchemaSkel
import CueVerif.Proofs.JsonSchema
namespace CueVerif.Skel
open CueVerif.JS

/-! ## `accepts` on the list-shaped values -/

/-- semantics of matchN: count the members that accept -/
theorem countAcc_eq (vs : List CVal) (j : Json) : countAcc vs j = vs.countP (accepts · j) := by
  induction vs with
  | nil => simp [countAcc]
  | cons v r ih =>
    rw [countAcc, ih, List.countP_cons]
    omega

theorem accepts_foldAnd (a : CVal) (r : List CVal) (j) :
    accepts (foldAnd a r) j = (accepts a j && r.all (accepts · j)) := by
  induction r generalizing a with
  | nil => simp [foldAnd]
  | cons b r ih => simp [foldAnd, ih, accepts, Bool.and_assoc]

theorem accepts_foldOr (a : CVal) (r : List CVal) (j) :
    accepts (foldOr a r) j = (accepts a j || r.any (accepts · j)) := by
  induction r generalizing a with
  | nil => simp [foldOr]
  | cons b r ih => simp [foldOr, ih, accepts, Bool.or_assoc]

theorem accepts_matchN (b : Bound) (vs : List CVal) (j : Json) :
    accepts (.matchN b vs) j = b.ok (vs.countP (accepts · j)) := by
  rw [accepts, countAcc_eq]

theorem countP_eq_length_iff_all {α} (p : α → Bool) (l : List α) :
    (l.countP p == l.length) = l.all p := by
  rw [Bool.eq_iff_iff]
  simp [List.countP_eq_length]

theorem one_le_countP_iff_any {α} (p : α → Bool) (l : List α) :
    decide (1 ≤ l.countP p) = l.any p := by
  rw [Bool.eq_iff_iff]
  simp

/-! ## kind sets -/

theorem KSet.isEmpty_iff (a : KSet) : a.isEmpty = true ↔ ∀ k, a k = false := by
  constructor
  · intro h k
    simp [KSet.isEmpty, CKind.all] at h
    cases k <;> simp [h]
  · intro h
    simp [KSet.isEmpty, CKind.all, h]

theorem KSet.beq_iff (a b : KSet) : a.beq b = true ↔ ∀ k, a k = b k := by
  constructor
  · intro h k
    simp [KSet.beq, CKind.all] at h
    cases k <;> simp [h]
  · intro h
    simp [KSet.beq, CKind.all, h]

theorem KSet.overlaps_iff (a b : KSet) : a.overlaps b = true ↔ ∃ k, a k = true ∧ b k = true := by
  constructor
  · intro h
    simp only [KSet.overlaps, List.any_eq_true, Bool.and_eq_true] at h
    obtain ⟨k, _, hk⟩ := h
    exact ⟨k, hk⟩
  · rintro ⟨k, hk⟩
    simp only [KSet.overlaps, List.any_eq_true, Bool.and_eq_true]
    exact ⟨k, by cases k <;> simp [CKind.all], hk⟩

theorem hasCore_iff (a : KSet) (t : CoreType) :
    hasCore a t = true ↔ ∃ k, k ∈ coreToCUE t ∧ a k = true := by
  simp [hasCore]

/-- kind-level ⊆ implies the core-level hsub used in `finalize_accepts` -/
theorem hasCore_mono (a b : KSet) (h : ∀ k, a k = true → b k = true) (t : CoreType) :
    hasCore a t = true → hasCore b t = true := by
  rw [hasCore_iff, hasCore_iff]
  rintro ⟨k, hk, ha⟩
  exact ⟨k, hk, h k ha⟩

theorem hasCore_congr (a b : KSet) (h : ∀ k, a k = b k) (t : CoreType) :
    hasCore a t = hasCore b t := by
  have : a = b := funext h
  rw [this]

theorem hasCore_of_isEmpty (a : KSet) (h : a.isEmpty = true) (t : CoreType) :
    hasCore a t = false := by
  rw [KSet.isEmpty_iff] at h
  cases hc : hasCore a t with
  | false => rfl
  | true =>
    obtain ⟨k, _, hk⟩ := (hasCore_iff a t).1 hc
    rw [h k] at hk; cases hk

/-- every kind lies in a core type -/
theorem exists_core (k : CKind) : ∃ t, k ∈ coreToCUE t := by
  cases k
  · exact ⟨.null, by simp [coreToCUE]⟩
  · exact ⟨.bool, by simp [coreToCUE]⟩
  · exact ⟨.num, by simp [coreToCUE]⟩
  · exact ⟨.num, by simp [coreToCUE]⟩
  · exact ⟨.string, by simp [coreToCUE]⟩
  · exact ⟨.array, by simp [coreToCUE]⟩
  · exact ⟨.object, by simp [coreToCUE]⟩

theorem exists_hasCore_of_not_isEmpty (a : KSet) (h : a.isEmpty = false) :
    ∃ t, hasCore a t = true := by
  have : ¬ ∀ k, a k = false := by
    intro hh
    rw [(KSet.isEmpty_iff a).2 hh] at h; cases h
  have : ∃ k, a k = true := by
    apply Classical.byContradiction
    intro hne
    apply this
    intro k
    cases hk : a k with
    | false => rfl
    | true => exact absurd ⟨k, hk⟩ hne
  obtain ⟨k, hk⟩ := this
  obtain ⟨t, ht⟩ := exists_core k
  exact ⟨t, (hasCore_iff a t).2 ⟨k, ht, hk⟩⟩

theorem hasCore_or (a b : KSet) (t : CoreType) :
    hasCore (fun k => a k || b k) t = (hasCore a t || hasCore b t) := by
  cases t <;> simp [hasCore, coreToCUE] <;> ac_rfl

theorem mem_CoreType_all (t : CoreType) : t ∈ CoreType.all := by
  cases t <;> simp [CoreType.all]

/-! ## `finalize` -/

/-- `finalize` without the syntactic case analysis: not `disallowed`, all the all-constraints,
and (if there is a type disjunction) one of its disjuncts -/
theorem accepts_finalize (st : St) (j : Json) :
    accepts (finalize st) j = (!st.allowed.isEmpty &&
      (st.all.all (accepts · j) &&
        ((disjuncts st).isEmpty || (disjuncts st).any (accepts · j)))) := by
  unfold finalize
  cases st.allowed.isEmpty with
  | true => simp [accepts]
  | false =>
    simp only [Bool.false_eq_true, ↓reduceIte]
    cases hd : disjuncts st with
    | nil =>
      simp only [List.append_nil]
      cases st.all with
      | nil => simp [accepts]
      | cons c cs => simp [accepts_foldAnd]
    | cons d ds =>
      cases st.all with
      | nil => simp [accepts_foldAnd, accepts_foldOr]
      | cons c cs => simp [accepts_foldAnd, accepts_foldOr, List.all_append, Bool.and_assoc]

theorem any_filterMap {α β} (f : α → Option β) (g : β → Bool) (l : List α) :
    (l.filterMap f).any g = l.any (fun t => (f t).any g) := by
  induction l with
  | nil => rfl
  | cons a r ih =>
    cases h : f a with
    | none => simp [h, ih]
    | some b => simp [h, ih]

/-- a list of disjuncts indexed by core type, each accepting only its own type, accepts `j`
iff the disjunct of `j`'s type does -/
theorem any_core_filterMap (f : CoreType → Option CVal) (j : Json)
    (hown : ∀ t v, f t = some v → accepts v j = true → t = coreOf j) :
    (CoreType.all.filterMap f).any (accepts · j) = (f (coreOf j)).any (accepts · j) := by
  rw [any_filterMap, Bool.eq_iff_iff]
  constructor
  · intro h
    obtain ⟨t, _, ht⟩ := List.any_eq_true.1 h
    cases hf : f t with
    | none => simp [hf] at ht
    | some v =>
      simp only [hf, Option.any_some] at ht
      rw [← hown t v hf ht, hf]; simpa using ht
  · intro h
    exact List.any_eq_true.2 ⟨coreOf j, mem_CoreType_all _, h⟩

theorem disjunctFor_own (st : St) (t : CoreType) (v : CVal) (j : Json)
    (h : disjunctFor st t = some v) (ha : accepts v j = true) : t = coreOf j := by
  unfold disjunctFor at h
  split at h
  · rename_i c r hl
    split at h
    · cases h
      rw [accepts_foldAnd] at ha
      have hc : c ∈ st.leaves t := by rw [hl]; exact List.mem_cons_self ..
      simp only [St.leaves, List.mem_map] at hc
      obtain ⟨p, _, rfl⟩ := hc
      simp [accepts] at ha
      exact ha.1.1.symm
    · cases h
  · split at h
    · cases h
      simp [accepts] at ha
      exact ha.symm
    · cases h

/-- what the disjunct of `j`'s own core type accepts -/
theorem disjunctFor_self (st : St) (j : Json) :
    (disjunctFor st (coreOf j)).any (accepts · j) =
      (hasCore st.allowed (coreOf j) &&
        (hasCore st.known (coreOf j) || !(st.types (coreOf j)).isEmpty) &&
        (st.types (coreOf j)).all (· j)) := by
  unfold disjunctFor St.leaves
  cases hl : st.types (coreOf j) with
  | nil => cases h1 : hasCore st.allowed (coreOf j) <;> cases h2 : hasCore st.known (coreOf j) <;>
      simp [accepts]
  | cons p r =>
    cases h1 : hasCore st.allowed (coreOf j) <;>
      simp [accepts, accepts_foldAnd, List.all_map, Function.comp_def]

theorem disjunctFor_isSome (st : St) (t : CoreType)
    (ha : hasCore st.allowed t = true) (hk : hasCore st.known t = true) :
    (disjunctFor st t).isSome = true := by
  unfold disjunctFor
  split <;> simp [ha, hk]

/-- THE KIND SKELETON.  hknown = meaning of knownTypes ("the all-constraints already restrict to
these kinds"); hsub = allowedTypes ⊆ knownTypes (an invariant of the builders). -/
theorem finalize_accepts (st : St) (j : Json)
    (hknown : ∀ j, st.all.all (accepts · j) = true → hasCore st.known (coreOf j) = true)
    (hsub : ∀ t, hasCore st.allowed t = true → hasCore st.known t = true) :
    accepts (finalize st) j =
      (hasCore st.allowed (coreOf j) && st.all.all (accepts · j) && (st.types (coreOf j)).all (· j)) := by
  rw [accepts_finalize]
  cases hemp : st.allowed.isEmpty with
  | true => simp [hasCore_of_isEmpty _ hemp]
  | false =>
    simp only [Bool.not_false, Bool.true_and]
    cases hneed : needsTypeDisjunction st with
    | false =>
      simp only [disjuncts, hneed, Bool.false_eq_true, ↓reduceIte, List.isEmpty_nil, Bool.true_or,
        Bool.and_true]
      cases hall : st.all.all (accepts · j) with
      | false => simp
      | true =>
        simp only [needsTypeDisjunction, Bool.or_eq_false_iff, Bool.not_eq_false',
          List.any_eq_false] at hneed
        have hk := hknown j hall
        rw [← hasCore_congr _ _ ((KSet.beq_iff _ _).1 hneed.1)] at hk
        have ht := hneed.2 (coreOf j) (mem_CoreType_all _)
        simp only [hk, Bool.and_true, Bool.not_eq_true, Bool.not_eq_false'] at ht
        rw [hk]
        simp only [List.isEmpty_iff] at ht
        simp [ht]
    | true =>
      simp only [disjuncts, hneed, ↓reduceIte]
      obtain ⟨t0, ht0⟩ := exists_hasCore_of_not_isEmpty _ hemp
      have hsome := disjunctFor_isSome st t0 ht0 (hsub t0 ht0)
      have hne : (CoreType.all.filterMap (disjunctFor st)).isEmpty = false := by
        obtain ⟨v, hv⟩ := Option.isSome_iff_exists.1 hsome
        have : v ∈ CoreType.all.filterMap (disjunctFor st) :=
          List.mem_filterMap.2 ⟨t0, mem_CoreType_all _, hv⟩
        cases hd : CoreType.all.filterMap (disjunctFor st) with
        | nil => rw [hd] at this; cases this
        | cons d ds => rfl
      rw [hne, any_core_filterMap (disjunctFor st) j
          (fun t v h ha => disjunctFor_own st t v j h ha), disjunctFor_self]
      cases h1 : hasCore st.allowed (coreOf j) with
      | false => simp
      | true => simp [hsub _ h1]

/-- without hsub the statement fails: allowed = {string}, known = {number}, one all-constraint
accepting numbers -/
def finalize_accepts_nosub_stmt : Prop :=
  ∀ (st : St) (j : Json),
    (∀ j, st.all.all (accepts · j) = true → hasCore st.known (coreOf j) = true) →
    accepts (finalize st) j =
      (hasCore st.allowed (coreOf j) && st.all.all (accepts · j) && (st.types (coreOf j)).all (· j))

theorem finalize_accepts_nosub_false : ¬ finalize_accepts_nosub_stmt := by
  intro h
  have := h ⟨fun k => k == .string, fun k => k == .int || k == .float, fun _ => [], [.kind .num]⟩
    (.num ⟨0, 1⟩)
    (by intro j; cases j <;> simp [accepts, coreOf, hasCore, coreToCUE])
  simp [finalize, KSet.isEmpty, CKind.all, disjuncts, needsTypeDisjunction, KSet.beq,
    CoreType.all, disjunctFor, St.leaves, hasCore, coreToCUE, accepts, coreOf, foldAnd] at this

/-! ## the builders preserve allowed ⊆ known -/

theorem applyType_sub (lit ts) (st : St) (h : ∀ k, st.allowed k = true → st.known k = true) :
    ∀ k, (applyType lit ts st).allowed k = true → (applyType lit ts st).known k = true := by
  intro k hk
  simp only [applyType, KSet.inter, Bool.and_eq_true] at hk ⊢
  exact h k hk.1

theorem applyEnum_sub (kinds v) (st : St) (h : ∀ k, st.allowed k = true → st.known k = true) :
    ∀ k, (applyEnum kinds v st).allowed k = true → (applyEnum kinds v st).known k = true := by
  intro k hk
  simp only [applyEnum, KSet.inter, Bool.and_eq_true] at hk ⊢
  exact ⟨h k hk.1, hk.2⟩

/-! ## each combinator encoding is exact w.r.t. the specification `valid` -/

/-- `List.Forall₂` is not in core Lean (it lives in Batteries/Mathlib, which this project does
not link): the same inductive definition, local to this namespace -/
inductive List.Forall₂ {α β : Type _} (R : α → β → Prop) : List α → List β → Prop
  | nil : List.Forall₂ R [] []
  | cons {a b l₁ l₂} : R a b → List.Forall₂ R l₁ l₂ → List.Forall₂ R (a :: l₁) (b :: l₂)

/-- the usual way to obtain it: the second list is the image of the first -/
theorem List.Forall₂.of_map {α β : Type _} (R : α → β → Prop) (f : α → β) :
    ∀ (l : List α), (∀ a ∈ l, R a (f a)) → List.Forall₂ R l (l.map f)
  | [], _ => .nil
  | a :: l, h => .cons (h a (List.mem_cons_self ..))
      (List.Forall₂.of_map R f l (fun x hx => h x (List.mem_cons_of_mem _ hx)))

theorem forall₂_map (re root n j) (ss : List Schema) (vs : List CVal)
    (h : List.Forall₂ (fun s v => valid re root n s j = some (accepts v j)) ss vs) :
    ss.map (valid re root n · j) = (vs.map (accepts · j)).map some := by
  induction h with
  | nil => rfl
  | cons h _ ih => simp only [List.map_cons, h, ih]

theorem count_true_map {α} (p : α → Bool) (l : List α) : (l.map p).count true = l.countP p := by
  induction l with
  | nil => rfl
  | cons a r ih => cases h : p a <;> simp [h, ih]

theorem not_exact (re root n s j) (v : CVal) (h : valid re root n s j = some (accepts v j)) :
    valid re root (n+1) (sNot s) j = some (accepts (encNot v) j) := by
  rw [valid_sNot, h, encNot, accepts_matchN]
  cases h : accepts v j <;> simp [not3, Bound.ok, h]

theorem anyOf_exact (re root n j) (ss : List Schema) (vs : List CVal)
    (h : List.Forall₂ (fun s v => valid re root n s j = some (accepts v j)) ss vs) :
    valid re root (n+1) (sAnyOf ss) j = some (accepts (.matchN (.ge 1) vs) j) := by
  rw [valid_anyOf, forall₂_map re root n j ss vs h, any3, count3_det, count_true_map,
    accepts_matchN]
  rfl

theorem oneOf_exact (re root n j) (ss : List Schema) (vs : List CVal)
    (h : List.Forall₂ (fun s v => valid re root n s j = some (accepts v j)) ss vs) :
    valid re root (n+1) (sOneOf ss) j = some (accepts (.matchN (.eq 1) vs) j) := by
  rw [valid_oneOf, forall₂_map re root n j ss vs h, one3_det, count_true_map, accepts_matchN]
  rfl

theorem allOf_exact (re root n j) (ss : List Schema) (vs : List CVal)
    (h : List.Forall₂ (fun s v => valid re root n s j = some (accepts v j)) ss vs) :
    valid re root (n+1) (sAllOf ss) j = some (accepts (.matchN (.eq vs.length) vs) j) := by
  rw [valid_allOf, forall₂_map re root n j ss vs h, all3_det, accepts_matchN]
  simp only [Bound.ok, countP_eq_length_iff_all, List.all_map]
  rfl

theorem if_exact (re root n j) (c t e : Schema) (vc vt ve : CVal)
    (hc : valid re root n c j = some (accepts vc j)) (ht : valid re root n t j = some (accepts vt j))
    (he : valid re root n e j = some (accepts ve j)) :
    valid re root (n+1) (sIf c t e) j = some (accepts (.matchIf vc vt ve) j) := by
  rw [valid_if, hc, ht, he, accepts]
  cases accepts vc j <;> simp

/-- `then` is translated with allowed types narrowed by those of `if`: harmless, because `then`
is only consulted when `if` accepted -/
theorem if_then_narrowing (vi vt vt' ve : CVal) (j : Json)
    (h : accepts vi j = true → accepts vt' j = accepts vt j) :
    accepts (.matchIf vi vt' ve) j = accepts (.matchIf vi vt ve) j := by
  rw [accepts, accepts]
  cases hi : accepts vi j with
  | false => simp
  | true => simp [h hi]

/-! ## the combinators as the importer encodes them (filtering, shortcuts, `allowedTypes`) -/

/-- well-formedness of what schemaState returns for a member -/
structure Sub.WF (s : Sub) : Prop where
  sound : ∀ j, accepts s.expr j = true → hasCore s.allowed (coreOf j) = true
  exact : s.hasConstraints = false → ∀ j, accepts s.expr j = hasCore s.allowed (coreOf j)
  whole : s.hasConstraints = false → s.allowed .int = s.allowed .float

def encAccepts (o : Option CVal) (dflt : Bool) (j : Json) : Bool :=
  match o with | none => dflt | some e => accepts e j

theorem all_congr_mem {α} (p q : α → Bool) : ∀ (l : List α), (∀ a ∈ l, p a = q a) → l.all p = l.all q
  | [], _ => rfl
  | a :: r, h => by
    rw [List.all_cons, List.all_cons, h a (List.mem_cons_self ..),
      all_congr_mem p q r (fun x hx => h x (List.mem_cons_of_mem _ hx))]

theorem all_split {α} (p q : α → Bool) (l : List α) :
    l.all p = ((l.filter q).all p && (l.filter (fun x => !q x)).all p) := by
  induction l with
  | nil => rfl
  | cons a r ih =>
    cases hq : q a <;> simp [hq, ih, Bool.and_assoc, Bool.and_left_comm]

/-- dropping members that accept nothing changes neither "some member accepts" … -/
theorem any_filter_drop {α} (p q : α → Bool) (l : List α) (h : ∀ a ∈ l, q a = false → p a = false) :
    (l.filter q).any p = l.any p := by
  induction l with
  | nil => rfl
  | cons a r ih =>
    have ih := ih (fun x hx => h x (List.mem_cons_of_mem _ hx))
    cases hq : q a with
    | true => simp [hq, ih]
    | false => simp [hq, ih, h a (List.mem_cons_self ..) hq]

/-- … nor the number of members that accept -/
theorem countP_filter_drop {α} (p q : α → Bool) (l : List α)
    (h : ∀ a ∈ l, q a = false → p a = false) :
    (l.filter q).countP p = l.countP p := by
  induction l with
  | nil => rfl
  | cons a r ih =>
    have ih := ih (fun x hx => h x (List.mem_cons_of_mem _ hx))
    cases hq : q a with
    | true => simp [hq, List.countP_cons, ih]
    | false => simp [hq, ih, h a (List.mem_cons_self ..) hq]

theorem hasCore_full (t : CoreType) : hasCore KSet.full t = true := by
  cases t <;> rfl

/-- a member without allowed types accepts nothing -/
theorem Sub.WF.dropped {s : Sub} (hwf : s.WF) (j : Json) (h : (!s.allowed.isEmpty) = false) :
    accepts s.expr j = false := by
  cases ha : accepts s.expr j with
  | false => rfl
  | true =>
    have := hwf.sound j ha
    rw [hasCore_of_isEmpty _ (by simpa using h)] at this
    cases this

/-! ### allOf -/

/-- allOf as the importer encodes it (members without constraints dropped, count = len(items)) -/
def allOf_enc_stmt : Prop :=
  ∀ (subs : List Sub) (j : Json), (∀ s ∈ subs, s.WF) →
    (encAccepts (encAllOf subs) true j &&
        (subs.filter (!·.hasConstraints)).all (fun s => hasCore s.allowed (coreOf j)))
      = subs.all (fun s => accepts s.expr j)

/-- FALSE (model and code alike): three members, the first without constraints:
matchN(3, [a, b]) can never hold.
Witness: subs = [⟨.top, KSet.full, KSet.full, false⟩, ⟨.leaf .num (fun _ => true), KSet.full,
KSet.full, true⟩, ⟨.leaf .num (fun _ => true), KSet.full, KSet.full, true⟩], j = .num ⟨4, 1⟩ -/
theorem allOf_enc_false : ¬ allOf_enc_stmt := by
  intro h
  have hc : Sub.WF ⟨.leaf .num (fun _ => true), KSet.full, KSet.full, true⟩ :=
    ⟨fun _ _ => hasCore_full _, (fun h => by simp at h), (fun h => by simp at h)⟩
  have := h [⟨.top, KSet.full, KSet.full, false⟩,
      ⟨.leaf .num (fun _ => true), KSet.full, KSet.full, true⟩,
      ⟨.leaf .num (fun _ => true), KSet.full, KSet.full, true⟩] (.num ⟨4, 1⟩) (by
    intro s hs
    simp only [List.mem_cons, List.not_mem_nil, or_false] at hs
    rcases hs with rfl | rfl | rfl
    · exact ⟨fun _ _ => hasCore_full _, (fun _ j => by simp [accepts, hasCore_full]), (fun _ => rfl)⟩
    · exact hc
    · exact hc)
  simp [encAllOf, encAccepts, accepts, countAcc, coreOf, Bound.ok, hasCore_full] at this

theorem encAllOf_many (subs : List Sub)
    (h : 2 ≤ (subs.filter (·.hasConstraints)).length) :
    encAllOf subs =
      some (.matchN (.eq subs.length) ((subs.filter (·.hasConstraints)).map (·.expr))) := by
  unfold encAllOf
  cases hf : subs.filter (·.hasConstraints) with
  | nil => rw [hf] at h; simp at h
  | cons x r =>
    cases r with
    | nil => rw [hf] at h; simp at h
    | cons y r' => rfl

theorem allOf_enc_partial (subs : List Sub) (j : Json) (hwf : ∀ s ∈ subs, s.WF)
    (hreg : (subs.filter (·.hasConstraints)).length ≤ 1 ∨ subs.all (·.hasConstraints) = true) :
    (encAccepts (encAllOf subs) true j &&
        (subs.filter (!·.hasConstraints)).all (fun s => hasCore s.allowed (coreOf j)))
      = subs.all (fun s => accepts s.expr j) := by
  have hun : (subs.filter (!·.hasConstraints)).all (fun s => hasCore s.allowed (coreOf j)) =
      (subs.filter (!·.hasConstraints)).all (fun s => accepts s.expr j) := by
    apply all_congr_mem
    intro s hs
    obtain ⟨hm, hc⟩ := List.mem_filter.1 hs
    exact ((hwf s hm).exact (by simpa using hc) j).symm
  have hcon : encAccepts (encAllOf subs) true j =
      (subs.filter (·.hasConstraints)).all (fun s => accepts s.expr j) := by
    cases hf : subs.filter (·.hasConstraints) with
    | nil => simp [encAllOf, hf, encAccepts]
    | cons x r =>
      cases r with
      | nil => simp [encAllOf, hf, encAccepts]
      | cons y r' =>
        have hall : subs.all (·.hasConstraints) = true := by
          rcases hreg with h | h
          · rw [hf] at h; simp at h
          · exact h
        have hself : subs.filter (·.hasConstraints) = subs :=
          List.filter_eq_self.2 (by simpa using hall)
        rw [← hf, encAllOf_many subs (by rw [hf]; simp), hself, encAccepts, accepts_matchN,
          List.countP_map]
        simp only [Bound.ok]
        rw [← List.length_map (f := (·.expr)) (as := subs), ← List.countP_map,
          countP_eq_length_iff_all, List.all_map]
        rfl
  rw [hun, hcon]
  exact (all_split _ _ subs).symm

/-! ### anyOf -/

/-- anyOf as encoded (members with no allowed type dropped; nothing left = nothing accepted) -/
theorem anyOf_enc (allowed : KSet) (subs : List Sub) (j : Json) (hwf : ∀ s ∈ subs, s.WF) :
    encAccepts (encAnyOf allowed subs).1 false j = subs.any (fun s => accepts s.expr j) := by
  rw [← any_filter_drop (fun s => accepts s.expr j) (!·.allowed.isEmpty) subs
    (fun s hs h => (hwf s hs).dropped j h)]
  unfold encAnyOf
  simp only []
  generalize subs.filter (!·.allowed.isEmpty) = a
  cases a with
  | nil => simp [encAccepts]
  | cons x r =>
    cases r with
    | nil => simp [encAccepts]
    | cons y r' =>
      simp only [List.map_cons, encAccepts, accepts_matchN, Bound.ok, one_le_countP_iff_any]
      simp [List.any_map, Function.comp_def]

/-- narrowing allowedTypes to the union of the members' loses nothing -/
theorem anyOf_allowed_sound (subs : List Sub) (j : Json) (hwf : ∀ s ∈ subs, s.WF)
    (h : subs.any (fun s => accepts s.expr j) = true) :
    hasCore (unionAllowed (subs.filter (!·.allowed.isEmpty))) (coreOf j) = true := by
  obtain ⟨s, hs, ha⟩ := List.any_eq_true.1 h
  have hc := (hwf s hs).sound j ha
  have hne : (!s.allowed.isEmpty) = true := by
    cases he : (!s.allowed.isEmpty) with
    | true => rfl
    | false => rw [(hwf s hs).dropped j he] at ha; cases ha
  obtain ⟨k, hk, hak⟩ := (hasCore_iff _ _).1 hc
  refine (hasCore_iff _ _).2 ⟨k, hk, ?_⟩
  simp only [unionAllowed, List.any_eq_true]
  exact ⟨s, List.mem_filter.2 ⟨hs, hne⟩, hak⟩

/-! ### oneOf -/

/-- kind-level disjointness gives core-level disjointness when the second set does not split
`number` (`int` and `float` together or not at all) -/
theorem core_disjoint (seen a : KSet) (hno : seen.overlaps a = false) (hw : a .int = a .float)
    (t : CoreType) (h1 : hasCore seen t = true) : hasCore a t = false := by
  have hno' : ∀ k, seen k = true → a k = false := by
    intro k hk
    cases hak : a k with
    | false => rfl
    | true => rw [(KSet.overlaps_iff seen a).2 ⟨k, hk, hak⟩] at hno; cases hno
  cases t <;> simp only [hasCore, coreToCUE, List.any_cons, List.any_nil, Bool.or_false,
    Bool.or_eq_true, Bool.or_eq_false_iff] at h1 ⊢
  · exact hno' _ h1
  · exact hno' _ h1
  · rcases h1 with h1 | h1
    · have := hno' _ h1; exact ⟨this, hw ▸ this⟩
    · have := hno' _ h1; exact ⟨hw ▸ this, this⟩
  · exact hno' _ h1
  · exact hno' _ h1
  · exact hno' _ h1

theorem hasCore_unionAllowed_nil (t : CoreType) : hasCore (unionAllowed []) t = false := by
  cases t <;> rfl

theorem hasCore_unionAllowed_cons (s : Sub) (r : List Sub) (t : CoreType) :
    hasCore (unionAllowed (s :: r)) t = (hasCore s.allowed t || hasCore (unionAllowed r) t) :=
  hasCore_or s.allowed (unionAllowed r) t

theorem hasCore_union (a b : KSet) (t : CoreType) :
    hasCore (a.union b) t = (hasCore a t || hasCore b t) :=
  hasCore_or a b t

/-- when `needsConstraint` stays false, the kept members are unconstrained and pairwise disjoint
(also from everything `seen` so far): at most one accepts, and one does iff the instance's core
type is in the union of the allowed sets -/
theorem oneOf_noNeeds (j : Json) : ∀ (a : List Sub) (seen : KSet),
    oneOfNeeds seen a = false → (∀ s ∈ a, s.WF) →
    (hasCore seen (coreOf j) = true → a.countP (fun s => accepts s.expr j) = 0) ∧
    a.countP (fun s => accepts s.expr j) = if hasCore (unionAllowed a) (coreOf j) then 1 else 0
  | [], seen, _, _ => by simp [hasCore_unionAllowed_nil]
  | s :: r, seen, hn, hwf => by
    simp only [oneOfNeeds, Bool.or_eq_false_iff] at hn
    obtain ⟨⟨hc, hov⟩, hrest⟩ := hn
    have ih := oneOf_noNeeds j r (seen.union s.allowed) hrest
      (fun x hx => hwf x (List.mem_cons_of_mem _ hx))
    have hws := hwf s (List.mem_cons_self ..)
    have hex : accepts s.expr j = hasCore s.allowed (coreOf j) := hws.exact hc j
    rw [hasCore_union] at ih
    rw [hasCore_unionAllowed_cons, List.countP_cons, hex]
    cases hs : hasCore s.allowed (coreOf j) with
    | false =>
      simp only [hs, Bool.or_false, Bool.false_or, Bool.false_eq_true, ↓reduceIte,
        Nat.add_zero] at ih ⊢
      exact ih
    | true =>
      simp only [hs, Bool.or_true, Bool.true_or, ↓reduceIte, forall_const] at ih ⊢
      constructor
      · intro hseen
        rw [core_disjoint seen s.allowed hov (hws.whole hc) _ hseen] at hs
        cases hs
      · rw [ih.1]

/-- oneOf as encoded: with the constraint when needed, by the narrowed allowed set alone
otherwise -/
theorem oneOf_enc (allowed : KSet) (subs : List Sub) (j : Json) (hwf : ∀ s ∈ subs, s.WF) :
    (if oneOfNeeds KSet.empty (subs.filter (!·.allowed.isEmpty))
      then encAccepts (encOneOf allowed subs).1 false j
      else hasCore (unionAllowed (subs.filter (!·.allowed.isEmpty))) (coreOf j))
      = (subs.countP (fun s => accepts s.expr j) == 1) := by
  rw [← countP_filter_drop (fun s => accepts s.expr j) (!·.allowed.isEmpty) subs
    (fun s hs h => (hwf s hs).dropped j h)]
  have hwf' : ∀ s ∈ subs.filter (!·.allowed.isEmpty), s.WF :=
    fun s hs => hwf s (List.mem_filter.1 hs).1
  unfold encOneOf
  simp only []
  generalize subs.filter (!·.allowed.isEmpty) = a at hwf' ⊢
  cases hn : oneOfNeeds KSet.empty a with
  | false =>
    simp only [Bool.false_eq_true, ↓reduceIte]
    rw [(oneOf_noNeeds j a KSet.empty hn hwf').2]
    cases hasCore (unionAllowed a) (coreOf j) <;> simp
  | true =>
    simp only [↓reduceIte]
    cases a with
    | nil => simp [encAccepts]
    | cons x r =>
      cases r with
      | nil => cases h : accepts x.expr j <;> simp [encAccepts, h]
      | cons y r' =>
        simp only [List.map_cons, encAccepts, accepts_matchN, Bound.ok]
        have hm : x.expr :: y.expr :: List.map (fun s => s.expr) r' =
            List.map (fun s => s.expr) (x :: y :: r') := rfl
        rw [hm, List.countP_map]
        rfl

end CueVerif.Skel
