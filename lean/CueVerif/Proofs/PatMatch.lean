/-
C05 — `matchPatternValue` (Model/PatMatch.lean) decides exactly the scalar specification's
satisfaction relation (Spec/PatMatch.lean, i.e. C03's `sat`) for string labels.
-/
import CueVerif.Spec.PatMatch
import CueVerif.Model.Closed
namespace CueVerif.PatMatch
open CueVerif CueVerif.Scalar

theorem and16 (k : Nat) : 2 ^ 4 &&& k = if k.testBit 4 then 2 ^ 4 else 0 := by
  apply Nat.eq_of_testBit_eq
  intro i
  rw [Nat.testBit_and, Nat.testBit_two_pow]
  by_cases h : 4 = i
  · subst h
    cases hk : k.testBit 4
    · simp
    · simp only [decide_true, Bool.true_and, if_true]; decide
  · cases hk : k.testBit 4 <;> simp [h, Nat.testBit_two_pow_of_ne h]

theorem hasStr_testBit (k : Nat) : (Kind.string &&& k != 0) = k.testBit 4 := by
  have h : Kind.string = 2 ^ 4 := rfl
  rw [h, and16]
  cases k.testBit 4 <;> simp

theorem hasStr_and (a b : Nat) :
    (Kind.string &&& (a &&& b) != 0) = ((Kind.string &&& a != 0) && (Kind.string &&& b != 0)) := by
  simp only [hasStr_testBit, Nat.testBit_and]

theorem hasStr_or (a b : Nat) :
    (Kind.string &&& (a ||| b) != 0) = ((Kind.string &&& a != 0) || (Kind.string &&& b != 0)) := by
  simp only [hasStr_testBit, Nat.testBit_or]

theorem matchValue_kind (re : Bytes → Bytes → Bool) (p : PatV) (l : Bytes)
    (h : matchValue re p l = true) : (Kind.string &&& p.kind != 0) = true := by
  unfold matchValue at h
  exact (Bool.and_eq_true _ _ ▸ h).1

theorem matchValue_bound (re : Bytes → Bytes → Bool) (b : Bound) (l : Bytes) :
    matchValue re (.bound b) l = Scalar.sat re (.str l) (.bound b) := by
  obtain ⟨op, val⟩ := b
  cases val <;> cases op <;>
    simp [matchValue, PatV.kind, Bound.kind, validateStr, Scalar.sat, satBound, boundAdmits, boundHolds,
      binOpBool, ordCmp, opHolds, Atom.eqv, Atom.num?, Atom.isNum, Atom.isNull, Atom.sameKind,
      Atom.kindBit, Atom.kind, Atom.isStr, Atom.strVal, Kind.string, Kind.number, Kind.nonNull, Kind.null, bne]

/-- the implementation's matcher decides exactly the specification's satisfaction relation -/
theorem matchValue_eq_sat (re : Bytes → Bytes → Bool) (p : PatV) (l : Bytes) :
    matchValue re p l = p.sat re (.str l) := by
  induction p with
  | bot => simp [matchValue, PatV.sat, PatV.kind, Kind.bottom]
  | top => simp [matchValue, PatV.sat, PatV.kind, Kind.top, Kind.string]
  | basic t =>
    cases t <;> simp [matchValue, PatV.sat, PatV.kind, BType.kind, Scalar.sat, Kind.has, Atom.kindBit,
      Kind.string, Kind.bool, Kind.int, Kind.float, Kind.number, Kind.bytes, Kind.top] <;> decide
  | bound b => simpa [PatV.sat] using matchValue_bound re b l
  | str s =>
    simp [matchValue, PatV.sat, PatV.kind, Scalar.sat, Atom.sameKind, Atom.eqv, Atom.kindBit, Kind.string]
    exact Bool.eq_iff_iff.mpr ⟨fun h => by simpa using (beq_iff_eq.mp h).symm,
      fun h => by simpa using (beq_iff_eq.mp h).symm⟩
  | num z =>
    simp [matchValue, PatV.sat, PatV.kind, Scalar.sat, Atom.sameKind, Atom.kindBit, Kind.string, Kind.int]
  | conj a b iha ihb =>
    unfold matchValue
    simp only [PatV.kind, PatV.sat, hasStr_and, ← iha, ← ihb]
    cases ha : matchValue re a l <;> cases hb : matchValue re b l <;> simp
    exact ⟨by simpa using matchValue_kind re a l ha, by simpa using matchValue_kind re b l hb⟩
  | disj a b iha ihb =>
    unfold matchValue
    simp only [PatV.kind, PatV.sat, hasStr_or, ← iha, ← ihb]
    cases ha : matchValue re a l <;> cases hb : matchValue re b l <;> simp
    · right; simpa using matchValue_kind re b l hb
    · left; simpa using matchValue_kind re a l ha
    · left; simpa using matchValue_kind re a l ha

theorem matchPattern_eq_admits (re : Bytes → Bytes → Bool) (p : PatV) (regular : Bool) (l : Bytes) :
    matchPattern re (some p) regular l = admitsLabel re p regular l := by
  simp [matchPattern, admitsLabel, matchValue_eq_sat]

end CueVerif.PatMatch

/-! ### the 4-pattern language of the closedness model is an instance -/
namespace CueVerif.PatMatch
open CueVerif CueVerif.Scalar

/-- the CUE pattern value a `Closed.Pat` stands for: `string`, `=~"^q"`, `=~"q$"`, `!="q"` -/
def ofPat : Closed.Pat → PatV
  | .any => .basic .string
  | .pre q => .bound ⟨.mat, .str (94 :: q)⟩
  | .suf q => .bound ⟨.mat, .str (q ++ [36])⟩
  | .ne q => .bound ⟨.ne, .str q⟩

/-- `Closed.Pat.matches` (what Model/Closed.lean and Spec/Closed.lean use for "matching
pattern") is `matchPattern` on the corresponding pattern value, for every regular-expression
matcher that reads `^q` / `q$` as anchored literal prefix / suffix -/
theorem matches_eq_matchPattern (re : Bytes → Bytes → Bool)
    (hpre : ∀ q s, re (94 :: q) s = q.isPrefixOf s) (hsuf : ∀ q s, re (q ++ [36]) s = q.isSuffixOf s)
    (p : Closed.Pat) (l : Closed.Label) :
    p.matches l = matchPattern re (some (ofPat p)) l.isReg l.name := by
  cases p <;>
    simp [Closed.Pat.matches, matchPattern, matchValue, ofPat, PatV.kind, BType.kind, Bound.kind, validateStr,
      Atom.kind, Atom.kindBit, Kind.string, hpre, hsuf, bne]

end CueVerif.PatMatch
