/-
C02 — generic facts about three-way comparisons (total preorders), lexicographic
combinations, strictly sorted lists and insertion sort.  Used by Proofs/Sanitize.lean and
Proofs/Toposort.lean.
-/
import CueVerif.Spec.Sanitize
namespace CueVerif.Sanitize

theorem Ordering.swap_eq_lt {o : Ordering} : o.swap = .lt ↔ o = .gt := by cases o <;> simp [Ordering.swap]
theorem Ordering.swap_eq_gt {o : Ordering} : o.swap = .gt ↔ o = .lt := by cases o <;> simp [Ordering.swap]
theorem Ordering.swap_eq_eq {o : Ordering} : o.swap = .eq ↔ o = .eq := by cases o <;> simp [Ordering.swap]

namespace TotalPreorder
variable {α : Type} {cmp : α → α → Ordering}

theorem gt_iff (h : TotalPreorder cmp) (a b : α) : cmp a b = .gt ↔ cmp b a = .lt := by
  rw [h.swap b a]; exact Ordering.swap_eq_gt

theorem lt_iff (h : TotalPreorder cmp) (a b : α) : cmp a b = .lt ↔ cmp b a = .gt := by
  rw [h.swap b a]; exact Ordering.swap_eq_lt

theorem eq_comm (h : TotalPreorder cmp) (a b : α) : cmp a b = .eq ↔ cmp b a = .eq := by
  rw [h.swap b a]; exact Ordering.swap_eq_eq

/-- a ≤ b, b < c ⇒ a < c -/
theorem lt_of_le_of_lt (h : TotalPreorder cmp) {a b c : α} (h1 : cmp a b ≠ .gt) (h2 : cmp b c = .lt) :
    cmp a c = .lt := by
  have hac : cmp a c ≠ .gt := h.trans a b c h1 (by rw [h2]; decide)
  cases hc : cmp a c with
  | lt => rfl
  | gt => exact absurd hc hac
  | eq =>
    -- c ≤ a ≤ b so c ≤ b, but b < c
    have hca : cmp c a ≠ .gt := by rw [(h.eq_comm a c).1 hc]; decide
    have hcb : cmp c b ≠ .gt := h.trans c a b hca h1
    exact absurd ((h.lt_iff b c).1 h2) hcb

/-- a < b, b ≤ c ⇒ a < c -/
theorem lt_of_lt_of_le (h : TotalPreorder cmp) {a b c : α} (h1 : cmp a b = .lt) (h2 : cmp b c ≠ .gt) :
    cmp a c = .lt := by
  have hac : cmp a c ≠ .gt := h.trans a b c (by rw [h1]; decide) h2
  cases hc : cmp a c with
  | lt => rfl
  | gt => exact absurd hc hac
  | eq =>
    have hca : cmp c a ≠ .gt := by rw [(h.eq_comm a c).1 hc]; decide
    have hba : cmp b a ≠ .gt := h.trans b c a h2 hca
    exact absurd ((h.lt_iff a b).1 h1) hba

theorem lt_trans (h : TotalPreorder cmp) {a b c : α} (h1 : cmp a b = .lt) (h2 : cmp b c = .lt) :
    cmp a c = .lt := h.lt_of_lt_of_le h1 (by rw [h2]; decide)

theorem eq_trans (h : TotalPreorder cmp) {a b c : α} (h1 : cmp a b = .eq) (h2 : cmp b c = .eq) :
    cmp a c = .eq := by
  have h3 : cmp a c ≠ .gt := h.trans a b c (by rw [h1]; decide) (by rw [h2]; decide)
  have h4 : cmp c a ≠ .gt := h.trans c b a (by rw [(h.eq_comm b c).1 h2]; decide) (by rw [(h.eq_comm a b).1 h1]; decide)
  cases hc : cmp a c with
  | eq => rfl
  | gt => exact absurd hc h3
  | lt => exact absurd ((h.lt_iff a c).1 hc) h4

/-- a = b (in the preorder), b < c ⇒ a < c -/
theorem lt_of_eq_of_lt (h : TotalPreorder cmp) {a b c : α} (h1 : cmp a b = .eq) (h2 : cmp b c = .lt) :
    cmp a c = .lt := h.lt_of_le_of_lt (by rw [h1]; decide) h2

theorem lt_of_lt_of_eq (h : TotalPreorder cmp) {a b c : α} (h1 : cmp a b = .lt) (h2 : cmp b c = .eq) :
    cmp a c = .lt := h.lt_of_lt_of_le h1 (by rw [h2]; decide)

/-- pulling a total preorder back along a function -/
theorem on {β : Type} (h : TotalPreorder cmp) (f : β → α) : TotalPreorder (fun x y => cmp (f x) (f y)) :=
  ⟨fun a => h.refl (f a), fun a b => h.swap (f a) (f b), fun a b c => h.trans (f a) (f b) (f c)⟩

end TotalPreorder

/-- lexicographic combination of two comparisons on the same type -/
def lex {α : Type} (c1 c2 : α → α → Ordering) (x y : α) : Ordering :=
  match c1 x y with
  | .eq => c2 x y
  | o => o

theorem lex_tp {α : Type} {c1 c2 : α → α → Ordering} (h1 : TotalPreorder c1) (h2 : TotalPreorder c2) :
    TotalPreorder (lex c1 c2) := by
  refine ⟨?_, ?_, ?_⟩
  · intro a; simp [lex, h1.refl, h2.refl]
  · intro a b
    unfold lex
    rw [h1.swap a b, h2.swap a b]
    cases c1 a b <;> simp [Ordering.swap]
  · intro a b c hab hbc
    unfold lex at *
    cases e1 : c1 a b with
    | gt => simp [e1] at hab
    | lt =>
      cases e2 : c1 b c with
      | gt => simp [e2] at hbc
      | lt => simp [h1.lt_trans e1 e2]
      | eq => simp [h1.lt_of_lt_of_eq e1 e2]
    | eq =>
      cases e2 : c1 b c with
      | gt => simp [e2] at hbc
      | lt => simp [h1.lt_of_eq_of_lt e1 e2]
      | eq =>
        simp only [e1, e2] at hab hbc
        simp only [h1.eq_trans e1 e2]
        exact h2.trans a b c hab hbc

theorem lex_eq_iff {α : Type} {c1 c2 : α → α → Ordering} (x y : α) :
    lex c1 c2 x y = .eq ↔ c1 x y = .eq ∧ c2 x y = .eq := by
  unfold lex; cases c1 x y <;> simp

theorem lex_lt_of_lt {α : Type} {c1 c2 : α → α → Ordering} {x y : α} (h : c1 x y = .lt) :
    lex c1 c2 x y = .lt := by simp [lex, h]

theorem lex_lt_of_eq_lt {α : Type} {c1 c2 : α → α → Ordering} {x y : α} (h : c1 x y = .eq) (h' : c2 x y = .lt) :
    lex c1 c2 x y = .lt := by simp [lex, h, h']

/-! ### basic comparisons -/

theorem cmpNat_tp : TotalPreorder cmpNat := by
  refine ⟨?_, ?_, ?_⟩
  · intro a; simp [cmpNat]
  · intro a b; unfold cmpNat
    by_cases h1 : a < b
    · have : ¬ b < a := by omega
      simp [h1, this, Ordering.swap]
    · by_cases h2 : b < a
      · simp [h1, h2, Ordering.swap]
      · simp [h1, h2, Ordering.swap]
  · intro a b c; unfold cmpNat
    by_cases h1 : a < b <;> by_cases h2 : b < a <;> by_cases h3 : b < c <;> by_cases h4 : c < b <;>
      by_cases h5 : a < c <;> by_cases h6 : c < a <;> simp [h1, h2, h3, h4, h5, h6] <;> omega

theorem cmpNat_eq_iff (a b : Nat) : cmpNat a b = .eq ↔ a = b := by
  unfold cmpNat
  by_cases h1 : a < b
  · simp [h1]; omega
  · by_cases h2 : b < a
    · simp [h1, h2]; omega
    · simp [h1, h2]; omega

theorem cmpBool_tp : TotalPreorder cmpBool := by
  refine ⟨?_, ?_, ?_⟩
  · intro a; cases a <;> rfl
  · intro a b; cases a <;> cases b <;> rfl
  · intro a b c; cases a <;> cases b <;> cases c <;> simp [cmpBool]

/-- lexicographic comparison of lists -/
def lexList {α : Type} (ce : α → α → Ordering) : List α → List α → Ordering
  | [], [] => .eq
  | [], _ :: _ => .lt
  | _ :: _, [] => .gt
  | a :: as, b :: bs =>
    match ce a b with
    | .eq => lexList ce as bs
    | o => o

theorem lexList_refl {α : Type} {ce : α → α → Ordering} (h : TotalPreorder ce) :
    ∀ l : List α, lexList ce l l = .eq
  | [] => rfl
  | a :: as => by simp [lexList, h.refl, lexList_refl h as]

theorem lexList_swap {α : Type} {ce : α → α → Ordering} (h : TotalPreorder ce) :
    ∀ l m : List α, lexList ce m l = (lexList ce l m).swap
  | [], [] => rfl
  | [], _ :: _ => rfl
  | _ :: _, [] => rfl
  | a :: as, b :: bs => by
    simp only [lexList]
    rw [h.swap a b]
    cases ce a b <;> simp [Ordering.swap, lexList_swap h as bs]

theorem lexList_trans {α : Type} {ce : α → α → Ordering} (h : TotalPreorder ce) :
    ∀ l m n : List α, lexList ce l m ≠ .gt → lexList ce m n ≠ .gt → lexList ce l n ≠ .gt
  | [], _, [] => by intros; simp [lexList]
  | [], _, _ :: _ => by intros; simp [lexList]
  | _ :: _, [], _ => by intro h1; simp [lexList] at h1
  | _ :: _, _ :: _, [] => by intro _ h2; simp [lexList] at h2
  | a :: as, b :: bs, c :: cs => by
    intro hab hbc
    simp only [lexList] at *
    cases e1 : ce a b with
    | gt => simp [e1] at hab
    | lt =>
      cases e2 : ce b c with
      | gt => simp [e2] at hbc
      | lt => simp [h.lt_trans e1 e2]
      | eq => simp [h.lt_of_lt_of_eq e1 e2]
    | eq =>
      cases e2 : ce b c with
      | gt => simp [e2] at hbc
      | lt => simp [h.lt_of_eq_of_lt e1 e2]
      | eq =>
        simp only [e1, e2] at hab hbc
        simp only [h.eq_trans e1 e2]
        exact lexList_trans h as bs cs hab hbc

theorem lexList_tp {α : Type} {ce : α → α → Ordering} (h : TotalPreorder ce) : TotalPreorder (lexList ce) :=
  ⟨lexList_refl h, lexList_swap h, lexList_trans h⟩

theorem lexList_eq_iff {α : Type} {ce : α → α → Ordering} (h : ∀ a b, ce a b = .eq ↔ a = b) :
    ∀ l m : List α, lexList ce l m = .eq ↔ l = m
  | [], [] => by simp [lexList]
  | [], _ :: _ => by simp [lexList]
  | _ :: _, [] => by simp [lexList]
  | a :: as, b :: bs => by
    simp only [lexList]
    cases e : ce a b with
    | eq =>
      have := (h a b).1 e
      simp [this, lexList_eq_iff h as bs]
    | lt =>
      have : a ≠ b := fun hab => by rw [(h a b).2 hab] at e; cases e
      simp [this]
    | gt =>
      have : a ≠ b := fun hab => by rw [(h a b).2 hab] at e; cases e
      simp [this]

theorem cmpBytes_eq_lexList : ∀ a b : Bytes, cmpBytes a b = lexList cmpNat a b
  | [], [] => rfl
  | [], _ :: _ => rfl
  | _ :: _, [] => rfl
  | a :: as, b :: bs => by
    simp only [cmpBytes, lexList, cmpNat]
    by_cases h1 : a < b
    · simp [h1]
    · by_cases h2 : b < a
      · simp [h1, h2]
      · simp [h1, h2, cmpBytes_eq_lexList as bs]

theorem cmpBytes_tp : TotalPreorder cmpBytes := by
  have : cmpBytes = lexList cmpNat := by funext a b; exact cmpBytes_eq_lexList a b
  rw [this]; exact lexList_tp cmpNat_tp

theorem cmpBytes_eq_iff (a b : Bytes) : cmpBytes a b = .eq ↔ a = b := by
  rw [cmpBytes_eq_lexList]; exact lexList_eq_iff cmpNat_eq_iff a b

theorem cmpPath_eq_lexList : ∀ a b : List Bytes, cmpPath a b = lexList cmpBytes a b
  | [], [] => rfl
  | [], _ :: _ => rfl
  | _ :: _, [] => rfl
  | a :: as, b :: bs => by
    simp only [cmpPath, lexList]
    cases cmpBytes a b <;> simp [cmpPath_eq_lexList as bs]

theorem cmpPath_tp : TotalPreorder cmpPath := by
  have : cmpPath = lexList cmpBytes := by funext a b; exact cmpPath_eq_lexList a b
  rw [this]; exact lexList_tp cmpBytes_tp

theorem cmpPath_eq_iff (a b : List Bytes) : cmpPath a b = .eq ↔ a = b := by
  rw [cmpPath_eq_lexList]; exact lexList_eq_iff cmpBytes_eq_iff a b

/-! ### strictly sorted lists are determined by their members -/

theorem strict_unique {α : Type} {cmp : α → α → Ordering} (h : TotalPreorder cmp) :
    ∀ l m : List α, l.Pairwise (fun a b => cmp a b = .lt) → m.Pairwise (fun a b => cmp a b = .lt) →
      (∀ x, x ∈ l ↔ x ∈ m) → l = m
  | [], [], _, _, _ => rfl
  | [], b :: _, _, _, hm => by have := (hm b).2 (by simp); simp at this
  | a :: _, [], _, _, hm => by have := (hm a).1 (by simp); simp at this
  | a :: l, b :: m, hl, hm', hmem => by
    rw [List.pairwise_cons] at hl hm'
    have hne : ∀ x y, cmp x y = .lt → x ≠ y := fun x y hxy hEq => by
      subst hEq; rw [h.refl] at hxy; cases hxy
    have hab : a = b := by
      have ha : a ∈ b :: m := (hmem a).1 (by simp)
      have hb : b ∈ a :: l := (hmem b).2 (by simp)
      rcases List.mem_cons.1 ha with ha | ha
      · exact ha
      · rcases List.mem_cons.1 hb with hb | hb
        · exact hb.symm
        · have h1 := hl.1 b hb
          have h2 := hm'.1 a ha
          rw [(h.lt_iff a b).1 h1] at h2; cases h2
    subst hab
    have : l = m := strict_unique h l m hl.2 hm'.2 (by
      intro x
      constructor
      · intro hx
        have : x ∈ a :: m := (hmem x).1 (List.mem_cons_of_mem _ hx)
        rcases List.mem_cons.1 this with hxa | hxm
        · exact absurd hxa.symm (hne a x (hl.1 x hx))
        · exact hxm
      · intro hx
        have : x ∈ a :: l := (hmem x).2 (List.mem_cons_of_mem _ hx)
        rcases List.mem_cons.1 this with hxa | hxl
        · exact absurd hxa.symm (hne a x (hm'.1 x hx))
        · exact hxl)
    rw [this]

/-! ### insertion sort meets the contract of slices.SortFunc -/

theorem insRev_perm {α : Type} (cmp : α → α → Ordering) (x : α) : ∀ l : List α, (insRev cmp x l).Perm (x :: l)
  | [] => List.Perm.refl _
  | y :: ys => by
    unfold insRev
    split
    · exact ((insRev_perm cmp x ys).cons y).trans (List.Perm.swap x y ys)
    · exact List.Perm.refl _

/-- the reversed prefix is sorted downwards: every element is ≥ all later ones -/
def RevSorted {α : Type} (cmp : α → α → Ordering) (l : List α) : Prop :=
  l.Pairwise (fun a b => cmp b a ≠ .gt)

theorem insRev_sorted {α : Type} {cmp : α → α → Ordering} (h : TotalPreorder cmp) (x : α) :
    ∀ l : List α, RevSorted cmp l → RevSorted cmp (insRev cmp x l)
  | [], _ => by simp [insRev, RevSorted]
  | y :: ys, hs => by
    unfold RevSorted at hs ⊢
    rw [List.pairwise_cons] at hs
    unfold insRev
    split
    · rename_i hlt
      rw [List.pairwise_cons]
      refine ⟨?_, insRev_sorted h x ys hs.2⟩
      intro z hz
      have : z ∈ x :: ys := (insRev_perm cmp x ys).subset hz
      rcases List.mem_cons.1 this with hzx | hzy
      · subst hzx; rw [hlt]; decide
      · exact hs.1 z hzy
    · rename_i hnlt
      rw [List.pairwise_cons]
      refine ⟨?_, List.pairwise_cons.2 hs⟩
      intro z hz
      have hyx : cmp y x ≠ .gt := by
        intro hgt; exact hnlt ((h.gt_iff y x).1 hgt)
      rcases List.mem_cons.1 hz with hzy | hzy
      · subst hzy; exact hyx
      · exact h.trans z y x (hs.1 z hzy) hyx

theorem insertionSortAux_perm {α : Type} (cmp : α → α → Ordering) :
    ∀ (l acc : List α), (insertionSortAux cmp acc l).Perm (acc ++ l)
  | [], acc => by simp [insertionSortAux]
  | x :: xs, acc => by
    unfold insertionSortAux
    refine (insertionSortAux_perm cmp xs (insRev cmp x acc)).trans ?_
    have h1 : (insRev cmp x acc ++ xs).Perm ((x :: acc) ++ xs) := (insRev_perm cmp x acc).append_right xs
    refine h1.trans ?_
    simp only [List.cons_append]
    exact (List.perm_middle (a := x) (l₁ := acc) (l₂ := xs)).symm

theorem insertionSort_perm {α : Type} (cmp : α → α → Ordering) (l : List α) : (insertionSort cmp l).Perm l := by
  have := insertionSortAux_perm cmp l []
  simpa [insertionSort] using this

theorem insertionSortAux_sorted {α : Type} {cmp : α → α → Ordering} (h : TotalPreorder cmp) :
    ∀ (l acc : List α), RevSorted cmp acc → SortedBy cmp (insertionSortAux cmp acc l)
  | [], acc, hs => by
    unfold insertionSortAux SortedBy
    rw [List.pairwise_reverse]
    exact hs
  | x :: xs, acc, hs => by
    unfold insertionSortAux
    exact insertionSortAux_sorted h xs _ (insRev_sorted h x acc hs)

theorem insertionSort_sorted {α : Type} {cmp : α → α → Ordering} (h : TotalPreorder cmp) (l : List α) :
    SortedBy cmp (insertionSort cmp l) :=
  insertionSortAux_sorted h l [] (by simp [RevSorted])

end CueVerif.Sanitize
