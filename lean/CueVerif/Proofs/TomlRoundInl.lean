/-
C12 round trip, part 2: path lemmas; an inline value `t.toVal` decodes to exactly `t.facts p`.
-/
import CueVerif.Spec.Toml
open CueVerif.Toml CueVerif.Toml.Spec
namespace CueVerif.Toml.Round

/-- strict extension of a path -/
def SExt (A k : Path) : Prop := ∃ x t, k = A ++ x :: t

theorem strictPrefix_iff {A k : Path} : strictPrefix A k = true ↔ SExt A k := by
  simp only [strictPrefix, Bool.and_eq_true, List.isPrefixOf_iff_prefix, decide_eq_true_eq]
  constructor
  · rintro ⟨⟨t, rfl⟩, hl⟩
    cases t with
    | nil => simp at hl
    | cons x t => exact ⟨x, t, rfl⟩
  · rintro ⟨x, t, rfl⟩
    exact ⟨⟨_, rfl⟩, by simp⟩

theorem strictPrefix_false_iff {A k : Path} : strictPrefix A k = false ↔ ¬ SExt A k := by
  rw [← strictPrefix_iff]; simp

theorem SExt.isPrefix {A k : Path} : SExt A k → A <+: k := by
  rintro ⟨x, t, rfl⟩; exact ⟨_, rfl⟩

theorem SExt_irrefl (A : Path) : ¬ SExt A A := by
  rintro ⟨x, t, h⟩
  have := congrArg List.length h
  simp at this

theorem sext_of_snoc_prefix {A k : Path} {x : Seg} : (A ++ [x]) <+: k → SExt A k := by
  rintro ⟨t, rfl⟩; exact ⟨x, t, by simp⟩

theorem sext_snoc_of_sext {A k : Path} {x : Seg} : SExt (A ++ [x]) k → SExt A k := by
  rintro ⟨y, t, rfl⟩; exact ⟨x, y :: t, by simp⟩

theorem sext_of_sext_prefix {A B k : Path} : SExt A B → B <+: k → SExt A k := by
  rintro ⟨x, t, rfl⟩ ⟨u, rfl⟩; exact ⟨x, t ++ u, by simp⟩

theorem sext_of_prefix_sext {A B k : Path} : A <+: B → SExt B k → SExt A k := by
  rintro ⟨u, rfl⟩ ⟨x, t, rfl⟩
  cases u with
  | nil => exact ⟨x, t, by simp⟩
  | cons y u => exact ⟨y, u ++ x :: t, by simp⟩

theorem prefix_seg_eq {A B C k : Path} {x y : Seg} :
    (A ++ x :: B) <+: k → (A ++ y :: C) <+: k → x = y := by
  rintro ⟨t, rfl⟩ ⟨u, h⟩
  simp only [List.append_assoc, List.cons_append] at h
  have := List.append_cancel_left h
  injection this with h1 _
  exact h1.symm

theorem snoc_prefix_eq {A k : Path} {x y : Seg} :
    (A ++ [x]) <+: k → (A ++ [y]) <+: k → x = y := prefix_seg_eq

theorem keyPath_snoc (K : List Name) (k : Name) : keyPath (K ++ [k]) = keyPath K ++ [.key k] := by
  simp [keyPath]

theorem keyPath_length (K : List Name) : (keyPath K).length = K.length := by simp [keyPath]

theorem findArray_none {arrays : List OpenArr} {key : Path} (h : ∀ a ∈ arrays, a.rkey ≠ key) :
    findArray arrays key = none := by
  simp only [findArray, List.findIdx?_eq_none_iff]
  intro a ha
  simpa using h a ha

theorem contains_false {seen : List Path} {key : Path} (h : key ∉ seen) :
    seen.contains key = false := by
  cases hc : seen.contains key
  · rfl
  · exact absurd (List.contains_iff_mem.mp hc) h

mutual
theorem inl_ok : ∀ (t : Tree) (rkey p : Path) (s : St), SafeTree t →
    (∀ key ∈ s.seen, ¬ SExt rkey key) → (∀ a ∈ s.arrays, ¬ SExt rkey a.rkey) →
    ∃ s', decodeExpr rkey p t.toVal s = .ok s' ∧ s'.out = s.out ++ t.facts p ∧
      s'.arrays = s.arrays ∧ s'.cur = s.cur ∧ s'.curKey = s.curKey ∧
      ∀ key ∈ s'.seen, key ∈ s.seen ∨ SExt rkey key
  | .sc a, rkey, p, s, _, _, _ => by
    refine ⟨{ s with out := s.out ++ [(p, .atom a)] }, by simp only [Tree.toVal, decodeExpr], ?_⟩
    simp only [Tree.facts, true_and]
    exact fun key h => .inl h
  | .arr xs, rkey, p, s, hs, h1, h2 => by
    simp only [SafeTree] at hs
    obtain ⟨s', hr, ho, ha, hc, hk, hse⟩ :=
      inl_elems xs rkey p 0 { s with out := s.out ++ [(p, .arr)] } hs
        (fun j _ key hk hp => h1 key hk (sext_of_snoc_prefix hp)) h2
    refine ⟨s', by simpa only [Tree.toVal, decodeExpr] using hr, ?_, ha, hc, hk, hse⟩
    simp [ho, Tree.facts]
  | .tbl fs, rkey, p, s, hs, h1, h2 => by
    simp only [SafeTree] at hs
    obtain ⟨s', hr, ho, ha, hc, hk, hse⟩ :=
      inl_fields fs rkey p { s with out := s.out ++ [(p, .tbl)] } hs.1 hs.2
        (fun f _ key hk hp => h1 key hk (sext_of_snoc_prefix hp)) h2
    refine ⟨s', by simpa only [Tree.toVal, decodeExpr] using hr, ?_, ha, hc, hk, ?_⟩
    · simp [ho, Tree.facts]
    · intro key hkey
      rcases hse key hkey with h | ⟨f, _, hp⟩
      · exact .inl h
      · exact .inr (sext_of_snoc_prefix hp)
theorem inl_elems : ∀ (xs : List Tree) (rkey p : Path) (i : Nat) (s : St), SafeElems xs →
    (∀ j, i ≤ j → ∀ key ∈ s.seen, ¬ (rkey ++ [.idx j]) <+: key) →
    (∀ a ∈ s.arrays, ¬ SExt rkey a.rkey) →
    ∃ s', decodeElems rkey p i (toValElems xs) s = .ok s' ∧
      s'.out = s.out ++ treeFactsElems p i xs ∧
      s'.arrays = s.arrays ∧ s'.cur = s.cur ∧ s'.curKey = s.curKey ∧
      ∀ key ∈ s'.seen, key ∈ s.seen ∨ SExt rkey key
  | [], rkey, p, i, s, _, _, _ => by
    refine ⟨s, by simp only [toValElems, decodeElems], ?_⟩
    simp only [treeFactsElems, List.append_nil, true_and]
    exact fun key h => .inl h
  | x :: xs, rkey, p, i, s, hs, h1, h2 => by
    simp only [SafeElems] at hs
    obtain ⟨s1, hr1, ho1, ha1, hc1, hk1, hse1⟩ :=
      inl_ok x (rkey ++ [.idx i]) (p ++ [.idx i]) s hs.1
        (fun key hk hp => h1 i (Nat.le_refl _) key hk hp.isPrefix)
        (fun a ha hp => h2 a ha (sext_snoc_of_sext hp))
    obtain ⟨s2, hr2, ho2, ha2, hc2, hk2, hse2⟩ :=
      inl_elems xs rkey p (i + 1) s1 hs.2
        (fun j hj key hk hp => by
          rcases hse1 key hk with h | h
          · exact h1 j (by omega) key h hp
          · have := snoc_prefix_eq hp h.isPrefix
            injection this with this
            omega)
        (by rw [ha1]; exact h2)
    refine ⟨s2, ?_, ?_, by rw [ha2, ha1], by rw [hc2, hc1], by rw [hk2, hk1], ?_⟩
    · simp only [toValElems, decodeElems, hr1, hr2]
    · simp [ho2, ho1, treeFactsElems]
    · intro key hkey
      rcases hse2 key hkey with h | h
      · rcases hse1 key h with h | h
        · exact .inl h
        · exact .inr (sext_snoc_of_sext h)
      · exact .inr h
theorem inl_fields : ∀ (fs : List (Name × Tree)) (rkey p : Path) (s : St),
    (fs.map (·.1)).Nodup → SafeFields fs →
    (∀ f ∈ fs, ∀ key ∈ s.seen, ¬ (rkey ++ [.key f.1]) <+: key) →
    (∀ a ∈ s.arrays, ¬ SExt rkey a.rkey) →
    ∃ s', decodeFields rkey p (toValFields fs) s = .ok s' ∧
      s'.out = s.out ++ treeFactsFields p fs ∧
      s'.arrays = s.arrays ∧ s'.cur = s.cur ∧ s'.curKey = s.curKey ∧
      ∀ key ∈ s'.seen, key ∈ s.seen ∨ ∃ f ∈ fs, (rkey ++ [.key f.1]) <+: key
  | [], rkey, p, s, _, _, _, _ => by
    refine ⟨s, by simp only [toValFields, decodeFields], ?_⟩
    simp only [treeFactsFields, List.append_nil, true_and]
    exact fun key h => .inl h
  | f :: rest, rkey, p, s, hn, hs, h1, h2 => by
    simp only [SafeFields] at hs
    simp only [List.map_cons, List.nodup_cons] at hn
    have hkp : keyPath [f.1] = [.key f.1] := rfl
    have hfa : findArray s.arrays (rkey ++ [.key f.1]) = none :=
      findArray_none (fun a ha he => h2 a ha (he ▸ ⟨_, [], rfl⟩))
    have hsn : s.seen.contains (rkey ++ [.key f.1]) = false :=
      contains_false (fun hm => h1 f (List.mem_cons_self ..) _ hm (List.prefix_refl _))
    obtain ⟨s1, hr1, ho1, ha1, hc1, hk1, hse1⟩ :=
      inl_ok f.2 (rkey ++ [.key f.1]) (p ++ [.key f.1])
        { s with seen := (rkey ++ [.key f.1]) :: s.seen } hs.1
        (fun key hk hp => by
          rcases List.mem_cons.mp hk with rfl | hk
          · exact SExt_irrefl _ hp
          · exact h1 f (List.mem_cons_self ..) key hk hp.isPrefix)
        (fun a ha hp => h2 a ha (sext_snoc_of_sext hp))
    obtain ⟨s2, hr2, ho2, ha2, hc2, hk2, hse2⟩ :=
      inl_fields rest rkey p s1 hn.2 hs.2
        (fun f' hf' key hk hp => by
          rcases hse1 key hk with h | h
          · rcases List.mem_cons.mp h with rfl | h
            · have := snoc_prefix_eq hp (List.prefix_refl _)
              injection this with this
              exact hn.1 (List.mem_map.mpr ⟨f', hf', this⟩)
            · exact h1 f' (List.mem_cons_of_mem _ hf') key h hp
          · have := snoc_prefix_eq hp h.isPrefix
            injection this with this
            exact hn.1 (List.mem_map.mpr ⟨f', hf', this⟩))
        (by rw [ha1]; exact h2)
    refine ⟨s2, ?_, ?_, by rw [ha2, ha1], by rw [hc2, hc1], by rw [hk2, hk1], ?_⟩
    · simp only [toValFields, decodeFields, hkp, hfa, hsn, hr1, hr2]
      simp
    · simp [ho2, ho1, treeFactsFields]
    · intro key hkey
      rcases hse2 key hkey with h | ⟨f', hf', hp⟩
      · rcases hse1 key h with h | h
        · rcases List.mem_cons.mp h with rfl | h
          · exact .inr ⟨f, List.mem_cons_self .., List.prefix_refl _⟩
          · exact .inl h
        · exact .inr ⟨f, List.mem_cons_self .., h.isPrefix⟩
      · exact .inr ⟨f', List.mem_cons_of_mem _ hf', hp⟩
end

end CueVerif.Toml.Round
