/-
C10 helper lemmas: `Value.appendJSON` with its error branches (Model/JsonDocErr.lean).
Core Lean only.
-/
import CueVerif.Model.JsonDocErr
import CueVerif.Proofs.JsonDocProps
import CueVerif.Proofs.JsonDenote
namespace CueVerif.Json
open CueVerif CueVerif.Quote

theorem b64Char_safe (i : Nat) : b64Char i < 0x80 ∧ safeAscii (b64Char i) = true := by
  unfold b64Char safeAscii
  repeat' split
  all_goals simp only [Bool.and_eq_true, decide_eq_true_eq, bne_iff_ne, ne_eq, beq_iff_eq] at *
  all_goals omega

def SafeAscii (s : Bytes) : Prop := ∀ c ∈ s, c < 0x80 ∧ safeAscii c = true

theorem base64_safe : ∀ (n : Nat) (b : Bytes), b.length ≤ n → SafeAscii (base64Std b) := by
  intro n
  induction n using Nat.strongRecOn with
  | _ n ih =>
    intro b hl
    have heq : (0x3D : Nat) < 0x80 ∧ safeAscii 0x3D = true := by decide
    match b with
    | [] => intro c hc; simp [base64Std] at hc
    | [a] =>
      intro c hc
      simp only [base64Std, List.mem_cons, List.mem_nil_iff, or_false] at hc
      rcases hc with rfl | rfl | rfl | rfl <;> first | exact b64Char_safe _ | exact heq
    | [a, b'] =>
      intro c hc
      simp only [base64Std, List.mem_cons, List.mem_nil_iff, or_false] at hc
      rcases hc with rfl | rfl | rfl | rfl <;> first | exact b64Char_safe _ | exact heq
    | a :: b' :: c' :: rest =>
      intro c hc
      simp only [base64Std, List.mem_cons] at hc
      rcases hc with rfl | rfl | rfl | rfl | hc
      · exact b64Char_safe _
      · exact b64Char_safe _
      · exact b64Char_safe _
      · exact b64Char_safe _
      · exact ih (n - 3) (by simp at hl; omega) rest (by simp at hl; omega) c hc

theorem escapeLoop_safe : ∀ (s : Bytes), SafeAscii s → escapeLoop s = s
  | [], _ => by simp [escapeLoop]
  | c :: t, h => by
    have hc := h c (by simp)
    have ht := escapeLoop_safe t (fun x hx => h x (by simp [hx]))
    rw [escapeLoop]
    simp [hc.1, hc.2, ht]

theorem safe_good : ∀ (s : Bytes), SafeAscii s → GoodStr s
  | [], _ => goodStr_nil
  | c :: t, h => goodStr_ascii c (h c (by simp)).1 t (safe_good t (fun x hx => h x (by simp [hx])))

/-- `json.Marshal([]byte)` writes what the string encoder would write for the base64 text -/
theorem bytes_as_string (b : Bytes) : 0x22 :: (base64Std b ++ [0x22]) = jsonEscape (base64Std b) := by
  simp only [jsonEscape, escapeLoop_safe _ (base64_safe _ b (Nat.le_refl _))]

mutual
theorem appendE_toM : ∀ (v : EVal) (m : MVal), v.toM = some m → appendJSONE v = some (appendJSON m)
  | .null, m, h => by simp only [EVal.toM, Option.some.injEq] at h; subst h; simp [appendJSONE, appendJSON]
  | .bool b, m, h => by simp only [EVal.toM, Option.some.injEq] at h; subst h; simp [appendJSONE, appendJSON]
  | .num (.finite n c e), m, h => by
    simp only [EVal.toM, Option.some.injEq] at h; subst h; simp [appendJSONE, appendJSON, fmtDec]
  | .num (.nan _), m, h => by simp [EVal.toM] at h
  | .num (.inf _), m, h => by simp [EVal.toM] at h
  | .str s, m, h => by simp only [EVal.toM, Option.some.injEq] at h; subst h; simp [appendJSONE, appendJSON]
  | .bytes b, m, h => by
    simp only [EVal.toM, Option.some.injEq] at h; subst h
    simp only [appendJSONE, appendJSON, bytes_as_string]
  | .list es, m, h => by
    simp only [EVal.toM] at h
    cases hl : EVal.toMList es with
    | none => rw [hl] at h; cases h
    | some ms =>
      rw [hl] at h; simp only [Option.map_some, Option.some.injEq] at h; subst h
      simp only [appendJSONE, appendElemsE_toM es ms hl, appendJSON]
  | .struct fs, m, h => by
    simp only [EVal.toM] at h
    cases hl : EVal.toMFields fs with
    | none => rw [hl] at h; cases h
    | some ms =>
      rw [hl] at h; simp only [Option.map_some, Option.some.injEq] at h; subst h
      simp only [appendJSONE, appendFieldsE_toM fs ms hl, appendJSON]
  | .incomplete, m, h => by simp [EVal.toM] at h
  | .bottom, m, h => by simp [EVal.toM] at h
theorem appendElemsE_toM : ∀ (es : List EVal) (ms : List MVal), EVal.toMList es = some ms →
    appendElemsE es = some (appendElems ms)
  | [], ms, h => by simp only [EVal.toMList, Option.some.injEq] at h; subst h; simp [appendElemsE, appendElems]
  | e :: es, ms, h => by
    simp only [EVal.toMList] at h
    cases he : e.toM with
    | none => rw [he] at h; simp at h
    | some a =>
      cases hl : EVal.toMList es with
      | none => rw [he, hl] at h; simp at h
      | some as =>
        rw [he, hl] at h; simp only [Option.some.injEq] at h; subst h
        have h1 := appendE_toM e a he
        have h2 := appendElemsE_toM es as hl
        cases es with
        | nil =>
          simp only [EVal.toMList, Option.some.injEq] at hl; subst hl
          simp [appendElemsE, h1, appendElems]
        | cons e' es' =>
          cases as with
          | nil =>
            simp only [EVal.toMList] at hl
            cases h3 : e'.toM <;> cases h4 : EVal.toMList es' <;> rw [h3, h4] at hl <;> simp at hl
          | cons a' as' =>
            rw [appendElemsE, h1]
            simp only [List.isEmpty_cons, Bool.false_eq_true, if_false, h2]
            simp [appendElems]
theorem appendFieldsE_toM : ∀ (fs : List (Bytes × EVal)) (ms : List (Bytes × MVal)),
    EVal.toMFields fs = some ms → appendFieldsE fs = some (appendFields ms)
  | [], ms, h => by simp only [EVal.toMFields, Option.some.injEq] at h; subst h; simp [appendFieldsE, appendFields]
  | (k, v) :: fs, ms, h => by
    simp only [EVal.toMFields] at h
    cases he : v.toM with
    | none => rw [he] at h; simp at h
    | some a =>
      cases hl : EVal.toMFields fs with
      | none => rw [he, hl] at h; simp at h
      | some as =>
        rw [he, hl] at h; simp only [Option.some.injEq] at h; subst h
        have h1 := appendE_toM v a he
        have h2 := appendFieldsE_toM fs as hl
        cases fs with
        | nil =>
          simp only [EVal.toMFields, Option.some.injEq] at hl; subst hl
          simp [appendFieldsE, h1, appendFields]
        | cons p' fs' =>
          obtain ⟨k', v'⟩ := p'
          cases as with
          | nil =>
            simp only [EVal.toMFields] at hl
            cases h3 : v'.toM <;> cases h4 : EVal.toMFields fs' <;> rw [h3, h4] at hl <;> simp at hl
          | cons a' as' =>
            rw [appendFieldsE, h1]
            simp only [List.isEmpty_cons, Bool.false_eq_true, if_false, h2]
            obtain ⟨k'', a''⟩ := a'
            simp [appendFields]
end

mutual
theorem appendE_refused : ∀ (v : EVal), v.refused = true → appendJSONE v = none
  | .incomplete, _ => rfl
  | .bottom, _ => rfl
  | .list es, h => by
    simp only [EVal.refused] at h
    simp [appendJSONE, appendElemsE_refused es h]
  | .struct fs, h => by
    simp only [EVal.refused] at h
    simp [appendJSONE, appendFieldsE_refused fs h]
  | .null, h => by simp [EVal.refused] at h
  | .bool _, h => by simp [EVal.refused] at h
  | .num _, h => by simp [EVal.refused] at h
  | .str _, h => by simp [EVal.refused] at h
  | .bytes _, h => by simp [EVal.refused] at h
theorem appendElemsE_refused : ∀ (es : List EVal), EVal.refusedList es = true → appendElemsE es = none
  | [], h => by simp [EVal.refusedList] at h
  | e :: es, h => by
    simp only [EVal.refusedList, Bool.or_eq_true] at h
    simp only [appendElemsE]
    cases ha : appendJSONE e with
    | none => rfl
    | some a =>
      rcases h with h | h
      · rw [appendE_refused e h] at ha; cases ha
      · have := appendElemsE_refused es h
        cases es with
        | nil => simp [EVal.refusedList] at h
        | cons e' es' => simp [this]
theorem appendFieldsE_refused : ∀ (fs : List (Bytes × EVal)), EVal.refusedFields fs = true →
    appendFieldsE fs = none
  | [], h => by simp [EVal.refusedFields] at h
  | (k, v) :: fs, h => by
    simp only [EVal.refusedFields, Bool.or_eq_true] at h
    simp only [appendFieldsE]
    cases ha : appendJSONE v with
    | none => rfl
    | some a =>
      rcases h with h | h
      · rw [appendE_refused v h] at ha; cases ha
      · have := appendFieldsE_refused fs h
        cases fs with
        | nil => simp [EVal.refusedFields] at h
        | cons p' fs' => simp [this]
end

/-- everything the appender accepts and that holds only finite numbers is written as a JSON
text denoting its data (a bytes value as its base64 string) -/
theorem doc_roundtrip_E (v : EVal) (m : MVal) (hm : v.toM = some m) (hwf : m.WF) :
    ∃ out, appendJSONE v = some out ∧ parseJSON out = some (dataOf m) :=
  ⟨appendJSON m, appendE_toM v m hm, doc_roundtrip m hwf⟩

theorem nonfinite_invalid (neg : Bool) :
    parseJSON (fmtDec (.inf neg)) = none ∧ parseJSON (fmtDec (.nan neg)) = none := by
  cases neg <;> exact ⟨rfl, rfl⟩

end CueVerif.Json
