import CueVerif.Proofs.ModCacheStep3
/-! C16: `Inv` is preserved by the transitions of each program point (part 4) -/
namespace CueVerif.ModCache

theorem inv_mEnter {n s t c s' o} (h : Inv n s) (hp : s.pc t = .mEnter)
    (hn : next n s t c = some (s', o)) : Inv n s' := by
  open_next
  all_goals step_pre
  all_goals step_main

theorem inv_mRead1 {n s t c s' o} (h : Inv n s) (hp : s.pc t = .mRead1)
    (hn : next n s t c = some (s', o)) : Inv n s' := by
  open_next
  all_goals step_pre
  all_goals step_main

theorem inv_mLock {n s t c s' o} (h : Inv n s) (hp : s.pc t = .mLock)
    (hn : next n s t c = some (s', o)) : Inv n s' := by
  open_next
  all_goals step_pre
  all_goals step_main

theorem inv_mRead2 {n s t c s' o} (h : Inv n s) (hp : s.pc t = .mRead2)
    (hn : next n s t c = some (s', o)) : Inv n s' := by
  open_next
  all_goals step_pre
  all_goals step_main

theorem inv_mGet {n s t c s' o} (h : Inv n s) (hp : s.pc t = .mGet)
    (hn : next n s t c = some (s', o)) : Inv n s' := by
  open_next
  all_goals step_pre
  all_goals step_main

theorem inv_mCreate {n s t c s' o} (h : Inv n s) (hp : s.pc t = .mCreate)
    (hn : next n s t c = some (s', o)) : Inv n s' := by
  open_next
  all_goals step_pre
  all_goals step_main

theorem inv_mWrite {n s t c s' o k} (h : Inv n s) (hp : s.pc t = .mWrite k)
    (hn : next n s t c = some (s', o)) : Inv n s' := by
  open_next
  all_goals step_pre
  all_goals step_main

theorem inv_mRename {n s t c s' o k} (h : Inv n s) (hp : s.pc t = .mRename k)
    (hn : next n s t c = some (s', o)) : Inv n s' := by
  open_next
  all_goals step_pre
  all_goals step_main

theorem inv_mFail {n s t c s' o k} (h : Inv n s) (hp : s.pc t = .mFail k)
    (hn : next n s t c = some (s', o)) : Inv n s' := by
  open_next
  all_goals step_pre
  all_goals step_main

theorem inv_mUnlock {n s t c s' o k} (h : Inv n s) (hp : s.pc t = .mUnlock k)
    (hn : next n s t c = some (s', o)) : Inv n s' := by
  open_next
  all_goals step_pre
  all_goals step_main

end CueVerif.ModCache
