/-
C20 — lemmas about the removal criterion (for every meet-semilattice).
-/
import CueVerif.Spec.Trim
namespace CueVerif.Trim

variable {S : Type} {K : Type}

/-! ### semilattice algebra -/

theorem SL.meet_top (L : SL S) (a : S) : L.meet a L.top = a := by
  rw [L.comm]; exact L.top_meet a

theorem SL.left_comm (L : SL S) (a b c : S) : L.meet a (L.meet b c) = L.meet b (L.meet a c) := by
  rw [← L.assoc, L.comm a b, L.assoc]

theorem SL.meet_meet_self (L : SL S) (a b : S) : L.meet a (L.meet a b) = L.meet a b := by
  rw [← L.assoc, L.idem]

theorem unifyAll_nil (L : SL S) : unifyAll L [] = L.top := rfl

theorem unifyAll_cons (L : SL S) (a : S) (C : List S) :
    unifyAll L (a :: C) = L.meet a (unifyAll L C) := rfl

theorem unifyAll_append (L : SL S) (A B : List S) :
    unifyAll L (A ++ B) = L.meet (unifyAll L A) (unifyAll L B) := by
  induction A with
  | nil => simp [unifyAll_nil, L.top_meet]
  | cons a A ih => simp only [List.cons_append, unifyAll_cons, ih, L.assoc]

/-- the designated occurrence can be pulled to the front -/
theorem unifyAll_mid (L : SL S) (A : List S) (c : S) (B : List S) :
    unifyAll L (A ++ c :: B) = L.meet c (unifyAll L (A ++ B)) := by
  rw [unifyAll_append, unifyAll_cons, unifyAll_append, L.left_comm]

theorem unifyAll_pi (L : SL S) (P : Type) (C : List (P → S)) (p : P) :
    unifyAll (L.pi P) C p = unifyAll L (C.map (· p)) := by
  induction C with
  | nil => rfl
  | cons f C ih =>
    show L.meet (f p) (unifyAll (L.pi P) C p) = _
    rw [ih]; rfl

theorem le_antisymm (L : SL S) {a b : S} (h1 : le L a b) (h2 : le L b a) : a = b := by
  unfold le at h1 h2
  rw [← h1, L.comm, h2]

theorem le_trans (L : SL S) {a b c : S} (h1 : le L a b) (h2 : le L b c) : le L a c := by
  unfold le at *
  rw [← h1, L.assoc, h2]

theorem le_of_mem (L : SL S) {w : S} {C : List S} (h : w ∈ C) : le L (unifyAll L C) w := by
  induction C with
  | nil => cases h
  | cons a C ih =>
    unfold le
    rw [unifyAll_cons]
    rcases List.mem_cons.mp h with rfl | h'
    · rw [L.comm, L.meet_meet_self]
    · have := ih h'
      unfold le at this
      rw [L.assoc, this]

theorem le_append_left (L : SL S) (A B : List S) : le L (unifyAll L (A ++ B)) (unifyAll L A) := by
  unfold le
  rw [unifyAll_append, L.comm, L.meet_meet_self]

/-! ### removal of redundant conjuncts -/

theorem removal_sound (L : SLB V) [DecidableEq V] {P : Type} (A : List (PkgConj P V))
    (c : PkgConj P V) (B : List (PkgConj P V)) (h : redundant (pkgSL L P) A c B) (p : P) :
    finalAt L (A ++ B) p = finalAt L (A ++ c :: B) p := by
  unfold finalAt
  unfold redundant at h
  rw [h]

theorem removal_unify (L : SL S) (val : K → S) (ok : K → Prop) {C C' : List K}
    (h : Removal L val ok C C') : unifyAll L (C'.map val) = unifyAll L (C.map val) := by
  induction h with
  | refl C => rfl
  | step A c B C' _ hred _ ih =>
    rw [ih]
    unfold redundant at hred
    simpa [List.map_append] using hred

theorem removal_final (L : SLB V) [DecidableEq V] {P : Type} (val : K → PkgConj P V)
    (ok : K → Prop) {C C' : List K} (h : Removal (pkgSL L P) val ok C C') (p : P) :
    finalAt L (C'.map val) p = finalAt L (C.map val) p := by
  unfold finalAt
  rw [removal_unify (pkgSL L P) val ok h]

/-! ### the greedy trimmer -/

section greedy
variable (L : SL S) [DecidableEq S] (val : K → S) (ok : K → Bool)

theorem greedy_removal (pre rest : List K) :
    Removal L val (fun k => ok k = true) (pre ++ rest) (greedy L val ok pre rest) := by
  induction rest generalizing pre with
  | nil => simpa [greedy] using Removal.refl (L := L) (val := val) (ok := fun k => ok k = true) pre
  | cons c rest ih =>
    unfold greedy
    split
    · rename_i h
      refine Removal.step pre c rest _ h.1 ?_ (ih pre)
      unfold redundant
      simpa [List.map_append] using h.2
    · have := ih (pre ++ [c])
      simpa [List.append_assoc] using this

/-- invariant of the scan: every removable conjunct already kept is non-redundant in what
is currently left -/
def ScanInv (pre rest : List K) : Prop :=
  ∀ A c B, pre = A ++ c :: B → ok c = true →
    unifyAll L ((A ++ B ++ rest).map val) ≠ unifyAll L ((pre ++ rest).map val)

theorem greedy_maximal_aux (pre rest : List K) (inv : ScanInv L val ok pre rest) :
    Maximal L val (fun k => ok k = true) (greedy L val ok pre rest) := by
  induction rest generalizing pre with
  | nil =>
    intro A c B hT hok hred
    have hT' : pre = A ++ c :: B := by simpa [greedy] using hT
    apply inv A c B hT' hok
    unfold redundant at hred
    simpa [hT', List.map_append] using hred
  | cons x rest ih =>
    unfold greedy
    split
    · rename_i h
      apply ih pre
      intro A c B hpre hok heq
      apply inv A c B hpre hok
      have e1 : unifyAll L ((A ++ B ++ x :: rest).map val)
          = L.meet (val x) (unifyAll L ((A ++ B ++ rest).map val)) := by
        simp only [List.map_append, List.map_cons]
        exact unifyAll_mid L _ _ _
      have e2 : unifyAll L ((pre ++ x :: rest).map val)
          = L.meet (val x) (unifyAll L ((pre ++ rest).map val)) := by
        simp only [List.map_append, List.map_cons]
        exact unifyAll_mid L _ _ _
      rw [e1, e2, heq]
    · rename_i h
      apply ih (pre ++ [x])
      intro A c B hpre hok
      rcases List.eq_nil_or_concat B with rfl | ⟨B', b, rfl⟩
      · -- the conjunct just kept
        have := List.append_inj' (s₁ := pre) (t₁ := [x]) (s₂ := A) (t₂ := [c]) (by simpa using hpre) rfl
        obtain ⟨rfl, hx⟩ := this
        have hx : x = c := by simpa using hx
        subst hx
        intro heq
        apply h
        refine ⟨hok, ?_⟩
        simpa [List.append_assoc] using heq
      · have := List.append_inj' (s₁ := pre) (t₁ := [x]) (s₂ := A ++ c :: B') (t₂ := [b])
          (by simpa [List.concat_eq_append, List.append_assoc] using hpre) rfl
        obtain ⟨hp, hb⟩ := this
        have hb : x = b := by simpa using hb
        subst hb
        have := inv A c B' hp hok
        simpa [List.concat_eq_append, List.append_assoc] using this

theorem greedy_maximal (C : List K) :
    Maximal L val (fun k => ok k = true) (trimModel L val ok C) := by
  apply greedy_maximal_aux
  intro A c B h
  cases A <;> cases h

theorem greedy_fix_aux (pre rest : List K)
    (h : ∀ A c B, pre ++ rest = A ++ c :: B → ok c = true →
      ¬ redundant L (A.map val) (val c) (B.map val)) :
    greedy L val ok pre rest = pre ++ rest := by
  induction rest generalizing pre with
  | nil => simp [greedy]
  | cons x rest ih =>
    unfold greedy
    split
    · rename_i hc
      exfalso
      apply h pre x rest rfl hc.1
      unfold redundant
      simpa [List.map_append] using hc.2
    · rw [ih (pre ++ [x])]
      · simp [List.append_assoc]
      · intro A c B hT
        apply h A c B
        simpa [List.append_assoc] using hT

theorem greedy_idem (C : List K) :
    trimModel L val ok (trimModel L val ok C) = trimModel L val ok C := by
  unfold trimModel
  have hm := greedy_maximal L val ok C
  unfold trimModel at hm
  have := greedy_fix_aux L val ok [] (greedy L val ok [] C) (by
    intro A c B hT hok
    exact hm A c B (by simpa using hT) hok)
  simpa using this

end greedy

/-! ### winners per path (hitting set) -/

theorem winners_per_path (L : SL S) {P : Type} (Kp R : List (P → S)) (p : P)
    (h : ∃ w ∈ Kp, le L (w p) (unifyAll (L.pi P) (Kp ++ R) p)) :
    unifyAll (L.pi P) Kp p = unifyAll (L.pi P) (Kp ++ R) p := by
  obtain ⟨w, hw, hle⟩ := h
  simp only [unifyAll_pi] at hle ⊢
  rw [List.map_append] at hle ⊢
  have hmem : w p ∈ Kp.map (· p) := List.mem_map.mpr ⟨w, hw, rfl⟩
  have h1 := le_of_mem L hmem
  have h2 := le_trans L h1 hle
  have h3 := le_append_left L (Kp.map (· p)) (R.map (· p))
  exact le_antisymm L h2 h3

/-! ### defaults -/

section defaults
variable {V : Type} (L : SLB V) [DecidableEq V]

theorem SLB.meet_bot (a : V) : L.meet a L.bot = L.bot := by
  rw [L.comm]; exact L.bot_meet a

omit [DecidableEq V] in
theorem dv_meet_v (a b : DV V) : (L.dv.meet a b).v = L.meet a.v b.v := rfl
omit [DecidableEq V] in
theorem dv_meet_d (a b : DV V) : (L.dv.meet a b).d = L.meet a.d b.d := rfl

theorem resolve_bot {x : DV V} (h : x.d = L.bot) : resolve L x = x.v := by
  unfold resolve; rw [if_pos h]

theorem resolve_ne {x : DV V} (h : x.d ≠ L.bot) : resolve L x = x.d := by
  unfold resolve; rw [if_neg h]

/-- `Kp` kept, `R` removed; `k`/`c` the unified kept part / the whole vertex -/
theorem winner_partial (Kp R : List (DV V))
    (hreg : ¬ ((unifyAll L.dv (Kp ++ R)).d = L.bot ∧ (unifyAll L.dv Kp).d ≠ L.bot))
    (h : equallySpecific L (unifyAll L.dv (Kp ++ R)) (unifyAll L.dv Kp)) :
    resolve L (unifyAll L.dv Kp) = resolve L (unifyAll L.dv (Kp ++ R)) := by
  rw [unifyAll_append] at *
  generalize unifyAll L.dv Kp = k at *
  generalize unifyAll L.dv R = r at *
  unfold equallySpecific le at h
  by_cases hc : (L.dv.meet k r).d = L.bot
  · have hk : k.d = L.bot := by
      apply Classical.byContradiction
      intro hk
      exact hreg ⟨hc, hk⟩
    rw [resolve_bot L hk, resolve_bot L hc, dv_meet_v] at h
    rw [resolve_bot L hk, resolve_bot L hc, dv_meet_v]
    rw [L.toSL.meet_meet_self] at h
    exact h.symm
  · have hk : k.d ≠ L.bot := by
      intro hk
      apply hc
      rw [dv_meet_d, hk, L.bot_meet]
    rw [resolve_ne L hk, resolve_ne L hc, dv_meet_d] at h
    rw [resolve_ne L hk, resolve_ne L hc, dv_meet_d]
    rw [L.toSL.meet_meet_self] at h
    exact h.symm

omit [DecidableEq V] in
theorem unmarked_unifyAll (R : List (DV V)) (h : ∀ r ∈ R, r.unmarked) :
    (unifyAll L.dv R).unmarked := by
  induction R with
  | nil => rfl
  | cons a R ih =>
    have ha := h a (List.mem_cons_self ..)
    have hr := ih (fun r hr => h r (List.mem_cons_of_mem _ hr))
    unfold DV.unmarked at *
    show L.meet a.d (unifyAll L.dv R).d = L.meet a.v (unifyAll L.dv R).v
    rw [ha, hr]

/-- when no removed conjunct carries a default mark the excluded region is unreachable -/
theorem winner_unmarked (Kp R : List (DV V)) (hR : ∀ r ∈ R, r.unmarked)
    (h : equallySpecific L (unifyAll L.dv (Kp ++ R)) (unifyAll L.dv Kp)) :
    resolve L (unifyAll L.dv Kp) = resolve L (unifyAll L.dv (Kp ++ R)) := by
  apply winner_partial L Kp R _ h
  intro ⟨hcd, hkd⟩
  have hr := unmarked_unifyAll L R hR
  rw [unifyAll_append] at h hcd
  generalize unifyAll L.dv Kp = k at *
  generalize unifyAll L.dv R = r at *
  unfold DV.unmarked at hr
  unfold equallySpecific le at h
  rw [resolve_ne L hkd, resolve_bot L hcd, dv_meet_v] at h
  rw [dv_meet_d, hr] at hcd
  -- h : k.d ⊓ (k.v ⊓ r.v) = k.d ; hcd : k.d ⊓ r.v = ⊥
  apply hkd
  have : L.meet k.d r.v = k.d := by
    calc L.meet k.d r.v = L.meet (L.meet k.d (L.meet k.v r.v)) r.v := by rw [h]
      _ = L.meet k.d (L.meet k.v (L.meet r.v r.v)) := by rw [L.assoc, L.assoc]
      _ = k.d := by rw [L.idem, h]
  rw [← this, hcd]

end defaults

end CueVerif.Trim
