import CueVerif.Proofs.ModCacheStep4
/-!
C16: `Inv` holds in every reachable state (any number of processes and goroutines, any
interleaving, crashes and registry faults anywhere), and what follows from it.
-/
namespace CueVerif.ModCache

theorem inv_init (n : Nat) : Inv n VSt.init := by
  refine Inv.mk ?_ ?_ ?_ ?_ ?_ ?_ ?_ ?_ ?_ ?_ ?_ ?_ ?_ ?_ ?_ ?_ ?_ ?_ ?_ <;>
    simp [VSt.init, Pc.crit, Pc.zphase, Pc.zpre, Pc.mphase, Pc.mpre, Pc.needZip, Local]

/-- every action of every thread preserves the invariant -/
theorem inv_next {n s t c s' o} (h : Inv n s) (hn : next n s t c = some (s', o)) : Inv n s' := by
  cases hp : s.pc t with
  | idle => exact inv_idle h hp hn
  | fStatDir => exact inv_fStatDir h hp hn
  | fStatMark => exact inv_fStatMark h hp hn
  | cStatDir => exact inv_cStatDir h hp hn
  | cStatMark => exact inv_cStatMark h hp hn
  | zEnter => exact inv_zEnter h hp hn
  | zStat1 => exact inv_zStat1 h hp hn
  | zLock => exact inv_zLock h hp hn
  | zStat2 => exact inv_zStat2 h hp hn
  | zClean => exact inv_zClean h hp hn
  | zCreate => exact inv_zCreate h hp hn
  | zGet k => exact inv_zGet h hp hn
  | zCopy k => exact inv_zCopy h hp hn
  | zRename k => exact inv_zRename h hp hn
  | zFail k => exact inv_zFail h hp hn
  | zUnlock k => exact inv_zUnlock h hp hn
  | lLock => exact inv_lLock h hp hn
  | lStatDir => exact inv_lStatDir h hp hn
  | lStatMark => exact inv_lStatMark h hp hn
  | lRmAll => exact inv_lRmAll h hp hn
  | lMark => exact inv_lMark h hp hn
  | uCheck => exact inv_uCheck h hp hn
  | uMkdir => exact inv_uMkdir h hp hn
  | uCreate k => exact inv_uCreate h hp hn
  | uWrite k => exact inv_uWrite h hp hn
  | fUnmark => exact inv_fUnmark h hp hn
  | fReadOnly => exact inv_fReadOnly h hp hn
  | fUnlock k => exact inv_fUnlock h hp hn
  | eRmAll => exact inv_eRmAll h hp hn
  | eUnmark => exact inv_eUnmark h hp hn
  | mEnter => exact inv_mEnter h hp hn
  | mRead1 => exact inv_mRead1 h hp hn
  | mLock => exact inv_mLock h hp hn
  | mRead2 => exact inv_mRead2 h hp hn
  | mGet => exact inv_mGet h hp hn
  | mCreate => exact inv_mCreate h hp hn
  | mWrite k => exact inv_mWrite h hp hn
  | mRename k => exact inv_mRename h hp hn
  | mFail k => exact inv_mFail h hp hn
  | mUnlock k => exact inv_mUnlock h hp hn

/-- killing a process at any point preserves the invariant -/
theorem inv_crash {n s} (h : Inv n s) (p : Pid) : Inv n (crash s p) := by
  have hpc : ∀ u, (crash s p).pc u = if u.1 = p then .idle else s.pc u := fun u => rfl
  have hne : ∀ u, (crash s p).pc u ≠ .idle → u.1 ≠ p ∧ (crash s p).pc u = s.pc u := by
    intro u hu
    rw [hpc] at hu ⊢
    by_cases e : u.1 = p <;> simp_all
  have hcls : ∀ (f : Pc → Bool), f .idle = false → ∀ u, f ((crash s p).pc u) = true →
      u.1 ≠ p ∧ f (s.pc u) = true := by
    intro f hf u hu
    have : (crash s p).pc u ≠ .idle := by
      intro e; rw [e, hf] at hu; exact Bool.false_ne_true hu
    obtain ⟨a, b⟩ := hne u this
    exact ⟨a, by rw [← b]; exact hu⟩
  refine Inv.mk h.zip_ok h.mod_ok h.avail_ok h.nget_le h.nmod_le h.zc_idle h.mc_idle h.zc_done
    h.mc_done ?_ ?_ ?_ ?_ ?_ ?_ ?_ ?_ ?_ ?_
  · intro u hu
    obtain ⟨a, b⟩ := hcls Pc.crit rfl u hu
    have := h.crit_lock u b
    simp [crash, this, a]
  · intro k hk
    have hl : s.lock = some k ∧ k.1 ≠ p := by
      simp only [crash] at hk
      cases hs : s.lock with
      | none => simp [hs] at hk
      | some j =>
        simp only [hs] at hk
        by_cases e : j.1 = p
        · simp [e] at hk
        · simp only [e, if_false, Option.some.injEq] at hk
          subst hk; exact ⟨rfl, e⟩
    rw [hpc, if_neg hl.2]
    exact h.lock_crit k hl.1
  · intro u hu; exact h.zphase u (hcls Pc.zphase rfl u hu).2
  · intro u hu; exact h.zpre u (hcls Pc.zpre rfl u hu).2
  · intro u hu; exact h.mphase u (hcls Pc.mphase rfl u hu).2
  · intro u hu; exact h.mpre u (hcls Pc.mpre rfl u hu).2
  · intro u hu; exact h.has_zip u (hcls Pc.needZip rfl u hu).2
  · intro u hu
    have : (crash s p).pc u ≠ .idle := by rw [hu]; simp
    exact h.has_mod u (by rw [← (hne u this).2]; exact hu)
  · intro u
    rw [hpc]
    by_cases e : u.1 = p
    · simp [e, Local]
    · simp only [e, if_false]
      rw [local_congr (s := s) (s' := crash s p) _ rfl rfl rfl rfl]; exact h.loc u
  · intro u hu
    rw [hpc]
    by_cases e : u.1 = p
    · simp [e]
    · simp only [e, if_false]
      apply h.dead_idle u
      simpa [crash, upd, e] using hu

theorem inv_step {n s s'} (h : Inv n s) (hs : Step n s s') : Inv n s' := by
  cases hs with
  | act _ t c o hn => exact inv_next h hn
  | crash p => exact inv_crash h p

theorem reachable_inv {n s} (hr : Reachable n s) : Inv n s := by
  induction hr with
  | init => exact inv_init n
  | step _ hs ih => exact inv_step ih hs

/-! ### what the invariant gives -/

theorem safe_of_inv {n s} (h : Inv n s) : Safe n s := by
  refine ⟨?_, h.zip_ok, h.mod_ok⟩
  rintro ⟨hd, hm⟩
  cases hs : s.dir with
  | none => simp [hs] at hd
  | some d =>
    have := h.avail_ok hm d hs
    subst this
    exact hs

/-- mutual exclusion: two threads inside locked regions are the same thread -/
theorem mutex {n s} (h : Inv n s) (u v : Tid) (hu : (s.pc u).crit = true)
    (hv : (s.pc v).crit = true) : u = v := by
  have a := h.crit_lock u hu
  have b := h.crit_lock v hv
  rw [a] at b
  exact Option.some.inj b

end CueVerif.ModCache
