import CueVerif.Spec.MvsOps
import CueVerif.Proofs.Mvs
/-!
Upgrade / UpgradeAll: `buildList` with an upgrade callback is `buildList` on the graph
`upGraph g up`, which has every edge of `g`; hence nothing reachable is lost and no selected
version is lowered, and the requested versions are reachable.
-/
namespace CueVerif.Mvs

theorem isSel_unique (g : Graph) (roots : List Node) (s t : Nat → Nat)
    (hs : IsSel g roots s) (ht : IsSel g roots t) : ∀ p, s p = t p := by
  intro p
  have h1 : s p ≤ t p := by
    rcases (hs p).2 with h | h
    · omega
    · exact (ht p).1 _ h
  have h2 : t p ≤ s p := by
    rcases (ht p).2 with h | h
    · omega
    · exact (hs p).1 _ h
  omega

theorem terminal_isSel (g : Graph) (roots : List Node) (s : St) (h : Run g roots s)
    (ht : Terminal s) : IsSel g roots s.sel :=
  fun p => terminal_sel g roots s h ht p

theorem reach_mono (g g' : Graph) (roots : List Node) (h : ∀ m n, n ∈ g m → n ∈ g' m) :
    ∀ n, Reach g roots n → Reach g' roots n := by
  intro n hn
  induction hn with
  | root hr => exact Reach.root hr
  | dep _ hmn ih => exact Reach.dep ih (h _ _ hmn)

/-- reachability from a set of reachable nodes stays inside the reachable set -/
theorem reach_trans (g : Graph) (roots roots' : List Node)
    (h : ∀ r ∈ roots', Reach g roots r) : ∀ n, Reach g roots' n → Reach g roots n := by
  intro n hn
  induction hn with
  | root hr => exact h _ hr
  | dep _ hmn ih => exact Reach.dep ih hmn

theorem isSel_le_of_reach_sub (g g' : Graph) (roots roots' : List Node) (s t : Nat → Nat)
    (hs : IsSel g roots s) (ht : IsSel g' roots' t)
    (h : ∀ n, Reach g roots n → Reach g' roots' n) : ∀ p, s p ≤ t p := by
  intro p
  rcases (hs p).2 with h0 | h0
  · omega
  · exact (ht p).1 _ (h _ h0)

theorem mem_upGraph (g : Graph) (up : Node → Node) (hnone : ∀ p, g (p, 0) = [])
    (m n : Node) (h : n ∈ g m) : n ∈ upGraph g up m := by
  have hm : m.2 ≠ 0 := by
    intro h0
    have : m = (m.1, 0) := by rw [← h0]
    rw [this, hnone] at h
    cases h
  unfold upGraph
  simp only [hm, if_false]
  split
  · exact List.mem_cons_of_mem _ h
  · exact h

theorem up_mem_upGraph (g : Graph) (up : Node → Node) (m : Node) (h : up m ≠ m) :
    up m ∈ upGraph g up m := by
  unfold upGraph
  simp only [h, ne_eq, not_false_eq_true, if_true]
  exact List.mem_cons_self

/-- in the upgraded graph the upgrade of a reachable node is reachable -/
theorem reach_up (g : Graph) (up : Node → Node) (roots : List Node) (m : Node)
    (h : Reach (upGraph g up) roots m) : Reach (upGraph g up) roots (up m) := by
  by_cases hu : up m = m
  · rw [hu]; exact h
  · exact Reach.dep h (up_mem_upGraph g up m hu)

/-- `buildList` with any upgrade callback never lowers a selected version -/
theorem up_never_lowers (g : Graph) (up : Node → Node) (roots : List Node) (s t : Nat → Nat)
    (hnone : ∀ p, g (p, 0) = [])
    (hs : IsSel g roots s) (ht : IsSel (upGraph g up) roots t) : ∀ p, s p ≤ t p :=
  isSel_le_of_reach_sub g _ roots roots s t hs ht
    (reach_mono g _ roots (mem_upGraph g up hnone))

theorem mem_override_upgradeList (g : Graph) (target : Node) (ups : List Node) (m n : Node)
    (h : n ∈ g m) : n ∈ override g target (upgradeList g target ups) m := by
  unfold override
  split
  · rename_i hm
    subst hm
    unfold upgradeList
    exact List.mem_append_left _ h
  · exact h

theorem override_none (g : Graph) (target : Node) (l : List Node) (ht : target.2 ≠ 0)
    (hnone : ∀ p, g (p, 0) = []) : ∀ p, override g target l (p, 0) = [] := by
  intro p
  unfold override
  split
  · rename_i h
    exfalso; apply ht; rw [← h]
  · exact hnone p

/-- `Upgrade` never lowers a selected version -/
theorem upgrade_never_lowers (g : Graph) (target : Node) (ups : List Node) (s t : Nat → Nat)
    (ht0 : target.2 ≠ 0) (hnone : ∀ p, g (p, 0) = [])
    (hs : IsSel g [target] s) (ht : IsSel (upgradeGraph g target ups) [target] t) :
    ∀ p, s p ≤ t p := by
  refine isSel_le_of_reach_sub g _ [target] [target] s t hs ht ?_
  intro n hn
  have h1 := reach_mono g _ [target] (mem_override_upgradeList g target ups) n hn
  exact reach_mono _ _ [target]
    (mem_upGraph _ (upgradeFn ups) (override_none g target _ ht0 hnone)) n h1

theorem upgradeTo_ge (ups : List Node) (u : Node) (h : u ∈ ups) :
    ∃ v, upgradeTo ups u.1 = some v ∧ u.2 ≤ v := by
  induction ups with
  | nil => cases h
  | cons a as ih =>
    rcases List.mem_cons.mp h with h | h
    · subst h
      unfold upgradeTo
      cases hq : upgradeTo as u.1 with
      | none => exact ⟨u.2, by simp, Nat.le_refl _⟩
      | some v =>
        simp only [if_true]
        by_cases hv : v < u.2
        · exact ⟨u.2, by simp [hv], Nat.le_refl _⟩
        · exact ⟨v, by simp [hv], by omega⟩
    · obtain ⟨v, hv, hle⟩ := ih h
      unfold upgradeTo
      rw [hv]
      by_cases ha : a.1 = u.1
      · simp only [ha, if_true]
        by_cases hlt : v < a.2
        · exact ⟨a.2, by simp [hlt], by omega⟩
        · exact ⟨v, by simp [hlt], hle⟩
      · exact ⟨v, by simp [ha], hle⟩

theorem upgradeList_has_path (g : Graph) (target : Node) (ups : List Node) (u : Node)
    (h : u ∈ ups) : ∃ x, (u.1, x) ∈ upgradeList g target ups := by
  unfold upgradeList
  by_cases hin : (g target).any (fun m => m.1 == u.1) = true
  · obtain ⟨m, hm, hp⟩ := List.any_eq_true.mp hin
    refine ⟨m.2, List.mem_append_left _ ?_⟩
    have : m.1 = u.1 := by simpa using hp
    rw [← this]; exact hm
  · refine ⟨0, List.mem_append_right _ ?_⟩
    refine List.mem_map.mpr ⟨u, List.mem_filter.mpr ⟨h, ?_⟩, rfl⟩
    simp only [Bool.not_eq_true] at hin
    simp [hin]

/-- `Upgrade` selects at least every requested version -/
theorem upgrade_selects_requested (g : Graph) (target : Node) (ups : List Node) (t : Nat → Nat)
    (ht0 : target.2 ≠ 0) (ht : IsSel (upgradeGraph g target ups) [target] t)
    (u : Node) (hu : u ∈ ups) : u.2 ≤ t u.1 := by
  obtain ⟨x, hx⟩ := upgradeList_has_path g target ups u hu
  obtain ⟨v, hv, hle⟩ := upgradeTo_ge ups u hu
  -- (u.1, x) is a requirement of the target in the upgraded graph
  have h1 : (u.1, x) ∈ upgradeGraph g target ups target := by
    unfold upgradeGraph upGraph
    simp only [ht0, if_false]
    have : (u.1, x) ∈ override g target (upgradeList g target ups) target := by
      unfold override; simp only [if_true]; exact hx
    split
    · exact List.mem_cons_of_mem _ this
    · exact this
  have h2 : Reach (upgradeGraph g target ups) [target] (u.1, x) :=
    Reach.dep (Reach.root List.mem_cons_self) h1
  have h3 := reach_up (override g target (upgradeList g target ups)) (upgradeFn ups) [target] _ h2
  have h4 : upgradeFn ups (u.1, x) = (u.1, v) := by
    unfold upgradeFn
    simp only [hv]
  rw [h4] at h3
  exact Nat.le_trans hle ((ht u.1).1 v h3)

/-- `UpgradeAll`: every module met by the traversal is selected at least at the version
`reqs.Upgrade` names for it -/
theorem upgradeAll_selects_latest (g : Graph) (target : Node) (latest : Node → Node)
    (t : Nat → Nat) (ht : IsSel (upgradeAllGraph g target latest) [target] t)
    (m : Node) (hm : Reach (upgradeAllGraph g target latest) [target] m)
    (hp : m.1 ≠ target.1) : (latest m).2 ≤ t (latest m).1 := by
  have h := reach_up g (upgradeAllFn target latest) [target] m hm
  have h2 : upgradeAllFn target latest m = latest m := by
    unfold upgradeAllFn; simp [hp]
  rw [h2] at h
  exact (ht (latest m).1).1 _ h

end CueVerif.Mvs

namespace CueVerif.Mvs

theorem mem_insertByPath (x n : Node) (l : List Node) :
    n ∈ insertByPath x l ↔ n = x ∨ n ∈ l := by
  induction l with
  | nil => simp [insertByPath]
  | cons y ys ih =>
    unfold insertByPath
    split
    · simp
    · simp only [List.mem_cons, ih]
      constructor
      · rintro (h | h | h)
        · exact Or.inr (Or.inl h)
        · exact Or.inl h
        · exact Or.inr (Or.inr h)
      · rintro (h | h | h)
        · exact Or.inr (Or.inl h)
        · exact Or.inl h
        · exact Or.inr (Or.inr h)

/-- the final `slices.SortFunc` of `Req` only permutes -/
theorem mem_sortByPath (n : Node) (l : List Node) : n ∈ sortByPath l ↔ n ∈ l := by
  induction l with
  | nil => simp [sortByPath]
  | cons x xs ih =>
    show n ∈ insertByPath x (sortByPath xs) ↔ _
    rw [mem_insertByPath, ih, List.mem_cons]

end CueVerif.Mvs
