/-
Mutual exclusion of RWMutex holders in the generic lock machine (Model/Lockset.lean):
holds in every reachable state for ALL protocols (it is the lock contract, not a property
of the checked programs).
-/
import CueVerif.Model.Lockset
namespace CueVerif.Lockset

theorem holdsAny_eq_true {h : Held} {l : Lk} : holdsAny h l = true ↔ ∃ w, (l, w) ∈ h := by
  simp only [holdsAny, List.any_eq_true, beq_iff_eq]
  constructor
  · rintro ⟨⟨l', w⟩, hm, rfl⟩; exact ⟨w, hm⟩
  · rintro ⟨w, hm⟩; exact ⟨(l, w), hm, rfl⟩

theorem holdsAny_eq_false {h : Held} {l : Lk} : holdsAny h l = false ↔ ∀ w, (l, w) ∉ h := by
  rw [← Bool.not_eq_true, holdsAny_eq_true]
  exact ⟨fun hn w hm => hn ⟨w, hm⟩, fun hn ⟨w, hm⟩ => hn w hm⟩

theorem held_contains {h : Held} {e : Lk × Bool} : h.contains e = true ↔ e ∈ h :=
  List.contains_iff_mem

/-- `free` for a write lock: nobody holds `l` in any mode -/
theorem free_true {L : Type} {ths : List (Th L)} {l : Lk} (h : free ths l true = true)
    {u : Th L} (hu : u ∈ ths) (w : Bool) : (l, w) ∉ u.held := by
  simp only [free, List.all_eq_true] at h
  have := h u hu
  simp only [if_true, Bool.not_eq_true'] at this
  exact holdsAny_eq_false.1 this w

/-- `free` for a read lock: nobody holds `l` in write mode -/
theorem free_false {L : Type} {ths : List (Th L)} {l : Lk} (h : free ths l false = true)
    {u : Th L} (hu : u ∈ ths) : (l, true) ∉ u.held := by
  simp only [free, List.all_eq_true] at h
  have := h u hu
  simp only [Bool.false_eq_true, if_false, Bool.not_eq_true'] at this
  intro hm
  rw [← held_contains, this] at hm
  cases hm

/-- what one instruction does to the lock set of the thread: it shrinks (or stays), or
one lock that was free is added in front -/
theorem next_held {D L : Type} (sem : Sem D L) (fr : Lk → Bool → Bool) (d : D) (t : Th L)
    (d' : D) (t' : Th L) (h : next sem fr d t = some (d', t')) :
    (∀ e, e ∈ t'.held → e ∈ t.held) ∨ ∃ l w, fr l w = true ∧ t'.held = (l, w) :: t.held := by
  unfold next at h
  split at h
  · cases h
  · split at h
    · cases h; exact .inl fun e he => he
    · split at h
      · cases h; exact .inl fun e he => List.mem_of_mem_erase he
      · cases h
  · split at h
    · cases h; exact .inl fun e he => he
    · split at h
      · next hf => cases h; exact .inr ⟨_, _, hf, rfl⟩
      · cases h
    · split at h
      · cases h; exact .inl fun e he => List.mem_of_mem_erase he
      · cases h
    · cases h; exact .inl fun e he => he
    · cases h; exact .inl fun e he => he
    · cases h; exact .inl fun e he => he
    · cases h; exact .inl fun e he => he
    · cases h; exact .inl fun e he => he
    · cases h; exact .inl fun e he => he
    · cases h

/-- the invariant, in membership form -/
def MX {D L : Type} (s : St D L) : Prop :=
  ∀ (i j : Nat) (ti tj : Th L) (l : Lk) (w : Bool), i ≠ j → s.ths[i]? = some ti →
    s.ths[j]? = some tj → (l, true) ∈ ti.held → (l, w) ∉ tj.held

theorem MX_step {D L : Type} (sem : Sem D L) (progs : List Prog) (initL : L → Prop)
    (s s' : St D L) (hs : Step sem progs initL s s') (ih : MX s) : MX s' := by
  cases hs with
  | spawn p hp l0 hl =>
    intro i j ti tj l w hij hi hj hw
    simp only [List.getElem?_append] at hi hj
    split at hi
    · split at hj
      · exact ih i j ti tj l w hij hi hj hw
      · -- tj is the new thread
        have : tj = Th.new p l0 := by
          cases hk : j - s.ths.length with
          | zero => rw [hk] at hj; simpa using hj.symm
          | succ n => rw [hk] at hj; simp at hj
        subst this
        simp [Th.new]
    · have : ti = Th.new p l0 := by
        cases hk : i - s.ths.length with
        | zero => rw [hk] at hi; simpa using hi.symm
        | succ n => rw [hk] at hi; simp at hi
      subst this
      simp [Th.new] at hw
  | thread k t hk d' t' hn =>
    have hnh := next_held sem _ _ t d' t' hn
    have htm : ∀ {a : Nat} {u : Th L}, s.ths[a]? = some u → u ∈ s.ths :=
      fun h => List.mem_of_getElem? h
    intro i j ti tj l w hij hi hj hw
    simp only [List.getElem?_set] at hi hj
    by_cases hik : k = i
    · subst hik
      have hjk : ¬ k = j := hij
      rw [if_neg hjk] at hj
      have hlt : k < s.ths.length := by
        rcases Nat.lt_or_ge k s.ths.length with h | h
        · exact h
        · rw [List.getElem?_eq_none h] at hk; cases hk
      rw [if_pos rfl, if_pos hlt] at hi
      cases hi
      rcases hnh with hsub | ⟨l', w', hf, he⟩
      · exact ih k j t tj l w hij hk hj (hsub _ hw)
      · rw [he, List.mem_cons] at hw
        rcases hw with heq | hw
        · cases heq
          exact free_true hf (htm hj) w
        · exact ih k j t tj l w hij hk hj hw
    · rw [if_neg hik] at hi
      by_cases hjk : k = j
      · subst hjk
        have hlt : k < s.ths.length := by
          rcases Nat.lt_or_ge k s.ths.length with h | h
          · exact h
          · rw [List.getElem?_eq_none h] at hk; cases hk
        rw [if_pos rfl, if_pos hlt] at hj
        cases hj
        rcases hnh with hsub | ⟨l', w', hf, he⟩
        · exact fun hm => ih i k ti t l w hij hi hk hw (hsub _ hm)
        · rw [he, List.mem_cons]
          rintro (heq | hm)
          · cases heq
            cases w with
            | true => exact free_true hf (htm hi) true hw
            | false => exact free_false hf (htm hi) hw
          · exact ih i k ti t l w hij hi hk hw hm
      · rw [if_neg hjk] at hj
        exact ih i j ti tj l w hij hi hj hw

theorem MX_run {D L : Type} (sem : Sem D L) (progs : List Prog) (initL : L → Prop)
    (d0 : D) (s : St D L) (hr : Run sem progs initL d0 s) : MX s := by
  induction hr with
  | init => intro i j ti tj l w _ hi; simp at hi
  | step _ hs ih => exact MX_step sem progs initL _ _ hs ih

theorem mutual_exclusion {D L : Type} (sem : Sem D L) (progs : List Prog) (initL : L → Prop)
    (d0 : D) (s : St D L) (hr : Run sem progs initL d0 s)
    (i j : Nat) (ti tj : Th L) (l : Lk) (hij : i ≠ j)
    (hi : s.ths[i]? = some ti) (hj : s.ths[j]? = some tj)
    (hw : ti.held.contains (l, true) = true) : holdsAny tj.held l = false :=
  holdsAny_eq_false.2 fun w =>
    MX_run sem progs initL d0 s hr i j ti tj l w hij hi hj (held_contains.1 hw)

end CueVerif.Lockset
