/-
C10 helper lemmas: fuel sufficiency of the reference parser of Spec/JsonDoc.lean on ARBITRARY
texts.  Every token consumes input (`pStrBody_len`, `pNumber_len`, …), every successful call of
`pValue`/`pElems`/`pMembers` returns a strictly shorter rest, and fuel equal to the number of
bytes consumed is enough (`pValue_fuel`, mutual structural induction on the fuel); hence fuel
above the length of the text is always enough (`pValue_fuel_enough`).  Core Lean only.
-/
import CueVerif.Proofs.JsonDocFuel
namespace CueVerif.Json
open CueVerif.Quote (Bytes decodeRune)

/-! ### every token consumes input -/

theorem consFst_some {α β : Type} {a : α} {o : Option (List α × β)} {x : List α × β}
    (h : consFst a o = some x) : ∃ as r, o = some (as, r) ∧ x = (a :: as, r) := by
  cases o with
  | none => simp [consFst] at h
  | some p => obtain ⟨as, r⟩ := p; simp only [consFst, Option.some.injEq] at h; exact ⟨as, r, rfl, h.symm⟩

theorem pStrBody_len : ∀ (f : Nat) (s : Bytes) (is : List JItem) (r : Bytes),
    pStrBody f s = some (is, r) → r.length < s.length
  | 0, s, is, r, h => by simp [pStrBody] at h
  | f + 1, [], is, r, h => by simp [pStrBody] at h
  | f + 1, c :: rest, is, r, h => by
    simp only [pStrBody] at h
    split at h
    · simp only [Option.some.injEq, Prod.mk.injEq] at h; rw [← h.2]; simp
    · split at h
      · split at h
        · split at h
          · obtain ⟨as, r', h1, h2⟩ := consFst_some h
            have := pStrBody_len f _ as r' h1
            simp only [Prod.mk.injEq] at h2; rw [h2.2]; simp only [List.length_cons]; omega
          · cases h
        · split at h
          · obtain ⟨as, r', h1, h2⟩ := consFst_some h
            have := pStrBody_len f _ as r' h1
            simp only [Prod.mk.injEq] at h2; rw [h2.2]; simp only [List.length_cons]; omega
          · cases h
        · cases h
      · split at h
        · cases h
        · split at h
          · obtain ⟨as, r', h1, h2⟩ := consFst_some h
            have := pStrBody_len f _ as r' h1
            simp only [Prod.mk.injEq] at h2; rw [h2.2]; simp only [List.length_cons]; omega
          · split at h
            · cases h
            · obtain ⟨as, r', h1, h2⟩ := consFst_some h
              have := pStrBody_len f _ as r' h1
              simp only [Prod.mk.injEq] at h2; rw [h2.2]
              simp only [List.length_drop, List.length_cons] at this ⊢; omega

theorem span_loop_len (p : Nat → Bool) : ∀ (l acc : Bytes),
    (List.span.loop p l acc).1.length + (List.span.loop p l acc).2.length = acc.length + l.length
  | [], acc => by simp [List.span.loop]
  | a :: l, acc => by
    simp only [List.span.loop]
    split
    · rw [span_loop_len p l (a :: acc)]; simp only [List.length_cons]; omega
    · simp

theorem spanDigits_len (u : Bytes) : (spanDigits u).1.length + (spanDigits u).2.length = u.length := by
  have := span_loop_len isDigit u []
  simpa [spanDigits, List.span] using this

theorem pMinus_len (s : Bytes) : (pMinus s).2.length ≤ s.length := by
  unfold pMinus; split <;> simp

theorem pInt_len (u i r1 : Bytes) (h : pInt u = some (i, r1)) : r1.length < u.length := by
  have hl := spanDigits_len u
  unfold pInt at h
  split at h
  · cases h
  · next more r0 hs =>
    simp only [Option.some.injEq, Prod.mk.injEq] at h
    rw [hs] at hl; rw [← h.2]; simp only [List.length_cons, List.length_append] at hl ⊢; omega
  · next int r0 hne _ hs =>
    simp only [Option.some.injEq, Prod.mk.injEq] at h
    rw [hs] at hl; rw [← h.2]
    cases int with
    | nil => exact (hne rfl).elim
    | cons d ds => simp only [List.length_cons] at hl ⊢; omega

theorem pFrac_len (r1 : Bytes) (fr : Option Bytes) (r2 : Bytes) (h : pFrac r1 = some (fr, r2)) :
    r2.length ≤ r1.length := by
  unfold pFrac at h
  split at h
  · next r =>
    have hl := spanDigits_len r
    split at h
    · cases h
    · next f r2' _ hs =>
      simp only [Option.some.injEq, Prod.mk.injEq] at h
      rw [hs] at hl; rw [← h.2]; simp only [List.length_cons] at hl ⊢; omega
  · simp only [Option.some.injEq, Prod.mk.injEq] at h; rw [← h.2]; exact Nat.le_refl _

theorem pSign_len (r : Bytes) : (pSign r).2.length ≤ r.length := by
  unfold pSign; split <;> simp

theorem pExp_len (r2 : Bytes) (e : Option JExp) (r3 : Bytes) (h : pExp r2 = some (e, r3)) :
    r3.length ≤ r2.length := by
  unfold pExp at h
  split at h
  · simp only [Option.some.injEq, Prod.mk.injEq] at h; rw [← h.2]; exact Nat.le_refl _
  · next c r =>
    split at h
    · have hl := spanDigits_len (pSign r).2
      have hs := pSign_len r
      split at h
      · cases h
      · next ds r4 _ hsp =>
        simp only [Option.some.injEq, Prod.mk.injEq] at h
        rw [hsp] at hl; rw [← h.2]; simp only [List.length_cons] at hl ⊢; omega
    · simp only [Option.some.injEq, Prod.mk.injEq] at h; rw [← h.2]; exact Nat.le_refl _

theorem pNumber_len (s : Bytes) (n : JNum) (r : Bytes) (h : pNumber s = some (n, r)) :
    r.length < s.length := by
  unfold pNumber at h
  split at h
  · cases h
  · next i r1 hi =>
    split at h
    · cases h
    · next fr r2 hf =>
      split at h
      · cases h
      · next e r3 he =>
        simp only [Option.some.injEq, Prod.mk.injEq] at h
        have h1 := pMinus_len s
        have h2 := pInt_len _ _ _ hi
        have h3 := pFrac_len _ _ _ hf
        have h4 := pExp_len _ _ _ he
        rw [← h.2]; omega

theorem pString_len (r : Bytes) (k r1 : Bytes) (h : pString r = some (k, r1)) : r1.length < r.length := by
  unfold pString at h
  cases hb : pStrBody (r.length + 1) r with
  | none => rw [hb] at h; cases h
  | some p =>
    obtain ⟨is, r'⟩ := p
    rw [hb] at h
    simp only [Option.map_some, Option.some.injEq, Prod.mk.injEq] at h
    rw [← h.2]; exact pStrBody_len _ _ _ _ hb

theorem skipWs_len (r : Bytes) : (skipWs r).length ≤ r.length := by
  unfold skipWs; exact (List.dropWhile_sublist _).length_le

theorem map_eq_some' {α β : Type} {o : Option α} {g : α → β} {x : β} (h : o.map g = some x) :
    ∃ p, o = some p ∧ g p = x := by
  cases o with
  | none => cases h
  | some p => exact ⟨p, rfl, by simpa using h⟩

/-- the scalar branches of `pValue` do not look at the fuel -/
theorem pValue_leaf (c : Nat) (r : Bytes) (h1 : (c == 0x5B) = false) (h2 : (c == 0x7B) = false)
    (f g : Nat) : pValue (f + 1) (c :: r) = pValue (g + 1) (c :: r) := by
  simp only [pValue, h1, h2, Bool.false_eq_true, if_false]

theorem pValue_leaf_len (c : Nat) (r : Bytes) (h1 : (c == 0x5B) = false) (h2 : (c == 0x7B) = false)
    (f : Nat) (x : JVal × Bytes) (h : pValue (f + 1) (c :: r) = some x) : x.2.length < (c :: r).length := by
  simp only [pValue, h1, h2, Bool.false_eq_true, if_false] at h
  split at h
  · split at h
    · simp only [Option.some.injEq] at h; rw [← h]; simp only [List.length_drop, List.length_cons]; omega
    · cases h
  · split at h
    · split at h
      · simp only [Option.some.injEq] at h; rw [← h]; simp only [List.length_drop, List.length_cons]; omega
      · cases h
    · split at h
      · split at h
        · simp only [Option.some.injEq] at h; rw [← h]; simp only [List.length_drop, List.length_cons]; omega
        · cases h
      · split at h
        · obtain ⟨p, hp, hx⟩ := map_eq_some' h
          have := pString_len r p.1 p.2 hp
          rw [← hx]; simp only [List.length_cons]; omega
        · obtain ⟨p, hp, hx⟩ := map_eq_some' h
          have := pNumber_len (c :: r) p.1 p.2 hp
          rw [← hx]; exact this

mutual
theorem pValue_fuel : ∀ (f : Nat) (s : Bytes) (x : JVal × Bytes), pValue f s = some x →
    x.2.length < s.length ∧ ∀ g, s.length - x.2.length ≤ g → pValue g s = some x
  | 0, s, x, h => by simp [pValue] at h
  | f + 1, [], x, h => by simp [pValue] at h
  | f + 1, c :: r, x, h => by
    by_cases h1 : (c == 0x5B) = true
    · have hc : c = 0x5B := by simpa using h1
      subst hc
      simp only [pValue] at h
      simp only [Nat.reduceBEq, Bool.false_eq_true, if_false, if_true] at h
      cases hs : skipWs r with
      | nil => rw [hs] at h; cases h
      | cons c1 r1 =>
        have hsl := skipWs_len r
        rw [hs] at h hsl
        simp only at h
        simp only [List.length_cons] at hsl
        split at h
        · next hc1 =>
          simp only [Option.some.injEq] at h
          subst h
          refine ⟨by simp only [List.length_cons]; omega, ?_⟩
          intro g hg
          obtain ⟨g', rfl⟩ : ∃ g', g = g' + 1 := ⟨g - 1, by simp only [List.length_cons] at hg; omega⟩
          simp [pValue, hs, hc1]
        · next hc1 =>
          obtain ⟨p, hp, hx⟩ := map_eq_some' h
          obtain ⟨l1, l2⟩ := pElems_fuel f _ p hp
          subst hx
          simp only [List.length_cons] at l1 l2 ⊢
          refine ⟨by omega, ?_⟩
          intro g hg
          obtain ⟨g', rfl⟩ : ∃ g', g = g' + 1 := ⟨g - 1, by omega⟩
          have := l2 g' (by omega)
          simp [pValue, hs, hc1, this]
    · by_cases h2 : (c == 0x7B) = true
      · have hc : c = 0x7B := by simpa using h2
        subst hc
        simp only [pValue] at h
        simp only [Nat.reduceBEq, Bool.false_eq_true, if_false, if_true] at h
        cases hs : skipWs r with
        | nil => rw [hs] at h; cases h
        | cons c1 r1 =>
          have hsl := skipWs_len r
          rw [hs] at h hsl
          simp only at h
          simp only [List.length_cons] at hsl
          split at h
          · next hc1 =>
            simp only [Option.some.injEq] at h
            subst h
            refine ⟨by simp only [List.length_cons]; omega, ?_⟩
            intro g hg
            obtain ⟨g', rfl⟩ : ∃ g', g = g' + 1 := ⟨g - 1, by simp only [List.length_cons] at hg; omega⟩
            simp [pValue, hs, hc1]
          · next hc1 =>
            obtain ⟨p, hp, hx⟩ := map_eq_some' h
            obtain ⟨l1, l2⟩ := pMembers_fuel f _ p hp
            subst hx
            simp only [List.length_cons] at l1 l2 ⊢
            refine ⟨by omega, ?_⟩
            intro g hg
            obtain ⟨g', rfl⟩ : ∃ g', g = g' + 1 := ⟨g - 1, by omega⟩
            have := l2 g' (by omega)
            simp [pValue, hs, hc1, this]
      · have h1' : (c == 0x5B) = false := by simpa using h1
        have h2' : (c == 0x7B) = false := by simpa using h2
        have hl := pValue_leaf_len c r h1' h2' f x h
        refine ⟨hl, ?_⟩
        intro g hg
        obtain ⟨g', rfl⟩ : ∃ g', g = g' + 1 := ⟨g - 1, by omega⟩
        rw [← pValue_leaf c r h1' h2' f g']; exact h
theorem pElems_fuel : ∀ (f : Nat) (s : Bytes) (x : List JVal × Bytes), pElems f s = some x →
    x.2.length < s.length ∧ ∀ g, s.length - x.2.length ≤ g → pElems g s = some x
  | 0, s, x, h => by simp [pElems] at h
  | f + 1, s, x, h => by
    simp only [pElems] at h
    cases hv : pValue f s with
    | none => rw [hv] at h; cases h
    | some p =>
      obtain ⟨v, r⟩ := p
      rw [hv] at h
      simp only at h
      obtain ⟨v1, v2⟩ := pValue_fuel f s (v, r) hv
      simp only at v1 v2
      cases hs : skipWs r with
      | nil => rw [hs] at h; cases h
      | cons c r' =>
        have hsl := skipWs_len r
        rw [hs] at h hsl
        simp only at h
        simp only [List.length_cons] at hsl
        split at h
        · next hc =>
          obtain ⟨as, r'', hE, hx⟩ := consFst_some h
          obtain ⟨e1, e2⟩ := pElems_fuel f _ (as, r'') hE
          have hsl' := skipWs_len r'
          subst hx
          simp only at e1 e2 ⊢
          refine ⟨by omega, ?_⟩
          intro g hg
          obtain ⟨g', rfl⟩ : ∃ g', g = g' + 1 := ⟨g - 1, by omega⟩
          have a1 := v2 g' (by omega)
          have a2 := e2 g' (by omega)
          simp [pElems, a1, hs, hc, a2, consFst]
        · split at h
          · next hc hc' =>
            simp only [Option.some.injEq] at h
            subst h
            simp only
            refine ⟨by omega, ?_⟩
            intro g hg
            obtain ⟨g', rfl⟩ : ∃ g', g = g' + 1 := ⟨g - 1, by omega⟩
            have a1 := v2 g' (by omega)
            simp [pElems, a1, hs, hc, hc']
          · cases h
theorem pMembers_fuel : ∀ (f : Nat) (s : Bytes) (x : List (Bytes × JVal) × Bytes), pMembers f s = some x →
    x.2.length < s.length ∧ ∀ g, s.length - x.2.length ≤ g → pMembers g s = some x
  | 0, s, x, h => by simp [pMembers] at h
  | f + 1, [], x, h => by simp [pMembers] at h
  | f + 1, q :: r, x, h => by
    simp only [pMembers] at h
    split at h
    · cases h
    · next hq =>
      cases hk : pString r with
      | none => rw [hk] at h; cases h
      | some kp =>
        obtain ⟨k, r1⟩ := kp
        rw [hk] at h
        simp only at h
        have k1 := pString_len r k r1 hk
        cases hs : skipWs r1 with
        | nil => rw [hs] at h; cases h
        | cons c r2 =>
          have hsl := skipWs_len r1
          rw [hs] at h hsl
          simp only at h
          simp only [List.length_cons] at hsl
          split at h
          · cases h
          · next hc =>
            cases hv : pValue f (skipWs r2) with
            | none => rw [hv] at h; cases h
            | some p =>
              obtain ⟨v, r3⟩ := p
              rw [hv] at h
              simp only at h
              obtain ⟨v1, v2⟩ := pValue_fuel f _ (v, r3) hv
              simp only at v1 v2
              have hsl2 := skipWs_len r2
              cases hs3 : skipWs r3 with
              | nil => rw [hs3] at h; cases h
              | cons c' r4 =>
                have hsl3 := skipWs_len r3
                rw [hs3] at h hsl3
                simp only at h
                simp only [List.length_cons] at hsl3
                split at h
                · next hc2 =>
                  obtain ⟨as, r5, hM, hx⟩ := consFst_some h
                  obtain ⟨m1, m2⟩ := pMembers_fuel f _ (as, r5) hM
                  have hsl4 := skipWs_len r4
                  subst hx
                  simp only [List.length_cons] at m1 m2 ⊢
                  refine ⟨by omega, ?_⟩
                  intro g hg
                  obtain ⟨g', rfl⟩ : ∃ g', g = g' + 1 := ⟨g - 1, by omega⟩
                  have a1 := v2 g' (by omega)
                  have a2 := m2 g' (by omega)
                  simp [pMembers, hq, hk, hs, hc, a1, hs3, hc2, a2, consFst]
                · split at h
                  · next hc2 hc3 =>
                    simp only [Option.some.injEq] at h
                    subst h
                    simp only [List.length_cons]
                    refine ⟨by omega, ?_⟩
                    intro g hg
                    obtain ⟨g', rfl⟩ : ∃ g', g = g' + 1 := ⟨g - 1, by omega⟩
                    have a1 := v2 g' (by omega)
                    simp [pMembers, hq, hk, hs, hc, a1, hs3, hc2, hc3]
                  · cases h
end

/-- fuel above the length of the text is always enough -/
theorem pValue_fuel_enough (s : Bytes) (f : Nat) (x : JVal × Bytes) (h : pValue f s = some x)
    (g : Nat) (hg : s.length < g) : pValue g s = some x :=
  (pValue_fuel f s x h).2 g (by omega)

end CueVerif.Json
