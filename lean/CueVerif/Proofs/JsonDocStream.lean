/-
C10 helper lemmas, streams: the stream framing of Spec/JsonDoc.lean (`parseStream`, the
framing json.Decoder implements and `Decoder.Extract` relies on) reads a sequence of marshalled
values separated by white space as exactly those values in order; what comes after the
sequence decides how the stream ends (clean end of input, or an error after the valid prefix).
Core Lean only.
-/
import CueVerif.Proofs.JsonDocProps
namespace CueVerif.Json
open CueVerif CueVerif.Quote

/-- marshalled values, each followed by its separator -/
def streamText : List (MVal × Bytes) → Bytes
  | [] => []
  | (v, sep) :: t => appendJSON v ++ sep ++ streamText t

theorem skipWs_append_ws (pre x : Bytes) (h : pre.all isWs = true) : skipWs (pre ++ x) = skipWs x := by
  induction pre with
  | nil => rfl
  | cons c t ih =>
    simp only [List.all_cons, Bool.and_eq_true] at h
    simp only [skipWs, List.cons_append, List.dropWhile_cons, h.1, if_true]
    exact ih h.2

theorem parseStream_skip (fuel : Nat) (pre x : Bytes) (h : pre.all isWs = true) :
    parseStream fuel (pre ++ x) = parseStream fuel x := by
  cases fuel with
  | zero => rfl
  | succ f => simp only [parseStream, skipWs_append_ws pre x h]

theorem isNumChar_of_ws {c : Nat} (h : isWs c = true) : isNumChar c = false := by
  simp only [isWs, Bool.or_eq_true, beq_iff_eq] at h
  simp only [isNumChar, isDigit, Bool.or_eq_false_iff, Bool.and_eq_false_iff, decide_eq_false_iff_not,
    beq_eq_false_iff_ne]
  omega

theorem numStop_ws_append (sep x : Bytes) (hne : sep ≠ []) (h : sep.all isWs = true) :
    numStop (sep ++ x) = true := by
  cases sep with
  | nil => exact absurd rfl hne
  | cons c t =>
    simp only [List.all_cons, Bool.and_eq_true] at h
    simp [numStop, isNumChar_of_ws h.1]

/-- a sequence of marshalled values with non-empty white-space separators, after any leading
white space and before ANY tail: exactly those values, in order, then whatever the tail gives -/
theorem stream_prefix (tail : Bytes) (fuel : Nat) : ∀ (l : List (MVal × Bytes)),
    (∀ p ∈ l, p.1.WF ∧ p.2 ≠ [] ∧ p.2.all isWs = true) → ∀ pre : Bytes, pre.all isWs = true →
    parseStream (l.length + fuel) (pre ++ (streamText l ++ tail)) =
      ((l.map fun p => dataOf p.1) ++ (parseStream fuel tail).1, (parseStream fuel tail).2) := by
  intro l
  induction l with
  | nil =>
    intro _ pre hpre
    simp only [List.length_nil, Nat.zero_add, streamText, List.nil_append, List.map_nil]
    rw [parseStream_skip fuel pre tail hpre]
  | cons p t ih =>
    intro hwf pre hpre
    obtain ⟨v, sep⟩ := p
    obtain ⟨hv, hne, hsep⟩ := hwf (v, sep) (by simp)
    have iht := ih (fun q hq => hwf q (List.mem_cons_of_mem _ hq)) sep hsep
    rw [parseStream_skip _ pre _ hpre]
    have hfuel : (List.length ((v, sep) :: t) + fuel) = (t.length + fuel) + 1 := by
      simp only [List.length_cons]; omega
    rw [hfuel]
    obtain ⟨c, tl, hct, hc⟩ := appendJSON_head v
    have hws := (valStart_facts hc).1
    have hshape : streamText ((v, sep) :: t) ++ tail = appendJSON v ++ (sep ++ (streamText t ++ tail)) := by
      simp only [streamText, List.append_assoc]
    rw [hshape]
    have hstop := numStop_ws_append sep (streamText t ++ tail) hne hsep
    have hp := doc_prefix v hv (sep ++ (streamText t ++ tail)) hstop
    have hsk : skipWs (appendJSON v ++ (sep ++ (streamText t ++ tail))) =
        appendJSON v ++ (sep ++ (streamText t ++ tail)) := by
      rw [hct, List.cons_append]; exact skipWs_cons _ hws
    have hlen : (sep ++ (streamText t ++ tail)).length <
        (appendJSON v ++ (sep ++ (streamText t ++ tail))).length := by
      rw [hct]; simp only [List.length_append, List.length_cons]; omega
    have hne' : (appendJSON v ++ (sep ++ (streamText t ++ tail))).isEmpty = false := by
      rw [hct]; rfl
    simp only [parseStream, hsk, hne', hp, hlen, iht, Bool.false_eq_true, if_false, if_true,
      List.map_cons, List.cons_append]

theorem marshalStream_eq (vs : List MVal) :
    marshalStream vs = streamText (vs.map fun v => (v, [0x0A])) := by
  induction vs with
  | nil => rfl
  | cons v t ih => simp only [marshalStream, List.map_cons, streamText, ih, List.append_assoc,
      List.cons_append, List.nil_append]

/-- `MarshalStream`, then the stream reader: exactly the values, in order, then a clean end -/
theorem stream_roundtrip (vs : List MVal) (hwf : ∀ v ∈ vs, v.WF) :
    parseStream (vs.length + 1) (marshalStream vs) = (vs.map dataOf, true) := by
  have h := stream_prefix [] 1 (vs.map fun v => (v, [0x0A]))
    (by
      intro p hp
      obtain ⟨v, hv, rfl⟩ := List.mem_map.mp hp
      exact ⟨hwf v hv, by simp, by simp [isWs]⟩) [] rfl
  simp only [List.length_map, List.nil_append, List.append_nil, List.map_map] at h
  rw [marshalStream_eq, h]
  simp [parseStream, skipWs, Function.comp_def]

end CueVerif.Json
