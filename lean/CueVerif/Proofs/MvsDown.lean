import CueVerif.Proofs.MvsFifo
/-!
`Downgrade`: the `add` / `exclude` closures keep a set of "good" module versions (added, not
excluded) that is closed under requirements and within the `max` map; the downgraded list
consists of good versions; hence both recomputed build lists stay within `max`.
-/
namespace CueVerif.Mvs

theorem mem_rdepsOf (rd : List (Node × Node)) (r m : Node) :
    m ∈ rdepsOf rd r ↔ (r, m) ∈ rd := by
  unfold rdepsOf
  simp only [List.mem_map, List.mem_filter]
  constructor
  · rintro ⟨e, ⟨he, h1⟩, h2⟩
    have h3 : e.1 = r := by simpa using h1
    have : e = (r, m) := by rw [← h3, ← h2]
    rw [← this]; exact he
  · intro h
    exact ⟨(r, m), ⟨h, by simp⟩, rfl⟩

/-- the invariant of `add`/`exclude`; `G` = the module versions whose `add` call is in progress -/
structure DInv (g : Graph) (maxv : Nat → Option Nat) (G : List Node) (s : DgSt) : Prop where
  excl_closed : ∀ e ∈ s.rdeps, e.1 ∈ s.excluded → e.2 ∈ s.excluded
  complete : ∀ m ∈ s.added, m ∉ G →
    m ∈ s.excluded ∨ ∀ r ∈ g m, r ∈ s.added ∧ (r, m) ∈ s.rdeps
  ok : ∀ m ∈ s.added, m ∉ s.excluded → ∀ v, maxv m.1 = some v → m.2 ≤ v
  rdeps_edge : ∀ e ∈ s.rdeps, e.1 ∈ g e.2

/-- a set of settled versions: good, not in progress, closed under requirements -/
structure Settled (g : Graph) (G : List Node) (X : Node → Prop) (s : DgSt) : Prop where
  closed : ∀ m, X m → ∀ r ∈ g m, X r
  added : ∀ m, X m → m ∈ s.added
  not_gray : ∀ m, X m → m ∉ G
  good : ∀ m, X m → m ∉ s.excluded

structure DStep (s s' : DgSt) : Prop where
  added : ∀ n ∈ s.added, n ∈ s'.added
  excluded : ∀ n ∈ s.excluded, n ∈ s'.excluded
  rdeps : ∀ e ∈ s.rdeps, e ∈ s'.rdeps

theorem DStep.refl (s : DgSt) : DStep s s := ⟨fun _ h => h, fun _ h => h, fun _ h => h⟩

theorem DStep.trans {a b c : DgSt} (h1 : DStep a b) (h2 : DStep b c) : DStep a c :=
  ⟨fun n h => h2.added n (h1.added n h), fun n h => h2.excluded n (h1.excluded n h),
   fun e h => h2.rdeps e (h1.rdeps e h)⟩

/-- what every operation guarantees -/
structure DOut (g : Graph) (maxv : Nat → Option Nat) (G : List Node) (s s' : DgSt) : Prop where
  inv : DInv g maxv G s'
  step : DStep s s'
  settled : ∀ X, Settled g G X s → Settled g G X s'

theorem doExclude_spec (g : Graph) (maxv : Nat → Option Nat) (G : List Node) (fuel : Nat)
    (m : Node) (s s' : DgSt) (hi : DInv g maxv G s) (h : doExclude fuel m s = some s') :
    DInv g maxv G s' ∧ DStep s s' ∧ m ∈ s'.excluded ∧ s'.added = s.added ∧
      s'.rdeps = s.rdeps ∧ (∀ X, ¬ X m → Settled g G X s → Settled g G X s') := by
  unfold doExclude at h
  cases hmk : mark (rdepsOf s.rdeps) fuel m s.excluded with
  | none => rw [hmk] at h; cases h
  | some ex =>
    rw [hmk] at h
    simp only [Option.map_some, Option.some.injEq] at h
    subst h
    have hm := mark_spec (rdepsOf s.rdeps) fuel m s.excluded ex hmk
    have hcl0 : ∀ n ∈ s.excluded, ∀ k ∈ rdepsOf s.rdeps n, k ∈ s.excluded := by
      intro n hn k hk
      exact hi.excl_closed (n, k) ((mem_rdepsOf _ _ _).mp hk) hn
    have hcl := hm.closed_all hcl0
    refine ⟨⟨?_, ?_, ?_, hi.rdeps_edge⟩, ⟨fun _ h => h, hm.mono, fun _ h => h⟩,
      hm.roots_in m List.mem_cons_self, rfl, rfl, ?_⟩
    · intro e he hex
      exact hcl e.1 hex e.2 ((mem_rdepsOf _ _ _).mpr he)
    · intro m' hm' hg
      rcases hi.complete m' hm' hg with h | h
      · exact Or.inl (hm.mono m' h)
      · exact Or.inr h
    · intro m' hm' hne v hv
      exact hi.ok m' hm' (fun h => hne (hm.mono m' h)) v hv
    · intro X hX hs
      refine ⟨hs.closed, hs.added, hs.not_gray, ?_⟩
      intro n hn hnex
      rcases hm.reach n hnex with h0 | ⟨r, hr, hre⟩
      · exact hs.good n hn h0
      · rw [List.mem_singleton] at hr
        subst hr
        -- walk the rdeps chain back from n to r: X is closed under requirements
        have : ∀ k, Reach (rdepsOf s.rdeps) [r] k → X k → X r := by
          intro k hk
          induction hk with
          | root h => rw [List.mem_singleton] at h; subst h; exact fun h => h
          | @dep a b _ hab ih =>
            intro hb
            have hedge := hi.rdeps_edge (a, b) ((mem_rdepsOf _ _ _).mp hab)
            exact ih (hs.closed b hb a hedge)
        exact hX (this n hre hn)

theorem doExclude_added (fuel : Nat) (m : Node) (s : DgSt) (a : List Node) :
    doExclude fuel m { s with added := a } =
      (doExclude fuel m s).map fun t => { t with added := a } := by
  unfold doExclude
  cases mark (rdepsOf s.rdeps) fuel m s.excluded <;> rfl

/-- leaving the "in progress" state of `m` -/
theorem DInv.pop {g : Graph} {maxv : Nat → Option Nat} {G : List Node} {m : Node} {s : DgSt}
    (hi : DInv g maxv (m :: G) s)
    (hm : m ∈ s.excluded ∨ ∀ r ∈ g m, r ∈ s.added ∧ (r, m) ∈ s.rdeps) : DInv g maxv G s := by
  refine ⟨hi.excl_closed, ?_, hi.ok, hi.rdeps_edge⟩
  intro m' hm' hg
  by_cases he : m' = m
  · subst he; exact hm
  · refine hi.complete m' hm' ?_
    intro hin
    rcases List.mem_cons.mp hin with h | h
    · exact he h
    · exact hg h

theorem Settled.pop {g : Graph} {G : List Node} {m : Node} {X : Node → Prop} {s : DgSt}
    (h : Settled g (m :: G) X s) : Settled g G X s :=
  ⟨h.closed, h.added, fun n hn hg => h.not_gray n hn (List.mem_cons_of_mem _ hg), h.good⟩

def AddSpec (g : Graph) (maxv : Nat → Option Nat) (fx f : Nat) : Prop :=
  ∀ G m s s', DInv g maxv G s → add g maxv fx f m s = some s' →
    DOut g maxv G s s' ∧ m ∈ s'.added

theorem addLoop_spec (g : Graph) (maxv : Nat → Option Nat) (fx : Nat) (G : List Node) (m : Node)
    (rec : Node → DgSt → Option DgSt)
    (hrec : ∀ r s s', DInv g maxv (m :: G) s → rec r s = some s' →
      DOut g maxv (m :: G) s s' ∧ r ∈ s'.added) :
    ∀ (rs pre : List Node) (s s' : DgSt), g m = pre ++ rs → DInv g maxv (m :: G) s →
      m ∈ s.added → (∀ r ∈ pre, r ∈ s.added ∧ (r, m) ∈ s.rdeps) →
      addLoop rec fx m rs s = some s' →
      DInv g maxv G s' ∧ DStep s s' ∧
        (∀ X, ¬ X m → Settled g (m :: G) X s → Settled g G X s') := by
  intro rs
  induction rs with
  | nil =>
    intro pre s s' hg hi hm hpre h
    simp only [addLoop, Option.some.injEq] at h
    subst h
    rw [List.append_nil] at hg
    refine ⟨hi.pop (Or.inr ?_), DStep.refl s, fun X _ hs => hs.pop⟩
    rw [hg]; exact hpre
  | cons r rs ih =>
    intro pre s s' hg hi hm hpre h
    unfold addLoop at h
    cases hr : rec r s with
    | none => rw [hr] at h; cases h
    | some s1 =>
      rw [hr] at h
      simp only at h
      obtain ⟨ho1, hr1⟩ := hrec r s s1 hi hr
      by_cases hex : s1.excluded.contains r = true
      · rw [if_pos hex] at h
        obtain ⟨hi2, hst2, hm2, _, _, hset2⟩ :=
          doExclude_spec g maxv (m :: G) fx m s1 s' ho1.inv h
        refine ⟨hi2.pop (Or.inl hm2), ho1.step.trans hst2, ?_⟩
        intro X hX hs
        exact (hset2 X hX (ho1.settled X hs)).pop
      · rw [if_neg hex] at h
        have hrne : r ∉ s1.excluded := by simpa using hex
        have hrg : r ∈ g m := by rw [hg]; simp
        have hi2 : DInv g maxv (m :: G) { s1 with rdeps := s1.rdeps ++ [(r, m)] } := by
          refine ⟨?_, ?_, ho1.inv.ok, ?_⟩
          · intro e he hex'
            rcases List.mem_append.mp he with he | he
            · exact ho1.inv.excl_closed e he hex'
            · rw [List.mem_singleton] at he
              subst he
              exact absurd hex' hrne
          · intro m' hm' hgm
            rcases ho1.inv.complete m' hm' hgm with h | h
            · exact Or.inl h
            · exact Or.inr fun r' hr' => ⟨(h r' hr').1, List.mem_append_left _ (h r' hr').2⟩
          · intro e he
            rcases List.mem_append.mp he with he | he
            · exact ho1.inv.rdeps_edge e he
            · rw [List.mem_singleton] at he
              subst he
              exact hrg
        have hst2 : DStep s1 { s1 with rdeps := s1.rdeps ++ [(r, m)] } :=
          ⟨fun _ h => h, fun _ h => h, fun _ h => List.mem_append_left _ h⟩
        obtain ⟨hi3, hst3, hset3⟩ := ih (pre ++ [r]) _ s' (by rw [hg]; simp) hi2
          (ho1.step.added m hm) (by
            intro r' hr'
            rcases List.mem_append.mp hr' with hr' | hr'
            · exact ⟨ho1.step.added r' (hpre r' hr').1,
                List.mem_append_left _ (ho1.step.rdeps _ (hpre r' hr').2)⟩
            · rw [List.mem_singleton] at hr'
              subst hr'
              exact ⟨hr1, List.mem_append_right _ List.mem_cons_self⟩) h
        refine ⟨hi3, (ho1.step.trans hst2).trans hst3, ?_⟩
        intro X hX hs
        have h1 := ho1.settled X hs
        exact hset3 X hX ⟨h1.closed, h1.added, h1.not_gray, h1.good⟩

theorem add_spec (g : Graph) (maxv : Nat → Option Nat) (fx : Nat) :
    ∀ f, AddSpec g maxv fx f := by
  intro f
  induction f with
  | zero =>
    intro G m s s' _ h
    simp [add] at h
  | succ f ih =>
    intro G m s s' hi h
    unfold add at h
    by_cases hc : s.added.contains m = true
    · rw [if_pos hc] at h
      have hm : m ∈ s.added := by simpa using hc
      simp only [Option.some.injEq] at h
      subst h
      exact ⟨⟨hi, DStep.refl s, fun _ h => h⟩, hm⟩
    · rw [if_neg hc] at h
      have hm : m ∉ s.added := by simpa using hc
      simp only at h
      have hX : ∀ X, Settled g G X s → ¬ X m := fun X hs hx => hm (hs.added m hx)
      have hst0 : DStep s { s with added := m :: s.added } :=
        ⟨fun _ h => List.mem_cons_of_mem _ h, fun _ h => h, fun _ h => h⟩
      -- the two branches
      have brX : ∀ s', doExclude fx m { s with added := m :: s.added } = some s' →
          DOut g maxv G s s' ∧ m ∈ s'.added := by
        intro s' h
        rw [doExclude_added] at h
        cases hd : doExclude fx m s with
        | none => rw [hd] at h; cases h
        | some t =>
          rw [hd] at h
          simp only [Option.map_some, Option.some.injEq] at h
          subst h
          obtain ⟨hi2, hst2, hm2, hadd2, _, hset2⟩ := doExclude_spec g maxv G fx m s t hi hd
          refine ⟨⟨⟨hi2.excl_closed, ?_, ?_, hi2.rdeps_edge⟩,
            ⟨fun n hn => List.mem_cons_of_mem _ hn, hst2.excluded, hst2.rdeps⟩, ?_⟩,
            List.mem_cons_self⟩
          · intro m' hm' hg
            rcases List.mem_cons.mp hm' with h | h
            · subst h; exact Or.inl hm2
            · rcases hi2.complete m' (by rw [hadd2]; exact h) hg with h1 | h1
              · exact Or.inl h1
              · refine Or.inr fun r hr => ⟨?_, (h1 r hr).2⟩
                have := (h1 r hr).1
                rw [hadd2] at this
                exact List.mem_cons_of_mem _ this
          · intro m' hm' hne v hv
            rcases List.mem_cons.mp hm' with h | h
            · subst h; exact absurd hm2 hne
            · exact hi2.ok m' (by rw [hadd2]; exact h) hne v hv
          · intro X hs
            have h1 := hset2 X (hX X hs) hs
            exact ⟨h1.closed, fun n hn => List.mem_cons_of_mem _ (hs.added n hn), h1.not_gray,
              h1.good⟩
      have brL : (∀ v, maxv m.1 = some v → m.2 ≤ v) → ∀ s',
          addLoop (add g maxv fx f) fx m (g m) { s with added := m :: s.added } = some s' →
          DOut g maxv G s s' ∧ m ∈ s'.added := by
        intro hok s' h
        have hi0 : DInv g maxv (m :: G) { s with added := m :: s.added } := by
          refine ⟨hi.excl_closed, ?_, ?_, hi.rdeps_edge⟩
          · intro m' hm' hg
            have hne : m' ≠ m := fun h => hg (by rw [h]; exact List.mem_cons_self)
            have hin : m' ∈ s.added := by
              rcases List.mem_cons.mp hm' with h | h
              · exact absurd h hne
              · exact h
            rcases hi.complete m' hin (fun h => hg (List.mem_cons_of_mem _ h)) with h1 | h1
            · exact Or.inl h1
            · exact Or.inr fun r hr => ⟨List.mem_cons_of_mem _ (h1 r hr).1, (h1 r hr).2⟩
          · intro m' hm' hne v hv
            rcases List.mem_cons.mp hm' with h | h
            · subst h; exact hok v hv
            · exact hi.ok m' h hne v hv
        obtain ⟨hi3, hst3, hset3⟩ := addLoop_spec g maxv fx G m (add g maxv fx f)
          (fun r s s' hi h => ih (m :: G) r s s' hi h) (g m) [] _ s' (by simp) hi0
          List.mem_cons_self (by simp) h
        refine ⟨⟨hi3, hst0.trans hst3, ?_⟩, hst3.added m List.mem_cons_self⟩
        intro X hs
        refine hset3 X (hX X hs) ⟨hs.closed, fun n hn => List.mem_cons_of_mem _ (hs.added n hn),
          ?_, hs.good⟩
        intro n hn hg
        rcases List.mem_cons.mp hg with h | h
        · subst h; exact hX X hs hn
        · exact hs.not_gray n hn h
      cases hmv : maxv m.1 with
      | none =>
        simp only [hmv, Bool.false_eq_true, if_false] at h
        exact brL (fun v hv => by rw [hmv] at hv; cases hv) s' h
      | some v =>
        by_cases hlt : v < m.2
        · simp only [hmv, hlt, decide_true, if_true] at h
          exact brX s' h
        · simp only [hmv, hlt, decide_false, Bool.false_eq_true, if_false] at h
          refine brL (fun w hw => ?_) s' h
          rw [hmv] at hw
          simp only [Option.some.injEq] at hw
          omega

/-! ### the top-level loops -/

abbrev Good (s : DgSt) (n : Node) : Prop := n ∈ s.added ∧ n ∉ s.excluded

theorem good_settled (g : Graph) (maxv : Nat → Option Nat) (s : DgSt) (hi : DInv g maxv [] s) :
    Settled g [] (Good s) s := by
  refine ⟨?_, fun _ h => h.1, fun _ _ h => (by cases h), fun _ h => h.2⟩
  intro m hm r hr
  rcases hi.complete m hm.1 (by simp) with h | h
  · exact absurd h hm.2
  · refine ⟨(h r hr).1, fun hex => hm.2 ?_⟩
    exact hi.excl_closed (r, m) (h r hr).2 hex

theorem good_mono (g : Graph) (maxv : Nat → Option Nat) (s s' : DgSt) (hi : DInv g maxv [] s)
    (ho : DOut g maxv [] s s') : ∀ n, Good s n → Good s' n := by
  intro n hn
  have := ho.settled (Good s) (good_settled g maxv s hi)
  exact ⟨this.added n hn, this.good n hn⟩

theorem dgPrev_spec (g : Graph) (maxv : Nat → Option Nat) (avail : List Node) (fuel : Nat) :
    ∀ (k : Nat) (r : Node) (s s' : DgSt) (res : Option Node), DInv g maxv [] s → r ∈ s.added →
      dgPrev g maxv avail fuel k r s = some (res, s') →
      DInv g maxv [] s' ∧ (∀ n, Good s n → Good s' n) ∧ (∀ r', res = some r' → Good s' r') := by
  intro k
  induction k with
  | zero => intro r s s' res _ _ h; simp [dgPrev] at h
  | succ k ih =>
    intro r s s' res hi hr h
    unfold dgPrev at h
    by_cases hex : (!s.excluded.contains r) = true
    · rw [if_pos hex] at h
      simp only [Option.some.injEq, Prod.mk.injEq] at h
      obtain ⟨h1, h2⟩ := h
      subst h1; subst h2
      refine ⟨hi, fun _ h => h, ?_⟩
      intro r' hr'
      simp only [Option.some.injEq] at hr'
      subst hr'
      exact ⟨hr, by simpa using hex⟩
    · rw [if_neg hex] at h
      split at h
      · simp only [Option.some.injEq, Prod.mk.injEq] at h
        obtain ⟨h1, h2⟩ := h
        subst h1; subst h2
        exact ⟨hi, fun _ h => h, fun r' hr' => by cases hr'⟩
      · split at h
        · cases h
        · rename_i s1 hadd
          obtain ⟨ho, hp⟩ := add_spec g maxv fuel fuel [] _ s s1 hi hadd
          obtain ⟨h1, h2, h3⟩ := ih _ s1 s' res ho.inv hp h
          exact ⟨h1, fun n hn => h2 n (good_mono g maxv s s1 hi ho n hn), h3⟩

theorem dgList_spec (g : Graph) (maxv : Nat → Option Nat) (avail : List Node) (fuel : Nat)
    (target : Node) :
    ∀ (rs : List Node) (s : DgSt) (acc out : List Node), DInv g maxv [] s →
      (∀ r ∈ acc, r = target ∨ Good s r) →
      dgList g maxv avail fuel rs s acc = some out →
      ∃ s', DInv g maxv [] s' ∧ ∀ r ∈ out, r = target ∨ Good s' r := by
  intro rs
  induction rs with
  | nil =>
    intro s acc out hi hacc h
    simp only [dgList, Option.some.injEq] at h
    subst h
    exact ⟨s, hi, hacc⟩
  | cons r rs ih =>
    intro s acc out hi hacc h
    unfold dgList at h
    cases ha : add g maxv fuel fuel r s with
    | none => rw [ha] at h; cases h
    | some s1 =>
      rw [ha] at h
      simp only at h
      obtain ⟨ho, hr1⟩ := add_spec g maxv fuel fuel [] r s s1 hi ha
      cases hp : dgPrev g maxv avail fuel fuel r s1 with
      | none => rw [hp] at h; cases h
      | some res =>
        obtain ⟨ro, s2⟩ := res
        rw [hp] at h
        obtain ⟨hi2, hmono2, hres⟩ := dgPrev_spec g maxv avail fuel fuel r s1 s2 ro ho.inv hr1 hp
        have hacc2 : ∀ x ∈ acc, x = target ∨ Good s2 x := by
          intro x hx
          rcases hacc x hx with h0 | h0
          · exact Or.inl h0
          · exact Or.inr (hmono2 x (good_mono g maxv s s1 hi ho x h0))
        cases ro with
        | none => exact ih s2 acc out hi2 hacc2 h
        | some r' =>
          refine ih s2 (acc ++ [r']) out hi2 ?_ h
          intro x hx
          rcases List.mem_append.mp hx with hx | hx
          · exact hacc2 x hx
          · rw [List.mem_singleton] at hx
            subst hx
            exact Or.inr (hres x rfl)

/-! ### the `max` map -/

def dgStep (mx : Nat → Option Nat) (d : Node) : Nat → Option Nat :=
  match mx d.1 with
  | some v => if d.2 < v then (fun p => if p = d.1 then some d.2 else mx p) else mx
  | none => fun p => if p = d.1 then some d.2 else mx p

theorem dgStep_le (mx : Nat → Option Nat) (d : Node) (p v : Nat) (h : mx p = some v) :
    ∃ v', dgStep mx d p = some v' ∧ v' ≤ v := by
  unfold dgStep
  cases hd : mx d.1 with
  | none =>
    simp only
    by_cases hp : p = d.1
    · subst hp; rw [h] at hd; cases hd
    · exact ⟨v, by simp [hp, h], Nat.le_refl _⟩
  | some w =>
    simp only
    by_cases hlt : d.2 < w
    · rw [if_pos hlt]
      by_cases hp : p = d.1
      · subst hp
        rw [h] at hd
        simp only [Option.some.injEq] at hd
        exact ⟨d.2, by simp, by omega⟩
      · exact ⟨v, by simp [hp, h], Nat.le_refl _⟩
    · rw [if_neg hlt]
      exact ⟨v, h, Nat.le_refl _⟩

theorem dgStep_self (mx : Nat → Option Nat) (d : Node) :
    ∃ v', dgStep mx d d.1 = some v' ∧ v' ≤ d.2 := by
  unfold dgStep
  cases hd : mx d.1 with
  | none => exact ⟨d.2, by simp, Nat.le_refl _⟩
  | some w =>
    simp only
    by_cases hlt : d.2 < w
    · rw [if_pos hlt]; exact ⟨d.2, by simp, Nat.le_refl _⟩
    · rw [if_neg hlt]; exact ⟨w, hd, by omega⟩

theorem dgFold_le : ∀ (ds : List Node) (mx : Nat → Option Nat) (p v : Nat), mx p = some v →
    ∃ v', ds.foldl dgStep mx p = some v' ∧ v' ≤ v
  | [], mx, p, v, h => ⟨v, h, Nat.le_refl _⟩
  | d :: ds, mx, p, v, h => by
    obtain ⟨v1, h1, hle1⟩ := dgStep_le mx d p v h
    obtain ⟨v2, h2, hle2⟩ := dgFold_le ds (dgStep mx d) p v1 h1
    exact ⟨v2, h2, by omega⟩

theorem dgFold_self : ∀ (ds : List Node) (mx : Nat → Option Nat) (d : Node), d ∈ ds →
    ∃ v', ds.foldl dgStep mx d.1 = some v' ∧ v' ≤ d.2
  | [], _, _, h => by cases h
  | e :: ds, mx, d, h => by
    rcases List.mem_cons.mp h with h | h
    · subst h
      obtain ⟨v1, h1, hle1⟩ := dgStep_self mx d
      obtain ⟨v2, h2, hle2⟩ := dgFold_le ds (dgStep mx d) d.1 v1 h1
      exact ⟨v2, h2, by omega⟩
    · exact dgFold_self ds (dgStep mx e) d h

theorem dgMax_eq (list downs : List Node) :
    dgMax list downs =
      downs.foldl dgStep (fun p => (list.find? fun n => n.1 == p).map (·.2)) := rfl

/-! ### Downgrade -/

/-- reachability in a graph whose target requires `l ⊆ {target} ∪ X`, `X` closed under `g` -/
theorem reach_override_closed (g : Graph) (target : Node) (l : List Node) (X : Node → Prop)
    (hcl : ∀ m, X m → ∀ r ∈ g m, X r) (hl : ∀ r ∈ l, r = target ∨ X r) :
    ∀ n, Reach (override g target l) [target] n → n = target ∨ X n := by
  intro n hn
  induction hn with
  | root h => rw [List.mem_singleton] at h; exact Or.inl h
  | @dep m n _ hmn ih =>
    by_cases hm : m = target
    · subst hm
      exact hl n (by simpa [override] using hmn)
    · rcases ih with h | h
      · exact absurd h hm
      · exact Or.inr (hcl m h n (by simpa [override, hm] using hmn))

/-- **`Downgrade` stays within the requested versions and never upgrades.**  The result is the
build list of the target with a replaced requirement list `l`; every path named in `downs`
is selected at most at the requested version (or not at all), and no path of the original
build list is selected above its original version. -/
theorem downgrade_bound (g : Graph) (avail : List Node) (fuel : Nat) (target : Node)
    (downs out : List Node) (ht0 : target.2 ≠ 0) (hnone : ∀ p, g (p, 0) = [])
    (h : downgrade g avail fuel target downs = some out) :
    ∃ (s0 t : Nat → Nat) (l : List Node),
      IsSel g [target] s0 ∧ IsSel (override g target l) [target] t ∧ IsBuildList t out ∧
      (∀ d ∈ downs, d.1 ≠ target.1 → t d.1 ≤ d.2) ∧
      (∀ p, p ≠ target.1 → s0 p ≠ 0 → t p ≤ s0 p) := by
  unfold downgrade at h
  cases hb : buildList g fuel target with
  | none => rw [hb] at h; cases h
  | some full =>
    rw [hb] at h
    simp only at h
    cases hd : dgList g (dgMax full.tail downs) avail fuel full.tail
        { added := [], rdeps := [], excluded := [] } [target] with
    | none => rw [hd] at h; cases h
    | some dl =>
      rw [hd] at h
      simp only at h
      cases ha : buildList (override g target dl) fuel target with
      | none => rw [ha] at h; cases h
      | some actual =>
        rw [ha] at h
        simp only at h
        -- the original build list
        unfold buildList at hb
        rw [upGraph_id g hnone] at hb
        obtain ⟨s0, hs0, hbl0, hhead0⟩ := buildListUp_spec g fuel target full ht0 hb
        -- the good set after the List loop
        obtain ⟨sf, hif, hdl⟩ := dgList_spec g (dgMax full.tail downs) avail fuel target
          full.tail _ [target] dl ⟨by simp, by simp, by simp, by simp⟩
          (by intro r hr; rw [List.mem_singleton] at hr; exact Or.inl hr) hd
        have hset := good_settled g _ sf hif
        -- the first recomputed build list
        unfold buildList at ha
        rw [upGraph_id _ (override_none g target dl ht0 hnone)] at ha
        obtain ⟨s1, hs1, hbl1, _⟩ := buildListUp_spec _ fuel target actual ht0 ha
        have hreach1 := reach_override_closed g target dl (Good sf) hset.closed hdl
        have hact : ∀ a ∈ actual, a = target ∨ Good sf a := by
          intro a ha'
          have := (hbl1 a).mp ha'
          rcases (hs1 a.1).2 with h0 | h0
          · exact absurd (this.2.trans h0) this.1
          · rw [← this.2] at h0
            exact hreach1 a h0
        -- the second one
        unfold buildList at h
        rw [upGraph_id _ (override_none g target _ ht0 hnone)] at h
        obtain ⟨t, hst, hblt, _⟩ := buildListUp_spec _ fuel target out ht0 h
        have hl2 : ∀ r ∈ (full.tail.filterMap fun m =>
            (actual.find? fun a => a.1 == m.1).map fun a => (m.1, a.2)),
            r = target ∨ Good sf r := by
          intro r hr
          obtain ⟨m, _, hm⟩ := List.mem_filterMap.mp hr
          cases hf : actual.find? (fun a => a.1 == m.1) with
          | none => rw [hf] at hm; cases hm
          | some a =>
            rw [hf] at hm
            simp only [Option.map_some, Option.some.injEq] at hm
            have ha1 : a.1 = m.1 := by simpa using List.find?_some hf
            have : r = a := by rw [← hm, ← ha1]
            rw [this]
            exact hact a (List.mem_of_find?_eq_some hf)
        have hreach2 := reach_override_closed g target _ (Good sf) hset.closed hl2
        -- every selected version other than the target's is good, hence within `max`
        have hbound : ∀ p v, p ≠ target.1 → dgMax full.tail downs p = some v → t p ≤ v := by
          intro p v hp hv
          rcases (hst p).2 with h0 | h0
          · omega
          · rcases hreach2 _ h0 with h1 | h1
            · exfalso; apply hp
              have : (p, t p).1 = target.1 := by rw [h1]
              exact this
            · exact hif.ok _ h1.1 h1.2 v hv
        refine ⟨s0, t, _, hs0, hst, hblt, ?_, ?_⟩
        · intro d hd' hne
          rw [dgMax_eq] at hbound
          obtain ⟨v, hv, hle⟩ := dgFold_self downs _ d hd'
          exact Nat.le_trans (hbound d.1 v hne hv) hle
        · intro p hp h0
          -- (p, s0 p) is in the tail of the original build list
          have hin : (p, s0 p) ∈ full := (hbl0 (p, s0 p)).mpr ⟨h0, rfl⟩
          have hint : (p, s0 p) ∈ full.tail := by
            cases full with
            | nil => cases hin
            | cons x xs =>
              simp only [List.head?_cons, Option.some.injEq] at hhead0
              rcases List.mem_cons.mp hin with h1 | h1
              · exfalso; apply hp
                rw [hhead0] at h1
                exact (Prod.mk.inj h1).1
              · exact h1
          have hinit : ∃ v, (fun q => (full.tail.find? fun n => n.1 == q).map (·.2)) p = some v
              ∧ v ≤ s0 p := by
            cases hf : full.tail.find? (fun n => n.1 == p) with
            | none =>
              have := List.find?_eq_none.mp hf (p, s0 p) hint
              simp at this
            | some n =>
              have hn1 : n.1 = p := by simpa using List.find?_some hf
              have hn2 : n ∈ full := List.mem_of_mem_tail (List.mem_of_find?_eq_some hf)
              have := ((hbl0 n).mp hn2).2
              refine ⟨n.2, by simp [hf], ?_⟩
              rw [this, hn1]; exact Nat.le_refl _
          obtain ⟨v, hv, hle⟩ := hinit
          rw [dgMax_eq] at hbound
          obtain ⟨v', hv', hle'⟩ := dgFold_le downs
            (fun q => (full.tail.find? fun n => n.1 == q).map (·.2)) p v hv
          exact Nat.le_trans (hbound p v' hp hv') (Nat.le_trans hle' hle)

end CueVerif.Mvs
