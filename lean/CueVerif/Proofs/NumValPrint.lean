/-
C06 helper lemmas, part C2: printing a number (`Value.Syntax` + `format.Node`, and
`MarshalJSON`) and reading the text back gives the same number.
Core Lean (`Rat` is core); single Mathlib modules may be imported here if really needed.
-/
import CueVerif.Model.NumVal
import CueVerif.Spec.Arith
import CueVerif.Proofs.NumLit
namespace CueVerif.Proofs.NumValPrint
open CueVerif CueVerif.Arith CueVerif.NumVal CueVerif.Spec.Arith

/-- numbers whose printed form reads back with the same kind: ints with exponent 0 (every int
literal, every int result of up to 34 digits); floats inside the exponent window -/
def PrintRegular (n : Num) : Prop :=
  match n.k with
  | .int => n.d.exp = 0
  | .float => -maxExp ≤ adjExp n.d ∧ adjExp n.d ≤ maxExp ∧ -maxExp ≤ n.d.exp ∧
      (Dec.numDigits n.d.coeff.natAbs : Int) ≤ maxExp

/-- reading back the decimal digits of a natural number -/
theorem horner_digitsOf (n : Nat) : horner 10 (digitsOf n) = n := by sorry

theorem digitsOf_length (n : Nat) : (digitsOf n).length = Dec.numDigits n := by sorry

/-- CUE text → same kind and value -/
theorem print_parse (n : Num) (h : PrintRegular n) :
    ∃ n', readBack (printNum n) = .ok n' ∧ n'.k = n.k ∧ toRat n'.d = toRat n.d := by sorry

/-- JSON text read as CUE → same value (JSON has no int/float distinction) -/
theorem json_parse (n : Num) (h : PrintRegular ⟨.float, n.d⟩) :
    ∃ n', readBack (jsonNum n) = .ok n' ∧ toRat n'.d = toRat n.d := by sorry

/-- the full statement (every number in the window) is false: an int with a positive exponent,
such as the exact product `10000000000000000000 * 10000000000000000000`, prints as `1e+38`
(here with 33 zeros), which reads back as a float -/
def print_parse_stmt : Prop :=
  ∀ n : Num, (-maxExp ≤ adjExp n.d ∧ adjExp n.d ≤ maxExp ∧ -maxExp ≤ n.d.exp ∧
      (Dec.numDigits n.d.coeff.natAbs : Int) ≤ maxExp) →
    ∃ n', readBack (printNum n) = .ok n' ∧ n'.k = n.k ∧ toRat n'.d = toRat n.d

theorem print_parse_false : ¬ print_parse_stmt := by sorry

end CueVerif.Proofs.NumValPrint
