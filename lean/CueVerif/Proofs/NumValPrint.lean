/-
C06 helper lemmas, part C2: printing a number (`Value.Syntax` + `format.Node`, and
`MarshalJSON`) and reading the text back gives the same number.
Core Lean (`Rat` is core); the lemmas about digits, the reading functions and the acceptance of
the printed shapes by C09's model of `literal.ParseNum` are in Proofs/NumValPrintAux.lean.
-/
import CueVerif.Model.NumVal
import CueVerif.Spec.Arith
import CueVerif.Proofs.NumLit
import CueVerif.Proofs.NumValPrintAux
namespace CueVerif.Proofs.NumValPrint
open CueVerif CueVerif.Arith CueVerif.NumVal CueVerif.Spec.Arith
open CueVerif.Proofs.NumValPrintAux

/-- numbers whose printed form reads back with the same kind: ints with exponent 0 and at most
100001 digits (every int literal the implementation accepts, every int result of up to 34
digits); floats inside the exponent window -/
def PrintRegular (n : Num) : Prop :=
  match n.k with
  | .int => n.d.exp = 0 ∧ adjExp n.d ≤ maxExp
  | .float => -maxExp ≤ adjExp n.d ∧ adjExp n.d ≤ maxExp ∧ -maxExp ≤ n.d.exp ∧
      (Dec.numDigits n.d.coeff.natAbs : Int) ≤ maxExp

theorem window_of_regular (c x : Int) (h : PrintRegular ⟨.float, ⟨c, x⟩⟩) : Window c.natAbs x := by
  simpa [PrintRegular, adjExp, Window] using h

/-- reading back the decimal digits of a natural number -/
theorem horner_digitsOf (n : Nat) : horner 10 (digitsOf n) = n :=
  NumValPrintAux.horner_digitsOf n

theorem digitsOf_length (n : Nat) : (digitsOf n).length = Dec.numDigits n :=
  NumValPrintAux.digitsOf_length n

/-- CUE text → same kind and value -/
theorem print_parse (n : Num) (h : PrintRegular n) :
    ∃ n', readBack (printNum n) = .ok n' ∧ n'.k = n.k ∧ toRat n'.d = toRat n.d := by
  obtain ⟨k, ⟨c, x⟩⟩ := n
  cases k with
  | int =>
    obtain ⟨hx, ha⟩ : x = 0 ∧ adjExp ⟨c, x⟩ ≤ maxExp := h
    subst hx
    have hL : (Dec.numDigits c.natAbs : Int) - 1 ≤ maxExp := by
      simp only [adjExp] at ha; omega
    have hp : printNum ⟨.int, ⟨c, 0⟩⟩ =
        if c < 0 then 45 :: digitsOf c.natAbs else digitsOf c.natAbs := fmtG_exp0 101 c
    rw [hp]
    refine ⟨_, signed_back c _ _ (NumValPrintAux.lit_int c.natAbs hL), ?_, ?_⟩
    · rw [signed_kind]
    · exact signed_toRat c 0 _ rfl
  | float =>
    have hw := window_of_regular c x h
    obtain ⟨B, hB, hsh⟩ := fmtG_shape 101 c x
    obtain ⟨n0, hl, hk, hv⟩ := float_core 101 c.natAbs x (Or.inl rfl) hw B hsh
    rw [printNum_float c x B hB]
    refine ⟨_, signed_back c _ n0 hl, ?_, ?_⟩
    · rw [signed_kind]; exact hk
    · exact signed_toRat c x n0 hv

/-- JSON text read as CUE → same value (JSON has no int/float distinction) -/
theorem json_parse (n : Num) (h : PrintRegular ⟨.float, n.d⟩) :
    ∃ n', readBack (jsonNum n) = .ok n' ∧ toRat n'.d = toRat n.d := by
  obtain ⟨k, ⟨c, x⟩⟩ := n
  have hw := window_of_regular c x h
  obtain ⟨B, hB, hsh⟩ := fmtG_shape 69 c x
  obtain ⟨n0, hl, hv⟩ := json_core 69 c.natAbs x (Or.inr rfl) hw B hsh
  simp only [jsonNum]
  rw [hB]
  exact ⟨_, signed_back c _ n0 hl, signed_toRat c x n0 hv⟩

/-- the full statement (every number in the window) is false: an int with a positive exponent,
such as the exact product `10000000000000000000 * 10000000000000000000`, prints as `1e+38`
(here with 33 zeros), which reads back as a float -/
def print_parse_stmt : Prop :=
  ∀ n : Num, (-maxExp ≤ adjExp n.d ∧ adjExp n.d ≤ maxExp ∧ -maxExp ≤ n.d.exp ∧
      (Dec.numDigits n.d.coeff.natAbs : Int) ≤ maxExp) →
    ∃ n', readBack (printNum n) = .ok n' ∧ n'.k = n.k ∧ toRat n'.d = toRat n.d

theorem print_parse_false : ¬ print_parse_stmt := by
  intro h
  obtain ⟨n', h1, h2, -⟩ := h ⟨.int, ⟨1, 38⟩⟩ (by decide)
  have hr : readBack (printNum ⟨.int, ⟨1, 38⟩⟩) = .ok ⟨.float, ⟨1, 38⟩⟩ := by decide
  rw [hr] at h1
  injection h1 with h1
  subst h1
  cases h2

/-! ### tests (evaluation on samples; NOT the property) -/

-- `-1.5`, `0.00015`, `1.5e+7`, `0e-3000` (float), `12` (int), `12.0` (float 12e0), JSON `1.5E+7`
example : printNum ⟨.float, ⟨-15, -1⟩⟩ = [45, 49, 46, 53] := by decide
example : printNum ⟨.float, ⟨15, -5⟩⟩ = [48, 46, 48, 48, 48, 49, 53] := by decide
example : printNum ⟨.float, ⟨15, 6⟩⟩ = [49, 46, 53, 101, 43, 55] := by decide
example : printNum ⟨.float, ⟨0, -3000⟩⟩ = [48, 101, 45, 51, 48, 48, 48] := by decide
example : printNum ⟨.int, ⟨12, 0⟩⟩ = [49, 50] ∧ printNum ⟨.float, ⟨12, 0⟩⟩ = [49, 50, 46, 48] := by
  decide
example : jsonNum ⟨.float, ⟨15, 6⟩⟩ = [49, 46, 53, 69, 43, 55] := by decide
-- the hypothesis of `print_parse` is satisfiable in each of these regions (for an int: exponent 0
-- and adjusted exponent = number of digits - 1 inside the window)
example : PrintRegular ⟨.float, ⟨-15, -1⟩⟩ ∧ PrintRegular ⟨.float, ⟨15, -5⟩⟩ ∧
    PrintRegular ⟨.float, ⟨15, 6⟩⟩ ∧ PrintRegular ⟨.float, ⟨0, -3000⟩⟩ ∧
    PrintRegular ⟨.int, ⟨12, 0⟩⟩ := by
  simp only [PrintRegular]; decide
example : ¬ PrintRegular ⟨.int, ⟨12, 1⟩⟩ := by
  simp only [PrintRegular]; decide
example : readBack (printNum ⟨.int, ⟨-12, 0⟩⟩) = .ok ⟨.int, ⟨-12, 0⟩⟩ := by decide
example : readBack (printNum ⟨.float, ⟨-15, -1⟩⟩) = .ok ⟨.float, ⟨-15, -1⟩⟩ := by decide
example : readBack (printNum ⟨.float, ⟨12, 0⟩⟩) = .ok ⟨.float, ⟨120, -1⟩⟩ := by decide

end CueVerif.Proofs.NumValPrint
