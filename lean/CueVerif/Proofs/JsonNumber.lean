/-
C10 helper lemmas: RFC 8259 number tokens read by the CUE scanner / literal.ParseNum (kind) and
by apd's SetString (value).  Core Lean only.
-/
import CueVerif.Spec.Json
import CueVerif.Model.Json
import CueVerif.Proofs.NumLit
namespace CueVerif.Json
open CueVerif
open CueVerif.Quote (Bytes)

def JNum.kind (n : JNum) : NumLit.Kind := if n.isFloat then .float else .int

/-- the region in which apd's `Context.SetString` (BaseContext limits ±100000) returns no error —
EXACTLY (`number_value` inside, `number_reject` outside): the written exponent and the (negated)
number of fraction digits are each within the limits (first `setExponent` pass: every summand,
which also covers the int32 range of `strconv.ParseInt`), so is the adjusted exponent, and the
resulting exponent itself is not below the lower limit (second `setExponent` pass, run by
`c.round`; its upper limit is implied by the one on the written exponent) -/
def JNum.inApdRange (n : JNum) : Prop :=
  -100000 ≤ expValue n.exp ∧ expValue n.exp ≤ 100000 ∧ (fracDigits n.frac).length ≤ 100000 ∧
  -100000 ≤ n.exponent + (numDigits n.coeff : Int) - 1 ∧ n.exponent + (numDigits n.coeff : Int) - 1 ≤ 100000 ∧
  -100000 ≤ n.exponent

/-! ## the kind: the scanner automaton along the grammar -/

theorem isDigit_iff {c : Nat} : isDigit c = true ↔ 48 ≤ c ∧ c ≤ 57 := by
  simp [isDigit]

theorem isDigit_isDec {c : Nat} (h : isDigit c = true) : NumLit.isDec c = true :=
  NumLit.isDec_iff.mpr (isDigit_iff.mp h)

/-- what may follow a run of digits inside a JSON number: nothing, or a byte that is neither
a decimal digit for the scanner, nor NUL -/
def StopTail (rest : Bytes) : Prop :=
  rest = [] ∨ ∃ c t, rest = c :: t ∧ ¬ NumLit.digitVal c < 10 ∧ c ≠ 0

theorem StopTail.nul {rest : Bytes} (h : StopTail rest) : NumLit.nulErr rest = false := by
  rcases h with rfl | ⟨c, t, rfl, -, h0⟩
  · rfl
  · exact NumLit.nulErr_cons_ne h0

theorem nulErr_digits_append (ds rest : Bytes) (hds : allDigits ds = true) (hr : StopTail rest) :
    NumLit.nulErr (ds ++ rest) = false := by
  cases ds with
  | nil => exact hr.nul
  | cons d t =>
    simp only [allDigits, List.all_cons, Bool.and_eq_true] at hds
    have := isDigit_iff.mp hds.1
    exact NumLit.nulErr_cons_ne (by omega)

/-- the scanner's mantissa loop over a run of JSON digits -/
theorem sMant_digits (last : Nat) (ds rest : Bytes) (hl : last ≠ 95)
    (hds : allDigits ds = true) (hr : StopTail rest) :
    NumLit.sMant 10 last (ds ++ rest) = (rest, false) := by
  have hl' : (last == 95) = false := by simpa using hl
  induction ds generalizing last with
  | nil =>
    rcases hr with rfl | ⟨c, t, rfl, hc, -⟩
    · simp [NumLit.sMant, hl']
    · simp [NumLit.sMant, hc, hl']
  | cons d ds ih =>
    have hds' := hds
    simp only [allDigits, List.all_cons, Bool.and_eq_true] at hds
    have hd := isDigit_iff.mp hds.1
    have hd95 : d ≠ 95 := by omega
    have hnext := nulErr_digits_append ds rest hds.2 hr
    rw [List.cons_append, NumLit.sMant, if_pos (NumLit.digitVal_dec (isDigit_isDec hds.1)),
      ih d hd95 hds.2 (by simpa using hd95)]
    simp [hl', hnext]

theorem stopTail_nil : StopTail [] := Or.inl rfl
theorem stopTail_dot (t : Bytes) : StopTail (46 :: t) := Or.inr ⟨46, t, rfl, by decide, by decide⟩
theorem stopTail_e (t : Bytes) : StopTail (101 :: t) := Or.inr ⟨101, t, rfl, by decide, by decide⟩
theorem stopTail_E (t : Bytes) : StopTail (69 :: t) := Or.inr ⟨69, t, rfl, by decide, by decide⟩

theorem stopTail_expText (e : Option JExp) : StopTail (expText e) := by
  cases e with
  | none => exact stopTail_nil
  | some e =>
    simp only [expText, JExp.text]
    cases e.upper
    · exact stopTail_e _
    · exact stopTail_E _

theorem stopTail_tail (f : Option Bytes) (e : Option JExp) : StopTail (fracText f ++ expText e) := by
  cases f with
  | none => simpa [fracText] using stopTail_expText e
  | some f => exact stopTail_dot _

/-- non-empty digit strings -/
theorem digits_cons {ds : Bytes} (hne : ds.isEmpty = false) (hds : allDigits ds = true) :
    ∃ d t, ds = d :: t ∧ 48 ≤ d ∧ d ≤ 57 ∧ allDigits t = true := by
  cases ds with
  | nil => cases hne
  | cons d t =>
    simp only [allDigits, List.all_cons, Bool.and_eq_true] at hds
    exact ⟨d, t, rfl, (isDigit_iff.mp hds.1).1, (isDigit_iff.mp hds.1).2, hds.2⟩

theorem sSign_minus (cs : Bytes) : NumLit.sSign (45 :: cs) = (cs, NumLit.nulErr cs) := rfl
theorem sSign_plus (cs : Bytes) : NumLit.sSign (43 :: cs) = (cs, NumLit.nulErr cs) := rfl

/-- label `exponent:` on the exponent part of a JSON number -/
theorem sExponent_expText (tok : NumLit.Kind) (e : Option JExp) (hwf : expWf e = true) :
    NumLit.sExponent tok (expText e) false = (if e.isSome then .float else tok, [], false) := by
  cases e with
  | none => simp [expText, NumLit.sExponent]
  | some e =>
    simp only [expWf, JExp.wf, Bool.and_eq_true, Bool.not_eq_true'] at hwf
    obtain ⟨d, t, hdt, hd1, hd2, ht⟩ := digits_cons hwf.1 hwf.2
    have hm := sMant_digits 0 e.digits [] (by decide) hwf.2 stopTail_nil
    rw [List.append_nil] at hm
    have hdv : NumLit.digitVal d < 10 := NumLit.digitVal_dec (NumLit.isDec_iff.mpr ⟨hd1, hd2⟩)
    have hdn : NumLit.nulErr (d :: t) = false := NumLit.nulErr_cons_ne (by omega)
    have hs : NumLit.sSign (d :: t) = (d :: t, false) := by
      unfold NumLit.sSign
      split
      · rename_i heq; simp only [List.cons.injEq] at heq; omega
      · rename_i heq; simp only [List.cons.injEq] at heq; omega
      · rfl
    have hx : NumLit.sExpDigits (d :: t) false = (.float, [], false) := by
      rw [hdt] at hm
      simp only [NumLit.sExpDigits, hm]
      simp; omega
    simp only [expText, JExp.text, Option.isSome_some, if_true]
    rw [hdt]
    rcases e.upper with _ | _ <;> rcases e.sign with _ | _ | _ <;>
      simp [NumLit.sExponent, NumLit.isMul, sSign_minus, sSign_plus, hs, hdn, hx, NumLit.nulErr_cons_ne]


/-- label `fraction:` on the fraction and exponent parts of a JSON number -/
theorem sFraction_tail (tok : NumLit.Kind) (f : Option Bytes) (e : Option JExp)
    (hf : fracWf f = true) (he : expWf e = true) :
    NumLit.sFraction tok (fracText f ++ expText e) false =
      (if f.isSome || e.isSome then .float else tok, [], false) := by
  cases f with
  | none =>
    simp only [fracText, List.nil_append, Option.isSome_none, Bool.false_or]
    rw [← sExponent_expText tok e he]
    cases e with
    | none => simp [expText, NumLit.sFraction]
    | some e =>
      simp only [expText, JExp.text]
      cases e.upper <;> simp [NumLit.sFraction]
  | some f =>
    simp only [fracWf, Bool.and_eq_true, Bool.not_eq_true'] at hf
    obtain ⟨d, t, hdt, hd1, hd2, ht⟩ := digits_cons hf.1 hf.2
    have hm := sMant_digits 0 f (expText e) (by decide) hf.2 (stopTail_expText e)
    have hn := nulErr_digits_append f (expText e) hf.2 (stopTail_expText e)
    have hx := sExponent_expText .float e he
    have hx' : NumLit.sExponent .float (expText e) false = (.float, [], false) := by
      rw [hx]; cases e <;> rfl
    simp only [fracText, List.cons_append, Option.isSome_some, Bool.true_or, if_true]
    unfold NumLit.sFraction
    split
    · rename_i heq
      rw [hdt] at heq
      simp only [List.cons_append, List.cons.injEq, true_and] at heq
      omega
    · rename_i heq
      simp only [List.cons.injEq, true_and] at heq
      subst heq
      simp [hm, hn, hx']
    · rename_i h
      exact absurd rfl (h _)

/-- the "0 or float" branch when '0' is followed by '.', 'e' or 'E' (and not by "..") -/
theorem sScanNumber_zero (c : Nat) (t : Bytes) (hc : c = 46 ∨ c = 101 ∨ c = 69)
    (ht : ∀ t', t ≠ 46 :: t') :
    NumLit.sScanNumber false (48 :: c :: t) = NumLit.sFraction .int (c :: t) false := by
  have hn : NumLit.nulErr (c :: t) = false := NumLit.nulErr_cons_ne (by omega)
  have hd : NumLit.isDec c = false := by
    rcases hc with rfl | rfl | rfl <;> decide
  have hz : NumLit.sZeroTail (c :: t) false false = NumLit.sFraction .int (c :: t) false := by
    unfold NumLit.sZeroTail
    split
    · rename_i heq
      simp only [List.cons.injEq] at heq
      exact absurd heq.2 (ht _)
    · rcases hc with rfl | rfl | rfl <;> simp
  unfold NumLit.sScanNumber
  simp only [Bool.false_eq_true, if_false]
  split
  · rename_i heq; simp only [List.cons.injEq] at heq; omega
  · rename_i heq; simp only [List.cons.injEq] at heq; omega
  · rename_i heq; simp only [List.cons.injEq] at heq; omega
  · rename_i heq; simp only [List.cons.injEq] at heq; omega
  · simp [hd, hn, hz]

/-- `scanNumber(false)` on a whole JSON number -/
theorem sScanNumber_utext (n : JNum) (hwf : n.wf = true) :
    NumLit.sScanNumber false n.utext = (n.kind, [], false) := by
  simp only [JNum.wf, Bool.and_eq_true, Bool.not_eq_true', Bool.or_eq_true, beq_iff_eq] at hwf
  obtain ⟨⟨⟨⟨hne, hds⟩, hz⟩, hf⟩, he⟩ := hwf
  have htail := sFraction_tail .int n.frac n.exp hf he
  have hk : (if n.frac.isSome || n.exp.isSome then NumLit.Kind.float else .int) = n.kind := by
    simp [JNum.kind, JNum.isFloat]
  rw [hk] at htail
  obtain ⟨d, t, hdt, hd1, hd2, ht⟩ := digits_cons hne hds
  unfold JNum.utext
  by_cases h48 : d = 48
  · -- "0": the int part is exactly "0"
    have hint : n.int = [48] := by
      rcases hz with h | h
      · exact h
      · rw [hdt, h48] at h; simp at h
    rw [hint, ← htail]
    cases hfr : n.frac with
    | some f =>
      rw [hfr] at hf
      simp only [fracWf, Bool.and_eq_true, Bool.not_eq_true'] at hf
      obtain ⟨d', t', hdt', hd1', hd2', -⟩ := digits_cons hf.1 hf.2
      simp only [fracText, List.cons_append, List.nil_append]
      apply sScanNumber_zero 46 _ (Or.inl rfl)
      intro t'' heq
      rw [hdt'] at heq
      simp only [List.cons_append, List.cons.injEq] at heq
      omega
    | none =>
      cases hex : n.exp with
      | none => simp [fracText, expText, NumLit.sScanNumber, NumLit.sZeroTail, NumLit.sFraction, NumLit.sExponent]
      | some e =>
        rw [hex] at he
        simp only [expWf, JExp.wf, Bool.and_eq_true, Bool.not_eq_true'] at he
        obtain ⟨d', t', hdt', hd1', hd2', -⟩ := digits_cons he.1 he.2
        simp only [fracText, expText, JExp.text, List.cons_append, List.nil_append]
        have hne46 : ∀ t'', ((match e.sign with
            | some true => [45] | some false => [43] | none => []) ++ e.digits) ≠ 46 :: t'' := by
          intro t'' heq
          rw [hdt'] at heq
          rcases hsg : e.sign with _ | _ | _ <;> rw [hsg] at heq <;> simp at heq <;> omega
        cases e.upper
        · exact sScanNumber_zero 101 _ (by simp) hne46
        · exact sScanNumber_zero 69 _ (by simp) hne46
  · have hm := sMant_digits 0 n.int (fracText n.frac ++ expText n.exp) (by decide) hds
      (stopTail_tail _ _)
    unfold NumLit.sScanNumber
    simp only [Bool.false_eq_true, if_false]
    split
    · rename_i heq
      rw [hdt] at heq
      simp only [List.cons_append, List.cons.injEq] at heq
      omega
    · simp [hm, htail]


/-- the int part of a well-formed number: first byte is a digit; "0" only alone -/
theorem utext_head (n : JNum) (hwf : n.wf = true) :
    ∃ d t, n.utext = d :: t ∧ 48 ≤ d ∧ d ≤ 57 ∧ ∀ t', t ≠ 95 :: t' := by
  simp only [JNum.wf, Bool.and_eq_true, Bool.not_eq_true', Bool.or_eq_true, beq_iff_eq] at hwf
  obtain ⟨⟨⟨⟨hne, hds⟩, hz⟩, hf⟩, he⟩ := hwf
  obtain ⟨d, t, hdt, hd1, hd2, ht⟩ := digits_cons hne hds
  refine ⟨d, t ++ (fracText n.frac ++ expText n.exp), by simp [JNum.utext, hdt], hd1, hd2, ?_⟩
  intro t' heq
  cases t with
  | nil =>
    have := stopTail_tail n.frac n.exp
    rcases this with h | ⟨c, t2, h, hc, -⟩
    · rw [h] at heq; cases heq
    · rw [h] at heq
      simp only [List.nil_append, List.cons.injEq] at heq
      rw [heq.1] at hc
      exact hc (by decide)
  | cons x xs =>
    simp only [allDigits, List.all_cons, Bool.and_eq_true] at ht
    have := isDigit_iff.mp ht.1
    simp only [List.cons_append, List.cons.injEq] at heq
    omega

/-- Every JSON number spelling (without its minus sign) is one error-free number token for the
CUE scanner and is accepted by literal.ParseNum, both with the kind `int` iff it has neither
fraction nor exponent. -/
theorem number_kind (n : JNum) (hwf : n.wf = true) :
    NumLit.scannerAccepts n.utext = some n.kind ∧ NumLit.parseNum n.utext = some n.kind := by
  obtain ⟨d, t, hdt, hd1, hd2, h95⟩ := utext_head n hwf
  have hdec : NumLit.isDec d = true := NumLit.isDec_iff.mpr ⟨hd1, hd2⟩
  have hs : NumLit.scannerAccepts n.utext = some n.kind := by
    have h := sScanNumber_utext n hwf
    rw [hdt] at h ⊢
    rw [NumLit.scannerAccepts_dec d t hdec, h]
    rfl
  refine ⟨hs, ?_⟩
  rw [← NumLit.numbers_agree n.utext ?_ ?_]
  · exact hs
  · rw [hdt]; simp [NumLit.startsNumber, hdec]
  · rw [hdt]
    unfold NumLit.zeroUnderscore
    split
    · rename_i heq
      simp only [List.cons.injEq] at heq
      exact absurd heq.2 (h95 _)
    · rfl


/-! ## the value -/

/-- the bytes a JSON number spelling is made of -/
def jsonByte (c : Nat) : Bool :=
  isDigit c || c == 46 || c == 101 || c == 69 || c == 43 || c == 45

theorem all_digits_jsonByte (ds : Bytes) (h : allDigits ds = true) : ds.all jsonByte = true := by
  simp only [allDigits, List.all_eq_true] at h ⊢
  intro c hc
  simp [jsonByte, h c hc]

def signText : Option Bool → Bytes
  | some true => [0x2D]
  | some false => [0x2B]
  | none => []

theorem JExp.text_eq (e : JExp) :
    e.text = (if e.upper then 0x45 else 0x65) :: (signText e.sign ++ e.digits) := by
  obtain ⟨up, sg, dg⟩ := e
  rcases sg with _ | _ | _ <;> rfl

theorem utext_bytes (n : JNum) (hwf : n.wf = true) : n.utext.all jsonByte = true := by
  simp only [JNum.wf, Bool.and_eq_true, Bool.not_eq_true', Bool.or_eq_true, beq_iff_eq] at hwf
  obtain ⟨⟨⟨⟨hne, hds⟩, hz⟩, hf⟩, he⟩ := hwf
  simp only [JNum.utext, List.all_append, Bool.and_eq_true]
  refine ⟨all_digits_jsonByte _ hds, ?_, ?_⟩
  · cases hfr : n.frac with
    | none => rfl
    | some f =>
      rw [hfr] at hf
      simp only [fracWf, Bool.and_eq_true] at hf
      simp only [fracText, List.all_cons, all_digits_jsonByte f hf.2, Bool.and_true]
      decide
  · cases hex : n.exp with
    | none => rfl
    | some e =>
      rw [hex] at he
      simp only [expWf, JExp.wf, Bool.and_eq_true] at he
      obtain ⟨up, sg, dg⟩ := e
      simp only [expText, JExp.text_eq, List.all_cons, List.all_append, all_digits_jsonByte dg he.2,
        Bool.and_true, Bool.and_eq_true]
      constructor
      · cases up <;> simp [jsonByte]
      · rcases sg with _ | _ | _ <;> simp [signText, jsonByte]

/-- the "not a plain base-10 literal" guard of `decodeNumber` never fires on JSON bytes -/
theorem guard_false (u : Bytes) (h : u.all jsonByte = true) :
    (u.any fun c => c == 95 || NumLit.isMul c || c == 105 || c == 120 || c == 88 || c == 98 ||
      c == 111) = false := by
  rw [List.any_eq_false]
  rw [List.all_eq_true] at h
  intro c hc
  have := h c hc
  simp only [jsonByte, isDigit, Bool.or_eq_true, Bool.and_eq_true, decide_eq_true_eq, beq_iff_eq] at this
  simp only [NumLit.isMul, Bool.or_eq_true, beq_iff_eq]
  omega

/-- `decodeNumber` after the optional minus sign has been split off -/
def decodeCore (neg : Bool) (u : Bytes) : Option (NumLit.Kind × ApdDec) :=
  if u.any fun c => c == 95 || NumLit.isMul c || c == 105 || c == 120 || c == 88 || c == 98 || c == 111 then none
  else
    match NumLit.scannerAccepts u with
    | none => none
    | some _ =>
      match NumLit.parseNum u with
      | none => none
      | some k =>
        let (d, err) := apdSetString u
        if err then none else some (k, if neg then apdNeg d else d)

theorem decodeNumber_minus (u : Bytes) : decodeNumber (45 :: u) = decodeCore true u := rfl

theorem decodeNumber_plain (d : Nat) (t : Bytes) (hd : d ≠ 45) :
    decodeNumber (d :: t) = decodeCore false (d :: t) := by
  unfold decodeNumber
  split
  · rename_i neg u heq
    split at heq
    · rename_i heq2
      simp only [List.cons.injEq] at heq2
      exact absurd heq2.1 hd
    · simp only [Prod.mk.injEq] at heq
      obtain ⟨rfl, rfl⟩ := heq
      rfl

theorem decodeNumber_eq (n : JNum) (hwf : n.wf = true) :
    decodeNumber n.text =
      if (apdSetString n.utext).2 then none
      else some (n.kind, if n.neg then apdNeg (apdSetString n.utext).1 else (apdSetString n.utext).1) := by
  obtain ⟨hk1, hk2⟩ := number_kind n hwf
  have hg := guard_false n.utext (utext_bytes n hwf)
  obtain ⟨d, t, hdt, hd1, hd2, -⟩ := utext_head n hwf
  have hcore : ∀ neg, decodeCore neg n.utext =
      if (apdSetString n.utext).2 then none
      else some (n.kind, if neg then apdNeg (apdSetString n.utext).1 else (apdSetString n.utext).1) := by
    intro neg
    unfold decodeCore
    rw [hg]
    simp only [hk1, hk2, Bool.false_eq_true, if_false]
  cases hneg : n.neg with
  | true =>
    simp only [JNum.text, hneg, if_true, List.cons_append, List.nil_append]
    rw [decodeNumber_minus, hcore]
    rfl
  | false =>
    simp only [JNum.text, hneg]
    rw [← hcore false, hdt]
    exact decodeNumber_plain d t (by omega)

/-! ### apd's SetString, cut into stages -/

/-- the body of `strconv.ParseInt` after the sign -/
def parseIntCore (neg : Bool) (ds : Bytes) : Option Int :=
  if ds.isEmpty || !(ds.all fun c => decide (48 ≤ c) && decide (c ≤ 57)) then none
  else
    let v : Int := (ds.foldl (fun a c => a * 10 + (c - 48)) 0 : Nat)
    let v := if neg then -v else v
    if v < -2147483648 || v > 2147483647 then none else some v

theorem parseInt32_minus (ds : Bytes) : parseInt32 (45 :: ds) = parseIntCore true ds := rfl
theorem parseInt32_plus (ds : Bytes) : parseInt32 (43 :: ds) = parseIntCore false ds := rfl
theorem parseInt32_plain (d : Nat) (t : Bytes) (h1 : d ≠ 45) (h2 : d ≠ 43) :
    parseInt32 (d :: t) = parseIntCore false (d :: t) := by
  unfold parseInt32
  split
  · rename_i neg ds heq
    split at heq
    · rename_i heq2; simp only [List.cons.injEq] at heq2; exact absurd heq2.1 h1
    · rename_i heq2; simp only [List.cons.injEq] at heq2; exact absurd heq2.1 h2
    · simp only [Prod.mk.injEq] at heq
      obtain ⟨rfl, rfl⟩ := heq
      rfl

theorem parseIntCore_digits (neg : Bool) (ds : Bytes) (hne : ds.isEmpty = false)
    (hds : allDigits ds = true) :
    parseIntCore neg ds =
      if (if neg then -(digitsVal ds : Int) else (digitsVal ds : Int)) < -2147483648 ||
          (if neg then -(digitsVal ds : Int) else (digitsVal ds : Int)) > 2147483647 then none
      else some (if neg then -(digitsVal ds : Int) else (digitsVal ds : Int)) := by
  have hds' : (ds.all fun c => decide (48 ≤ c) && decide (c ≤ 57)) = true := hds
  unfold parseIntCore
  simp only [hne, hds', Bool.not_true, Bool.or_self, Bool.false_eq_true, if_false]
  rfl

/-- `strconv.ParseInt(_, 10, 32)` on the written exponent: its value, unless outside int32 -/
theorem parseInt32_exp (e : JExp) (hwf : e.wf = true) :
    parseInt32 (signText e.sign ++ e.digits) =
      if e.value < -2147483648 || e.value > 2147483647 then none else some e.value := by
  obtain ⟨up, sg, dg⟩ := e
  simp only [JExp.wf, Bool.and_eq_true, Bool.not_eq_true'] at hwf
  have hc := fun neg => parseIntCore_digits neg dg hwf.1 hwf.2
  rcases sg with _ | _ | _
  · obtain ⟨d, t, hdt, hd1, hd2, -⟩ := digits_cons hwf.1 hwf.2
    have hv : JExp.value ⟨up, none, dg⟩ = (digitsVal dg : Int) := rfl
    simp only [signText, List.nil_append]
    rw [hv]
    have h := hc false
    simp only [Bool.false_eq_true, if_false] at h
    rw [← h]
    subst hdt
    exact parseInt32_plain d t (by omega) (by omega)
  · have hv : JExp.value ⟨up, some false, dg⟩ = (digitsVal dg : Int) := rfl
    simp only [signText, List.cons_append, List.nil_append]
    rw [hv, parseInt32_plus, hc]; rfl
  · have hv : JExp.value ⟨up, some true, dg⟩ = -(digitsVal dg : Int) := rfl
    simp only [signText, List.cons_append, List.nil_append]
    rw [hv, parseInt32_minus, hc]; rfl


/-- the mantissa stage of `setString` for a non-negative literal -/
def apdMant (m : Bytes) (exps : List Int) : ApdDec × Bool :=
  let (m, exps) :=
    match m.findIdx? (· == 46) with
    | some i => (m.take i ++ m.drop (i + 1), exps ++ [-((m.length - i - 1 : Nat) : Int)])
    | none => (m, exps)
  if !(m.all fun c => decide (48 ≤ c) && decide (c ≤ 57)) then (.nan false, true)
  else if m.isEmpty then (.nan false, true)
  else
    let coeff := m.foldl (fun a c => a * 10 + (c - 48)) 0
    let (e, err) := apdSetExponent coeff exps
    (.finite false coeff e, err || decide (e > apdMaxExponent) || decide (e < apdMinExponent))

/-- the exponent stage -/
def apdExpSplit (s : Bytes) : Option (Bytes × List Int) :=
  match s.findIdx? (· == 101) with
  | some i =>
    match parseInt32 (s.drop (i + 1)) with
    | some e => some (s.take i, [e])
    | none => none
  | none => some (s, [])

def apdCore (s : Bytes) : ApdDec × Bool :=
  match apdExpSplit s with
  | none => (.nan false, true)
  | some (m, exps) => apdMant m exps

theorem toLower_cons_digit (d : Nat) (t : Bytes) (h1 : 48 ≤ d) (h2 : d ≤ 57) :
    toLowerAscii (d :: t) = d :: toLowerAscii t := by
  have : ¬ (65 ≤ d ∧ d ≤ 90) := by omega
  simp [toLowerAscii, this]

/-- a literal that starts with a digit skips the sign, "inf" and "nan" stages -/
theorem apdSetString_digit (d : Nat) (t : Bytes) (h1 : 48 ≤ d) (h2 : d ≤ 57) :
    apdSetString (d :: t) = apdCore (toLowerAscii (d :: t)) := by
  have e45 : d ≠ 45 := by omega
  have e43 : d ≠ 43 := by omega
  have e105 : d ≠ 105 := by omega
  have e110 : ¬ 110 = d := by omega
  have e115 : ¬ 115 = d := by omega
  have hl := toLower_cons_digit d t h1 h2
  simp [apdSetString, apdCore, apdExpSplit, apdMant, e45, e43, e105, e110, e115, hl]
  rfl


/-! ### the lower-cased spelling -/

/-- the exponent part after `strings.ToLower` -/
def lexpText : Option JExp → Bytes
  | none => []
  | some e => 101 :: (signText e.sign ++ e.digits)

theorem toLower_append (a b : Bytes) :
    toLowerAscii (a ++ b) = toLowerAscii a ++ toLowerAscii b := List.map_append

theorem toLower_digits (ds : Bytes) (h : allDigits ds = true) : toLowerAscii ds = ds := by
  induction ds with
  | nil => rfl
  | cons d t ih =>
    simp only [allDigits, List.all_cons, Bool.and_eq_true] at h
    have := isDigit_iff.mp h.1
    rw [toLower_cons_digit d t this.1 this.2, ih h.2]

theorem toLower_signText (sg : Option Bool) : toLowerAscii (signText sg) = signText sg := by
  rcases sg with _ | _ | _ <;> rfl

theorem toLower_fracText (f : Option Bytes) (hf : fracWf f = true) :
    toLowerAscii (fracText f) = fracText f := by
  cases f with
  | none => rfl
  | some f =>
    simp only [fracWf, Bool.and_eq_true] at hf
    have := toLower_digits f hf.2
    simp only [toLowerAscii] at this
    simp [fracText, toLowerAscii, this]

theorem toLower_expText (e : Option JExp) (he : expWf e = true) :
    toLowerAscii (expText e) = lexpText e := by
  cases e with
  | none => rfl
  | some e =>
    simp only [expWf, JExp.wf, Bool.and_eq_true] at he
    have h1 := toLower_digits e.digits he.2
    have h2 := toLower_signText e.sign
    simp only [toLowerAscii] at h1 h2
    simp only [expText, JExp.text_eq, lexpText, toLowerAscii, List.map_cons, List.map_append, h1, h2]
    cases e.upper <;> simp

theorem toLower_utext (n : JNum) (hwf : n.wf = true) :
    toLowerAscii n.utext = (n.int ++ fracText n.frac) ++ lexpText n.exp := by
  simp only [JNum.wf, Bool.and_eq_true, Bool.not_eq_true', Bool.or_eq_true, beq_iff_eq] at hwf
  obtain ⟨⟨⟨⟨hne, hds⟩, hz⟩, hf⟩, he⟩ := hwf
  rw [JNum.utext, toLower_append, toLower_append, toLower_digits _ hds, toLower_fracText _ hf,
    toLower_expText _ he, List.append_assoc]

/-! ### searching for 'e' and '.' -/

theorem findIdx_none (p : Nat → Bool) (xs : Bytes) (h : ∀ x ∈ xs, p x = false) :
    xs.findIdx? p = none := List.findIdx?_eq_none_iff.mpr h

theorem findIdx_hit (p : Nat → Bool) (xs : Bytes) (y : Nat) (ys : Bytes)
    (h : ∀ x ∈ xs, p x = false) (hy : p y = true) :
    (xs ++ y :: ys).findIdx? p = some xs.length := by
  rw [List.findIdx?_append, findIdx_none p xs h]
  simp [List.findIdx?_cons, hy]

theorem drop_succ_append (xs : Bytes) (y : Nat) (ys : Bytes) :
    (xs ++ y :: ys).drop (xs.length + 1) = ys := by
  induction xs with
  | nil => rfl
  | cons x xs ih => simp [ih]

theorem digits_no (ds : Bytes) (h : allDigits ds = true) (c : Nat) (hc : c < 48 ∨ 57 < c) :
    ∀ x ∈ ds, (x == c) = false := by
  simp only [allDigits, List.all_eq_true] at h
  intro x hx
  have := isDigit_iff.mp (h x hx)
  simp only [beq_eq_false_iff_ne, ne_eq]
  omega

theorem mant_no_e (int : Bytes) (f : Option Bytes) (hi : allDigits int = true)
    (hf : fracWf f = true) : ∀ x ∈ int ++ fracText f, (x == 101) = false := by
  intro x hx
  rw [List.mem_append] at hx
  rcases hx with hx | hx
  · exact digits_no int hi 101 (by omega) x hx
  · cases f with
    | none => cases hx
    | some f =>
      simp only [fracWf, Bool.and_eq_true] at hf
      simp only [fracText, List.mem_cons] at hx
      rcases hx with rfl | hx
      · rfl
      · exact digits_no f hf.2 101 (by omega) x hx


/-! ### the stages on a JSON number -/

def expList : Option JExp → List Int
  | none => []
  | some e => [e.value]

def fracExps : Option Bytes → List Int
  | none => []
  | some f => [-((f.length : Nat) : Int)]

/-- what the exponent stage makes of the written exponent: `none` = "parse exponent" error -/
def expParse : Option JExp → Option (List Int)
  | none => some []
  | some e =>
    match parseInt32 (signText e.sign ++ e.digits) with
    | some v => some [v]
    | none => none

/-- the end of `Context.SetString`: the two `setExponent` passes -/
def apdFin (coeff : Nat) (xs : List Int) : ApdDec × Bool :=
  let (e, err) := apdSetExponent coeff xs
  (.finite false coeff e, err || decide (e > apdMaxExponent) || decide (e < apdMinExponent))

theorem apdExpSplit_eq (m : Bytes) (e : Option JExp) (hm : ∀ x ∈ m, (x == 101) = false) :
    apdExpSplit (m ++ lexpText e) = (expParse e).map fun xs => (m, xs) := by
  cases e with
  | none =>
    simp only [lexpText, List.append_nil, apdExpSplit, findIdx_none _ m hm, expParse, Option.map_some]
  | some e =>
    simp only [lexpText, apdExpSplit, findIdx_hit _ m 101 _ hm rfl, drop_succ_append,
      List.take_left, expParse]
    cases parseInt32 (signText e.sign ++ e.digits) <;> rfl

/-- either the written exponent fits int32 and is handed on, or "parse exponent" fails -/
theorem expParse_cases (e : Option JExp) (he : expWf e = true) :
    (expParse e = some (expList e) ∧ -2147483648 ≤ expValue e ∧ expValue e ≤ 2147483647) ∨
    (expParse e = none ∧ (expValue e < -2147483648 ∨ 2147483647 < expValue e)) := by
  cases e with
  | none => left; exact ⟨rfl, by simp [expValue], by simp [expValue]⟩
  | some e =>
    simp only [expWf] at he
    have hp := parseInt32_exp e he
    simp only [expParse, expList, expValue]
    by_cases hb : e.value < -2147483648 ∨ 2147483647 < e.value
    · right
      rw [if_pos (by simp only [Bool.or_eq_true, decide_eq_true_eq]; omega)] at hp
      rw [hp]
      exact ⟨rfl, hb⟩
    · left
      rw [if_neg (by simp only [Bool.or_eq_true, decide_eq_true_eq]; omega)] at hp
      rw [hp]
      exact ⟨rfl, by omega, by omega⟩

theorem all_digits_append (a b : Bytes) (ha : allDigits a = true) (hb : allDigits b = true) :
    allDigits (a ++ b) = true := by
  simp only [allDigits, List.all_append, Bool.and_eq_true] at *
  exact ⟨ha, hb⟩

theorem apdMant_eq (int : Bytes) (f : Option Bytes) (exps : List Int)
    (hne : int.isEmpty = false) (hi : allDigits int = true) (hf : fracWf f = true) :
    apdMant (int ++ fracText f) exps =
      apdFin (digitsVal (int ++ fracDigits f)) (exps ++ fracExps f) := by
  have hfd : allDigits (fracDigits f) = true := by
    cases f with
    | none => rfl
    | some f => simp only [fracWf, Bool.and_eq_true] at hf; exact hf.2
  have hall : ((int ++ fracDigits f).all fun c => decide (48 ≤ c) && decide (c ≤ 57)) = true :=
    all_digits_append _ _ hi hfd
  have hne' : (int ++ fracDigits f).isEmpty = false := by
    cases int with
    | nil => cases hne
    | cons _ _ => rfl
  have key : ∀ m' exps', m' = int ++ fracDigits f →
      (if !(m'.all fun c => decide (48 ≤ c) && decide (c ≤ 57)) then (ApdDec.nan false, true)
       else if m'.isEmpty then (ApdDec.nan false, true)
       else
         let coeff := m'.foldl (fun a c => a * 10 + (c - 48)) 0
         let (e, err) := apdSetExponent coeff exps'
         (ApdDec.finite false coeff e, err || decide (e > apdMaxExponent) || decide (e < apdMinExponent))) =
      apdFin (digitsVal (int ++ fracDigits f)) exps' := by
    intro m' exps' hm'
    subst hm'
    simp only [hall, hne', Bool.not_true, Bool.false_eq_true, if_false]
    rfl
  cases f with
  | none =>
    have h46 := findIdx_none (· == 46) int (digits_no int hi 46 (by omega))
    simp only [fracText, List.append_nil, fracExps]
    unfold apdMant
    rw [h46]
    exact key _ _ (by simp [fracDigits])
  | some f =>
    have h46 := findIdx_hit (· == 46) int 46 f (digits_no int hi 46 (by omega)) rfl
    simp only [fracText, fracExps]
    unfold apdMant
    rw [h46]
    have hlen : (int ++ 46 :: f).length - int.length - 1 = f.length := by
      simp only [List.length_append, List.length_cons]; omega
    simp only [List.take_left, drop_succ_append, hlen]
    exact key _ _ (by simp [fracDigits])

theorem numDigits_pos (c : Nat) : 1 ≤ numDigits c := by
  unfold numDigits
  dsimp only
  split <;> omega

theorem apdSetExponent_ok (coeff : Nat) (xs : List Int)
    (h : ∀ x ∈ xs, -100000 ≤ x ∧ x ≤ 100000)
    (h1 : -100000 ≤ xs.foldl (· + ·) 0 + (numDigits coeff : Int) - 1)
    (h2 : xs.foldl (· + ·) 0 + (numDigits coeff : Int) - 1 ≤ 100000) :
    apdSetExponent coeff xs = (xs.foldl (· + ·) 0, false) := by
  have hM : apdMaxExponent = 100000 := rfl
  have hm : apdMinExponent = -100000 := rfl
  have hany : (xs.any fun x => decide (x > apdMaxExponent) || decide (x < apdMinExponent)) = false := by
    rw [List.any_eq_false]
    intro x hx
    have := h x hx
    simp only [Bool.or_eq_true, decide_eq_true_eq, not_or]
    omega
  unfold apdSetExponent
  rw [hany]
  simp only [Bool.false_eq_true, if_false]
  rw [if_neg]
  simp only [Bool.or_eq_true, decide_eq_true_eq, not_or]
  omega

/-- the first `setExponent` pass: it fails, or every summand and the adjusted exponent are within
the limits and the exponent becomes the sum -/
theorem apdSetExponent_cases (coeff : Nat) (xs : List Int) :
    apdSetExponent coeff xs = (0, true) ∨
    (apdSetExponent coeff xs = (xs.foldl (· + ·) 0, false) ∧
      (∀ x ∈ xs, -100000 ≤ x ∧ x ≤ 100000) ∧
      -100000 ≤ xs.foldl (· + ·) 0 + (numDigits coeff : Int) - 1 ∧
      xs.foldl (· + ·) 0 + (numDigits coeff : Int) - 1 ≤ 100000) := by
  have hM : apdMaxExponent = 100000 := rfl
  have hm : apdMinExponent = -100000 := rfl
  by_cases hany : (xs.any fun x => decide (x > apdMaxExponent) || decide (x < apdMinExponent)) = true
  · left
    unfold apdSetExponent
    rw [if_pos hany]
  · have hany' : (xs.any fun x => decide (x > apdMaxExponent) || decide (x < apdMinExponent)) = false := by
      simpa using hany
    have hall : ∀ x ∈ xs, -100000 ≤ x ∧ x ≤ 100000 := by
      intro x hx
      have := List.any_eq_false.mp hany' x hx
      simp only [Bool.or_eq_true, decide_eq_true_eq, not_or] at this
      omega
    by_cases hadj : -100000 ≤ xs.foldl (· + ·) 0 + (numDigits coeff : Int) - 1 ∧
        xs.foldl (· + ·) 0 + (numDigits coeff : Int) - 1 ≤ 100000
    · right
      exact ⟨apdSetExponent_ok coeff xs hall hadj.1 hadj.2, hall, hadj⟩
    · left
      unfold apdSetExponent
      rw [hany']
      simp only [Bool.false_eq_true, if_false]
      rw [if_pos]
      simp only [Bool.or_eq_true, decide_eq_true_eq]
      omega

theorem apdFin_ok (coeff : Nat) (xs : List Int)
    (h : ∀ x ∈ xs, -100000 ≤ x ∧ x ≤ 100000)
    (h1 : -100000 ≤ xs.foldl (· + ·) 0 + (numDigits coeff : Int) - 1)
    (h2 : xs.foldl (· + ·) 0 + (numDigits coeff : Int) - 1 ≤ 100000)
    (h3 : -100000 ≤ xs.foldl (· + ·) 0) :
    apdFin coeff xs = (.finite false coeff (xs.foldl (· + ·) 0), false) := by
  have hM : apdMaxExponent = 100000 := rfl
  have hm : apdMinExponent = -100000 := rfl
  have hnd := numDigits_pos coeff
  unfold apdFin
  rw [apdSetExponent_ok coeff xs h h1 h2]
  simp only [Bool.false_or, Prod.mk.injEq, true_and, Bool.or_eq_false_iff, decide_eq_false_iff_not]
  omega

/-- outside the region `Context.SetString` returns an error -/
theorem apdFin_bad (coeff : Nat) (xs : List Int)
    (h : ¬ ((∀ x ∈ xs, -100000 ≤ x ∧ x ≤ 100000) ∧
      -100000 ≤ xs.foldl (· + ·) 0 + (numDigits coeff : Int) - 1 ∧
      xs.foldl (· + ·) 0 + (numDigits coeff : Int) - 1 ≤ 100000 ∧
      -100000 ≤ xs.foldl (· + ·) 0)) :
    (apdFin coeff xs).2 = true := by
  have hm : apdMinExponent = -100000 := rfl
  unfold apdFin
  rcases apdSetExponent_cases coeff xs with h0 | ⟨h0, hall, ha1, ha2⟩
  · rw [h0]; rfl
  · rw [h0]
    have hS : xs.foldl (· + ·) 0 < apdMinExponent := by
      rw [hm]
      have : ¬ (-100000 ≤ xs.foldl (· + ·) 0) := fun hc => h ⟨hall, ha1, ha2, hc⟩
      omega
    simp [hS]

theorem sum_exps (e : Option JExp) (f : Option Bytes) :
    (expList e ++ fracExps f).foldl (· + ·) 0 = expValue e - ((fracDigits f).length : Int) := by
  cases e <;> cases f <;> simp [expList, fracExps, expValue, fracDigits] <;> omega

theorem exps_range (e : Option JExp) (f : Option Bytes) :
    (∀ x ∈ expList e ++ fracExps f, -100000 ≤ x ∧ x ≤ 100000) ↔
      (-100000 ≤ expValue e ∧ expValue e ≤ 100000 ∧ (fracDigits f).length ≤ 100000) := by
  cases e <;> cases f <;> simp [expList, fracExps, expValue, fracDigits] <;> omega

/-- `inApdRange` in terms of the summands handed to `setExponent` -/
theorem inApdRange_iff (n : JNum) :
    n.inApdRange ↔
      ((∀ x ∈ expList n.exp ++ fracExps n.frac, -100000 ≤ x ∧ x ≤ 100000) ∧
      -100000 ≤ (expList n.exp ++ fracExps n.frac).foldl (· + ·) 0 + (numDigits n.coeff : Int) - 1 ∧
      (expList n.exp ++ fracExps n.frac).foldl (· + ·) 0 + (numDigits n.coeff : Int) - 1 ≤ 100000 ∧
      -100000 ≤ (expList n.exp ++ fracExps n.frac).foldl (· + ·) 0) := by
  rw [exps_range, sum_exps]
  unfold JNum.inApdRange JNum.exponent
  constructor
  · rintro ⟨h1, h2, h3, h4, h5, h6⟩; exact ⟨⟨h1, h2, h3⟩, h4, h5, h6⟩
  · rintro ⟨⟨h1, h2, h3⟩, h4, h5, h6⟩; exact ⟨h1, h2, h3, h4, h5, h6⟩

/-- apd's `SetString` on the unsigned spelling, stage by stage -/
theorem apdSetString_stages (n : JNum) (hwf : n.wf = true) :
    apdSetString n.utext =
      match expParse n.exp with
      | none => (.nan false, true)
      | some xs => apdFin n.coeff (xs ++ fracExps n.frac) := by
  obtain ⟨d, t, hdt, hd1, hd2, -⟩ := utext_head n hwf
  have hlow := toLower_utext n hwf
  have hwf' := hwf
  simp only [JNum.wf, Bool.and_eq_true, Bool.not_eq_true', Bool.or_eq_true, beq_iff_eq] at hwf'
  obtain ⟨⟨⟨⟨hne, hds⟩, hz⟩, hf⟩, he⟩ := hwf'
  have hsplit := apdExpSplit_eq (n.int ++ fracText n.frac) n.exp (mant_no_e n.int n.frac hds hf)
  have h1 : apdSetString n.utext = apdCore (toLowerAscii n.utext) := by
    rw [hdt]; exact apdSetString_digit d t hd1 hd2
  rw [h1, hlow]
  unfold apdCore
  rw [hsplit]
  cases expParse n.exp with
  | none => rfl
  | some xs =>
    simp only [Option.map_some]
    rw [apdMant_eq n.int n.frac _ hne hds hf]
    rfl

/-- within the region: no error, and the decimal the spelling denotes -/
theorem apdSetString_utext (n : JNum) (hwf : n.wf = true) (hr : n.inApdRange) :
    apdSetString n.utext = (.finite false n.coeff n.exponent, false) := by
  have he : expWf n.exp = true := by
    simp only [JNum.wf, Bool.and_eq_true] at hwf; exact hwf.2
  have hr' := hr
  obtain ⟨hr1, hr2, -⟩ := hr'
  rw [apdSetString_stages n hwf]
  rcases expParse_cases n.exp he with ⟨hp, -, -⟩ | ⟨-, hb⟩
  · rw [hp]
    obtain ⟨h1, h2, h3, h4⟩ := (inApdRange_iff n).mp hr
    simp only
    rw [apdFin_ok _ _ h1 h2 h3 h4, sum_exps]
    rfl
  · omega

/-- outside the region: an error -/
theorem apdSetString_err (n : JNum) (hwf : n.wf = true) (hr : ¬ n.inApdRange) :
    (apdSetString n.utext).2 = true := by
  have he : expWf n.exp = true := by
    simp only [JNum.wf, Bool.and_eq_true] at hwf; exact hwf.2
  rw [apdSetString_stages n hwf]
  rcases expParse_cases n.exp he with ⟨hp, -, -⟩ | ⟨hp, -⟩
  · rw [hp]
    exact apdFin_bad _ _ (fun h => hr ((inApdRange_iff n).mpr h))
  · rw [hp]

/-- Within apd's exponent limits the decoder reads exactly the decimal the spelling denotes
(`-0` becomes `0`: apd's Neg clears the sign of zero). -/
theorem number_value (n : JNum) (hwf : n.wf = true) (hr : n.inApdRange) :
    decodeNumber n.text = some (n.kind, .finite (n.neg && n.coeff != 0) n.coeff n.exponent) := by
  rw [decodeNumber_eq n hwf, apdSetString_utext n hwf hr]
  simp only [Bool.false_eq_true, if_false]
  cases n.neg with
  | false => rfl
  | true =>
    simp only [if_true, apdNeg, Bool.true_and, Bool.not_false]
    by_cases h0 : n.coeff = 0
    · simp [h0]
    · simp [h0]

/-- Outside the limits the decoder rejects the number (apd's error is returned since
`NumInfo.decimal` no longer discards it): never a silently different value. -/
theorem number_reject (n : JNum) (hwf : n.wf = true) (hr : ¬ n.inApdRange) :
    decodeNumber n.text = none := by
  rw [decodeNumber_eq n hwf, apdSetString_err n hwf hr]
  rfl

/-- witness outside the limits: `1e100001` is rejected -/
theorem number_value_witness :
    decodeNumber [49, 101, 49, 48, 48, 48, 48, 49] = none := by
  decide

end CueVerif.Json
