/-
C10 helper lemmas, document level, part 2: the reference parser of Spec/JsonDoc.lean reads
back what the model of `Value.appendJSON` (Model/JsonDoc.lean) writes — for every finite value
tree, any depth and width — as exactly `dataOf` of the tree.  Core Lean only.

Shape of the induction (mutual, structural over the tree):
  pValue_append   : pValue  fuel (appendJSON v   ++ rest)        = some (dataOf v, rest)
  pElems_append   : pElems  fuel (appendElems es ++ `]` :: rest) = some (dataOfList es, rest)
  pMembers_append : pMembers fuel (appendFields fs ++ `}` :: rest) = some (dataOfFields fs, rest)
for every `rest` that cannot continue a number (`numStop`) and every fuel above the length of
the text written.
-/
import CueVerif.Model.JsonDoc
import CueVerif.Proofs.JsonDocTok
namespace CueVerif.Json
open CueVerif CueVerif.Quote

/-- the first byte of a JSON value -/
def valStart (c : Nat) : Bool :=
  c == 0x6E || c == 0x74 || c == 0x66 || c == 0x2D || isDigit c || c == 0x22 || c == 0x5B || c == 0x7B

theorem valStart_facts {c : Nat} (h : valStart c = true) :
    isWs c = false ∧ c ≠ 0x5D ∧ c ≠ 0x7D ∧ c ≠ 0x2C ∧ c ≠ 0x3A := by
  simp only [valStart, isDigit, Bool.or_eq_true, beq_iff_eq, Bool.and_eq_true, decide_eq_true_eq] at h
  simp only [isWs, Bool.or_eq_false_iff, beq_eq_false_iff_ne]
  omega

theorem skipWs_cons {c : Nat} (t : Bytes) (h : isWs c = false) : skipWs (c :: t) = c :: t := by
  simp [skipWs, List.dropWhile_cons, h]

theorem skipWs_3A (t : Bytes) : skipWs (0x3A :: t) = 0x3A :: t := skipWs_cons t (by decide)
theorem skipWs_2C (t : Bytes) : skipWs (0x2C :: t) = 0x2C :: t := skipWs_cons t (by decide)
theorem skipWs_5D (t : Bytes) : skipWs (0x5D :: t) = 0x5D :: t := skipWs_cons t (by decide)
theorem skipWs_7D (t : Bytes) : skipWs (0x7D :: t) = 0x7D :: t := skipWs_cons t (by decide)
theorem skipWs_22 (t : Bytes) : skipWs (0x22 :: t) = 0x22 :: t := skipWs_cons t (by decide)

theorem jnum_text_head (n : JNum) (hwf : n.wf = true) :
    ∃ c t, n.text = c :: t ∧ (c = 0x2D ∨ (48 ≤ c ∧ c ≤ 57)) := by
  obtain ⟨hne, hall, -, -, -⟩ := (jnum_wf_iff n).mp hwf
  obtain ⟨neg, int, frac, exp⟩ := n
  simp only at hne hall
  cases int with
  | nil => exact absurd rfl hne
  | cons d ds =>
    have hd := allDigits_head hall
    cases neg
    · exact ⟨d, _, by simp [JNum.text, JNum.utext]; rfl, Or.inr hd⟩
    · exact ⟨0x2D, _, by simp [JNum.text, JNum.utext]; rfl, Or.inl rfl⟩

/-- what `Value.appendJSON` writes begins with the first byte of a JSON value -/
theorem appendJSON_head (v : MVal) : ∃ c t, appendJSON v = c :: t ∧ valStart c = true := by
  cases v with
  | null => exact ⟨0x6E, [0x75, 0x6C, 0x6C], by simp only [appendJSON], by decide⟩
  | bool b =>
    cases b
    · exact ⟨0x66, [0x61, 0x6C, 0x73, 0x65], by simp [appendJSON], by decide⟩
    · exact ⟨0x74, [0x72, 0x75, 0x65], by simp [appendJSON], by decide⟩
  | num neg coeff exp =>
    obtain ⟨n, hwf, htext, -⟩ := number_out neg coeff exp
    obtain ⟨c, t, h1, h2⟩ := jnum_text_head n hwf
    refine ⟨c, t, by simp only [appendJSON, htext, h1], ?_⟩
    simp only [valStart, isDigit, Bool.or_eq_true, beq_iff_eq, Bool.and_eq_true, decide_eq_true_eq]
    omega
  | str s => exact ⟨0x22, escapeLoop s ++ [0x22], by simp only [appendJSON, jsonEscape], by decide⟩
  | list es => exact ⟨0x5B, appendElems es ++ [0x5D], by simp only [appendJSON], by decide⟩
  | struct fs => exact ⟨0x7B, appendFields fs ++ [0x7D], by simp only [appendJSON], by decide⟩

theorem pValue_num (f : Nat) (c : Nat) (t : Bytes) (hc : c = 0x2D ∨ (48 ≤ c ∧ c ≤ 57)) :
    pValue (f + 1) (c :: t) =
      (pNumber (c :: t)).map fun p => (JVal.num p.1.neg p.1.coeff p.1.exponent, p.2) := by
  have e1 : (c == 0x6E) = false := by simp; omega
  have e2 : (c == 0x74) = false := by simp; omega
  have e3 : (c == 0x66) = false := by simp; omega
  have e4 : (c == 0x22) = false := by simp; omega
  have e5 : (c == 0x5B) = false := by simp; omega
  have e6 : (c == 0x7B) = false := by simp; omega
  simp only [pValue, e1, e2, e3, e4, e5, e6, Bool.false_eq_true, if_false]

theorem numStop_of_ne {c : Nat} (t : Bytes) (h : isNumChar c = false) : numStop (c :: t) = true := by
  simp [numStop, h]

theorem appendElems_cons_cons (e e' : MVal) (es : List MVal) :
    appendElems (e :: e' :: es) = appendJSON e ++ 0x2C :: appendElems (e' :: es) := by
  simp [appendElems]

theorem appendFields_cons_cons (k : Bytes) (v : MVal) (p : Bytes × MVal) (fs : List (Bytes × MVal)) :
    appendFields ((k, v) :: p :: fs) =
      jsonEscape k ++ 0x3A :: (appendJSON v ++ 0x2C :: appendFields (p :: fs)) := by
  simp [appendFields]

theorem appendFields_head (p : Bytes × MVal) (fs : List (Bytes × MVal)) :
    ∃ t, appendFields (p :: fs) = 0x22 :: t := by
  obtain ⟨k, v⟩ := p
  exact ⟨escapeLoop k ++ [0x22] ++ 0x3A :: (appendJSON v ++ if fs.isEmpty then [] else 0x2C :: appendFields fs),
    by simp only [appendFields, jsonEscape, List.cons_append]⟩

mutual
theorem pValue_append : ∀ (v : MVal), v.WF → ∀ (rest : Bytes), numStop rest = true →
    ∀ fuel, (appendJSON v).length < fuel → pValue fuel (appendJSON v ++ rest) = some (dataOf v, rest)
  | .null, _, rest, _, fuel, hf => by
    obtain ⟨f, rfl⟩ : ∃ f, fuel = f + 1 := ⟨fuel - 1, by omega⟩
    simp [appendJSON, pValue, dataOf]
  | .bool b, _, rest, _, fuel, hf => by
    obtain ⟨f, rfl⟩ : ∃ f, fuel = f + 1 := ⟨fuel - 1, by omega⟩
    cases b <;> simp [appendJSON, pValue, dataOf]
  | .num neg coeff exp, _, rest, hs, fuel, hf => by
    obtain ⟨f, rfl⟩ : ∃ f, fuel = f + 1 := ⟨fuel - 1, by omega⟩
    obtain ⟨n, hwf, htext, h1, h2, h3⟩ := number_out neg coeff exp
    obtain ⟨c, t, hct, hc⟩ := jnum_text_head n hwf
    have hp := pNumber_text n hwf rest hs
    simp only [appendJSON, htext, dataOf]
    rw [hct, List.cons_append, pValue_num f c _ hc, ← List.cons_append, ← hct, hp]
    simp [h1, h2, h3]
  | .str s, hwf, rest, _, fuel, hf => by
    obtain ⟨f, rfl⟩ : ∃ f, fuel = f + 1 := ⟨fuel - 1, by omega⟩
    simp only [MVal.WF] at hwf
    have hp := pString_escape s hwf.1 hwf.2 rest
    simp only [appendJSON, jsonEscape, dataOf, List.cons_append, List.append_assoc, List.nil_append] at hp ⊢
    simp [pValue, hp]
  | .list es, hwf, rest, _, fuel, hf => by
    obtain ⟨f, rfl⟩ : ∃ f, fuel = f + 1 := ⟨fuel - 1, by omega⟩
    simp only [MVal.WF] at hwf
    cases es with
    | nil => simp [appendJSON, appendElems, pValue, dataOf, dataOfList, skipWs_5D]
    | cons e es =>
      have ih := pElems_append (e :: es) (by simp) hwf rest f (by
        simp only [appendJSON, List.length_cons, List.length_append, List.length_nil] at hf; omega)
      obtain ⟨c, t, hct, hc⟩ := appendJSON_head e
      obtain ⟨hws, h5d, -⟩ := valStart_facts hc
      have hhead : ∃ t', appendElems (e :: es) = c :: t' := by
        simp only [appendElems, hct, List.cons_append]; exact ⟨_, rfl⟩
      obtain ⟨t', ht'⟩ := hhead
      rw [ht'] at ih
      have e5d : (c == 0x5D) = false := by simpa using h5d
      simp only [appendJSON, dataOf, ht', List.cons_append, List.append_assoc, List.nil_append] at ih ⊢
      simp [pValue, skipWs_cons _ hws, e5d, ih]
  | .struct fs, hwf, rest, _, fuel, hf => by
    obtain ⟨f, rfl⟩ : ∃ f, fuel = f + 1 := ⟨fuel - 1, by omega⟩
    simp only [MVal.WF] at hwf
    cases fs with
    | nil => simp [appendJSON, appendFields, pValue, dataOf, dataOfFields, skipWs_7D]
    | cons p fs =>
      have ih := pMembers_append (p :: fs) (by simp) hwf rest f (by
        simp only [appendJSON, List.length_cons, List.length_append, List.length_nil] at hf; omega)
      obtain ⟨t', ht'⟩ := appendFields_head p fs
      rw [ht'] at ih
      simp only [appendJSON, dataOf, ht', List.cons_append, List.append_assoc, List.nil_append] at ih ⊢
      simp [pValue, skipWs_22, ih]
theorem pElems_append : ∀ (es : List MVal), es ≠ [] → MVal.WFList es → ∀ (rest : Bytes),
    ∀ fuel, (appendElems es).length + 1 < fuel →
      pElems fuel (appendElems es ++ 0x5D :: rest) = some (dataOfList es, rest)
  | [], hne, _, _, _, _ => absurd rfl hne
  | [e], _, hwf, rest, fuel, hf => by
    obtain ⟨f, rfl⟩ : ∃ f, fuel = f + 1 := ⟨fuel - 1, by omega⟩
    simp only [MVal.WFList] at hwf
    have hv := pValue_append e hwf.1 (0x5D :: rest) (numStop_of_ne _ (by decide)) f (by
      simp [appendElems] at hf; omega)
    simp [appendElems, pElems, hv, skipWs_5D, dataOfList]
  | e :: e' :: es, _, hwf, rest, fuel, hf => by
    obtain ⟨f, rfl⟩ : ∃ f, fuel = f + 1 := ⟨fuel - 1, by omega⟩
    simp only [MVal.WFList] at hwf
    rw [appendElems_cons_cons] at hf ⊢
    simp only [List.length_append, List.length_cons] at hf
    have hv := pValue_append e hwf.1 (0x2C :: (appendElems (e' :: es) ++ 0x5D :: rest))
      (numStop_of_ne _ (by decide)) f (by omega)
    have ih := pElems_append (e' :: es) (by simp) ⟨hwf.2.1, hwf.2.2⟩ rest f (by omega)
    obtain ⟨c, t, hct, hc⟩ := appendJSON_head e'
    obtain ⟨hws, -⟩ := valStart_facts hc
    have hhead : ∃ t', appendElems (e' :: es) = c :: t' := by
      simp only [appendElems, hct, List.cons_append]; exact ⟨_, rfl⟩
    obtain ⟨t', ht'⟩ := hhead
    simp only [List.append_assoc, List.cons_append]
    simp only [ht', List.cons_append] at ih hv ⊢
    have hsk := skipWs_cons (t' ++ 0x5D :: rest) hws
    simp [pElems, hv, skipWs_2C, hsk, ih, consFst, dataOfList]
theorem pMembers_append : ∀ (fs : List (Bytes × MVal)), fs ≠ [] → MVal.WFFields fs → ∀ (rest : Bytes),
    ∀ fuel, (appendFields fs).length + 1 < fuel →
      pMembers fuel (appendFields fs ++ 0x7D :: rest) = some (dataOfFields fs, rest)
  | [], hne, _, _, _, _ => absurd rfl hne
  | [(k, v)], _, hwf, rest, fuel, hf => by
    obtain ⟨f, rfl⟩ : ∃ f, fuel = f + 1 := ⟨fuel - 1, by omega⟩
    simp only [MVal.WFFields] at hwf
    have hk := pString_escape k hwf.1.1 hwf.1.2 (0x3A :: (appendJSON v ++ 0x7D :: rest))
    have hv := pValue_append v hwf.2.1 (0x7D :: rest) (numStop_of_ne _ (by decide)) f (by
      simp [appendFields] at hf; omega)
    obtain ⟨c, t, hct, hc⟩ := appendJSON_head v
    obtain ⟨hws, -⟩ := valStart_facts hc
    have hsk := skipWs_cons (t ++ 0x7D :: rest) hws
    simp only [hct, List.cons_append] at hv hk hsk
    simp [appendFields, jsonEscape, pMembers, hk, hct, hsk, hv, skipWs_3A, skipWs_7D, dataOfFields]
  | (k, v) :: p :: fs, _, hwf, rest, fuel, hf => by
    obtain ⟨f, rfl⟩ : ∃ f, fuel = f + 1 := ⟨fuel - 1, by omega⟩
    simp only [MVal.WFFields] at hwf
    rw [appendFields_cons_cons] at hf ⊢
    simp only [List.length_append, List.length_cons] at hf
    have hk := pString_escape k hwf.1.1 hwf.1.2
      (0x3A :: (appendJSON v ++ 0x2C :: (appendFields (p :: fs) ++ 0x7D :: rest)))
    have hv := pValue_append v hwf.2.1 (0x2C :: (appendFields (p :: fs) ++ 0x7D :: rest))
      (numStop_of_ne _ (by decide)) f (by omega)
    have ih := pMembers_append (p :: fs) (by simp) hwf.2.2 rest f (by omega)
    obtain ⟨c, t, hct, hc⟩ := appendJSON_head v
    obtain ⟨hws, -⟩ := valStart_facts hc
    have hsk := skipWs_cons (t ++ 0x2C :: (appendFields (p :: fs) ++ 0x7D :: rest)) hws
    obtain ⟨t', ht'⟩ := appendFields_head p fs
    simp only [hct, ht', List.cons_append] at hv hk hsk ih
    simp [jsonEscape, pMembers, hk, hct, ht', hsk, hv, skipWs_3A, skipWs_2C, skipWs_22, ih, consFst, dataOfFields]
end

end CueVerif.Json
