/-
C10: combinations of the lemmas of Proofs/JsonString, JsonNumber, JsonOut into the statements
of Props/C10.lean, and the witnesses of the statements that are false.  Core Lean only.
-/
import CueVerif.Proofs.JsonString
import CueVerif.Proofs.JsonNumber
import CueVerif.Proofs.JsonOut
namespace CueVerif.Json
open CueVerif CueVerif.Quote

/-! ### decoder, strings -/

/-- full strength: every RFC 8259 string token with well-paired surrogates decodes to what it denotes -/
def string_decode_stmt : Prop :=
  ∀ items : List JItem, WfItems items → wellPaired items = true →
    decodeString (stringText items) = .ok (denote items)

/-- with a raw U+FEFF the decoder always rejects -/
theorem string_decode_bom (items : List JItem) (hwf : WfItems items) (hb : noRawBOM items = false) :
    decodeString (stringText items) = .error .scanner := by
  simp only [decodeString, string_scan items hwf, hb]
  rfl

theorem wf_bom : WfItems [JItem.raw 0xFEFF] := by
  intro i hi; simp at hi; subst hi; decide

/-- FALSE: the token consisting of a raw U+FEFF is rejected by the scanner -/
theorem string_decode_false : ¬ string_decode_stmt := by
  intro h
  have h1 := h [JItem.raw 0xFEFF] wf_bom (by simp [wellPaired])
  rw [string_decode_bom [JItem.raw 0xFEFF] wf_bom (by decide)] at h1
  cases h1

/-- outside exactly that region (no raw U+FEFF) the statement holds -/
theorem string_decode_partial (items : List JItem) (hwf : WfItems items)
    (hp : wellPaired items = true) (hb : noRawBOM items = true) :
    decodeString (stringText items) = .ok (denote items) := by
  simp only [decodeString, string_scan items hwf, hb, string_embed items hwf hp]
  rfl

/-- without the pairing hypothesis: FALSE (lone surrogate escapes are rejected, Go's
encoding/json would substitute U+FFFD); informational — such a token is not Unicode text -/
def string_embed_unpaired_stmt : Prop :=
  ∀ items : List JItem, WfItems items → Quote.unquote (stringText items) = .ok (denote items)

theorem string_embed_unpaired_false : ¬ string_embed_unpaired_stmt := by
  intro h
  have := h [JItem.u 0x64 0x38 0x30 0x30] (by intro i hi; simp at hi; subst hi; decide)
  rw [lone_surrogate_rejected] at this
  cases this

/-! ### decoder, numbers -/

def number_value_stmt : Prop :=
  ∀ n : JNum, n.wf = true →
    decodeNumber n.text = some (n.kind, .finite (n.neg && n.coeff != 0) n.coeff n.exponent)

/-- the number token `1e100001` -/
def witness1e100001 : JNum :=
  { neg := false, int := [49], frac := none,
    exp := some { upper := false, sign := none, digits := [49, 48, 48, 48, 48, 49] } }

theorem number_value_false : ¬ number_value_stmt := by
  intro h
  have := h witness1e100001 (by decide)
  have ht : witness1e100001.text = [49, 101, 49, 48, 48, 48, 48, 49] := by decide
  rw [ht, number_value_witness] at this
  cases this

/-! ### encoder then decoder -/

/-- `literal.Unquote` reads every marshalled valid-UTF-8 string back exactly -/
theorem string_roundtrip (s : Bytes) (hb : IsBytes s) (hv : validUTF8 s = true) :
    Quote.unquote (jsonEscape s) = .ok s := by
  obtain ⟨items, hwf, ht, hd, hp, _⟩ := string_out s hb hv
  rw [ht, string_embed items hwf hp, hd]

/-- the same through the whole decoder is FALSE: U+FEFF is marshalled raw and then rejected -/
def string_roundtrip_decoder_stmt : Prop :=
  ∀ s : Bytes, IsBytes s → validUTF8 s = true → decodeString (jsonEscape s) = .ok s

theorem jsonEscape_bom : jsonEscape [0xEF, 0xBB, 0xBF] = stringText [JItem.raw 0xFEFF] := by
  simp [jsonEscape, escapeLoop, stringText, bodyText, JItem.text, encodeRune, decodeRune, isCont]

theorem string_roundtrip_decoder_false : ¬ string_roundtrip_decoder_stmt := by
  intro h
  have h1 := h [0xEF, 0xBB, 0xBF] (by intro b hb; simp at hb; omega)
    (by simp [validUTF8, decodeFirst, decodeRune, isCont])
  rw [jsonEscape_bom, string_decode_bom [JItem.raw 0xFEFF] wf_bom (by decide)] at h1
  cases h1

/-- a marshalled number is read back as exactly the decimal that was printed whenever the
spelling is within apd's exponent limits -/
theorem number_roundtrip (neg : Bool) (coeff : Nat) (exp : Int) :
    ∃ n : JNum, n.wf = true ∧ fmtG neg coeff exp = n.text ∧
      (n.inApdRange → decodeNumber (fmtG neg coeff exp) =
        some (n.kind, .finite (neg && coeff != 0) coeff exp)) := by
  obtain ⟨n, hwf, ht, hn, hc, he⟩ := number_out neg coeff exp
  refine ⟨n, hwf, ht, ?_⟩
  intro hr
  rw [ht, number_value n hwf hr, hn, hc, he]

end CueVerif.Json
