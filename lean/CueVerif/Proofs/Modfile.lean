import CueVerif.Model.Modfile
/-!
Proofs about the module-file model (Model/Modfile.lean), quantified over all module files,
all data trees and all library verdicts `L`.

* `decode_encode`            : Parse ∘ Format = id on every well-formed file
* `unknown_*_rejected`       : closedness at every level
* `malformed_rejected`       : known field of a wrong type / missing mandatory field
* version gates              : `source_rejected_below_v09`, `replaceWith_rejected_below_v017`,
                               `missing_v_rejected_below_v017`
* `accepted_fields_kept_*`   : "rejected rather than dropped" is FALSE for `description`
-/
namespace CueVerif.Modfile
open CueVerif

/-- the tree is refused -/
def Rejected (r : Except Err Modfile) : Prop := ∃ e, r = .error e

theorem rejected_of_not_ok {r : Except Err Modfile} (h : ∀ f, r ≠ .ok f) : Rejected r := by
  cases r with
  | error e => exact ⟨e, rfl⟩
  | ok f => exact absurd rfl (h f)

/-! ### inversion of `decode` -/

theorem closed_mem {allowed : List Str} {fs : Fields} (h : closed allowed fs = true)
    {k : Str} {v : Val} (hm : (k, v) ∈ fs) : k ∈ allowed := by
  have h' := List.all_eq_true.mp h (k, v) hm
  simpa using h'

theorem decodeWith_ok {L : Lib} {sch : Schema} {lv : Str} {top : Fields} {f : Modfile}
    (h : decodeWith L sch lv top = .ok f) :
    closed topFields top = true ∧ checkLanguage top = .ok () ∧
    decodeModule top = .ok f.module ∧ decodeSource sch top = .ok f.source ∧
    checkDescription top = .ok () ∧ decodeDeps sch top = .ok f.deps ∧
    decodeCustom top = .ok f.custom ∧ f.language = some lv ∧ init L f = .ok () := by
  unfold decodeWith at h
  cases hc : closed topFields top with
  | false => simp [hc] at h
  | true =>
  cases hl : checkLanguage top with
  | error e => simp [hc, hl] at h
  | ok u =>
  cases hm : decodeModule top with
  | error e => simp [hc, hl, hm] at h
  | ok m =>
  cases hs : decodeSource sch top with
  | error e => simp [hc, hl, hm, hs] at h
  | ok src =>
  cases hd : checkDescription top with
  | error e => simp [hc, hl, hm, hs, hd] at h
  | ok u2 =>
  cases hdeps : decodeDeps sch top with
  | error e => simp [hc, hl, hm, hs, hd, hdeps] at h
  | ok deps =>
  cases hcu : decodeCustom top with
  | error e => simp [hc, hl, hm, hs, hd, hdeps, hcu] at h
  | ok cust =>
  cases hi : init L ⟨m, some lv, src, deps, cust⟩ with
  | error e => simp [hc, hl, hm, hs, hd, hdeps, hcu, hi] at h
  | ok u3 =>
    simp [hc, hl, hm, hs, hd, hdeps, hcu, hi] at h
    subst h
    exact ⟨rfl, rfl, rfl, rfl, rfl, rfl, rfl, rfl, hi⟩

theorem decode_ok {L : Lib} {t : Val} {f : Modfile} (h : decode L t = .ok f) :
    ∃ top lv sch, t = .struct top ∧ baseVersion top = .ok lv ∧ chooseSchema L lv = .ok sch ∧
      decodeWith L sch lv top = .ok f := by
  cases t with
  | struct top =>
    unfold decode at h
    cases hb : baseVersion top with
    | error e => simp [hb] at h
    | ok lv =>
      cases hs : chooseSchema L lv with
      | error e => simp [hb, hs] at h
      | ok sch =>
        simp [hb, hs] at h
        exact ⟨top, lv, sch, rfl, hb, hs, h⟩
  | str s => simp [decode] at h
  | bool b => simp [decode] at h
  | null => simp [decode] at h
  | num n => simp [decode] at h
  | list vs => simp [decode] at h

theorem chooseSchema_ok {L : Lib} {lv : Str} {sch : Schema} (h : chooseSchema L lv = .ok sch) :
    lv ≠ [] ∧ pickSchema lv = some sch := by
  unfold chooseSchema at h
  by_cases h1 : lv = []
  · simp [h1] at h
  · refine ⟨h1, ?_⟩
    cases hp : pickSchema lv with
    | none =>
      simp only [h1, ↓reduceIte, hp] at h
      split at h
      · cases h
      · split at h <;> cases h
    | some s =>
      simp only [h1, ↓reduceIte, hp] at h
      split at h
      · cases h
      · split at h
        · cases h
        · cases h; rfl

/-! ### closedness: unknown fields are rejected at every level -/

/-- any top-level field that is not one of the schema's fields (the set is the same for
every language version) makes Parse fail -/
theorem unknown_top_rejected (L : Lib) (top : Fields) (k : Str) (v : Val)
    (hm : (k, v) ∈ top) (hk : k ∉ topFields) : Rejected (decode L (.struct top)) := by
  apply rejected_of_not_ok
  intro f h
  obtain ⟨top', lv, sch, ht, _, _, hw⟩ := decode_ok h
  cases ht
  exact hk (closed_mem (decodeWith_ok hw).1 hm)

theorem unknown_language_field_rejected (L : Lib) (top lfs : Fields) (k : Str) (v : Val)
    (hl : lookup kLanguage top = some (.struct lfs)) (hm : (k, v) ∈ lfs) (hk : k ≠ kVersion) :
    Rejected (decode L (.struct top)) := by
  apply rejected_of_not_ok
  intro f h
  obtain ⟨top', lv, sch, ht, _, _, hw⟩ := decode_ok h
  cases ht
  have h2 := (decodeWith_ok hw).2.1
  unfold checkLanguage at h2
  rw [hl] at h2
  cases hc : closed languageFields lfs with
  | false => simp [hc] at h2
  | true =>
    have := closed_mem hc hm
    simp [languageFields] at this
    exact hk this

theorem unknown_source_field_rejected (L : Lib) (top sfs : Fields) (k : Str) (v : Val)
    (hl : lookup kSource top = some (.struct sfs)) (hm : (k, v) ∈ sfs) (hk : k ≠ kKind) :
    Rejected (decode L (.struct top)) := by
  apply rejected_of_not_ok
  intro f h
  obtain ⟨top', lv, sch, ht, _, _, hw⟩ := decode_ok h
  cases ht
  have h2 := (decodeWith_ok hw).2.2.2.1
  unfold decodeSource at h2
  rw [hl] at h2
  cases hc : closed sourceFields sfs with
  | false =>
    by_cases h8 : sch = .v08 <;> simp [hc, h8] at h2
  | true =>
    have := closed_mem hc hm
    simp [sourceFields] at this
    exact hk this

theorem decodeDepList_mem {sch : Schema} {dfs : Fields} {ds : List (Str × Dep)}
    (h : decodeDepList sch dfs = .ok ds) {m : Str} {dv : Val} (hm : (m, dv) ∈ dfs) :
    ∃ d, decodeDep sch dv = .ok d := by
  induction dfs generalizing ds with
  | nil => cases hm
  | cons hd tl ih =>
    obtain ⟨m0, dv0⟩ := hd
    unfold decodeDepList at h
    cases h1 : decodeDep sch dv0 with
    | error e => simp [h1] at h
    | ok d0 =>
      cases h2 : decodeDepList sch tl with
      | error e => simp [h1, h2] at h
      | ok ds0 =>
        cases hm with
        | head => exact ⟨d0, h1⟩
        | tail _ hm' => exact ih h2 hm'

theorem decodeDep_ok {sch : Schema} {fs : Fields} {d : Dep}
    (h : decodeDep sch (.struct fs) = .ok d) :
    closed depFields fs = true ∧ depV sch fs = .ok d.v ∧ depDefault fs = .ok d.dflt ∧
      depReplace sch fs = .ok d.replaceWith := by
  unfold decodeDep at h
  cases hc : closed depFields fs with
  | false => simp [hc] at h
  | true =>
  cases hv : depV sch fs with
  | error e => simp [hc, hv] at h
  | ok v =>
  cases hd : depDefault fs with
  | error e => simp [hc, hv, hd] at h
  | ok b =>
  cases hr : depReplace sch fs with
  | error e => simp [hc, hv, hd, hr] at h
  | ok rw =>
    simp [hc, hv, hd, hr] at h
    subst h
    exact ⟨rfl, rfl, rfl, rfl⟩

/-- what an accepted tree says about one dependency entry -/
theorem dep_entry_ok {L : Lib} {top dfs : Fields} {f : Modfile}
    (h : decode L (.struct top) = .ok f) (hl : lookup kDeps top = some (.struct dfs))
    {m : Str} {dv : Val} (hm : (m, dv) ∈ dfs) :
    ∃ lv sch d, baseVersion top = .ok lv ∧ chooseSchema L lv = .ok sch ∧
      decodeDep sch dv = .ok d := by
  obtain ⟨top', lv, sch, ht, hb, hs, hw⟩ := decode_ok h
  cases ht
  have h2 := (decodeWith_ok hw).2.2.2.2.2.1
  unfold decodeDeps at h2
  rw [hl] at h2
  obtain ⟨d, hd⟩ := decodeDepList_mem h2 hm
  exact ⟨lv, sch, d, hb, hs, hd⟩

/-- a dependency entry with a field other than v / default / replaceWith is rejected -/
theorem unknown_dep_field_rejected (L : Lib) (top dfs fs : Fields) (m k : Str) (v : Val)
    (hl : lookup kDeps top = some (.struct dfs)) (hm : (m, .struct fs) ∈ dfs)
    (hf : (k, v) ∈ fs) (hk : k ∉ depFields) : Rejected (decode L (.struct top)) := by
  apply rejected_of_not_ok
  intro f h
  obtain ⟨lv, sch, d, _, _, hd⟩ := dep_entry_ok h hl hm
  exact hk (closed_mem (decodeDep_ok hd).1 hf)

/-! ### language-version gates -/

/-- `replaceWith` only exists from schema v0.17.0 on -/
theorem replaceWith_rejected_below_v017 (L : Lib) (top dfs fs : Fields) (m lv : Str) (rv : Val)
    (hb : baseVersion top = .ok lv) (hp : pickSchema lv ≠ some .v017)
    (hl : lookup kDeps top = some (.struct dfs)) (hm : (m, .struct fs) ∈ dfs)
    (hr : lookup kReplaceWith fs = some rv) : Rejected (decode L (.struct top)) := by
  apply rejected_of_not_ok
  intro f h
  obtain ⟨lv', sch, d, hb', hs, hd⟩ := dep_entry_ok h hl hm
  rw [hb] at hb'
  cases hb'
  have hsch : sch ≠ .v017 := fun e => hp (e ▸ (chooseSchema_ok hs).2)
  have h3 := (decodeDep_ok hd).2.2.2
  unfold depReplace at h3
  rw [hr] at h3
  simp [hsch] at h3

/-- `v` is mandatory below schema v0.17.0 -/
theorem missing_v_rejected_below_v017 (L : Lib) (top dfs fs : Fields) (m lv : Str)
    (hb : baseVersion top = .ok lv) (hp : pickSchema lv ≠ some .v017)
    (hl : lookup kDeps top = some (.struct dfs)) (hm : (m, .struct fs) ∈ dfs)
    (hr : lookup kV fs = none) : Rejected (decode L (.struct top)) := by
  apply rejected_of_not_ok
  intro f h
  obtain ⟨lv', sch, d, hb', hs, hd⟩ := dep_entry_ok h hl hm
  rw [hb] at hb'
  cases hb'
  have hsch : sch ≠ .v017 := fun e => hp (e ▸ (chooseSchema_ok hs).2)
  have h3 := (decodeDep_ok hd).2.1
  unfold depV at h3
  rw [hr] at h3
  simp [hsch] at h3

/-- `source` only exists from schema v0.9.0-alpha.0 on -/
theorem source_rejected_below_v09 (L : Lib) (top : Fields) (lv : Str) (sv : Val)
    (hb : baseVersion top = .ok lv) (hp : pickSchema lv = some .v08)
    (hl : lookup kSource top = some sv) : Rejected (decode L (.struct top)) := by
  apply rejected_of_not_ok
  intro f h
  obtain ⟨top', lv', sch, ht, hb', hs, hw⟩ := decode_ok h
  cases ht
  rw [hb] at hb'
  cases hb'
  have hsch : sch = .v08 := by
    have := (chooseSchema_ok hs).2
    rw [hp] at this
    cases this
    rfl
  have h2 := (decodeWith_ok hw).2.2.2.1
  unfold decodeSource at h2
  rw [hl] at h2
  simp [hsch] at h2

/-! ### malformed: a known field of the wrong type, or a missing mandatory field -/

/-- the ways a tree can carry a known field with an inadmissible value -/
inductive Malformed (top : Fields) : Prop where
  | moduleType (v : Val) (h : lookup kModule top = some v) (hne : ∀ s, v ≠ .str s)
  | languageMissing (h : lookup kLanguage top = none)
  | languageType (v : Val) (h : lookup kLanguage top = some v) (hne : ∀ fs, v ≠ .struct fs)
  | versionMissing (lfs : Fields) (h : lookup kLanguage top = some (.struct lfs))
      (hv : lookup kVersion lfs = none)
  | versionType (lfs : Fields) (v : Val) (h : lookup kLanguage top = some (.struct lfs))
      (hv : lookup kVersion lfs = some v) (hne : ∀ s, v ≠ .str s)
  | versionEmpty (lfs : Fields) (h : lookup kLanguage top = some (.struct lfs))
      (hv : lookup kVersion lfs = some (.str []))
  | sourceType (v : Val) (h : lookup kSource top = some v) (hne : ∀ fs, v ≠ .struct fs)
  | kindMissing (sfs : Fields) (h : lookup kSource top = some (.struct sfs))
      (hk : lookup kKind sfs = none)
  | kindType (sfs : Fields) (v : Val) (h : lookup kSource top = some (.struct sfs))
      (hk : lookup kKind sfs = some v) (hne : ∀ s, v ≠ .str s)
  | kindBad (sfs : Fields) (k : Str) (h : lookup kSource top = some (.struct sfs))
      (hk : lookup kKind sfs = some (.str k)) (h1 : k ≠ kSelf) (h2 : k ≠ kGit)
  | descriptionType (v : Val) (h : lookup kDescription top = some v) (hne : ∀ s, v ≠ .str s)
  | depsType (v : Val) (h : lookup kDeps top = some v) (hne : ∀ fs, v ≠ .struct fs)
  | depEntryType (dfs : Fields) (m : Str) (dv : Val) (h : lookup kDeps top = some (.struct dfs))
      (hm : (m, dv) ∈ dfs) (hne : ∀ fs, dv ≠ .struct fs)
  | depVType (dfs fs : Fields) (m : Str) (v : Val) (h : lookup kDeps top = some (.struct dfs))
      (hm : (m, .struct fs) ∈ dfs) (hv : lookup kV fs = some v) (hne : ∀ s, v ≠ .str s)
  | depVEmpty (dfs fs : Fields) (m : Str) (h : lookup kDeps top = some (.struct dfs))
      (hm : (m, .struct fs) ∈ dfs) (hv : lookup kV fs = some (.str []))
  | depDefaultType (dfs fs : Fields) (m : Str) (v : Val)
      (h : lookup kDeps top = some (.struct dfs)) (hm : (m, .struct fs) ∈ dfs)
      (hv : lookup kDefault fs = some v) (hne : ∀ b, v ≠ .bool b)
  | depReplaceType (dfs fs : Fields) (m : Str) (v : Val)
      (h : lookup kDeps top = some (.struct dfs)) (hm : (m, .struct fs) ∈ dfs)
      (hv : lookup kReplaceWith fs = some v) (hne : ∀ s, v ≠ .str s)
  | customType (v : Val) (h : lookup kCustom top = some v) (hne : ∀ fs, v ≠ .struct fs)
  | customEntryType (cfs : Fields) (k : Str) (v : Val)
      (h : lookup kCustom top = some (.struct cfs)) (hm : (k, v) ∈ cfs)
      (hne : ∀ fs, v ≠ .struct fs)

theorem decodeCustomList_mem {cfs : Fields} {cs : List (Str × Fields)}
    (h : decodeCustomList cfs = .ok cs) {k : Str} {v : Val} (hm : (k, v) ∈ cfs) :
    ∃ fs, v = .struct fs := by
  induction cfs generalizing cs with
  | nil => cases hm
  | cons hd tl ih =>
    obtain ⟨k0, v0⟩ := hd
    cases v0 with
    | struct fs0 =>
      simp only [decodeCustomList] at h
      cases h2 : decodeCustomList tl with
      | error e => simp [h2] at h
      | ok cs0 =>
        cases hm with
        | head => exact ⟨fs0, rfl⟩
        | tail _ hm' => exact ih h2 hm'
    | str s => simp [decodeCustomList] at h
    | bool b => simp [decodeCustomList] at h
    | null => simp [decodeCustomList] at h
    | num n => simp [decodeCustomList] at h
    | list vs => simp [decodeCustomList] at h

theorem baseVersion_ne_nil {L : Lib} {top : Fields} {f : Modfile}
    (h : decode L (.struct top) = .ok f) :
    ∃ lv, baseVersion top = .ok lv ∧ lv ≠ [] := by
  obtain ⟨top', lv, sch, ht, hb, hs, _⟩ := decode_ok h
  cases ht
  exact ⟨lv, hb, (chooseSchema_ok hs).1⟩

theorem decodeSource_ok_some {sch : Schema} {top : Fields} {sv : Val} {o : Option Str}
    (hl : lookup kSource top = some sv) (h : decodeSource sch top = .ok o) :
    ∃ sfs k, sv = .struct sfs ∧ closed sourceFields sfs = true ∧
      lookup kKind sfs = some (.str k) ∧ (k = kSelf ∨ k = kGit) ∧ o = some k ∧ sch ≠ .v08 := by
  unfold decodeSource at h
  rw [hl] at h
  by_cases h8 : sch = .v08
  · simp [h8] at h
  · cases sv with
    | struct sfs =>
      cases hc : closed sourceFields sfs with
      | false => simp [h8, hc] at h
      | true =>
        cases hk : lookup kKind sfs with
        | none => simp [h8, hc, hk] at h
        | some v =>
          cases v with
          | str k =>
            by_cases hkk : k = kSelf ∨ k = kGit
            · simp [h8, hc, hk, hkk] at h
              exact ⟨sfs, k, rfl, hc, hk, hkk, h.symm, h8⟩
            · simp [h8, hc, hk, hkk] at h
          | bool b => simp [h8, hc, hk] at h
          | null => simp [h8, hc, hk] at h
          | num n => simp [h8, hc, hk] at h
          | struct fs => simp [h8, hc, hk] at h
          | list vs => simp [h8, hc, hk] at h
    | str s => simp [h8] at h
    | bool b => simp [h8] at h
    | null => simp [h8] at h
    | num n => simp [h8] at h
    | list vs => simp [h8] at h

theorem malformed_rejected (L : Lib) (top : Fields) (hmal : Malformed top) :
    Rejected (decode L (.struct top)) := by
  apply rejected_of_not_ok
  intro f h
  obtain ⟨lv0, hb0, hne0⟩ := baseVersion_ne_nil h
  obtain ⟨top', lv, sch, ht, hb, hs, hw⟩ := decode_ok h
  cases ht
  obtain ⟨_, hlang, hmod, hsrc, hdesc, hdeps, hcust, _, _⟩ := decodeWith_ok hw
  cases hmal with
  | moduleType v hl hne =>
    unfold decodeModule at hmod
    rw [hl] at hmod
    cases v <;> first | exact absurd rfl (hne _) | simp at hmod
  | languageMissing hl =>
    unfold baseVersion at hb0
    rw [hl] at hb0
    cases hb0
    exact hne0 rfl
  | languageType v hl hne =>
    unfold baseVersion at hb0
    rw [hl] at hb0
    cases v <;> first | exact absurd rfl (hne _) | simp at hb0
  | versionMissing lfs hl hv =>
    unfold baseVersion at hb0
    rw [hl] at hb0
    simp only [hv] at hb0
    cases hb0
    exact hne0 rfl
  | versionType lfs v hl hv hne =>
    unfold baseVersion at hb0
    rw [hl] at hb0
    simp only [hv] at hb0
    cases v <;> first | exact absurd rfl (hne _) | simp at hb0
  | versionEmpty lfs hl hv =>
    unfold baseVersion at hb0
    rw [hl] at hb0
    simp only [hv] at hb0
    cases hb0
    exact hne0 rfl
  | sourceType v hl hne =>
    obtain ⟨sfs, k, e, _⟩ := decodeSource_ok_some hl hsrc
    exact hne _ e
  | kindMissing sfs hl hk =>
    obtain ⟨sfs', k, e, _, hk', _⟩ := decodeSource_ok_some hl hsrc
    cases e
    rw [hk] at hk'
    cases hk'
  | kindType sfs v hl hk hne =>
    obtain ⟨sfs', k, e, _, hk', _⟩ := decodeSource_ok_some hl hsrc
    cases e
    rw [hk] at hk'
    cases hk'
    exact hne _ rfl
  | kindBad sfs k hl hk h1 h2 =>
    obtain ⟨sfs', k', e, _, hk', hor, _⟩ := decodeSource_ok_some hl hsrc
    cases e
    rw [hk] at hk'
    cases hk'
    cases hor with
    | inl h => exact h1 h
    | inr h => exact h2 h
  | descriptionType v hl hne =>
    unfold checkDescription at hdesc
    rw [hl] at hdesc
    cases v <;> first | exact absurd rfl (hne _) | simp at hdesc
  | depsType v hl hne =>
    unfold decodeDeps at hdeps
    rw [hl] at hdeps
    cases v <;> first | exact absurd rfl (hne _) | simp at hdeps
  | depEntryType dfs m dv hl hm hne =>
    obtain ⟨_, sch', d, _, _, hd⟩ := dep_entry_ok h hl hm
    cases dv <;> first | exact absurd rfl (hne _) | simp [decodeDep] at hd
  | depVType dfs fs m v hl hm hv hne =>
    obtain ⟨_, sch', d, _, _, hd⟩ := dep_entry_ok h hl hm
    have h3 := (decodeDep_ok hd).2.1
    unfold depV at h3
    rw [hv] at h3
    cases v <;> first | exact absurd rfl (hne _) | simp at h3
  | depVEmpty dfs fs m hl hm hv =>
    obtain ⟨_, sch', d, _, _, hd⟩ := dep_entry_ok h hl hm
    have h3 := (decodeDep_ok hd).2.1
    unfold depV at h3
    rw [hv] at h3
    simp at h3
  | depDefaultType dfs fs m v hl hm hv hne =>
    obtain ⟨_, sch', d, _, _, hd⟩ := dep_entry_ok h hl hm
    have h3 := (decodeDep_ok hd).2.2.1
    unfold depDefault at h3
    rw [hv] at h3
    cases v <;> first | exact absurd rfl (hne _) | simp at h3
  | depReplaceType dfs fs m v hl hm hv hne =>
    obtain ⟨_, sch', d, _, _, hd⟩ := dep_entry_ok h hl hm
    have h3 := (decodeDep_ok hd).2.2.2
    unfold depReplace at h3
    rw [hv] at h3
    cases v <;> first | exact absurd rfl (hne _) |
      (by_cases h17 : sch' = .v017 <;> simp [h17] at h3)
  | customType v hl hne =>
    unfold decodeCustom at hcust
    rw [hl] at hcust
    cases v <;> first | exact absurd rfl (hne _) | simp at hcust
  | customEntryType cfs k v hl hm hne =>
    unfold decodeCustom at hcust
    rw [hl] at hcust
    cases h2 : decodeCustomList cfs with
    | error e => simp [h2] at hcust
    | ok cs =>
      obtain ⟨fs, hfs⟩ := decodeCustomList_mem h2 hm
      exact hne fs hfs

/-! ### Format then Parse is the identity on well-formed files -/

theorem lookup_encodeFields_module (f : Modfile) :
    lookup kModule (encodeFields f) = some (.str f.module) := by
  simp [encodeFields, fld, lookup]

theorem lookup_encodeFields_language (f : Modfile) :
    lookup kLanguage (encodeFields f) = f.language.map encodeLanguage := by
  obtain ⟨m, lang, src, deps, cust⟩ := f
  cases lang <;> cases src <;> cases cust <;> cases hd : deps.isEmpty <;>
    simp [encodeFields, fld, lookup, hd, kModule, kLanguage, kSource, kDeps, kCustom]

theorem lookup_encodeFields_source (f : Modfile) :
    lookup kSource (encodeFields f) = f.source.map fun k => .struct [(kKind, .str k)] := by
  obtain ⟨m, lang, src, deps, cust⟩ := f
  cases lang <;> cases src <;> cases cust <;> cases hd : deps.isEmpty <;>
    simp [encodeFields, fld, lookup, hd, kModule, kLanguage, kSource, kDeps, kCustom]

theorem lookup_encodeFields_description (f : Modfile) :
    lookup kDescription (encodeFields f) = none := by
  obtain ⟨m, lang, src, deps, cust⟩ := f
  cases lang <;> cases src <;> cases cust <;> cases hd : deps.isEmpty <;>
    simp [encodeFields, fld, lookup, hd, kModule, kLanguage, kSource, kDeps, kCustom, kDescription]

theorem lookup_encodeFields_deps (f : Modfile) :
    lookup kDeps (encodeFields f) =
      if f.deps.isEmpty then none else some (.struct (encodeDepList f.deps)) := by
  obtain ⟨m, lang, src, deps, cust⟩ := f
  cases lang <;> cases src <;> cases cust <;> cases hd : deps.isEmpty <;>
    simp [encodeFields, fld, lookup, hd, kModule, kLanguage, kSource, kDeps, kCustom]

theorem lookup_encodeFields_custom (f : Modfile) :
    lookup kCustom (encodeFields f) = f.custom.map fun c => .struct (encodeCustomList c) := by
  obtain ⟨m, lang, src, deps, cust⟩ := f
  cases lang <;> cases src <;> cases cust <;> cases hd : deps.isEmpty <;>
    simp [encodeFields, fld, lookup, hd, kModule, kLanguage, kSource, kDeps, kCustom]

theorem closed_encodeFields (f : Modfile) : closed topFields (encodeFields f) = true := by
  obtain ⟨m, lang, src, deps, cust⟩ := f
  cases lang <;> cases src <;> cases cust <;> cases hd : deps.isEmpty <;>
    simp [encodeFields, fld, closed, topFields, hd, kModule, kLanguage, kSource, kDeps, kCustom,
      kDescription]

theorem decodeDep_encodeDep {sch : Schema} {d : Dep} (h : wfDep sch d = true) :
    decodeDep sch (encodeDep d) = .ok d := by
  obtain ⟨v, dflt, rw⟩ := d
  cases v with
  | nil => simp [wfDep] at h
  | cons a v' =>
    cases rw with
    | nil =>
      cases dflt <;>
        simp [decodeDep, encodeDep, fld, closed, depFields, depV, depDefault, depReplace, lookup,
          kV, kDefault, kReplaceWith]
    | cons b rw' =>
      have hs : sch = .v017 := by simpa [wfDep] using h
      subst hs
      cases dflt <;>
        simp [decodeDep, encodeDep, fld, closed, depFields, depV, depDefault, depReplace, lookup,
          kV, kDefault, kReplaceWith]

theorem decodeDepList_encodeDepList {sch : Schema} {ds : List (Str × Dep)}
    (h : ds.all (fun md => wfDep sch md.2) = true) :
    decodeDepList sch (encodeDepList ds) = .ok ds := by
  induction ds with
  | nil => rfl
  | cons hd tl ih =>
    obtain ⟨m, d⟩ := hd
    simp only [List.all_cons, Bool.and_eq_true] at h
    simp [encodeDepList, decodeDepList, decodeDep_encodeDep h.1, ih h.2]

theorem decodeCustomList_encodeCustomList (c : List (Str × Fields)) :
    decodeCustomList (encodeCustomList c) = .ok c := by
  induction c with
  | nil => rfl
  | cons hd tl ih =>
    obtain ⟨k, fs⟩ := hd
    simp [encodeCustomList, decodeCustomList, ih]

/-- `wf` as a proposition -/
def WF (L : Lib) (f : Modfile) : Prop := wf L f = true

/-- Parse (Format f) = f for every well-formed module file (all fields, any number of
dependencies incl. defaults and replaceWith, arbitrary custom data) -/
theorem decode_encode (L : Lib) (f : Modfile) (h : WF L f) : decode L (encode f) = .ok f := by
  obtain ⟨m, lang, src, deps, cust⟩ := f
  unfold WF wf at h
  cases lang with
  | none => simp at h
  | some lv =>
  simp only at h
  cases hs : chooseSchema L lv with
  | error e => simp [hs] at h
  | ok sch =>
  simp only [hs, Bool.and_eq_true] at h
  obtain ⟨⟨hsrc, hdeps⟩, hinit⟩ := h
  have hne := (chooseSchema_ok hs).1
  cases hi : init L ⟨m, some lv, src, deps, cust⟩ with
  | error e => simp [hi] at hinit
  | ok u =>
  -- language version
  have hbase : baseVersion (encodeFields ⟨m, some lv, src, deps, cust⟩) = .ok lv := by
    unfold baseVersion
    rw [lookup_encodeFields_language]
    cases lv with
    | nil => exact absurd rfl hne
    | cons a l => simp [encodeLanguage, fld, lookup]
  have hlang : checkLanguage (encodeFields ⟨m, some lv, src, deps, cust⟩) = .ok () := by
    unfold checkLanguage
    rw [lookup_encodeFields_language]
    cases lv with
    | nil => exact absurd rfl hne
    | cons a l => simp [encodeLanguage, fld, closed, languageFields]
  have hmod : decodeModule (encodeFields ⟨m, some lv, src, deps, cust⟩) = .ok m := by
    unfold decodeModule
    rw [lookup_encodeFields_module]
  have hsource : decodeSource sch (encodeFields ⟨m, some lv, src, deps, cust⟩) = .ok src := by
    unfold decodeSource
    rw [lookup_encodeFields_source]
    cases src with
    | none => rfl
    | some k =>
      simp only [wfSource, Bool.and_eq_true, bne_iff_ne, ne_eq, Bool.or_eq_true, beq_iff_eq] at hsrc
      simp [hsrc.1, hsrc.2, closed, sourceFields, lookup]
  have hdesc : checkDescription (encodeFields ⟨m, some lv, src, deps, cust⟩) = .ok () := by
    unfold checkDescription
    rw [lookup_encodeFields_description]
  have hdl : decodeDeps sch (encodeFields ⟨m, some lv, src, deps, cust⟩) = .ok deps := by
    unfold decodeDeps
    rw [lookup_encodeFields_deps]
    cases deps with
    | nil => rfl
    | cons d ds =>
      simp only [List.isEmpty_cons]
      exact decodeDepList_encodeDepList hdeps
  have hcust : decodeCustom (encodeFields ⟨m, some lv, src, deps, cust⟩) = .ok cust := by
    unfold decodeCustom
    rw [lookup_encodeFields_custom]
    cases cust with
    | none => rfl
    | some c => simp [decodeCustomList_encodeCustomList]
  simp [decode, encode, hbase, hs, decodeWith, closed_encodeFields, hlang, hmod, hsource, hdesc,
    hdl, hcust, hi]

/-! non-vacuity of `WF` (a TEST of satisfiability, not the property): module, language,
source, two dependencies (one default, one replaced), custom data -/
def exLib : Lib :=
  { current := [118, 48, 46, 49, 56, 46, 48]
    okMain := fun m => m == [102, 111, 111, 46, 99, 111, 109, 64, 118, 49]
    okDep := fun m _ => m == [98, 97, 114, 46, 99, 111, 109, 64, 118, 48] ||
      m == [98, 97, 122, 46, 111, 114, 103, 47, 120, 64, 118, 50] }

def exFile : Modfile :=
  { module := [102, 111, 111, 46, 99, 111, 109, 64, 118, 49]
    language := some [118, 48, 46, 49, 55, 46, 48]
    source := some kGit
    deps := [([98, 97, 114, 46, 99, 111, 109, 64, 118, 48], ⟨[118, 48, 46, 49, 46, 48], true, []⟩),
             ([98, 97, 122, 46, 111, 114, 103, 47, 120, 64, 118, 50],
               ⟨[118, 50, 46, 48, 46, 48, 45, 114, 99, 46, 49], false, [46, 47, 120]⟩)]
    custom := some [([108, 101, 103, 97, 99, 121],
      [([120], .list [.num 1, .str [120], .null, .struct [([120], .bool true)]])])] }

theorem exFile_wf : WF exLib exFile := by unfold WF; decide

example : decode exLib (encode exFile) = .ok exFile := decode_encode _ _ exFile_wf

/-! ### "rejected rather than dropped": FALSE for `description` -/

/-- every top-level field of an accepted tree (other than an empty struct, which denotes
the same File as its absence for `deps`) is still present after Format -/
def accepted_fields_kept_stmt : Prop :=
  ∀ (L : Lib) (top : Fields) (f : Modfile) (k : Str) (v : Val),
    decode L (.struct top) = .ok f → lookup k top = some v → v ≠ .struct [] →
    ∃ v', lookup k (encodeFields f) = some v'

def exDescTop : Fields :=
  [(kModule, .str [102, 111, 111, 46, 99, 111, 109, 64, 118, 49]),
   (kLanguage, .struct [(kVersion, .str [118, 48, 46, 49, 55, 46, 48])]),
   (kDescription, .str [120])]

/-- witness: `module: "foo.com@v1", language: version: "v0.17.0", description: "x"` is
accepted and the description is gone from the File (replayed on the implementation by
the harness, class `modfile-description-dropped`) -/
theorem accepted_fields_kept_false : ¬ accepted_fields_kept_stmt := by
  intro h
  have hd : decode exLib (.struct exDescTop) =
      .ok ⟨[102, 111, 111, 46, 99, 111, 109, 64, 118, 49], some [118, 48, 46, 49, 55, 46, 48],
        none, [], none⟩ := by rfl
  obtain ⟨v', hv'⟩ := h exLib exDescTop _ kDescription (.str [120]) hd rfl (by simp)
  rw [lookup_encodeFields_description] at hv'
  cases hv'

theorem decodeDepList_ne_nil {sch : Schema} {dfs : Fields} {ds : List (Str × Dep)}
    (h : decodeDepList sch dfs = .ok ds) (hne : dfs ≠ []) : ds.isEmpty = false := by
  cases dfs with
  | nil => exact absurd rfl hne
  | cons hd tl =>
    obtain ⟨m, dv⟩ := hd
    unfold decodeDepList at h
    cases h1 : decodeDep sch dv with
    | error e => simp [h1] at h
    | ok d0 =>
      cases h2 : decodeDepList sch tl with
      | error e => simp [h1, h2] at h
      | ok ds0 =>
        simp [h1, h2] at h
        subst h
        rfl

/-- every accepted top-level field other than `description` survives Format -/
theorem accepted_fields_kept_partial (L : Lib) (top : Fields) (f : Modfile) (k : Str) (v : Val)
    (h : decode L (.struct top) = .ok f) (hl : lookup k top = some v) (hv : v ≠ .struct [])
    (hk : k ≠ kDescription) : ∃ v', lookup k (encodeFields f) = some v' := by
  obtain ⟨top', lv, sch, ht, hb, hs, hw⟩ := decode_ok h
  cases ht
  obtain ⟨hcl, _, _, hsrc, _, hdeps, hcust, hlang, _⟩ := decodeWith_ok hw
  have hmem : ∀ (fs : Fields), lookup k fs = some v → (k, v) ∈ fs := by
    intro fs
    induction fs with
    | nil => intro h0; simp [lookup] at h0
    | cons hd tl ih =>
      obtain ⟨k0, v0⟩ := hd
      intro h0
      unfold lookup at h0
      by_cases hk0 : k0 = k
      · simp [hk0] at h0
        subst h0
        subst hk0
        exact List.mem_cons_self
      · simp [hk0] at h0
        exact List.mem_cons_of_mem _ (ih h0)
  have hin := closed_mem hcl (hmem top hl)
  simp only [topFields, List.mem_cons, List.not_mem_nil, or_false] at hin
  rcases hin with rfl | rfl | rfl | rfl | rfl | rfl
  · exact ⟨_, lookup_encodeFields_module f⟩
  · rw [lookup_encodeFields_language, hlang]
    exact ⟨_, rfl⟩
  · obtain ⟨sfs, k', _, _, _, _, ho, _⟩ := decodeSource_ok_some hl hsrc
    rw [lookup_encodeFields_source, ho]
    exact ⟨_, rfl⟩
  · exact absurd rfl hk
  · unfold decodeDeps at hdeps
    rw [hl] at hdeps
    cases v with
    | struct dfs =>
      have hne : dfs ≠ [] := fun e => hv (e ▸ rfl)
      have := decodeDepList_ne_nil hdeps hne
      rw [lookup_encodeFields_deps, this]
      exact ⟨_, rfl⟩
    | str s => simp at hdeps
    | bool b => simp at hdeps
    | null => simp at hdeps
    | num n => simp at hdeps
    | list vs => simp at hdeps
  · unfold decodeCustom at hcust
    rw [hl] at hcust
    cases v with
    | struct cfs =>
      cases h2 : decodeCustomList cfs with
      | error e => simp [h2] at hcust
      | ok cs =>
        simp [h2] at hcust
        rw [lookup_encodeFields_custom, ← hcust]
        exact ⟨_, rfl⟩
    | str s => simp at hcust
    | bool b => simp at hcust
    | null => simp at hcust
    | num n => simp at hcust
    | list vs => simp at hcust

/-! ### schema choice: TESTS on sample versions (the gate theorems above are stated for an
arbitrary language version through `pickSchema`) -/
example : pickSchema [118, 48, 46, 55, 46, 48] = none := by decide                       -- v0.7.0
example : pickSchema ver08 = some .v08 := by decide                                      -- v0.8.0-alpha.0
example : pickSchema [118, 48, 46, 56, 46, 50] = some .v08 := by decide                  -- v0.8.2
example : pickSchema ver09 = some .v09 := by decide                                      -- v0.9.0-alpha.0
example : pickSchema [118, 48, 46, 49, 54, 46, 57] = some .v09 := by decide              -- v0.16.9
example : pickSchema [118, 48, 46, 49, 55, 46, 48, 45, 48] = some .v09 := by decide      -- v0.17.0-0
example : pickSchema ver017 = some .v017 := by decide                                    -- v0.17.0
example : pickSchema [118, 49, 46, 50, 46, 51] = some .v017 := by decide                 -- v1.2.3

end CueVerif.Modfile
