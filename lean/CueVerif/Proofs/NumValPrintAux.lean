/-
C06 helper lemmas for Proofs/NumValPrint.lean (printing a number and reading the text back):
digits of a natural number, Horner evaluation, `takeDigits` / `readParts` on the printed shapes,
acceptance of the printed shapes by C09's model of `literal.ParseNum`.  Core Lean only.
-/
import CueVerif.Model.NumVal
import CueVerif.Spec.Arith
import CueVerif.Proofs.NumLit
namespace CueVerif.Proofs.NumValPrintAux
open CueVerif CueVerif.Arith CueVerif.NumVal CueVerif.Spec.Arith

/-! ### digits -/

theorem digitsAux_spec (n : Nat) :
    ∀ fuel acc, n < fuel → digitsAux fuel n acc = digitsOf n ++ acc := by
  induction n using Nat.strongRecOn with
  | _ n ih =>
    have key : ∀ fuel acc, n < fuel → digitsAux fuel n acc =
        (if n < 10 then [48 + n] else digitsOf (n / 10) ++ [48 + n % 10]) ++ acc := by
      intro fuel acc hf
      cases fuel with
      | zero => omega
      | succ f =>
        unfold digitsAux
        by_cases h : n < 10
        · simp [h]
        · have hlt : n / 10 < n := by omega
          simp only [h, ↓reduceIte]
          rw [ih (n / 10) hlt f _ (by omega)]
          simp
    intro fuel acc hf
    rw [key fuel acc hf]
    unfold digitsOf
    rw [key (n + 1) [] (by omega)]
    simp [digitsOf]

theorem digitsOf_lt {n : Nat} (h : n < 10) : digitsOf n = [48 + n] := by
  unfold digitsOf digitsAux
  simp [h]

theorem digitsOf_ge {n : Nat} (h : 10 ≤ n) : digitsOf n = digitsOf (n / 10) ++ [48 + n % 10] := by
  have h' : ¬ n < 10 := by omega
  conv => lhs; unfold digitsOf digitsAux
  simp only [h', ↓reduceIte]
  rw [digitsAux_spec (n / 10) n _ (by omega)]

theorem numDigitsAux_spec (n : Nat) :
    ∀ fuel, n ≤ fuel → Dec.numDigitsAux fuel n = Dec.numDigits n := by
  induction n using Nat.strongRecOn with
  | _ n ih =>
    have key : ∀ fuel, n ≤ fuel → Dec.numDigitsAux fuel n =
        (if n < 10 then 1 else 1 + Dec.numDigits (n / 10)) := by
      intro fuel hf
      cases fuel with
      | zero =>
        have : n = 0 := by omega
        subst this; rfl
      | succ f =>
        unfold Dec.numDigitsAux
        by_cases h : n < 10
        · simp [h]
        · have hlt : n / 10 < n := by omega
          simp only [h, ↓reduceIte]
          rw [ih (n / 10) hlt f (by omega)]
    intro fuel hf
    rw [key fuel hf]
    unfold Dec.numDigits
    rw [key n (Nat.le_refl _)]
    rfl

theorem numDigits_lt {n : Nat} (h : n < 10) : Dec.numDigits n = 1 := by
  unfold Dec.numDigits
  cases n with
  | zero => rfl
  | succ k => unfold Dec.numDigitsAux; simp [h]

theorem numDigits_ge {n : Nat} (h : 10 ≤ n) : Dec.numDigits n = 1 + Dec.numDigits (n / 10) := by
  have h' : ¬ n < 10 := by omega
  conv => lhs; unfold Dec.numDigits
  cases n with
  | zero => omega
  | succ k =>
    unfold Dec.numDigitsAux
    simp only [h', ↓reduceIte]
    rw [numDigitsAux_spec _ k (by omega)]

theorem foldl_horner (b : List Nat) (acc : Nat) :
    b.foldl (fun acc c => acc * 10 + NumLit.digitVal c) acc =
      acc * 10 ^ b.length + b.foldl (fun acc c => acc * 10 + NumLit.digitVal c) 0 := by
  induction b generalizing acc with
  | nil => simp
  | cons c t ih =>
    simp only [List.foldl_cons, List.length_cons]
    rw [ih (acc * 10 + NumLit.digitVal c), ih (0 * 10 + NumLit.digitVal c)]
    simp only [Nat.zero_mul, Nat.zero_add, Nat.pow_succ, Nat.add_mul]
    rw [Nat.add_assoc, Nat.mul_assoc, Nat.mul_comm 10]

theorem horner_append (a b : List Nat) :
    horner 10 (a ++ b) = horner 10 a * 10 ^ b.length + horner 10 b := by
  unfold horner
  rw [List.foldl_append, foldl_horner]

theorem horner_snoc (l : List Nat) (c : Nat) :
    horner 10 (l ++ [c]) = horner 10 l * 10 + NumLit.digitVal c := by
  rw [horner_append]
  simp [horner]

theorem digitVal_digit {d : Nat} (h : d < 10) : NumLit.digitVal (48 + d) = d := by
  unfold NumLit.digitVal
  rw [if_pos (by omega)]
  omega

/-- reading back the decimal digits of a natural number -/
theorem horner_digitsOf (n : Nat) : horner 10 (digitsOf n) = n := by
  induction n using Nat.strongRecOn with
  | _ n ih =>
    by_cases h : n < 10
    · rw [digitsOf_lt h]
      simp [horner, digitVal_digit h]
    · rw [digitsOf_ge (by omega), horner_snoc, ih (n / 10) (by omega),
        digitVal_digit (Nat.mod_lt _ (by decide))]
      omega

theorem digitsOf_length (n : Nat) : (digitsOf n).length = Dec.numDigits n := by
  induction n using Nat.strongRecOn with
  | _ n ih =>
    by_cases h : n < 10
    · rw [digitsOf_lt h, numDigits_lt h]; rfl
    · rw [digitsOf_ge (by omega), numDigits_ge (by omega), List.length_append,
        ih (n / 10) (by omega)]
      simp [Nat.add_comm]

theorem digitsOf_allDec (n : Nat) : (digitsOf n).all NumLit.isDec = true := by
  induction n using Nat.strongRecOn with
  | _ n ih =>
    by_cases h : n < 10
    · rw [digitsOf_lt h]
      simp [NumLit.isDec]; omega
    · rw [digitsOf_ge (by omega), List.all_append, ih (n / 10) (by omega)]
      have := Nat.mod_lt n (show 0 < 10 by decide)
      simp [NumLit.isDec]; omega

/-- the first digit: `digitsOf n = c :: ds` with `c` non-zero when `n > 0` -/
theorem digitsOf_head (n : Nat) (hn : 0 < n) :
    ∃ c ds, digitsOf n = c :: ds ∧ 49 ≤ c ∧ c ≤ 57 := by
  induction n using Nat.strongRecOn with
  | _ n ih =>
    by_cases h : n < 10
    · exact ⟨48 + n, [], digitsOf_lt h, by omega, by omega⟩
    · obtain ⟨c, ds, hd, hc⟩ := ih (n / 10) (by omega) (by omega)
      exact ⟨c, ds ++ [48 + n % 10], by rw [digitsOf_ge (by omega), hd]; rfl, hc⟩

theorem digitsOf_zero : digitsOf 0 = [48] := rfl

/-! ### reading: `takeDigits`, `readParts`, `litExp` -/

/-- the rest after a run of digits: end of input, or a byte that is neither a digit nor `_` -/
def StopHead (r : List Nat) : Prop :=
  r = [] ∨ ∃ c t, r = c :: t ∧ NumLit.isDec c = false ∧ c ≠ 95

theorem takeDigits_digits (ds r : List Nat) (hds : ds.all NumLit.isDec = true) (hr : StopHead r) :
    takeDigits (ds ++ r) = (ds, r) := by
  induction ds with
  | nil =>
    rcases hr with rfl | ⟨c, t, rfl, h1, h2⟩
    · rfl
    · simp [takeDigits, h1, h2]
  | cons d ds ih =>
    simp only [List.all_cons, Bool.and_eq_true] at hds
    simp [takeDigits, hds.1, ih hds.2]

theorem takeDigits_all (ds : List Nat) (hds : ds.all NumLit.isDec = true) :
    takeDigits ds = (ds, []) := by
  have := takeDigits_digits ds [] hds (Or.inl rfl)
  simpa using this

theorem readParts_int (ip : List Nat) (hi : ip.all NumLit.isDec = true) :
    readParts ip = { intDs := ip } := by
  unfold readParts
  rw [takeDigits_all ip hi]

theorem readParts_frac (ip fp : List Nat) (hi : ip.all NumLit.isDec = true)
    (hf : fp.all NumLit.isDec = true) :
    readParts (ip ++ 46 :: fp) = { intDs := ip, fracDs := fp } := by
  unfold readParts
  rw [takeDigits_digits ip (46 :: fp) hi (Or.inr ⟨46, fp, rfl, by decide, by decide⟩)]
  simp only
  rw [takeDigits_all fp hf]

theorem readParts_exp (ip fp E : List Nat) (mk sg : Nat) (hi : ip.all NumLit.isDec = true)
    (hf : fp.all NumLit.isDec = true) (hE : E.all NumLit.isDec = true)
    (hmk : mk = 101 ∨ mk = 69) (hsg : sg = 43 ∨ sg = 45) :
    readParts (ip ++ 46 :: (fp ++ mk :: sg :: E)) =
      { intDs := ip, fracDs := fp, hasExp := true, expNeg := sg == 45, expDs := E } := by
  unfold readParts
  rw [takeDigits_digits ip (46 :: (fp ++ mk :: sg :: E)) hi
    (Or.inr ⟨46, _, rfl, by decide, by decide⟩)]
  simp only
  rw [takeDigits_digits fp (mk :: sg :: E) hf
    (Or.inr ⟨mk, _, rfl, by rcases hmk with rfl | rfl <;> decide,
      by rcases hmk with rfl | rfl <;> decide⟩)]
  rcases hmk with rfl | rfl <;> rcases hsg with rfl | rfl <;> simp [takeDigits_all E hE]

theorem readParts_exp0 (ip E : List Nat) (mk sg : Nat) (hi : ip.all NumLit.isDec = true)
    (hE : E.all NumLit.isDec = true)
    (hmk : mk = 101 ∨ mk = 69) (hsg : sg = 43 ∨ sg = 45) :
    readParts (ip ++ mk :: sg :: E) =
      { intDs := ip, fracDs := [], hasExp := true, expNeg := sg == 45, expDs := E } := by
  unfold readParts
  rw [takeDigits_digits ip (mk :: sg :: E) hi
    (Or.inr ⟨mk, _, rfl, by rcases hmk with rfl | rfl <;> decide,
      by rcases hmk with rfl | rfl <;> decide⟩)]
  rcases hmk with rfl | rfl <;> rcases hsg with rfl | rfl <;> simp [takeDigits_all E hE]

/-- no exponent part, integer spelling: the exponent is 0, provided the number of digits is
inside the window (at most 100001 digits) -/
theorem litExp_int (coeff : Nat) (e : Int) (h : (Dec.numDigits coeff : Int) - 1 ≤ maxExp) :
    litExp coeff false e 0 = some 0 := by
  unfold litExp
  unfold maxExp at *
  simp only [Bool.false_and, Bool.false_eq_true, ↓reduceIte]
  rw [if_neg (by simp), if_neg (by simp; omega)]
  simp

theorem litExp_noexp (coeff fl : Nat) (e : Int) (h1 : (fl : Int) ≤ maxExp)
    (h2 : -maxExp ≤ -(fl : Int) + (Dec.numDigits coeff : Int) - 1)
    (h3 : -(fl : Int) + (Dec.numDigits coeff : Int) - 1 ≤ maxExp) :
    litExp coeff false e fl = some (-(fl : Int)) := by
  unfold litExp
  unfold maxExp at *
  simp only [Bool.false_and, Bool.false_eq_true, ↓reduceIte]
  rw [if_neg (by simp; omega), if_neg (by simp; omega)]
  simp

theorem litExp_exp (coeff fl : Nat) (e : Int) (he1 : -maxExp ≤ e) (he2 : e ≤ maxExp)
    (h1 : (fl : Int) ≤ maxExp)
    (h2 : -maxExp ≤ e - (fl : Int) + (Dec.numDigits coeff : Int) - 1)
    (h3 : e - (fl : Int) + (Dec.numDigits coeff : Int) - 1 ≤ maxExp) :
    litExp coeff true e fl = some (e - (fl : Int)) := by
  unfold litExp
  unfold maxExp at *
  rw [if_neg (by simp; omega)]
  simp only [↓reduceIte]
  rw [if_neg (by simp; omega), if_neg (by simp; omega)]
  simp; omega

/-! ### `readValue` on the printed shapes -/

theorem readValue_ne48 (k : NumLit.Kind) (c : Nat) (t : List Nat) (hc : c ≠ 48) :
    readValue k (c :: t) = decValue k (readParts (c :: t)) := by
  unfold readValue
  split <;> first
    | (rename_i heq; simp only [List.cons.injEq] at heq; exact absurd heq.1 hc)
    | rfl

theorem readValue_zero (k : NumLit.Kind) (b : Nat) (t : List Nat)
    (hb : b ≠ 120 ∧ b ≠ 88 ∧ b ≠ 98 ∧ b ≠ 111) :
    readValue k (48 :: b :: t) = decValue k (readParts (48 :: b :: t)) := by
  unfold readValue
  split <;> first
    | (rename_i heq; simp only [List.cons.injEq] at heq; omega)
    | rfl

theorem readValue_zero1 (k : NumLit.Kind) : readValue k [48] = decValue k (readParts [48]) := rfl

section Accept
open CueVerif.NumLit

/-! ### acceptance of the printed shapes by `literal.ParseNum` (C09's model) -/

/-- `lMant_digits` with a more general stop byte -/
theorem lMant_digits' (last : Nat) (ds rest : List Nat) (hl : last ≠ 95)
    (hds : ds.all isDec = true)
    (hrest : rest = [] ∨ ∃ c t, rest = c :: t ∧ ¬ digitVal c < 10 ∧ c ≠ 0) :
    lMant 10 last (ds ++ rest) = (rest, !ds.isEmpty, false) := by
  have hl' : (last == 95) = false := by simpa using hl
  induction ds generalizing last with
  | nil =>
    rcases hrest with rfl | ⟨c, t, rfl, hc, -⟩
    · simp [lMant, hl']
    · simp [lMant_stop 10 last c t hc, hl']
  | cons d ds ih =>
    simp only [List.all_cons, Bool.and_eq_true] at hds
    have hd := isDec_iff.mp hds.1
    have hd95 : d ≠ 95 := by omega
    have hd95' : (d == 95) = false := by simpa using hd95
    have hnext : nulErr (ds ++ rest) = false := by
      cases ds with
      | nil =>
        rcases hrest with rfl | ⟨c, t, rfl, -, hc0⟩
        · rfl
        · exact nulErr_cons_ne hc0
      | cons e es =>
        simp only [List.all_cons, Bool.and_eq_true] at hds
        have := isDec_iff.mp hds.2.1
        exact nulErr_cons_ne (by omega)
    rw [List.cons_append, lMant, if_pos (digitVal_dec hds.1), ih d hd95 hds.2 (by simpa using hd95)]
    simp [hd95', hd95, hnext]

theorem lMant_all (ds : List Nat) (hds : ds.all isDec = true) :
    lMant 10 0 ds = ([], !ds.isEmpty, false) := by
  have := lMant_digits' 0 ds [] (by decide) hds (Or.inl rfl)
  simpa using this

theorem nulErr_digits (ds : List Nat) (hds : ds.all isDec = true) : nulErr ds = false := by
  cases ds with
  | nil => rfl
  | cons f t =>
    simp only [List.all_cons, Bool.and_eq_true] at hds
    have := isDec_iff.mp hds.1
    exact nulErr_cons_ne (by omega)

theorem parseNumUnsigned_dec (c : Nat) (t : List Nat) (hc : isDec c = true) :
    parseNumUnsigned (c :: t) = parseNum (c :: t) := by
  have := isDec_iff.mp hc
  have h45 : (c == 45) = false := by simp only [beq_eq_false_iff_ne]; omega
  have h43 : (c == 43) = false := by simp only [beq_eq_false_iff_ne]; omega
  simp [parseNumUnsigned, h45, h43]

/-- the exponent part `e±ddd` / `E±ddd` -/
theorem lExponent_exp (fl : Bool) (mk sg : Nat) (E : List Nat) (hmk : mk = 101 ∨ mk = 69)
    (hsg : sg = 43 ∨ sg = 45) (hE : E.all isDec = true) (hne : E ≠ []) :
    lExponent fl (mk :: sg :: E) false = some (true, [], false) := by
  have hn := nulErr_digits E hE
  have hm := lMant_all E hE
  have hne' : E.isEmpty = false := by cases E <;> simp_all
  rcases hmk with rfl | rfl <;> rcases hsg with rfl | rfl <;>
    simp [lExponent, isMul, lSign, lExpDigits, hm, hn, hne', lExit, nulErr_cons_ne]

theorem lFraction_exp (fl : Bool) (mk sg : Nat) (E : List Nat) (hmk : mk = 101 ∨ mk = 69)
    (hsg : sg = 43 ∨ sg = 45) (hE : E.all isDec = true) (hne : E ≠ []) :
    lFraction fl (mk :: sg :: E) false = some (true, [], false) := by
  have h := lExponent_exp fl mk sg E hmk hsg hE hne
  have h46 : (mk == 46) = false := by rcases hmk with rfl | rfl <;> decide
  simp [lFraction, h46, h]

theorem lFraction_dot_exp (fl : Bool) (fs : List Nat) (mk sg : Nat) (E : List Nat)
    (hfs : fs.all isDec = true) (hmk : mk = 101 ∨ mk = 69)
    (hsg : sg = 43 ∨ sg = 45) (hE : E.all isDec = true) (hne : E ≠ []) :
    lFraction fl (46 :: (fs ++ mk :: sg :: E)) false = some (true, [], false) := by
  have h := lExponent_exp true mk sg E hmk hsg hE hne
  have hmkv : ¬ digitVal mk < 10 ∧ mk ≠ 0 := by rcases hmk with rfl | rfl <;> decide
  have hm := lMant_digits' 0 fs (mk :: sg :: E) (by decide) hfs
    (Or.inr ⟨mk, _, rfl, hmkv.1, hmkv.2⟩)
  have hn : nulErr (fs ++ mk :: sg :: E) = false := by
    cases fs with
    | nil => exact nulErr_cons_ne hmkv.2
    | cons f t =>
      simp only [List.all_cons, Bool.and_eq_true] at hfs
      have := isDec_iff.mp hfs.1
      exact nulErr_cons_ne (by omega)
  simp [lFraction, hm, hn, h]

/-- `ddd` : INT -/
theorem acc_int (c : Nat) (ds : List Nat) (hc : 49 ≤ c ∧ c ≤ 57) (hds : ds.all isDec = true) :
    parseNumUnsigned (c :: ds) = some .int := by
  rw [parseNumUnsigned_dec c ds (isDec_iff.mpr ⟨by omega, hc.2⟩)]
  exact (decimal_lit_accepted c ds hc hds).1

theorem acc_zero : parseNumUnsigned [48] = some .int := by decide

/-- `ddd.ddd` : FLOAT -/
theorem acc_frac (c : Nat) (ds fs : List Nat) (hc : 49 ≤ c ∧ c ≤ 57)
    (hds : ds.all isDec = true) (hfs : fs.all isDec = true) (hne : fs ≠ []) :
    parseNumUnsigned (c :: ds ++ 46 :: fs) = some .float := by
  rw [List.cons_append, parseNumUnsigned_dec c _ (isDec_iff.mpr ⟨by omega, hc.2⟩)]
  exact (simple_float_accepted c ds fs hc hds hfs hne).1

/-- `0.ddd` : FLOAT -/
theorem acc_zero_frac (fs : List Nat) (hfs : fs.all isDec = true) (hne : fs ≠ []) :
    parseNumUnsigned (48 :: 46 :: fs) = some .float := by
  rw [parseNumUnsigned_dec 48 _ (by decide), parseNum_dec 48 _ (by decide)]
  have hstop := lMant_stop 10 0 46 fs (by decide)
  have hm := lMant_all fs hfs
  have hn := nulErr_digits fs hfs
  have hne' : fs.isEmpty = false := by cases fs <;> simp_all
  simp [lScanNumber, hstop, lZeroTail, lFraction, hm, hn, lExponent, isMul, lExit, accL, kindOf,
    nulErr_cons_ne]

/-- `d[.ddd]e±ddd` with a non-zero leading digit : FLOAT -/
theorem acc_sci (c : Nat) (tail : List Nat) (hc : 49 ≤ c ∧ c ≤ 57)
    (h46 : ∃ x t, tail = x :: t ∧ ¬ digitVal x < 10 ∧ x ≠ 0)
    (hfr : lFraction false tail false = some (true, [], false)) :
    parseNumUnsigned (c :: tail) = some .float := by
  have hcd : isDec c = true := isDec_iff.mpr ⟨by omega, hc.2⟩
  have h48 : (c == 48) = false := by simp only [beq_eq_false_iff_ne]; omega
  rw [parseNumUnsigned_dec c _ hcd, parseNum_dec c _ hcd]
  have hm := lMant_digits' 0 [c] tail (by decide) (by simp [hcd]) (Or.inr h46)
  rw [List.singleton_append] at hm
  simp [lScanNumber, h48, hm, hfr, accL, kindOf]

/-- `0e±ddd` : FLOAT -/
theorem acc_zero_sci (mk sg : Nat) (E : List Nat) (hmk : mk = 101 ∨ mk = 69)
    (hsg : sg = 43 ∨ sg = 45) (hE : E.all isDec = true) (hne : E ≠ []) :
    parseNumUnsigned (48 :: mk :: sg :: E) = some .float := by
  rw [parseNumUnsigned_dec 48 _ (by decide), parseNum_dec 48 _ (by decide)]
  have hfr := lFraction_exp false mk sg E hmk hsg hE hne
  have hmkv : ¬ digitVal mk < 10 ∧ mk ≠ 0 := by rcases hmk with rfl | rfl <;> decide
  have hstop := lMant_stop 10 0 mk (sg :: E) hmkv.1
  rcases hmk with rfl | rfl <;>
    simp [lScanNumber, hstop, lZeroTail, hfr, accL, kindOf, nulErr_cons_ne]

end Accept

/-! ### values -/

theorem toRat_neg (d : Dec) : toRat (Dec.neg d) = - toRat d := by
  simp [toRat, Dec.neg, Rat.intCast_neg, Rat.neg_mul]

theorem toRat_dot0 (m : Nat) : toRat ⟨((m * 10 : Nat) : Int), -1⟩ = toRat ⟨(m : Int), 0⟩ := by
  simp only [toRat]
  have h : ((10 : Rat)) * (10 : Rat) ^ (-1 : Int) = 1 := by
    rw [Rat.zpow_neg, Rat.zpow_one]
    exact Rat.mul_inv_cancel _ (by decide)
  have hc : (((m * 10 : Nat) : Int) : Rat) = ((m : Int) : Rat) * 10 := by
    rw [Int.natCast_mul, Rat.intCast_mul]; rfl
  rw [hc, Rat.mul_assoc, h, Rat.zpow_zero]

theorem toRat_of_neg (c x : Int) (hc : c < 0) :
    toRat ⟨c, x⟩ = - toRat ⟨(c.natAbs : Int), x⟩ := by
  have : c = -(c.natAbs : Int) := by omega
  rw [← toRat_neg]
  simp only [Dec.neg]
  rw [← this]

theorem numDigits_pos (n : Nat) : 1 ≤ Dec.numDigits n := by
  by_cases h : n < 10
  · rw [numDigits_lt h]; exact Nat.le_refl _
  · rw [numDigits_ge (by omega)]; omega

theorem numDigits_mul10 (m : Nat) : Dec.numDigits (m * 10) ≤ 1 + Dec.numDigits m := by
  by_cases hm : m = 0
  · subst hm; decide
  · rw [numDigits_ge (by omega), Nat.mul_div_cancel m (by decide)]
    exact Nat.le_refl _

theorem horner_zeros (j : Nat) : horner 10 (zeros j) = 0 := by
  induction j with
  | zero => rfl
  | succ j ih =>
    have : zeros (j + 1) = zeros j ++ [48] := by
      simp [zeros, List.replicate_succ']
    rw [this, horner_snoc, ih]
    rfl

theorem zeros_allDec (j : Nat) : (zeros j).all NumLit.isDec = true := by
  simp [zeros, List.all_replicate, NumLit.isDec]

/-! ### the printed shapes read back -/

theorem decValue_plain (k : NumLit.Kind) (ip fp E : List Nat) (he hn : Bool) (x : Int)
    (h : litExp (horner 10 (ip ++ fp)) he
      (if hn then -(horner 10 E : Int) else (horner 10 E : Int)) fp.length = some x) :
    decValue k { intDs := ip, fracDs := fp, hasExp := he, expNeg := hn, expDs := E } =
      .ok ⟨k, ⟨(horner 10 (ip ++ fp) : Nat), x⟩⟩ := by
  unfold decValue
  simp only [h]

theorem readValue_digitsOf (k : NumLit.Kind) (m : Nat) (r : List Nat)
    (hr : r = [] ∨ ∃ b t, r = b :: t ∧ b ≠ 120 ∧ b ≠ 88 ∧ b ≠ 98 ∧ b ≠ 111) :
    readValue k (digitsOf m ++ r) = decValue k (readParts (digitsOf m ++ r)) := by
  by_cases hm : m = 0
  · subst hm
    rw [digitsOf_zero]
    rcases hr with rfl | ⟨b, t, rfl, hb⟩
    · rfl
    · exact readValue_zero k b t hb
  · obtain ⟨c, ds, hd, hc⟩ := digitsOf_head m (by omega)
    rw [hd]
    exact readValue_ne48 k c _ (by omega)

theorem litValue_of (s : List Nat) (k : NumLit.Kind) (r : LitRes)
    (hacc : NumLit.parseNumUnsigned s = some k) (hv : readValue k s = r) : litValue s = r := by
  unfold litValue
  rw [hacc]
  exact hv

/-- plain digits: an int with exponent 0 -/
theorem lit_int (m : Nat) (hL : (Dec.numDigits m : Int) - 1 ≤ maxExp) :
    litValue (digitsOf m) = .ok ⟨.int, ⟨(m : Int), 0⟩⟩ := by
  have hacc : NumLit.parseNumUnsigned (digitsOf m) = some .int := by
    by_cases hm : m = 0
    · subst hm; exact acc_zero
    · obtain ⟨c, ds, hd, hc⟩ := digitsOf_head m (by omega)
      have hall := digitsOf_allDec m
      rw [hd] at hall ⊢
      simp only [List.all_cons, Bool.and_eq_true] at hall
      exact acc_int c ds hc hall.2
  have hrv := readValue_digitsOf .int m [] (Or.inl rfl)
  rw [List.append_nil] at hrv
  apply litValue_of _ .int _ hacc
  rw [hrv, readParts_int _ (digitsOf_allDec m)]
  have := decValue_plain .int (digitsOf m) [] [] false false 0 (by
    have := litExp_int (horner 10 (digitsOf m ++ [])) (horner 10 [] : Int)
      (by rw [List.append_nil, horner_digitsOf]; exact hL)
    simpa using this)
  simpa [horner_digitsOf] using this

/-- digits followed by `.0` -/
theorem lit_dot0 (m : Nat) (hL : (Dec.numDigits m : Int) ≤ maxExp) :
    litValue (digitsOf m ++ [46, 48]) = .ok ⟨.float, ⟨((m * 10 : Nat) : Int), -1⟩⟩ := by
  have hall := digitsOf_allDec m
  have hacc : NumLit.parseNumUnsigned (digitsOf m ++ [46, 48]) = some .float := by
    by_cases hm : m = 0
    · subst hm; exact acc_zero_frac [48] (by decide) (by decide)
    · obtain ⟨c, ds, hd, hc⟩ := digitsOf_head m (by omega)
      rw [hd] at hall ⊢
      simp only [List.all_cons, Bool.and_eq_true] at hall
      exact acc_frac c ds [48] hc hall.2 (by decide) (by decide)
  have hrv := readValue_digitsOf .float m [46, 48]
    (Or.inr ⟨46, [48], rfl, by decide, by decide, by decide, by decide⟩)
  apply litValue_of _ .float _ hacc
  rw [hrv, readParts_frac _ [48] hall (by decide)]
  have hh : horner 10 (digitsOf m ++ [48]) = m * 10 := by
    rw [horner_snoc, horner_digitsOf]; rfl
  have h1 := numDigits_pos (m * 10)
  have h2 := numDigits_mul10 m
  have := decValue_plain .float (digitsOf m) [48] [] false false (-1) (by
    rw [hh]
    have := litExp_noexp (m * 10) 1 (if false = true then -(horner 10 [] : Int) else (horner 10 [] : Int))
      (by unfold maxExp; omega) (by unfold maxExp at *; omega) (by unfold maxExp at *; omega)
    simpa using this)
  rw [hh] at this
  exact this


/-- `0.ddd` -/
theorem lit_zero_frac (fs : List Nat) (m : Nat) (x : Int) (hfs : fs.all NumLit.isDec = true)
    (hne : fs ≠ []) (hh : horner 10 fs = m) (hl : x = -(fs.length : Int))
    (w1 : -maxExp ≤ x + (Dec.numDigits m : Int) - 1) (w2 : x + (Dec.numDigits m : Int) - 1 ≤ maxExp)
    (w3 : -maxExp ≤ x) :
    litValue (48 :: 46 :: fs) = .ok ⟨.float, ⟨(m : Int), x⟩⟩ := by
  apply litValue_of _ .float _ (acc_zero_frac _ hfs hne)
  rw [readValue_zero _ 46 _ (by decide)]
  have hp := readParts_frac [48] fs (by decide) hfs
  rw [List.singleton_append] at hp
  rw [hp]
  have hh' : horner 10 ([48] ++ fs) = m := by
    rw [horner_append, hh]; simp [horner, NumLit.digitVal]
  have := decValue_plain .float [48] fs [] false false x (by
    rw [hh']
    have := litExp_noexp m fs.length
      (if false = true then -(horner 10 [] : Int) else (horner 10 [] : Int))
      (by omega) (by omega) (by omega)
    rw [this, hl])
  rw [hh'] at this
  exact this

/-- `ddd.ddd` -/
theorem lit_frac (c : Nat) (ds fs : List Nat) (m : Nat) (x : Int) (hc : 49 ≤ c ∧ c ≤ 57)
    (hds : ds.all NumLit.isDec = true) (hfs : fs.all NumLit.isDec = true)
    (hne : fs ≠ []) (hh : horner 10 (c :: ds ++ fs) = m) (hl : x = -(fs.length : Int))
    (w1 : -maxExp ≤ x + (Dec.numDigits m : Int) - 1) (w2 : x + (Dec.numDigits m : Int) - 1 ≤ maxExp)
    (w3 : -maxExp ≤ x) :
    litValue (c :: ds ++ 46 :: fs) = .ok ⟨.float, ⟨(m : Int), x⟩⟩ := by
  apply litValue_of _ .float _ (acc_frac c ds fs hc hds hfs hne)
  rw [List.cons_append, readValue_ne48 _ c _ (by omega), ← List.cons_append]
  have hcd : NumLit.isDec c = true := NumLit.isDec_iff.mpr ⟨by omega, hc.2⟩
  rw [readParts_frac (c :: ds) fs (by simp [hcd, hds]) hfs]
  have := decValue_plain .float (c :: ds) fs [] false false x (by
    rw [hh]
    have := litExp_noexp m fs.length
      (if false = true then -(horner 10 [] : Int) else (horner 10 [] : Int))
      (by omega) (by omega) (by omega)
    rw [this, hl])
  rw [hh] at this
  exact this

/-- the written exponent -/
def expVal (sg : Nat) (E : List Nat) : Int :=
  if (sg == 45) = true then -(horner 10 E : Int) else (horner 10 E : Int)

/-- `de±ddd` with a single digit `d` -/
theorem lit_sci1 (m mk sg : Nat) (E : List Nat) (hm : m < 10) (hmk : mk = 101 ∨ mk = 69)
    (hsg : sg = 43 ∨ sg = 45) (hE : E.all NumLit.isDec = true) (hne : E ≠ [])
    (w1 : -maxExp ≤ expVal sg E) (w2 : expVal sg E ≤ maxExp) :
    litValue ((48 + m) :: mk :: sg :: E) = .ok ⟨.float, ⟨(m : Int), expVal sg E⟩⟩ := by
  have hD : digitsOf m = [48 + m] := digitsOf_lt hm
  have hmkv : ¬ NumLit.digitVal mk < 10 ∧ mk ≠ 0 ∧ mk ≠ 120 ∧ mk ≠ 88 ∧ mk ≠ 98 ∧ mk ≠ 111 := by
    rcases hmk with rfl | rfl <;> decide
  have hacc : NumLit.parseNumUnsigned ((48 + m) :: mk :: sg :: E) = some .float := by
    by_cases h0 : m = 0
    · subst h0; exact acc_zero_sci mk sg E hmk hsg hE hne
    · exact acc_sci (48 + m) _ (by omega) ⟨mk, _, rfl, hmkv.1, hmkv.2.1⟩
        (lFraction_exp false mk sg E hmk hsg hE hne)
  apply litValue_of _ .float _ hacc
  have hrv := readValue_digitsOf .float m (mk :: sg :: E)
    (Or.inr ⟨mk, _, rfl, hmkv.2.2⟩)
  rw [hD, List.singleton_append] at hrv
  rw [hrv]
  have hall : [48 + m].all NumLit.isDec = true := by rw [← hD]; exact digitsOf_allDec m
  have hp := readParts_exp0 [48 + m] E mk sg hall hE hmk hsg
  rw [List.singleton_append] at hp
  rw [hp]
  have hh : horner 10 ([48 + m] ++ []) = m := by
    rw [List.append_nil, ← hD]; exact horner_digitsOf m
  have hnd : Dec.numDigits m = 1 := numDigits_lt hm
  have := decValue_plain .float [48 + m] [] E true (sg == 45) (expVal sg E) (by
    rw [hh]
    have := litExp_exp m 0 (expVal sg E) w1 w2 (by unfold maxExp; omega)
      (by rw [hnd]; omega) (by rw [hnd]; omega)
    simpa [expVal] using this)
  rw [hh] at this
  exact this

/-- `d.ddde±ddd` -/
theorem lit_sci2 (c mk sg : Nat) (ds E : List Nat) (m : Nat) (hc : 49 ≤ c ∧ c ≤ 57)
    (hds : ds.all NumLit.isDec = true) (hmk : mk = 101 ∨ mk = 69)
    (hsg : sg = 43 ∨ sg = 45) (hE : E.all NumLit.isDec = true) (hne : E ≠ [])
    (hh : horner 10 (c :: ds) = m)
    (w1 : -maxExp ≤ expVal sg E) (w2 : expVal sg E ≤ maxExp) (w3 : (ds.length : Int) ≤ maxExp)
    (w4 : -maxExp ≤ expVal sg E - (ds.length : Int) + (Dec.numDigits m : Int) - 1)
    (w5 : expVal sg E - (ds.length : Int) + (Dec.numDigits m : Int) - 1 ≤ maxExp) :
    litValue (c :: 46 :: (ds ++ mk :: sg :: E)) =
      .ok ⟨.float, ⟨(m : Int), expVal sg E - (ds.length : Int)⟩⟩ := by
  have hacc : NumLit.parseNumUnsigned (c :: 46 :: (ds ++ mk :: sg :: E)) = some .float :=
    acc_sci c _ hc ⟨46, _, rfl, by decide, by decide⟩
      (lFraction_dot_exp false ds mk sg E hds hmk hsg hE hne)
  apply litValue_of _ .float _ hacc
  rw [readValue_ne48 _ c _ (by omega)]
  have hcd : NumLit.isDec c = true := NumLit.isDec_iff.mpr ⟨by omega, hc.2⟩
  have hp := readParts_exp [c] ds E mk sg (by simp [hcd]) hds hE hmk hsg
  rw [List.singleton_append] at hp
  rw [hp]
  have hh' : horner 10 ([c] ++ ds) = m := hh
  have := decValue_plain .float [c] ds E true (sg == 45) (expVal sg E - (ds.length : Int)) (by
    rw [hh']
    have := litExp_exp m ds.length (expVal sg E) w1 w2 w3 w4 w5
    simpa [expVal] using this)
  rw [hh'] at this
  exact this


/-! ### the two notations of `fmtG` -/

/-- the exponent window (`PrintRegular` for floats) -/
def Window (m : Nat) (x : Int) : Prop :=
  -maxExp ≤ x + (Dec.numDigits m : Int) - 1 ∧ x + (Dec.numDigits m : Int) - 1 ≤ maxExp ∧
    -maxExp ≤ x ∧ (Dec.numDigits m : Int) ≤ maxExp

theorem all_of_sub {p : Nat → Bool} {a b : List Nat} (h : b.all p = true)
    (hs : ∀ y, y ∈ a → y ∈ b) : a.all p = true := by
  rw [List.all_eq_true] at h ⊢
  intro y hy
  exact h y (hs y hy)

theorem lit_fmtF_neg (m : Nat) (x : Int) (hx : x < 0) (hw : Window m x) :
    litValue (fmtF (digitsOf m) x) = .ok ⟨.float, ⟨(m : Int), x⟩⟩ := by
  obtain ⟨w1, w2, w3, w4⟩ := hw
  have hlen := digitsOf_length m
  have hall := digitsOf_allDec m
  unfold fmtF
  simp only [hx, ↓reduceIte]
  obtain ⟨n, hn⟩ : ∃ n : Nat, (-x).toNat = n := ⟨_, rfl⟩
  have hxn : x = -(n : Int) := by omega
  rw [hn]
  by_cases hle : (digitsOf m).length ≤ n
  · rw [if_pos hle]
    have hfs : (zeros (n - (digitsOf m).length) ++ digitsOf m).all NumLit.isDec = true := by
      rw [List.all_append, zeros_allDec, hall]; rfl
    have hlen2 : (zeros (n - (digitsOf m).length) ++ digitsOf m).length = n := by
      simp [zeros]; omega
    have hne : zeros (n - (digitsOf m).length) ++ digitsOf m ≠ [] := by
      intro h; rw [h] at hlen2
      have := numDigits_pos m
      simp at hlen2; omega
    have hh : horner 10 (zeros (n - (digitsOf m).length) ++ digitsOf m) = m := by
      rw [horner_append, horner_zeros, horner_digitsOf]; simp
    have := lit_zero_frac _ m x hfs hne hh (by rw [hlen2]; exact hxn) w1 w2 w3
    simpa using this
  · rw [if_neg hle]
    have hm : 0 < m := by
      by_cases h0 : m = 0
      · subst h0; simp [digitsOf_zero] at hle; omega
      · omega
    obtain ⟨c, ds, hd, hc⟩ := digitsOf_head m hm
    obtain ⟨j, hj⟩ : ∃ j, (digitsOf m).length - n = j + 1 := ⟨(digitsOf m).length - n - 1, by omega⟩
    have htake : (digitsOf m).take (j + 1) = c :: ds.take j := by
      rw [hd, List.take_succ_cons]
    have hds : (ds.take j).all NumLit.isDec = true := by
      apply all_of_sub hall
      intro y hy
      rw [hd]
      exact List.mem_cons_of_mem _ (List.mem_of_mem_take hy)
    have hfs : ((digitsOf m).drop (j + 1)).all NumLit.isDec = true :=
      all_of_sub hall (fun y hy => List.mem_of_mem_drop hy)
    have hlen2 : ((digitsOf m).drop (j + 1)).length = n := by
      rw [List.length_drop]; omega
    have hne : (digitsOf m).drop (j + 1) ≠ [] := by
      intro h; rw [h] at hlen2; simp at hlen2; omega
    have hh : horner 10 (c :: ds.take j ++ (digitsOf m).drop (j + 1)) = m := by
      rw [← htake, List.take_append_drop, horner_digitsOf]
    have := lit_frac c (ds.take j) _ m x hc hds hfs hne hh (by rw [hlen2]; exact hxn) w1 w2 w3
    rw [hj, htake]
    simpa using this

theorem lit_fmtE (mk m : Nat) (x : Int) (hmk : mk = 101 ∨ mk = 69) (hw : Window m x) :
    litValue (fmtE mk (digitsOf m) x) = .ok ⟨.float, ⟨(m : Int), x⟩⟩ := by
  obtain ⟨w1, w2, w3, w4⟩ := hw
  have hlen := digitsOf_length m
  have hall := digitsOf_allDec m
  unfold fmtE
  simp only
  rw [hlen]
  obtain ⟨adj, hadj⟩ : ∃ adj, adj = x + (Dec.numDigits m : Int) - 1 := ⟨_, rfl⟩
  rw [← hadj] at w1 w2 ⊢
  obtain ⟨sg, hsg, hsgl, hev⟩ : ∃ sg, (sg = 43 ∨ sg = 45) ∧
      (if adj < 0 then [45] else [43]) = [sg] ∧ expVal sg (digitsOf adj.natAbs) = adj := by
    by_cases h : adj < 0
    · refine ⟨45, Or.inr rfl, by simp [h], ?_⟩
      simp [expVal, horner_digitsOf]; omega
    · refine ⟨43, Or.inl rfl, by simp [h], ?_⟩
      simp [expVal, horner_digitsOf]; omega
  rw [hsgl]
  have hE := digitsOf_allDec adj.natAbs
  have hEne : digitsOf adj.natAbs ≠ [] := by
    intro h
    have h2 := digitsOf_length adj.natAbs
    rw [h] at h2
    have := numDigits_pos adj.natAbs
    simp at h2; omega
  by_cases hm : m < 10
  · rw [digitsOf_lt hm]
    have := lit_sci1 m mk sg _ hm hmk hsg hE hEne (by rw [hev]; exact w1) (by rw [hev]; exact w2)
    rw [hev] at this
    have hx : adj = x := by rw [numDigits_lt hm] at hadj; omega
    rw [hx] at this ⊢
    simpa using this
  · obtain ⟨c, ds, hd, hc⟩ := digitsOf_head m (by omega)
    have hL : 2 ≤ Dec.numDigits m := by
      rw [numDigits_ge (by omega)]; have := numDigits_pos (m / 10); omega
    rw [hd] at hall hlen ⊢
    cases ds with
    | nil => simp at hlen; omega
    | cons d2 ds' =>
      simp only [List.all_cons, Bool.and_eq_true] at hall
      have hds : (d2 :: ds').all NumLit.isDec = true := by simp [hall.2.1, hall.2.2]
      have hh : horner 10 (c :: d2 :: ds') = m := by rw [← hd]; exact horner_digitsOf m
      have hl : ((d2 :: ds').length : Int) = (Dec.numDigits m : Int) - 1 := by
        simp only [List.length_cons] at hlen ⊢; omega
      have := lit_sci2 c mk sg (d2 :: ds') _ m hc hds hmk hsg hE hEne hh
        (by rw [hev]; exact w1) (by rw [hev]; exact w2) (by omega) (by rw [hev]; omega)
        (by rw [hev]; omega)
      rw [hev] at this
      have hx : adj - ((d2 :: ds').length : Int) = x := by omega
      rw [hx] at this
      simpa using this

theorem fmtF_zero (D : List Nat) : fmtF D 0 = D := by
  simp [fmtF, zeros]

/-! ### sign and float mark -/

theorem readBack_of_lit (s : List Nat) (n : Num) (h : litValue s = .ok n) :
    readBack s = .ok n := by
  unfold readBack
  split
  · rename_i t
    have : litValue (45 :: t) = .err := by simp [litValue, NumLit.parseNumUnsigned]
    rw [this] at h; cases h
  · exact h

theorem signed_back (c : Int) (B : List Nat) (n0 : Num) (h : litValue B = .ok n0) :
    readBack (if c < 0 then 45 :: B else B) = .ok (if c < 0 then negNum n0 else n0) := by
  by_cases hc : c < 0
  · simp [hc, readBack, h]
  · simp only [hc, ↓reduceIte]
    exact readBack_of_lit B n0 h

theorem signed_kind (c : Int) (n0 : Num) : (if c < 0 then negNum n0 else n0).k = n0.k := by
  by_cases hc : c < 0 <;> simp [hc, negNum]

theorem signed_toRat (c x : Int) (n0 : Num) (h : toRat n0.d = toRat ⟨(c.natAbs : Int), x⟩) :
    toRat (if c < 0 then negNum n0 else n0).d = toRat ⟨c, x⟩ := by
  by_cases hc : c < 0
  · simp only [hc, ↓reduceIte, negNum]
    rw [toRat_neg, h, toRat_of_neg c x hc]
  · simp only [hc, ↓reduceIte]
    rw [h]
    have : (c.natAbs : Int) = c := by omega
    rw [this]

theorem hasFloatMark_digits (D : List Nat) (h : D.all NumLit.isDec = true) :
    hasFloatMark D = false := by
  induction D with
  | nil => rfl
  | cons d t ih =>
    simp only [List.all_cons, Bool.and_eq_true] at h
    have hd := NumLit.isDec_iff.mp h.1
    have := ih h.2
    unfold hasFloatMark at this ⊢
    simp only [List.any_cons, this, Bool.or_false]
    simp; omega

theorem hasFloatMark_fmtF (D : List Nat) (x : Int) (hx : x < 0) :
    hasFloatMark (fmtF D x) = true := by
  unfold fmtF
  simp only [hx, ↓reduceIte]
  split <;> simp [hasFloatMark]

theorem hasFloatMark_fmtE (mk : Nat) (D : List Nat) (x : Int) (hmk : mk = 101 ∨ mk = 69) :
    hasFloatMark (fmtE mk D x) = true := by
  unfold fmtE
  rcases hmk with rfl | rfl <;> simp [hasFloatMark]

/-! ### the two notations -/

theorem ite_shape {α : Type} (b : Bool) (p : Prop) (hbp : b = true → p) (A B : α) :
    (p ∧ (if b = true then A else B) = A) ∨ (if b = true then A else B) = B := by
  cases b with
  | false => exact Or.inr rfl
  | true => exact Or.inl ⟨hbp rfl, rfl⟩

theorem fmtG_shape (e : Nat) (c x : Int) :
    ∃ B, fmtG e ⟨c, x⟩ = (if c < 0 then 45 :: B else B) ∧
      ((x ≤ 0 ∧ B = fmtF (digitsOf c.natAbs) x) ∨ B = fmtE e (digitsOf c.natAbs) x) := by
  refine ⟨_, rfl, ?_⟩
  exact ite_shape _ _ (fun hb => by
    simp only [Bool.and_eq_true, decide_eq_true_eq] at hb; exact hb.1) _ _

theorem fmtG_exp0 (e : Nat) (c : Int) :
    fmtG e ⟨c, 0⟩ = if c < 0 then 45 :: digitsOf c.natAbs else digitsOf c.natAbs := by
  have h6 : (-6 : Int) ≤ ((digitsOf c.natAbs).length : Int) - 1 := by omega
  simp [fmtG, fmtF_zero, h6]

/-- a float body: with the `.0` that `format.Node` appends when there is no float mark -/
theorem float_core (mk m : Nat) (x : Int) (hmk : mk = 101 ∨ mk = 69) (hw : Window m x)
    (B : List Nat)
    (hB : (x ≤ 0 ∧ B = fmtF (digitsOf m) x) ∨ B = fmtE mk (digitsOf m) x) :
    ∃ n0, litValue (if hasFloatMark B then B else B ++ [46, 48]) = .ok n0 ∧ n0.k = .float ∧
      toRat n0.d = toRat ⟨(m : Int), x⟩ := by
  rcases hB with ⟨hx, rfl⟩ | rfl
  · by_cases h0 : x = 0
    · subst h0
      rw [fmtF_zero, hasFloatMark_digits _ (digitsOf_allDec m)]
      exact ⟨_, lit_dot0 m hw.2.2.2, rfl, toRat_dot0 m⟩
    · have hx' : x < 0 := by omega
      rw [hasFloatMark_fmtF _ _ hx']
      exact ⟨_, lit_fmtF_neg m x hx' hw, rfl, rfl⟩
  · rw [hasFloatMark_fmtE _ _ _ hmk]
    exact ⟨_, lit_fmtE mk m x hmk hw, rfl, rfl⟩

/-- a body as `MarshalJSON` writes it (no `.0` appended) -/
theorem json_core (mk m : Nat) (x : Int) (hmk : mk = 101 ∨ mk = 69) (hw : Window m x)
    (B : List Nat)
    (hB : (x ≤ 0 ∧ B = fmtF (digitsOf m) x) ∨ B = fmtE mk (digitsOf m) x) :
    ∃ n0, litValue B = .ok n0 ∧ toRat n0.d = toRat ⟨(m : Int), x⟩ := by
  rcases hB with ⟨hx, rfl⟩ | rfl
  · by_cases h0 : x = 0
    · subst h0
      rw [fmtF_zero]
      exact ⟨_, lit_int m (by have := hw.2.2.2; omega), rfl⟩
    · have hx' : x < 0 := by omega
      exact ⟨_, lit_fmtF_neg m x hx' hw, rfl⟩
  · exact ⟨_, lit_fmtE mk m x hmk hw, rfl⟩

theorem printNum_float (c x : Int) (B : List Nat)
    (hB : fmtG 101 ⟨c, x⟩ = (if c < 0 then 45 :: B else B)) :
    printNum ⟨.float, ⟨c, x⟩⟩ =
      (if c < 0 then 45 :: (if hasFloatMark B then B else B ++ [46, 48])
       else (if hasFloatMark B then B else B ++ [46, 48])) := by
  simp only [printNum]
  rw [hB]
  by_cases hc : c < 0
  · simp only [hc, ↓reduceIte]
    have : hasFloatMark (45 :: B) = hasFloatMark B := by simp [hasFloatMark]
    rw [this]
    split <;> rfl
  · simp only [hc, ↓reduceIte]

end CueVerif.Proofs.NumValPrintAux
