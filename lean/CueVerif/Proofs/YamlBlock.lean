/-
C11 — round trip of literal block scalars: what `emitBlock` writes for a string accepted by
`blockLiteralSafe` is read back by `parseBlock` as the same string (core Lean only).

The only fact about `s` the proof uses is that the first byte that is not a line break exists
and is not a blank (`FirstByteOK`): the block's indentation is detected from that line.
-/
import CueVerif.Spec.Yaml
namespace CueVerif.Yaml
open CueVerif.Quote (Bytes)

/-! ### splitLines / joinLines -/

theorem splitLines_ne_nil (s : Bytes) : splitLines s ≠ [] := by
  induction s with
  | nil => simp [splitLines]
  | cons c t ih =>
    simp only [splitLines, List.foldr_cons] at ih ⊢
    split
    · split <;> simp
    · split <;> simp

theorem splitLines_nil : splitLines [] = [[]] := rfl

theorem splitLines_cons (c : Nat) (t : Bytes) (h : Bytes) (tl : List Bytes)
    (ht : splitLines t = h :: tl) :
    splitLines (c :: t) = if c == 10 then [] :: h :: tl else (c :: h) :: tl := by
  have : splitLines (c :: t) = (match splitLines t with
    | [] => if c == 10 then [[], []] else [[c]]
    | l :: ls => if c == 10 then [] :: l :: ls else (c :: l) :: ls) := rfl
  rw [this, ht]

theorem splitLines_snoc_nl (t : Bytes) : splitLines (t ++ [10]) = splitLines t ++ [[]] := by
  induction t with
  | nil => rfl
  | cons c t ih =>
    obtain ⟨h, tl, ht⟩ : ∃ h tl, splitLines t = h :: tl := by
      cases hs : splitLines t with
      | nil => exact absurd hs (splitLines_ne_nil t)
      | cons h tl => exact ⟨h, tl, rfl⟩
    have h2 : splitLines (t ++ [10]) = h :: (tl ++ [[]]) := by rw [ih, ht]; rfl
    rw [List.cons_append, splitLines_cons c _ _ _ h2, splitLines_cons c _ _ _ ht]
    split <;> rfl

theorem joinLines_cons_cons (c : Nat) (h : Bytes) (tl : List Bytes) :
    joinLines ((c :: h) :: tl) = c :: joinLines (h :: tl) := by
  cases tl with
  | nil => rfl
  | cons x xs => simp [joinLines]

theorem joinLines_splitLines (s : Bytes) : joinLines (splitLines s) = s := by
  induction s with
  | nil => rfl
  | cons c t ih =>
    obtain ⟨h, tl, ht⟩ : ∃ h tl, splitLines t = h :: tl := by
      cases hs : splitLines t with
      | nil => exact absurd hs (splitLines_ne_nil t)
      | cons h tl => exact ⟨h, tl, rfl⟩
    rw [splitLines_cons c _ _ _ ht]
    rw [ht] at ih
    by_cases hc : c = 10
    · subst hc
      simp [joinLines, ih]
    · have : (c == 10) = false := by simpa using hc
      rw [this]
      simp only [Bool.false_eq_true, if_false]
      rw [joinLines_cons_cons, ih]

/-! ### the first non-empty line -/

/-- the first non-empty line exists and does not start with a blank -/
def firstOK : List Bytes → Prop
  | [] => False
  | [] :: r => firstOK r
  | (c :: _) :: _ => c ≠ 32

/-- the first byte of `s` that is not a line break exists and is not a blank -/
def FirstByteOK (s : Bytes) : Prop := ∃ f r, s.dropWhile (· == 10) = f :: r ∧ f ≠ 32

theorem firstOK_splitLines (s : Bytes) (h : FirstByteOK s) : firstOK (splitLines s) := by
  induction s with
  | nil => obtain ⟨f, r, h1, _⟩ := h; simp at h1
  | cons c t ih =>
    obtain ⟨hd, tl, ht⟩ : ∃ h tl, splitLines t = h :: tl := by
      cases hs : splitLines t with
      | nil => exact absurd hs (splitLines_ne_nil t)
      | cons h tl => exact ⟨h, tl, rfl⟩
    rw [splitLines_cons c _ _ _ ht]
    obtain ⟨f, r, h1, h2⟩ := h
    by_cases hc : c = 10
    · subst hc
      simp only [List.dropWhile_cons, beq_self_eq_true, if_true] at h1
      have := ih ⟨f, r, h1, h2⟩
      rw [ht] at this
      simpa [firstOK] using this
    · have hc' : (c == 10) = false := by simpa using hc
      simp only [List.dropWhile_cons, hc', Bool.false_eq_true, if_false] at h1
      rw [hc']
      simp only [Bool.false_eq_true, if_false, firstOK]
      have : c = f := by injection h1
      rw [this]; exact h2

theorem firstOK_of_snoc_nil (ls : List Bytes) (h : firstOK (ls ++ [[]])) : firstOK ls := by
  induction ls with
  | nil => simp [firstOK] at h
  | cons l r ih =>
    cases l with
    | nil => simp only [List.cons_append, firstOK] at h ⊢; exact ih h
    | cons c l => simpa [firstOK] using h

/-! ### reading the emitted lines back -/

/-- how the emitter writes one line -/
def padLine (ind : Nat) (l : Bytes) : Bytes := if l.isEmpty then [] else List.replicate ind 32 ++ l

theorem leadingSpaces_replicate (ind : Nat) (c : Nat) (l : Bytes) (hc : c ≠ 32) :
    leadingSpaces (List.replicate ind 32 ++ c :: l) = ind := by
  induction ind with
  | zero =>
    simp only [List.replicate_zero, List.nil_append]
    unfold leadingSpaces
    split
    · rename_i heq; injection heq with h1 _; exact absurd h1 hc
    · rfl
  | succ n ih =>
    simp only [List.replicate_succ, List.cons_append, leadingSpaces, ih]

theorem drop_padLine (ind : Nat) (l : Bytes) : (padLine ind l).drop ind = l := by
  unfold padLine
  cases l with
  | nil => simp
  | cons c l =>
    simp only [List.isEmpty_cons, Bool.false_eq_true, if_false]
    rw [List.drop_append_of_le_length (by simp)]
    simp

theorem map_drop_padLine (ind : Nat) (ls : List Bytes) :
    (ls.map (padLine ind)).map (fun l => l.drop ind) = ls := by
  induction ls with
  | nil => rfl
  | cons l r ih => simp only [List.map_cons, drop_padLine, ih]

theorem indent_detected (ind : Nat) (ls : List Bytes) (h : firstOK ls) :
    ∃ l, (ls.map (padLine ind)).find? (fun l => l.any (· != 32)) = some l ∧
      leadingSpaces l = ind := by
  induction ls with
  | nil => exact absurd h (by simp [firstOK])
  | cons l r ih =>
    cases l with
    | nil =>
      simp only [firstOK] at h
      simp only [List.map_cons, padLine, List.isEmpty_nil, if_true, List.find?_cons, List.any_nil]
      exact ih h
    | cons c l =>
      simp only [firstOK] at h
      have hany : (List.replicate ind 32 ++ c :: l).any (· != 32) = true := by
        simp only [List.any_append, List.any_cons, Bool.or_eq_true]
        right; left; simpa using h
      refine ⟨List.replicate ind 32 ++ c :: l, ?_, leadingSpaces_replicate ind c l h⟩
      simp only [List.map_cons, padLine, List.isEmpty_cons, Bool.false_eq_true, if_false,
        List.find?_cons, hany]

/-- `parseBlock` on emitted lines, before chomping -/
theorem parseBlock_padded (ind : Nat) (c : Chomp) (ls : List Bytes) (h : firstOK ls) :
    parseBlock c (ls.map (padLine ind)) =
      (match c with
        | .keep => joinLines ls ++ [10]
        | .strip => dropTrailingNL (joinLines ls ++ [10])
        | .clip =>
          let t := dropTrailingNL (joinLines ls ++ [10]); if t.isEmpty then [] else t ++ [10]) := by
  obtain ⟨l, hl, hn⟩ := indent_detected ind ls h
  cases c <;> simp only [parseBlock, hl, hn, map_drop_padLine]

/-! ### chomping -/

theorem hasSuffix_nl_snoc (t : Bytes) (x : Nat) : hasSuffix [10] (t ++ [x]) = (x == 10) := by
  simp [hasSuffix, List.isSuffixOf, List.isPrefixOf, BEq.comm (a := 10)]

theorem hasSuffix_nlnl_snoc (t : Bytes) (x y : Nat) :
    hasSuffix [10, 10] (t ++ [y] ++ [x]) = (x == 10 && y == 10) := by
  simp [hasSuffix, List.isSuffixOf, List.isPrefixOf, BEq.comm (a := 10)]

theorem dropTrailingNL_snoc (t : Bytes) (x : Nat) (hx : x ≠ 10) :
    dropTrailingNL (t ++ [x] ++ [10]) = t ++ [x] := by
  have hx' : (x == 10) = false := by simpa using hx
  simp [dropTrailingNL, hx']

/-! ### the round trip -/

theorem eq_nil_or_snoc (s : Bytes) : s = [] ∨ ∃ t x, s = t ++ [x] := by
  rcases List.eq_nil_or_concat s with h | ⟨t, x, h⟩
  · exact Or.inl h
  · exact Or.inr ⟨t, x, by rw [h, List.concat_eq_append]⟩

theorem emitBlock_eq (ind : Nat) (s : Bytes) :
    emitBlock ind s = (blockHeader s,
      (if hasSuffix [10] s then (splitLines s).dropLast else splitLines s).map (padLine ind)) := rfl

theorem not_firstByteOK_nil : ¬ FirstByteOK [] := by
  intro ⟨f, r, h, _⟩; simp at h

theorem not_firstByteOK_nl : ¬ FirstByteOK [10] := by
  intro ⟨f, r, h, _⟩; simp at h

theorem firstByteOK_of_snoc_nl (t : Bytes) (h : FirstByteOK (t ++ [10])) : FirstByteOK t := by
  induction t with
  | nil => exact absurd h not_firstByteOK_nl
  | cons c t ih =>
    obtain ⟨f, r, h1, h2⟩ := h
    by_cases hc : c = 10
    · subst hc
      simp only [List.cons_append, List.dropWhile_cons, beq_self_eq_true, if_true] at h1
      obtain ⟨f', r', h1', h2'⟩ := ih ⟨f, r, h1, h2⟩
      exact ⟨f', r', by simpa using h1', h2'⟩
    · have hc' : (c == 10) = false := by simpa using hc
      simp only [List.cons_append, List.dropWhile_cons, hc', Bool.false_eq_true, if_false] at h1
      refine ⟨c, t, by simp [hc'], ?_⟩
      have : c = f := by injection h1
      rw [this]; exact h2

/-- the round trip from the one fact it needs -/
theorem block_roundtrip_of_facts (s : Bytes) (h : FirstByteOK s) : BlockRoundTrips s := by
  intro ind
  rw [emitBlock_eq]
  simp only
  rcases eq_nil_or_snoc s with hs | ⟨t, x, hs⟩
  · subst hs; exact absurd h not_firstByteOK_nil
  subst hs
  by_cases hx : x = 10
  · -- the string ends with a line break: the last (empty) line is not written
    subst hx
    have ht : FirstByteOK t := firstByteOK_of_snoc_nl t h
    have hfo : firstOK (splitLines t) := firstOK_splitLines t ht
    have hbody : (if hasSuffix [10] (t ++ [10]) = true then (splitLines (t ++ [10])).dropLast
        else splitLines (t ++ [10])) = splitLines t := by
      rw [hasSuffix_nl_snoc, splitLines_snoc_nl]; simp
    rw [hbody, parseBlock_padded ind _ _ hfo, joinLines_splitLines]
    rcases eq_nil_or_snoc t with ht0 | ⟨u, y, ht0⟩
    · subst ht0; exact absurd ht not_firstByteOK_nil
    subst ht0
    by_cases hy : y = 10
    · subst hy
      have : blockHeader (u ++ [10] ++ [10]) = .keep := by
        unfold blockHeader; rw [hasSuffix_nlnl_snoc]; simp
      rw [this]
    · have hy' : (y == 10) = false := by simpa using hy
      have : blockHeader (u ++ [y] ++ [10]) = .clip := by
        unfold blockHeader; rw [hasSuffix_nlnl_snoc, hasSuffix_nl_snoc]; simp [hy']
      rw [this]
      simp only [dropTrailingNL_snoc u y hy]
      simp
  · -- no final line break: strip
    have hx' : (x == 10) = false := by simpa using hx
    have hfo : firstOK (splitLines (t ++ [x])) := firstOK_splitLines _ h
    have hsuf : hasSuffix [10] (t ++ [x]) = false := by rw [hasSuffix_nl_snoc]; exact hx'
    have hnn : hasSuffix [10, 10] (t ++ [x]) = false := by
      rcases eq_nil_or_snoc t with ht0 | ⟨u, y, ht0⟩
      · subst ht0; simp [hasSuffix, List.isSuffixOf, List.isPrefixOf]
      · subst ht0; rw [hasSuffix_nlnl_snoc]; simp [hx']
    have : blockHeader (t ++ [x]) = .strip := by
      unfold blockHeader; rw [hnn, hsuf]; simp
    rw [this, hsuf]
    simp only [Bool.false_eq_true, if_false]
    rw [parseBlock_padded ind _ _ hfo, joinLines_splitLines]
    exact dropTrailingNL_snoc t x hx

/-- what `blockLiteralSafe` guarantees about the first non-empty line -/
theorem firstByteOK_of_blockLiteralSafe (P : IsPrint) (s : Bytes) (h : blockLiteralSafe P s = true) :
    FirstByteOK s := by
  unfold blockLiteralSafe at h
  split at h
  · exact absurd h (by simp)
  · split at h
    · exact absurd h (by simp)
    · split at h
      · exact absurd h (by simp)
      · rename_i f r heq
        split at h
        · exact absurd h (by simp)
        · rename_i hf
          refine ⟨f, r, heq, ?_⟩
          intro h32; subst h32; simp at hf

theorem block_roundtrip (P : IsPrint) (s : Bytes) (h : blockLiteralSafe P s = true) : BlockRoundTrips s :=
  block_roundtrip_of_facts s (firstByteOK_of_blockLiteralSafe P s h)

end CueVerif.Yaml
