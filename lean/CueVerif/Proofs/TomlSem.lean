/-
C12 — the TOML decoder model versus the reference semantics (Spec/Toml.lean).
-/
import CueVerif.Spec.Toml
namespace CueVerif.Toml
open CueVerif.Toml.Spec

/-- The decoder is NOT the reference semantics: `a.b = 1` then `[a]` is rejected by the
specification and accepted by the decoder. -/
theorem sem_false : ¬ (∀ evs : List Ev,
    match tomlSpec evs, decode evs with
    | .ok a, .ok b => SameData a b
    | .error _, .error _ => True
    | _, _ => False) := by
  intro h
  have h1 := h [.kv [[97],[98]] (.sc ⟨1,[49]⟩), .table [[97]]]
  have hs : tomlSpec [.kv [[97],[98]] (.sc ⟨1,[49]⟩), .table [[97]]] = .error .redefined := by
    rfl
  have hd : decode [.kv [[97],[98]] (.sc ⟨1,[49]⟩), .table [[97]]] =
      .ok [([], .tbl), ([.key [97], .key [98]], .atom ⟨1,[49]⟩), ([.key [97]], .tbl)] := by
    rfl
  rw [hs, hd] at h1
  exact h1

/-! ### what a value decoding appends (frame lemma) -/

/-- what a successful value decoding does to the state: appends facts, adds seen keys -/
def Post (s s' : St) (fs : List Fact) : Prop :=
  s'.out = s.out ++ fs ∧ s'.arrays = s.arrays ∧ s'.cur = s.cur ∧ s'.curKey = s.curKey

theorem Post.trans {s s1 s2 : St} {f1 f2 : List Fact} (h1 : Post s s1 f1) (h2 : Post s1 s2 f2) :
    Post s s2 (f1 ++ f2) := by
  obtain ⟨a1, b1, c1, d1⟩ := h1
  obtain ⟨a2, b2, c2, d2⟩ := h2
  refine ⟨?_, ?_, ?_, ?_⟩
  · rw [a2, a1, List.append_assoc]
  · rw [b2, b1]
  · rw [c2, c1]
  · rw [d2, d1]

mutual
theorem decodeExpr_frame : ∀ (v : Val) (rkey p : Path) (s s' : St),
    decodeExpr rkey p v s = .ok s' → Post s s' (v.facts p)
  | .sc a, rkey, p, s, s', h => by
    rw [decodeExpr] at h
    cases h
    simp [Post, Val.facts]
  | .arr xs, rkey, p, s, s', h => by
    rw [decodeExpr] at h
    have h2 := decodeElems_frame xs rkey p 0 _ s' h
    have h1 : Post s { s with out := s.out ++ [(p, Leaf.arr)] } [(p, Leaf.arr)] := by simp [Post]
    have := h1.trans h2
    simpa [Val.facts] using this
  | .inl kvs, rkey, p, s, s', h => by
    rw [decodeExpr] at h
    have h2 := decodeFields_frame kvs rkey p _ s' h
    have h1 : Post s { s with out := s.out ++ [(p, Leaf.tbl)] } [(p, Leaf.tbl)] := by simp [Post]
    have := h1.trans h2
    simpa [Val.facts] using this
theorem decodeElems_frame : ∀ (xs : List Val) (rkey p : Path) (i : Nat) (s s' : St),
    decodeElems rkey p i xs s = .ok s' → Post s s' (factsElems p i xs)
  | [], rkey, p, i, s, s', h => by
    rw [decodeElems] at h
    cases h
    simp [Post, factsElems]
  | x :: xs, rkey, p, i, s, s', h => by
    rw [decodeElems] at h
    split at h
    · cases h
    · next s1 h1 =>
      have a := decodeExpr_frame x _ _ _ _ h1
      have b := decodeElems_frame xs _ _ _ _ _ h
      have := a.trans b
      simpa [factsElems] using this
theorem decodeFields_frame : ∀ (kvs : List (List Name × Val)) (rkey p : Path) (s s' : St),
    decodeFields rkey p kvs s = .ok s' → Post s s' (factsFields p kvs)
  | [], rkey, p, s, s', h => by
    rw [decodeFields] at h
    cases h
    simp [Post, factsFields]
  | kv :: rest, rkey, p, s, s', h => by
    rw [decodeFields] at h
    split at h
    · cases h
    · split at h
      · cases h
      · split at h
        · cases h
        · next s1 h1 =>
          have a := decodeExpr_frame kv.2 _ _ _ _ h1
          have b := decodeFields_frame rest _ _ _ _ h
          have a' : Post s s1 (kv.2.facts (p ++ keyPath kv.1)) := a
          have := a'.trans b
          simpa [factsFields] using this
end


/-! ### store lemmas -/

theorem dropLast_getLast? {α} (l : List α) (a : α) (h : l.getLast? = some a) :
    l.dropLast ++ [a] = l := by
  have hne : l ≠ [] := by intro e; subst e; simp at h
  rw [List.getLast?_eq_some_getLast hne] at h
  cases h
  exact List.dropLast_concat_getLast hne

theorem kindAt_define (σ : Store) (p r : Path) (k : Kind) :
    kindAt (define σ p k) r = if p = r then some k else kindAt σ r := by
  unfold kindAt define
  by_cases h : p = r
  · simp [h]
  · simp [h]

/-- no array of tables in the store -/
def NoAot (σ : Store) : Prop := ∀ r n, kindAt σ r ≠ some (.aot n)

/-- a path that is a header table or a value: what the decoder's `seen` keys are -/
def HV (σ : Store) (r : Path) : Prop := kindAt σ r = some .header ∨ kindAt σ r = some .value

def Stable (σ σ' : Store) : Prop := ∀ r, HV σ r → HV σ' r

theorem Stable.refl (σ : Store) : Stable σ σ := fun _ h => h
theorem Stable.trans {a b c : Store} (h1 : Stable a b) (h2 : Stable b c) : Stable a c :=
  fun r h => h2 r (h1 r h)

theorem stable_define_hv (σ : Store) (p : Path) (k : Kind) (hk : k = .header ∨ k = .value) :
    Stable σ (define σ p k) := by
  intro r h
  unfold HV
  rw [kindAt_define]
  by_cases e : p = r
  · simp [e]; rcases hk with hk | hk <;> simp [hk]
  · simp [e]; exact h

theorem stable_define_fresh (σ : Store) (p : Path) (k : Kind) (hn : ¬ HV σ p) :
    Stable σ (define σ p k) := by
  intro r h
  unfold HV
  rw [kindAt_define]
  by_cases e : p = r
  · subst e; exact absurd h hn
  · simp [e]; exact h

theorem hv_define (σ : Store) (p : Path) (k : Kind) (hk : k = .header ∨ k = .value) :
    HV (define σ p k) p := by
  unfold HV; rw [kindAt_define]; simp; exact hk

theorem noAot_define (σ : Store) (p : Path) (k : Kind) (hk : ∀ n, k ≠ .aot n) (h : NoAot σ) :
    NoAot (define σ p k) := by
  intro r n
  rw [kindAt_define]
  by_cases e : p = r
  · simp [e]; exact hk n
  · simp [e]; exact h r n

theorem walkDotted_spec : ∀ (ks : List Name) (σ : Store) (cur : Path) (σ1 : Store) (q : Path),
    walkDotted σ cur ks = .ok (σ1, q) →
    q = cur ++ keyPath ks ∧ Stable σ σ1 ∧ (NoAot σ → NoAot σ1)
  | [], σ, cur, σ1, q, h => by
    rw [walkDotted] at h
    cases h
    simp [keyPath, Stable.refl]
  | k :: ks, σ, cur, σ1, q, h => by
    rw [walkDotted] at h
    split at h
    · next hk =>
      obtain ⟨a, b, c⟩ := walkDotted_spec ks _ _ _ _ h
      refine ⟨by simpa [keyPath] using a, ?_, ?_⟩
      · refine Stable.trans (stable_define_fresh _ _ _ ?_) b
        simp [HV, hk]
      · intro hn; exact c (noAot_define _ _ _ (by intro n; simp) hn)
    · obtain ⟨a, b, c⟩ := walkDotted_spec ks _ _ _ _ h
      exact ⟨by simpa [keyPath] using a, b, c⟩
    · cases h
    · cases h

theorem walkHeader_spec_na : ∀ (ks : List Name) (σ : Store) (cur : Path) (σ1 : Store) (q : Path),
    walkHeader σ cur ks = .ok (σ1, q) → NoAot σ →
    q = cur ++ keyPath ks ∧ Stable σ σ1 ∧ NoAot σ1
  | [], σ, cur, σ1, q, h, hn => by
    rw [walkHeader] at h
    cases h
    simp [keyPath, Stable.refl, hn]
  | k :: ks, σ, cur, σ1, q, h, hn => by
    rw [walkHeader] at h
    split at h
    · next hk =>
      obtain ⟨a, b, c⟩ := walkHeader_spec_na ks _ _ _ _ h
        (noAot_define _ _ _ (by intro n; simp) hn)
      refine ⟨by simpa [keyPath] using a, ?_, c⟩
      refine Stable.trans (stable_define_fresh _ _ _ ?_) b
      simp [HV, hk]
    · cases h
    · next n hk => exact absurd hk (hn _ _)
    · obtain ⟨a, b, c⟩ := walkHeader_spec_na ks _ _ _ _ h hn
      exact ⟨by simpa [keyPath] using a, b, c⟩



/-! ### documents without `[[array.of.tables]]` headers -/

def SeenInv (σ : Store) (seen : List Path) : Prop := ∀ k ∈ seen, HV σ k

theorem SeenInv.mono {σ σ' : Store} {seen : List Path} (h : SeenInv σ seen) (hs : Stable σ σ') :
    SeenInv σ' seen := fun k hk => hs k (h k hk)

/-- result of the value-level simulation -/
def Good (σ σ' : Store) (s' : St) : Prop :=
  SeenInv σ' s'.seen ∧ Stable σ σ' ∧ (NoAot σ → NoAot σ')

mutual
theorem decExpr_na : ∀ (v : Val) (p : Path) (s : St) (σ σ' : Store),
    defineVal p v σ = .ok σ' → s.arrays = [] → (∀ k ∈ s.seen, k = p ∨ HV σ k) →
    ∃ s', decodeExpr p p v s = .ok s' ∧ Good σ σ' s'
  | .sc a, p, s, σ, σ', hd, ha, hs => by
    rw [defineVal] at hd
    cases hd
    rw [decodeExpr]
    refine ⟨_, rfl, ?_, stable_define_hv _ _ _ (.inr rfl), noAot_define _ _ _ (by intro n; simp)⟩
    intro k hk
    rcases hs k hk with e | e
    · subst e; exact hv_define _ _ _ (.inr rfl)
    · exact stable_define_hv _ _ _ (.inr rfl) _ e
  | .arr xs, p, s, σ, σ', hd, ha, hs => by
    rw [defineVal] at hd
    rw [decodeExpr]
    have hs0 : SeenInv (define σ p .value) s.seen := by
      intro k hk
      rcases hs k hk with e | e
      · subst e; exact hv_define _ _ _ (.inr rfl)
      · exact stable_define_hv _ _ _ (.inr rfl) _ e
    obtain ⟨s', h1, g1, g2, g3⟩ := decElems_na xs p 0 { s with out := s.out ++ [(p, Leaf.arr)] } _ _ hd ha hs0
    exact ⟨s', h1, g1, (stable_define_hv _ _ _ (.inr rfl)).trans g2,
      fun hn => g3 (noAot_define _ _ _ (by intro n; simp) hn)⟩
  | .inl kvs, p, s, σ, σ', hd, ha, hs => by
    rw [defineVal] at hd
    rw [decodeExpr]
    have hs0 : SeenInv (define σ p .value) s.seen := by
      intro k hk
      rcases hs k hk with e | e
      · subst e; exact hv_define _ _ _ (.inr rfl)
      · exact stable_define_hv _ _ _ (.inr rfl) _ e
    obtain ⟨s', h1, g1, g2, g3⟩ := decFields_na kvs p { s with out := s.out ++ [(p, Leaf.tbl)] } _ _ hd ha hs0
    exact ⟨s', h1, g1, (stable_define_hv _ _ _ (.inr rfl)).trans g2,
      fun hn => g3 (noAot_define _ _ _ (by intro n; simp) hn)⟩
theorem decElems_na : ∀ (xs : List Val) (p : Path) (i : Nat) (s : St) (σ σ' : Store),
    defineElems p i xs σ = .ok σ' → s.arrays = [] → SeenInv σ s.seen →
    ∃ s', decodeElems p p i xs s = .ok s' ∧ Good σ σ' s'
  | [], p, i, s, σ, σ', hd, ha, hs => by
    rw [defineElems] at hd
    cases hd
    rw [decodeElems]
    exact ⟨_, rfl, hs, Stable.refl _, id⟩
  | x :: xs, p, i, s, σ, σ', hd, ha, hs => by
    rw [defineElems] at hd
    split at hd
    · cases hd
    · next σ1 hd1 =>
      obtain ⟨s1, h1, g1, g2, g3⟩ := decExpr_na x (p ++ [.idx i]) s σ σ1 hd1 ha
        (fun k hk => .inr (hs k hk))
      have ha1 : s1.arrays = [] := by rw [(decodeExpr_frame _ _ _ _ _ h1).2.1, ha]
      obtain ⟨s2, h2, k1, k2, k3⟩ := decElems_na xs p (i + 1) s1 σ1 σ' hd ha1 g1
      rw [decodeElems, h1]
      exact ⟨s2, h2, k1, g2.trans k2, fun hn => k3 (g3 hn)⟩
theorem decFields_na : ∀ (kvs : List (List Name × Val)) (p : Path) (s : St) (σ σ' : Store),
    defineFields p kvs σ = .ok σ' → s.arrays = [] → SeenInv σ s.seen →
    ∃ s', decodeFields p p kvs s = .ok s' ∧ Good σ σ' s'
  | [], p, s, σ, σ', hd, ha, hs => by
    rw [defineFields] at hd
    cases hd
    rw [decodeFields]
    exact ⟨_, rfl, hs, Stable.refl _, id⟩
  | kv :: rest, p, s, σ, σ', hd, ha, hs => by
    rw [defineFields] at hd
    split at hd
    · cases hd
    · cases hd
    · next k σ1 q hl hw =>
      simp only [] at hd
      split at hd
      · cases hd
      · next hnone =>
        split at hd
        · cases hd
        · next σ2 hd2 =>
          obtain ⟨hq, st1, na1⟩ := walkDotted_spec _ _ _ _ _ hw
          have hleaf : q ++ [Seg.key k] = p ++ keyPath kv.1 := by
            rw [hq, List.append_assoc]
            congr 1
            have := dropLast_getLast? _ _ hl
            rw [← this]; simp [keyPath]
          rw [hleaf] at hnone hd2
          have hnotseen : (p ++ keyPath kv.1) ∉ s.seen := by
            intro hm
            have := st1 _ (hs _ hm)
            simp [HV, hnone] at this
          have hs1 : ∀ k' ∈ (p ++ keyPath kv.1) :: s.seen, k' = p ++ keyPath kv.1 ∨ HV σ1 k' := by
            intro k' hk'
            rcases List.mem_cons.1 hk' with e | e
            · exact .inl e
            · exact .inr (st1 _ (hs _ e))
          obtain ⟨s1, h1, g1, g2, g3⟩ := decExpr_na kv.2 (p ++ keyPath kv.1)
            { s with seen := (p ++ keyPath kv.1) :: s.seen } σ1 σ2 hd2 ha hs1
          have ha1 : s1.arrays = [] := by rw [(decodeExpr_frame _ _ _ _ _ h1).2.1]; exact ha
          obtain ⟨s2, h2, k1, k2, k3⟩ := decFields_na rest p s1 σ2 σ' hd ha1 g1
          refine ⟨s2, ?_, k1, (st1.trans g2).trans k2, fun hn => k3 (g3 (na1 hn))⟩
          rw [decodeFields]
          have hfa : findArray s.arrays (p ++ keyPath kv.1) = none := by rw [ha]; rfl
          simp only [hfa, Option.isSome_none, Bool.false_eq_true, if_false]
          rw [if_neg (by simpa using hnotseen)]
          simp only [h1]
          exact h2
end



structure RelNA (σs : SSt) (s : St) : Prop where
  cur : s.cur = σs.cur
  curKey : s.curKey = σs.cur
  arrays : s.arrays = []
  out : ([], Leaf.tbl) :: s.out = σs.facts
  noAot : NoAot σs.store
  seen : SeenInv σs.store s.seen

theorem relNA_init : RelNA SSt.init St.init :=
  ⟨rfl, rfl, rfl, rfl, by intro r n; simp [SSt.init, kindAt], by intro k hk; simp [St.init] at hk⟩

theorem step_na (σs σs' : SSt) (s : St) (e : Ev) (hr : RelNA σs s)
    (hna : ∀ ks, e ≠ .arrayTable ks) (hs : sstep σs e = .ok σs') :
    ∃ s', step s e = .ok s' ∧ RelNA σs' s' := by
  cases e with
  | arrayTable ks => exact absurd rfl (hna ks)
  | kv ks v =>
    rw [sstep] at hs
    split at hs
    · cases hs
    · next σ hd =>
      cases hs
      obtain ⟨s', h1, g1, g2, g3⟩ := decFields_na _ _ s _ _ hd hr.arrays hr.seen
      have hf := decodeFields_frame _ _ _ _ _ h1
      refine ⟨s', ?_, ?_⟩
      · rw [step, hr.curKey, hr.cur]; exact h1
      · obtain ⟨o, a, c, ck⟩ := hf
        refine ⟨by rw [c]; exact hr.cur, by rw [ck]; exact hr.curKey, by rw [a]; exact hr.arrays,
          ?_, g3 hr.noAot, g1⟩
        simp only [o, factsFields, List.append_nil]
        rw [← List.cons_append, hr.out]
  | table ks =>
    rw [sstep] at hs
    split at hs
    · cases hs
    · cases hs
    · next k σ1 q hl hw =>
      obtain ⟨hq, st1, na1⟩ := walkHeader_spec_na _ _ _ _ _ hw hr.noAot
      have hp : q ++ [Seg.key k] = keyPath ks := by
        rw [hq, ← dropLast_getLast? _ _ hl]; simp [keyPath]
      simp only [hp] at hs
      have hnotseen : keyPath ks ∉ s.seen → ∃ s', step s (.table ks) = .ok s' ∧
          s' = { s with seen := keyPath ks :: s.seen, out := s.out ++ [(keyPath ks, .tbl)],
                        cur := keyPath ks, curKey := keyPath ks } := by
        intro hn
        refine ⟨_, ?_, rfl⟩
        rw [step]
        simp only []
        rw [if_neg (by simpa using hn)]
        simp [findArrayPrefix, findArray, hr.arrays, maxPrefixLoop]
      have fin : ¬ HV σ1 (keyPath ks) → σs' = SSt.mk (define σ1 (keyPath ks) Kind.header) (keyPath ks)
            (σs.facts ++ [(keyPath ks, Leaf.tbl)]) →
          ∃ s', step s (.table ks) = .ok s' ∧ RelNA σs' s' := by
        intro hnhv he
        have hn : keyPath ks ∉ s.seen := fun hm => hnhv (st1 _ (hr.seen _ hm))
        obtain ⟨s', h1, e1⟩ := hnotseen hn
        refine ⟨s', h1, ?_⟩
        subst e1 he
        refine ⟨rfl, rfl, hr.arrays, ?_, noAot_define _ _ _ (by intro n; simp) na1, ?_⟩
        · simp only []; rw [← List.cons_append, hr.out]
        · intro k' hk'
          rcases List.mem_cons.1 hk' with e | e
          · subst e; exact hv_define _ _ _ (.inl rfl)
          · exact stable_define_hv _ _ _ (.inl rfl) _ (st1 _ (hr.seen _ e))
      split at hs
      · next hk => exact fin (by simp [HV, hk]) (by cases hs; rfl)
      · next hk => exact fin (by simp [HV, hk]) (by cases hs; rfl)
      · cases hs
      · cases hs

theorem run_na : ∀ (evs : List Ev) (σs σs' : SSt) (s : St), RelNA σs s →
    (∀ e ∈ evs, ∀ ks, e ≠ .arrayTable ks) → srun σs evs = .ok σs' →
    ∃ s', run s evs = .ok s' ∧ RelNA σs' s'
  | [], σs, σs', s, hr, _, h => by
    rw [srun] at h; cases h
    exact ⟨s, rfl, hr⟩
  | e :: es, σs, σs', s, hr, hna, h => by
    rw [srun] at h
    split at h
    · cases h
    · next σ1 h1 =>
      obtain ⟨s1, g1, r1⟩ := step_na _ _ _ _ hr (hna e (List.mem_cons_self ..)) h1
      obtain ⟨s2, g2, r2⟩ := run_na es _ _ _ r1 (fun e' he' => hna e' (List.mem_cons_of_mem _ he')) h
      refine ⟨s2, ?_, r2⟩
      rw [run, g1]; exact g2

theorem sameData_refl (a : List Fact) : SameData a a := fun _ => Iff.rfl

/-- `sem_partial` for documents without array-of-tables headers -/
theorem sem_partial_noarrays (evs : List Ev) (fs : List Fact)
    (hna : ∀ e ∈ evs, ∀ ks, e ≠ .arrayTable ks) (h : tomlSpec evs = .ok fs) :
    ∃ fs', decode evs = .ok fs' ∧ SameData fs fs' := by
  unfold tomlSpec at h
  split at h
  · cases h
  · next σs hs =>
    cases h
    obtain ⟨s', g, r⟩ := run_na evs _ _ _ relNA_init hna hs
    refine ⟨([], .tbl) :: s'.out, ?_, ?_⟩
    · unfold decode; rw [g]
    · rw [r.out]; exact sameData_refl _



/-! ### list-level facts about `findArray`, `maxPrefixLoop` and the slot of `findArrayPrefix`
(independent of the specification; ingredients of the general simulation) -/

theorem findArray_none {arrays : List OpenArr} {k : Path} (h : findArray arrays k = none) :
    ∀ a ∈ arrays, a.rkey ≠ k := by
  intro a ha e
  unfold findArray at h
  rw [List.findIdx?_eq_none_iff] at h
  have := h a ha
  simp [e] at this

theorem findArray_some {arrays : List OpenArr} {k : Path} {i : Nat}
    (h : findArray arrays k = some i) :
    ∃ a, arrays[i]? = some a ∧ a.rkey = k ∧
      ∀ j, j < i → ∀ b, arrays[j]? = some b → b.rkey ≠ k := by
  unfold findArray at h
  rw [List.findIdx?_eq_some_iff_getElem] at h
  obtain ⟨hi, hp, hlt⟩ := h
  refine ⟨arrays[i], by simp [hi], by simpa using hp, ?_⟩
  intro j hj b hb e
  have hjl : j < arrays.length := Nat.lt_trans hj hi
  have := hlt j hj
  rw [List.getElem?_eq_getElem hjl] at hb
  cases hb
  simp [e] at this

/-- the slot returned by `findArrayPrefix` survives the compaction when nothing at or before
it is deleted -/
theorem filter_slot {α} (f : α → Bool) : ∀ (l : List α) (i : Nat),
    (∀ j, j ≤ i → ∀ b, l[j]? = some b → f b = true) → (l.filter f)[i]? = l[i]?
  | [], i, _ => by simp
  | a :: l, 0, h => by
    have := h 0 (Nat.le_refl _) a (by simp)
    simp [this]
  | a :: l, i + 1, h => by
    have h0 := h 0 (Nat.zero_le _) a (by simp)
    simp only [List.filter_cons, h0, if_true, List.getElem?_cons_succ]
    exact filter_slot f l i (fun j hj b hb => h (j + 1) (Nat.succ_le_succ hj) b (by simpa using hb))

/-- state of the second loop of `findArrayPrefix` after scanning `pre` -/
def BestOk (key : Path) (pre : List OpenArr) (m : Nat) : Option Nat → Prop
  | none => m = 0 ∧ ∀ b ∈ pre, strictPrefix b.rkey key = true → b.level = 0
  | some j => ∃ a, pre[j]? = some a ∧ strictPrefix a.rkey key = true ∧ a.level = m ∧
      ∀ b ∈ pre, strictPrefix b.rkey key = true → b.level ≤ m

theorem maxPrefixLoop_spec (key : Path) : ∀ (l pre : List OpenArr) (m : Nat) (best : Option Nat),
    BestOk key pre m best →
    ∃ m', BestOk key (pre ++ l) m' (maxPrefixLoop key l pre.length m best)
  | [], pre, m, best, h => by
    rw [maxPrefixLoop]; exact ⟨m, by simpa using h⟩
  | a :: l, pre, m, best, h => by
    rw [maxPrefixLoop]
    have hlen : pre.length + 1 = (pre ++ [a]).length := by simp
    have happ : pre ++ a :: l = (pre ++ [a]) ++ l := by simp
    rw [happ, hlen]
    split
    · next hc =>
      simp only [Bool.and_eq_true, decide_eq_true_eq] at hc
      apply maxPrefixLoop_spec key l (pre ++ [a]) a.level (some pre.length)
      refine ⟨a, by simp, hc.1, rfl, ?_⟩
      intro b hb hsp
      rcases List.mem_append.1 hb with hb | hb
      · cases best with
        | none => have := h.2 b hb hsp; omega
        | some j =>
          obtain ⟨a0, _, _, e0, hall⟩ := h
          have := hall b hb hsp; omega
      · simp at hb; subst hb; exact Nat.le_refl _
    · next hc =>
      simp only [Bool.and_eq_true, decide_eq_true_eq, not_and, Nat.not_lt] at hc
      apply maxPrefixLoop_spec key l (pre ++ [a]) m best
      cases best with
      | none =>
        refine ⟨h.1, ?_⟩
        intro b hb hsp
        rcases List.mem_append.1 hb with hb | hb
        · exact h.2 b hb hsp
        · simp at hb; subst hb
          have := hc hsp; have := h.1; omega
      | some j =>
        obtain ⟨a0, g0, s0, e0, hall⟩ := h
        refine ⟨a0, ?_, s0, e0, ?_⟩
        · have hj : j < pre.length := by
            rcases Nat.lt_or_ge j pre.length with hn | hn
            · exact hn
            · rw [List.getElem?_eq_none hn] at g0; cases g0
          rw [List.getElem?_append_left hj]; exact g0
        · intro b hb hsp
          rcases List.mem_append.1 hb with hb | hb
          · exact hall b hb hsp
          · simp at hb; subst hb; exact hc hsp

theorem maxPrefixLoop_none {key : Path} {l : List OpenArr}
    (h : maxPrefixLoop key l 0 0 none = none) :
    ∀ b ∈ l, strictPrefix b.rkey key = true → b.level = 0 := by
  obtain ⟨m', hb⟩ := maxPrefixLoop_spec key l [] 0 none ⟨rfl, by simp⟩
  simp only [List.length_nil, List.nil_append] at hb
  rw [h] at hb
  exact hb.2

theorem maxPrefixLoop_some {key : Path} {l : List OpenArr} {i : Nat}
    (h : maxPrefixLoop key l 0 0 none = some i) :
    ∃ a, l[i]? = some a ∧ strictPrefix a.rkey key = true ∧
      ∀ b ∈ l, strictPrefix b.rkey key = true → b.level ≤ a.level := by
  obtain ⟨m', hb⟩ := maxPrefixLoop_spec key l [] 0 none ⟨rfl, by simp⟩
  simp only [List.length_nil, List.nil_append] at hb
  rw [h] at hb
  obtain ⟨a, g, sp, e, hall⟩ := hb
  exact ⟨a, g, sp, by rw [e]; exact hall⟩



/-! ### header resolution without store updates (ingredient of the general simulation) -/

/-- entering an array of tables at its last element -/
def enter (σ : Store) (p : Path) : Path :=
  match kindAt σ p with
  | some (.aot n) => p ++ [.idx (n - 1)]
  | _ => p

/-- the path a rooted key of the decoder designates in the store: labels enter arrays of
tables at their last element, explicit indices are literal -/
def res (σ : Store) : Path → Path → Path
  | p, [] => p
  | p, .key a :: k => res σ (enter σ p ++ [.key a]) k
  | p, .idx i :: k => res σ (p ++ [.idx i]) k

/-- the two stores have the same arrays of tables -/
def SameAot (σ σ' : Store) : Prop := ∀ r n, kindAt σ r = some (.aot n) ↔ kindAt σ' r = some (.aot n)

theorem SameAot.refl (σ : Store) : SameAot σ σ := fun _ _ => Iff.rfl
theorem SameAot.trans {a b c : Store} (h1 : SameAot a b) (h2 : SameAot b c) : SameAot a c :=
  fun r n => (h1 r n).trans (h2 r n)

theorem sameAot_define (σ : Store) (p : Path) (k : Kind) (hk : ∀ n, k ≠ .aot n)
    (hp : ∀ n, kindAt σ p ≠ some (.aot n)) : SameAot σ (define σ p k) := by
  intro r n
  rw [kindAt_define]
  by_cases e : p = r
  · subst e; simp [hp n, hk n]
  · simp [e]

theorem enter_congr {σ σ' : Store} (h : SameAot σ σ') (p : Path) : enter σ p = enter σ' p := by
  unfold enter
  cases h1 : kindAt σ p with
  | none =>
    cases h2 : kindAt σ' p with
    | none => rfl
    | some k2 =>
      cases k2 with
      | aot n => have := (h p n).2 h2; rw [h1] at this; cases this
      | _ => rfl
  | some k1 =>
    cases k1 with
    | aot n => have := (h p n).1 h1; rw [this]
    | _ =>
      cases h2 : kindAt σ' p with
      | none => rfl
      | some k2 =>
        cases k2 with
        | aot n => have := (h p n).2 h2; rw [h1] at this; cases this
        | _ => rfl

theorem res_congr {σ σ' : Store} (h : SameAot σ σ') : ∀ (k p : Path), res σ p k = res σ' p k
  | [], p => rfl
  | .key a :: k, p => by rw [res, res, enter_congr h, res_congr h k]
  | .idx i :: k, p => by rw [res, res, res_congr h k]

theorem res_append (σ : Store) : ∀ (k1 k2 p : Path), res σ p (k1 ++ k2) = res σ (res σ p k1) k2
  | [], k2, p => rfl
  | .key a :: k1, k2, p => by rw [List.cons_append, res, res, res_append σ k1 k2]
  | .idx i :: k1, k2, p => by rw [List.cons_append, res, res, res_append σ k1 k2]

theorem enter_aot {σ : Store} {p : Path} {n : Nat} (h : kindAt σ p = some (.aot n)) :
    enter σ p = p ++ [.idx (n - 1)] := by
  unfold enter; rw [h]

theorem enter_not {σ : Store} {p : Path} (h : ∀ n, kindAt σ p ≠ some (.aot n)) :
    enter σ p = p := by
  unfold enter
  split
  · next n hn => exact absurd hn (h n)
  · rfl

/-- `walkHeader` resolves the leading parts of a header like `res`, and only adds implicit
tables at undefined paths -/
theorem walkHeader_res : ∀ (ks : List Name) (σ : Store) (p : Path) (σ1 : Store) (q : Path),
    walkHeader σ (enter σ p) ks = .ok (σ1, q) →
    q = enter σ (res σ p (keyPath ks)) ∧ SameAot σ σ1 ∧ Stable σ σ1
  | [], σ, p, σ1, q, h => by
    rw [walkHeader] at h
    cases h
    exact ⟨rfl, SameAot.refl _, Stable.refl _⟩
  | k :: ks, σ, p, σ1, q, h => by
    rw [walkHeader] at h
    simp only [keyPath, List.map_cons, res]
    split at h
    · next hk =>
      have sa : SameAot σ (define σ (enter σ p ++ [Seg.key k]) .implicit) :=
        sameAot_define _ _ _ (by intro n; simp) (by intro n; simp [hk])
      have he : enter (define σ (enter σ p ++ [Seg.key k]) .implicit) (enter σ p ++ [Seg.key k])
          = enter σ p ++ [Seg.key k] := by
        rw [← enter_congr sa]; exact enter_not (by intro n; simp [hk])
      have h' : walkHeader (define σ (enter σ p ++ [Seg.key k]) .implicit)
          (enter (define σ (enter σ p ++ [Seg.key k]) .implicit) (enter σ p ++ [Seg.key k])) ks
          = .ok (σ1, q) := by rw [he]; exact h
      obtain ⟨a, b, c⟩ := walkHeader_res ks _ _ _ _ h'
      refine ⟨?_, sa.trans b, Stable.trans (stable_define_fresh _ _ _ (by simp [HV, hk])) c⟩
      rw [a, ← enter_congr sa, ← res_congr sa]; rfl
    · cases h
    · next n hk =>
      have he : enter σ (enter σ p ++ [Seg.key k]) = enter σ p ++ [Seg.key k] ++ [Seg.idx (n - 1)] :=
        enter_aot hk
      rw [← he] at h
      exact walkHeader_res ks _ _ _ _ h
    · next kd hk1 hk2 hk3 =>
      have he : enter σ (enter σ p ++ [Seg.key k]) = enter σ p ++ [Seg.key k] :=
        enter_not (by intro n hn; rw [hk3] at hn; cases hn; exact hk2 n rfl)
      rw [← he] at h
      exact walkHeader_res ks _ _ _ _ h


--NEXT

end CueVerif.Toml
