/-
C12 — the TOML decoder model versus the reference semantics (Spec/Toml.lean).
-/
import CueVerif.Spec.Toml
namespace CueVerif.Toml
open CueVerif.Toml.Spec

/-- The decoder is NOT the reference semantics: `a.b = 1` then `[a]` is rejected by the
specification and accepted by the decoder. -/
theorem sem_false : ¬ (∀ evs : List Ev,
    match tomlSpec evs, decode evs with
    | .ok a, .ok b => SameData a b
    | .error _, .error _ => True
    | _, _ => False) := by
  intro h
  have h1 := h [.kv [[97],[98]] (.sc ⟨1,[49]⟩), .table [[97]]]
  have hs : tomlSpec [.kv [[97],[98]] (.sc ⟨1,[49]⟩), .table [[97]]] = .error .redefined := by
    rfl
  have hd : decode [.kv [[97],[98]] (.sc ⟨1,[49]⟩), .table [[97]]] =
      .ok [([], .tbl), ([.key [97], .key [98]], .atom ⟨1,[49]⟩), ([.key [97]], .tbl)] := by
    rfl
  rw [hs, hd] at h1
  exact h1

end CueVerif.Toml
