/-
C12 — the TOML decoder model versus the reference semantics (Spec/Toml.lean).
-/
import CueVerif.Spec.Toml
namespace CueVerif.Toml
open CueVerif.Toml.Spec

/-- The decoder is NOT the reference semantics: `a.b = 1` then `[a]` is rejected by the
specification and accepted by the decoder. -/
theorem sem_false : ¬ (∀ evs : List Ev,
    match tomlSpec evs, decode evs with
    | .ok a, .ok b => SameData a b
    | .error _, .error _ => True
    | _, _ => False) := by
  intro h
  have h1 := h [.kv [[97],[98]] (.sc ⟨1,[49]⟩), .table [[97]]]
  have hs : tomlSpec [.kv [[97],[98]] (.sc ⟨1,[49]⟩), .table [[97]]] = .error .redefined := by
    rfl
  have hd : decode [.kv [[97],[98]] (.sc ⟨1,[49]⟩), .table [[97]]] =
      .ok [([], .tbl), ([.key [97], .key [98]], .atom ⟨1,[49]⟩), ([.key [97]], .tbl)] := by
    rfl
  rw [hs, hd] at h1
  exact h1

/-! ### what a value decoding appends (frame lemma) -/

/-- what a successful value decoding does to the state: appends facts, adds seen keys -/
def Post (s s' : St) (fs : List Fact) : Prop :=
  s'.out = s.out ++ fs ∧ s'.arrays = s.arrays ∧ s'.cur = s.cur ∧ s'.curKey = s.curKey

theorem Post.trans {s s1 s2 : St} {f1 f2 : List Fact} (h1 : Post s s1 f1) (h2 : Post s1 s2 f2) :
    Post s s2 (f1 ++ f2) := by
  obtain ⟨a1, b1, c1, d1⟩ := h1
  obtain ⟨a2, b2, c2, d2⟩ := h2
  refine ⟨?_, ?_, ?_, ?_⟩
  · rw [a2, a1, List.append_assoc]
  · rw [b2, b1]
  · rw [c2, c1]
  · rw [d2, d1]

mutual
theorem decodeExpr_frame : ∀ (v : Val) (rkey p : Path) (s s' : St),
    decodeExpr rkey p v s = .ok s' → Post s s' (v.facts p)
  | .sc a, rkey, p, s, s', h => by
    rw [decodeExpr] at h
    cases h
    simp [Post, Val.facts]
  | .arr xs, rkey, p, s, s', h => by
    rw [decodeExpr] at h
    have h2 := decodeElems_frame xs rkey p 0 _ s' h
    have h1 : Post s { s with out := s.out ++ [(p, Leaf.arr)] } [(p, Leaf.arr)] := by simp [Post]
    have := h1.trans h2
    simpa [Val.facts] using this
  | .inl kvs, rkey, p, s, s', h => by
    rw [decodeExpr] at h
    have h2 := decodeFields_frame kvs rkey p _ s' h
    have h1 : Post s { s with out := s.out ++ [(p, Leaf.tbl)] } [(p, Leaf.tbl)] := by simp [Post]
    have := h1.trans h2
    simpa [Val.facts] using this
theorem decodeElems_frame : ∀ (xs : List Val) (rkey p : Path) (i : Nat) (s s' : St),
    decodeElems rkey p i xs s = .ok s' → Post s s' (factsElems p i xs)
  | [], rkey, p, i, s, s', h => by
    rw [decodeElems] at h
    cases h
    simp [Post, factsElems]
  | x :: xs, rkey, p, i, s, s', h => by
    rw [decodeElems] at h
    split at h
    · cases h
    · next s1 h1 =>
      have a := decodeExpr_frame x _ _ _ _ h1
      have b := decodeElems_frame xs _ _ _ _ _ h
      have := a.trans b
      simpa [factsElems] using this
theorem decodeFields_frame : ∀ (kvs : List (List Name × Val)) (rkey p : Path) (s s' : St),
    decodeFields rkey p kvs s = .ok s' → Post s s' (factsFields p kvs)
  | [], rkey, p, s, s', h => by
    rw [decodeFields] at h
    cases h
    simp [Post, factsFields]
  | kv :: rest, rkey, p, s, s', h => by
    rw [decodeFields] at h
    split at h
    · cases h
    · split at h
      · cases h
      · split at h
        · cases h
        · next s1 h1 =>
          have a := decodeExpr_frame kv.2 _ _ _ _ h1
          have b := decodeFields_frame rest _ _ _ _ h
          have a' : Post s s1 (kv.2.facts (p ++ keyPath kv.1)) := a
          have := a'.trans b
          simpa [factsFields] using this
end


/-! ### store lemmas -/

theorem dropLast_getLast? {α} (l : List α) (a : α) (h : l.getLast? = some a) :
    l.dropLast ++ [a] = l := by
  have hne : l ≠ [] := by intro e; subst e; simp at h
  rw [List.getLast?_eq_some_getLast hne] at h
  cases h
  exact List.dropLast_concat_getLast hne

theorem kindAt_define (σ : Store) (p r : Path) (k : Kind) :
    kindAt (define σ p k) r = if p = r then some k else kindAt σ r := by
  unfold kindAt define
  by_cases h : p = r
  · simp [h]
  · simp [h]

/-- no array of tables in the store -/
def NoAot (σ : Store) : Prop := ∀ r n, kindAt σ r ≠ some (.aot n)

/-- a path that is a header table or a value: what the decoder's `seen` keys are -/
def HV (σ : Store) (r : Path) : Prop := kindAt σ r = some .header ∨ kindAt σ r = some .value

def Stable (σ σ' : Store) : Prop := ∀ r, HV σ r → HV σ' r

theorem Stable.refl (σ : Store) : Stable σ σ := fun _ h => h
theorem Stable.trans {a b c : Store} (h1 : Stable a b) (h2 : Stable b c) : Stable a c :=
  fun r h => h2 r (h1 r h)

theorem stable_define_hv (σ : Store) (p : Path) (k : Kind) (hk : k = .header ∨ k = .value) :
    Stable σ (define σ p k) := by
  intro r h
  unfold HV
  rw [kindAt_define]
  by_cases e : p = r
  · simp [e]; rcases hk with hk | hk <;> simp [hk]
  · simp [e]; exact h

theorem stable_define_fresh (σ : Store) (p : Path) (k : Kind) (hn : ¬ HV σ p) :
    Stable σ (define σ p k) := by
  intro r h
  unfold HV
  rw [kindAt_define]
  by_cases e : p = r
  · subst e; exact absurd h hn
  · simp [e]; exact h

theorem hv_define (σ : Store) (p : Path) (k : Kind) (hk : k = .header ∨ k = .value) :
    HV (define σ p k) p := by
  unfold HV; rw [kindAt_define]; simp; exact hk

theorem noAot_define (σ : Store) (p : Path) (k : Kind) (hk : ∀ n, k ≠ .aot n) (h : NoAot σ) :
    NoAot (define σ p k) := by
  intro r n
  rw [kindAt_define]
  by_cases e : p = r
  · simp [e]; exact hk n
  · simp [e]; exact h r n

theorem walkDotted_spec : ∀ (ks : List Name) (σ : Store) (cur : Path) (σ1 : Store) (q : Path),
    walkDotted σ cur ks = .ok (σ1, q) →
    q = cur ++ keyPath ks ∧ Stable σ σ1 ∧ (NoAot σ → NoAot σ1)
  | [], σ, cur, σ1, q, h => by
    rw [walkDotted] at h
    cases h
    simp [keyPath, Stable.refl]
  | k :: ks, σ, cur, σ1, q, h => by
    rw [walkDotted] at h
    split at h
    · next hk =>
      obtain ⟨a, b, c⟩ := walkDotted_spec ks _ _ _ _ h
      refine ⟨by simpa [keyPath] using a, ?_, ?_⟩
      · refine Stable.trans (stable_define_fresh _ _ _ ?_) b
        simp [HV, hk]
      · intro hn; exact c (noAot_define _ _ _ (by intro n; simp) hn)
    · obtain ⟨a, b, c⟩ := walkDotted_spec ks _ _ _ _ h
      exact ⟨by simpa [keyPath] using a, b, c⟩
    · cases h
    · cases h

theorem walkHeader_spec_na : ∀ (ks : List Name) (σ : Store) (cur : Path) (σ1 : Store) (q : Path),
    walkHeader σ cur ks = .ok (σ1, q) → NoAot σ →
    q = cur ++ keyPath ks ∧ Stable σ σ1 ∧ NoAot σ1
  | [], σ, cur, σ1, q, h, hn => by
    rw [walkHeader] at h
    cases h
    simp [keyPath, Stable.refl, hn]
  | k :: ks, σ, cur, σ1, q, h, hn => by
    rw [walkHeader] at h
    split at h
    · next hk =>
      obtain ⟨a, b, c⟩ := walkHeader_spec_na ks _ _ _ _ h
        (noAot_define _ _ _ (by intro n; simp) hn)
      refine ⟨by simpa [keyPath] using a, ?_, c⟩
      refine Stable.trans (stable_define_fresh _ _ _ ?_) b
      simp [HV, hk]
    · cases h
    · next n hk => exact absurd hk (hn _ _)
    · obtain ⟨a, b, c⟩ := walkHeader_spec_na ks _ _ _ _ h hn
      exact ⟨by simpa [keyPath] using a, b, c⟩



/-! ### documents without `[[array.of.tables]]` headers -/

def SeenInv (σ : Store) (seen : List Path) : Prop := ∀ k ∈ seen, HV σ k

theorem SeenInv.mono {σ σ' : Store} {seen : List Path} (h : SeenInv σ seen) (hs : Stable σ σ') :
    SeenInv σ' seen := fun k hk => hs k (h k hk)

/-- result of the value-level simulation -/
def Good (σ σ' : Store) (s' : St) : Prop :=
  SeenInv σ' s'.seen ∧ Stable σ σ' ∧ (NoAot σ → NoAot σ')

mutual
theorem decExpr_na : ∀ (v : Val) (p : Path) (s : St) (σ σ' : Store),
    defineVal p v σ = .ok σ' → s.arrays = [] → (∀ k ∈ s.seen, k = p ∨ HV σ k) →
    ∃ s', decodeExpr p p v s = .ok s' ∧ Good σ σ' s'
  | .sc a, p, s, σ, σ', hd, ha, hs => by
    rw [defineVal] at hd
    cases hd
    rw [decodeExpr]
    refine ⟨_, rfl, ?_, stable_define_hv _ _ _ (.inr rfl), noAot_define _ _ _ (by intro n; simp)⟩
    intro k hk
    rcases hs k hk with e | e
    · subst e; exact hv_define _ _ _ (.inr rfl)
    · exact stable_define_hv _ _ _ (.inr rfl) _ e
  | .arr xs, p, s, σ, σ', hd, ha, hs => by
    rw [defineVal] at hd
    rw [decodeExpr]
    have hs0 : SeenInv (define σ p .value) s.seen := by
      intro k hk
      rcases hs k hk with e | e
      · subst e; exact hv_define _ _ _ (.inr rfl)
      · exact stable_define_hv _ _ _ (.inr rfl) _ e
    obtain ⟨s', h1, g1, g2, g3⟩ := decElems_na xs p 0 { s with out := s.out ++ [(p, Leaf.arr)] } _ _ hd ha hs0
    exact ⟨s', h1, g1, (stable_define_hv _ _ _ (.inr rfl)).trans g2,
      fun hn => g3 (noAot_define _ _ _ (by intro n; simp) hn)⟩
  | .inl kvs, p, s, σ, σ', hd, ha, hs => by
    rw [defineVal] at hd
    rw [decodeExpr]
    have hs0 : SeenInv (define σ p .value) s.seen := by
      intro k hk
      rcases hs k hk with e | e
      · subst e; exact hv_define _ _ _ (.inr rfl)
      · exact stable_define_hv _ _ _ (.inr rfl) _ e
    obtain ⟨s', h1, g1, g2, g3⟩ := decFields_na kvs p { s with out := s.out ++ [(p, Leaf.tbl)] } _ _ hd ha hs0
    exact ⟨s', h1, g1, (stable_define_hv _ _ _ (.inr rfl)).trans g2,
      fun hn => g3 (noAot_define _ _ _ (by intro n; simp) hn)⟩
theorem decElems_na : ∀ (xs : List Val) (p : Path) (i : Nat) (s : St) (σ σ' : Store),
    defineElems p i xs σ = .ok σ' → s.arrays = [] → SeenInv σ s.seen →
    ∃ s', decodeElems p p i xs s = .ok s' ∧ Good σ σ' s'
  | [], p, i, s, σ, σ', hd, ha, hs => by
    rw [defineElems] at hd
    cases hd
    rw [decodeElems]
    exact ⟨_, rfl, hs, Stable.refl _, id⟩
  | x :: xs, p, i, s, σ, σ', hd, ha, hs => by
    rw [defineElems] at hd
    split at hd
    · cases hd
    · next σ1 hd1 =>
      obtain ⟨s1, h1, g1, g2, g3⟩ := decExpr_na x (p ++ [.idx i]) s σ σ1 hd1 ha
        (fun k hk => .inr (hs k hk))
      have ha1 : s1.arrays = [] := by rw [(decodeExpr_frame _ _ _ _ _ h1).2.1, ha]
      obtain ⟨s2, h2, k1, k2, k3⟩ := decElems_na xs p (i + 1) s1 σ1 σ' hd ha1 g1
      rw [decodeElems, h1]
      exact ⟨s2, h2, k1, g2.trans k2, fun hn => k3 (g3 hn)⟩
theorem decFields_na : ∀ (kvs : List (List Name × Val)) (p : Path) (s : St) (σ σ' : Store),
    defineFields p kvs σ = .ok σ' → s.arrays = [] → SeenInv σ s.seen →
    ∃ s', decodeFields p p kvs s = .ok s' ∧ Good σ σ' s'
  | [], p, s, σ, σ', hd, ha, hs => by
    rw [defineFields] at hd
    cases hd
    rw [decodeFields]
    exact ⟨_, rfl, hs, Stable.refl _, id⟩
  | kv :: rest, p, s, σ, σ', hd, ha, hs => by
    rw [defineFields] at hd
    split at hd
    · cases hd
    · cases hd
    · next k σ1 q hl hw =>
      simp only [] at hd
      split at hd
      · cases hd
      · next hnone =>
        split at hd
        · cases hd
        · next σ2 hd2 =>
          obtain ⟨hq, st1, na1⟩ := walkDotted_spec _ _ _ _ _ hw
          have hleaf : q ++ [Seg.key k] = p ++ keyPath kv.1 := by
            rw [hq, List.append_assoc]
            congr 1
            have := dropLast_getLast? _ _ hl
            rw [← this]; simp [keyPath]
          rw [hleaf] at hnone hd2
          have hnotseen : (p ++ keyPath kv.1) ∉ s.seen := by
            intro hm
            have := st1 _ (hs _ hm)
            simp [HV, hnone] at this
          have hs1 : ∀ k' ∈ (p ++ keyPath kv.1) :: s.seen, k' = p ++ keyPath kv.1 ∨ HV σ1 k' := by
            intro k' hk'
            rcases List.mem_cons.1 hk' with e | e
            · exact .inl e
            · exact .inr (st1 _ (hs _ e))
          obtain ⟨s1, h1, g1, g2, g3⟩ := decExpr_na kv.2 (p ++ keyPath kv.1)
            { s with seen := (p ++ keyPath kv.1) :: s.seen } σ1 σ2 hd2 ha hs1
          have ha1 : s1.arrays = [] := by rw [(decodeExpr_frame _ _ _ _ _ h1).2.1]; exact ha
          obtain ⟨s2, h2, k1, k2, k3⟩ := decFields_na rest p s1 σ2 σ' hd ha1 g1
          refine ⟨s2, ?_, k1, (st1.trans g2).trans k2, fun hn => k3 (g3 (na1 hn))⟩
          rw [decodeFields]
          have hfa : findArray s.arrays (p ++ keyPath kv.1) = none := by rw [ha]; rfl
          simp only [hfa, Option.isSome_none, Bool.false_eq_true, if_false]
          rw [if_neg (by simpa using hnotseen)]
          simp only [h1]
          exact h2
end


--NEXT

end CueVerif.Toml
