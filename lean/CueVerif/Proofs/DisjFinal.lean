/-
`finalizeDisjunctions` (Model/DisjFinal.lean): the emitted `Values` are a permutation of the
disjuncts, the first `NumDefaults` of them are exactly the isDefault disjuncts in their
original order, the rest are exactly the others (rotated).
-/
import CueVerif.Model.DisjFinal
namespace CueVerif.Disj
variable {V : Type}

/-- the loop invariant: `a[0:p]` = the defaults so far in order, `a[p:i]` a permutation of
the non-defaults so far -/
theorem finStep_inv (ds : List (Leaf V)) (st : List V × List V) :
    (ds.foldl finStep st).1 = st.1 ++ (ds.filter (·.dm = .isDef)).map (·.v) ∧
    (ds.foldl finStep st).2.Perm (st.2 ++ (ds.filter (fun x => ¬ x.dm = .isDef)).map (·.v)) := by
  induction ds generalizing st with
  | nil => simp
  | cons x xs ih =>
    obtain ⟨i1, i2⟩ := ih (finStep st x)
    simp only [List.foldl_cons]
    by_cases hx : x.dm = .isDef
    · have h1 : (finStep st x).1 = st.1 ++ [x.v] := by simp [finStep, hx]
      have h2 : (finStep st x).2.Perm st.2 := by
        simp only [finStep, hx, if_true]
        cases st.2 with
        | nil => exact List.Perm.refl _
        | cons o os => exact List.perm_append_comm
      refine ⟨?_, ?_⟩
      · rw [i1, h1]; simp [hx]
      · refine i2.trans ?_
        simp only [hx, not_true_eq_false, decide_false, Bool.false_eq_true, not_false_eq_true,
          List.filter_cons_of_neg]
        exact List.Perm.append_right _ h2
    · have h1 : (finStep st x).1 = st.1 := by simp [finStep, hx]
      have h2 : (finStep st x).2 = st.2 ++ [x.v] := by simp [finStep, hx]
      refine ⟨?_, ?_⟩
      · rw [i1, h1]; simp [hx]
      · refine i2.trans ?_
        rw [h2]; simp [hx]

/-- `Values[:NumDefaults]` are exactly the isDefault disjuncts, in their original order -/
theorem finalize_defaults (ds : List (Leaf V)) :
    (finalizeDisjunctions ds).1.take (finalizeDisjunctions ds).2 =
      (ds.filter (·.dm = .isDef)).map (·.v) := by
  unfold finalizeDisjunctions
  simp only
  rw [List.take_left']
  · exact (finStep_inv ds ([], [])).1
  · rfl

/-- `NumDefaults` = the number of isDefault disjuncts -/
theorem finalize_numDefaults (ds : List (Leaf V)) :
    (finalizeDisjunctions ds).2 = (ds.filter (·.dm = .isDef)).length := by
  unfold finalizeDisjunctions
  simp only
  rw [(finStep_inv ds ([], [])).1]; simp

/-- `Values` is a permutation of the disjuncts: nothing lost, nothing duplicated -/
theorem finalize_perm (ds : List (Leaf V)) :
    (finalizeDisjunctions ds).1.Perm (ds.map (·.v)) := by
  unfold finalizeDisjunctions
  simp only
  obtain ⟨i1, i2⟩ := finStep_inv ds ([], [])
  rw [i1]
  simp only [List.nil_append] at i2 ⊢
  refine (List.Perm.append_left _ i2).trans ?_
  rw [← List.map_append]
  simp only [decide_not]
  exact (List.filter_append_perm (fun x => decide (x.dm = Mode.isDef)) ds).map _

end CueVerif.Disj
