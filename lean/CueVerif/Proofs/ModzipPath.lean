/-
Proofs for the path half of C15: a name accepted by `module.CheckFilePath` is a `SafeName`
(relative, no empty / "." / ".." element, no backslash, colon or NUL), joining a `SafeName`
to a directory stays strictly beneath it, and such a name is its own `path.Clean`.
Core Lean only.
-/
import CueVerif.Spec.Modzip
namespace CueVerif.Modzip

/-! ### UTF-8 decoding never swallows an ASCII byte -/

theorem isCont_ge {b : Nat} (h : isCont b = true) : 128 ≤ b := by
  simp only [isCont, Bool.and_eq_true, decide_eq_true_eq] at h
  exact h.1

/-- what a successful `decodeRune` does to the ASCII bytes of its input: the rest is
shorter, and every ASCII byte of the input is the decoded rune or still in the rest -/
theorem decodeRune_some {b0 : Nat} {rest : Str} {r : Nat} {s' : Str}
    (h : decodeRune (b0 :: rest) = some (r, s')) :
    s'.length ≤ rest.length ∧ ∀ b, b ∈ b0 :: rest → b < 128 → (b = r ∨ b ∈ s') := by
  simp only [decodeRune] at h
  split at h
  · simp only [Option.some.injEq, Prod.mk.injEq] at h
    obtain ⟨rfl, rfl⟩ := h
    refine ⟨Nat.le_refl _, ?_⟩
    intro b hb _
    simpa using hb
  · rename_i h0
    split at h
    · -- two bytes
      split at h
      · rename_i b1 r1
        split at h
        · rename_i hc
          simp only [Option.some.injEq, Prod.mk.injEq] at h
          obtain ⟨-, rfl⟩ := h
          have := isCont_ge hc
          refine ⟨by simp, ?_⟩
          intro b hb hlt
          simp only [List.mem_cons] at hb
          rcases hb with rfl | rfl | hb
          · omega
          · omega
          · exact Or.inr hb
        · simp at h
      · simp at h
    · split at h
      · -- three bytes
        split at h
        · rename_i b1 b2 r1
          simp only [Option.ite_none_right_eq_some, Option.some.injEq, Prod.mk.injEq] at h
          obtain ⟨hc, -, rfl⟩ := h
          have := isCont_ge hc.2.2
          have h1 := hc.1
          have h1' : 128 ≤ b1 := by split at h1 <;> omega
          refine ⟨by simp only [List.length_cons]; omega, ?_⟩
          intro b hb hlt
          simp only [List.mem_cons] at hb
          rcases hb with rfl | rfl | rfl | hb
          · omega
          · omega
          · omega
          · exact Or.inr hb
        · simp at h
      · split at h
        · -- four bytes
          split at h
          · rename_i b1 b2 b3 r1
            simp only [Option.ite_none_right_eq_some, Option.some.injEq, Prod.mk.injEq] at h
            obtain ⟨hc, -, rfl⟩ := h
            have := isCont_ge hc.2.2.1
            have := isCont_ge hc.2.2.2
            have h1 := hc.1
            have h1' : 128 ≤ b1 := by split at h1 <;> omega
            refine ⟨by simp only [List.length_cons]; omega, ?_⟩
            intro b hb hlt
            simp only [List.mem_cons] at hb
            rcases hb with rfl | rfl | rfl | rfl | hb
            · omega
            · omega
            · omega
            · omega
            · exact Or.inr hb
          · simp at h
        · simp at h

theorem decodeRune_none_ge {b0 : Nat} {rest : Str} (h : decodeRune (b0 :: rest) = none) :
    128 ≤ b0 := by
  simp only [decodeRune] at h
  split at h
  · simp at h
  · omega

theorem mem_runesAux_of_ascii (f : Nat) (s : Str) (hf : s.length ≤ f) (b : Nat) (hb : b ∈ s)
    (hlt : b < 128) : b ∈ (runesAux f s).map (·.1) := by
  induction f generalizing s with
  | zero =>
    have : s = [] := List.length_eq_zero_iff.mp (by omega)
    subst this
    simp at hb
  | succ f ih =>
    cases s with
    | nil => simp at hb
    | cons b0 rest =>
      simp only [List.length_cons] at hf
      simp only [runesAux]
      split
      · rename_i r s' hd
        obtain ⟨hlen, hmem⟩ := decodeRune_some hd
        simp only [List.map_cons, List.mem_cons]
        rcases hmem b hb hlt with h | h
        · exact Or.inl h
        · exact Or.inr (ih s' (by omega) h)
      · rename_i hd
        have h0 := decodeRune_none_ge hd
        simp only [List.map_cons, List.mem_cons]
        simp only [List.mem_cons] at hb
        rcases hb with rfl | hb
        · omega
        · exact Or.inr (ih rest (by omega) hb)

/-- every ASCII byte of a string is one of the runes a range loop yields (lossy decoding never
swallows an ASCII byte) -/
theorem mem_runes_of_ascii (s : Str) (b : Nat) (hb : b ∈ s) (hlt : b < 128) : b ∈ runes s :=
  mem_runesAux_of_ascii s.length s (Nat.le_refl _) b hb hlt

/-! ### `splitOn` and `joinSlash` -/

theorem splitOn_ne_nil' (sep : Nat) (p : Str) : splitOn sep p ≠ [] := by
  cases p with
  | nil => simp [splitOn]
  | cons c cs =>
    unfold splitOn
    split
    · simp
    · split <;> simp

theorem splitOn_ne_nil (p : Str) : splitOn 47 p ≠ [] := splitOn_ne_nil' 47 p

theorem joinSlash_cons_cons (e e' : Str) (es : List Str) :
    joinSlash (e :: e' :: es) = e ++ 47 :: joinSlash (e' :: es) := rfl

theorem joinSlash_consb (c : Nat) (h : Str) (t : List Str) :
    joinSlash ((c :: h) :: t) = c :: joinSlash (h :: t) := by
  cases t <;> simp [joinSlash]

theorem joinSlash_nil_cons (e : Str) (es : List Str) :
    joinSlash ([] :: e :: es) = 47 :: joinSlash (e :: es) := rfl

/-- joinSlash (splitOn 47 p) = p -/
theorem joinSlash_splitOn (p : Str) : joinSlash (splitOn 47 p) = p := by
  induction p with
  | nil => simp [splitOn, joinSlash]
  | cons c cs ih =>
    unfold splitOn
    split
    · rename_i hc
      cases hs : splitOn 47 cs with
      | nil => exact absurd hs (splitOn_ne_nil cs)
      | cons h t =>
        rw [hs] at ih
        rw [joinSlash_nil_cons, ih, hc]
    · split
      · rename_i hs
        exact absurd hs (splitOn_ne_nil cs)
      · rename_i h t hs
        rw [hs] at ih
        rw [joinSlash_consb, ih]

theorem splitOn_no_sep (p : Str) : ∀ e ∈ splitOn 47 p, 47 ∉ e := by
  induction p with
  | nil => simp [splitOn]
  | cons c cs ih =>
    unfold splitOn
    split
    · intro e he
      simp only [List.mem_cons] at he
      rcases he with rfl | he
      · simp
      · exact ih e he
    · rename_i hc
      split
      · intro e he
        simp only [List.mem_cons, List.not_mem_nil, or_false] at he
        subst he
        simp only [List.mem_cons, List.not_mem_nil, or_false]
        exact fun h => hc h.symm
      · rename_i h t hs
        rw [hs] at ih
        intro e he
        simp only [List.mem_cons] at he
        rcases he with rfl | he
        · simp only [List.mem_cons, not_or]
          exact ⟨fun h => hc h.symm, ih h (List.mem_cons_self)⟩
        · exact ih e (List.mem_cons_of_mem _ he)

theorem splitOn_of_not_mem (e : Str) (h : 47 ∉ e) : splitOn 47 e = [e] := by
  induction e with
  | nil => rfl
  | cons c cs ih =>
    simp only [List.mem_cons, not_or] at h
    have hc : ¬ c = 47 := fun hc => h.1 hc.symm
    simp only [splitOn, hc, ↓reduceIte, ih h.2]

theorem splitOn_append_sep (e rest : Str) (h : 47 ∉ e) :
    splitOn 47 (e ++ 47 :: rest) = e :: splitOn 47 rest := by
  induction e with
  | nil => simp [splitOn]
  | cons c cs ih =>
    simp only [List.mem_cons, not_or] at h
    have hc : ¬ c = 47 := fun hc => h.1 hc.symm
    simp only [List.cons_append, splitOn, hc, ↓reduceIte, ih h.2]

/-- splitting a join of slash-free elements gives the elements back -/
theorem splitOn_joinSlash (es : List Str) (hne : es ≠ []) (h : ∀ e ∈ es, 47 ∉ e) :
    splitOn 47 (joinSlash es) = es := by
  induction es with
  | nil => exact absurd rfl hne
  | cons e es ih =>
    cases es with
    | nil => exact splitOn_of_not_mem e (h e (List.mem_cons_self))
    | cons e' es =>
      rw [joinSlash_cons_cons, splitOn_append_sep e _ (h e (List.mem_cons_self)),
        ih (by simp) (fun x hx => h x (List.mem_cons_of_mem _ hx))]

/-- a byte of a joined string is a slash or a byte of one of the elements -/
theorem mem_joinSlash {b : Nat} (es : List Str) (hb : b ∈ joinSlash es) :
    b = 47 ∨ ∃ e ∈ es, b ∈ e := by
  induction es with
  | nil => simp [joinSlash] at hb
  | cons e es ih =>
    cases es with
    | nil => exact Or.inr ⟨e, List.mem_cons_self, hb⟩
    | cons e' es =>
      rw [joinSlash_cons_cons] at hb
      simp only [List.mem_append, List.mem_cons] at hb
      rcases hb with hb | hb | hb
      · exact Or.inr ⟨e, List.mem_cons_self, hb⟩
      · exact Or.inl hb
      · rcases ih hb with h | ⟨x, hx, hbx⟩
        · exact Or.inl h
        · exact Or.inr ⟨x, List.mem_cons_of_mem _ hx, hbx⟩

/-! ### `checkElem` / `checkElems` -/

theorem fileNameOK_bad (il : Nat → Bool) (b : Nat) (h : fileNameOK il b = true) (hlt : b < 128) :
    b ≠ 92 ∧ b ≠ 58 ∧ b ≠ 0 := by
  refine ⟨?_, ?_, ?_⟩ <;> rintro rfl <;> simp [fileNameOK, fileNameAllowed] at h

theorem isDotsOnly_sDot : isDotsOnly sDot = true := by decide
theorem isDotsOnly_sDotDot : isDotsOnly sDotDot = true := by decide

/-- what a successful `checkElem` guarantees (the part needed here) -/
theorem checkElem_none {U : Uni} {e : Str} (h : checkElem U e = none) :
    e ≠ [] ∧ e ≠ sDot ∧ e ≠ sDotDot ∧ ∀ b ∈ e, b ≠ 92 ∧ b ≠ 58 ∧ b ≠ 0 := by
  unfold checkElem at h
  split at h
  · simp at h
  · rename_i hemp
    split at h
    · simp at h
    · rename_i hdots
      split at h
      · simp at h
      · split at h
        · simp at h
        · rename_i hall
          refine ⟨?_, ?_, ?_, ?_⟩
          · rintro rfl; simp at hemp
          · rintro rfl; exact hdots isDotsOnly_sDot
          · rintro rfl; exact hdots isDotsOnly_sDotDot
          · intro b hb
            by_cases hlt : b < 128
            · have hall : (runes e).all (fileNameOK U.isLetter) = true := by simpa using hall
              have := List.all_eq_true.mp hall b (mem_runes_of_ascii e b hb hlt)
              exact fileNameOK_bad _ b this hlt
            · omega

theorem checkElems_none {U : Uni} {es : List Str} (h : checkElems U es = none) :
    ∀ e ∈ es, checkElem U e = none := by
  induction es with
  | nil => simp
  | cons e es ih =>
    unfold checkElems at h
    split at h
    · simp at h
    · rename_i he
      intro x hx
      simp only [List.mem_cons] at hx
      rcases hx with rfl | hx
      · exact he
      · exact ih h x hx

/-- what a successful `checkFilePath` guarantees before the element checks -/
theorem checkFilePath_none {U : Uni} {p : Str} (h : checkFilePath U p = none) :
    p ≠ [] ∧ p.getLast? ≠ some 47 ∧ checkElems U (splitOn 47 p) = none := by
  unfold checkFilePath at h
  split at h
  · simp at h
  · split at h
    · simp at h
    · rename_i hemp
      split at h
      · simp at h
      · split at h
        · simp at h
        · rename_i hlast
          refine ⟨?_, ?_, h⟩
          · rintro rfl; simp at hemp
          · simpa using hlast

/-- the core: a name accepted by CheckFilePath is a SafeName -/
theorem checkFilePath_safe (U : Uni) (p : Str) (h : checkFilePath U p = none) : SafeName p := by
  obtain ⟨-, -, hes⟩ := checkFilePath_none h
  have hel := checkElems_none hes
  refine ⟨splitOn 47 p, splitOn_ne_nil p, (joinSlash_splitOn p).symm, ?_, ?_⟩
  · intro e he
    obtain ⟨h1, h2, h3, -⟩ := checkElem_none (hel e he)
    exact ⟨h1, h2, h3, splitOn_no_sep p e he⟩
  · intro b hb
    rw [← joinSlash_splitOn p] at hb
    rcases mem_joinSlash _ hb with rfl | ⟨e, he, hbe⟩
    · omega
    · exact (checkElem_none (hel e he)).2.2.2 b hbe

/-! ### `filepath.Join` of a safe name -/

theorem joinElems_of_plain (st es : List Str)
    (h : ∀ e ∈ es, e ≠ [] ∧ e ≠ sDot ∧ e ≠ sDotDot) : joinElems st es = es.reverse ++ st := by
  induction es generalizing st with
  | nil => simp [joinElems]
  | cons e es ih =>
    obtain ⟨h1, h2, h3⟩ := h e (List.mem_cons_self)
    have h1' : e.isEmpty = false := by simpa using h1
    have h2' : (e == sDot) = false := by simpa using h2
    have h3' : (e == sDotDot) = false := by simpa using h3
    simp only [joinElems, h1', h2', h3', Bool.or_self, Bool.false_eq_true, ↓reduceIte]
    rw [ih _ (fun x hx => h x (List.mem_cons_of_mem _ hx))]
    simp

/-- joining a SafeName to any directory appends its elements: the result is strictly beneath
the directory -/
theorem fjoin_of_safe (dir : Path) (p : Str) (h : SafeName p) :
    fjoin dir p = dir ++ splitOn 47 p ∧ StrictUnder dir (fjoin dir p) := by
  obtain ⟨es, hne, rfl, hes, -⟩ := h
  have hsplit : splitOn 47 (joinSlash es) = es :=
    splitOn_joinSlash es hne (fun e he => (hes e he).2.2.2)
  have hj : fjoin dir (joinSlash es) = dir ++ es := by
    unfold fjoin
    rw [hsplit, joinElems_of_plain _ _ (fun e he => ⟨(hes e he).1, (hes e he).2.1, (hes e he).2.2.1⟩)]
    simp
  rw [hsplit]
  exact ⟨hj, es, hne, hj⟩

/-! ### `path.Clean` of an accepted name -/

theorem cleanElems_of_plain (rooted : Bool) (es st : List Str)
    (h : ∀ e ∈ es, e ≠ [] ∧ e ≠ sDot ∧ e ≠ sDotDot) :
    cleanElems rooted es st = st.reverse ++ es := by
  induction es generalizing st with
  | nil => simp [cleanElems]
  | cons e es ih =>
    obtain ⟨h1, h2, h3⟩ := h e (List.mem_cons_self)
    have h1' : e.isEmpty = false := by simpa using h1
    have h2' : (e == sDot) = false := by simpa using h2
    have h3' : (e == sDotDot) = false := by simpa using h3
    simp only [cleanElems, h1', h2', h3', Bool.or_self, Bool.false_eq_true, ↓reduceIte]
    rw [ih _ (fun x hx => h x (List.mem_cons_of_mem _ hx))]
    simp

theorem splitOn_head_of_slash (cs : Str) : ∃ t, splitOn 47 (47 :: cs) = [] :: t := by
  exact ⟨splitOn 47 cs, by simp [splitOn]⟩

/-- a name accepted by CheckFilePath is not absolute, does not end in a slash, and is its own
path.Clean -/
theorem checkFilePath_clean (U : Uni) (p : Str) (h : checkFilePath U p = none) :
    pathClean p = p ∧ isAbs p = false ∧ p.getLast? ≠ some 47 := by
  obtain ⟨hne, hlast, hes⟩ := checkFilePath_none h
  have hel := checkElems_none hes
  have hplain : ∀ e ∈ splitOn 47 p, e ≠ [] ∧ e ≠ sDot ∧ e ≠ sDotDot := by
    intro e he
    obtain ⟨h1, h2, h3, -⟩ := checkElem_none (hel e he)
    exact ⟨h1, h2, h3⟩
  have habs : (p.head? == some 47) = false := by
    cases p with
    | nil => exact absurd rfl hne
    | cons c cs =>
      simp only [List.head?_cons, beq_eq_false_iff_ne, ne_eq, Option.some.injEq]
      rintro rfl
      obtain ⟨t, ht⟩ := splitOn_head_of_slash cs
      exact (hplain [] (by rw [ht]; exact List.mem_cons_self)).1 rfl
  refine ⟨?_, habs, hlast⟩
  have hemp : p.isEmpty = false := by simpa using hne
  simp only [pathClean, hemp, habs, Bool.false_eq_true, ↓reduceIte]
  rw [cleanElems_of_plain _ _ _ hplain]
  simp only [List.reverse_nil, List.nil_append, joinSlash_splitOn, hemp, Bool.false_eq_true,
    ↓reduceIte]

end CueVerif.Modzip
