/-
C13 — CUE literal equality (`CCm.litEq`: numbers equal by value AND by int/float-ness) coincides
with JSON Schema equality (`JS.jeq`) on NORMAL-FORM data: every integral number is written as an
int literal, denominators are positive.  This is the lemma the enum / const / uniqueItems steps
need (the region outside it is the known deviation `number-literal-form`).  Core Lean only.
-/
import CueVerif.Model.JsonSchemaCC
namespace CueVerif.CCm
open CueVerif.JS

/-- a number in normal form: positive denominator, and integral ⇒ written as an int literal -/
def normalNum (x : Num) : Bool := x.den != 0 && (!x.isInt || isIntLit x)

mutual
def normal : Json → Bool
  | .num x => normalNum x
  | .arr xs => normalList xs
  | .obj kvs => normalObj kvs
  | _ => true
def normalList : List Json → Bool
  | [] => true
  | x :: r => normal x && normalList r
def normalObj : List (String × Json) → Bool
  | [] => true
  | (_, v) :: r => normal v && normalObj r
end

theorem isInt_of_lit (x : Num) (h : isIntLit x = true) : x.isInt = true := by
  simp only [isIntLit, beq_iff_eq] at h
  simp [Num.isInt, h, Int.emod_one]

/-- value-equal numbers in normal form agree on being int literals -/
theorem lit_of_eq (a b : Num) (hb : normalNum b = true) (he : a.eq b = true)
    (ha : isIntLit a = true) : isIntLit b = true := by
  simp only [normalNum, Bool.and_eq_true, bne_iff_ne, ne_eq, Bool.or_eq_true, Bool.not_eq_true'] at hb
  simp only [isIntLit, beq_iff_eq] at ha
  simp only [Num.eq, decide_eq_true_eq, ha, Int.natCast_one, Int.mul_one] at he
  rcases hb.2 with h | h
  · -- b would not be integral, but b.num = a.num * b.den
    have : b.isInt = true := by
      simp only [Num.isInt, decide_eq_true_eq]
      rw [← he]
      exact Int.mul_emod_left _ _
    rw [this] at h; cases h
  · exact h

theorem numEq_normal (a b : Num) (ha : normalNum a = true) (hb : normalNum b = true) :
    (a.eq b && (isIntLit a == isIntLit b)) = a.eq b := by
  cases he : a.eq b
  · rfl
  · have hsym : b.eq a = true := by
      simp only [Num.eq, decide_eq_true_eq] at he ⊢
      exact he.symm
    cases h1 : isIntLit a <;> cases h2 : isIntLit b <;> simp
    · have := lit_of_eq b a ha hsym h2; rw [h1] at this; cases this
    · have := lit_of_eq a b hb he h1; rw [h2] at this; cases this

theorem find_normal (k : String) : ∀ (b : List (String × Json)) (p : String × Json),
    normalObj b = true → b.find? (fun q => q.1 == k) = some p → normal p.2 = true
  | [], _, _, h => by simp at h
  | (k', v) :: r, p, hn, h => by
    simp only [normalObj, Bool.and_eq_true] at hn
    rw [List.find?_cons] at h
    split at h
    · cases h; exact hn.1
    · exact find_normal k r p hn.2 h

mutual
theorem litEq_eq_jeq : ∀ (a b : Json), normal a = true → normal b = true → litEq a b = jeq a b
  | .null, b, _, _ => by cases b <;> rfl
  | .bool _, b, _, _ => by cases b <;> rfl
  | .str _, b, _, _ => by cases b <;> rfl
  | .num x, b, ha, hb => by
    cases b with
    | num y => simp only [litEq, jeq]; exact numEq_normal x y (by simpa [normal] using ha) (by simpa [normal] using hb)
    | _ => rfl
  | .arr xs, b, ha, hb => by
    cases b with
    | arr ys =>
      simp only [litEq, jeq]
      exact litEqList_eq xs ys (by simpa [normal] using ha) (by simpa [normal] using hb)
    | _ => rfl
  | .obj kvs, b, ha, hb => by
    cases b with
    | obj kvs' =>
      simp only [litEq, jeq]
      rw [litEqObj_eq kvs kvs' (by simpa [normal] using ha) (by simpa [normal] using hb)]
    | _ => rfl
theorem litEqList_eq : ∀ (xs ys : List Json), normalList xs = true → normalList ys = true →
    litEqList xs ys = jeqList xs ys
  | [], ys, _, _ => by cases ys <;> rfl
  | x :: xs, [], _, _ => rfl
  | x :: xs, y :: ys, ha, hb => by
    simp only [normalList, Bool.and_eq_true] at ha hb
    simp only [litEqList, jeqList]
    rw [litEq_eq_jeq x y ha.1 hb.1, litEqList_eq xs ys ha.2 hb.2]
theorem litEqObj_eq : ∀ (a b : List (String × Json)), normalObj a = true → normalObj b = true →
    litEqObj a b = jeqObj a b
  | [], _, _, _ => rfl
  | (k, v) :: rest, b, ha, hb => by
    simp only [normalObj, Bool.and_eq_true] at ha
    simp only [litEqObj, jeqObj]
    rw [litEqObj_eq rest b ha.2 hb]
    cases hf : b.find? (fun p => p.1 == k) with
    | none => rfl
    | some p => simp only []; rw [litEq_eq_jeq v p.2 ha.1 (find_normal k b p hb hf)]
end

/-- `list.UniqueItems` (CUE equality) = JSON Schema `uniqueItems` on normal-form arrays -/
theorem allDistinctLit_eq (xs : List Json) (h : normalList xs = true) :
    allDistinctLit xs = allDistinct xs := by
  induction xs with
  | nil => rfl
  | cons x r ih =>
    simp only [normalList, Bool.and_eq_true] at h
    simp only [allDistinctLit, allDistinct]
    rw [ih h.2]
    congr 2
    clear ih
    have hr := h.2
    induction r with
    | nil => rfl
    | cons y r' ih' =>
      simp only [normalList, Bool.and_eq_true] at hr
      simp only [List.any_cons]
      rw [litEq_eq_jeq x y h.1 hr.1, ih' ⟨h.1, hr.2⟩ hr.2]

end CueVerif.CCm
