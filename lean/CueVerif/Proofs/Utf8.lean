/-
UTF-8 and hex-digit facts about the model in Model/Quote.lean (core Lean only):
`decodeRune` / `encodeRune` are mutually inverse on well-formed multi-byte sequences resp.
Unicode scalar values >= 0x80, width and byte-range facts, and `hexVal` inverts the
`hexDigit` expansions used by `escapeBody` / `escapeLoop`.
-/
import CueVerif.Model.Quote
namespace CueVerif.Quote

/-! ### decodeRune: basic shape -/

theorem decodeRune_ascii (b : Nat) (t : Bytes) (h : b < 0x80) : decodeRune (b :: t) = (b, 1) := by
  simp only [decodeRune, if_pos h]

theorem decodeRune_width_pos (b : Nat) (t : Bytes) :
    1 ≤ (decodeRune (b :: t)).2 ∧ (decodeRune (b :: t)).2 ≤ 4 := by
  simp only [decodeRune]
  repeat' split
  all_goals simp

theorem decodeRune_width_one (b : Nat) (t : Bytes) (h : (decodeRune (b :: t)).2 = 1) :
    (decodeRune (b :: t)).1 = b ∧ b < 0x80 ∨ (decodeRune (b :: t)).1 = 0xFFFD ∧ 0x80 ≤ b := by
  generalize hp : decodeRune (b :: t) = p at h ⊢
  simp only [decodeRune] at hp
  repeat' split at hp
  all_goals subst hp
  all_goals (first | (simp at h; done) | (simp; omega))

/-! ### decode then encode -/

theorem encodeRune_two (b0 b1 : Nat) (h0 : 0xC2 ≤ b0) (h0' : b0 < 0xE0) (h1 : 0x80 ≤ b1) (h1' : b1 ≤ 0xBF) :
    encodeRune ((b0 - 0xC0) * 64 + (b1 - 0x80)) = [b0, b1] := by
  unfold encodeRune
  repeat' split
  all_goals simp only [Bool.or_eq_true, Bool.and_eq_true, decide_eq_true_eq, List.cons.injEq, and_true] at *
  all_goals omega

theorem encodeRune_three (b0 b1 b2 : Nat) (h0 : 0xE0 ≤ b0) (h0' : b0 < 0xF0)
    (h1 : 0x80 ≤ b1) (h1' : b1 ≤ 0xBF) (hlo : b0 = 0xE0 → 0xA0 ≤ b1) (hhi : b0 = 0xED → b1 ≤ 0x9F)
    (h2 : 0x80 ≤ b2) (h2' : b2 ≤ 0xBF) :
    encodeRune ((b0 - 0xE0) * 4096 + (b1 - 0x80) * 64 + (b2 - 0x80)) = [b0, b1, b2] := by
  unfold encodeRune
  repeat' split
  all_goals simp only [Bool.or_eq_true, Bool.and_eq_true, decide_eq_true_eq, List.cons.injEq, and_true] at *
  all_goals omega

theorem encodeRune_four (b0 b1 b2 b3 : Nat) (h0 : 0xF0 ≤ b0) (h0' : b0 < 0xF5)
    (h1 : 0x80 ≤ b1) (h1' : b1 ≤ 0xBF) (hlo : b0 = 0xF0 → 0x90 ≤ b1) (hhi : b0 = 0xF4 → b1 ≤ 0x8F)
    (h2 : 0x80 ≤ b2) (h2' : b2 ≤ 0xBF) (h3 : 0x80 ≤ b3) (h3' : b3 ≤ 0xBF) :
    encodeRune ((b0 - 0xF0) * 262144 + (b1 - 0x80) * 4096 + (b2 - 0x80) * 64 + (b3 - 0x80)) =
      [b0, b1, b2, b3] := by
  unfold encodeRune
  repeat' split
  all_goals simp only [Bool.or_eq_true, Bool.and_eq_true, decide_eq_true_eq, List.cons.injEq, and_true] at *
  all_goals omega

theorem encodeRune_decodeRune (s : Bytes) (h : 2 ≤ (decodeRune s).2) :
    encodeRune (decodeRune s).1 = s.take (decodeRune s).2 ∧ (decodeRune s).2 ≤ s.length ∧
    0x80 ≤ (decodeRune s).1 ∧ (decodeRune s).1 ≤ 0x10FFFF ∧
    ¬ (0xD800 ≤ (decodeRune s).1 ∧ (decodeRune s).1 < 0xE000) := by
  generalize hp : decodeRune s = p at h ⊢
  unfold decodeRune at hp
  repeat' split at hp
  all_goals subst hp
  all_goals first | (simp at h; done) | skip
  all_goals simp only [Bool.and_eq_true, decide_eq_true_eq, isCont] at *
  all_goals refine ⟨?_, by simp, by omega, by omega, by omega⟩
  all_goals first
    | guard_hyp h : 2 ≤ 2; exact (encodeRune_two _ _ (by omega) (by omega) (by omega) (by omega)).trans rfl
    | guard_hyp h : 2 ≤ 3; exact (encodeRune_three _ _ _ (by omega) (by omega) (by omega) (by omega) (by omega) (by omega)
        (by omega) (by omega)).trans rfl
    | guard_hyp h : 2 ≤ 4; exact (encodeRune_four _ _ _ _ (by omega) (by omega) (by omega) (by omega) (by omega) (by omega)
        (by omega) (by omega) (by omega) (by omega)).trans rfl

/-! ### encode then decode -/

theorem decodeRune_two (b0 b1 : Nat) (t : Bytes) (h0 : 0xC2 ≤ b0) (h0' : b0 < 0xE0)
    (h1 : 0x80 ≤ b1) (h1' : b1 ≤ 0xBF) :
    decodeRune (b0 :: b1 :: t) = ((b0 - 0xC0) * 64 + (b1 - 0x80), 2) := by
  simp only [decodeRune]
  repeat' split
  all_goals try simp only [isCont, Bool.and_eq_true, decide_eq_true_eq, Prod.mk.injEq] at *
  all_goals omega

theorem decodeRune_three (b0 b1 b2 : Nat) (t : Bytes) (h0 : 0xE0 ≤ b0) (h0' : b0 < 0xF0)
    (h1 : 0x80 ≤ b1) (h1' : b1 ≤ 0xBF) (hlo : b0 = 0xE0 → 0xA0 ≤ b1) (hhi : b0 = 0xED → b1 ≤ 0x9F)
    (h2 : 0x80 ≤ b2) (h2' : b2 ≤ 0xBF) :
    decodeRune (b0 :: b1 :: b2 :: t) = ((b0 - 0xE0) * 4096 + (b1 - 0x80) * 64 + (b2 - 0x80), 3) := by
  simp only [decodeRune]
  repeat' split
  all_goals try simp only [isCont, Bool.and_eq_true, decide_eq_true_eq, Prod.mk.injEq] at *
  all_goals omega

theorem decodeRune_four (b0 b1 b2 b3 : Nat) (t : Bytes) (h0 : 0xF0 ≤ b0) (h0' : b0 < 0xF5)
    (h1 : 0x80 ≤ b1) (h1' : b1 ≤ 0xBF) (hlo : b0 = 0xF0 → 0x90 ≤ b1) (hhi : b0 = 0xF4 → b1 ≤ 0x8F)
    (h2 : 0x80 ≤ b2) (h2' : b2 ≤ 0xBF) (h3 : 0x80 ≤ b3) (h3' : b3 ≤ 0xBF) :
    decodeRune (b0 :: b1 :: b2 :: b3 :: t) =
      ((b0 - 0xF0) * 262144 + (b1 - 0x80) * 4096 + (b2 - 0x80) * 64 + (b3 - 0x80), 4) := by
  simp only [decodeRune]
  repeat' split
  all_goals try simp only [isCont, Bool.and_eq_true, decide_eq_true_eq, Prod.mk.injEq] at *
  all_goals omega

theorem decodeRune_encodeRune (r : Nat) (t : Bytes) (h1 : 0x80 ≤ r) (h2 : r ≤ 0x10FFFF)
    (h3 : ¬ (0xD800 ≤ r ∧ r < 0xE000)) :
    decodeRune (encodeRune r ++ t) = (r, (encodeRune r).length) := by
  unfold encodeRune
  split
  · omega
  split
  · rw [List.cons_append, List.cons_append, List.nil_append,
      decodeRune_two _ _ _ (by omega) (by omega) (by omega) (by omega)]
    simp only [Prod.mk.injEq, List.length_cons, List.length_nil, and_true]
    omega
  split
  · rename_i hc
    simp only [Bool.or_eq_true, Bool.and_eq_true, decide_eq_true_eq] at hc
    omega
  split
  · rw [List.cons_append, List.cons_append, List.cons_append, List.nil_append,
      decodeRune_three _ _ _ _ (by omega) (by omega) (by omega) (by omega) (by omega) (by omega)
        (by omega) (by omega)]
    simp only [Prod.mk.injEq, List.length_cons, List.length_nil, and_true]
    omega
  · rw [List.cons_append, List.cons_append, List.cons_append, List.cons_append, List.nil_append,
      decodeRune_four _ _ _ _ _ (by omega) (by omega) (by omega) (by omega) (by omega) (by omega)
        (by omega) (by omega) (by omega) (by omega)]
    simp only [Prod.mk.injEq, List.length_cons, List.length_nil, and_true]
    omega

theorem encodeRune_length (r : Nat) (h1 : 0x80 ≤ r) :
    2 ≤ (encodeRune r).length ∧ (encodeRune r).length ≤ 4 := by
  unfold encodeRune
  repeat' split
  all_goals simp only [List.length_cons, List.length_nil]
  all_goals omega

theorem encodeRune_bytes_high (r : Nat) (h1 : 0x80 ≤ r) : ∀ b ∈ encodeRune r, 0x80 ≤ b ∧ b < 256 := by
  intro b hb
  unfold encodeRune at hb
  repeat' split at hb
  all_goals simp only [List.mem_cons, List.mem_nil_iff, or_false, Bool.or_eq_true, Bool.and_eq_true,
    decide_eq_true_eq] at *
  all_goals omega

theorem encodeRune_ascii (r : Nat) (h : r < 0x80) : encodeRune r = [r] := by
  simp only [encodeRune, if_pos h]

theorem encodeRune_FFFD : encodeRune 0xFFFD = [0xEF, 0xBF, 0xBD] := by decide

theorem decodeRune_FFFD (t : Bytes) : decodeRune (0xEF :: 0xBF :: 0xBD :: t) = (0xFFFD, 3) := by
  rw [decodeRune_three _ _ _ _ (by omega) (by omega) (by omega) (by omega) (by omega) (by omega)
    (by omega) (by omega)]

theorem unhexByte_hexDigit (d : Nat) (h : d < 16) : unhexByte (hexDigit d) = some d := by
  unfold hexDigit unhexByte
  repeat' split
  all_goals simp only [Option.some.injEq, reduceCtorEq]
  all_goals omega

theorem unhexByte_hexDigit_mod (x : Nat) : unhexByte (hexDigit (x % 16)) = some (x % 16) :=
  unhexByte_hexDigit _ (Nat.mod_lt _ (by decide))

theorem hexVal_two (v : Nat) (h : v < 256) :
    hexVal [hexDigit (v / 16 % 16), hexDigit (v % 16)] 0 = some v := by
  simp only [hexVal, unhexByte_hexDigit_mod, Option.some.injEq]
  omega

theorem hexVal_four (r : Nat) (h : r < 65536) :
    hexVal [hexDigit (r / 4096 % 16), hexDigit (r / 256 % 16), hexDigit (r / 16 % 16),
      hexDigit (r % 16)] 0 = some r := by
  simp only [hexVal, unhexByte_hexDigit_mod, Option.some.injEq]
  omega

theorem hexVal_eight (r : Nat) (h : r < 4294967296) :
    hexVal [hexDigit (r / 268435456 % 16), hexDigit (r / 16777216 % 16), hexDigit (r / 1048576 % 16),
      hexDigit (r / 65536 % 16), hexDigit (r / 4096 % 16), hexDigit (r / 256 % 16),
      hexDigit (r / 16 % 16), hexDigit (r % 16)] 0 = some r := by
  simp only [hexVal, unhexByte_hexDigit_mod, Option.some.injEq]
  omega

theorem hexDigit_range (d : Nat) (h : d < 16) :
    (48 ≤ hexDigit d ∧ hexDigit d ≤ 57) ∨ (97 ≤ hexDigit d ∧ hexDigit d ≤ 102) := by
  unfold hexDigit
  split <;> omega

end CueVerif.Quote
