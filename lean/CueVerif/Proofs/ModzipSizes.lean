import CueVerif.Spec.Modzip
/-!
Size / validity accounting of `checkZip` and `checkFiles` (C15).

Both functions are a `List.foldl` of a step function from the initial state `{}`.  The facts
used: `cf.invalid` only grows and `cf.sizeError` is sticky (general lemmas below), so a final
report without error means that every step took a branch that adds no invalid entry and sets
no size error.

`checkZip_ok` needs the extra hypothesis that the declared sizes are 64-bit values
(`ZEnt.declared` is an unbounded `Nat` in the model and `toInt64` of `2^64` is `0`); the
version without that hypothesis, phrased with `toInt64`, is `checkZip_ok64`.
-/
namespace CueVerif.Modzip

/-! ### toInt64 -/

theorem toInt64_of_nonneg {n : Nat} (h : n < 18446744073709551616) (h0 : 0 ≤ toInt64 n) :
    n < 9223372036854775808 ∧ toInt64 n = (n : Int) := by
  unfold toInt64 at *
  split at h0
  · rename_i h1; simp [h1]
  · omega

theorem toInt64_of_lt {n : Nat} (h : n < 9223372036854775808) : toInt64 n = (n : Int) := by
  unfold toInt64; simp [h]

/-! ### CheckZip: decomposition of a step -/

/-- the entry name with the trailing slash of a directory entry removed -/
def entName (e : ZEnt) : Str := if isDirName e.name then e.name.dropLast else e.name

def czMod (st : CZState) (isMod : Bool) : CZState :=
  if isMod then { st with modFile := true } else st

/-- the size accounting of a `czStep` -/
def czSize (st : CZState) (sz : Int) : CZState :=
  if 0 ≤ sz ∧ (maxZipFile : Int) - st.size ≥ sz then { st with size := st.size + sz }
  else { st with cf := { st.cf with sizeError := true } }

/-- the part of a `czStep` after the cue.mod placement rules -/
def czTail (st : CZState) (e : ZEnt) : CZState :=
  if isDirName e.name then st
  else
    let st2 := czSize st (toInt64 e.declared)
    if entName e = sCueModModule ∧ toInt64 e.declared > maxCUEMod then
      st2.addError e.name .cueModSize
    else if entName e = sLICENSE ∧ toInt64 e.declared > maxLICENSE then
      st2.addError e.name .licenseSize
    else { st2 with cf := { st2.cf with valid := st2.cf.valid ++ [e.name] } }

theorem czStep_eq (U : Uni) (st : CZState) (e : ZEnt) :
    czStep U st e =
      if pathClean (entName e) ≠ entName e then st.addError e.name .notClean
      else match checkFilePath U (entName e) with
      | some err => st.addError e.name (.path err)
      | none =>
      if entName e = sLocalModule then st.addError e.name .localModule
      else match ccCheckTop U st.cc (entName e) (isDirName e.name) with
      | (cc', some w) => ({ st with cc := cc' }).addError e.name w
      | (cc', none) =>
      match cueModZipRule U (entName e) with
      | (some w, _) => ({ st with cc := cc' }).addError e.name w
      | (none, isMod) => czTail (czMod { st with cc := cc' } isMod) e := rfl

theorem czMod_frame (st : CZState) (isMod : Bool) :
    (czMod st isMod).cf = st.cf ∧ (czMod st isMod).size = st.size := by
  unfold czMod; split <;> exact ⟨rfl, rfl⟩

theorem czSize_frame (st : CZState) (sz : Int) :
    (czSize st sz).cf.valid = st.cf.valid ∧
    (czSize st sz).cf.invalid = st.cf.invalid ∧
    ((czSize st sz).cf.sizeError = false →
      st.cf.sizeError = false ∧ 0 ≤ sz ∧ st.size + sz ≤ (maxZipFile : Int) ∧
      (czSize st sz).size = st.size + sz) ∧
    (st.cf.sizeError = true → (czSize st sz).cf.sizeError = true) := by
  unfold czSize
  split
  · rename_i h; exact ⟨rfl, rfl, fun h' => ⟨h', h.1, by omega, rfl⟩, id⟩
  · exact ⟨rfl, rfl, fun h' => (by cases h'), fun _ => rfl⟩

/-! ### CheckZip: monotonicity of the report -/

theorem czTail_invalid_prefix (st : CZState) (e : ZEnt)
    {l : List (Str × Why)} (h : l <+: st.cf.invalid) : l <+: (czTail st e).cf.invalid := by
  have h2 : l <+: (czSize st (toInt64 e.declared)).cf.invalid := by
    rw [(czSize_frame st _).2.1]; exact h
  unfold czTail
  simp only []
  repeat' split
  all_goals first
    | exact h
    | exact h2
    | exact List.IsPrefix.trans h2 (List.prefix_append _ _)

/-- a step of CheckZip only appends to `invalid` -/
theorem czStep_invalid_prefix (U : Uni) (st : CZState) (e : ZEnt) :
    st.cf.invalid <+: (czStep U st e).cf.invalid := by
  rw [czStep_eq]
  repeat' split
  all_goals first
    | exact List.prefix_append _ _
    | (apply czTail_invalid_prefix; rw [(czMod_frame _ _).1]; exact List.prefix_refl _)

theorem czTail_valid_prefix (st : CZState) (e : ZEnt)
    {l : List Str} (h : l <+: st.cf.valid) : l <+: (czTail st e).cf.valid := by
  have h2 : l <+: (czSize st (toInt64 e.declared)).cf.valid := by
    rw [(czSize_frame st _).1]; exact h
  unfold czTail
  simp only []
  repeat' split
  all_goals first
    | exact h
    | exact h2
    | exact List.IsPrefix.trans h2 (List.prefix_append _ _)

/-- a step of CheckZip only appends to `valid` -/
theorem czStep_valid_prefix (U : Uni) (st : CZState) (e : ZEnt) :
    st.cf.valid <+: (czStep U st e).cf.valid := by
  rw [czStep_eq]
  repeat' split
  all_goals first
    | exact List.prefix_refl _
    | (apply czTail_valid_prefix; rw [(czMod_frame _ _).1]; exact List.prefix_refl _)

theorem czTail_sizeError_mono (st : CZState) (e : ZEnt) (h : st.cf.sizeError = true) :
    (czTail st e).cf.sizeError = true := by
  have h2 : (czSize st (toInt64 e.declared)).cf.sizeError = true := (czSize_frame st _).2.2.2 h
  unfold czTail
  simp only []
  repeat' split
  all_goals first
    | exact h
    | exact h2

/-- `sizeError` is sticky -/
theorem czStep_sizeError_mono (U : Uni) (st : CZState) (e : ZEnt) (h : st.cf.sizeError = true) :
    (czStep U st e).cf.sizeError = true := by
  rw [czStep_eq]
  repeat' split
  all_goals first
    | exact h
    | (apply czTail_sizeError_mono; rw [(czMod_frame _ _).1]; exact h)

theorem czFold_invalid_prefix (U : Uni) (z : List ZEnt) (st : CZState) :
    st.cf.invalid <+: (z.foldl (czStep U) st).cf.invalid := by
  induction z generalizing st with
  | nil => exact List.prefix_refl _
  | cons e es ih => exact List.IsPrefix.trans (czStep_invalid_prefix U st e) (ih _)

theorem czFold_valid_prefix (U : Uni) (z : List ZEnt) (st : CZState) :
    st.cf.valid <+: (z.foldl (czStep U) st).cf.valid := by
  induction z generalizing st with
  | nil => exact List.prefix_refl _
  | cons e es ih => exact List.IsPrefix.trans (czStep_valid_prefix U st e) (ih _)

theorem czFold_sizeError_mono (U : Uni) (z : List ZEnt) (st : CZState)
    (h : st.cf.sizeError = true) : (z.foldl (czStep U) st).cf.sizeError = true := by
  induction z generalizing st with
  | nil => exact h
  | cons e es ih => exact ih _ (czStep_sizeError_mono U st e h)

/-! ### CheckZip: one step without error -/

/-- the report so far has no invalid entry and no size error -/
def CZState.ok (st : CZState) : Prop := st.cf.invalid = [] ∧ st.cf.sizeError = false

theorem CZState.addError_not_ok (st : CZState) (n : Str) (w : Why) : ¬ (st.addError n w).ok := by
  intro h; simp [CZState.addError, CZState.ok] at h

/-- what the size part of a step that leaves the report without error has established -/
structure CZTailOk (st st' : CZState) (e : ZEnt) : Prop where
  prev : st.ok
  dirCase : isDirName e.name = true → st'.size = st.size ∧ st'.cf.valid = st.cf.valid
  fileCase : isDirName e.name = false →
    0 ≤ toInt64 e.declared ∧ st'.size = st.size + toInt64 e.declared ∧
    st.size + toInt64 e.declared ≤ (maxZipFile : Int) ∧
    st'.cf.valid = st.cf.valid ++ [e.name] ∧
    (e.name = sCueModModule → toInt64 e.declared ≤ (maxCUEMod : Int)) ∧
    (e.name = sLICENSE → toInt64 e.declared ≤ (maxLICENSE : Int))

theorem czTail_ok (st : CZState) (e : ZEnt) (h : (czTail st e).ok) :
    CZTailOk st (czTail st e) e := by
  obtain ⟨a, b, c, -⟩ := czSize_frame st (toInt64 e.declared)
  generalize hs : czTail st e = st' at h ⊢
  unfold czTail at hs
  simp only [] at hs
  split at hs
  · rename_i hd
    subst hs
    exact ⟨h, fun _ => ⟨rfl, rfl⟩, fun hf => by rw [hd] at hf; cases hf⟩
  · rename_i hd
    have hn : entName e = e.name := by unfold entName; rw [if_neg hd]
    rw [hn] at hs
    split at hs
    · subst hs; exact absurd h (CZState.addError_not_ok _ _ _)
    · rename_i hcm
      split at hs
      · subst hs; exact absurd h (CZState.addError_not_ok _ _ _)
      · rename_i hli
        subst hs
        obtain ⟨h1, h2⟩ := h
        change (czSize st (toInt64 e.declared)).cf.invalid = [] at h1
        change (czSize st (toInt64 e.declared)).cf.sizeError = false at h2
        obtain ⟨c1, c2, c3, c4⟩ := c h2
        refine ⟨⟨by rw [← b]; exact h1, c1⟩, fun hd' => absurd hd' hd, fun _ => ?_⟩
        refine ⟨c2, c4, c3, ?_, fun hp => Int.not_lt.mp (fun hh => hcm ⟨hp, hh⟩),
          fun hp => Int.not_lt.mp (fun hh => hli ⟨hp, hh⟩)⟩
        show (czSize st (toInt64 e.declared)).cf.valid ++ [e.name] = _
        rw [a]

/-- what a step that leaves the report without error has established -/
structure CZStepOk (U : Uni) (st st' : CZState) (e : ZEnt) : Prop where
  prev : st.ok
  path : checkFilePath U (entName e) = none
  clean : pathClean (entName e) = entName e
  notLocal : entName e ≠ sLocalModule
  dirCase : isDirName e.name = true → st'.size = st.size ∧ st'.cf.valid = st.cf.valid
  fileCase : isDirName e.name = false →
    0 ≤ toInt64 e.declared ∧ st'.size = st.size + toInt64 e.declared ∧
    st.size + toInt64 e.declared ≤ (maxZipFile : Int) ∧
    st'.cf.valid = st.cf.valid ++ [e.name] ∧
    (e.name = sCueModModule → toInt64 e.declared ≤ (maxCUEMod : Int)) ∧
    (e.name = sLICENSE → toInt64 e.declared ≤ (maxLICENSE : Int))

theorem czStep_ok (U : Uni) (st : CZState) (e : ZEnt) (h : (czStep U st e).ok) :
    CZStepOk U st (czStep U st e) e := by
  generalize hs : czStep U st e = st' at h ⊢
  rw [czStep_eq] at hs
  repeat' split at hs
  all_goals subst hs
  all_goals first
    | exact absurd h (CZState.addError_not_ok _ _ _)
    | skip
  rename_i h1 _ h2 h3 _ cc' h4 _ isMod h5
  have t := czTail_ok _ e h
  obtain ⟨m1, m2⟩ := czMod_frame { st with cc := cc' } isMod
  have hok : st.ok := by
    have := t.prev; unfold CZState.ok at this ⊢; rw [m1] at this; exact this
  refine ⟨hok, h2, Decidable.not_not.mp h1, h3, ?_, ?_⟩
  · intro hd; have := t.dirCase hd; rw [m1, m2] at this; exact this
  · intro hd; have := t.fileCase hd; rw [m1, m2] at this; exact this

/-! ### CheckZip: the whole loop -/

/-- sum of `int64(declared)` over the file (non-directory) entries -/
def declared64 : List ZEnt → Int
  | [] => 0
  | e :: es => (if isDirName e.name then 0 else toInt64 e.declared) + declared64 es

/-- names of the file (non-directory) entries, in order -/
def fileNames (z : List ZEnt) : List Str := (z.filter (fun e => !isDirName e.name)).map (·.name)

/-- per-entry facts established by a CheckZip run without error -/
structure CZEntOk (U : Uni) (e : ZEnt) : Prop where
  path : checkFilePath U (entName e) = none
  clean : pathClean (entName e) = entName e
  notLocal : entName e ≠ sLocalModule
  nonneg : isDirName e.name = false → 0 ≤ toInt64 e.declared
  cueMod : isDirName e.name = false → e.name = sCueModModule →
    toInt64 e.declared ≤ (maxCUEMod : Int)
  license : isDirName e.name = false → e.name = sLICENSE →
    toInt64 e.declared ≤ (maxLICENSE : Int)

theorem czFold_ok (U : Uni) (z : List ZEnt) (st : CZState)
    (h : (z.foldl (czStep U) st).ok) :
    st.ok ∧ (∀ e ∈ z, CZEntOk U e) ∧
    (z.foldl (czStep U) st).size = st.size + declared64 z ∧
    (st.size ≤ (maxZipFile : Int) → (z.foldl (czStep U) st).size ≤ (maxZipFile : Int)) ∧
    (z.foldl (czStep U) st).cf.valid = st.cf.valid ++ fileNames z := by
  induction z generalizing st with
  | nil => exact ⟨h, by simp, by simp [declared64], fun h => h, by simp [fileNames]⟩
  | cons e es ih =>
    rw [List.foldl_cons] at h ⊢
    obtain ⟨hok1, hall, hsize, hle, hvalid⟩ := ih _ h
    have s := czStep_ok U st e hok1
    refine ⟨s.prev, ?_, ?_, ?_, ?_⟩
    · intro e' he'
      rcases List.mem_cons.mp he' with rfl | he'
      · exact ⟨s.path, s.clean, s.notLocal, fun hf => (s.fileCase hf).1,
          fun hf => (s.fileCase hf).2.2.2.2.1, fun hf => (s.fileCase hf).2.2.2.2.2⟩
      · exact hall e' he'
    · rw [hsize]
      cases hd : isDirName e.name
      · rw [(s.fileCase hd).2.1]; simp only [declared64, hd, Bool.false_eq_true, if_false]; omega
      · rw [(s.dirCase hd).1]; simp only [declared64, hd, if_true]; omega
    · intro hst
      apply hle
      cases hd : isDirName e.name
      · rw [(s.fileCase hd).2.1]; exact (s.fileCase hd).2.2.1
      · rw [(s.dirCase hd).1]; exact hst
    · rw [hvalid]
      cases hd : isDirName e.name
      · rw [(s.fileCase hd).2.2.2.1]; simp [fileNames, hd]
      · rw [(s.dirCase hd).2]; simp [fileNames, hd]

theorem declared64_eq_total (z : List ZEnt)
    (h64 : ∀ e ∈ z, isDirName e.name = false → e.declared < 18446744073709551616)
    (h0 : ∀ e ∈ z, isDirName e.name = false → 0 ≤ toInt64 e.declared) :
    declared64 z = (declaredTotal z : Int) := by
  induction z with
  | nil => rfl
  | cons e es ih =>
    have ih' := ih (fun e' he' => h64 e' (List.mem_cons_of_mem _ he'))
      (fun e' he' => h0 e' (List.mem_cons_of_mem _ he'))
    cases hd : isDirName e.name
    · have := toInt64_of_nonneg (h64 e List.mem_cons_self hd) (h0 e List.mem_cons_self hd)
      simp only [declared64, declaredTotal, hd, Bool.false_eq_true, if_false, ih', this.2]
      omega
    · simp only [declared64, declaredTotal, hd, if_true, ih']
      omega

theorem isDirName_ne_localModule {n : Str} (h : isDirName n = true) : n ≠ sLocalModule := by
  intro hn; subst hn; revert h; decide

/-- `checkZip` reports no error: what that means in terms of the state of the loop -/
theorem checkZip_noErr (U : Uni) (zipSize : Nat) (z : List ZEnt)
    (h : (checkZip U zipSize z).isErr = false) :
    zipSize ≤ maxZipFile ∧ (checkZipState U z).ok ∧ (checkZipState U z).modFile = true ∧
    (checkZip U zipSize z).valid = (checkZipState U z).cf.valid := by
  unfold checkZip at h ⊢
  by_cases hz : zipSize > maxZipFile
  · simp [hz, Checked.isErr] at h
  · rw [if_neg hz] at h ⊢
    simp only [Checked.isErr, Bool.or_eq_false_iff, List.isEmpty_iff,
      Bool.not_eq_eq_eq_not, Bool.not_false] at h
    exact ⟨by omega, ⟨h.1.2, h.1.1⟩, h.2, rfl⟩

/-- The general form (no assumption on `declared`): everything is phrased with `int64(declared)`,
which is what CheckZip looks at. -/
theorem checkZip_ok64 (U : Uni) (zipSize : Nat) (z : List ZEnt)
    (h : (checkZip U zipSize z).isErr = false) :
    zipSize ≤ maxZipFile ∧
    (∀ e ∈ z, CZEntOk U e) ∧
    0 ≤ declared64 z ∧ declared64 z ≤ (maxZipFile : Int) ∧
    (checkZipState U z).size = declared64 z ∧
    (checkZipState U z).modFile = true ∧
    (∀ e ∈ z, e.name ≠ sLocalModule) ∧
    (checkZip U zipSize z).valid = fileNames z := by
  obtain ⟨hz, hok, hmod, hval⟩ := checkZip_noErr U zipSize z h
  obtain ⟨-, hall, hsize, hle, hvalid⟩ := czFold_ok U z {} hok
  have hsize' : (checkZipState U z).size = declared64 z := by
    unfold checkZipState; rw [hsize]; show (0 : Int) + _ = _; omega
  have hle' : (checkZipState U z).size ≤ (maxZipFile : Int) :=
    hle (by show (0 : Int) ≤ _; omega)
  have hnn : 0 ≤ declared64 z := by
    clear hsize hle hvalid hsize' hle' hok hval hmod h
    induction z with
    | nil => simp [declared64]
    | cons e es ih =>
      have := ih (fun e' he' => hall e' (List.mem_cons_of_mem _ he'))
      cases hd : isDirName e.name
      · have := (hall e List.mem_cons_self).nonneg hd
        simp only [declared64, hd, Bool.false_eq_true, if_false]; omega
      · simp only [declared64, hd, if_true]; omega
  refine ⟨hz, hall, hnn, by omega, hsize', hmod, ?_, ?_⟩
  · intro e he
    cases hd : isDirName e.name
    · have := (hall e he).notLocal
      simpa [entName, hd] using this
    · exact isDirName_ne_localModule hd
  · rw [hval]
    show (z.foldl (czStep U) {}).cf.valid = _
    rw [hvalid]; rfl

/-- When CheckZip reports no error (and the declared sizes of the file entries are 64-bit values,
as they are in a zip header): the zip itself is within the limit, every entry's name passed
CheckFilePath (after removing the trailing slash of a directory entry), the declared
sizes of the file entries add up to at most MaxZipFile (so each is < 2^63 and `toInt64` is the
identity on it), cue.mod/module.cue is at most MaxCUEMod and LICENSE at
most MaxLICENSE, no entry is cue.mod/local-module.cue, and the valid list is exactly the names of
the file entries in order. -/
theorem checkZip_ok (U : Uni) (zipSize : Nat) (z : List ZEnt)
    (h64 : ∀ e ∈ z, isDirName e.name = false → e.declared < 2 ^ 64)
    (h : (checkZip U zipSize z).isErr = false) :
    zipSize ≤ maxZipFile ∧
    (∀ e ∈ z, checkFilePath U (if isDirName e.name then e.name.dropLast else e.name) = none) ∧
    declaredTotal z ≤ maxZipFile ∧
    (∀ e ∈ z, isDirName e.name = false → e.name = sCueModModule → e.declared ≤ maxCUEMod) ∧
    (∀ e ∈ z, isDirName e.name = false → e.name = sLICENSE → e.declared ≤ maxLICENSE) ∧
    (∀ e ∈ z, e.name ≠ sLocalModule) ∧
    (checkZip U zipSize z).valid = (z.filter (fun e => !isDirName e.name)).map (·.name) := by
  obtain ⟨hz, hall, -, hle, -, -, hloc, hval⟩ := checkZip_ok64 U zipSize z h
  have h64' : ∀ e ∈ z, isDirName e.name = false → e.declared < 18446744073709551616 := h64
  have htot := declared64_eq_total z h64' (fun e he => (hall e he).nonneg)
  refine ⟨hz, fun e he => (hall e he).path, by omega, ?_, ?_, hloc, hval⟩
  · intro e he hd hn
    have := toInt64_of_nonneg (h64' e he hd) ((hall e he).nonneg hd)
    have := (hall e he).cueMod hd hn
    omega
  · intro e he hd hn
    have := toInt64_of_nonneg (h64' e he hd) ((hall e he).nonneg hd)
    have := (hall e he).license hd hn
    omega

/-- supplement to `checkZip_ok`: every file entry's declared size is below 2^63 (so `toInt64`
is the identity on it) and every (trimmed) entry name is clean -/
theorem checkZip_ok_lt (U : Uni) (zipSize : Nat) (z : List ZEnt)
    (h64 : ∀ e ∈ z, isDirName e.name = false → e.declared < 2 ^ 64)
    (h : (checkZip U zipSize z).isErr = false) :
    ∀ e ∈ z, pathClean (entName e) = entName e ∧
      (isDirName e.name = false → e.declared < 2 ^ 63 ∧ toInt64 e.declared = e.declared) := by
  obtain ⟨-, hall, -⟩ := checkZip_ok64 U zipSize z h
  intro e he
  exact ⟨(hall e he).clean, fun hd => toInt64_of_nonneg (h64 e he hd) ((hall e he).nonneg hd)⟩

/-! ### checkFiles: decomposition of a step -/

/-- the size accounting of a `cfStep` -/
def cfSize (st : CFState) (f : FEnt) : CFState :=
  if 0 ≤ f.size ∧ f.size ≤ st.maxSize then { st with maxSize := st.maxSize - f.size }
  else { st with cf := { st.cf with sizeError := true } }

/-- `found = true` when the module file is accepted -/
def cfFound (st : CFState) (f : FEnt) : CFState :=
  if f.path = sCueModModule then { st with found := true } else st

/-- the part of a `cfStep` after the collision check, for a regular file (`st` already carries the
updated collision map) -/
def cfTail (st : CFState) (f : FEnt) : CFState :=
  let st2 := cfSize st f
  if f.path = sCueModModule ∧ f.size > maxCUEMod then st2.addError f.path false .cueModSize
  else
    let st3 := cfFound st2 f
    if f.path = sLICENSE ∧ f.size > maxLICENSE then st3.addError f.path false .licenseSize
    else { st3 with cf := { st3.cf with valid := st3.cf.valid ++ [f.path] },
                    validEnts := st3.validEnts ++ [f] }

theorem cfStep_eq (U : Uni) (hv : List Str) (st : CFState) (f : FEnt) :
    cfStep U hv st f =
      if f.kind = .lstatErr then st.addError f.path false .lstat
      else if f.kind = .dir then st
      else if f.path ≠ pathClean f.path then st.addError f.path false .notClean
      else if isAbs f.path then st.addError f.path false .notRelative
      else if isVendoredPackage f.path then st.addError f.path true .vendored
      else if inSubmodule hv f.path then st.addError f.path true .submodule
      else if f.path = sHgArchival then st.addError f.path true .hgArchival
      else if f.path = sLocalModule then st.addError f.path true .localModule
      else match checkFilePath U f.path with
      | some e => st.addError f.path false (.path e)
      | none =>
      match cueModTopRule U f.path with
      | some w => st.addError f.path false w
      | none =>
      match ccCheckTop U st.cc f.path false with
      | (cc', some w) => ({ st with cc := cc' }).addError f.path false w
      | (cc', none) =>
      if f.kind = .symlink then ({ st with cc := cc' }).addError f.path true .symlink
      else if f.kind ≠ .regular then ({ st with cc := cc' }).addError f.path true .notRegular
      else cfTail { st with cc := cc' } f := rfl

/-- the three kinds of outcome of a `cfStep`: nothing happens (a directory), an error is recorded
(in `invalid`, in `omitted`, or not at all when the path was reported before), or the entry
reaches the size accounting -/
theorem cfStep_cases (U : Uni) (hv : List Str) (st : CFState) (f : FEnt) :
    cfStep U hv st f = st ∨
    (∃ cc' o w, cfStep U hv st f = ({ st with cc := cc' }).addError f.path o w) ∨
    (∃ cc', cfStep U hv st f = cfTail { st with cc := cc' } f ∧
      f.kind = .regular ∧ checkFilePath U f.path = none ∧ f.path = pathClean f.path ∧
      isAbs f.path = false ∧ f.path ≠ sLocalModule ∧ isVendoredPackage f.path = false ∧
      inSubmodule hv f.path = false ∧ f.path ≠ sHgArchival ∧ cueModTopRule U f.path = none) := by
  rw [cfStep_eq]
  have err : ∀ (X : CFState) (Q : Prop) cc' o w,
      X = ({ st with cc := cc' } : CFState).addError f.path o w →
      (X = st ∨ (∃ cc'' o' w', X = ({ st with cc := cc'' } : CFState).addError f.path o' w') ∨ Q) :=
    fun _ _ cc' o w h => Or.inr (Or.inl ⟨cc', o, w, h⟩)
  by_cases h1 : f.kind = .lstatErr
  · rw [if_pos h1]; exact err _ _ st.cc _ _ rfl
  rw [if_neg h1]
  by_cases h2 : f.kind = .dir
  · rw [if_pos h2]; exact Or.inl rfl
  rw [if_neg h2]
  by_cases h3 : f.path ≠ pathClean f.path
  · rw [if_pos h3]; exact err _ _ st.cc _ _ rfl
  rw [if_neg h3]
  by_cases h4 : isAbs f.path = true
  · rw [if_pos h4]; exact err _ _ st.cc _ _ rfl
  rw [if_neg h4]
  by_cases h5 : isVendoredPackage f.path = true
  · rw [if_pos h5]; exact err _ _ st.cc _ _ rfl
  rw [if_neg h5]
  by_cases h6 : inSubmodule hv f.path = true
  · rw [if_pos h6]; exact err _ _ st.cc _ _ rfl
  rw [if_neg h6]
  by_cases h7 : f.path = sHgArchival
  · rw [if_pos h7]; exact err _ _ st.cc _ _ rfl
  rw [if_neg h7]
  by_cases h8 : f.path = sLocalModule
  · rw [if_pos h8]; exact err _ _ st.cc _ _ rfl
  rw [if_neg h8]
  cases h9 : checkFilePath U f.path with
  | some e => dsimp only; exact err _ _ st.cc _ _ rfl
  | none =>
  dsimp only
  cases h10 : cueModTopRule U f.path with
  | some w => dsimp only; exact err _ _ st.cc _ _ rfl
  | none =>
  dsimp only
  rcases h11 : ccCheckTop U st.cc f.path false with ⟨cc', _ | w⟩
  · dsimp only
    by_cases h12 : f.kind = .symlink
    · rw [if_pos h12]; exact err _ _ cc' _ _ rfl
    rw [if_neg h12]
    by_cases h13 : f.kind ≠ .regular
    · rw [if_pos h13]; exact err _ _ cc' _ _ rfl
    rw [if_neg h13]
    exact Or.inr (Or.inr ⟨cc', rfl, Decidable.not_not.mp h13, rfl, Decidable.not_not.mp h3,
      by simpa using h4, h8, by simpa using h5, by simpa using h6, h7, rfl⟩)
  · dsimp only; exact err _ _ cc' _ _ rfl

/-- `addError` touches only `errPaths`, `omitted` and `invalid` -/
theorem CFState.addError_frame (st : CFState) (p : Str) (o : Bool) (w : Why) :
    (st.addError p o w).cf.valid = st.cf.valid ∧
    (st.addError p o w).validEnts = st.validEnts ∧
    (st.addError p o w).found = st.found ∧
    (st.addError p o w).cf.sizeError = st.cf.sizeError ∧
    (st.addError p o w).maxSize = st.maxSize ∧
    (st.addError p o w).cc = st.cc := by
  unfold CFState.addError
  repeat' split
  all_goals simp

theorem cfSize_frame (st : CFState) (f : FEnt) :
    (cfSize st f).cf.valid = st.cf.valid ∧
    (cfSize st f).validEnts = st.validEnts ∧
    (cfSize st f).found = st.found ∧
    (cfSize st f).cf.invalid = st.cf.invalid ∧
    ((cfSize st f).cf.sizeError = false →
      st.cf.sizeError = false ∧ 0 ≤ f.size ∧ f.size ≤ st.maxSize ∧
      (cfSize st f).maxSize = st.maxSize - f.size) ∧
    (st.cf.sizeError = true → (cfSize st f).cf.sizeError = true) := by
  unfold cfSize
  split
  · rename_i h; simp [h]
  · simp

theorem cfFound_frame (st : CFState) (f : FEnt) :
    (cfFound st f).cf = st.cf ∧
    (cfFound st f).validEnts = st.validEnts ∧
    (cfFound st f).maxSize = st.maxSize ∧
    ((cfFound st f).found = true → st.found = true ∨ f.path = sCueModModule) ∧
    (f.path ≠ sCueModModule → cfFound st f = st) := by
  unfold cfFound
  split
  · rename_i h; simp [h]
  · exact ⟨rfl, rfl, rfl, Or.inl, fun _ => rfl⟩

/-! ### checkFiles: monotonicity of the report -/

theorem CFState.addError_invalid_prefix (st : CFState) (p : Str) (o : Bool) (w : Why)
    {l : List (Str × Why)} (h : l <+: st.cf.invalid) : l <+: (st.addError p o w).cf.invalid := by
  refine List.IsPrefix.trans h ?_
  unfold CFState.addError
  repeat' split
  all_goals simp

theorem cfTail_invalid_prefix (st : CFState) (f : FEnt)
    {l : List (Str × Why)} (h : l <+: st.cf.invalid) : l <+: (cfTail st f).cf.invalid := by
  have h2 : l <+: (cfSize st f).cf.invalid := by rw [(cfSize_frame st f).2.2.2.1]; exact h
  have h3 : l <+: (cfFound (cfSize st f) f).cf.invalid := by
    rw [(cfFound_frame _ f).1]; exact h2
  unfold cfTail
  simp only []
  split
  · exact CFState.addError_invalid_prefix _ _ _ _ h2
  · split
    · exact CFState.addError_invalid_prefix _ _ _ _ h3
    · exact h3

/-- a step of checkFiles only appends to `invalid` -/
theorem cfStep_invalid_prefix (U : Uni) (hv : List Str) (st : CFState) (f : FEnt) :
    st.cf.invalid <+: (cfStep U hv st f).cf.invalid := by
  rcases cfStep_cases U hv st f with h | ⟨cc', o, w, h⟩ | ⟨cc', h, -⟩ <;> rw [h]
  · exact List.prefix_refl _
  · exact CFState.addError_invalid_prefix _ _ _ _ (List.prefix_refl _)
  · exact cfTail_invalid_prefix _ _ (List.prefix_refl _)

theorem cfTail_sizeError_mono (st : CFState) (f : FEnt) (h : st.cf.sizeError = true) :
    (cfTail st f).cf.sizeError = true := by
  have h2 : (cfSize st f).cf.sizeError = true := (cfSize_frame st f).2.2.2.2.2 h
  have h3 : (cfFound (cfSize st f) f).cf.sizeError = true := by
    rw [(cfFound_frame _ f).1]; exact h2
  unfold cfTail
  simp only []
  split
  · rw [(CFState.addError_frame _ _ _ _).2.2.2.1]; exact h2
  · split
    · rw [(CFState.addError_frame _ _ _ _).2.2.2.1]; exact h3
    · exact h3

/-- `sizeError` is sticky -/
theorem cfStep_sizeError_mono (U : Uni) (hv : List Str) (st : CFState) (f : FEnt)
    (h : st.cf.sizeError = true) : (cfStep U hv st f).cf.sizeError = true := by
  rcases cfStep_cases U hv st f with h' | ⟨cc', o, w, h'⟩ | ⟨cc', h', -⟩ <;> rw [h']
  · exact h
  · rw [(CFState.addError_frame _ _ _ _).2.2.2.1]; exact h
  · exact cfTail_sizeError_mono _ _ h

theorem cfFold_invalid_prefix (U : Uni) (hv : List Str) (l : List FEnt) (st : CFState) :
    st.cf.invalid <+: (l.foldl (cfStep U hv) st).cf.invalid := by
  induction l generalizing st with
  | nil => exact List.prefix_refl _
  | cons f fs ih => exact List.IsPrefix.trans (cfStep_invalid_prefix U hv st f) (ih _)

theorem cfFold_sizeError_mono (U : Uni) (hv : List Str) (l : List FEnt) (st : CFState)
    (h : st.cf.sizeError = true) : (l.foldl (cfStep U hv) st).cf.sizeError = true := by
  induction l generalizing st with
  | nil => exact h
  | cons f fs ih => exact ih _ (cfStep_sizeError_mono U hv st f h)

/-! ### checkFiles: the invariant -/

/-- per-entry facts about an entry accepted as valid by checkFiles -/
structure CFEntOk (U : Uni) (f : FEnt) : Prop where
  regular : f.kind = .regular
  path : checkFilePath U f.path = none
  clean : f.path = pathClean f.path
  notAbs : isAbs f.path = false
  notLocal : f.path ≠ sLocalModule
  notVendored : isVendoredPackage f.path = false
  cueMod : f.path = sCueModModule → f.size ≤ (maxCUEMod : Int)
  license : f.path = sLICENSE → f.size ≤ (maxLICENSE : Int)

/-- the invariant of the main loop of checkFiles (`M` = "has been offered to the loop") -/
structure CFInv (U : Uni) (M : FEnt → Prop) (st : CFState) : Prop where
  valid_eq : st.cf.valid = st.validEnts.map (·.path)
  ents : ∀ f ∈ st.validEnts, M f ∧ CFEntOk U f
  found : st.found = true → sCueModModule ∈ st.cf.valid
  sizes : st.cf.sizeError = false →
    (∀ f ∈ st.validEnts, 0 ≤ f.size) ∧ 0 ≤ st.maxSize ∧
    st.maxSize + (st.validEnts.map (·.size)).foldl (· + ·) 0 ≤ (maxZipFile : Int)

theorem CFInv.init (U : Uni) (M : FEnt → Prop) : CFInv U M {} := by
  refine ⟨rfl, ?_, ?_, ?_⟩
  · intro f hf; cases hf
  · intro h; cases h
  · intro _
    refine ⟨fun f hf => (by cases hf), ?_, ?_⟩
    · show (0 : Int) ≤ (maxZipFile : Int); omega
    · show (maxZipFile : Int) + 0 ≤ (maxZipFile : Int); omega

/-- the invariant survives any change that keeps `valid`, `validEnts`, `found` and does not
increase `maxSize` below zero or clear `sizeError` -/
theorem CFInv.frame {U : Uni} {M : FEnt → Prop} {st st' : CFState} (hinv : CFInv U M st)
    (hv : st'.cf.valid = st.cf.valid) (he : st'.validEnts = st.validEnts)
    (hf : st'.found = st.found)
    (hs : st'.cf.sizeError = false →
      st.cf.sizeError = false ∧ (0 ≤ st.maxSize → 0 ≤ st'.maxSize) ∧ st'.maxSize ≤ st.maxSize) :
    CFInv U M st' := by
  refine ⟨by rw [hv, he]; exact hinv.valid_eq, by rw [he]; exact hinv.ents,
    by rw [hv, hf]; exact hinv.found, ?_⟩
  intro h
  obtain ⟨h1, h2, h3⟩ := hs h
  obtain ⟨g1, g2, g3⟩ := hinv.sizes h1
  rw [he]
  exact ⟨g1, h2 g2, by omega⟩

theorem CFInv.addError {U : Uni} {M : FEnt → Prop} {st : CFState} (p : Str) (o : Bool) (w : Why)
    (hinv : CFInv U M st) : CFInv U M (st.addError p o w) := by
  obtain ⟨a, b, c, d, e, -⟩ := CFState.addError_frame st p o w
  exact hinv.frame a b c (fun h => ⟨by rw [← d]; exact h, by rw [e]; exact id, by rw [e]; omega⟩)

theorem CFInv.setCC {U : Uni} {M : FEnt → Prop} {st : CFState} (cc' : CC)
    (hinv : CFInv U M st) : CFInv U M { st with cc := cc' } :=
  hinv.frame rfl rfl rfl (fun h => ⟨h, id, Int.le_refl _⟩)

theorem CFInv.cfSize {U : Uni} {M : FEnt → Prop} {st : CFState} (f : FEnt)
    (hinv : CFInv U M st) : CFInv U M (cfSize st f) := by
  obtain ⟨a, b, c, -, d, -⟩ := cfSize_frame st f
  refine hinv.frame a b c (fun h => ?_)
  obtain ⟨d1, d2, d3, d4⟩ := d h
  exact ⟨d1, fun _ => by omega, by omega⟩

theorem sLICENSE_ne_cueModModule : sLICENSE ≠ sCueModModule := by decide

theorem foldl_sizes_snoc (l : List FEnt) (f : FEnt) :
    ((l ++ [f]).map (·.size)).foldl (· + ·) 0 = (l.map (·.size)).foldl (· + ·) 0 + f.size := by
  simp [List.foldl_append]

theorem cfTail_inv {U : Uni} {M : FEnt → Prop} {st : CFState} {f : FEnt}
    (hinv : CFInv U M st) (hM : M f)
    (hreg : f.kind = .regular) (hpath : checkFilePath U f.path = none)
    (hclean : f.path = pathClean f.path) (habs : isAbs f.path = false)
    (hloc : f.path ≠ sLocalModule) (hven : isVendoredPackage f.path = false) :
    CFInv U M (cfTail st f) := by
  have i2 : CFInv U M (cfSize st f) := hinv.cfSize f
  obtain ⟨a2, b2, c2, -, d2, -⟩ := cfSize_frame st f
  obtain ⟨a3, b3, c3, d3, e3⟩ := cfFound_frame (cfSize st f) f
  unfold cfTail
  simp only []
  split
  · exact i2.addError _ _ _
  · rename_i hcm
    split
    · rename_i hl
      rw [e3 (by rw [hl.1]; exact sLICENSE_ne_cueModModule)]
      exact i2.addError _ _ _
    · rename_i hli
      have hok : CFEntOk U f :=
        ⟨hreg, hpath, hclean, habs, hloc, hven,
          fun hp => Int.not_lt.mp (fun h => hcm ⟨hp, h⟩),
          fun hp => Int.not_lt.mp (fun h => hli ⟨hp, h⟩)⟩
      refine ⟨?_, ?_, ?_, ?_⟩
      · show (cfFound (cfSize st f) f).cf.valid ++ [f.path]
          = ((cfFound (cfSize st f) f).validEnts ++ [f]).map (·.path)
        rw [a3, b3, a2, b2, hinv.valid_eq]; simp
      · show ∀ g ∈ (cfFound (cfSize st f) f).validEnts ++ [f], M g ∧ CFEntOk U g
        rw [b3, b2]
        intro g hg
        rcases List.mem_append.mp hg with hg | hg
        · exact hinv.ents g hg
        · rw [List.mem_singleton.mp hg]; exact ⟨hM, hok⟩
      · show (cfFound (cfSize st f) f).found = true →
          sCueModModule ∈ (cfFound (cfSize st f) f).cf.valid ++ [f.path]
        rw [a3, a2]
        intro hfd
        rcases d3 hfd with h | h
        · exact List.mem_append_left _ (hinv.found (by rw [← c2]; exact h))
        · rw [h]; simp
      · show (cfFound (cfSize st f) f).cf.sizeError = false →
          (∀ g ∈ (cfFound (cfSize st f) f).validEnts ++ [f], 0 ≤ g.size) ∧
          0 ≤ (cfFound (cfSize st f) f).maxSize ∧
          (cfFound (cfSize st f) f).maxSize +
            (((cfFound (cfSize st f) f).validEnts ++ [f]).map (·.size)).foldl (· + ·) 0
              ≤ (maxZipFile : Int)
        rw [a3, b3, c3, b2, foldl_sizes_snoc]
        intro hse
        obtain ⟨s1, s2, s3, s4⟩ := d2 hse
        obtain ⟨g1, g2, g3⟩ := hinv.sizes s1
        refine ⟨?_, by omega, by omega⟩
        intro g hg
        rcases List.mem_append.mp hg with hg | hg
        · exact g1 g hg
        · rw [List.mem_singleton.mp hg]; exact s2

theorem cfStep_inv {U : Uni} {M : FEnt → Prop} (hv : List Str) {st : CFState} {f : FEnt}
    (hinv : CFInv U M st) (hM : M f) : CFInv U M (cfStep U hv st f) := by
  rcases cfStep_cases U hv st f with h | ⟨cc', o, w, h⟩ |
    ⟨cc', h, hreg, hpath, hclean, habs, hloc, hven, -⟩ <;> rw [h]
  · exact hinv
  · exact (hinv.setCC cc').addError _ _ _
  · exact cfTail_inv (hinv.setCC cc') hM hreg hpath hclean habs hloc hven

theorem cfFold_inv {U : Uni} {M : FEnt → Prop} (hv : List Str) (l : List FEnt) {st : CFState}
    (hinv : CFInv U M st) (hM : ∀ f ∈ l, M f) : CFInv U M (l.foldl (cfStep U hv) st) := by
  induction l generalizing st with
  | nil => exact hinv
  | cons f fs ih =>
    exact ih (cfStep_inv hv hinv (hM f List.mem_cons_self))
      (fun g hg => hM g (List.mem_cons_of_mem _ hg))

/-- the invariant holds for the final state of checkFiles -/
theorem checkFilesState_inv (U : Uni) (files : List FEnt) :
    CFInv U (· ∈ files) (checkFilesState U files) :=
  cfFold_inv _ files (CFInv.init U _) (fun _ h => h)

/-- the analogous accounting for checkFiles: when the report has no error, the sizes of the valid
entries are non-negative and add up to at most MaxZipFile, cue.mod/module.cue is among the valid
entries and at most MaxCUEMod, LICENSE at most MaxLICENSE, every valid entry is a regular file whose
path passed CheckFilePath, and `valid` lists the paths of the valid entries in order -/
theorem checkFiles_ok (U : Uni) (files : List FEnt)
    (h : (checkFiles U files).1.isErr = false) :
    let r := checkFiles U files
    r.1.valid = r.2.map (·.path) ∧
    (∀ f ∈ r.2, f ∈ files ∧ f.kind = .regular ∧ 0 ≤ f.size ∧ checkFilePath U f.path = none) ∧
    ((r.2.map (·.size)).foldl (· + ·) 0 ≤ (maxZipFile : Int)) ∧
    sCueModModule ∈ r.1.valid ∧
    (∀ f ∈ r.2, f.path = sCueModModule → f.size ≤ maxCUEMod) ∧
    (∀ f ∈ r.2, f.path = sLICENSE → f.size ≤ maxLICENSE) ∧
    (∀ f ∈ r.2, f.path ≠ sLocalModule ∧ isVendoredPackage f.path = false) := by
  intro r
  have hinv := checkFilesState_inv U files
  have hr1 : r.1.valid = (checkFilesState U files).cf.valid := rfl
  have hr2 : r.2 = (checkFilesState U files).validEnts := rfl
  have hse : (checkFilesState U files).cf.sizeError = false := by
    have : r.1.sizeError = (checkFilesState U files).cf.sizeError := rfl
    rw [← this]
    simp only [Checked.isErr, Bool.or_eq_false_iff] at h
    exact h.1.1
  have hfound : (checkFilesState U files).found = true := by
    have : r.1.noMod = !(checkFilesState U files).found := rfl
    simp only [Checked.isErr, Bool.or_eq_false_iff] at h
    have h2 := h.2
    change r.1.noMod = false at h2
    rw [this] at h2
    simpa using h2
  obtain ⟨g1, g2, g3⟩ := hinv.sizes hse
  rw [hr1, hr2]
  refine ⟨hinv.valid_eq, ?_, by omega, hinv.found hfound, ?_, ?_, ?_⟩
  · intro f hf
    have := hinv.ents f hf
    exact ⟨this.1, this.2.regular, g1 f hf, this.2.path⟩
  · intro f hf; exact (hinv.ents f hf).2.cueMod
  · intro f hf; exact (hinv.ents f hf).2.license
  · intro f hf; exact ⟨(hinv.ents f hf).2.notLocal, (hinv.ents f hf).2.notVendored⟩

/-- supplement to `checkFiles_ok` (needs no hypothesis on the report): every valid entry has a
clean relative path -/
theorem checkFiles_valid_clean (U : Uni) (files : List FEnt) :
    ∀ f ∈ (checkFiles U files).2, f.path = pathClean f.path ∧ isAbs f.path = false := by
  intro f hf
  have := ((checkFilesState_inv U files).ents f hf).2
  exact ⟨this.clean, this.notAbs⟩

end CueVerif.Modzip
