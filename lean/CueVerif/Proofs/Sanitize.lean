/-
C02 — proofs about the model of errors.Sanitize (Model/Sanitize.lean) against Spec/Sanitize.lean.
-/
import CueVerif.Proofs.SanitizeOrder
namespace CueVerif.Sanitize

/-! ### the comparisons are total preorders -/

theorem TotalPreorder.flip {α : Type} {cmp : α → α → Ordering} (h : TotalPreorder cmp) :
    TotalPreorder (fun a b => cmp b a) :=
  ⟨fun a => h.refl a, fun a b => h.swap b a, fun a b c h1 h2 => h.trans c b a h2 h1⟩

/-- absolute names first -/
def cAbs (p q : Pos) : Ordering := cmpBool (isAbs q.filename) (isAbs p.filename)
def cName (p q : Pos) : Ordering := cmpBytes p.filename q.filename
def cOff (p q : Pos) : Ordering := cmpNat p.offset q.offset

theorem cmpKey_eq_lex : Pos.cmpKey = lex cAbs (lex cName cOff) := by
  funext p q
  unfold Pos.cmpKey lex cAbs cName cOff
  cases isAbs p.filename <;> cases isAbs q.filename <;> simp [cmpBool] <;>
    cases cmpBytes p.filename q.filename <;> rfl

theorem cmpKey_tp : TotalPreorder Pos.cmpKey := by
  rw [cmpKey_eq_lex]
  refine lex_tp ?_ (lex_tp ?_ ?_)
  · exact (cmpBool_tp.on (fun p : Pos => isAbs p.filename)).flip
  · exact cmpBytes_tp.on (fun p : Pos => p.filename)
  · exact cmpNat_tp.on (fun p : Pos => p.offset)

/-- validity rank: NoPos (false) before every valid position (true) -/
def cValid (p q : Pos) : Ordering := cmpBool (decide (p ≠ noPos)) (decide (q ≠ noPos))

theorem cmpPosNoPosFirst_eq_lex : cmpPosNoPosFirst = lex cValid Pos.cmpKey := by
  funext a b
  unfold cmpPosNoPosFirst Pos.compare Pos.isValid lex cValid
  by_cases ha : a = noPos <;> by_cases hb : b = noPos
  · subst ha; subst hb; simp [cmpBool, cmpKey_tp.refl]
  · subst ha
    have : noPos ≠ b := fun h => hb h.symm
    simp [cmpBool, hb, this]
  · subst hb
    simp [cmpBool, ha]
  · by_cases hab : a = b
    · subst hab; simp [cmpBool, ha, cmpKey_tp.refl]
    · simp [cmpBool, ha, hb, hab]

theorem cmpPosNoPosFirst_tp : TotalPreorder cmpPosNoPosFirst := by
  rw [cmpPosNoPosFirst_eq_lex]
  exact lex_tp (cmpBool_tp.on (fun p : Pos => decide (p ≠ noPos))) cmpKey_tp

def cPos (x y : Err) : Ordering := cmpPosNoPosFirst x.pos y.pos
def cPath (x y : Err) : Ordering := cmpPath x.path y.path

theorem cmp1_eq_lex : cmp1 = lex cPos cPath := by
  funext x y; unfold cmp1 lex cPos cPath; cases cmpPosNoPosFirst x.pos y.pos <;> rfl

theorem cPos_tp : TotalPreorder cPos := cmpPosNoPosFirst_tp.on (fun e : Err => e.pos)
theorem cPath_tp : TotalPreorder cPath := cmpPath_tp.on (fun e : Err => e.path)

theorem cmp1_totalPreorder : TotalPreorder cmp1 := by
  rw [cmp1_eq_lex]; exact lex_tp cPos_tp cPath_tp

theorem cmpMsg_totalPreorder : TotalPreorder cmpMsg := cmpBytes_tp.on (fun e : Err => e.msg)

theorem cmp3_eq_lex : cmp3 = lex cmp1 cmpMsg := by
  funext x y; unfold cmp3 lex; cases cmp1 x y <;> rfl

theorem cmp3_totalPreorder : TotalPreorder cmp3 := by
  rw [cmp3_eq_lex]; exact lex_tp cmp1_totalPreorder cmpMsg_totalPreorder

theorem insertionSort_contract : SortContract (fun cmp l => insertionSort cmp l) :=
  ⟨fun cmp l => insertionSort_perm cmp l, fun _ l h => insertionSort_sorted h l⟩

theorem cmpMsg_eq_iff (x y : Err) : cmpMsg x y = .eq ↔ x.msg = y.msg := cmpBytes_eq_iff _ _

theorem sameGroup_iff (x y : Err) : sameGroup x y = true ↔ x.pos = y.pos ∧ x.path = y.path := by
  simp [sameGroup]

/-- errors with the same position and path tie in the first comparison -/
theorem cmp1_eq_of_same {x y : Err} (h1 : x.pos = y.pos) (h2 : x.path = y.path) : cmp1 x y = .eq := by
  rw [cmp1_eq_lex, lex_eq_iff]
  constructor
  · unfold cPos; rw [h1]; exact cmpPosNoPosFirst_tp.refl _
  · unfold cPath; rw [h2]; exact cmpPath_tp.refl _

/-- if the first comparison ties, the paths are equal and the positions compare equal -/
theorem cmp1_eq_elim {x y : Err} (h : cmp1 x y = .eq) :
    cmpPosNoPosFirst x.pos y.pos = .eq ∧ x.path = y.path := by
  rw [cmp1_eq_lex, lex_eq_iff] at h
  exact ⟨h.1, (cmpPath_eq_iff _ _).1 h.2⟩

/-! ### compaction -/

theorem sortedBy_cons {α : Type} {cmp : α → α → Ordering} {x : α} {l : List α} :
    SortedBy cmp (x :: l) ↔ (∀ y ∈ l, cmp x y ≠ .gt) ∧ SortedBy cmp l := by
  unfold SortedBy; exact List.pairwise_cons

theorem compactMsgAux_spec : ∀ (rest : List Err) (x : Err), SortedBy cmpMsg (x :: rest) →
    (compactMsgAux x rest).Pairwise (fun a b => cmpMsg a b = .lt) ∧
    (∀ e ∈ compactMsgAux x rest, cmpMsg x e = .lt ∧ e ∈ rest) ∧
    (∀ r ∈ rest, r.msg = x.msg ∨ ∃ e ∈ compactMsgAux x rest, e.msg = r.msg)
  | [], x, _ => by simp [compactMsgAux]
  | y :: rest, x, hs => by
    have hs' := sortedBy_cons.1 hs
    have hyr := sortedBy_cons.1 hs'.2
    unfold compactMsgAux
    by_cases hxy : x.msg = y.msg
    · rw [if_pos hxy]
      have hx : SortedBy cmpMsg (x :: rest) :=
        sortedBy_cons.2 ⟨fun z hz => hs'.1 z (List.mem_cons_of_mem _ hz), hyr.2⟩
      have ih := compactMsgAux_spec rest x hx
      refine ⟨ih.1, fun e he => ⟨(ih.2.1 e he).1, List.mem_cons_of_mem _ (ih.2.1 e he).2⟩, ?_⟩
      intro r hr
      rcases List.mem_cons.1 hr with h | h
      · left; rw [h]; exact hxy.symm
      · exact ih.2.2 r h
    · rw [if_neg hxy]
      have ih := compactMsgAux_spec rest y hs'.2
      have hxy_lt : cmpMsg x y = .lt := by
        have h1 := hs'.1 y (by simp)
        cases hc : cmpMsg x y with
        | lt => rfl
        | gt => exact absurd hc h1
        | eq => exact absurd ((cmpMsg_eq_iff x y).1 hc) hxy
      refine ⟨?_, ?_, ?_⟩
      · rw [List.pairwise_cons]
        exact ⟨fun e he => (ih.2.1 e he).1, ih.1⟩
      · intro e he
        rcases List.mem_cons.1 he with h | h
        · subst h; exact ⟨hxy_lt, by simp⟩
        · exact ⟨cmpMsg_totalPreorder.lt_trans hxy_lt (ih.2.1 e h).1, List.mem_cons_of_mem _ (ih.2.1 e h).2⟩
      · intro r hr
        right
        rcases List.mem_cons.1 hr with h | h
        · exact ⟨y, by simp, by rw [h]⟩
        · rcases ih.2.2 r h with h' | ⟨e, he, hem⟩
          · exact ⟨y, by simp, h'.symm⟩
          · exact ⟨e, List.mem_cons_of_mem _ he, hem⟩

theorem compactMsg_spec (l : List Err) (hs : SortedBy cmpMsg l) :
    (compactMsg l).Pairwise (fun a b => cmpMsg a b = .lt) ∧
    (∀ e ∈ compactMsg l, e ∈ l) ∧
    (∀ r ∈ l, ∃ e ∈ compactMsg l, e.msg = r.msg) := by
  cases l with
  | nil => simp [compactMsg]
  | cons x rest =>
    have h := compactMsgAux_spec rest x hs
    unfold compactMsg
    refine ⟨?_, ?_, ?_⟩
    · rw [List.pairwise_cons]; exact ⟨fun e he => (h.2.1 e he).1, h.1⟩
    · intro e he
      rcases List.mem_cons.1 he with h' | h'
      · subst h'; simp
      · exact List.mem_cons_of_mem _ (h.2.1 e h').2
    · intro r hr
      rcases List.mem_cons.1 hr with h' | h'
      · exact ⟨x, by simp, by rw [h']⟩
      · rcases h.2.2 r h' with h'' | ⟨e, he, hem⟩
        · exact ⟨x, by simp, h''.symm⟩
        · exact ⟨e, List.mem_cons_of_mem _ he, hem⟩

/-! ### one group -/

variable (S : (Err → Err → Ordering) → List Err → List Err)

theorem flush_spec (hS : SortContract S) (x : Err) (run : List Err)
    (hrun : ∀ g ∈ run, sameGroup x g = true) :
    (∀ e ∈ flush S x run, e ∈ x :: run) ∧
    (∀ g ∈ x :: run, ∃ e ∈ flush S x run, sameKey g e) ∧
    (flush S x run).Pairwise (fun a b => cmp3 a b = .lt) := by
  have hsame : ∀ g ∈ x :: run, g.pos = x.pos ∧ g.path = x.path := by
    intro g hg
    rcases List.mem_cons.1 hg with h | h
    · subst h; exact ⟨rfl, rfl⟩
    · have := (sameGroup_iff x g).1 (hrun g h); exact ⟨this.1.symm, this.2.symm⟩
  unfold flush
  by_cases he : run.isEmpty = true
  · simp only [he, if_true]
    have : run = [] := List.isEmpty_iff.1 he
    subst this
    refine ⟨fun e h => h, ?_, by simp⟩
    intro g hg
    have : g = x := by simpa using hg
    subst this
    exact ⟨g, by simp, rfl, rfl, rfl⟩
  · simp only [he]
    have hp := hS.perm cmpMsg (x :: run)
    have hsrt := hS.sorted cmpMsg (x :: run) cmpMsg_totalPreorder
    have hc := compactMsg_spec _ hsrt
    refine ⟨fun e h => hp.subset (hc.2.1 e h), ?_, ?_⟩
    · intro g hg
      have hg' : g ∈ S cmpMsg (x :: run) := hp.symm.subset hg
      rcases hc.2.2 g hg' with ⟨e, he', hm⟩
      have hex := hsame e (hp.subset (hc.2.1 e he'))
      have hgx := hsame g hg
      exact ⟨e, he', by rw [hgx.1, hex.1], by rw [hgx.2, hex.2], hm.symm⟩
    · refine List.Pairwise.imp_of_mem ?_ hc.1
      intro a b ha hb hab
      have hax := hsame a (hp.subset (hc.2.1 a ha))
      have hbx := hsame b (hp.subset (hc.2.1 b hb))
      rw [cmp3_eq_lex]
      exact lex_lt_of_eq_lt (cmp1_eq_of_same (by rw [hax.1, hbx.1]) (by rw [hax.2, hbx.2])) hab

/-! ### the group loop -/

theorem groupLoop_complete (hS : SortContract S) : ∀ (rest : List Err) (x : Err) (run : List Err),
    (∀ g ∈ run, sameGroup x g = true) →
    (∀ e ∈ groupLoop S x run rest, e ∈ x :: (run ++ rest)) ∧
    (∀ g ∈ x :: (run ++ rest), ∃ e ∈ groupLoop S x run rest, sameKey g e)
  | [], x, run, hrun => by
    have h := flush_spec S hS x run hrun
    simp only [groupLoop, List.append_nil]
    exact ⟨h.1, h.2.1⟩
  | y :: rest, x, run, hrun => by
    unfold groupLoop
    by_cases hxy : sameGroup x y = true
    · rw [if_pos hxy]
      have ih := groupLoop_complete hS rest x (run ++ [y]) (by
        intro g hg
        rcases List.mem_append.1 hg with h | h
        · exact hrun g h
        · have : g = y := by simpa using h
          subst this; exact hxy)
      have e1 : run ++ [y] ++ rest = run ++ y :: rest := by simp
      rw [e1] at ih
      exact ih
    · rw [if_neg hxy]
      have hf := flush_spec S hS x run hrun
      have ih := groupLoop_complete hS rest y [] (by simp)
      simp only [List.nil_append] at ih
      constructor
      · intro e he
        rcases List.mem_append.1 he with h | h
        · have := hf.1 e h
          rcases List.mem_cons.1 this with h' | h'
          · subst h'; simp
          · exact List.mem_cons_of_mem _ (List.mem_append_left _ h')
        · exact List.mem_cons_of_mem _ (List.mem_append_right _ (ih.1 e h))
      · intro g hg
        have : g ∈ x :: run ∨ g ∈ y :: rest := by
          rcases List.mem_cons.1 hg with h | h
          · left; subst h; simp
          · rcases List.mem_append.1 h with h' | h'
            · left; exact List.mem_cons_of_mem _ h'
            · right; exact h'
        rcases this with h | h
        · rcases hf.2.1 g h with ⟨e, he, hk⟩
          exact ⟨e, List.mem_append_left _ he, hk⟩
        · rcases ih.2 g h with ⟨e, he, hk⟩
          exact ⟨e, List.mem_append_right _ he, hk⟩

theorem groupLoop_strict (hS : SortContract S) : ∀ (rest : List Err) (x : Err) (run : List Err),
    (∀ g ∈ run, sameGroup x g = true) →
    SortedBy cmp1 (x :: (run ++ rest)) →
    (∀ a ∈ x :: (run ++ rest), ∀ b ∈ x :: (run ++ rest), cmp1 a b = .eq → sameGroup a b = true) →
    (groupLoop S x run rest).Pairwise (fun a b => cmp3 a b = .lt)
  | [], x, run, hrun, _, _ => by
    simp only [groupLoop]
    exact (flush_spec S hS x run hrun).2.2
  | y :: rest, x, run, hrun, hsrt, hcan => by
    unfold groupLoop
    by_cases hxy : sameGroup x y = true
    · rw [if_pos hxy]
      have e1 : run ++ [y] ++ rest = run ++ y :: rest := by simp
      refine groupLoop_strict hS rest x (run ++ [y]) ?_ (by rw [e1]; exact hsrt) (by rw [e1]; exact hcan)
      intro g hg
      rcases List.mem_append.1 hg with h | h
      · exact hrun g h
      · have : g = y := by simpa using h
        subst this; exact hxy
    · rw [if_neg hxy]
      have hf := flush_spec S hS x run hrun
      have hc := groupLoop_complete S hS rest y [] (by simp)
      simp only [List.nil_append] at hc
      have hsub : List.Sublist (y :: rest) (x :: (run ++ y :: rest)) :=
        (List.sublist_append_right run (y :: rest)).cons _
      have hsrt' : SortedBy cmp1 (y :: rest) := List.Pairwise.sublist hsub hsrt
      have hmem : ∀ z, z ∈ y :: rest → z ∈ x :: (run ++ y :: rest) := fun z hz => hsub.subset hz
      have ih := groupLoop_strict hS rest y [] (by simp) (by simpa using hsrt')
        (by simpa using fun a ha b hb => hcan a (hmem a ha) b (hmem b hb))
      rw [List.pairwise_append]
      refine ⟨hf.2.2, ih, ?_⟩
      intro a ha b hb
      -- a is in the group of x, b is at or after y
      have hax : a ∈ x :: run := hf.1 a ha
      have hby : b ∈ y :: rest := hc.1 b hb
      have hxs := sortedBy_cons.1 hsrt
      have hax1 : cmp1 a x = .eq := by
        rcases List.mem_cons.1 hax with h | h
        · subst h; exact cmp1_totalPreorder.refl _
        · have := (sameGroup_iff x a).1 (hrun a h)
          exact cmp1_eq_of_same this.1.symm this.2.symm
      have hxy_lt : cmp1 x y = .lt := by
        have h1 : cmp1 x y ≠ .gt := hxs.1 y (List.mem_append_right _ (by simp))
        cases hcxy : cmp1 x y with
        | lt => rfl
        | gt => exact absurd hcxy h1
        | eq =>
          exact absurd (hcan x (by simp) y (hmem y (by simp)) hcxy) hxy
      have hyb : cmp1 y b ≠ .gt := by
        rcases List.mem_cons.1 hby with h | h
        · subst h; rw [cmp1_totalPreorder.refl]; decide
        · exact (sortedBy_cons.1 hsrt').1 b h
      have hxb : cmp1 x b = .lt := cmp1_totalPreorder.lt_of_lt_of_le hxy_lt hyb
      have hab : cmp1 a b = .lt := cmp1_totalPreorder.lt_of_eq_of_lt hax1 hxb
      rw [cmp3_eq_lex]; exact lex_lt_of_lt hab

/-! ### the whole of removeMultiples -/

theorem sanitizeWith_complete (hS : SortContract S) (es : List Err) :
    (∀ e ∈ sanitizeWith S es, e ∈ es) ∧ (∀ e ∈ es, ∃ e' ∈ sanitizeWith S es, sameKey e e') := by
  unfold sanitizeWith
  by_cases hl : es.length ≤ 1
  · simp only [hl, if_true]
    exact ⟨fun e h => h, fun e h => ⟨e, h, rfl, rfl, rfl⟩⟩
  · simp only [hl, if_false]
    have hp := hS.perm cmp1 es
    cases ha : S cmp1 es with
    | nil =>
      rw [ha] at hp
      have : es = [] := List.Perm.eq_nil hp.symm
      subst this; simp
    | cons x rest =>
      rw [ha] at hp
      have h := groupLoop_complete S hS rest x [] (by simp)
      simp only [List.nil_append] at h
      exact ⟨fun e he => hp.subset (h.1 e he), fun e he => h.2 e (hp.symm.subset he)⟩

theorem sanitizeWith_strictSorted (hS : SortContract S) (es : List Err) (h1 : PosCanon es) :
    StrictSorted (sanitizeWith S es) := by
  unfold sanitizeWith StrictSorted
  by_cases hl : es.length ≤ 1
  · simp only [hl, if_true]
    match es, hl with
    | [], _ => simp
    | [_], _ => simp
    | _ :: _ :: _, hl => simp at hl
  · simp only [hl, if_false]
    have hp := hS.perm cmp1 es
    have hs := hS.sorted cmp1 es cmp1_totalPreorder
    cases ha : S cmp1 es with
    | nil => simp
    | cons x rest =>
      rw [ha] at hp hs
      refine groupLoop_strict S hS rest x [] (by simp) (by simpa using hs) ?_
      intro a ha' b hb' hab
      have hae : a ∈ es := hp.subset (by simpa using ha')
      have hbe : b ∈ es := hp.subset (by simpa using hb')
      have := cmp1_eq_elim hab
      exact (sameGroup_iff a b).2 ⟨h1 a hae b hbe this.1, this.2⟩

/-- under H2 the survivors are exactly the input errors (as a set) -/
theorem sanitizeWith_mem (hS : SortContract S) (es : List Err) (h2 : MsgDet es) (e : Err) :
    e ∈ sanitizeWith S es ↔ e ∈ es := by
  have hc := sanitizeWith_complete S hS es
  constructor
  · exact hc.1 e
  · intro he
    rcases hc.2 e he with ⟨e', he', hk⟩
    have : e = e' := h2 e he e' (hc.1 e' he') hk.1 hk.2.1 hk.2.2
    rw [this]; exact he'

theorem sanitizeWith_perm (S S' : (Err → Err → Ordering) → List Err → List Err)
    (hS : SortContract S) (hS' : SortContract S') (es es' : List Err)
    (hp : es.Perm es') (h1 : PosCanon es) (h2 : MsgDet es) :
    sanitizeWith S es = sanitizeWith S' es' := by
  have h1' : PosCanon es' := fun x hx y hy => h1 x (hp.symm.subset hx) y (hp.symm.subset hy)
  have h2' : MsgDet es' := fun x hx y hy => h2 x (hp.symm.subset hx) y (hp.symm.subset hy)
  refine strict_unique cmp3_totalPreorder _ _ (sanitizeWith_strictSorted S hS es h1)
    (sanitizeWith_strictSorted S' hS' es' h1') ?_
  intro x
  rw [sanitizeWith_mem S hS es h2, sanitizeWith_mem S' hS' es' h2']
  exact ⟨fun h => hp.subset h, fun h => hp.symm.subset h⟩

theorem sanitizeWith_idem (hS : SortContract S) (es : List Err) (h1 : PosCanon es) (h2 : MsgDet es) :
    sanitizeWith S (sanitizeWith S es) = sanitizeWith S es := by
  have hmem := sanitizeWith_mem S hS es h2
  have h1o : PosCanon (sanitizeWith S es) := fun x hx y hy => h1 x ((hmem x).1 hx) y ((hmem y).1 hy)
  have h2o : MsgDet (sanitizeWith S es) := fun x hx y hy => h2 x ((hmem x).1 hx) y ((hmem y).1 hy)
  refine strict_unique cmp3_totalPreorder _ _ (sanitizeWith_strictSorted S hS _ h1o)
    (sanitizeWith_strictSorted S hS es h1) ?_
  intro x
  exact sanitizeWith_mem S hS _ h2o x

/-! ### the full statements are false of the code -/

def wA : Pos := ⟨1, [97], 3, 0⟩
def wB : Pos := ⟨2, [97], 3, 0⟩
def w1 : Err := ⟨wA, [], [109], 0⟩
def w1' : Err := ⟨wA, [], [109], 1⟩
def w2 : Err := ⟨wB, [], [110], 0⟩

theorem perm_false : ¬ (∀ es es' : List Err, es.Perm es' → sanitize es = sanitize es') := by
  intro h
  have := h [w1, w1'] [w1', w1] (List.Perm.swap _ _ _)
  revert this; decide

theorem msgDet_witness : MsgDet [w1, w2, w1] := by
  intro x hx y hy
  simp only [List.mem_cons, List.mem_nil_iff, or_false] at hx hy
  rcases hx with rfl | rfl | rfl <;> rcases hy with rfl | rfl | rfl <;> decide

theorem perm_false_alias :
    ¬ (∀ es es' : List Err, es.Perm es' → MsgDet es → sanitize es = sanitize es') := by
  intro h
  have hp : [w1, w2, w1].Perm [w1, w1, w2] := (List.Perm.swap _ _ _).cons _
  have := h _ _ hp msgDet_witness
  revert this; decide

theorem dedup_false : ¬ (∀ es : List Err, (sanitize es).Pairwise (fun x y => ¬ sameKey x y)) := by
  intro h
  have h3 := h [w1, w2, w1]
  have e : sanitize [w1, w2, w1] = [w1, w2, w1] := by decide
  rw [e] at h3
  have := (List.pairwise_cons.1 h3).1 w1 (by simp)
  exact this ⟨rfl, rfl, rfl⟩

end CueVerif.Sanitize
