import CueVerif.Spec.Closed

/-!
Proofs for C05 (closedness): the model `accepts` agrees with the spec checker `admits`.
-/
namespace CueVerif.Closed

/-! ### observers on values -/

def child : Val → Label → Val
  | .st _ _ v _ _ _ _ _ _, l => v l
  | .top, _ => .top
  | .bot, _ => .bot
  | .sc _, _ => .bot

def vshape : Val → Shape
  | .bot => .bot
  | .top => .top
  | .sc s => .sc s
  | .st .. => .st

def vlabels : Val → List Label
  | .st l _ _ _ _ _ _ _ _ => l
  | _ => []

def vkind : Val → Label → Option Kind
  | .st _ k _ _ _ _ _ _ _, l => k l
  | _, _ => none

def vhard : Val → List Pred
  | .st _ _ _ h _ _ _ _ _ => h
  | _ => []

def vsoft : Val → List Pred
  | .st _ _ _ _ s _ _ _ _ => s
  | _ => []

def vnames : Val → Label → Bool
  | .st _ _ _ _ _ n _ _ _, l => n l
  | _, _ => false

def vwide : Val → Label → Bool
  | .st _ _ _ _ _ _ w _ _, l => w l
  | _, _ => false

def vrec : Val → Bool
  | .st _ _ _ _ _ _ _ r _ => r
  | _ => false

def verec : Val → Bool
  | .st _ _ _ _ _ _ _ _ e => e
  | _ => false

def Shape.live : Shape → Bool
  | .st => true
  | .top => true
  | _ => false

/-! ### basic algebra -/

theorem unify_top (X : Val) : unify X .top = X := by
  cases X <;> rfl

theorem unify_bot (X : Val) : unify X .bot = .bot := by
  cases X <;> rfl

theorem top_unify (X : Val) : unify .top X = X := by
  cases X <;> rfl

theorem meet_top (a : Shape) : a.meet .top = a := by
  cases a <;> rfl

theorem top_meet (a : Shape) : Shape.top.meet a = a := by
  cases a <;> rfl

theorem live_meet {a b : Shape} (h : (a.meet b).live = true) : a.live = true ∧ b.live = true := by
  cases a <;> cases b
  case sc.sc s t =>
    simp only [Shape.meet] at h
    cases hm : s.meet t <;> rw [hm] at h <;> simp [Shape.live] at h
  all_goals simp_all [Shape.meet, Shape.live]

theorem live_cases {a : Shape} (h : a.live = true) : a = .st ∨ a = .top := by
  cases a <;> simp_all [Shape.live]

theorem st_meet_live {a : Shape} (h : (Shape.st.meet a).live = true) : a.live = true :=
  (live_meet h).2

theorem allP_nil (l : Label) : allP [] l = true := rfl

theorem allP_append (a b : List Pred) (l : Label) : allP (a ++ b) l = (allP a l && allP b l) := by
  simp [allP, List.all_append]

theorem allP_single (p : Pred) (l : Label) : allP [p] l = p l := by
  simp [allP]

theorem allP_widen (s : List Pred) (w : Pred) (l : Label) :
    allP (s.map (fun r x => r x || w x)) l = (allP s l || w l) := by
  induction s with
  | nil => simp [allP]
  | cons r s ih =>
    simp only [allP, List.map_cons, List.all_cons] at ih ⊢
    rw [ih]
    cases r l <;> cases w l <;> simp

theorem dOf_eq (h : List Pred) (n : Pred) (l : Label) :
    dOf h n l = dSel (!h.isEmpty) (allP h l) (n l) := by
  unfold dOf dSel
  cases h.isEmpty <;> simp

/-! ### vshape under the operations -/

theorem vshape_unify (A B : Val) : vshape (unify A B) = (vshape A).meet (vshape B) := by
  cases A <;> cases B
  case sc.sc s t =>
    show vshape (match s.meet t with | some r => Val.sc r | none => Val.bot) =
      (match s.meet t with | some r => Shape.sc r | none => Shape.bot)
    cases s.meet t <;> rfl
  all_goals rfl

theorem vshape_sealV (V : Val) : vshape (sealV V) = vshape V := by
  cases V <;> simp [sealV, vshape]

theorem vshape_asEmb (V : Val) : vshape (asEmb V) = vshape V := by
  cases V <;> simp [asEmb, vshape]

theorem vshape_asOwn (V : Val) : vshape (asOwn V) = vshape V := by
  cases V <;> simp [asOwn, vshape]

theorem vshape_closeV (V : Val) : vshape (closeV V) = vshape V := by
  cases V <;> simp [closeV, vshape]

theorem vshape_closeRec (V : Val) : vshape (closeRec V) = vshape V := by
  cases V <;> simp [closeRec, vshape]

theorem vshape_top {V : Val} (h : vshape V = .top) : V = .top := by
  cases V <;> simp_all [vshape]

/-! ### child under the operations -/

theorem child_unify (A B : Val) (l : Label) :
    child (unify A B) l = unify (child A l) (child B l) := by
  cases A <;> cases B
  case sc.sc s t =>
    show child (match s.meet t with | some r => Val.sc r | none => Val.bot) l = Val.bot
    cases s.meet t <;> rfl
  all_goals simp [unify, child, unify_top, unify_bot]

theorem child_sealV (G : Val) (l : Label) :
    child (sealV G) l = if verec G then closeRec (sealV (child G l)) else sealV (child G l) := by
  cases G with
  | st _ _ _ _ _ _ _ _ e => cases e <;> rfl
  | _ => rfl

theorem child_asEmb (V : Val) (l : Label) : child (asEmb V) l = asEmb (child V l) := by
  cases V <;> simp [asEmb, child]

theorem child_asOwn (V : Val) (l : Label) : child (asOwn V) l = asOwn (child V l) := by
  cases V <;> simp [asOwn, child]

theorem child_closeV (V : Val) (l : Label) : child (closeV V) l = child V l := by
  cases V <;> simp [closeV, child]

theorem child_closeRec (V : Val) (l : Label) : child (closeRec V) l = closeRec (child V l) := by
  cases V <;> simp [closeRec, child]

/-! ### observers under sealV / asEmb / asOwn / closeV / closeRec -/

theorem vlabels_sealV (V : Val) : vlabels (sealV V) = vlabels V := by cases V <;> rfl
theorem vkind_sealV (V : Val) (l : Label) : vkind (sealV V) l = vkind V l := by cases V <;> rfl
theorem vhard_sealV (V : Val) :
    vhard (sealV V) = vhard V ++ (vsoft V).map (fun r x => r x || vwide V x) := by cases V <;> rfl
theorem vsoft_sealV (V : Val) : vsoft (sealV V) = [] := by cases V <;> rfl
theorem vnames_sealV (V : Val) (l : Label) : vnames (sealV V) l = vnames V l := by cases V <;> rfl
theorem vrec_sealV (V : Val) : vrec (sealV V) = vrec V := by cases V <;> rfl

theorem vlabels_asEmb (V : Val) : vlabels (asEmb V) = vlabels V := by cases V <;> rfl
theorem vkind_asEmb (V : Val) (l : Label) : vkind (asEmb V) l = vkind V l := by cases V <;> rfl
theorem vhard_asEmb (V : Val) : vhard (asEmb V) = [] := by cases V <;> rfl
theorem vsoft_asEmb (V : Val) : vsoft (asEmb V) = vhard V := by cases V <;> rfl
theorem vnames_asEmb (V : Val) (l : Label) : vnames (asEmb V) l = vnames V l := by cases V <;> rfl
theorem vwide_asEmb (V : Val) (l : Label) : vwide (asEmb V) l = dOf (vhard V) (vnames V) l := by
  cases V <;> rfl
theorem vrec_asEmb (V : Val) : vrec (asEmb V) = vrec V := by cases V <;> rfl
theorem verec_asEmb (V : Val) : verec (asEmb V) = vrec V := by cases V <;> rfl

theorem vlabels_asOwn (V : Val) : vlabels (asOwn V) = vlabels V := by cases V <;> rfl
theorem vkind_asOwn (V : Val) (l : Label) : vkind (asOwn V) l = vkind V l := by cases V <;> rfl
theorem vhard_asOwn (V : Val) : vhard (asOwn V) = vhard V := by cases V <;> rfl
theorem vsoft_asOwn (V : Val) : vsoft (asOwn V) = vsoft V := by cases V <;> rfl
theorem vnames_asOwn (V : Val) (l : Label) : vnames (asOwn V) l = vnames V l := by cases V <;> rfl
theorem vwide_asOwn (V : Val) (l : Label) : vwide (asOwn V) l = vnames V l := by cases V <;> rfl
theorem vrec_asOwn (V : Val) : vrec (asOwn V) = vrec V := by cases V <;> rfl
theorem verec_asOwn (V : Val) : verec (asOwn V) = false := by cases V <;> rfl

theorem vlabels_closeV (V : Val) : vlabels (closeV V) = vlabels V := by cases V <;> rfl
theorem vkind_closeV (V : Val) (l : Label) : vkind (closeV V) l = vkind V l := by cases V <;> rfl
theorem vsoft_closeV (V : Val) : vsoft (closeV V) = vsoft V := by cases V <;> rfl
theorem vnames_closeV (V : Val) (l : Label) : vnames (closeV V) l = vnames V l := by cases V <;> rfl
theorem vrec_closeV (V : Val) : vrec (closeV V) = vrec V := by cases V <;> rfl
theorem allP_vhard_closeV (V : Val) (l : Label) :
    allP (vhard (closeV V)) l =
      (allP (vhard V) l && (vshape V != .st || dOf (vhard V) (vnames V) l)) := by
  cases V with
  | st _ _ _ h _ n _ _ _ =>
    show allP (h ++ [dOf h n]) l = _
    rw [allP_append, allP_single]
    simp [vshape, vhard]
    rfl
  | _ => simp [closeV, vhard, vshape, allP]
theorem isEmpty_vhard_closeV (V : Val) : (vhard (closeV V)).isEmpty = (vshape V != .st) := by
  cases V <;> simp [closeV, vhard, vshape]

theorem vlabels_closeRec (V : Val) : vlabels (closeRec V) = vlabels V := by cases V <;> rfl
theorem vkind_closeRec (V : Val) (l : Label) : vkind (closeRec V) l = vkind V l := by cases V <;> rfl
theorem vsoft_closeRec (V : Val) : vsoft (closeRec V) = vsoft V := by cases V <;> rfl
theorem vnames_closeRec (V : Val) (l : Label) : vnames (closeRec V) l = vnames V l := by
  cases V <;> rfl
theorem vrec_closeRec (V : Val) : vrec (closeRec V) = (vshape V == .st) := by cases V <;> rfl
theorem allP_vhard_closeRec (V : Val) (l : Label) :
    allP (vhard (closeRec V)) l =
      (allP (vhard V) l && (vshape V != .st || dOf (vhard V) (vnames V) l)) := by
  cases V with
  | st _ _ _ h _ n _ _ _ =>
    show allP (h ++ [dOf h n]) l = _
    rw [allP_append, allP_single]
    simp [vshape, vhard]
    rfl
  | _ => simp [closeRec, vhard, vshape, allP]
theorem isEmpty_vhard_closeRec (V : Val) : (vhard (closeRec V)).isEmpty = (vshape V != .st) := by
  cases V <;> simp [closeRec, vhard, vshape]

/-! ### observers under unify (both sides struct or top) -/

theorem mergeK_none_right (a : Option Kind) : mergeK a none = a := by cases a <;> rfl
theorem mergeK_none_left (a : Option Kind) : mergeK none a = a := by cases a <;> rfl

section unifyLive
variable {A B : Val} (ha : (vshape A).live = true) (hb : (vshape B).live = true)
include ha hb

theorem vlabels_unify : vlabels (unify A B) = vlabels A ++ vlabels B := by
  cases A <;> cases B <;> simp_all [vshape, Shape.live, unify, vlabels]
theorem vkind_unify (l : Label) : vkind (unify A B) l = mergeK (vkind A l) (vkind B l) := by
  cases A <;> cases B <;>
    simp_all [vshape, Shape.live, unify, vkind, mergeK_none_right, mergeK_none_left]
theorem vhard_unify : vhard (unify A B) = vhard A ++ vhard B := by
  cases A <;> cases B <;> simp_all [vshape, Shape.live, unify, vhard]
theorem vsoft_unify : vsoft (unify A B) = vsoft A ++ vsoft B := by
  cases A <;> cases B <;> simp_all [vshape, Shape.live, unify, vsoft]
theorem vnames_unify (l : Label) : vnames (unify A B) l = (vnames A l || vnames B l) := by
  cases A <;> cases B <;> simp_all [vshape, Shape.live, unify, vnames]
theorem vwide_unify (l : Label) : vwide (unify A B) l = (vwide A l || vwide B l) := by
  cases A <;> cases B <;> simp_all [vshape, Shape.live, unify, vwide]
theorem vrec_unify : vrec (unify A B) = (vrec A || vrec B) := by
  cases A <;> cases B <;> simp_all [vshape, Shape.live, unify, vrec]
theorem verec_unify : verec (unify A B) = (verec A || verec B) := by
  cases A <;> cases B <;> simp_all [vshape, Shape.live, unify, verec]
end unifyLive


/-! ### the arc type at a label, from the declarations -/

def dk (m r o : Bool) : Option Kind :=
  if m then some .member else if r then some .required else if o then some .optional else none

theorem mergeK_dk (m r o m' r' o' : Bool) :
    mergeK (dk m r o) (dk m' r' o') = dk (m || m') (r || r') (o || o') := by
  cases m <;> cases r <;> cases o <;> cases m' <;> cases r' <;> cases o' <;> rfl

theorem dk_false : dk false false false = none := rfl

def declK (e : Expr) (l : Label) : Option Kind :=
  dk (hasDecl .member e l) (hasDecl .required e l) (hasDecl .optional e l)

theorem declK_or (e a b : Expr) (l : Label)
    (h : ∀ k, hasDecl k e l = (hasDecl k a l || hasDecl k b l)) :
    declK e l = mergeK (declK a l) (declK b l) := by
  unfold declK
  rw [mergeK_dk, h, h, h]

theorem declK_same (e a : Expr) (l : Label) (h : ∀ k, hasDecl k e l = hasDecl k a l) :
    declK e l = declK a l := by
  unfold declK
  rw [h, h, h]

/-! ### what `ev e` / `evS e` look like, in terms of the spec's functions -/

structure RepV (V : Val) (e : Expr) : Prop where
  labels : vlabels V = fieldLabels e
  kind : ∀ l, vkind V l = declK e l
  soft : vsoft V = []
  hard : ∀ l, allP (vhard V) l = allowedBy e l
  cl : (vhard V).isEmpty = !closed e
  names : ∀ l, vnames V l = names e l
  rc : vrec V = recC e
  child : ∀ l, child V l = ev (sub l e)

structure RepS (S : Val) (e : Expr) : Prop where
  labels : vlabels S = fieldLabels e
  kind : ∀ l, vkind S l = declK e l
  hard : ∀ l, allP (vhard S) l = ownA e l
  soft : ∀ l, allP (vsoft S) l = embA e l
  cl : ((vhard S).isEmpty && (vsoft S).isEmpty) = !closed e
  names : ∀ l, vnames S l = names e l
  wide : ∀ l, vwide S l = wideS e l
  rc : vrec S = recC e
  erec : verec S = embRec e
  child : ∀ l, child S l = evS (subS l e)

theorem repV_top : RepV .top .top :=
  ⟨rfl, fun _ => rfl, rfl, fun _ => rfl, rfl, fun _ => rfl, rfl, fun _ => rfl⟩

theorem repS_top : RepS .top .top :=
  ⟨rfl, fun _ => rfl, fun _ => rfl, fun _ => rfl, rfl, fun _ => rfl, fun _ => rfl, rfl, rfl,
    fun _ => rfl⟩

/-- the projections produced by `subS` are always read as literals under construction -/
theorem ev_subS (l : Label) (e : Expr) : ev (subS l e) = sealV (evS (subS l e)) := by
  induction e with
  | top => rfl
  | bot => rfl
  | sc s => rfl
  | nil => rfl
  | field l' k v rest _ ih =>
    simp only [subS]
    split
    · rfl
    · exact ih
  | pat p v rest _ ih =>
    simp only [subS]
    split
    · rfl
    · exact ih
  | ell rest ih => simpa only [subS] using ih
  | emb e rest _ _ => rfl
  | own e rest _ _ => rfl
  | close e _ => rfl
  | defn e _ => rfl
  | and a b _ _ => rfl

theorem ev_wrapDef (b : Bool) (x : Expr) :
    ev (wrapDef b x) = if b then closeRec (ev x) else ev x := by
  cases b <;> rfl

theorem isEmpty_app {α : Type} (a b : List α) : (a ++ b).isEmpty = (a.isEmpty && b.isEmpty) := by
  cases a <;> cases b <;> rfl

theorem isEmpty_mp {α β : Type} (f : α → β) (a : List α) : (a.map f).isEmpty = a.isEmpty := by
  cases a <;> rfl

/-- sealing a literal -/
theorem repV_seal {S : Val} {e : Expr} (h : RepS S e)
    (hall : ∀ l, allowedBy e l = (ownA e l && (embA e l || wideS e l)))
    (hsub : ∀ l, sub l e = wrapDef (embRec e) (subS l e)) : RepV (sealV S) e where
  labels := by rw [vlabels_sealV, h.labels]
  kind l := by rw [vkind_sealV, h.kind]
  soft := vsoft_sealV S
  hard l := by
    rw [vhard_sealV, allP_append, allP_widen, h.hard, h.soft, h.wide, hall]
  cl := by
    rw [vhard_sealV, isEmpty_app, isEmpty_mp, h.cl]
  names l := by rw [vnames_sealV, h.names]
  rc := by rw [vrec_sealV, h.rc]
  child l := by
    rw [child_sealV, h.child, ← ev_subS, h.erec, hsub, ev_wrapDef]

/-- using a value as an embedding -/
theorem repS_asEmb {V : Val} {e : Expr} (h : RepV V e)
    (hown : ∀ l, ownA e l = true) (hemb : ∀ l, embA e l = allowedBy e l)
    (hwide : ∀ l, wideS e l = dSel (closed e) (allowedBy e l) (names e l))
    (hrec : embRec e = recC e)
    (hsub : ∀ l, subS l e = .emb (sub l e) .top) : RepS (asEmb V) e where
  labels := by rw [vlabels_asEmb, h.labels]
  kind l := by rw [vkind_asEmb, h.kind]
  hard l := by rw [vhard_asEmb, hown]; rfl
  soft l := by rw [vsoft_asEmb, h.hard, hemb]
  cl := by rw [vhard_asEmb, vsoft_asEmb, h.cl]; rfl
  names l := by rw [vnames_asEmb, h.names]
  wide l := by
    rw [vwide_asEmb, dOf_eq, h.cl, h.hard, hwide]
    simp [h.names]
  rc := by rw [vrec_asEmb, h.rc]
  erec := by rw [verec_asEmb, h.rc, hrec]
  child l := by
    rw [child_asEmb, h.child, hsub]
    show _ = unify (asEmb (ev (sub l e))) Val.top
    rw [unify_top]

/-- one more conjunct of a literal under construction -/
theorem repS_unify {A R : Val} {e rest : Expr}
    (ha : (vshape A).live = true) (hr : (vshape R).live = true) (hR : RepS R rest)
    (labels : fieldLabels e = vlabels A ++ fieldLabels rest)
    (kind : ∀ l, declK e l = mergeK (vkind A l) (declK rest l))
    (hard : ∀ l, ownA e l = (allP (vhard A) l && ownA rest l))
    (soft : ∀ l, embA e l = (allP (vsoft A) l && embA rest l))
    (cl : closed e = (!((vhard A).isEmpty && (vsoft A).isEmpty) || closed rest))
    (names : ∀ l, names e l = (vnames A l || names rest l))
    (wide : ∀ l, wideS e l = (vwide A l || wideS rest l))
    (rc : recC e = (vrec A || recC rest))
    (erec : embRec e = (verec A || embRec rest))
    (child : ∀ l, evS (subS l e) = unify (child A l) (evS (subS l rest))) :
    RepS (unify A R) e where
  labels := by rw [vlabels_unify ha hr, hR.labels, labels]
  kind l := by rw [vkind_unify ha hr, hR.kind, kind]
  hard l := by rw [vhard_unify ha hr, allP_append, hR.hard, hard]
  soft l := by rw [vsoft_unify ha hr, allP_append, hR.soft, soft]
  cl := by
    rw [vhard_unify ha hr, vsoft_unify ha hr, isEmpty_app, isEmpty_app, cl]
    have := hR.cl
    revert this
    cases (vhard A).isEmpty <;> cases (vsoft A).isEmpty <;> cases (vhard R).isEmpty <;>
      cases (vsoft R).isEmpty <;> cases closed rest <;> simp
  names l := by rw [vnames_unify ha hr, hR.names, names]
  wide l := by rw [vwide_unify ha hr, hR.wide, wide]
  rc := by rw [vrec_unify ha hr, hR.rc, rc]
  erec := by rw [verec_unify ha hr, hR.erec, erec]
  child l := by rw [child_unify, hR.child, child]

theorem repV_and {a b : Expr} (hla : (vshape (ev a)).live = true) (hlb : (vshape (ev b)).live = true)
    (ha : RepV (ev a) a) (hb : RepV (ev b) b) : RepV (unify (ev a) (ev b)) (.and a b) where
  labels := by rw [vlabels_unify hla hlb, ha.labels, hb.labels]; rfl
  kind l := by
    rw [vkind_unify hla hlb, ha.kind, hb.kind, declK_or (.and a b) a b l (fun _ => rfl)]
  soft := by rw [vsoft_unify hla hlb, ha.soft, hb.soft]; rfl
  hard l := by rw [vhard_unify hla hlb, allP_append, ha.hard, hb.hard]; rfl
  cl := by
    rw [vhard_unify hla hlb, isEmpty_app, ha.cl, hb.cl]
    show _ = !(closed a || closed b)
    cases closed a <;> cases closed b <;> rfl
  names l := by rw [vnames_unify hla hlb, ha.names, hb.names]; rfl
  rc := by rw [vrec_unify hla hlb, ha.rc, hb.rc]; rfl
  child l := by rw [child_unify, ha.child, hb.child]; rfl

theorem repV_close {V : Val} {e : Expr} (hs : vshape V = shape e) (h : RepV V e) :
    RepV (closeV V) (.close e) where
  labels := by rw [vlabels_closeV, h.labels]; rfl
  kind l := by rw [vkind_closeV, h.kind]; rfl
  soft := by rw [vsoft_closeV, h.soft]
  hard l := by
    rw [allP_vhard_closeV, dOf_eq, h.cl, h.hard, h.names, hs, Bool.not_not]
    rfl
  cl := by rw [isEmpty_vhard_closeV, hs]; rfl
  names l := by rw [vnames_closeV, h.names]; rfl
  rc := by rw [vrec_closeV, h.rc]; rfl
  child l := by rw [child_closeV, h.child]; rfl

theorem repV_defn {V : Val} {e : Expr} (hs : vshape V = shape e) (h : RepV V e) :
    RepV (closeRec V) (.defn e) where
  labels := by rw [vlabels_closeRec, h.labels]; rfl
  kind l := by rw [vkind_closeRec, h.kind]; rfl
  soft := by rw [vsoft_closeRec, h.soft]
  hard l := by
    rw [allP_vhard_closeRec, dOf_eq, h.cl, h.hard, h.names, hs, Bool.not_not]
    rfl
  cl := by rw [isEmpty_vhard_closeRec, hs]; rfl
  names l := by rw [vnames_closeRec, h.names]; rfl
  rc := by rw [vrec_closeRec, hs]; rfl
  child l := by rw [child_closeRec, h.child]; rfl

/-! ### shapes -/

theorem shapes (e : Expr) : vshape (ev e) = shape e ∧ vshape (evS e) = shape e := by
  induction e with
  | top => exact ⟨rfl, rfl⟩
  | bot => exact ⟨rfl, rfl⟩
  | sc s => exact ⟨rfl, rfl⟩
  | nil => exact ⟨rfl, rfl⟩
  | field l k v rest _ ih =>
    have h : vshape (evS (.field l k v rest)) = shape (.field l k v rest) := by
      show vshape (unify (single l k (asOwn (ev v))) (evS rest)) = Shape.st.meet (shape rest)
      rw [vshape_unify, ih.2]; rfl
    exact ⟨by show vshape (sealV (evS (.field l k v rest))) = _; rw [vshape_sealV, h], h⟩
  | pat p v rest _ ih =>
    have h : vshape (evS (.pat p v rest)) = shape (.pat p v rest) := by
      show vshape (unify (patV p (asOwn (ev v))) (evS rest)) = Shape.st.meet (shape rest)
      rw [vshape_unify, ih.2]; rfl
    exact ⟨by show vshape (sealV (evS (.pat p v rest))) = _; rw [vshape_sealV, h], h⟩
  | ell rest ih =>
    have h : vshape (evS (.ell rest)) = shape (.ell rest) := by
      show vshape (unify ellV (evS rest)) = Shape.st.meet (shape rest)
      rw [vshape_unify, ih.2]; rfl
    exact ⟨by show vshape (sealV (evS (.ell rest))) = _; rw [vshape_sealV, h], h⟩
  | emb e rest ihe ih =>
    have h : vshape (evS (.emb e rest)) = shape (.emb e rest) := by
      show vshape (unify (asEmb (ev e)) (evS rest)) = (shape e).meet (shape rest)
      rw [vshape_unify, ih.2, vshape_asEmb, ihe.1]
    exact ⟨by show vshape (sealV (evS (.emb e rest))) = _; rw [vshape_sealV, h], h⟩
  | own e rest ihe ih =>
    have h : vshape (evS (.own e rest)) = shape (.own e rest) := by
      show vshape (unify (asOwn (ev e)) (evS rest)) = (shape e).meet (shape rest)
      rw [vshape_unify, ih.2, vshape_asOwn, ihe.1]
    exact ⟨by show vshape (sealV (evS (.own e rest))) = _; rw [vshape_sealV, h], h⟩
  | close e ih =>
    have h : vshape (ev (.close e)) = shape (.close e) := by
      show vshape (closeV (ev e)) = shape e
      rw [vshape_closeV, ih.1]
    exact ⟨h, by show vshape (asEmb (ev (.close e))) = _; rw [vshape_asEmb, h]⟩
  | defn e ih =>
    have h : vshape (ev (.defn e)) = shape (.defn e) := by
      show vshape (closeRec (ev e)) = shape e
      rw [vshape_closeRec, ih.1]
    exact ⟨h, by show vshape (asEmb (ev (.defn e))) = _; rw [vshape_asEmb, h]⟩
  | and a b iha ihb =>
    have h : vshape (ev (.and a b)) = shape (.and a b) := by
      show vshape (unify (ev a) (ev b)) = (shape a).meet (shape b)
      rw [vshape_unify, iha.1, ihb.1]
    exact ⟨h, by show vshape (asEmb (ev (.and a b))) = _; rw [vshape_asEmb, h]⟩

theorem vshape_ev (e : Expr) : vshape (ev e) = shape e := (shapes e).1
theorem vshape_evS (e : Expr) : vshape (evS e) = shape e := (shapes e).2


/-! ### the pieces of a literal -/

theorem vkind_single (l' : Label) (k : Kind) (W : Val) (l : Label) :
    vkind (single l' k W) l =
      dk (l == l' && Kind.member == k) (l == l' && Kind.required == k) (l == l' && Kind.optional == k) := by
  show (if l = l' then some k else none) = _
  by_cases h : l = l'
  · subst h; cases k <;> simp [dk]
  · have : (l == l') = false := by simpa using h
    simp [h, this, dk]

theorem child_single (l' : Label) (k : Kind) (W : Val) (l : Label) :
    child (single l' k W) l = if l = l' then W else .top := rfl

theorem child_patV (p : Pat) (W : Val) (l : Label) :
    child (patV p W) l = if p.matches l then W else .top := rfl

theorem repS_nil : RepS emptySt .nil :=
  ⟨rfl, fun _ => rfl, fun _ => rfl, fun _ => rfl, rfl, fun _ => rfl, fun _ => rfl, rfl, rfl,
    fun _ => rfl⟩

theorem repS_field {l' : Label} {k : Kind} {v rest : Expr}
    (hr : (shape rest).live = true) (hR : RepS (evS rest) rest) :
    RepS (evS (.field l' k v rest)) (.field l' k v rest) := by
  show RepS (unify (single l' k (asOwn (ev v))) (evS rest)) _
  refine repS_unify rfl (by rw [vshape_evS]; exact hr) hR rfl ?_ (fun _ => rfl) (fun _ => rfl)
    rfl (fun _ => rfl) (fun _ => rfl) rfl rfl ?_
  · intro l
    rw [vkind_single]
    unfold declK
    rw [mergeK_dk]
    rfl
  · intro l
    rw [child_single]
    show evS (if l = l' then .own v (subS l rest) else subS l rest) = _
    by_cases h : l = l'
    · simp only [h, if_true]; rfl
    · simp only [h, if_false, top_unify]

theorem repS_pat {p : Pat} {v rest : Expr}
    (hr : (shape rest).live = true) (hR : RepS (evS rest) rest) :
    RepS (evS (.pat p v rest)) (.pat p v rest) := by
  show RepS (unify (patV p (asOwn (ev v))) (evS rest)) _
  refine repS_unify rfl (by rw [vshape_evS]; exact hr) hR rfl ?_ (fun _ => rfl) (fun _ => rfl)
    rfl (fun _ => rfl) (fun _ => rfl) rfl rfl ?_
  · intro l
    show _ = mergeK none _
    rw [mergeK_none_left]
    exact declK_same _ _ l (fun _ => rfl)
  · intro l
    rw [child_patV]
    show evS (if p.matches l then .own v (subS l rest) else subS l rest) = _
    cases p.matches l
    · simp only [Bool.false_eq_true, if_false, top_unify]
    · simp only [if_true]; rfl

theorem repS_ell {rest : Expr}
    (hr : (shape rest).live = true) (hR : RepS (evS rest) rest) :
    RepS (evS (.ell rest)) (.ell rest) := by
  show RepS (unify ellV (evS rest)) _
  refine repS_unify rfl (by rw [vshape_evS]; exact hr) hR rfl ?_ (fun _ => rfl) (fun _ => rfl)
    rfl (fun _ => rfl) (fun _ => rfl) rfl rfl ?_
  · intro l
    show _ = mergeK none _
    rw [mergeK_none_left]
    exact declK_same _ _ l (fun _ => rfl)
  · intro l
    show evS (subS l rest) = unify .top _
    rw [top_unify]

theorem repS_emb {e rest : Expr} (he : (shape e).live = true)
    (hr : (shape rest).live = true) (hE : RepV (ev e) e) (hR : RepS (evS rest) rest) :
    RepS (evS (.emb e rest)) (.emb e rest) := by
  show RepS (unify (asEmb (ev e)) (evS rest)) _
  refine repS_unify (by rw [vshape_asEmb, vshape_ev]; exact he) (by rw [vshape_evS]; exact hr) hR
    ?_ ?_ ?_ ?_ ?_ ?_ ?_ ?_ ?_ ?_
  · rw [vlabels_asEmb, hE.labels]; rfl
  · intro l
    rw [vkind_asEmb, hE.kind]
    exact declK_or _ _ _ l (fun _ => rfl)
  · intro l; rw [vhard_asEmb]; rfl
  · intro l; rw [vsoft_asEmb, hE.hard]; rfl
  · rw [vhard_asEmb, vsoft_asEmb, hE.cl]
    show (closed e || closed rest) = _
    cases closed e <;> rfl
  · intro l; rw [vnames_asEmb, hE.names]; rfl
  · intro l
    rw [vwide_asEmb, dOf_eq, hE.cl, hE.hard, hE.names, Bool.not_not]; rfl
  · rw [vrec_asEmb, hE.rc]; rfl
  · rw [verec_asEmb, hE.rc]; rfl
  · intro l
    rw [child_asEmb, hE.child]; rfl

theorem repS_own {e rest : Expr} (he : (shape e).live = true)
    (hr : (shape rest).live = true) (hE : RepV (ev e) e) (hR : RepS (evS rest) rest) :
    RepS (evS (.own e rest)) (.own e rest) := by
  show RepS (unify (asOwn (ev e)) (evS rest)) _
  refine repS_unify (by rw [vshape_asOwn, vshape_ev]; exact he) (by rw [vshape_evS]; exact hr) hR
    ?_ ?_ ?_ ?_ ?_ ?_ ?_ ?_ ?_ ?_
  · rw [vlabels_asOwn, hE.labels]; rfl
  · intro l
    rw [vkind_asOwn, hE.kind]
    exact declK_or _ _ _ l (fun _ => rfl)
  · intro l; rw [vhard_asOwn, hE.hard]; rfl
  · intro l; rw [vsoft_asOwn, hE.soft]; rfl
  · rw [vhard_asOwn, vsoft_asOwn, hE.cl, hE.soft]
    show (closed e || closed rest) = _
    cases closed e <;> rfl
  · intro l; rw [vnames_asOwn, hE.names]; rfl
  · intro l
    rw [vwide_asOwn, hE.names]; rfl
  · rw [vrec_asOwn, hE.rc]; rfl
  · rw [verec_asOwn]; rfl
  · intro l
    rw [child_asOwn, hE.child]; rfl

/-! ### the representation theorem -/

theorem rep (e : Expr) : (shape e).live = true → RepV (ev e) e ∧ RepS (evS e) e := by
  induction e with
  | top => intro _; exact ⟨repV_top, repS_top⟩
  | bot => intro h; cases h
  | sc s => intro h; cases h
  | nil =>
    intro _
    exact ⟨repV_seal repS_nil (fun _ => rfl) (fun _ => rfl), repS_nil⟩
  | field l k v rest _ ih =>
    intro h
    have hr := st_meet_live h
    have hS := repS_field (l' := l) (k := k) (v := v) hr (ih hr).2
    exact ⟨repV_seal hS (fun _ => rfl) (fun _ => rfl), hS⟩
  | pat p v rest _ ih =>
    intro h
    have hr := st_meet_live h
    have hS := repS_pat (p := p) (v := v) hr (ih hr).2
    exact ⟨repV_seal hS (fun _ => rfl) (fun _ => rfl), hS⟩
  | ell rest ih =>
    intro h
    have hr := st_meet_live h
    have hS := repS_ell hr (ih hr).2
    exact ⟨repV_seal hS (fun _ => rfl) (fun _ => rfl), hS⟩
  | emb e rest ihe ih =>
    intro h
    have hh := live_meet h
    have hS := repS_emb hh.1 hh.2 (ihe hh.1).1 (ih hh.2).2
    exact ⟨repV_seal hS (fun _ => rfl) (fun _ => rfl), hS⟩
  | own e rest ihe ih =>
    intro h
    have hh := live_meet h
    have hS := repS_own hh.1 hh.2 (ihe hh.1).1 (ih hh.2).2
    exact ⟨repV_seal hS (fun _ => rfl) (fun _ => rfl), hS⟩
  | close e ih =>
    intro h
    have hV : RepV (ev (.close e)) (.close e) := repV_close (vshape_ev e) (ih h).1
    exact ⟨hV, repS_asEmb hV (fun _ => rfl) (fun _ => rfl) (fun _ => rfl) rfl (fun _ => rfl)⟩
  | defn e ih =>
    intro h
    have hV : RepV (ev (.defn e)) (.defn e) := repV_defn (vshape_ev e) (ih h).1
    exact ⟨hV, repS_asEmb hV (fun _ => rfl) (fun _ => rfl) (fun _ => rfl) rfl (fun _ => rfl)⟩
  | and a b iha ihb =>
    intro h
    have hh := live_meet h
    have hV : RepV (ev (.and a b)) (.and a b) :=
      repV_and (by rw [vshape_ev]; exact hh.1) (by rw [vshape_ev]; exact hh.2) (iha hh.1).1 (ihb hh.2).1
    exact ⟨hV, repS_asEmb hV (fun _ => rfl) (fun _ => rfl) (fun _ => rfl) rfl (fun _ => rfl)⟩


/-! ### depth -/

theorem depth_wrapDef (b : Bool) (x : Expr) : depth (wrapDef b x) = depth x := by
  cases b <;> rfl

theorem depth_sub (l : Label) (e : Expr) :
    depth (sub l e) ≤ depth e - 1 ∧ depth (subS l e) ≤ depth e - 1 := by
  induction e with
  | top => exact ⟨Nat.le_refl _, Nat.le_refl _⟩
  | bot => exact ⟨Nat.le_refl _, Nat.le_refl _⟩
  | sc s => exact ⟨Nat.le_refl _, Nat.le_refl _⟩
  | nil => exact ⟨Nat.le_refl _, Nat.le_refl _⟩
  | field l' k v rest _ ih =>
    have h : depth (subS l (.field l' k v rest)) ≤ depth (.field l' k v rest) - 1 := by
      show depth (if l = l' then .own v (subS l rest) else subS l rest) ≤ max (depth v + 1) (depth rest) - 1
      split
      · show max (depth v) (depth (subS l rest)) ≤ _
        have := ih.2; omega
      · have := ih.2; omega
    refine ⟨?_, h⟩
    show depth (wrapDef (embRec rest) (subS l (.field l' k v rest))) ≤ _
    rw [depth_wrapDef]; exact h
  | pat p v rest _ ih =>
    have h : depth (subS l (.pat p v rest)) ≤ depth (.pat p v rest) - 1 := by
      show depth (if p.matches l then .own v (subS l rest) else subS l rest) ≤ max (depth v + 1) (depth rest) - 1
      split
      · show max (depth v) (depth (subS l rest)) ≤ _
        have := ih.2; omega
      · have := ih.2; omega
    refine ⟨?_, h⟩
    show depth (wrapDef (embRec rest) (subS l (.pat p v rest))) ≤ _
    rw [depth_wrapDef]; exact h
  | ell rest ih =>
    refine ⟨?_, ih.2⟩
    show depth (wrapDef (embRec rest) (subS l rest)) ≤ _
    rw [depth_wrapDef]; exact ih.2
  | emb e rest ihe ih =>
    have h : depth (subS l (.emb e rest)) ≤ depth (.emb e rest) - 1 := by
      show max (depth (sub l e)) (depth (subS l rest)) ≤ max (depth e) (depth rest) - 1
      have := ih.2; have := ihe.1; omega
    refine ⟨?_, h⟩
    show depth (wrapDef (recC e || embRec rest) (subS l (.emb e rest))) ≤ _
    rw [depth_wrapDef]; exact h
  | own e rest ihe ih =>
    have h : depth (subS l (.own e rest)) ≤ depth (.own e rest) - 1 := by
      show max (depth (sub l e)) (depth (subS l rest)) ≤ max (depth e) (depth rest) - 1
      have := ih.2; have := ihe.1; omega
    refine ⟨?_, h⟩
    show depth (wrapDef (embRec rest) (subS l (.own e rest))) ≤ _
    rw [depth_wrapDef]; exact h
  | close e ih =>
    refine ⟨ih.1, ?_⟩
    show max (depth (sub l e)) 0 ≤ depth e - 1
    have := ih.1; omega
  | defn e ih =>
    refine ⟨ih.1, ?_⟩
    show max (depth (sub l e)) 0 ≤ depth e - 1
    have := ih.1; omega
  | and a b iha ihb =>
    have h : max (depth (sub l a)) (depth (sub l b)) ≤ max (depth a) (depth b) - 1 := by
      have := iha.1; have := ihb.1; omega
    refine ⟨h, ?_⟩
    show max (max (depth (sub l a)) (depth (sub l b))) 0 ≤ _
    have h' : max (depth (sub l a)) (depth (sub l b)) ≤ depth (.and a b) - 1 := h
    omega

theorem hasDecl_depth (k : Kind) (e : Expr) (l : Label) (h : hasDecl k e l = true) : 1 ≤ depth e := by
  induction e with
  | top => cases h
  | bot => cases h
  | sc s => cases h
  | nil => cases h
  | field l' k' v rest _ _ =>
    show 1 ≤ max (depth v + 1) (depth rest)
    omega
  | pat p v rest _ _ =>
    show 1 ≤ max (depth v + 1) (depth rest)
    omega
  | ell rest ih => exact ih h
  | emb e rest ihe ih =>
    show 1 ≤ max (depth e) (depth rest)
    have h' : (hasDecl k e l || hasDecl k rest l) = true := h
    rcases Bool.or_eq_true _ _ ▸ h' with h1 | h1
    · have := ihe h1; omega
    · have := ih h1; omega
  | own e rest ihe ih =>
    show 1 ≤ max (depth e) (depth rest)
    have h' : (hasDecl k e l || hasDecl k rest l) = true := h
    rcases Bool.or_eq_true _ _ ▸ h' with h1 | h1
    · have := ihe h1; omega
    · have := ih h1; omega
  | close e ih => exact ih h
  | defn e ih => exact ih h
  | and a b iha ihb =>
    show 1 ≤ max (depth a) (depth b)
    have h' : (hasDecl k a l || hasDecl k b l) = true := h
    rcases Bool.or_eq_true _ _ ▸ h' with h1 | h1
    · have := iha h1; omega
    · have := ihb h1; omega


/-! ### validation of a single schema = the checker without data -/

theorem admitsN_succ_none (n : Nat) (full : Bool) (e : Expr) :
    admitsN (n + 1) full e none =
      match shape e with
      | .bot => false
      | .top => !full
      | .sc s => s.concrete || !full
      | .st =>
        (fieldLabels e).all fun l =>
          if hasDecl .member e l then
            (!l.isReg || allowedBy e l) && admitsN n (full && l.isReg) (sub l e) none
          else !(full && hasDecl .required e l) := by
  simp only [admitsN, optShape, meet_top, List.append_nil, List.contains_nil, Bool.false_or]
  cases shape e <;> rfl

theorem validate_ev (n : Nat) : ∀ (full : Bool) (e : Expr), depth e < n →
    validate full (ev e) = admitsN n full e none := by
  induction n with
  | zero => intro _ _ h; omega
  | succ n ih =>
    intro full e hd
    rw [admitsN_succ_none]
    have hs := vshape_ev e
    cases hv : ev e with
    | bot => rw [hv] at hs; rw [← hs]; rfl
    | top => rw [hv] at hs; rw [← hs]; rfl
    | sc s => rw [hv] at hs; rw [← hs]; rfl
    | st labels kind val hard soft names wide r er =>
      rw [hv] at hs
      have hs' : shape e = .st := hs.symm
      have R := (rep e (by rw [hs']; rfl)).1
      rw [hv] at R
      have hl : labels = fieldLabels e := R.labels
      have hk : ∀ l, kind l = declK e l := R.kind
      have hh : ∀ l, allP hard l = allowedBy e l := R.hard
      have hc : ∀ l, val l = ev (sub l e) := R.child
      rw [hs']
      show (labels.all fun l => match kind l with
        | none => true
        | some .optional => true
        | some .required => !full
        | some .member => (!l.isReg || allP hard l) && validate (full && l.isReg) (val l)) = _
      rw [hl]
      congr 1
      funext l
      rw [hk l, hh l, hc l]
      unfold declK dk
      cases hm : hasDecl .member e l
      · cases hr : hasDecl .required e l
        · cases hasDecl .optional e l <;> simp
        · simp
      · have h1 := hasDecl_depth _ _ _ hm
        have h2 := (depth_sub l e).1
        rw [ih (full && l.isReg) (sub l e) (by omega)]
        simp


/-! ### data as a schema -/

theorem WF_cons {l : Label} {v rest : Data} (h : (Data.cons l v rest).WF = true) :
    v.WF = true ∧ rest.WF = true ∧ rest.labels.contains l = false ∧ rest.shape = .st := by
  cases rest <;> simp_all [Data.WF, Data.shape]

theorem shape_toExpr (d : Data) (h : d.WF = true) : shape d.toExpr = d.shape := by
  induction d with
  | atom s => rfl
  | nil => rfl
  | cons l v rest _ ih =>
    have hw := WF_cons h
    show Shape.st.meet (shape rest.toExpr) = .st
    rw [ih hw.2.1, hw.2.2.2]; rfl

theorem fieldLabels_toExpr (d : Data) : fieldLabels d.toExpr = d.labels := by
  induction d with
  | atom s => rfl
  | nil => rfl
  | cons l v rest _ ih =>
    show l :: fieldLabels rest.toExpr = l :: rest.labels
    rw [ih]

theorem hasDecl_toExpr (k : Kind) (d : Data) (l : Label) :
    hasDecl k d.toExpr l = (k == .member && d.labels.contains l) := by
  induction d with
  | atom s => simp [Data.toExpr, hasDecl, Data.labels]
  | nil => simp [Data.toExpr, hasDecl, Data.labels]
  | cons l' v rest _ ih =>
    show ((l == l' && k == .member) || hasDecl k rest.toExpr l) = (k == .member && (l' :: rest.labels).contains l)
    rw [ih, List.contains_cons]
    cases (l == l') <;> cases (k == Kind.member) <;> simp

theorem embRec_toExpr (d : Data) : embRec d.toExpr = false := by
  induction d with
  | atom s => rfl
  | nil => rfl
  | cons l v rest _ ih => exact ih

theorem depth_toExpr (d : Data) : depth d.toExpr = d.depth := by
  induction d with
  | atom s => rfl
  | nil => rfl
  | cons l v rest ihv ih =>
    show max (depth v.toExpr + 1) (depth rest.toExpr) = max (v.depth + 1) rest.depth
    rw [ihv, ih]

theorem ownA_embA_toExpr (d : Data) (l : Label) :
    ownA d.toExpr l = true ∧ embA d.toExpr l = true := by
  induction d with
  | atom s => exact ⟨rfl, rfl⟩
  | nil => exact ⟨rfl, rfl⟩
  | cons l' v rest _ ih => exact ih

theorem allowedBy_toExpr (d : Data) (l : Label) : allowedBy d.toExpr l = true := by
  cases d with
  | atom s => rfl
  | nil => rfl
  | cons l' v rest =>
    show (ownA rest.toExpr l && (embA rest.toExpr l || (l == l' || wideS rest.toExpr l))) = true
    rw [(ownA_embA_toExpr rest l).1, (ownA_embA_toExpr rest l).2]; rfl

theorem lookup_none (d : Data) (l : Label) (h : d.labels.contains l = false) : d.lookup l = none := by
  induction d with
  | atom s => rfl
  | nil => rfl
  | cons l' v rest _ ih =>
    have h' : (l' :: rest.labels).contains l = false := h
    rw [List.contains_cons, Bool.or_eq_false_iff] at h'
    show (if l = l' then some v else rest.lookup l) = none
    have hne : ¬ l = l' := by simpa using h'.1
    rw [if_neg hne]
    exact ih h'.2

theorem lookup_WF (d : Data) (l : Label) (v : Data) (h : d.WF = true) (hl : d.lookup l = some v) :
    v.WF = true := by
  induction d with
  | atom s => cases hl
  | nil => cases hl
  | cons l' v' rest _ ih =>
    have hw := WF_cons h
    have hl' : (if l = l' then some v' else rest.lookup l) = some v := hl
    split at hl'
    · cases hl'; exact hw.1
    · exact ih hw.2.1 hl'

/-- the projection of a data spine: the one field with that label, or nothing -/
theorem subS_toExpr (l : Label) (d : Data) (h : d.WF = true) (hs : d.shape = .st) :
    subS l d.toExpr = match d.lookup l with
      | some v => .own v.toExpr .top
      | none => .top := by
  induction d with
  | atom s => cases hs
  | nil => rfl
  | cons l' v rest _ ih =>
    have hw := WF_cons h
    show (if l = l' then Expr.own v.toExpr (subS l rest.toExpr) else subS l rest.toExpr) =
      match (if l = l' then some v else rest.lookup l) with
      | some v => .own v.toExpr .top
      | none => .top
    have ih' := ih hw.2.1 hw.2.2.2
    by_cases hl : l = l'
    · rw [if_pos hl, if_pos hl, ih', lookup_none rest l (hl ▸ hw.2.2.1)]
    · rw [if_neg hl, if_neg hl, ih']

def olabels : Option Data → List Label
  | some d => d.labels
  | none => []

def olookup (l : Label) : Option Data → Option Data
  | some d => d.lookup l
  | none => none

/-- schemas that stand for (projections of) data -/
inductive DataRep : Expr → Option Data → Prop
  | base (d : Data) : d.WF = true → DataRep d.toExpr (some d)
  | own {D : Expr} {od : Option Data} : DataRep D od → DataRep (.own D .top) od
  | none : DataRep .top none

theorem dr_shape {D : Expr} {od : Option Data} (h : DataRep D od) : shape D = optShape od := by
  induction h with
  | base d hd => exact shape_toExpr d hd
  | own _ ih => show (shape _).meet Shape.top = _; rw [meet_top, ih]
  | none => rfl

theorem dr_labels {D : Expr} {od : Option Data} (h : DataRep D od) : fieldLabels D = olabels od := by
  induction h with
  | base d hd => exact fieldLabels_toExpr d
  | own _ ih => show fieldLabels _ ++ [] = _; rw [List.append_nil, ih]
  | none => rfl

theorem dr_hasDecl {D : Expr} {od : Option Data} (h : DataRep D od) (k : Kind) (l : Label) :
    hasDecl k D l = (k == .member && (olabels od).contains l) := by
  induction h with
  | base d hd => exact hasDecl_toExpr k d l
  | own _ ih => show (hasDecl k _ l || false) = _; rw [Bool.or_false, ih]
  | none => simp [hasDecl, olabels]

theorem dr_allowed {D : Expr} {od : Option Data} (h : DataRep D od) (l : Label) :
    allowedBy D l = true := by
  induction h with
  | base d hd => exact allowedBy_toExpr d l
  | @own D od _ ih =>
    show ((allowedBy D l && true) && (true || (names D l || false))) = true
    rw [ih]; rfl
  | none => rfl

theorem dr_sub {D : Expr} {od : Option Data} (h : DataRep D od) (l : Label)
    (hl : (optShape od).live = true) : DataRep (sub l D) (olookup l od) := by
  induction h with
  | base d hd =>
    cases d with
    | atom s => cases hl
    | nil => exact DataRep.none
    | cons l' v rest =>
      have hw := WF_cons hd
      have h1 : sub l (Data.cons l' v rest).toExpr = subS l (Data.cons l' v rest).toExpr := by
        show wrapDef (embRec rest.toExpr) (subS l (Data.cons l' v rest).toExpr) = _
        rw [embRec_toExpr]; rfl
      rw [h1, subS_toExpr l _ hd rfl]
      show DataRep _ ((Data.cons l' v rest).lookup l)
      cases hlk : (Data.cons l' v rest).lookup l with
      | none => exact DataRep.none
      | some w => exact DataRep.own (DataRep.base w (lookup_WF _ l w hd hlk))
  | own _ ih => exact DataRep.own (ih hl)
  | none => exact DataRep.none


/-! ### the checker with data = the checker on `schema & data` -/

theorem admitsN_succ (n : Nat) (full : Bool) (e : Expr) (od : Option Data) :
    admitsN (n + 1) full e od =
      match (shape e).meet (optShape od) with
      | .bot => false
      | .top => !full
      | .sc s => s.concrete || !full
      | .st =>
        (fieldLabels e ++ olabels od).all fun l =>
          if (olabels od).contains l || hasDecl .member e l then
            (!l.isReg || allowedBy e l) && admitsN n (full && l.isReg) (sub l e) (olookup l od)
          else !(full && hasDecl .required e l) := by
  cases od <;> simp only [admitsN, olabels, olookup] <;> cases (shape e).meet _ <;> rfl

theorem admitsN_and_data (n : Nat) : ∀ (full : Bool) (e D : Expr) (od : Option Data),
    DataRep D od → admitsN n full (.and e D) none = admitsN n full e od := by
  induction n with
  | zero => intros; rfl
  | succ n ih =>
    intro full e D od hD
    rw [admitsN_succ, admitsN_succ]
    have hsh : (shape (.and e D)).meet (optShape none) = (shape e).meet (optShape od) := by
      show ((shape e).meet (shape D)).meet .top = _
      rw [meet_top, dr_shape hD]
    rw [hsh]
    cases hm : (shape e).meet (optShape od) with
    | bot => rfl
    | top => rfl
    | sc s => rfl
    | st =>
      have hlive : (optShape od).live = true := (live_meet (a := shape e) (by rw [hm]; rfl)).2
      show ((fieldLabels e ++ fieldLabels D ++ []).all _) = _
      rw [List.append_nil, dr_labels hD]
      congr 1
      funext l
      have h1 : ∀ k, hasDecl k (.and e D) l = (hasDecl k e l || (k == .member && (olabels od).contains l)) := by
        intro k
        show (hasDecl k e l || hasDecl k D l) = _
        rw [dr_hasDecl hD]
      have h2 : allowedBy (.and e D) l = allowedBy e l := by
        show (allowedBy e l && allowedBy D l) = _
        rw [dr_allowed hD, Bool.and_true]
      have h3 : admitsN n (full && l.isReg) (sub l (.and e D)) (olookup l none) =
          admitsN n (full && l.isReg) (sub l e) (olookup l od) :=
        ih _ (sub l e) (sub l D) _ (dr_sub hD l hlive)
      have hk1 : (Kind.member == Kind.member) = true := rfl
      have hk2 : (Kind.required == Kind.member) = false := rfl
      rw [h1, h1, h2, h3, hk1, hk2]
      generalize (olabels od).contains l = c
      cases c <;> cases hasDecl .member e l <;> simp [olabels]

/-! ### the main theorem -/

theorem accepts_eq_admits (s : Expr) (d : Data) (hd : d.WF = true) : accepts s d = admits s d := by
  show validate true (ev (.and s d.toExpr)) = admitsN (depth s + d.depth + 2) true s (some d)
  rw [validate_ev (depth s + d.depth + 2) true (.and s d.toExpr)
    (by show max (depth s) (depth d.toExpr) < _; rw [depth_toExpr]; omega)]
  exact admitsN_and_data _ _ _ _ _ (DataRep.base d hd)


/-! ### closedness -/

theorem matches_nonreg (p : Pat) (l : Label) (h : l.isReg = false) : p.matches l = false := by
  unfold Pat.matches
  rw [h]; rfl

theorem allowedBy_of_open_live (e : Expr) (l : Label) (hs : (shape e).live = true)
    (h : closed e = false) : allowedBy e l = true := by
  have R := (rep e hs).1
  have hc := R.cl
  rw [h] at hc
  have hnil : vhard (ev e) = [] := by
    cases hh : vhard (ev e) with
    | nil => rfl
    | cons a b => rw [hh] at hc; cases hc
  rw [← R.hard l, hnil]; rfl

theorem allowedBy_of_open (e : Expr) (l : Label) (hs : shape e = .st) (h : closed e = false) :
    allowedBy e l = true :=
  allowedBy_of_open_live e l (by rw [hs]; rfl) h

theorem admitsN_disallowed (n : Nat) (full : Bool) (e : Expr) (d : Data) (l : Label)
    (hl : d.labels.contains l = true) (hr : l.isReg = true) (hna : allowedBy e l = false) :
    admitsN n full e (some d) = false := by
  cases n with
  | zero => rfl
  | succ n =>
    rw [admitsN_succ]
    have hds : optShape (some d) = .st := by
      cases d with
      | cons _ _ _ => rfl
      | atom _ => cases hl
      | nil => cases hl
    rw [hds]
    have hmem : l ∈ fieldLabels e ++ olabels (some d) :=
      List.mem_append.2 (Or.inr (by simpa [olabels] using hl))
    have hf : ((fieldLabels e ++ olabels (some d)).all fun l =>
        if (olabels (some d)).contains l || hasDecl .member e l then
          (!l.isReg || allowedBy e l) && admitsN n (full && l.isReg) (sub l e) (olookup l (some d))
        else !(full && hasDecl .required e l)) = false := by
      rw [List.all_eq_false]
      refine ⟨l, hmem, ?_⟩
      have hl' : (olabels (some d)).contains l = true := hl
      simp only [hl', hr, hna]
      simp
    cases shape e with
    | bot => rfl
    | sc s => rfl
    | top => exact hf
    | st => exact hf

theorem accepts_disallowed (s : Expr) (d : Data) (l : Label) (hd : d.WF = true)
    (hl : d.labels.contains l = true) (hr : l.isReg = true) (hna : allowedBy s l = false) :
    accepts s d = false := by
  rw [accepts_eq_admits s d hd]
  exact admitsN_disallowed _ _ _ _ l hl hr hna

/-! ### definitions and close() only restrict -/

theorem admitsN_defn_imp (n : Nat) : ∀ (full : Bool) (e : Expr) (od : Option Data),
    admitsN n full (.defn e) od = true → admitsN n full e od = true := by
  induction n with
  | zero => intro _ _ _ h; cases h
  | succ n ih =>
    intro full e od h
    rw [admitsN_succ] at h ⊢
    have hsh : shape (.defn e) = shape e := rfl
    rw [hsh] at h
    cases hm : (shape e).meet (optShape od) with
    | bot => rw [hm] at h; exact h
    | top => rw [hm] at h; exact h
    | sc s => rw [hm] at h; exact h
    | st =>
      rw [hm] at h
      simp only at h ⊢
      rw [List.all_eq_true] at h ⊢
      intro x hx
      have hx' := h x hx
      have hd : ∀ k, hasDecl k (.defn e) x = hasDecl k e x := fun _ => rfl
      rw [hd, hd] at hx'
      cases hc : ((olabels od).contains x || hasDecl .member e x)
      · rw [hc] at hx'; simpa using hx'
      · rw [hc] at hx'
        simp only [if_true, Bool.and_eq_true] at hx' ⊢
        refine ⟨?_, ih _ _ _ hx'.2⟩
        have ha : allowedBy (.defn e) x =
          (allowedBy e x && (shape e != .st || dSel (closed e) (allowedBy e x) (names e x))) := rfl
        have h1 := hx'.1
        rw [ha] at h1
        cases hr : x.isReg
        · rfl
        · rw [hr] at h1
          cases hab : allowedBy e x
          · rw [hab] at h1; simp at h1
          · rfl

theorem admitsN_close_imp (n : Nat) (full : Bool) (e : Expr) (od : Option Data)
    (h : admitsN n full (.close e) od = true) : admitsN n full e od = true := by
  cases n with
  | zero => cases h
  | succ n =>
    rw [admitsN_succ] at h ⊢
    have hsh : shape (.close e) = shape e := rfl
    rw [hsh] at h
    cases hm : (shape e).meet (optShape od) with
    | bot => rw [hm] at h; exact h
    | top => rw [hm] at h; exact h
    | sc s => rw [hm] at h; exact h
    | st =>
      rw [hm] at h
      simp only at h ⊢
      rw [List.all_eq_true] at h ⊢
      intro x hx
      have hx' := h x hx
      have hd : ∀ k, hasDecl k (.close e) x = hasDecl k e x := fun _ => rfl
      have hsub : sub x (.close e) = sub x e := rfl
      rw [hd, hd, hsub] at hx'
      cases hc : ((olabels od).contains x || hasDecl .member e x)
      · rw [hc] at hx'; simpa using hx'
      · rw [hc] at hx'
        simp only [if_true, Bool.and_eq_true] at hx' ⊢
        refine ⟨?_, hx'.2⟩
        have ha : allowedBy (.close e) x =
          (allowedBy e x && (shape e != .st || dSel (closed e) (allowedBy e x) (names e x))) := rfl
        have h1 := hx'.1
        rw [ha] at h1
        cases hr : x.isReg
        · rfl
        · rw [hr] at h1
          cases hab : allowedBy e x
          · rw [hab] at h1; simp at h1
          · rfl

/-! ### the sole embedding -/

private def wb : Label := ⟨.reg, [98]⟩
private def wc : Label := ⟨.reg, [99]⟩
private def wz : Label := ⟨.reg, [122, 122]⟩
private def wS : Expr :=
  .and (.defn (.field wb .optional .top .nil))
    (.field wb .optional (.field wc .optional (.sc .int) .nil) .nil)
private def wD : Data := .cons wb (.cons wz (.atom (.i 1)) .nil) .nil

theorem sole_embedding_false :
    ¬ (∀ (s : Expr) (d : Data), shape s = .st → d.WF = true →
        admits (.emb s .nil) d = admits s d) := by
  intro h
  have h1 := h wS wD (by decide) (by decide)
  have h2 : admits wS wD = true := by decide
  have h3 : admits (.emb wS .nil) wD = false := by decide
  rw [h2, h3] at h1
  cases h1


/-! ### schemas without definition references -/

theorem noDef_flags (x : Expr) (h : noDef x = true) : recC x = false ∧ embRec x = false := by
  induction x with
  | top => exact ⟨rfl, rfl⟩
  | bot => exact ⟨rfl, rfl⟩
  | sc s => exact ⟨rfl, rfl⟩
  | nil => exact ⟨rfl, rfl⟩
  | field l k v rest _ ih =>
    have h' : (noDef v && noDef rest) = true := h
    rw [Bool.and_eq_true] at h'
    exact ih h'.2
  | pat p v rest _ ih =>
    have h' : (noDef v && noDef rest) = true := h
    rw [Bool.and_eq_true] at h'
    exact ih h'.2
  | ell rest ih => exact ih h
  | emb e rest ihe ih =>
    have h' : (noDef e && noDef rest) = true := h
    rw [Bool.and_eq_true] at h'
    refine ⟨?_, ?_⟩
    · show (recC e || recC rest) = false
      rw [(ihe h'.1).1, (ih h'.2).1]; rfl
    · show (recC e || embRec rest) = false
      rw [(ihe h'.1).1, (ih h'.2).2]; rfl
  | own e rest ihe ih =>
    have h' : (noDef e && noDef rest) = true := h
    rw [Bool.and_eq_true] at h'
    refine ⟨?_, (ih h'.2).2⟩
    show (recC e || recC rest) = false
    rw [(ihe h'.1).1, (ih h'.2).1]; rfl
  | close e ih => exact ⟨(ih h).1, (ih h).1⟩
  | defn e _ => cases h
  | and a b iha ihb =>
    have h' : (noDef a && noDef b) = true := h
    rw [Bool.and_eq_true] at h'
    have : (recC a || recC b) = false := by rw [(iha h'.1).1, (ihb h'.2).1]; rfl
    exact ⟨this, this⟩

theorem noDef_sub (l : Label) (x : Expr) (h : noDef x = true) :
    noDef (sub l x) = true ∧ noDef (subS l x) = true := by
  induction x with
  | top => exact ⟨rfl, rfl⟩
  | bot => exact ⟨rfl, rfl⟩
  | sc s => exact ⟨rfl, rfl⟩
  | nil => exact ⟨rfl, rfl⟩
  | field l' k v rest _ ih =>
    have h' : (noDef v && noDef rest) = true := h
    rw [Bool.and_eq_true] at h'
    have hS : noDef (subS l (.field l' k v rest)) = true := by
      show noDef (if l = l' then .own v (subS l rest) else subS l rest) = true
      split
      · show (noDef v && noDef (subS l rest)) = true
        rw [h'.1, (ih h'.2).2]; rfl
      · exact (ih h'.2).2
    refine ⟨?_, hS⟩
    show noDef (wrapDef (embRec rest) (subS l (.field l' k v rest))) = true
    rw [(noDef_flags rest h'.2).2]; exact hS
  | pat p v rest _ ih =>
    have h' : (noDef v && noDef rest) = true := h
    rw [Bool.and_eq_true] at h'
    have hS : noDef (subS l (.pat p v rest)) = true := by
      show noDef (if p.matches l then .own v (subS l rest) else subS l rest) = true
      split
      · show (noDef v && noDef (subS l rest)) = true
        rw [h'.1, (ih h'.2).2]; rfl
      · exact (ih h'.2).2
    refine ⟨?_, hS⟩
    show noDef (wrapDef (embRec rest) (subS l (.pat p v rest))) = true
    rw [(noDef_flags rest h'.2).2]; exact hS
  | ell rest ih =>
    have h' : noDef rest = true := h
    refine ⟨?_, (ih h').2⟩
    show noDef (wrapDef (embRec rest) (subS l rest)) = true
    rw [(noDef_flags rest h').2]; exact (ih h').2
  | emb e rest ihe ih =>
    have h' : (noDef e && noDef rest) = true := h
    rw [Bool.and_eq_true] at h'
    have hS : noDef (subS l (.emb e rest)) = true := by
      show (noDef (sub l e) && noDef (subS l rest)) = true
      rw [(ihe h'.1).1, (ih h'.2).2]; rfl
    refine ⟨?_, hS⟩
    show noDef (wrapDef (recC e || embRec rest) (subS l (.emb e rest))) = true
    rw [(noDef_flags e h'.1).1, (noDef_flags rest h'.2).2]; exact hS
  | own e rest ihe ih =>
    have h' : (noDef e && noDef rest) = true := h
    rw [Bool.and_eq_true] at h'
    have hS : noDef (subS l (.own e rest)) = true := by
      show (noDef (sub l e) && noDef (subS l rest)) = true
      rw [(ihe h'.1).1, (ih h'.2).2]; rfl
    refine ⟨?_, hS⟩
    show noDef (wrapDef (embRec rest) (subS l (.own e rest))) = true
    rw [(noDef_flags rest h'.2).2]; exact hS
  | close e ih =>
    have h' : noDef e = true := h
    refine ⟨(ih h').1, ?_⟩
    show (noDef (sub l e) && true) = true
    rw [(ih h').1]; rfl
  | defn e _ => cases h
  | and a b iha ihb =>
    have h' : (noDef a && noDef b) = true := h
    rw [Bool.and_eq_true] at h'
    have : (noDef (sub l a) && noDef (sub l b)) = true := by rw [(iha h'.1).1, (ihb h'.2).1]; rfl
    refine ⟨this, ?_⟩
    show ((noDef (sub l a) && noDef (sub l b)) && true) = true
    rw [this]; rfl

/-- embedding a schema without definition references in an otherwise empty literal under
construction changes nothing -/
theorem admitsN_emb_top (n : Nat) : ∀ (full : Bool) (x : Expr) (od : Option Data),
    noDef x = true → admitsN n full (.emb x .top) od = admitsN n full x od := by
  induction n with
  | zero => intros; rfl
  | succ n ih =>
    intro full x od hn
    rw [admitsN_succ, admitsN_succ]
    have hsh : shape (.emb x .top) = shape x := meet_top _
    rw [hsh]
    cases hm : (shape x).meet (optShape od) with
    | bot => rfl
    | top => rfl
    | sc s => rfl
    | st =>
      have hlive : (shape x).live = true := (live_meet (b := optShape od) (by rw [hm]; rfl)).1
      show ((fieldLabels x ++ [] ++ olabels od).all _) = _
      rw [List.append_nil]
      congr 1
      funext l
      have h1 : ∀ k, hasDecl k (.emb x .top) l = hasDecl k x l := fun k => Bool.or_false _
      have h2 : allowedBy (.emb x .top) l = allowedBy x l := by
        show (true && ((allowedBy x l && true) ||
          (dSel (closed x) (allowedBy x l) (names x l) || false))) = _
        cases hc : closed x
        · rw [allowedBy_of_open_live x l hlive hc]; rfl
        · cases allowedBy x l <;> rfl
      have h3 : sub l (.emb x .top) = .emb (sub l x) .top := by
        show wrapDef (recC x || false) (.emb (sub l x) .top) = _
        rw [(noDef_flags x hn).1]; rfl
      rw [h1, h1, h2, h3, ih _ _ _ (noDef_sub l x hn).1]

theorem admitsN_emb_nil (n : Nat) (full : Bool) (s : Expr) (od : Option Data) (hs : shape s = .st) :
    admitsN (n + 1) full (.emb s .nil) od = admitsN (n + 1) full (.emb s .top) od := by
  rw [admitsN_succ, admitsN_succ]
  have h1 : shape (.emb s .nil) = .st := by show (shape s).meet .st = _; rw [hs]; rfl
  have h2 : shape (.emb s .top) = .st := by show (shape s).meet .top = _; rw [hs]; rfl
  rw [h1, h2]
  rfl

theorem sole_embedding_noDef (s : Expr) (d : Data) (hs : shape s = .st) (hn : noDef s = true) :
    admits (.emb s .nil) d = admits s d := by
  unfold admits
  have hd : depth (.emb s .nil) = depth s := Nat.max_zero _
  rw [hd]
  show admitsN ((depth s + d.depth + 1) + 1) true (.emb s .nil) (some d) =
    admitsN ((depth s + d.depth + 1) + 1) true s (some d)
  rw [admitsN_emb_nil _ _ _ _ hs, admitsN_emb_top _ _ _ _ hn]

/-! ### an optional constraint on an absent field -/

theorem admitsN_and_top (n : Nat) : ∀ (full : Bool) (y : Expr) (od : Option Data),
    admitsN n full (.and y .top) od = admitsN n full y od := by
  induction n with
  | zero => intros; rfl
  | succ n ih =>
    intro full y od
    rw [admitsN_succ, admitsN_succ]
    have hsh : shape (.and y .top) = shape y := meet_top _
    rw [hsh]
    cases hm : (shape y).meet (optShape od) with
    | bot => rfl
    | top => rfl
    | sc s => rfl
    | st =>
      show ((fieldLabels y ++ [] ++ olabels od).all _) = _
      rw [List.append_nil]
      congr 1
      funext l
      have h1 : ∀ k, hasDecl k (.and y .top) l = hasDecl k y l := fun k => Bool.or_false _
      have h2 : allowedBy (.and y .top) l = allowedBy y l := Bool.and_true _
      have h3 : sub l (.and y .top) = .and (sub l y) .top := rfl
      rw [h1, h1, h2, h3, ih]

theorem hasDecl_mem (k : Kind) (e : Expr) (l : Label) (h : hasDecl k e l = true) :
    l ∈ fieldLabels e := by
  induction e with
  | top => cases h
  | bot => cases h
  | sc s => cases h
  | nil => cases h
  | field l' k' v rest _ ih =>
    have h' : ((l == l' && k == k') || hasDecl k rest l) = true := h
    show l ∈ l' :: fieldLabels rest
    rw [Bool.or_eq_true, Bool.and_eq_true] at h'
    rcases h' with h1 | h1
    · have : l = l' := by simpa using h1.1
      rw [this]; exact List.mem_cons_self
    · exact List.mem_cons_of_mem _ (ih h1)
  | pat p v rest _ ih => exact ih h
  | ell rest ih => exact ih h
  | emb e rest ihe ih =>
    have h' : (hasDecl k e l || hasDecl k rest l) = true := h
    rw [Bool.or_eq_true] at h'
    exact List.mem_append.2 (h'.imp ihe ih)
  | own e rest ihe ih =>
    have h' : (hasDecl k e l || hasDecl k rest l) = true := h
    rw [Bool.or_eq_true] at h'
    exact List.mem_append.2 (h'.imp ihe ih)
  | close e ih => exact ih h
  | defn e ih => exact ih h
  | and a b iha ihb =>
    have h' : (hasDecl k a l || hasDecl k b l) = true := h
    rw [Bool.or_eq_true] at h'
    exact List.mem_append.2 (h'.imp iha ihb)

theorem admitsN_and_optional (n : Nat) (full : Bool) (s : Expr) (od : Option Data) (l : Label)
    (v : Expr) (hs : shape s = .st) (hl : (olabels od).contains l = false)
    (hm : hasDecl .member s l = false) :
    admitsN (n + 1) full (.and s (.field l .optional v .nil)) od = admitsN (n + 1) full s od := by
  rw [admitsN_succ, admitsN_succ]
  have hsh : shape (.and s (.field l .optional v .nil)) = shape s := by
    show (shape s).meet (Shape.st.meet .st) = _
    rw [hs]; rfl
  rw [hsh]
  cases hmt : (shape s).meet (optShape od) with
  | bot => rfl
  | top => rfl
  | sc s => rfl
  | st =>
    -- the per-label check is the same function
    have hf : ∀ x,
        (if (olabels od).contains x || hasDecl .member (.and s (.field l .optional v .nil)) x then
          (!x.isReg || allowedBy (.and s (.field l .optional v .nil)) x) &&
            admitsN n (full && x.isReg) (sub x (.and s (.field l .optional v .nil))) (olookup x od)
        else !(full && hasDecl .required (.and s (.field l .optional v .nil)) x)) =
        (if (olabels od).contains x || hasDecl .member s x then
          (!x.isReg || allowedBy s x) && admitsN n (full && x.isReg) (sub x s) (olookup x od)
        else !(full && hasDecl .required s x)) := by
      intro x
      have h1 : hasDecl .member (.and s (.field l .optional v .nil)) x = hasDecl .member s x := by
        show (hasDecl .member s x || ((x == l && false) || false)) = _
        simp
      have h2 : hasDecl .required (.and s (.field l .optional v .nil)) x = hasDecl .required s x := by
        show (hasDecl .required s x || ((x == l && false) || false)) = _
        simp
      have h3 : allowedBy (.and s (.field l .optional v .nil)) x = allowedBy s x :=
        Bool.and_true _
      rw [h1, h2, h3]
      cases hc : ((olabels od).contains x || hasDecl .member s x)
      · rfl
      · have hne : ¬ x = l := by
          intro hxl
          rw [hxl, hl, hm] at hc
          cases hc
        have h4 : sub x (.and s (.field l .optional v .nil)) = .and (sub x s) .top := by
          show Expr.and (sub x s) (wrapDef false (if x = l then .own v .top else .top)) = _
          rw [if_neg hne]; rfl
        rw [h4, admitsN_and_top]
    show ((fieldLabels s ++ [l] ++ olabels od).all _) = _
    simp only [hf]
    rw [List.all_append, List.all_append, List.all_append]
    generalize hg : (fun x =>
      if (olabels od).contains x || hasDecl .member s x then
        (!x.isReg || allowedBy s x) && admitsN n (full && x.isReg) (sub x s) (olookup x od)
      else !(full && hasDecl .required s x)) = g
    have hgl : (fieldLabels s).all g = true → g l = true := by
      intro hall
      cases hr : hasDecl .required s l
      · rw [← hg]; simp only [hl, hm, hr]; simp
      · exact List.all_eq_true.1 hall l (hasDecl_mem _ _ _ hr)
    cases ha : (fieldLabels s).all g
    · rfl
    · simp [hgl ha]

theorem admitsN_fuel (n m : Nat) (full : Bool) (e : Expr) (d : Data) (hd : d.WF = true)
    (hn : max (depth e) d.depth < n) (hm : max (depth e) d.depth < m) :
    admitsN n full e (some d) = admitsN m full e (some d) := by
  have hdep : depth (.and e d.toExpr) = max (depth e) d.depth := by
    show max (depth e) (depth d.toExpr) = _
    rw [depth_toExpr]
  rw [← admitsN_and_data n _ _ _ _ (DataRep.base d hd),
    ← admitsN_and_data m _ _ _ _ (DataRep.base d hd),
    ← validate_ev n _ _ (by rw [hdep]; exact hn), ← validate_ev m _ _ (by rw [hdep]; exact hm)]

theorem admits_and_optional (s : Expr) (d : Data) (l : Label) (v : Expr) (hd : d.WF = true)
    (hs : shape s = .st) (hl : d.labels.contains l = false) (hm : hasDecl .member s l = false) :
    admits (.and s (.field l .optional v .nil)) d = admits s d := by
  unfold admits
  have hdep : depth s ≤ depth (.and s (.field l .optional v .nil)) := Nat.le_max_left _ _
  rw [admitsN_fuel (depth s + d.depth + 2)
    (depth (.and s (.field l .optional v .nil)) + d.depth + 2) true s d hd (by omega) (by omega)]
  exact admitsN_and_optional _ true s (some d) l v hs hl hm


end CueVerif.Closed
