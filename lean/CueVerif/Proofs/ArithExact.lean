/-
C06 helper lemmas, part A: rational semantics of `Dec`, exactness of `+ - *` under the
34-digit hypothesis, the kind rule, comparison as a total order consistent with the value.
Core Lean (`Rat` is core); no Mathlib.
-/
import CueVerif.Model.DecArith
import CueVerif.Spec.Arith
import CueVerif.Proofs.Dec
namespace CueVerif.Proofs.ArithExact
open CueVerif CueVerif.Arith CueVerif.Spec.Arith

def aop : AOp → ArithOp
  | .add => .add | .sub => .sub | .mul => .mul

def cop : COp → CmpOp
  | .eq => .eq | .ne => .ne | .lt => .lt | .le => .le | .gt => .gt | .ge => .ge

/-- int-kinded numbers carry a non-negative exponent (true of every literal; preserved by the
operators: `int_closed`) -/
def WF (n : Num) : Prop := n.k = .int → 0 ≤ n.d.exp

/-! #### rational semantics of the exact operations -/

theorem ten_ne : (10 : Rat) ≠ 0 := by decide

theorem tenz_pos (e : Int) : (0 : Rat) < (10 : Rat) ^ e := Rat.zpow_pos (by decide)

/-- bridge to the integer model: the value at any exponent below `d.exp` -/
theorem toRat_shift (d : Dec) (e : Int) (h : e ≤ d.exp) :
    toRat d = (Dec.shift d e : Rat) * (10 : Rat) ^ e := by
  unfold toRat Dec.shift
  have h1 : d.exp = ((d.exp - e).toNat : Int) + e := by omega
  generalize (d.exp - e).toNat = n at h1
  rw [h1, Rat.zpow_add ten_ne, Rat.zpow_natCast, Rat.intCast_mul, Rat.intCast_pow]
  simp [Rat.mul_assoc]

theorem toRat_mk (c e : Int) : toRat ⟨c, e⟩ = (c : Rat) * (10 : Rat) ^ e := rfl

theorem toRat_add (a b : Dec) : toRat (Dec.add a b) = toRat a + toRat b := by
  have ha : min a.exp b.exp ≤ a.exp := by omega
  have hb : min a.exp b.exp ≤ b.exp := by omega
  rw [toRat_shift a _ ha, toRat_shift b _ hb]
  simp only [Dec.add, toRat_mk, Rat.intCast_add, Rat.add_mul]

theorem toRat_sub (a b : Dec) : toRat (Dec.sub a b) = toRat a - toRat b := by
  have ha : min a.exp b.exp ≤ a.exp := by omega
  have hb : min a.exp b.exp ≤ b.exp := by omega
  rw [toRat_shift a _ ha, toRat_shift b _ hb]
  simp only [Dec.sub, toRat_mk, Rat.intCast_sub]
  grind

theorem toRat_mul (a b : Dec) : toRat (Dec.mul a b) = toRat a * toRat b := by
  simp only [Dec.mul, toRat, Rat.intCast_mul, Rat.zpow_add ten_ne]
  grind

theorem toRat_exact (op : AOp) (a b : Dec) :
    toRat (exact op a b) = specOp (aop op) (toRat a) (toRat b) := by
  cases op
  · exact toRat_add a b
  · exact toRat_sub a b
  · exact toRat_mul a b

theorem toRat_neg (a : Dec) : toRat (Dec.neg a) = - toRat a := by
  simp only [Dec.neg, toRat, Rat.intCast_neg]
  grind

/-- comparison agrees with the order of the values -/
theorem cmp_lt_iff (a b : Dec) : Dec.cmp a b = .lt ↔ toRat a < toRat b := by
  have ha : min a.exp b.exp ≤ a.exp := by omega
  have hb : min a.exp b.exp ≤ b.exp := by omega
  rw [toRat_shift a _ ha, toRat_shift b _ hb, Rat.mul_lt_mul_right (tenz_pos _),
    Rat.intCast_lt_intCast, Dec.cmp, Int.compare_eq_lt]

theorem cmp_gt_iff (a b : Dec) : Dec.cmp a b = .gt ↔ toRat b < toRat a := by
  have ha : min a.exp b.exp ≤ a.exp := by omega
  have hb : min a.exp b.exp ≤ b.exp := by omega
  rw [toRat_shift a _ ha, toRat_shift b _ hb, Rat.mul_lt_mul_right (tenz_pos _),
    Rat.intCast_lt_intCast, Dec.cmp, Int.compare_eq_gt]

theorem cmp_eq_iff (a b : Dec) : Dec.cmp a b = .eq ↔ toRat a = toRat b := by
  constructor
  · intro h
    have ha : min a.exp b.exp ≤ a.exp := by omega
    have hb : min a.exp b.exp ≤ b.exp := by omega
    rw [toRat_shift a _ ha, toRat_shift b _ hb]
    rw [Dec.cmp, Int.compare_eq_eq] at h
    rw [h]
  · intro h
    cases hc : Dec.cmp a b
    · have := (cmp_lt_iff a b).1 hc
      rw [h] at this; exact absurd this (Rat.lt_irrefl)
    · rfl
    · have := (cmp_gt_iff a b).1 hc
      rw [h] at this; exact absurd this (Rat.lt_irrefl)


/-- comparison of numbers is comparison of the exact values, whatever the kinds -/
theorem cmp_num (op : COp) (x y : Num) :
    cmpOp op (.num x) (.num y) = .bool (specCmp (cop op) (toRat x.d) (toRat y.d)) := by
  have h1 := cmp_lt_iff x.d y.d
  have h2 := cmp_eq_iff x.d y.d
  have h3 := cmp_gt_iff x.d y.d
  generalize toRat x.d = ra at *
  generalize toRat y.d = rb at *
  simp only [cmpOp]
  congr 1
  cases hc : Dec.cmp x.d y.d <;> simp [hc] at h1 h2 h3 <;> cases op <;>
    simp [cmpTonode, specCmp, cop] <;> grind

/-- shape of a successful `numOp` -/
theorem numOp_eq (op : AOp) (x y r : Num) (h : numOp op x y = .num r) :
    r = ⟨kindAnd x.k y.k, (round34 (exact op x.d y.d)).1⟩ ∧ alignOk op x.d y.d = true ∧
      inWindow (round34 (exact op x.d y.d)).1 = true := by
  unfold numOp at h
  split at h
  · cases h
  · simp only at h
    split at h
    · cases h
    · cases h
      simp_all

/-- result kind: int exactly when both operands are ints -/
theorem kind_rule (op : AOp) (x y r : Num) (h : numOp op x y = .num r) :
    (r.k = .int ↔ (x.k = .int ∧ y.k = .int)) := by
  rw [(numOp_eq op x y r h).1]
  cases x.k <;> cases y.k <;> simp [kindAnd]

/-- `numOp` yields a number or the `failed arithmetic` error, and the error only when the
operands or the result leave the exponent window -/
theorem arith_total (op : AOp) (x y : Num) :
    (∃ r, numOp op x y = .num r) ∨
      (numOp op x y = .err .failed ∧
        (alignOk op x.d y.d = false ∨ inWindow (round34 (exact op x.d y.d)).1 = false)) := by
  unfold numOp
  cases h1 : alignOk op x.d y.d
  · simp
  · cases h2 : inWindow (round34 (exact op x.d y.d)).1
    · simp [h2]
    · simp [h2]

/-! #### bytewise order on strings and bytes -/

theorem bytesCmp_eq_iff (a b : List Nat) : bytesCmp a b = .eq ↔ a = b := by
  induction a generalizing b with
  | nil => cases b <;> simp [bytesCmp]
  | cons x xs ih =>
    cases b with
    | nil => simp [bytesCmp]
    | cons y ys =>
      simp only [bytesCmp]
      split
      · simp; omega
      · split
        · simp; omega
        · rw [ih]; simp; omega

theorem bytesCmp_swap (a b : List Nat) : bytesCmp a b = .lt ↔ bytesCmp b a = .gt := by
  induction a generalizing b with
  | nil => cases b <;> simp [bytesCmp]
  | cons x xs ih =>
    cases b with
    | nil => simp [bytesCmp]
    | cons y ys =>
      simp only [bytesCmp]
      by_cases h1 : x < y
      · have : ¬ y < x := by omega
        simp [h1, this]
      · by_cases h2 : y < x
        · simp [h1, h2]
        · simp [h1, h2, ih]

/-- it is the lexicographic order of the byte sequences -/
theorem bytesCmp_lt_iff (a b : List Nat) : bytesCmp a b = .lt ↔ a < b := by
  induction a generalizing b with
  | nil => cases b <;> simp [bytesCmp]
  | cons x xs ih =>
    cases b with
    | nil => simp [bytesCmp]
    | cons y ys =>
      simp only [bytesCmp, List.cons_lt_cons_iff]
      by_cases h1 : x < y
      · simp [h1]
      · by_cases h2 : y < x
        · simp [h1, h2]; omega
        · have : x = y := by omega
          subst this
          simp [ih]

theorem bytesCmp_trans (a b c : List Nat) (h1 : bytesCmp a b = .lt) (h2 : bytesCmp b c = .lt) :
    bytesCmp a c = .lt := by
  rw [bytesCmp_lt_iff] at *
  exact List.lt_trans h1 h2


/-! #### `numDigits`: `10^(nd-1) ≤ n < 10^nd` -/
theorem numDigitsAux_spec : ∀ fuel n, n ≤ fuel →
    1 ≤ Dec.numDigitsAux fuel n ∧ n < 10 ^ Dec.numDigitsAux fuel n ∧
      (0 < n → 10 ^ (Dec.numDigitsAux fuel n - 1) ≤ n) := by
  intro fuel
  induction fuel with
  | zero =>
    intro n h
    have : n = 0 := by omega
    subst this
    simp [Dec.numDigitsAux]
  | succ f ih =>
    intro n h
    simp only [Dec.numDigitsAux]
    split
    · refine ⟨by omega, by omega, fun h => by simp; omega⟩
    · rename_i h10
      have hle : n / 10 ≤ f := by omega
      obtain ⟨i1, i2, i3⟩ := ih (n / 10) hle
      generalize Dec.numDigitsAux f (n / 10) = a at *
      refine ⟨by omega, ?_, fun _ => ?_⟩
      · rw [Nat.add_comm, Nat.pow_succ]
        omega
      · have := i3 (by omega)
        have e : 1 + a - 1 = (a - 1) + 1 := by omega
        rw [e, Nat.pow_succ]
        omega

theorem numDigits_pos (n : Nat) : 1 ≤ Dec.numDigits n := (numDigitsAux_spec n n (Nat.le_refl _)).1
theorem numDigits_lt (n : Nat) : n < 10 ^ Dec.numDigits n := (numDigitsAux_spec n n (Nat.le_refl _)).2.1
theorem numDigits_le (n : Nat) (h : 0 < n) : 10 ^ (Dec.numDigits n - 1) ≤ n :=
  (numDigitsAux_spec n n (Nat.le_refl _)).2.2 h

theorem ten_dvd_of_carry (q : Nat) (h : Dec.numDigits q < Dec.numDigits (q + 1)) : 10 ∣ q + 1 := by
  have h1 := numDigits_lt q
  have h2 := numDigits_le (q + 1) (by omega)
  have h3 := numDigits_pos q
  have h4 : 10 ^ Dec.numDigits q ≤ 10 ^ (Dec.numDigits (q + 1) - 1) :=
    Nat.pow_le_pow_right (by decide) (by omega)
  have h5 : q + 1 = 10 ^ Dec.numDigits q := by omega
  rw [h5]
  have e : Dec.numDigits q = (Dec.numDigits q - 1) + 1 := by omega
  rw [e, Nat.pow_succ]
  exact Nat.dvd_mul_left _ _


/-! #### rounding -/
theorem sgnMul_natAbs (c : Int) : sgnMul (decide (c < 0)) c.natAbs = c := by
  unfold sgnMul
  by_cases h : c < 0 <;> simp [h] <;> omega

theorem round_le (p : Nat) (d : Dec) (h : Dec.numDigits d.coeff.natAbs ≤ p) :
    round p d = (d, false) := by
  unfold round
  simp only []
  rw [if_pos h]

/-- explicit form when digits are dropped -/
theorem round_gt (p : Nat) (d : Dec) (h : ¬ Dec.numDigits d.coeff.natAbs ≤ p) :
    ∃ q2 k2 : Nat,
      round p d = (⟨sgnMul (decide (d.coeff < 0)) q2, d.exp + (k2 : Int)⟩,
        d.coeff.natAbs % 10 ^ (Dec.numDigits d.coeff.natAbs - p) != 0) ∧
      Dec.numDigits d.coeff.natAbs - p ≤ k2 ∧
      q2 ≤ (if 10 ^ (Dec.numDigits d.coeff.natAbs - p) ≤
              2 * (d.coeff.natAbs % 10 ^ (Dec.numDigits d.coeff.natAbs - p))
            then d.coeff.natAbs / 10 ^ (Dec.numDigits d.coeff.natAbs - p) + 1
            else d.coeff.natAbs / 10 ^ (Dec.numDigits d.coeff.natAbs - p)) ∧
      q2 * 10 ^ k2 =
        (if 10 ^ (Dec.numDigits d.coeff.natAbs - p) ≤
              2 * (d.coeff.natAbs % 10 ^ (Dec.numDigits d.coeff.natAbs - p))
            then d.coeff.natAbs / 10 ^ (Dec.numDigits d.coeff.natAbs - p) + 1
            else d.coeff.natAbs / 10 ^ (Dec.numDigits d.coeff.natAbs - p)) *
          10 ^ (Dec.numDigits d.coeff.natAbs - p) := by
  unfold round
  simp only []
  rw [if_neg h]
  generalize Dec.numDigits d.coeff.natAbs - p = k
  generalize d.coeff.natAbs = m
  by_cases hup : 10 ^ k ≤ 2 * (m % 10 ^ k)
  · simp only [hup, decide_true, if_true, Bool.true_and]
    by_cases hc : Dec.numDigits (m / 10 ^ k) < Dec.numDigits (m / 10 ^ k + 1)
    · simp only [hc, decide_true, if_true]
      refine ⟨(m / 10 ^ k + 1) / 10, k + 1, ?_, by omega, Nat.div_le_self _ _, ?_⟩
      · simp
      · have := ten_dvd_of_carry _ hc
        rw [Nat.pow_succ, ← Nat.mul_assoc, Nat.mul_comm _ 10, ← Nat.mul_assoc,
          Nat.mul_comm 10, Nat.div_mul_cancel this]
    · simp only [hc, decide_false]
      exact ⟨m / 10 ^ k + 1, k, by simp, Nat.le_refl _, Nat.le_refl _, rfl⟩
  · simp only [hup, decide_false, if_false, Bool.false_and]
    exact ⟨m / 10 ^ k, k, by simp, Nat.le_refl _, Nat.le_refl _, rfl⟩


theorem round_form (p : Nat) (d : Dec) :
    ∃ q2 k2 : Nat,
      (round p d).1 = ⟨sgnMul (decide (d.coeff < 0)) q2, d.exp + (k2 : Int)⟩ ∧
      q2 ≤ 10 ^ p ∧
      2 * (q2 * 10 ^ k2) ≤ 2 * d.coeff.natAbs + 10 ^ k2 ∧
      2 * d.coeff.natAbs ≤ 2 * (q2 * 10 ^ k2) + 10 ^ k2 ∧
      ((round p d).2 = false ↔ q2 * 10 ^ k2 = d.coeff.natAbs) := by
  by_cases h : Dec.numDigits d.coeff.natAbs ≤ p
  · refine ⟨d.coeff.natAbs, 0, ?_, ?_, by omega, by omega, ?_⟩
    · rw [round_le p d h, sgnMul_natAbs]; simp
    · have := numDigits_lt d.coeff.natAbs
      have := Nat.pow_le_pow_right (n := 10) (by decide) h
      omega
    · rw [round_le p d h]; simp
  · obtain ⟨q2, k2, e, hk, hq, hM⟩ := round_gt p d h
    refine ⟨q2, k2, by rw [e], ?_⟩
    rw [e, hM]
    have hlt := numDigits_lt d.coeff.natAbs
    have hnd : Dec.numDigits d.coeff.natAbs = p + (Dec.numDigits d.coeff.natAbs - p) := by omega
    rw [hnd, Nat.pow_add] at hlt
    generalize Dec.numDigits d.coeff.natAbs - p = k at *
    generalize d.coeff.natAbs = m at *
    have hT : 0 < 10 ^ k := Nat.pow_pos (by decide)
    have hTT : 10 ^ k ≤ 10 ^ k2 := Nat.pow_le_pow_right (by decide) hk
    have hdm := Nat.div_add_mod m (10 ^ k)
    have hr := Nat.mod_lt m hT
    have hqlt : m / 10 ^ k < 10 ^ p := (Nat.div_lt_iff_lt_mul hT).2 hlt
    rw [Nat.mul_comm] at hdm
    generalize 10 ^ k2 = T2 at *
    generalize 10 ^ p = P at *
    by_cases hup : 10 ^ k ≤ 2 * (m % 10 ^ k)
    · simp only [hup, if_true] at hq ⊢
      rw [Nat.add_mul, Nat.one_mul]
      generalize m / 10 ^ k * 10 ^ k = A at *
      generalize m / 10 ^ k = q at *
      generalize m % 10 ^ k = r at *
      generalize 10 ^ k = T at *
      refine ⟨by omega, by omega, by omega, ?_⟩
      simp; omega
    · simp only [hup, if_false] at hq ⊢
      generalize m / 10 ^ k * 10 ^ k = A at *
      generalize m / 10 ^ k = q at *
      generalize m % 10 ^ k = r at *
      generalize 10 ^ k = T at *
      refine ⟨by omega, by omega, by omega, ?_⟩
      simp; omega


theorem sgnMul_mul (neg : Bool) (a b : Nat) : sgnMul neg (a * b) = sgnMul neg a * (b : Int) := by
  unfold sgnMul
  cases neg <;> simp [Int.neg_mul]

theorem toRat_sgn (neg : Bool) (q2 k2 : Nat) (e : Int) :
    toRat ⟨sgnMul neg q2, e + (k2 : Int)⟩ = ((sgnMul neg (q2 * 10 ^ k2) : Int) : Rat) * (10 : Rat) ^ e := by
  rw [toRat_shift ⟨sgnMul neg q2, e + (k2 : Int)⟩ e (by simp only []; omega)]
  congr 2
  simp only [Dec.shift]
  have : (e + (k2 : Int) - e).toNat = k2 := by omega
  rw [this, sgnMul_mul]
  simp

theorem tenz_add_nat (e : Int) (k : Nat) :
    (10 : Rat) ^ (e + (k : Int)) = (((10 : Int) ^ k : Int) : Rat) * (10 : Rat) ^ e := by
  rw [Rat.zpow_add ten_ne, Rat.zpow_natCast, Rat.intCast_pow, Rat.mul_comm]
  rfl

theorem scale_le (A B C : Int) (E : Rat) (hE : 0 ≤ E) (h : 2 * (A - B) ≤ C) :
    2 * ((A : Rat) * E - (B : Rat) * E) ≤ (C : Rat) * E := by
  have h1 : ((2 * (A - B) : Int) : Rat) ≤ (C : Rat) := Rat.intCast_le_intCast.2 h
  have h2 := Rat.mul_le_mul_of_nonneg_right h1 hE
  simp only [Rat.intCast_mul, Rat.intCast_sub] at h2
  have e : 2 * ((A : Rat) * E - (B : Rat) * E) = ((2 : Int) : Rat) * ((A : Rat) - (B : Rat)) * E := by
    have : ((2 : Int) : Rat) = 2 := rfl
    rw [this]; grind
  rw [e]; exact h2

/-- rounding is correct: the result is within half a unit in the last place -/
theorem round_isRounding (p : Nat) (d : Dec) : IsRounding p (round p d).1 (toRat d) := by
  obtain ⟨q2, k2, e, hq, h1, h2, -⟩ := round_form p d
  rw [e]
  have hd : toRat d = ((sgnMul (decide (d.coeff < 0)) d.coeff.natAbs : Int) : Rat) * (10 : Rat) ^ d.exp := by
    rw [sgnMul_natAbs]; rfl
  unfold IsRounding
  rw [toRat_sgn, hd]
  simp only []
  rw [tenz_add_nat]
  generalize q2 * 10 ^ k2 = M at *
  generalize d.coeff.natAbs = m at *
  have hT : ((10 : Int) ^ k2) = ((10 ^ k2 : Nat) : Int) := by simp
  rw [hT]
  generalize 10 ^ k2 = T at *
  refine ⟨?_, ?_, ?_⟩
  · unfold sgnMul; split <;> omega
  · apply scale_le _ _ _ _ (Rat.le_of_lt (tenz_pos _))
    unfold sgnMul; split <;> omega
  · apply scale_le _ _ _ _ (Rat.le_of_lt (tenz_pos _))
    unfold sgnMul; split <;> omega

theorem rat_mul_right_cancel {a b E : Rat} (hE : E ≠ 0) (h : a * E = b * E) : a = b := by
  rw [← Rat.mul_div_cancel (a := a) hE, h, Rat.mul_div_cancel hE]

/-- the Inexact flag is exact: it is raised iff the value changed -/
theorem round_flag (p : Nat) (d : Dec) :
    (round p d).2 = false ↔ toRat (round p d).1 = toRat d := by
  obtain ⟨q2, k2, e, -, -, -, hf⟩ := round_form p d
  rw [hf, e]
  have hd : toRat d = ((sgnMul (decide (d.coeff < 0)) d.coeff.natAbs : Int) : Rat) * (10 : Rat) ^ d.exp := by
    rw [sgnMul_natAbs]; rfl
  rw [toRat_sgn, hd]
  generalize q2 * 10 ^ k2 = M at *
  generalize d.coeff.natAbs = m at *
  constructor
  · intro h; rw [h]
  · intro h
    have h' := Rat.intCast_inj.1 (rat_mul_right_cancel (Rat.ne_of_gt (tenz_pos d.exp)) h)
    revert h'
    unfold sgnMul; split <;> omega


theorem round_snd_of_fits (p : Nat) (d : Dec) (h : Fits p d) : (round p d).2 = false := by
  by_cases hnd : Dec.numDigits d.coeff.natAbs ≤ p
  · rw [round_le p d hnd]
  · obtain ⟨q2, k2, e, -⟩ := round_gt p d hnd
    rw [e]
    obtain ⟨c, j, hc, hcj⟩ := h
    have hm : d.coeff.natAbs = c.natAbs * 10 ^ j := by
      rw [hcj, Int.natAbs_mul, Int.natAbs_pow]; rfl
    suffices hs : d.coeff.natAbs % 10 ^ (Dec.numDigits d.coeff.natAbs - p) = 0 by simp [hs]
    by_cases h0 : d.coeff.natAbs = 0
    · rw [h0]; simp
    · have hle := numDigits_le d.coeff.natAbs (by omega)
      have hlt : d.coeff.natAbs < 10 ^ (p + j) := by
        rw [hm, Nat.pow_add]
        exact Nat.mul_lt_mul_of_pos_right hc (Nat.pow_pos (by decide))
      have hkj : Dec.numDigits d.coeff.natAbs - p ≤ j := by
        apply Decidable.byContradiction
        intro hn
        have := Nat.pow_le_pow_right (n := 10) (by decide)
          (show p + j ≤ Dec.numDigits d.coeff.natAbs - 1 by omega)
        omega
      apply Nat.mod_eq_zero_of_dvd
      refine Nat.dvd_trans (Nat.pow_dvd_pow 10 hkj) ?_
      rw [hm]
      exact Nat.dvd_mul_left _ _

/-- rounding a value that needs at most `p` digits changes nothing (and is not flagged) -/
theorem round_of_fits (p : Nat) (d : Dec) (h : Fits p d) :
    toRat (round p d).1 = toRat d ∧ (round p d).2 = false :=
  ⟨(round_flag p d).1 (round_snd_of_fits p d h), round_snd_of_fits p d h⟩

/-- `Fits` depends only on the value -/
theorem fits_of_eq (p : Nat) (c : Int) (j : Nat) (x : Int) (b : Nat) (hc : c.natAbs < 10 ^ p)
    (h : c * 10 ^ j = x * 10 ^ b) : ∃ (c' : Int) (j' : Nat), c'.natAbs < 10 ^ p ∧ x = c' * 10 ^ j' := by
  by_cases hbj : b ≤ j
  · refine ⟨c, j - b, hc, ?_⟩
    have e : j = (j - b) + b := by omega
    rw [e, Int.pow_add, ← Int.mul_assoc] at h
    exact (Int.eq_of_mul_eq_mul_right (Int.ne_of_gt (Dec.ten_pow_pos b)) h).symm
  · refine ⟨x, 0, ?_, by simp⟩
    have e : b = (b - j) + j := by omega
    rw [e, Int.pow_add, ← Int.mul_assoc] at h
    have h' := Int.eq_of_mul_eq_mul_right (Int.ne_of_gt (Dec.ten_pow_pos j)) h
    rw [h', Int.natAbs_mul, Int.natAbs_pow] at hc
    have : 0 < (10 : Int).natAbs ^ (b - j) := Nat.pow_pos (by decide)
    generalize (10 : Int).natAbs ^ (b - j) = T at *
    have : x.natAbs * 1 ≤ x.natAbs * T := Nat.mul_le_mul_left _ (by omega)
    omega

theorem fits_of_toRat_eq (p : Nat) (d' d : Dec) (hf : Fits p d') (h : toRat d' = toRat d) :
    Fits p d := by
  obtain ⟨c, j, hc, hcj⟩ := hf
  have := (cmp_eq_iff d' d).2 h
  rw [Dec.cmp, Int.compare_eq_eq] at this
  simp only [Dec.shift] at this
  rw [hcj, Int.mul_assoc, ← Int.pow_add] at this
  exact fits_of_eq p c _ d.coeff _ hc this

/-- `+ - *` are exact whenever the exact result has at most 34 significant digits -/
theorem arith_exact (op : AOp) (x y r : Num) (h : numOp op x y = .num r)
    (hf : FitsVal prec (specOp (aop op) (toRat x.d) (toRat y.d))) :
    toRat r.d = specOp (aop op) (toRat x.d) (toRat y.d) := by
  rw [(numOp_eq op x y r h).1]
  obtain ⟨d', hd', hv⟩ := hf
  rw [← toRat_exact] at hv ⊢
  exact (round_of_fits prec _ (fits_of_toRat_eq prec d' _ hd' hv)).1

/-- in general the result is the correctly rounded exact result -/
theorem arith_rounded (op : AOp) (x y r : Num) (h : numOp op x y = .num r) :
    IsRounding prec r.d (specOp (aop op) (toRat x.d) (toRat y.d)) := by
  rw [(numOp_eq op x y r h).1, ← toRat_exact]
  exact round_isRounding prec _

theorem round_exp_ge (p : Nat) (d : Dec) : d.exp ≤ (round p d).1.exp := by
  obtain ⟨q2, k2, e, -⟩ := round_form p d
  rw [e]; simp only []; omega

theorem exact_exp_nonneg (op : AOp) (a b : Dec) (ha : 0 ≤ a.exp) (hb : 0 ≤ b.exp) :
    0 ≤ (exact op a b).exp := by
  cases op <;> simp only [exact, Dec.add, Dec.sub, Dec.mul] <;> omega

/-- int op int is an int: kind int, non-negative exponent (so `WF`), integral value -/
theorem int_closed (op : AOp) (x y r : Num) (hx : WF x) (hy : WF y)
    (kx : x.k = .int) (ky : y.k = .int) (h : numOp op x y = .num r) :
    r.k = .int ∧ WF r ∧ ∃ z : Int, toRat r.d = (z : Rat) := by
  have hk := (kind_rule op x y r h).2 ⟨kx, ky⟩
  have he : 0 ≤ r.d.exp := by
    rw [(numOp_eq op x y r h).1]
    exact Int.le_trans (exact_exp_nonneg op _ _ (hx kx) (hy ky)) (round_exp_ge _ _)
  refine ⟨hk, fun _ => he, Dec.shift r.d 0, ?_⟩
  rw [toRat_shift r.d 0 he]
  simp


/-- the full statements (no digit hypothesis) are false: witnesses -/
def mul_exact_stmt : Prop :=
  ∀ x y r : Num, numOp .mul x y = .num r → toRat r.d = toRat x.d * toRat y.d
def add_exact_stmt : Prop :=
  ∀ x y r : Num, numOp .add x y = .num r → toRat r.d = toRat x.d + toRat y.d
def sub_exact_stmt : Prop :=
  ∀ x y r : Num, numOp .sub x y = .num r → toRat r.d = toRat x.d - toRat y.d

/-- `100000000000000000001 * 100000000000000000001` -/
theorem mul_exact_false : ¬ mul_exact_stmt := by
  intro h
  have h1 := h ⟨.int, ⟨100000000000000000001, 0⟩⟩ ⟨.int, ⟨100000000000000000001, 0⟩⟩
    ⟨.int, ⟨1000000000000000000020000000000000, 7⟩⟩ (by decide)
  rw [← toRat_mul, ← cmp_eq_iff] at h1
  revert h1
  decide


/-- `12345678901234567890123456789012345678901234567890 + 1` -/
theorem add_exact_false : ¬ add_exact_stmt := by
  intro h
  have h1 := h ⟨.int, ⟨12345678901234567890123456789012345678901234567890, 0⟩⟩ ⟨.int, ⟨1, 0⟩⟩
    ⟨.int, ⟨1234567890123456789012345678901235, 16⟩⟩ (by decide)
  rw [← toRat_add, ← cmp_eq_iff] at h1
  revert h1
  decide

/-- `12345678901234567890123456789012345678901234567890 - 1` -/
theorem sub_exact_false : ¬ sub_exact_stmt := by
  intro h
  have h1 := h ⟨.int, ⟨12345678901234567890123456789012345678901234567890, 0⟩⟩ ⟨.int, ⟨1, 0⟩⟩
    ⟨.int, ⟨1234567890123456789012345678901235, 16⟩⟩ (by decide)
  rw [← toRat_sub, ← cmp_eq_iff] at h1
  revert h1
  decide
end CueVerif.Proofs.ArithExact
