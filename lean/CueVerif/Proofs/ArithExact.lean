/-
C06 helper lemmas, part A: rational semantics of `Dec`, exactness of `+ - *` under the
34-digit hypothesis, the kind rule, comparison as a total order consistent with the value.
Core Lean (`Rat` is core); single Mathlib modules may be imported here if really needed.
-/
import CueVerif.Model.DecArith
import CueVerif.Spec.Arith
import CueVerif.Proofs.Dec
namespace CueVerif.Proofs.ArithExact
open CueVerif CueVerif.Arith CueVerif.Spec.Arith

def aop : AOp → ArithOp
  | .add => .add | .sub => .sub | .mul => .mul

def cop : COp → CmpOp
  | .eq => .eq | .ne => .ne | .lt => .lt | .le => .le | .gt => .gt | .ge => .ge

/-- int-kinded numbers carry a non-negative exponent (true of every literal; preserved by the
operators: `int_closed`) -/
def WF (n : Num) : Prop := n.k = .int → 0 ≤ n.d.exp

/-! #### rational semantics of the exact operations -/

theorem toRat_exact (op : AOp) (a b : Dec) :
    toRat (exact op a b) = specOp (aop op) (toRat a) (toRat b) := by sorry

theorem toRat_neg (a : Dec) : toRat (Dec.neg a) = - toRat a := by sorry

/-- comparison agrees with the order of the values -/
theorem cmp_lt_iff (a b : Dec) : Dec.cmp a b = .lt ↔ toRat a < toRat b := by sorry
theorem cmp_eq_iff (a b : Dec) : Dec.cmp a b = .eq ↔ toRat a = toRat b := by sorry
theorem cmp_gt_iff (a b : Dec) : Dec.cmp a b = .gt ↔ toRat b < toRat a := by sorry

/-! #### rounding -/

/-- rounding a value that needs at most `p` digits changes nothing (and is not flagged) -/
theorem round_of_fits (p : Nat) (d : Dec) (h : Fits p d) :
    toRat (round p d).1 = toRat d ∧ (round p d).2 = false := by sorry

/-- the Inexact flag is exact: it is raised iff the value changed -/
theorem round_flag (p : Nat) (d : Dec) :
    (round p d).2 = false ↔ toRat (round p d).1 = toRat d := by sorry

/-- rounding is correct: the result is within half a unit in the last place -/
theorem round_isRounding (p : Nat) (d : Dec) : IsRounding p (round p d).1 (toRat d) := by sorry

/-! #### the property-level statements -/

/-- `+ - *` are exact whenever the exact result has at most 34 significant digits -/
theorem arith_exact (op : AOp) (x y r : Num) (h : numOp op x y = .num r)
    (hf : FitsVal prec (specOp (aop op) (toRat x.d) (toRat y.d))) :
    toRat r.d = specOp (aop op) (toRat x.d) (toRat y.d) := by sorry

/-- in general the result is the correctly rounded exact result -/
theorem arith_rounded (op : AOp) (x y r : Num) (h : numOp op x y = .num r) :
    IsRounding prec r.d (specOp (aop op) (toRat x.d) (toRat y.d)) := by sorry

/-- `numOp` yields a number or the `failed arithmetic` error, and the error only when the
operands or the result leave the exponent window -/
theorem arith_total (op : AOp) (x y : Num) :
    (∃ r, numOp op x y = .num r) ∨
      (numOp op x y = .err .failed ∧
        (alignOk op x.d y.d = false ∨ inWindow (round34 (exact op x.d y.d)).1 = false)) := by sorry

/-- the full statements (no digit hypothesis) are false: witnesses -/
def mul_exact_stmt : Prop :=
  ∀ x y r : Num, numOp .mul x y = .num r → toRat r.d = toRat x.d * toRat y.d
def add_exact_stmt : Prop :=
  ∀ x y r : Num, numOp .add x y = .num r → toRat r.d = toRat x.d + toRat y.d
def sub_exact_stmt : Prop :=
  ∀ x y r : Num, numOp .sub x y = .num r → toRat r.d = toRat x.d - toRat y.d

/-- `100000000000000000001 * 100000000000000000001` -/
theorem mul_exact_false : ¬ mul_exact_stmt := by sorry
/-- `12345678901234567890123456789012345678901234567890 + 1` -/
theorem add_exact_false : ¬ add_exact_stmt := by sorry
/-- `12345678901234567890123456789012345678901234567890 - 1` -/
theorem sub_exact_false : ¬ sub_exact_stmt := by sorry

/-- result kind: int exactly when both operands are ints -/
theorem kind_rule (op : AOp) (x y r : Num) (h : numOp op x y = .num r) :
    (r.k = .int ↔ (x.k = .int ∧ y.k = .int)) := by sorry

/-- int op int is an int: kind int, non-negative exponent (so `WF`), integral value -/
theorem int_closed (op : AOp) (x y r : Num) (hx : WF x) (hy : WF y)
    (kx : x.k = .int) (ky : y.k = .int) (h : numOp op x y = .num r) :
    r.k = .int ∧ WF r ∧ ∃ z : Int, toRat r.d = (z : Rat) := by sorry

/-- comparison of numbers is comparison of the exact values, whatever the kinds -/
theorem cmp_num (op : COp) (x y : Num) :
    cmpOp op (.num x) (.num y) = .bool (specCmp (cop op) (toRat x.d) (toRat y.d)) := by sorry

/-! #### bytewise order on strings and bytes -/

theorem bytesCmp_eq_iff (a b : List Nat) : bytesCmp a b = .eq ↔ a = b := by sorry
theorem bytesCmp_swap (a b : List Nat) : bytesCmp a b = .lt ↔ bytesCmp b a = .gt := by sorry
theorem bytesCmp_trans (a b c : List Nat) (h1 : bytesCmp a b = .lt) (h2 : bytesCmp b c = .lt) :
    bytesCmp a c = .lt := by sorry
/-- it is the lexicographic order of the byte sequences -/
theorem bytesCmp_lt_iff (a b : List Nat) : bytesCmp a b = .lt ↔ a < b := by sorry

end CueVerif.Proofs.ArithExact
