import CueVerif.Proofs.ModzipPath
import CueVerif.Proofs.ModzipSizes
/-!
Proofs about the extraction model: every effect of `unzip` on the abstract file system is
confined to the target directory, whatever the archive contains and wherever it stops; the
bytes written for an entry are a prefix of what its reader delivers, at most declared+1
(declared under the container contract) and exactly the entry's data on success.
-/
namespace CueVerif.Modzip

/-! ### the file-system map -/

theorem FS.get_cons (fs : FS) (q0 q : Path) (n : Node) :
    FS.get ((q0, n) :: fs) q = if q0 = q then some n else FS.get fs q := rfl

theorem FS.get_set (fs : FS) (q0 q : Path) (n : Node) :
    (fs.set q0 n).get q = if q0 = q then some n else fs.get q := rfl

theorem FS.get_set_set (fs : FS) (q0 q : Path) (a b : Node) :
    ((fs.set q0 a).set q0 b).get q = if q0 = q then some b else fs.get q := by
  rw [FS.get_set, FS.get_set]
  split <;> rfl

/-- `fs'` extends `fs`: whatever existed is untouched -/
def Extends (fs fs' : FS) : Prop := ∀ q n, fs.get q = some n → fs'.get q = some n

theorem Extends.refl (fs : FS) : Extends fs fs := fun _ _ h => h

theorem Extends.trans {a b c : FS} (h1 : Extends a b) (h2 : Extends b c) : Extends a c :=
  fun q n h => h2 q n (h1 q n h)

theorem Extends.set {fs : FS} {q0 : Path} (n : Node) (h : fs.get q0 = none) :
    Extends fs (fs.set q0 n) := by
  intro q m hq
  rw [FS.get_set]
  split
  · next heq => subst heq; rw [h] at hq; cases hq
  · exact hq

/-- where new nodes may appear -/
def Allowed (dir : Path) (q : Path) (n : Node) : Prop :=
  StrictUnder dir q ∨ (AtOrAbove dir q ∧ n = .dir)

/-- every node of `fs'` that `fs` did not have is allowed -/
def NewAllowed (dir : Path) (fs fs' : FS) : Prop :=
  ∀ q n, fs.get q = none → fs'.get q = some n → Allowed dir q n

theorem confined_of (dir : Path) (fs fs' : FS) (he : Extends fs fs')
    (hn : NewAllowed dir fs fs') : Confined dir fs fs' := by
  intro q
  cases h : fs.get q with
  | some n => left; rw [he q n h]
  | none =>
    cases h' : fs'.get q with
    | none => left; rfl
    | some n =>
      right
      refine ⟨rfl, ?_⟩
      rcases hn q n h h' with hs | ⟨ha, hd⟩
      · left; exact hs
      · right; exact ⟨ha, by rw [hd]⟩

theorem NewAllowed.refl (dir : Path) (fs : FS) : NewAllowed dir fs fs := by
  intro q n h h'; rw [h] at h'; cases h'

theorem NewAllowed.trans {dir : Path} {a b c : FS} (hbc : Extends b c)
    (h1 : NewAllowed dir a b) (h2 : NewAllowed dir b c) : NewAllowed dir a c := by
  intro q n ha hc
  cases hb : b.get q with
  | none => exact h2 q n hb hc
  | some m =>
    have hm : Allowed dir q m := h1 q m ha hb
    have := hbc q m hb
    rw [this] at hc
    cases hc
    exact hm

/-- adding one allowed node at an absent path -/
theorem NewAllowed.set {dir : Path} {fs : FS} {q0 : Path} {n : Node}
    (ha : Allowed dir q0 n) : NewAllowed dir fs (fs.set q0 n) := by
  intro q m hq hm
  rw [FS.get_set] at hm
  split at hm
  · next heq => subst heq; cases hm; exact ha
  · rw [hq] at hm; cases hm

/-! ### prefixes of a path beneath `dir` -/

theorem prefix_allowed (dir : Path) (r pre : Path) (c : Str) (cs : List Str)
    (h : pre ++ c :: cs = dir ++ r) : Allowed dir (pre ++ [c]) .dir := by
  -- either pre ++ [c] is a prefix of dir, or it is dir ++ (something non-empty)
  by_cases hl : (pre ++ [c]).length ≤ dir.length
  · right
    refine ⟨?_, rfl⟩
    have h' : (pre ++ [c]) ++ cs = dir ++ r := by simpa using h
    have := List.append_eq_append_iff.mp h'
    rcases this with ⟨a, ha1, _⟩ | ⟨a, ha1, _⟩
    · exact ⟨a, ha1⟩
    · -- pre ++ [c] = dir ++ a with length ≤ dir.length ⇒ a = []
      have hlen := congrArg List.length ha1
      simp only [List.length_append] at hlen hl
      have : a = [] := List.eq_nil_of_length_eq_zero (by omega)
      subst this
      exact ⟨[], by simpa using ha1.symm⟩
  · left
    have h' : (pre ++ [c]) ++ cs = dir ++ r := by simpa using h
    have := List.append_eq_append_iff.mp h'
    rcases this with ⟨a, ha1, _⟩ | ⟨a, ha1, _⟩
    · -- dir = pre ++ [c] ++ a: then length (pre++[c]) ≤ dir.length, contradiction
      have hlen := congrArg List.length ha1
      simp only [List.length_append] at hlen hl
      omega
    · refine ⟨a, ?_, ha1⟩
      intro ha; subst ha
      have hlen := congrArg List.length ha1
      simp only [List.length_append, List.length_nil] at hlen hl
      omega

/-! ### MkdirAll -/

theorem mkdirAllAux_extends (fs : FS) (pre : Path) (cs : List Str) :
    Extends fs (mkdirAllAux fs pre cs).1 := by
  induction cs generalizing fs pre with
  | nil => exact Extends.refl fs
  | cons c cs ih =>
    unfold mkdirAllAux
    simp only
    split
    · exact ih fs _
    · exact Extends.refl fs
    · next hnone => exact (Extends.set .dir hnone).trans (ih _ _)

theorem mkdirAllAux_new (dir r : Path) (fs : FS) (pre : Path) (cs : List Str)
    (h : pre ++ cs = dir ++ r) : NewAllowed dir fs (mkdirAllAux fs pre cs).1 := by
  induction cs generalizing fs pre with
  | nil => exact NewAllowed.refl dir fs
  | cons c cs ih =>
    unfold mkdirAllAux
    simp only
    have hnext : (pre ++ [c]) ++ cs = dir ++ r := by simpa using h
    split
    · exact ih fs _ hnext
    · exact NewAllowed.refl dir fs
    · next hnone =>
      exact NewAllowed.trans (mkdirAllAux_extends _ _ _)
        (NewAllowed.set (prefix_allowed dir r pre c cs h)) (ih _ _ hnext)

/-- MkdirAll only ever adds directories -/
theorem mkdirAllAux_only_dirs (fs : FS) (pre : Path) (cs : List Str) :
    ∀ q n, fs.get q = none → (mkdirAllAux fs pre cs).1.get q = some n → n = .dir := by
  induction cs generalizing fs pre with
  | nil => intro q n h h'; simp only [mkdirAllAux] at h'; rw [h] at h'; cases h'
  | cons c cs ih =>
    intro q n h h'
    unfold mkdirAllAux at h'
    simp only at h'
    split at h'
    · exact ih fs _ q n h h'
    · rw [h] at h'; cases h'
    · next hnone =>
      by_cases hq : pre ++ [c] = q
      · have hd : (fs.set (pre ++ [c]) .dir).get q = some .dir := by rw [FS.get_set, if_pos hq]
        have := mkdirAllAux_extends (fs.set (pre ++ [c]) .dir) (pre ++ [c]) cs q .dir hd
        rw [this] at h'; cases h'; rfl
      · have hn : (fs.set (pre ++ [c]) .dir).get q = none := by rw [FS.get_set, if_neg hq]; exact h
        exact ih _ _ q n hn h'

theorem mkdirAll_extends (fs : FS) (p : Path) : Extends fs (mkdirAll fs p).1 :=
  mkdirAllAux_extends fs [] p

theorem mkdirAll_new (dir r : Path) (fs : FS) (p : Path) (h : p = dir ++ r) :
    NewAllowed dir fs (mkdirAll fs p).1 :=
  mkdirAllAux_new dir r fs [] p (by simpa using h)

theorem mkdirAll_only_dirs (fs : FS) (p : Path) :
    ∀ q n, fs.get q = none → (mkdirAll fs p).1.get q = some n → n = .dir :=
  mkdirAllAux_only_dirs fs [] p

/-! ### the copy step -/

/-- what can be said about the bytes `c` that reached the file of entry `e`
(`ok` = the entry completed without error) -/
def CopyFacts (e : ZEnt) (c : List Nat) (ok : Bool) : Prop :=
  c <+: e.data ∧ c.length ≤ (toInt64 e.declared + 1).toNat ∧
  (ok = true → c = e.data ∧ (c.length : Int) ≤ toInt64 e.declared)

theorem copyFacts_nil (e : ZEnt) : CopyFacts e [] false :=
  ⟨List.nil_prefix, Nat.zero_le _, by intro h; cases h⟩

theorem copyFacts_take (e : ZEnt) (b : Bool)
    (hb : b = true → ¬ ((e.data.length : Int) < toInt64 e.declared + 1 ∧ e.streamErr = true) ∧
      toInt64 e.declared + 1 - ((e.data.take (toInt64 e.declared + 1).toNat).length : Int) > 0) :
    CopyFacts e (e.data.take (toInt64 e.declared + 1).toNat) b := by
  refine ⟨List.take_prefix _ _, ?_, ?_⟩
  · rw [List.length_take]; exact Nat.min_le_left _ _
  · intro h
    have h2 := (hb h).2
    rw [List.length_take] at h2
    have hlt : e.data.length < (toInt64 e.declared + 1).toNat := by omega
    refine ⟨List.take_of_length_le (Nat.le_of_lt hlt), ?_⟩
    rw [List.length_take]
    omega

theorem copyEntry_facts (e : ZEnt) : CopyFacts e (copyEntry e).1 (copyEntry e).2 := by
  unfold copyEntry
  simp only
  have key : ∀ b : Bool,
      b = (!(decide ((e.data.length : Int) < toInt64 e.declared + 1) && e.streamErr) &&
        decide (toInt64 e.declared + 1 - ((e.data.take (toInt64 e.declared + 1).toNat).length : Int) > 0)) →
      CopyFacts e (e.data.take (toInt64 e.declared + 1).toNat) b := by
    intro b hb
    apply copyFacts_take
    intro ht
    rw [ht] at hb
    have := hb.symm
    simp only [Bool.and_eq_true, Bool.not_eq_true', decide_eq_true_eq] at this
    refine ⟨?_, this.2⟩
    intro ⟨h1, h2⟩
    have h3 := this.1
    simp [h1, h2] at h3
  split
  · next k =>
    split
    · -- the write failed after k bytes
      refine ⟨?_, ?_, by intro h; cases h⟩
      · exact (List.take_prefix _ _).trans (List.take_prefix _ _)
      · rw [List.length_take, List.length_take]; omega
    · exact key _ rfl
  · exact key _ rfl

/-! ### one entry -/

theorem unzipOne_extends (fs : FS) (dir : Path) (e : ZEnt) :
    Extends fs (unzipOne fs dir e).1 := by
  unfold unzipOne
  simp only
  split
  · next fs1 h => have := mkdirAll_extends fs (fjoin dir e.name).dropLast; rw [h] at this; exact this
  · next fs1 h =>
    have hm := mkdirAll_extends fs (fjoin dir e.name).dropLast; rw [h] at hm
    split
    · exact hm
    · next hnone =>
      split
      · exact hm.trans (Extends.set _ hnone)
      · refine hm.trans ?_
        intro q n hq
        rw [FS.get_set_set]
        split
        · next heq => subst heq; rw [hnone] at hq; cases hq
        · exact hq

/-- the new nodes of one extraction step, when the destination is strictly beneath `dir` -/
theorem unzipOne_new (fs : FS) (dir : Path) (e : ZEnt) (r : Path) (hr : r ≠ [])
    (hdst : fjoin dir e.name = dir ++ r) : NewAllowed dir fs (unzipOne fs dir e).1 := by
  have hparent : (fjoin dir e.name).dropLast = dir ++ r.dropLast := by
    rw [hdst, List.dropLast_append_of_ne_nil hr]
  have hstrict : StrictUnder dir (fjoin dir e.name) := ⟨r, hr, hdst⟩
  unfold unzipOne
  simp only
  split
  · next fs1 h => have := mkdirAll_new dir _ fs _ hparent; rw [h] at this; exact this
  · next fs1 h =>
    have hm := mkdirAll_new dir _ fs _ hparent; rw [h] at hm
    split
    · exact hm
    · next hnone =>
      split
      · exact NewAllowed.trans (Extends.set _ hnone) hm (NewAllowed.set (Or.inl hstrict))
      · intro q n hq hn
        rw [FS.get_set_set] at hn
        split at hn
        · next heq => subst heq; exact Or.inl hstrict
        · exact hm q n hq hn

/-- a regular file that one extraction step brought into being is the entry's destination,
and its content obeys `CopyFacts` -/
theorem unzipOne_files (fs : FS) (dir : Path) (e : ZEnt) :
    ∀ q c, fs.get q = none → (unzipOne fs dir e).1.get q = some (.file c) →
      q = fjoin dir e.name ∧ CopyFacts e c (unzipOne fs dir e).2 := by
  intro q c hq hc
  unfold unzipOne at hc ⊢
  simp only at hc ⊢
  have hod := mkdirAll_only_dirs fs (fjoin dir e.name).dropLast
  split at hc
  · next fs1 h =>
    rw [h] at hod; have := hod q _ hq hc; cases this
  · next fs1 h =>
    rw [h] at hod
    split at hc
    · have := hod q _ hq hc; cases this
    · next hnone =>
      try simp only [hnone]
      split at hc
      · next hopen =>
        try simp only [hopen, if_true]
        rw [FS.get_set] at hc
        split at hc
        · next heq => cases hc; exact ⟨heq.symm, copyFacts_nil e⟩
        · have := hod q _ hq hc; cases this
      · next hopen =>
        try simp only [hopen, if_false]
        rw [FS.get_set_set] at hc
        split at hc
        · next heq => cases hc; exact ⟨heq.symm, copyEntry_facts e⟩
        · have := hod q _ hq hc; cases this

/-! ### the loop -/

theorem unzipEntries_extends (dir : Path) (es : List ZEnt) (fs : FS) :
    Extends fs (unzipEntries fs dir es).1 := by
  induction es generalizing fs with
  | nil => exact Extends.refl fs
  | cons e es ih =>
    unfold unzipEntries
    split
    · exact ih fs
    · split
      · next fs1 h => have := unzipOne_extends fs dir e; rw [h] at this; exact this
      · next fs1 h =>
        have := unzipOne_extends fs dir e; rw [h] at this
        exact this.trans (ih fs1)

theorem unzipEntries_new (dir : Path) (es : List ZEnt) (fs : FS)
    (hsafe : ∀ e ∈ es, skipEntry e = false → ∃ r, r ≠ [] ∧ fjoin dir e.name = dir ++ r) :
    NewAllowed dir fs (unzipEntries fs dir es).1 := by
  induction es generalizing fs with
  | nil => exact NewAllowed.refl dir fs
  | cons e es ih =>
    have ih' := fun fs => ih fs (fun e' he' => hsafe e' (List.mem_cons_of_mem _ he'))
    unfold unzipEntries
    split
    · exact ih' fs
    · next hskip =>
      obtain ⟨r, hr, hdst⟩ := hsafe e (List.mem_cons_self) (by simpa using hskip)
      have hone := unzipOne_new fs dir e r hr hdst
      split
      · next fs1 h => rw [h] at hone; exact hone
      · next fs1 h =>
        rw [h] at hone
        exact NewAllowed.trans (unzipEntries_extends dir es fs1) hone (ih' fs1)

theorem unzipEntries_files (dir : Path) (es : List ZEnt) (fs : FS) :
    ∀ q c, fs.get q = none → (unzipEntries fs dir es).1.get q = some (.file c) →
      ∃ e ∈ es, skipEntry e = false ∧ q = fjoin dir e.name ∧
        CopyFacts e c (unzipEntries fs dir es).2 := by
  induction es generalizing fs with
  | nil => intro q c hq hc; simp only [unzipEntries] at hc; rw [hq] at hc; cases hc
  | cons e es ih =>
    intro q c hq hc
    unfold unzipEntries at hc ⊢
    split at hc
    · next hskip =>
      simp only [hskip, if_true]
      obtain ⟨e', he', h⟩ := ih fs q c hq hc
      exact ⟨e', List.mem_cons_of_mem _ he', h⟩
    · next hskip =>
      simp only [hskip]
      have hfiles := unzipOne_files fs dir e q
      split at hc
      · next fs1 h =>
        rw [h] at hfiles
        simp only [Bool.false_eq_true, if_false]
        obtain ⟨h1, h2⟩ := hfiles c hq hc
        exact ⟨e, List.mem_cons_self, by simpa using hskip, h1, h2⟩
      · next fs1 h =>
        rw [h] at hfiles
        simp only [Bool.false_eq_true, if_false]
        cases h1 : fs1.get q with
        | none =>
          obtain ⟨e', he', h⟩ := ih fs1 q c h1 hc
          exact ⟨e', List.mem_cons_of_mem _ he', h⟩
        | some n =>
          have := unzipEntries_extends dir es fs1 q n h1
          rw [this] at hc
          cases hc
          obtain ⟨h2, h3, h4, h5⟩ := hfiles c hq h1
          refine ⟨e, List.mem_cons_self, by simpa using hskip, h2, h3, h4, ?_⟩
          intro _
          exact h5 rfl

/-! ### Unzip -/

/-- after a successful CheckZip every entry that the loop does not skip has a safe name -/
theorem checkZip_entries_safe (U : Uni) (zipSize : Nat) (z : List ZEnt)
    (h : (checkZip U zipSize z).isErr = false) (dir : Path) :
    ∀ e ∈ z, skipEntry e = false →
      fjoin dir e.name = dir ++ splitOn 47 e.name ∧ splitOn 47 e.name ≠ [] := by
  intro e he hskip
  have hok := ((checkZip_ok64 U zipSize z h).2.1 e he).path
  have hnd : isDirName e.name = false := by
    unfold skipEntry at hskip
    simp only [Bool.or_eq_false_iff] at hskip
    exact hskip.2
  unfold entName at hok
  rw [hnd] at hok
  simp only [Bool.false_eq_true, if_false] at hok
  have hs := checkFilePath_safe U e.name hok
  exact ⟨(fjoin_of_safe dir e.name hs).1, splitOn_ne_nil e.name⟩

theorem unzip_extends (U : Uni) (fs : FS) (dir : Path) (zipSize : Nat) (z : List ZEnt) :
    Extends fs (unzip U fs dir zipSize z).1 := by
  unfold unzip
  split
  · exact Extends.refl fs
  · split
    · exact Extends.refl fs
    · split
      · next fs1 h => have := mkdirAll_extends fs dir; rw [h] at this; exact this
      · next fs1 h =>
        have := mkdirAll_extends fs dir; rw [h] at this
        exact this.trans (unzipEntries_extends dir z fs1)

theorem unzip_new (U : Uni) (fs : FS) (dir : Path) (zipSize : Nat) (z : List ZEnt) :
    NewAllowed dir fs (unzip U fs dir zipSize z).1 := by
  unfold unzip
  split
  · exact NewAllowed.refl dir fs
  · split
    · exact NewAllowed.refl dir fs
    · next hok =>
      have hok' : (checkZip U zipSize z).isErr = false := by simpa using hok
      have hm := mkdirAll_new dir [] fs dir (by simp)
      split
      · next fs1 h => rw [h] at hm; exact hm
      · next fs1 h =>
        rw [h] at hm
        refine NewAllowed.trans (unzipEntries_extends dir z fs1) hm ?_
        apply unzipEntries_new
        intro e he hskip
        obtain ⟨h1, h2⟩ := checkZip_entries_safe U zipSize z hok' dir e he hskip
        exact ⟨_, h2, h1⟩

theorem unzip_confined (U : Uni) (fs : FS) (dir : Path) (zipSize : Nat) (z : List ZEnt) :
    Confined dir fs (unzip U fs dir zipSize z).1 :=
  confined_of dir fs _ (unzip_extends U fs dir zipSize z) (unzip_new U fs dir zipSize z)

/-- a failed check writes nothing at all -/
theorem unzip_rejected (U : Uni) (fs : FS) (dir : Path) (zipSize : Nat) (z : List ZEnt)
    (h : (checkZip U zipSize z).isErr = true) : unzip U fs dir zipSize z = (fs, false) := by
  unfold unzip
  split
  · rfl
  · simp [h]

theorem unzip_files (U : Uni) (fs : FS) (dir : Path) (zipSize : Nat) (z : List ZEnt) :
    ∀ q c, fs.get q = none → (unzip U fs dir zipSize z).1.get q = some (.file c) →
      ∃ e ∈ z, skipEntry e = false ∧ q = dir ++ splitOn 47 e.name ∧ splitOn 47 e.name ≠ [] ∧
        0 ≤ toInt64 e.declared ∧
        CopyFacts e c (unzip U fs dir zipSize z).2 := by
  intro q c hq hc
  unfold unzip at hc ⊢
  split at hc
  · rw [hq] at hc; cases hc
  · next hne =>
    simp only [hne]
    split at hc
    · rw [hq] at hc; cases hc
    · next hok =>
      simp only [hok]
      have hok' : (checkZip U zipSize z).isErr = false := by simpa using hok
      have hod := mkdirAll_only_dirs fs dir
      split at hc
      · next fs1 h => rw [h] at hod; have := hod q _ hq hc; cases this
      · next fs1 h =>
        rw [h] at hod
        simp only [Bool.false_eq_true, if_false]
        cases h1 : fs1.get q with
        | some n =>
          have := hod q n hq h1
          subst this
          have := unzipEntries_extends dir z fs1 q _ h1
          rw [this] at hc; cases hc
        | none =>
          obtain ⟨e, he, hskip, hqe, hcf⟩ := unzipEntries_files dir z fs1 q c h1 hc
          obtain ⟨hj, hne'⟩ := checkZip_entries_safe U zipSize z hok' dir e he hskip
          refine ⟨e, he, hskip, by rw [hqe, hj], hne', ?_, hcf⟩
          exact ((checkZip_ok64 U zipSize z hok').2.1 e he).nonneg (by
            unfold skipEntry at hskip
            simp only [Bool.or_eq_false_iff] at hskip
            exact hskip.2)

/-- the byte bounds in plain numbers, for archives whose headers are 64-bit values -/
theorem unzip_sizes (U : Uni) (fs : FS) (dir : Path) (zipSize : Nat) (z : List ZEnt)
    (h64 : ∀ e ∈ z, e.declared < 2 ^ 64) :
    ∀ q c, fs.get q = none → (unzip U fs dir zipSize z).1.get q = some (.file c) →
      ∃ e ∈ z, skipEntry e = false ∧ q = dir ++ splitOn 47 e.name ∧ splitOn 47 e.name ≠ [] ∧
        c <+: e.data ∧ c.length ≤ e.declared + 1 ∧
        (e.data.length ≤ e.declared → c.length ≤ e.declared) ∧
        ((unzip U fs dir zipSize z).2 = true → c = e.data ∧ c.length ≤ e.declared) := by
  intro q c hq hc
  obtain ⟨e, he, hskip, hqe, hne, hnn, hpre, hlen, hok⟩ := unzip_files U fs dir zipSize z q c hq hc
  have h64' : e.declared < 18446744073709551616 := h64 e he
  obtain ⟨-, heq⟩ := toInt64_of_nonneg h64' hnn
  refine ⟨e, he, hskip, hqe, hne, hpre, ?_, ?_, ?_⟩
  · rw [heq] at hlen; omega
  · intro hd; have := hpre.length_le; omega
  · intro ht
    obtain ⟨h1, h2⟩ := hok ht
    rw [heq] at h2
    exact ⟨h1, by omega⟩

end CueVerif.Modzip
