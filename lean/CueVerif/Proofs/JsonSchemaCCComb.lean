/-
C13 — state-level step lemmas of `constraintAnyOf`, `constraintOneOf`, `constraintAllOf` as
transcribed (`bAnyOf`, `bOneOf`, `bAllOf`), relative to the allowed types handed to the members.
Core Lean only.
-/
import CueVerif.Proofs.JsonSchemaCCInd
namespace CueVerif.CCm
open CueVerif.JS CueVerif.Skel

variable (re : String → String → Bool)

/-! ## unions of kind sets -/

theorem hasCore_empty (t : CoreType) : hasCore KSet.empty t = false := by cases t <;> rfl

theorem IntClosed_empty : IntClosed KSet.empty := by intro h; cases h

theorem IntClosed_full : IntClosed KSet.full := fun _ => rfl

theorem IntClosed_union (a b : KSet) (ha : IntClosed a) (hb : IntClosed b) : IntClosed (a.union b) := by
  intro h
  simp only [KSet.union, Bool.or_eq_true] at h ⊢
  rcases h with h | h
  · exact Or.inl (ha h)
  · exact Or.inr (hb h)

theorem IntClosed_unionAllowed (a : List TSub) (h : ∀ r ∈ a, IntClosed r.allowed) :
    IntClosed (unionAllowed a) := by
  intro hf
  simp only [unionAllowed, List.any_eq_true] at hf ⊢
  obtain ⟨r, hr, hk⟩ := hf
  exact ⟨r, hr, h r hr hk⟩

theorem IntClosed_unionKnown (a : List TSub) (h : ∀ r ∈ a, IntClosed r.known) :
    IntClosed (unionKnown a) := by
  intro hf
  simp only [unionKnown, List.any_eq_true] at hf ⊢
  obtain ⟨r, hr, hk⟩ := hf
  exact ⟨r, hr, h r hr hk⟩

theorem hasCore_unionAllowed_mem (a : List TSub) (r : TSub) (hr : r ∈ a) (t : CoreType)
    (h : hasCore r.allowed t = true) : hasCore (unionAllowed a) t = true :=
  hasCore_sub r.allowed (unionAllowed a)
    (fun k hk => by simp only [unionAllowed, List.any_eq_true]; exact ⟨r, hr, hk⟩) t h

theorem hasCore_unionKnown_mem (a : List TSub) (r : TSub) (hr : r ∈ a) (t : CoreType)
    (h : hasCore r.known t = true) : hasCore (unionKnown a) t = true :=
  hasCore_sub r.known (unionKnown a)
    (fun k hk => by simp only [unionKnown, List.any_eq_true]; exact ⟨r, hr, hk⟩) t h

/-! ## the members of anyOf / oneOf -/

/-- what the step lemmas need about each translated member `r` (at instance `j`, under `T`) -/
structure SubG (j : Json) (T : KSet) (r : TSub) : Prop where
  closed : IntClosed r.allowed
  closedK : IntClosed r.known
  sub : ∀ k, r.allowed k = true → r.known k = true
  soundK : acc re r.expr j = true → hasCore r.known (coreOf j) = true
  sound : hasCore T (coreOf j) = true → acc re r.expr j = true → hasCore r.allowed (coreOf j) = true

theorem subG_of_good (tr vf) (j : Json) (T : KSet) (ss : List Schema)
    (hg : ∀ s ∈ ss, GoodA re tr vf j T s) : ∀ r ∈ ss.map (tr T), SubG re j T r := by
  intro r hr
  obtain ⟨s, hs, rfl⟩ := List.mem_map.1 hr
  have g := hg s hs
  exact ⟨g.closed, g.closedK, g.sub, g.soundK, g.sound⟩

theorem dropped_false (j : Json) (T : KSet) (r : TSub) (g : SubG re j T r)
    (hT : hasCore T (coreOf j) = true) (h : (!r.allowed.isEmpty) = false) : acc re r.expr j = false := by
  cases ha : acc re r.expr j with
  | false => rfl
  | true =>
    have := g.sound hT ha
    rw [Skel.hasCore_of_isEmpty _ (by simpa using h)] at this
    cases this

/-- the oracle's verdicts on the members, as Booleans, are the acceptance of their translations -/
theorem vd_eq_acc (tr vf) (j : Json) (T : KSet) (ss : List Schema)
    (hg : ∀ s ∈ ss, GoodA re tr vf j T s) (hT : hasCore T (coreOf j) = true) :
    ss.map (vd vf) = (ss.map (tr T)).map (fun r => acc re r.expr j) := by
  rw [List.map_map]
  apply List.map_congr_left
  intro s hs
  simp only [vd, (hg s hs).exact hT, Option.getD_some, Function.comp]

theorem any3_vf (vf : Schema → Option Bool) (ss : List Schema) (h : ∀ s ∈ ss, (vf s).isSome = true) :
    any3 (ss.map vf) = some ((ss.map (vd vf)).any id) := by
  rw [map_vf vf ss h, any3_det]

theorem one3_vf (vf : Schema → Option Bool) (ss : List Schema) (h : ∀ s ∈ ss, (vf s).isSome = true) :
    one3 (ss.map vf) = some ((ss.map (vd vf)).count true == 1) := by
  rw [map_vf vf ss h, one3_det]

theorem all3_vf (vf : Schema → Option Bool) (ss : List Schema) (h : ∀ s ∈ ss, (vf s).isSome = true) :
    all3 (ss.map vf) = some ((ss.map (vd vf)).all id) := by
  rw [map_vf vf ss h, all3_det]

theorem and_cond (S Y V : Bool) (h : S = true → Y = V) : (S && Y) = (S && V) := by
  cases S
  · rfl
  · simp [h rfl]

theorem stAcc_hT (st : TSt) (j : Json) (h : stAcc re st j = true) :
    hasCore st.allowed (coreOf j) = true := by
  rw [stAcc_def] at h
  simp only [Bool.and_eq_true] at h
  exact h.1.1

theorem kept_any (tr vf) (st : TSt) (ss : List Schema) (j : Json)
    (hg : ∀ s ∈ ss, GoodA re tr vf j st.allowed s) (hT : hasCore st.allowed (coreOf j) = true) :
    (keptSubs tr st.allowed ss).any (fun r => acc re r.expr j) = (ss.map (vd vf)).any id := by
  have hG := subG_of_good re tr vf j st.allowed ss hg
  rw [vd_eq_acc re tr vf j st.allowed ss hg hT]
  unfold keptSubs
  rw [Skel.any_filter_drop (fun r => acc re r.expr j) (fun r => !r.allowed.isEmpty)
    (ss.map (tr st.allowed)) (fun r hr h => dropped_false re j st.allowed r (hG r hr) hT h)]
  simp [List.any_map, Function.comp_def]

theorem kept_count (tr vf) (st : TSt) (ss : List Schema) (j : Json)
    (hg : ∀ s ∈ ss, GoodA re tr vf j st.allowed s) (hT : hasCore st.allowed (coreOf j) = true) :
    (keptSubs tr st.allowed ss).countP (fun r => acc re r.expr j) = (ss.map (vd vf)).count true := by
  have hG := subG_of_good re tr vf j st.allowed ss hg
  rw [vd_eq_acc re tr vf j st.allowed ss hg hT, Skel.count_true_map]
  unfold keptSubs
  exact Skel.countP_filter_drop (fun r => acc re r.expr j) (fun r => !r.allowed.isEmpty)
    (ss.map (tr st.allowed)) (fun r hr h => dropped_false re j st.allowed r (hG r hr) hT h)

theorem inter_sub_left (a b : KSet) : ∀ k, a.inter b k = true → a k = true := by
  intro k hk
  simp only [KSet.inter, Bool.and_eq_true] at hk
  exact hk.1

/-! ## anyOf -/

theorem anyOf_step (tr vf) (st : TSt) (ss : List Schema) (j : Json) (hI : SInv re st j)
    (hg : ∀ s ∈ ss, GoodA re tr vf j st.allowed s) :
    SInv re (bAnyOf tr ss st) j ∧ (any3 (ss.map vf)).isSome = true ∧
    stAcc re (bAnyOf tr ss st) j = (stAcc re st j && (any3 (ss.map vf)).getD false) := by
  have hdef : ∀ s ∈ ss, (vf s).isSome = true := fun s hs => (hg s hs).defined
  have hG := subG_of_good re tr vf j st.allowed ss hg
  rw [any3_vf vf ss hdef]
  suffices h : SInv re (bAnyOf tr ss st) j ∧
      stAcc re (bAnyOf tr ss st) j = (stAcc re st j && (ss.map (vd vf)).any id) from ⟨h.1, rfl, h.2⟩
  have hkept : ∀ r ∈ keptSubs tr st.allowed ss, SubG re j st.allowed r :=
    fun r hr => hG r (List.mem_filter.1 hr).1
  have hany := kept_any re tr vf st ss j hg
  unfold bAnyOf
  simp only []
  generalize keptSubs tr st.allowed ss = a at hkept hany
  match a, hkept, hany with
  | [], _, hany =>
    refine ⟨⟨IntClosed_empty, hI.closedK, hI.own, (fun k hk => by cases hk), hI.knownJ⟩, ?_⟩
    have hl : stAcc re { st with allowed := KSet.empty } j = false := by simp [stAcc, hasCore_empty]
    rw [hl]
    cases h : stAcc re st j
    · rfl
    · rw [← hany (stAcc_hT re st j h)]; rfl
  | [x], _, hany =>
    refine ⟨SInv_addAll re st j _ hI, ?_⟩
    rw [stAcc_addAll]
    exact and_cond _ _ _ (fun h => by rw [← hany (stAcc_hT re st j h)]; simp)
  | x :: y :: r', hkept, hany =>
    have hU := IntClosed_unionAllowed _ (fun r hr => (hkept r hr).closed)
    have hn := narrow_step re st j (st.allowed.inter (unionAllowed (x :: y :: r')))
      (unionKnown (x :: y :: r')) (.matchN (.ge 1) ((x :: y :: r').map (·.expr))) hI
      (IntClosed_inter _ _ hI.closed hU) (inter_sub_left _ _)
      (IntClosed_unionKnown _ (fun r hr => (hkept r hr).closedK))
      (by
        intro k hk
        simp only [KSet.inter, Bool.and_eq_true, unionAllowed, List.any_eq_true] at hk
        obtain ⟨_, r, hr, hrk⟩ := hk
        simp only [unionKnown, List.any_eq_true]
        exact ⟨r, hr, (hkept r hr).sub k hrk⟩)
      (by
        intro hm
        rw [acc_matchN] at hm
        simp only [Bound.ok, Skel.one_le_countP_iff_any, List.any_map] at hm
        obtain ⟨r, hr, hp⟩ := List.any_eq_true.1 hm
        exact hasCore_unionKnown_mem _ r hr _ ((hkept r hr).soundK hp))
    refine ⟨hn.1, ?_⟩
    rw [hn.2, narrow_absorb re st j _ (inter_sub_left _ _)]
    apply and_cond
    intro h
    have hT := stAcc_hT re st j h
    rw [← hany hT, acc_matchN]
    simp only [Bound.ok, Skel.one_le_countP_iff_any, List.any_map, Function.comp_def]
    cases hA : (x :: y :: r').any (fun r => acc re r.expr j)
    · simp
    · obtain ⟨r, hr, hp⟩ := List.any_eq_true.1 hA
      rw [hasCore_inter _ _ hI.closed hU, hT,
        hasCore_unionAllowed_mem _ r hr _ ((hkept r hr).sound hT hp)]
      rfl

/-! ## oneOf (with the `matchN(1, …)` constraint; the no-constraint shortcut is guarded out here and
proved on the semantic model: `Skel.oneOf_enc`) -/

theorem hasCore_unionAllowed_nil' (t : CoreType) : hasCore (unionAllowed []) t = false := by
  cases t <;> rfl

theorem oneOf_step (tr vf) (st : TSt) (ss : List Schema) (j : Json) (hI : SInv re st j)
    (hg : ∀ s ∈ ss, GoodA re tr vf j st.allowed s)
    (hneeds : (oneOfNeeds KSet.empty (keptSubs tr st.allowed ss) ||
      (keptSubs tr st.allowed ss).isEmpty) = true) :
    SInv re (bOneOf tr ss st) j ∧ (one3 (ss.map vf)).isSome = true ∧
    stAcc re (bOneOf tr ss st) j = (stAcc re st j && (one3 (ss.map vf)).getD false) := by
  have hdef : ∀ s ∈ ss, (vf s).isSome = true := fun s hs => (hg s hs).defined
  have hG := subG_of_good re tr vf j st.allowed ss hg
  rw [one3_vf vf ss hdef]
  suffices h : SInv re (bOneOf tr ss st) j ∧
      stAcc re (bOneOf tr ss st) j = (stAcc re st j && ((ss.map (vd vf)).count true == 1)) from
    ⟨h.1, rfl, h.2⟩
  have hkept : ∀ r ∈ keptSubs tr st.allowed ss, SubG re j st.allowed r :=
    fun r hr => hG r (List.mem_filter.1 hr).1
  have hcnt := kept_count re tr vf st ss j hg
  unfold bOneOf
  simp only []
  generalize keptSubs tr st.allowed ss = a at hkept hcnt hneeds
  have hU := IntClosed_unionAllowed a (fun r hr => (hkept r hr).closed)
  have hUK := IntClosed_unionKnown a (fun r hr => (hkept r hr).closedK)
  have hAK : ∀ k, (st.allowed.inter (unionAllowed a)) k = true → unionKnown a k = true := by
    intro k hk
    simp only [KSet.inter, Bool.and_eq_true, unionAllowed, List.any_eq_true] at hk
    obtain ⟨_, r, hr, hrk⟩ := hk
    simp only [unionKnown, List.any_eq_true]
    exact ⟨r, hr, (hkept r hr).sub k hrk⟩
  -- a kept member that accepts puts the kind into the union
  have hinU : ∀ r ∈ a, hasCore st.allowed (coreOf j) = true → acc re r.expr j = true →
      hasCore (st.allowed.inter (unionAllowed a)) (coreOf j) = true := by
    intro r hr hT hp
    rw [hasCore_inter _ _ hI.closed hU, hT, hasCore_unionAllowed_mem _ r hr _ ((hkept r hr).sound hT hp)]
    rfl
  match a, hkept, hcnt, hneeds, hU, hUK, hAK, hinU with
  | [], _, hcnt, _, hU, _, _, _ =>
    have hn := narrow_step0 re st j (st.allowed.inter (unionAllowed [])) .top hI
      (IntClosed_inter _ _ hI.closed hU) (inter_sub_left _ _)
    have e : addAll { st with allowed := st.allowed.inter (unionAllowed []) } .top =
        { st with allowed := st.allowed.inter (unionAllowed []) } := rfl
    rw [e] at hn
    refine ⟨by simpa using hn.1, ?_⟩
    simp only [List.isEmpty_nil, Bool.not_true, Bool.false_and, Bool.false_eq_true, ↓reduceIte]
    rw [hn.2, narrow_absorb re st j _ (inter_sub_left _ _)]
    apply and_cond
    intro h
    rw [← hcnt (stAcc_hT re st j h), hasCore_inter _ _ hI.closed hU, hasCore_unionAllowed_nil']
    simp
  | [x], hkept, hcnt, hneeds, hU, hUK, hAK, hinU =>
    have hnd : oneOfNeeds KSet.empty [x] = true := by simpa using hneeds
    simp only [List.isEmpty_cons, Bool.not_false, Bool.true_and, hnd, ↓reduceIte]
    have hn := narrow_step re st j (st.allowed.inter (unionAllowed [x])) (unionKnown [x]) x.expr hI
      (IntClosed_inter _ _ hI.closed hU) (inter_sub_left _ _) hUK hAK
      (fun hp => hasCore_unionKnown_mem _ x (List.mem_singleton.2 rfl) _
        ((hkept x (List.mem_singleton.2 rfl)).soundK hp))
    refine ⟨hn.1, ?_⟩
    rw [hn.2, narrow_absorb re st j _ (inter_sub_left _ _)]
    apply and_cond
    intro h
    have hT := stAcc_hT re st j h
    rw [← hcnt hT]
    cases hp : acc re x.expr j
    · simp [hp]
    · rw [hinU x (List.mem_singleton.2 rfl) hT hp]; simp [hp]
  | x :: y :: r', hkept, hcnt, hneeds, hU, hUK, hAK, hinU =>
    have hnd : oneOfNeeds KSet.empty (x :: y :: r') = true := by simpa using hneeds
    simp only [List.isEmpty_cons, Bool.not_false, Bool.true_and, hnd, ↓reduceIte]
    have hn := narrow_step re st j (st.allowed.inter (unionAllowed (x :: y :: r')))
      (unionKnown (x :: y :: r')) (.matchN (.eq 1) ((x :: y :: r').map (·.expr))) hI
      (IntClosed_inter _ _ hI.closed hU) (inter_sub_left _ _) hUK hAK
      (by
        intro hm
        rw [acc_matchN, List.countP_map] at hm
        simp only [Bound.ok, beq_iff_eq] at hm
        have hpos : 0 < (x :: y :: r').countP ((fun x => acc re x j) ∘ fun r => r.expr) := by omega
        obtain ⟨r, hr, hp⟩ := List.countP_pos_iff.1 hpos
        exact hasCore_unionKnown_mem _ r hr _ ((hkept r hr).soundK hp))
    refine ⟨hn.1, ?_⟩
    rw [hn.2, narrow_absorb re st j _ (inter_sub_left _ _)]
    apply and_cond
    intro h
    have hT := stAcc_hT re st j h
    rw [← hcnt hT, acc_matchN, List.countP_map]
    simp only [Bound.ok, Function.comp_def]
    cases hc : ((x :: y :: r').countP (fun r => acc re r.expr j) == 1)
    · simp
    · have hpos : 0 < (x :: y :: r').countP (fun r => acc re r.expr j) := by
        simp only [beq_iff_eq] at hc; omega
      obtain ⟨r, hr, hp⟩ := List.countP_pos_iff.1 hpos
      rw [hinU r hr hT hp]; rfl

end CueVerif.CCm
