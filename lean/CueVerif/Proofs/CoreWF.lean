/-
C01 helper lemmas, part 3: `unify` is idempotent on normal forms, preserves normal forms,
and `eval` always yields a normal form.
-/
import CueVerif.Proofs.CoreUnify
namespace CueVerif.Core

/-! ### idempotence on normal forms -/

mutual
theorem unify_idem : ∀ a : Val, a.wf = true → unify a a = a
  | .bot, _ => by simp
  | .top, _ => by simp
  | .sc s, h => by
    simp only [Val.wf] at h
    simp [scMeet, Sc.meet_idem s h]
  | .struct xs c, h => by
    simp only [Val.wf, Bool.and_eq_true, Bool.not_eq_true'] at h
    simp [unify_struct_struct, mergeSlots_idem xs c h.1.1, normS, h.2]
  | .list xs, h => by
    simp only [Val.wf, Bool.and_eq_true, Bool.not_eq_true'] at h
    simp [unify_list_list, zipU_idem xs h.1, normL, h.2]
termination_by structural a => a
theorem mergeSlots_idem : ∀ (xs : Slots) (c : Bool), xs.wf = true → mergeSlots xs c xs c = xs
  | .nil, c, _ => by simp [mergeSlots, closeBy]
  | .cons x xs, c, h => by
    simp only [Slots.wf, Bool.and_eq_true] at h
    simp [mergeSlots, mergeSlot_idem x c h.1, mergeSlots_idem xs c h.2]
termination_by structural xs => xs
theorem mergeSlot_idem : ∀ (x : Slot) (c : Bool), x.wf = true → mergeSlot x c x c = x
  | .none, c, _ => by simp [mergeSlot]
  | .some t v, c, h => by
    simp only [Slot.wf] at h
    simp [mergeSlot, unify_idem v h, ArcTy.min_idem]
termination_by structural x => x
theorem zipU_idem : ∀ (xs : Vals), xs.wf = true → zipU xs xs = some xs
  | .nil, _ => by simp [zipU]
  | .cons x xs, h => by
    simp only [Vals.wf, Bool.and_eq_true] at h
    simp [zipU, zipU_idem xs h.2, unify_idem x h.1]
termination_by structural xs => xs
end

/-! ### `unify` preserves normal forms -/

@[simp] theorem isSome_closeSlot (c : Bool) (s : Slot) : (closeSlot c s).isSome = s.isSome := by
  cases s <;> cases c <;> simp [closeSlot_some, Slot.isSome]

@[simp] theorem isNil_closeBy (c : Bool) (xs : Slots) : (closeBy c xs).isNil = xs.isNil := by
  cases xs <;> simp [closeBy, Slots.isNil]

@[simp] theorem noTrail_closeBy (c : Bool) : ∀ xs : Slots, (closeBy c xs).noTrail = xs.noTrail
  | .nil => rfl
  | .cons x xs => by simp [closeBy, Slots.noTrail, noTrail_closeBy c xs]

@[simp] theorem isSome_mergeSlot (x : Slot) (c : Bool) (y : Slot) (d : Bool) :
    (mergeSlot x c y d).isSome = (x.isSome || y.isSome) := by
  cases x <;> cases y <;> simp [mergeSlot] <;> simp [Slot.isSome]

@[simp] theorem isNil_mergeSlots (xs : Slots) (c : Bool) (ys : Slots) (d : Bool) :
    (mergeSlots xs c ys d).isNil = (xs.isNil && ys.isNil) := by
  cases xs <;> cases ys <;> simp [mergeSlots, Slots.isNil, closeBy]

theorem noTrail_mergeSlots : ∀ (xs : Slots) (c : Bool) (ys : Slots) (d : Bool),
    xs.noTrail = true → ys.noTrail = true → (mergeSlots xs c ys d).noTrail = true
  | .nil, c, ys, d, _, hy => by simpa [mergeSlots] using hy
  | .cons x xs, c, .nil, d, hx, _ => by simpa [mergeSlots] using hx
  | .cons x xs, c, .cons y ys, d, hx, hy => by
    simp only [Slots.noTrail, Bool.and_eq_true, Bool.or_eq_true, Bool.not_eq_true'] at hx hy
    have ih := noTrail_mergeSlots xs c ys d hx.2 hy.2
    simp only [mergeSlots, Slots.noTrail, isSome_mergeSlot, isNil_mergeSlots, ih, Bool.and_true]
    rcases hx.1 with h | h <;> simp [h]

theorem wf_closeSlot (c : Bool) (s : Slot) (h : s.wf = true) : (closeSlot c s).wf = true := by
  cases s <;> cases c <;> simp_all [Slot.wf, Val.wf]

theorem wf_closeBy (c : Bool) : ∀ xs : Slots, xs.wf = true → (closeBy c xs).wf = true
  | .nil, _ => rfl
  | .cons x xs, h => by
    simp only [Slots.wf, Bool.and_eq_true, closeBy] at h ⊢
    exact ⟨wf_closeSlot c x h.1, wf_closeBy c xs h.2⟩

theorem wf_normS (xs : Slots) (c : Bool) (h1 : xs.wf = true) (h2 : xs.noTrail = true) :
    (normS xs c).wf = true := by
  unfold normS; split <;> simp_all [Val.wf]

theorem wf_scMeet (s t : Sc) : (scMeet s t).wf = true := by
  unfold scMeet
  cases h : Sc.meet s t <;> simp [Val.wf]
  exact Sc.meet_wf s t _ h

theorem wf_normL (vs : Vals) (h : vs.wf = true) : (normL vs).wf = true := by
  unfold normL; split <;> simp_all [Val.wf]

mutual
theorem unify_wf : ∀ a b : Val, a.wf = true → b.wf = true → (unify a b).wf = true
  | .bot, _, _, _ => by simp [Val.wf]
  | .top, _, _, hb => by simpa using hb
  | .sc s, .bot, _, _ => by simp [Val.wf]
  | .sc s, .top, ha, _ => by simpa using ha
  | .sc s, .sc t, _, _ => by simpa using wf_scMeet s t
  | .sc s, .struct _ _, _, _ => by simp [Val.wf]
  | .sc s, .list _, _, _ => by simp [Val.wf]
  | .struct _ _, .bot, _, _ => by simp [Val.wf]
  | .struct xs c, .top, ha, _ => by simpa using ha
  | .struct _ _, .sc _, _, _ => by simp [Val.wf]
  | .struct xs c, .struct ys d, ha, hb => by
    simp only [Val.wf, Bool.and_eq_true] at ha hb
    rw [unify_struct_struct]
    exact wf_normS _ _ (mergeSlots_wf xs c ys d ha.1.1 hb.1.1)
      (noTrail_mergeSlots xs c ys d ha.1.2 hb.1.2)
  | .struct _ _, .list _, _, _ => by simp [Val.wf]
  | .list _, .bot, _, _ => by simp [Val.wf]
  | .list xs, .top, ha, _ => by simpa using ha
  | .list _, .sc _, _, _ => by simp [Val.wf]
  | .list _, .struct _ _, _, _ => by simp [Val.wf]
  | .list xs, .list ys, ha, hb => by
    simp only [Val.wf, Bool.and_eq_true] at ha hb
    rw [unify_list_list]
    cases hz : zipU xs ys with
    | none => simp [Val.wf]
    | some r => exact wf_normL r (zipU_wf xs ys r hz ha.1 hb.1)
termination_by structural a _ _ _ => a
theorem mergeSlots_wf : ∀ (xs : Slots) (c : Bool) (ys : Slots) (d : Bool),
    xs.wf = true → ys.wf = true → (mergeSlots xs c ys d).wf = true
  | .nil, c, ys, d, _, hy => by simpa [mergeSlots] using wf_closeBy c ys hy
  | .cons x xs, c, .nil, d, hx, _ => by simpa [mergeSlots] using wf_closeBy d _ hx
  | .cons x xs, c, .cons y ys, d, hx, hy => by
    simp only [Slots.wf, Bool.and_eq_true, mergeSlots] at hx hy ⊢
    exact ⟨mergeSlot_wf x c y d hx.1 hy.1, mergeSlots_wf xs c ys d hx.2 hy.2⟩
termination_by structural xs _ _ _ _ _ => xs
theorem mergeSlot_wf : ∀ (x : Slot) (c : Bool) (y : Slot) (d : Bool),
    x.wf = true → y.wf = true → (mergeSlot x c y d).wf = true
  | .none, c, y, d, _, hy => by simpa [mergeSlot] using wf_closeSlot c y hy
  | .some t v, c, .none, d, hx, _ => by simpa [mergeSlot] using wf_closeSlot d _ hx
  | .some t v, c, .some t' w, d, hx, hy => by
    simp only [Slot.wf, mergeSlot] at hx hy ⊢
    exact unify_wf v w hx hy
termination_by structural x _ _ _ _ _ => x
theorem zipU_wf : ∀ (xs ys r : Vals), zipU xs ys = some r → xs.wf = true → ys.wf = true →
    r.wf = true
  | .nil, .nil, r, h, _, _ => by simp only [zipU, Option.some.injEq] at h; subst h; rfl
  | .nil, .cons _ _, r, h, _, _ => by simp [zipU] at h
  | .cons _ _, .nil, r, h, _, _ => by simp [zipU] at h
  | .cons x xs, .cons y ys, r, h, hx, hy => by
    simp only [zipU] at h
    cases hz : zipU xs ys with
    | none => simp [hz] at h
    | some r' =>
      simp only [hz, Option.some.injEq] at h
      subst h
      simp only [Vals.wf, Bool.and_eq_true] at hx hy ⊢
      exact ⟨unify_wf x y hx.1 hy.1, zipU_wf xs ys r' hz hx.2 hy.2⟩
termination_by structural xs _ _ _ _ _ => xs
end

/-! ### evaluation yields normal forms -/

theorem wf_single (l : Nat) (s : Slot) : (single l s).wf = s.wf := by
  induction l with
  | zero => simp [single, Slots.wf]
  | succ l ih => simp [single, Slots.wf, Slot.wf, ih]

theorem noTrail_single (l : Nat) (s : Slot) (h : s.isSome = true) : (single l s).noTrail = true := by
  induction l with
  | zero => simp [single, Slots.noTrail, h]
  | succ l ih => cases l <;> simp_all [single, Slots.noTrail, Slots.isNil]

theorem wf_fieldV (l : Nat) (t : ArcTy) (v : Val) (h : v.wf = true) : (fieldV l t v).wf = true := by
  unfold fieldV
  exact wf_normS _ _ (by simpa [wf_single, Slot.wf] using h) (noTrail_single l _ rfl)

theorem wf_litV (s : Sc) : (litV s).wf = true := by
  unfold litV
  cases h : s.norm <;> simp [Val.wf]
  exact Sc.norm_wf s _ h

theorem wf_closeV (v : Val) (h : v.wf = true) : (closeV v).wf = true := by
  cases v <;> simp_all [closeV, Val.wf]

mutual
theorem eval_wf : ∀ e : Expr, (eval e).wf = true
  | .bot => by simp [eval, Val.wf]
  | .top => by simp [eval, Val.wf]
  | .lit s => by simpa [eval] using wf_litV s
  | .and a b => by simpa [eval] using unify_wf _ _ (eval_wf a) (eval_wf b)
  | .struct .nil => by simp [eval, Val.wf, Slots.wf, Slots.noTrail, Slots.hasRegBot]
  | .struct (.cons d ds) => by simpa [eval] using evalDecls_wf (.cons d ds)
  | .close e => by simpa [eval] using wf_closeV _ (eval_wf e)
  | .list es => by simpa [eval] using wf_normL _ (evalList_wf es)
termination_by structural e => e
theorem evalDecls_wf : ∀ ds : Decls, (evalDecls ds).wf = true
  | .nil => by simp [evalDecls, Val.wf]
  | .cons d ds => by simpa [evalDecls] using unify_wf _ _ (evalDecl_wf d) (evalDecls_wf ds)
termination_by structural ds => ds
theorem evalDecl_wf : ∀ d : Decl, (evalDecl d).wf = true
  | .field l t e => by simpa [evalDecl] using wf_fieldV l t _ (eval_wf e)
  | .embed e => by simpa [evalDecl] using eval_wf e
termination_by structural d => d
theorem evalList_wf : ∀ es : Exprs, (evalList es).wf = true
  | .nil => rfl
  | .cons e es => by
    simp only [evalList, Vals.wf, Bool.and_eq_true]
    exact ⟨eval_wf e, evalList_wf es⟩
termination_by structural es => es
end

end CueVerif.Core
