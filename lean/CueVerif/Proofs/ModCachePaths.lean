import CueVerif.Model.ModCachePaths
/-!
C16: the cleanup of one version is confined to that version's own names — provided no other
version's directory name extends this one's by ".tmp-…"; and that proviso is NOT implied by
the versions being valid and different.
-/
namespace CueVerif.ModCache

/-- what the cleanup removes is the directory itself or a `.tmp-` sibling of it -/
theorem cleanup_confined (base name : Name) (h : cleanupRemoves base name = true) :
    name = base ∨ ∃ rest, name = base ++ tmpSuffix ++ rest := by
  unfold cleanupRemoves hasPrefix at h
  rcases Bool.or_eq_true _ _ |>.mp h with h | h
  · exact Or.inl (by simpa using h)
  · obtain ⟨t, ht⟩ := List.isPrefixOf_iff_prefix.mp h
    exact Or.inr ⟨t, ht.symm⟩

/-- hence it never removes the directory of another version `w`, as long as w's directory
name is not v's name followed by ".tmp-…" -/
theorem cleanup_spares (bv bw : Name) (hne : bw ≠ bv) (hno : hasPrefix (bv ++ tmpSuffix) bw = false) :
    cleanupRemoves bv bw = false := by
  unfold cleanupRemoves
  simp [hno, hne]

/-- two directory names with the same module path element -/
theorem dirBase_ne (e v w : Name) (h : v ≠ w) : dirBase e w ≠ dirBase e v := by
  intro heq
  unfold dirBase at heq
  have := List.append_cancel_left heq
  exact h this.symm

/-- the proviso fails for valid versions: "v0.0.1-a.tmp-x" extends "v0.0.1-a" by ".tmp-x" -/
theorem tmp_witness :
    let e : Name := [113]                                            -- "q"
    let v : Name := [118,48,46,48,46,49,45,97]                       -- "v0.0.1-a"
    let w : Name := [118,48,46,48,46,49,45,97,46,116,109,112,45,120] -- "v0.0.1-a.tmp-x"
    Semver.isValid v = true ∧ Semver.isValid w = true ∧ v ≠ w ∧
      cleanupRemoves (dirBase e v) (dirBase e w) = true := by
  decide

end CueVerif.ModCache
