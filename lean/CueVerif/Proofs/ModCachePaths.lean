import CueVerif.Model.ModCachePaths
/-!
C16: the cleanup `Fetch` does for one version removes that version's own directory and its
legacy `.tmp-<digits>` siblings, and never an entry that is named after a version — so never
the extraction directory of another version of the module.
-/
namespace CueVerif.ModCache

theorem cutPrefix_some (pre name suf : Name) (h : cutPrefix pre name = some suf) : name = pre ++ suf := by
  unfold cutPrefix at h
  split at h
  · rename_i hp
    obtain ⟨t, ht⟩ := List.isPrefixOf_iff_prefix.mp hp
    simp only [Option.some.injEq] at h
    subst h
    rw [← ht]; simp
  · cases h

/-- what the cleanup removes is the directory itself, or a `.tmp-<digits>` sibling of it that
is not named after a version -/
theorem cleanup_confined (base name : Name) (h : cleanupRemoves base name = true) :
    name = base ∨
      (∃ ds, name = base ++ tmpSuffix ++ ds ∧ isAllDigits ds = true) ∧ isVersionDir name = false := by
  unfold cleanupRemoves at h
  rcases Bool.or_eq_true _ _ |>.mp h with h | h
  · exact Or.inl (by simpa using h)
  · split at h
    · rename_i suf hc
      simp only [Bool.and_eq_true, Bool.not_eq_true'] at h
      exact Or.inr ⟨⟨suf, cutPrefix_some _ _ _ hc, h.1⟩, h.2⟩
    · cases h

/-- an entry named after a version is never removed by the cleanup of a directory with
another name -/
theorem cleanup_spares_version_dirs (base name : Name) (hv : isVersionDir name = true)
    (hne : name ≠ base) : cleanupRemoves base name = false := by
  cases hc : cleanupRemoves base name with
  | false => rfl
  | true =>
    rcases cleanup_confined base name hc with h | ⟨_, h⟩
    · exact absurd h hne
    · rw [hv] at h; cases h

theorem afterAt_append (e r : Name) (he : ∀ c ∈ e, c ≠ 64) : afterAt (e ++ 64 :: r) = some r := by
  induction e with
  | nil => simp [afterAt]
  | cons c t ih =>
    have hc : c ≠ 64 := he c (by simp)
    simp only [List.cons_append, afterAt, hc, if_false]
    exact ih (fun x hx => he x (by simp [hx]))

/-- the extraction directory of version `w` of a module whose last path element is `e` is
"named after a version" -/
theorem isVersionDir_dirBase (e w : Name) (he : ∀ c ∈ e, c ≠ 64) :
    isVersionDir (dirBase e w) = Semver.isValid (stripBang w) := by
  unfold isVersionDir dirBase
  rw [List.append_assoc, List.singleton_append, afterAt_append e w he]

/-- two directory names with the same module path element -/
theorem dirBase_ne (e v w : Name) (h : v ≠ w) : dirBase e w ≠ dirBase e v := by
  intro heq
  unfold dirBase at heq
  have := List.append_cancel_left heq
  exact h this.symm

/-- **independence**: fetching version v never removes the extraction directory of another
version w of the same module -/
theorem cleanup_indep (e v w : Name) (he : ∀ c ∈ e, c ≠ 64)
    (hw : Semver.isValid (stripBang w) = true) (hne : v ≠ w) :
    cleanupRemoves (dirBase e v) (dirBase e w) = false :=
  cleanup_spares_version_dirs _ _ (by rw [isVersionDir_dirBase e w he]; exact hw) (dirBase_ne e v w hne)

/-! ### the witnesses against the two OLD matches (and that the current one spares them) -/

/-- the match BEFORE f81b1df removed the directory of the valid version "v0.0.1-a.tmp-x" when
"v0.0.1-a" was extracted -/
theorem old_prefix_match_witness :
    let e : Name := [113]                                            -- "q"
    let v : Name := [118,48,46,48,46,49,45,97]                       -- "v0.0.1-a"
    let w : Name := [118,48,46,48,46,49,45,97,46,116,109,112,45,120] -- "v0.0.1-a.tmp-x"
    Semver.isValid v = true ∧ Semver.isValid w = true ∧ v ≠ w ∧
      cleanupRemovesOld (dirBase e v) (dirBase e w) = true ∧
      cleanupRemovesDigits (dirBase e v) (dirBase e w) = false ∧
      cleanupRemoves (dirBase e v) (dirBase e w) = false := by
  decide

/-- the match of f81b1df (`.tmp-<digits>`) still removed the directory of the valid version
"v0.0.1-a.tmp-1" -/
theorem old_digits_match_witness :
    let e : Name := [113]
    let v : Name := [118,48,46,48,46,49,45,97]                       -- "v0.0.1-a"
    let w : Name := [118,48,46,48,46,49,45,97,46,116,109,112,45,49]  -- "v0.0.1-a.tmp-1"
    Semver.isValid v = true ∧ Semver.isValid w = true ∧ v ≠ w ∧
      cleanupRemovesDigits (dirBase e v) (dirBase e w) = true ∧
      cleanupRemoves (dirBase e v) (dirBase e w) = false := by
  decide

/-- a genuine legacy temporary directory of a release version is still cleaned up -/
theorem legacy_tmp_removed :
    cleanupRemoves (dirBase [113] [118,48,46,48,46,49]) (dirBase [113] [118,48,46,48,46,49] ++ tmpSuffix ++ [49,50,51]) = true := by
  decide

end CueVerif.ModCache
