/-
C05 — lemmas about the transcribed evidence algorithm (Model/Typo.lean, Layer A).
Every statement quantifies over ALL requirement sets / conjunct infos / containment
functions; nothing here depends on how the scheduler (Layer B) produced them.
-/
import CueVerif.Model.Typo
namespace CueVerif.Typo
open CueVerif.Closed

variable {contains : Nat → Nat → Bool}

/-! ### hasEvidenceForAll / hasEvidenceForOne -/

theorem hasEvidenceForAll_inactive (a : List ReqSet) (conj : List ConjInfo)
    (h : ∀ rs ∈ a, rs.ignored = true ∨ rs.removed = true) :
    hasEvidenceForAll contains a conj = true := by
  unfold hasEvidenceForAll
  rw [List.all_eq_true]
  intro rs hrs
  rcases h rs hrs with h | h <;> simp [h]

theorem hasEvidenceForOne_direct (all : List ReqSet) (a : ReqSet) (conj : List ConjInfo)
    (h : conj.any (fun x => contains a.id x.id) = true) :
    hasEvidenceForOne contains all a conj = true := by
  unfold hasEvidenceForOne
  simp only [h, if_true]

theorem lookupSet_zero (all : List ReqSet) : lookupSet all 0 = none := by
  simp [lookupSet]

theorem hasEvidenceForOne_no_embed (all : List ReqSet) (a : ReqSet) (conj : List ConjInfo)
    (h : a.embed = 0) :
    hasEvidenceForOne contains all a conj = conj.any (fun x => contains a.id x.id) := by
  unfold hasEvidenceForOne
  rw [h, lookupSet_zero]
  cases hc : conj.any (fun x => contains a.id x.id) <;> simp

theorem hasEvidenceForOne_embedded (all : List ReqSet) (a es o : ReqSet) (conj : List ConjInfo)
    (hs : lookupSet all a.embed = some es) (hp : a.parent ≠ 0)
    (ho : lookupSet all a.parent = some o) (hr : o.removed = false) :
    hasEvidenceForOne contains all a conj =
      (conj.any (fun x => contains a.id x.id) ||
       conj.any (fun c => !(contains es.id c.embed) && contains o.id c.id)) := by
  unfold hasEvidenceForOne
  rw [hs, ho]
  have hp' : (a.parent == 0) = false := by simpa using hp
  cases hc : conj.any (fun x => contains a.id x.id)
  · simp [hp', hr]
  · simp

theorem hasEvidenceForOne_embedded_outer_removed (all : List ReqSet) (a es o : ReqSet)
    (conj : List ConjInfo)
    (hs : lookupSet all a.embed = some es) (hp : a.parent ≠ 0)
    (ho : lookupSet all a.parent = some o) (hr : o.removed = true) :
    hasEvidenceForOne contains all a conj =
      (conj.any (fun x => contains a.id x.id) ||
       conj.any (fun c => !(contains es.id c.embed))) := by
  unfold hasEvidenceForOne
  rw [hs, ho]
  have hp' : (a.parent == 0) = false := by simpa using hp
  cases hc : conj.any (fun x => contains a.id x.id)
  · simp [hp', hr]
  · simp

theorem all_flat_aux (all a : List ReqSet) (conj : List ConjInfo)
    (h : ∀ rs ∈ a, rs.ignored = false ∧ rs.removed = false ∧ rs.embed = 0) :
    (a.all fun rs => rs.ignored || rs.removed || hasEvidenceForOne contains all rs conj) =
      a.all (fun rs => conj.any (fun x => contains rs.id x.id)) := by
  induction a with
  | nil => rfl
  | cons r rest ih =>
    have hr := h r (by simp)
    have ih' := ih (fun rs hrs => h rs (by simp [hrs]))
    simp only [List.all_cons, ih', hr.1, hr.2.1, Bool.false_or,
      hasEvidenceForOne_no_embed all r conj hr.2.2]

theorem hasEvidenceForAll_flat (a : List ReqSet) (conj : List ConjInfo)
    (h : ∀ rs ∈ a, rs.ignored = false ∧ rs.removed = false ∧ rs.embed = 0) :
    hasEvidenceForAll contains a conj = a.all (fun rs => conj.any (fun x => contains rs.id x.id)) := by
  unfold hasEvidenceForAll
  exact all_flat_aux a a conj h

theorem hasEvidenceForAll_denied (a : List ReqSet) (conj : List ConjInfo) (rs : ReqSet)
    (hm : rs ∈ a) (hi : rs.ignored = false) (hr : rs.removed = false) (he : rs.embed = 0)
    (hn : conj.any (fun x => contains rs.id x.id) = false) :
    hasEvidenceForAll contains a conj = false := by
  cases hall : hasEvidenceForAll contains a conj
  · rfl
  · unfold hasEvidenceForAll at hall
    rw [List.all_eq_true] at hall
    have := hall rs hm
    simp [hi, hr, hasEvidenceForOne_no_embed a rs conj he, hn] at this

/-! ### markIgnored: close() closes one level -/

theorem markIgnored_once (a : List ReqSet) (e : ReqSet) (he : e ∈ markIgnored a)
    (h : e.once = true) : e.ignored = true := by
  unfold markIgnored at he
  rw [List.mem_map] at he
  obtain ⟨x, _, hx⟩ := he
  by_cases hxo : x.once = true
  · simp [hxo] at hx; rw [← hx]
  · simp [hxo] at hx; rw [← hx] at h; exact absurd h hxo

theorem markIgnored_keep (a : List ReqSet) (e : ReqSet) (he : e ∈ a) (h : e.once = false) :
    e ∈ markIgnored a := by
  unfold markIgnored
  rw [List.mem_map]
  exact ⟨e, he, by simp [h]⟩

theorem markIgnored_idem (a : List ReqSet) : markIgnored (markIgnored a) = markIgnored a := by
  unfold markIgnored
  rw [List.map_map]
  apply List.map_congr_left
  intro e _
  by_cases h : e.once = true <;> simp [h]

theorem markIgnored_ids (a : List ReqSet) : (markIgnored a).map (·.id) = a.map (·.id) := by
  unfold markIgnored
  rw [List.map_map]
  apply List.map_congr_left
  intro e _
  by_cases h : e.once = true <;> simp [h]

/-- `filterTop` never re-activates a set: every set it returns comes from an input set with
the same `ignored` flag and an `removed` flag that can only have been switched on -/
theorem filterTop_mem (own parentConj : List ConjInfo) (a : List ReqSet) (s : ReqSet)
    (h : s ∈ filterTop contains own parentConj a) :
    ∃ s0 ∈ a, s.ignored = s0.ignored ∧ s.id = s0.id ∧ (s0.removed = true → s.removed = true) := by
  unfold filterTop at h
  rw [List.mem_filterMap] at h
  obtain ⟨s0, hs0, hf⟩ := h
  refine ⟨s0, hs0, ?_⟩
  simp only at hf
  split at hf
  · cases hf
  · split at hf
    · cases hf; exact ⟨rfl, rfl, id⟩
    · split at hf
      · cases hf; exact ⟨rfl, rfl, id⟩
      · split at hf
        · cases hf; exact ⟨rfl, rfl, fun _ => rfl⟩
        · split at hf
          · cases hf; exact ⟨rfl, rfl, id⟩
          · split at hf
            · cases hf; exact ⟨rfl, rfl, id⟩
            · cases hf; exact ⟨rfl, rfl, fun _ => rfl⟩

/-- a node without closing references of its own, below requirement sets that all close one
level only (`once`, i.e. they come from `close()`), admits every field -/
theorem getReqSets_all_once (n : NodeSt) (parentReqs : List ReqSet) (parentConj conj : List ConjInfo)
    (hidden : Bool) (hn : n.reqDefIDs = [])
    (h : ∀ e ∈ parentReqs, e.once = true) :
    hasEvidenceForAll contains (getReqSets contains n parentReqs parentConj hidden) conj = true := by
  apply hasEvidenceForAll_inactive
  intro rs hrs
  unfold getReqSets at hrs
  simp only [hn, addOwn] at hrs
  obtain ⟨s0, hs0, hig, _, _⟩ := filterTop_mem _ _ _ _ hrs
  left
  rw [hig]
  have hs0' : s0 ∈ markIgnored parentReqs := by
    split at hs0
    · exact (List.mem_filter.mp hs0).1
    · exact hs0
  have : s0.once = true := by
    unfold markIgnored at hs0'
    rw [List.mem_map] at hs0'
    obtain ⟨x, hx, hxe⟩ := hs0'
    have hxo := h x hx
    simp [hxo] at hxe
    rw [← hxe]
  exact markIgnored_once parentReqs s0 hs0' this

/-! ### containsDefID -/

theorem containsDefID_refl (cont flat : List (Nat × Nat)) (n : Nat) (h : n ≠ 0) :
    containsDefID cont flat n n = true := by
  unfold containsDefID
  have : (n == 0) = false := by simpa using h
  simp [containsRec, this]

/-- without replaceIDs, a direct containment edge is followed -/
theorem containsDefID_parent (cont : List (Nat × Nat)) (p c : Nat) (hc : c ≠ 0) (hp : p ≠ 0)
    (hne : p ≠ c) (h : contOf cont c = p) : containsDefID cont [] p c = true := by
  unfold containsDefID
  have h1 : (c == 0) = false := by simpa using hc
  have h2 : (c == p) = false := by simpa using (Ne.symm hne)
  have h3 : (p == c) = false := by simpa using hne
  have h4 : (p == 0) = false := by simpa using hp
  have hf : (cont.length + 2) * ([] : List (Nat × Nat)).length.succ.succ + 2
      = ((cont.length + 2) * 2) + 1 + 1 := by simp
  simp only [List.length_nil, Nat.zero_add]
  rw [show (cont.length + 2) * 2 + 2 = ((cont.length + 2) * 2) + 1 + 1 from rfl]
  rw [containsRec]
  simp only [h1, h2, Bool.false_eq_true, if_false, List.filter_nil, List.any_nil, h, h3]
  rw [show (cont.length + 2) * 2 + 1 = ((cont.length + 2) * 2) + 1 from rfl, containsRec]
  simp [h4]

/-! ### the per-arc decision of checkTypos -/

theorem arcDenied_nonreg (cN cA : Nat → Nat → Bool) (base : List ReqSet) (nodeConj arcConj : List ConjInfo)
    (l : Label) (b : Bool) (h : l.isReg = false) :
    arcDenied cN cA base nodeConj l b arcConj = false := by
  unfold arcDenied
  cases b <;> simp [h]

theorem arcDenied_bottom (cN cA : Nat → Nat → Bool) (base : List ReqSet) (nodeConj arcConj : List ConjInfo)
    (l : Label) : arcDenied cN cA base nodeConj l true arcConj = false := by
  unfold arcDenied
  simp

theorem arcDenied_inactive (cN cA : Nat → Nat → Bool) (base : List ReqSet) (nodeConj arcConj : List ConjInfo)
    (l : Label) (b : Bool) (h : ∀ rs ∈ base, rs.ignored = true ∨ rs.removed = true) :
    arcDenied cN cA base nodeConj l b arcConj = false := by
  unfold arcDenied
  cases b
  · by_cases hl : l.isReg = true
    · simp only [hl, Bool.not_true, Bool.false_eq_true, if_false]
      rw [hasEvidenceForAll_inactive]
      · rfl
      · intro rs hrs
        rw [List.mem_map] at hrs
        obtain ⟨x, hx, hxe⟩ := hrs
        rcases h x hx with h1 | h1
        · left; rw [← hxe]; split <;> simp [h1]
        · right; rw [← hxe]; split <;> simp [h1]
    · simp [hl]
  · simp

/-- an ellipsis conjunct of the node that lies inside every requirement set opens the node -/
theorem arcDenied_ellipsis (cN cA : Nat → Nat → Bool) (base : List ReqSet) (nodeConj arcConj : List ConjInfo)
    (l : Label) (b : Bool) (h : ∀ rs ∈ base, hasParentEllipsis cN rs nodeConj ≠ 0) :
    arcDenied cN cA base nodeConj l b arcConj = false := by
  unfold arcDenied
  cases b
  · by_cases hl : l.isReg = true
    · simp only [hl, Bool.not_true, Bool.false_eq_true, if_false]
      rw [hasEvidenceForAll_inactive]
      · rfl
      · intro rs hrs
        rw [List.mem_map] at hrs
        obtain ⟨x, hx, hxe⟩ := hrs
        right
        have := h x hx
        rw [← hxe]
        simp [this]
    · simp [hl]
  · simp

theorem arcDenied_flat_aux (cN cA : Nat → Nat → Bool) (all L : List ReqSet) (nodeConj arcConj : List ConjInfo)
    (h : ∀ rs ∈ L, rs.ignored = false ∧ rs.removed = false ∧ rs.embed = 0) :
    ((L.map fun s => if hasParentEllipsis cN s nodeConj != 0 then { s with removed := true } else s).all
        fun rs => rs.ignored || rs.removed || hasEvidenceForOne cA all rs arcConj) =
      L.all fun rs => hasParentEllipsis cN rs nodeConj != 0 || arcConj.any (fun x => cA rs.id x.id) := by
  induction L with
  | nil => rfl
  | cons r rest ih =>
    obtain ⟨h1, h2, h3⟩ := h r (by simp)
    have ih' := ih (fun rs hrs => h rs (by simp [hrs]))
    simp only [List.map_cons, List.all_cons, ih']
    congr 1
    by_cases he : (hasParentEllipsis cN r nodeConj != 0) = true
    · simp [he, h1]
    · simp only [he, Bool.false_eq_true, if_false, h1, h2, Bool.false_or]
      rw [hasEvidenceForOne_no_embed all r arcConj h3]

/-- the decision for a regular, non-erroneous arc when every requirement set is active and
outside any embedding scope: denied iff some set has no direct evidence and no ellipsis -/
theorem arcDenied_flat (cN cA : Nat → Nat → Bool) (base : List ReqSet) (nodeConj arcConj : List ConjInfo)
    (l : Label) (hl : l.isReg = true)
    (h : ∀ rs ∈ base, rs.ignored = false ∧ rs.removed = false ∧ rs.embed = 0) :
    arcDenied cN cA base nodeConj l false arcConj =
      !(base.all fun rs => hasParentEllipsis cN rs nodeConj != 0 ||
          arcConj.any (fun x => cA rs.id x.id)) := by
  unfold arcDenied hasEvidenceForAll
  simp only [Bool.false_eq_true, if_false, hl, Bool.not_true]
  rw [arcDenied_flat_aux cN cA _ base nodeConj arcConj h]

end CueVerif.Typo
