/-
C11 — facts about the regular-expression matcher of Model/Yaml.lean: a match of a non-empty
string starts with a byte of `first r`; consequences for the four regexps of the code and for
`numberKind`.
-/
import CueVerif.Model.Yaml
namespace CueVerif.Yaml
open CueVerif.Quote (Bytes)

namespace RE

/-! ### smart constructors on `empty` -/

@[simp] theorem mkSeq_empty_left (r : RE) : mkSeq empty r = empty := by
  cases r <;> rfl

@[simp] theorem mkAlt_empty_empty : mkAlt empty empty = empty := rfl

/-! ### `inCls` -/

theorem inCls_append (xs ys : List (Nat × Nat)) (c : Nat) :
    inCls (xs ++ ys) c = (inCls xs c || inCls ys c) := by
  simp [inCls, List.any_append]

@[simp] theorem inCls_nil (c : Nat) : inCls [] c = false := rfl

/-! ### the empty language stays empty -/

theorem foldl_deriv_empty (s : Bytes) : s.foldl (fun r c => deriv c r) empty = empty := by
  induction s with
  | nil => rfl
  | cons c s ih => simpa [List.foldl_cons, deriv] using ih

theorem matches_empty_false (s : Bytes) : RE.empty.matches s = false := by
  simp [RE.matches, foldl_deriv_empty, nullable]

theorem matches_cons (r : RE) (c : Nat) (s : Bytes) :
    r.matches (c :: s) = (deriv c r).matches s := rfl

/-! ### a byte outside `first r` kills `r` -/

theorem deriv_not_first (r : RE) (c : Nat) : inCls (first r) c = false → deriv c r = empty := by
  induction r with
  | empty => intro _; rfl
  | eps => intro _; rfl
  | cls rs => intro h; simp [deriv, first] at *; simp [h]
  | seq a b iha ihb =>
    intro h
    simp only [first, inCls_append, Bool.or_eq_false_iff] at h
    obtain ⟨ha, hb⟩ := h
    simp only [deriv, iha ha, mkSeq_empty_left]
    cases hn : nullable a
    · simp
    · simp only [hn, if_true] at hb
      simp [ihb hb]
  | alt a b iha ihb =>
    intro h
    simp only [first, inCls_append, Bool.or_eq_false_iff] at h
    simp [deriv, iha h.1, ihb h.2]
  | star a iha =>
    intro h
    simp only [first] at h
    simp [deriv, iha h]

/-- a match of `c :: s` starts with a byte of `first r` -/
theorem matches_cons_first (r : RE) (c : Nat) (s : Bytes) :
    r.matches (c :: s) = true → RE.inCls (RE.first r) c = true := by
  intro h
  cases hc : inCls (first r) c
  · rw [matches_cons, deriv_not_first r c hc, matches_empty_false] at h
    cases h
  · rfl

/-! ### ranges covered by a byte set (decidable, so concrete instances go through `decide`) -/

/-- every byte of every range is in `set` -/
def covered (rs : List (Nat × Nat)) (set : Bytes) : Bool :=
  rs.all fun p => (List.range' p.1 (p.2 + 1 - p.1)).all fun x => set.contains x

theorem covered_sound (rs : List (Nat × Nat)) (set : Bytes) (c : Nat) :
    covered rs set = true → inCls rs c = true → set.contains c = true := by
  intro hcov hin
  simp only [inCls, List.any_eq_true, Bool.and_eq_true, decide_eq_true_eq] at hin
  obtain ⟨p, hp, hlo, hhi⟩ := hin
  simp only [covered, List.all_eq_true] at hcov
  exact hcov p hp c (by rw [List.mem_range'_1]; omega)

end RE
open RE

/-! ### the concrete regexps -/

example : b "+-" = [43, 45] := by decide

theorem yamlInt_first (c : Nat) (s : Bytes) :
    reYamlInt.matches (c :: s) = true → (b "+-0123456789").contains c = true := fun h =>
  covered_sound _ _ c (by decide) (matches_cons_first _ c s h)

theorem yamlFloat_first (c : Nat) (s : Bytes) :
    reYamlFloat.matches (c :: s) = true → (b "+-.0123456789").contains c = true := fun h =>
  covered_sound _ _ c (by decide) (matches_cons_first _ c s h)

theorem useQuote_first (c : Nat) (s : Bytes) :
    reUseQuote.matches (c :: s) = true → regexpStarts.contains c = true := fun h =>
  covered_sound _ _ c (by decide) (matches_cons_first _ c s h)

theorem anyOctal_first (c : Nat) (s : Bytes) :
    reAnyOctal.matches (c :: s) = true → regexpStarts.contains c = true := fun h =>
  covered_sound _ _ c (by decide) (matches_cons_first _ c s h)

theorem matches_nil_yamlInt : reYamlInt.matches [] = false := by decide
theorem matches_nil_yamlFloat : reYamlFloat.matches [] = false := by decide
theorem matches_nil_useQuote : reUseQuote.matches [] = false := by decide
theorem matches_nil_anyOctal : reAnyOctal.matches [] = false := by decide

/-! ### `numberKind` -/

/-- a byte of `xs` is a byte of `ys` when `xs ⊆ ys` (checked by evaluation) -/
theorem contains_of_all {xs ys : Bytes} (c : Nat) :
    xs.all (fun x => ys.contains x) = true → xs.contains c = true → ys.contains c = true := by
  intro hall hc
  simp only [List.all_eq_true] at hall
  exact hall c (by simpa using hc)

theorem numberKind_start (s : Bytes) : numberKind s ≠ .illegal →
    ∃ c t, s = c :: t ∧ (b "+-.0123456789").contains c = true := by
  intro h
  cases s with
  | nil => exact absurd rfl h
  | cons c t =>
    refine ⟨c, t, rfl, ?_⟩
    simp only [numberKind] at h
    by_cases h95 : (c == 95) = true
    · simp [h95] at h
    · have hne : c ≠ 95 := by simpa using h95
      have hf : (c :: t).filter (· != 95) = c :: t.filter (· != 95) := by
        simp [hne]
      simp only [h95, hf] at h
      by_cases hi : reYamlInt.matches (c :: t.filter (· != 95)) = true
      · exact contains_of_all c (by decide) (yamlInt_first c _ hi)
      · by_cases hfl : reYamlFloat.matches (c :: t.filter (· != 95)) = true
        · exact yamlFloat_first c _ hfl
        · simp [hi, hfl] at h

theorem numberKind_start_nonString (s : Bytes) : numberKind s ≠ .illegal →
    ∃ c t, s = c :: t ∧ nonStringStarts.contains c = true := by
  intro h
  obtain ⟨c, t, hs, hc⟩ := numberKind_start s h
  exact ⟨c, t, hs, contains_of_all c (by decide) hc⟩

end CueVerif.Yaml
