/-
Length lemmas for the scanner model (C09): every sub-scanner returns a position that is not
before the position it was given.  Core Lean only.
-/
import CueVerif.Spec.Scan
import CueVerif.Proofs.Utf8
namespace CueVerif.Scan
open CueVerif.Quote

theorem width_pos (b : Nat) (t : Str) : 1 ≤ width (b :: t) := by
  have := decodeRune_width_pos b t
  unfold width; omega

theorem drop_width_lt (b : Nat) (t : Str) : ((b :: t).drop (width (b :: t))).length ≤ t.length := by
  have := width_pos b t
  simp only [List.length_drop, List.length_cons]; omega

theorem skipWs_len (i : Bool) : ∀ cur, (skipWs i cur).length ≤ cur.length := by
  intro cur
  induction cur with
  | nil => simp [skipWs]
  | cons b rest ih =>
    unfold skipWs
    repeat' split
    all_goals simp only [List.length_cons] <;> omega

theorem skipLine_len : ∀ cur, (skipLine cur).1.length ≤ cur.length := by
  intro cur
  induction cur with
  | nil => simp [skipLine]
  | cons b rest ih =>
    unfold skipLine
    split
    · simp
    · simp only [List.length_cons]; omega

theorem consumeN_len (c : Nat) : ∀ n cur, (consumeN c n cur).2.length ≤ cur.length := by
  intro n
  induction n with
  | zero => intro cur; simp [consumeN]
  | succ n ih =>
    intro cur
    cases cur with
    | nil => simp [consumeN]
    | cons b rest =>
      unfold consumeN
      split
      · have := ih rest; simp only [List.length_cons]; omega
      · simp

theorem closeLoop_len (q : QI) : ∀ m i cur, (closeLoop q m i cur).2.length ≤ cur.length := by
  intro m
  induction m with
  | zero => intro i cur; simp [closeLoop]
  | succ m ih =>
    intro i cur
    cases cur with
    | nil => simp [closeLoop]
    | cons b rest =>
      unfold closeLoop
      dsimp only
      have := ih (i + 1) rest
      repeat' split
      all_goals simp only [List.length_cons] <;> omega

theorem consumeStringClose_len (q : QI) (ch : Nat) (rest : Str) :
    (consumeStringClose q ch rest).2.length ≤ rest.length := by
  unfold consumeStringClose
  split
  · simp
  · exact closeLoop_len q _ _ _

theorem escDigits_len (base : Nat) : ∀ n cur x, (escDigits base n cur x).1.length ≤ cur.length := by
  intro n
  induction n with
  | zero => intro cur x; simp [escDigits]
  | succ n ih =>
    intro cur x
    cases cur with
    | nil => simp [escDigits]
    | cons b rest =>
      unfold escDigits
      dsimp only
      split
      · simp
      · have := ih rest (x * base + NumLit.digitVal b); simp only [List.length_cons]; omega

theorem scanEscape_len (q : QI) (cur : Str) : (scanEscape q cur).1.length ≤ cur.length := by
  have h0 := consumeN_len 35 q.numHash cur
  unfold scanEscape
  dsimp only
  split
  · exact h0
  · split
    · simp
    · rename_i b rest heq
      rw [heq] at h0
      simp only [List.length_cons] at h0
      have e1 := escDigits_len 8 3 (b :: rest) 0
      have e2 := escDigits_len 16 2 rest 0
      have e3 := escDigits_len 16 4 rest 0
      have e4 := escDigits_len 16 8 rest 0
      simp only [List.length_cons] at e1
      repeat' split
      all_goals simp only [escFinish, List.length_cons] <;> omega

theorem identLoop_len (U : Uni) : ∀ cur skip, (identLoop U skip cur).length ≤ cur.length := by
  intro cur
  induction cur with
  | nil => intro skip; cases skip <;> simp [identLoop]
  | cons b rest ih =>
    intro skip
    cases skip with
    | succ k => unfold identLoop; have := ih k; simp only [List.length_cons]; omega
    | zero =>
      unfold identLoop
      split
      · have := ih (width (b :: rest) - 1); simp only [List.length_cons]; omega
      · simp

/-- an identifier character at the head is consumed -/
theorem identLoop_lt (U : Uni) (b : Nat) (rest : Str) (h : identPartAt U (b :: rest) = true) :
    (identLoop U 0 (b :: rest)).length ≤ rest.length := by
  unfold identLoop
  simp only [h, if_true]
  exact identLoop_len U rest _

theorem scanFieldIdent_len (U : Uni) (cur : Str) : (scanFieldIdent U cur).length ≤ cur.length := by
  unfold scanFieldIdent
  split
  · rename_i rest
    split
    · simp
    · have := identLoop_len U rest 0; simp only [List.length_cons]; omega
  · exact identLoop_len U cur 0

theorem recoverParen_len : ∀ cur o, (recoverParen o cur).length ≤ cur.length := by
  intro cur
  induction cur with
  | nil => intro o; simp [recoverParen]
  | cons b rest ih =>
    intro o
    unfold recoverParen
    have h1 := ih (o + 1)
    have h2 := ih (o - 1)
    have h3 := ih o
    repeat' split
    all_goals simp only [List.length_cons] <;> omega

theorem strStep_stop (q : QI) (ca : Bool) (lp : Str) (hasCR err : Bool) (b : Nat) (rest : Str)
    (w : Nat) (r1 : Str) (cl : Bool × Str) (r : StrRes)
    (h : strStep q ca lp hasCR err b rest w r1 cl = .stop r) : r.rest.length ≤ cl.2.length := by
  unfold strStep at h
  dsimp only at h
  repeat' split at h
  all_goals first
    | (cases h; exact Nat.le_refl _)
    | (cases h; exact scanEscape_len _ _)
    | (exact absurd h (by simp))

theorem strLoop_len : ∀ cur q ca lp hasCR err skip,
    (strLoop q ca lp hasCR err skip cur).rest.length ≤ cur.length := by
  intro cur
  induction cur with
  | nil => intro q ca lp hasCR err skip; cases skip <;> simp [strLoop]
  | cons b rest ih =>
    intro q ca lp hasCR err skip
    cases skip with
    | succ k => unfold strLoop; have := ih q ca (b :: lp) hasCR err k; simp only [List.length_cons]; omega
    | zero =>
      unfold strLoop
      have hd := drop_width_lt b rest
      have hc := consumeStringClose_len q b ((b :: rest).drop (width (b :: rest)))
      split
      · exact Nat.le_refl _
      · dsimp only
        split
        · rename_i r hstep
          have := strStep_stop _ _ _ _ _ _ _ _ _ _ _ hstep
          split at this <;> simp only [List.length_cons] at * <;> omega
        · exact Nat.le_trans (ih _ _ _ _ _ _) (Nat.le_succ _)

end CueVerif.Scan
