/-
C13 — the target language `CC` and the transcribed builders (Model/JsonSchemaCC.lean):
denotation lemmas, the kind skeleton `finalize` on `CC`, and the step lemma "adding a per-type
constraint conjoins exactly its condition on instances of that type".  Core Lean only.
-/
import CueVerif.Model.JsonSchemaCC
import CueVerif.Proofs.JsonSchemaSkel
namespace CueVerif.CCm
open CueVerif.JS CueVerif.Skel

variable (re : String → String → Bool)

/-! ## denotation of the list-shaped values -/

theorem accCount_eq (vs : List CC) (j : Json) : accCount re vs j = vs.countP (acc re · j) := by
  induction vs with
  | nil => simp [accCount]
  | cons v r ih =>
    rw [accCount, ih, List.countP_cons]
    omega

theorem acc_foldAnd (a : CC) (r : List CC) (j) :
    acc re (foldAnd a r) j = (acc re a j && r.all (acc re · j)) := by
  induction r generalizing a with
  | nil => simp [foldAnd]
  | cons b r ih => simp [foldAnd, ih, acc, Bool.and_assoc]

theorem acc_foldOr (a : CC) (r : List CC) (j) :
    acc re (foldOr a r) j = (acc re a j || r.any (acc re · j)) := by
  induction r generalizing a with
  | nil => simp [foldOr]
  | cons b r ih => simp [foldOr, ih, acc, Bool.or_assoc]

theorem acc_matchN (b : Bound) (vs : List CC) (j : Json) :
    acc re (.matchN b vs) j = b.ok (vs.countP (acc re · j)) := by
  rw [acc, accCount_eq]

theorem lenCC_eq (l : List CC) : lenCC l = l.length := by
  induction l with
  | nil => rfl
  | cons _ r ih => simp [lenCC, ih]

/-- `[_, …(n), ...]` = at least `n` elements -/
theorem accPrefix_tops (n : Nat) (xs : List Json) :
    accPrefix re (List.replicate n .top) xs = decide (n ≤ xs.length) := by
  induction n generalizing xs with
  | zero => simp [accPrefix]
  | succ n ih =>
    cases xs with
    | nil => simp [List.replicate, accPrefix]
    | cons x r => simp [List.replicate, accPrefix, acc, ih]

/-! ## the stable sort only permutes -/

theorem sortListsLast_all (p : CC → Bool) (l : List CC) :
    (sortListsLast l).all p = l.all p := by
  unfold sortListsLast
  induction l with
  | nil => rfl
  | cons a r ih =>
    rw [List.all_append] at ih ⊢
    cases h : a.isListLit <;> simp [h, ← ih, Bool.and_assoc, Bool.and_left_comm]

theorem sortListsLast_mem (c : CC) (l : List CC) : c ∈ sortListsLast l ↔ c ∈ l := by
  unfold sortListsLast
  rw [List.mem_append, List.mem_filter, List.mem_filter]
  constructor
  · rintro (⟨h, _⟩ | ⟨h, _⟩) <;> exact h
  · intro h
    cases hc : c.isListLit
    · exact Or.inl ⟨h, by simp⟩
    · exact Or.inr ⟨h, rfl⟩

theorem sortListsLast_nil (l : List CC) : sortListsLast l = [] ↔ l = [] := by
  constructor
  · intro h
    cases l with
    | nil => rfl
    | cons a r =>
      have : a ∈ sortListsLast (a :: r) := (sortListsLast_mem a _).2 (List.mem_cons_self ..)
      rw [h] at this; cases this
  · rintro rfl; rfl

theorem sorted_all (st : TSt) (t : CoreType) (p : CC → Bool) :
    (st.sorted t).all p = (st.types t).all p := by
  unfold TSt.sorted
  split
  · exact sortListsLast_all p _
  · rfl

theorem sorted_mem (st : TSt) (t : CoreType) (c : CC) : c ∈ st.sorted t ↔ c ∈ st.types t := by
  unfold TSt.sorted
  split
  · exact sortListsLast_mem c _
  · exact Iff.rfl

theorem sorted_nil (st : TSt) (t : CoreType) : st.sorted t = [] ↔ st.types t = [] := by
  unfold TSt.sorted
  split
  · exact sortListsLast_nil _
  · exact Iff.rfl

/-! ## `finalize` on `CC` -/

/-- every per-type constraint accepts only instances of its own core type (each transcribed
builder adds such a constraint: `Own_addC`) -/
def Own (st : TSt) : Prop :=
  ∀ t c, c ∈ st.types t → ∀ j, acc re c j = true → coreOf j = t

theorem acc_finalize (st : TSt) (j : Json) :
    acc re (finalize st) j = (!st.allowed.isEmpty &&
      (st.all.all (acc re · j) &&
        ((disjuncts st).isEmpty || (disjuncts st).any (acc re · j)))) := by
  unfold finalize
  cases st.allowed.isEmpty with
  | true => simp [acc]
  | false =>
    simp only [Bool.false_eq_true, ↓reduceIte]
    cases hd : disjuncts st with
    | nil =>
      simp only [List.append_nil]
      cases st.all with
      | nil => simp [acc]
      | cons c cs => simp [acc_foldAnd]
    | cons d ds =>
      cases st.all with
      | nil => simp [acc_foldAnd, acc_foldOr]
      | cons c cs => simp [acc_foldAnd, acc_foldOr, List.all_append, Bool.and_assoc]

theorem any_core_filterMap (f : CoreType → Option CC) (j : Json)
    (hown : ∀ t v, f t = some v → acc re v j = true → t = coreOf j) :
    (CoreType.all.filterMap f).any (acc re · j) = (f (coreOf j)).any (acc re · j) := by
  rw [Skel.any_filterMap, Bool.eq_iff_iff]
  constructor
  · intro h
    obtain ⟨t, _, ht⟩ := List.any_eq_true.1 h
    cases hf : f t with
    | none => simp [hf] at ht
    | some v =>
      simp only [hf, Option.any_some] at ht
      rw [← hown t v hf ht, hf]; simpa using ht
  · intro h
    exact List.any_eq_true.2 ⟨coreOf j, Skel.mem_CoreType_all _, h⟩

theorem disjunctFor_own (st : TSt) (hOwn : Own re st) (t : CoreType) (v : CC) (j : Json)
    (h : disjunctFor st t = some v) (ha : acc re v j = true) : t = coreOf j := by
  unfold disjunctFor at h
  split at h
  · rename_i c r hl
    split at h
    · cases h
      rw [acc_foldAnd] at ha
      have hc : c ∈ st.types t := (sorted_mem st t c).1 (by rw [hl]; exact List.mem_cons_self ..)
      simp only [Bool.and_eq_true] at ha
      exact (hOwn t c hc j ha.1).symm
    · cases h
  · split at h
    · cases h
      simp [acc] at ha
      exact ha.symm
    · cases h

theorem disjunctFor_self (st : TSt) (j : Json) :
    (disjunctFor st (coreOf j)).any (acc re · j) =
      (hasCore st.allowed (coreOf j) &&
        (hasCore st.known (coreOf j) || !(st.types (coreOf j)).isEmpty) &&
        (st.types (coreOf j)).all (acc re · j)) := by
  unfold disjunctFor
  cases hl : st.sorted (coreOf j) with
  | nil =>
    have ht := (sorted_nil st _).1 hl
    cases h1 : hasCore st.allowed (coreOf j) <;> cases h2 : hasCore st.known (coreOf j) <;>
      simp [acc, ht]
  | cons p r =>
    have hne : (st.types (coreOf j)).isEmpty = false := by
      cases ht : st.types (coreOf j) with
      | nil => rw [(sorted_nil st _).2 ht] at hl; cases hl
      | cons _ _ => rfl
    have hall := sorted_all st (coreOf j) (acc re · j)
    rw [hl] at hall
    cases h1 : hasCore st.allowed (coreOf j)
    · simp
    · simp only [↓reduceIte, Option.any_some, acc_foldAnd, hne, Bool.not_false, Bool.or_true,
        Bool.and_true, Bool.true_and]
      simpa using hall

theorem disjunctFor_isSome (st : TSt) (t : CoreType)
    (ha : hasCore st.allowed t = true) (hk : hasCore st.known t = true) :
    (disjunctFor st t).isSome = true := by
  unfold disjunctFor
  split <;> simp [ha, hk]

/-- THE KIND SKELETON on `CC` (same statement as `Skel.finalize_accepts`, now for the syntactic
constraints the transcribed builders produce; `hknown` is needed at the instance only) -/
theorem finalize_acc (st : TSt) (j : Json) (hOwn : Own re st)
    (hknown : st.all.all (acc re · j) = true → hasCore st.known (coreOf j) = true)
    (hsub : ∀ t, hasCore st.allowed t = true → hasCore st.known t = true) :
    acc re (finalize st) j =
      (hasCore st.allowed (coreOf j) && st.all.all (acc re · j) &&
        (st.types (coreOf j)).all (acc re · j)) := by
  rw [acc_finalize]
  cases hemp : st.allowed.isEmpty with
  | true => simp [Skel.hasCore_of_isEmpty _ hemp]
  | false =>
    simp only [Bool.not_false, Bool.true_and]
    cases hneed : needsTypeDisjunction st with
    | false =>
      simp only [disjuncts, hneed, Bool.false_eq_true, ↓reduceIte, List.isEmpty_nil, Bool.true_or,
        Bool.and_true]
      cases hall : st.all.all (acc re · j) with
      | false => simp
      | true =>
        simp only [needsTypeDisjunction, Bool.or_eq_false_iff, Bool.not_eq_false',
          List.any_eq_false] at hneed
        have hk := hknown hall
        rw [← Skel.hasCore_congr _ _ ((Skel.KSet.beq_iff _ _).1 hneed.1)] at hk
        have ht := hneed.2 (coreOf j) (Skel.mem_CoreType_all _)
        simp only [hk, Bool.and_true, Bool.not_eq_true, Bool.not_eq_false'] at ht
        rw [hk]
        simp only [List.isEmpty_iff] at ht
        simp [ht]
    | true =>
      simp only [disjuncts, hneed, ↓reduceIte]
      obtain ⟨t0, ht0⟩ := Skel.exists_hasCore_of_not_isEmpty _ hemp
      have hsome := disjunctFor_isSome st t0 ht0 (hsub t0 ht0)
      have hne : (CoreType.all.filterMap (disjunctFor st)).isEmpty = false := by
        obtain ⟨v, hv⟩ := Option.isSome_iff_exists.1 hsome
        have : v ∈ CoreType.all.filterMap (disjunctFor st) :=
          List.mem_filterMap.2 ⟨t0, Skel.mem_CoreType_all _, hv⟩
        cases hd : CoreType.all.filterMap (disjunctFor st) with
        | nil => rw [hd] at this; cases this
        | cons d ds => rfl
      rw [hne, any_core_filterMap re (disjunctFor st) j
          (fun t v h ha => disjunctFor_own re st hOwn t v j h ha), disjunctFor_self]
      cases h1 : hasCore st.allowed (coreOf j) with
      | false => simp
      | true => simp [hsub _ h1]

/-! ## what a state accepts, and the step lemma for per-type constraints -/

/-- the meaning of a state: what `finalize` will accept (right-hand side of `finalize_acc`) -/
def stAcc (st : TSt) (j : Json) : Bool :=
  hasCore st.allowed (coreOf j) && st.all.all (acc re · j) && (st.types (coreOf j)).all (acc re · j)

/-- `state.add(n, t, c)` conjoins `c` on instances of core type `t` and nothing elsewhere -/
theorem stAcc_addC (st : TSt) (t : CoreType) (c : CC) (j : Json) (hc : c.isTop = false) :
    stAcc re (addC st t c) j = (stAcc re st j && (coreOf j != t || acc re c j)) := by
  unfold stAcc addC
  simp only [hc, Bool.false_eq_true, ↓reduceIte]
  cases ht : (coreOf j == t)
  · simp [ht, bne]
  · simp [ht, bne, List.all_append, Bool.and_assoc]

/-- … and `_` is dropped, which is harmless -/
theorem stAcc_addC_top (st : TSt) (t : CoreType) (j : Json) :
    stAcc re (addC st t .top) j = stAcc re st j := by
  simp [addC, CC.isTop]

theorem Own_init (T : KSet) : Own re (TSt.init T) := by
  intro t c hc
  simp [TSt.init] at hc

theorem Own_addC (st : TSt) (t : CoreType) (c : CC) (h : Own re st)
    (hc : ∀ j, acc re c j = true → coreOf j = t) : Own re (addC st t c) := by
  intro t' c' hm j ha
  unfold addC at hm
  split at hm
  · exact h t' c' hm j ha
  · simp only at hm
    split at hm
    · rename_i heq
      have : t' = t := by simpa using heq
      subst this
      rcases List.mem_append.1 hm with hm | hm
      · exact h _ c' hm j ha
      · simp only [List.mem_singleton] at hm
        subst hm
        exact hc j ha
    · exact h t' c' hm j ha

end CueVerif.CCm
