import CueVerif.Proofs.ModCacheStep2
/-! C16: `Inv` is preserved by the transitions of each program point (part 3) -/
namespace CueVerif.ModCache

theorem inv_lMark {n s t c s' o} (h : Inv n s) (hp : s.pc t = .lMark)
    (hn : next n s t c = some (s', o)) : Inv n s' := by
  open_next
  all_goals step_pre
  all_goals step_main

theorem inv_uCheck {n s t c s' o} (h : Inv n s) (hp : s.pc t = .uCheck)
    (hn : next n s t c = some (s', o)) : Inv n s' := by
  open_next
  all_goals step_pre
  all_goals step_main

theorem inv_uMkdir {n s t c s' o} (h : Inv n s) (hp : s.pc t = .uMkdir)
    (hn : next n s t c = some (s', o)) : Inv n s' := by
  open_next
  all_goals step_pre
  all_goals step_main

theorem inv_uCreate {n s t c s' o k} (h : Inv n s) (hp : s.pc t = .uCreate k)
    (hn : next n s t c = some (s', o)) : Inv n s' := by
  open_next
  all_goals step_pre
  all_goals step_main

theorem inv_uWrite {n s t c s' o k} (h : Inv n s) (hp : s.pc t = .uWrite k)
    (hn : next n s t c = some (s', o)) : Inv n s' := by
  open_next
  all_goals step_pre
  all_goals step_main

theorem inv_fUnmark {n s t c s' o} (h : Inv n s) (hp : s.pc t = .fUnmark)
    (hn : next n s t c = some (s', o)) : Inv n s' := by
  open_next
  all_goals step_pre
  all_goals step_main

theorem inv_fReadOnly {n s t c s' o} (h : Inv n s) (hp : s.pc t = .fReadOnly)
    (hn : next n s t c = some (s', o)) : Inv n s' := by
  open_next
  all_goals step_pre
  all_goals step_main

theorem inv_fUnlock {n s t c s' o k} (h : Inv n s) (hp : s.pc t = .fUnlock k)
    (hn : next n s t c = some (s', o)) : Inv n s' := by
  open_next
  all_goals step_pre
  all_goals step_main

theorem inv_eRmAll {n s t c s' o} (h : Inv n s) (hp : s.pc t = .eRmAll)
    (hn : next n s t c = some (s', o)) : Inv n s' := by
  open_next
  all_goals step_pre
  all_goals step_main

theorem inv_eUnmark {n s t c s' o} (h : Inv n s) (hp : s.pc t = .eUnmark)
    (hn : next n s t c = some (s', o)) : Inv n s' := by
  open_next
  all_goals step_pre
  all_goals step_main

end CueVerif.ModCache
