/-
Proofs for the "number spellings agree" part of C09: the scanner's number automaton
(`scannerAccepts`) and `literal.ParseNum` (`parseNum`) accept the same unsigned spellings
with the same int/float kind, EXCEPT for spellings beginning with "0_", which
`literal.ParseNum` may accept ("0_1.5") and the scanner never lexes as one number.
Core Lean only.
-/
import CueVerif.Model.NumLit
namespace CueVerif.NumLit

/-! ### acceptance of the two result shapes -/

/-- the scanner stopped at the end of input without reporting an error -/
def accS (res : Kind × Str × Bool) : Option Kind :=
  if res.2.1.isEmpty && !res.2.2 then some res.1 else none

/-- what `ParseNum` does with the result of `(*NumInfo).scanNumber` -/
def accL (res : Option (Bool × Str × Bool)) : Option Kind :=
  match res with
  | none => none
  | some (isFloat, fin, e) =>
    if e then none else if fin.length > 1 then none else some (kindOf isFloat)

theorem kindOf_beq (tok : Kind) : kindOf (tok == .float) = tok := by
  cases tok <;> rfl

theorem accL_none : accL none = none := rfl

/-! ### the mantissa loop -/

theorem sMant_eq (base last : Nat) (s : Str) :
    sMant base last s = ((lMant base last s).1, (lMant base last s).2.2) := by
  induction s generalizing last with
  | nil => rfl
  | cons c cs ih =>
    unfold sMant lMant
    split
    · simp only [ih c]
    · rfl

/-- a run that starts right after a '_' and sees no digit ends in the "illegal '_'" error -/
theorem lMant_underscore (base : Nat) (s : Str) :
    (lMant base 95 s).2.1 = false → (lMant base 95 s).2.2 = true := by
  induction s with
  | nil => simp [lMant]
  | cons c cs ih =>
    unfold lMant
    split
    · intro hh
      simp only [Bool.or_eq_false_iff, bne_eq_false_iff_eq] at hh
      have hc : c = 95 := by simpa using hh.2
      subst hc
      simp [ih hh.1]
    · simp

/-- everything the agreement proof needs to know about one run of the mantissa loop -/
theorem lMant_spec (base last : Nat) (s : Str) :
    (lMant base last s).1.length ≤ s.length ∧
    ((lMant base last s).2.1 = true → (lMant base last s).1.length < s.length) ∧
    ((lMant base last s).2.1 = false → (lMant base last s).2.2 = false →
      (lMant base last s).1 = s) ∧
    (nulErr (lMant base last s).1 = true →
      (lMant base last s).2.2 = true ∨ (lMant base last s).1 = s) ∧
    ((lMant base last s).2.1 = true → ∃ d t, s = d :: t ∧ digitVal d < base) := by
  induction s generalizing last with
  | nil => simp [lMant]
  | cons c cs ih =>
    unfold lMant
    split
    · rename_i hc
      obtain ⟨h1, -, -, h4, -⟩ := ih c
      refine ⟨?_, ?_, ?_, ?_, ?_⟩
      · simp only [List.length_cons]; omega
      · intro _; simp only [List.length_cons]; omega
      · intro hh he
        exfalso
        simp only [Bool.or_eq_false_iff] at hh he
        have hc95 : c = 95 := by simpa using hh.2
        subst hc95
        have := lMant_underscore base cs hh.1
        rw [this] at he
        simp at he
      · intro hn
        simp only at hn ⊢
        rcases h4 hn with h | h
        · left; simp [h]
        · left
          rw [h] at hn
          simp [hn]
      · intro _; exact ⟨c, cs, rfl, hc⟩
    · simp

/-! ### stage by stage agreement

`hinv : nulErr cur = true → err = true` is the invariant "the NUL error has been recorded
for the current character" (both `next` functions report NUL when the character is read). -/

@[simp] theorem chL_nil : chL [] = 0 := rfl
@[simp] theorem chL_cons (c : Nat) (t : Str) : chL (c :: t) = c := rfl
@[simp] theorem lNext_nil : lNext [] = ([], false) := rfl
@[simp] theorem lNext_cons (c : Nat) (t : Str) : lNext (c :: t) = (t, nulErr t) := rfl
@[simp] theorem nulErr_nil : nulErr [] = false := rfl
@[simp] theorem nulErr_zero (t : Str) : nulErr (0 :: t) = true := rfl

theorem nulErr_cons_ne {c : Nat} {t : Str} (hc : c ≠ 0) : nulErr (c :: t) = false := by
  unfold nulErr
  split
  · rename_i h; simp only [List.cons.injEq] at h; exact absurd h.1 hc
  · rfl

theorem exit_agree (tok : Kind) (r : Str) (E : Bool) (hinv : nulErr r = true → E = true) :
    accS (tok, r, E) = accL (lExit (tok == .float) r E) := by
  cases r with
  | nil => cases E <;> simp [accS, accL, lExit, kindOf_beq]
  | cons c t =>
    by_cases hc : c = 0
    · subst hc
      have : E = true := hinv rfl
      subst this
      simp [accS, accL, lExit]
    · simp [accS, accL, lExit, hc]

/-- the multiplier branch: after the optional 'i' -/
theorem mul_tail_agree (cur2 : Str) (E : Bool) (hinv : nulErr cur2 = true → E = true) :
    accS (Kind.int, cur2, E) =
      accL (if chL cur2 != 0 then none else some (false, cur2, E)) := by
  have := exit_agree .int cur2 E hinv
  have hk : (Kind.int == Kind.float) = false := rfl
  simpa [lExit, hk] using this

theorem sign_agree (cs : Str) : sSign cs = lSign cs := by
  cases cs with
  | nil => rfl
  | cons d t =>
    unfold sSign lSign
    split
    · rename_i heq; simp only [List.cons.injEq] at heq; obtain ⟨rfl, rfl⟩ := heq; simp
    · rename_i heq; simp only [List.cons.injEq] at heq; obtain ⟨rfl, rfl⟩ := heq; simp
    · rename_i h1 h2
      have hd1 : d ≠ 45 := fun h => h1 t (by rw [h])
      have hd2 : d ≠ 43 := fun h => h2 t (by rw [h])
      simp [hd1, hd2]

theorem lSign_inv (cs : Str) (hn : nulErr (lSign cs).1 = true) :
    nulErr cs = true ∨ (lSign cs).2 = true := by
  unfold lSign at hn ⊢
  by_cases hc : (chL cs == 45 || chL cs == 43) = true
  · rw [if_pos hc] at hn ⊢
    cases cs with
    | nil => simp at hn
    | cons d t => right; simpa using hn
  · rw [if_neg hc] at hn ⊢
    left; exact hn

theorem expDigits_agree (cur : Str) (err : Bool) (hinv : nulErr cur = true → err = true) :
    accS (sExpDigits cur err) = accL (lExpDigits cur err) := by
  unfold sExpDigits lExpDigits
  rw [sMant_eq]
  obtain ⟨-, h2, h3, h4, h5⟩ := lMant_spec 10 0 cur
  generalize lMant 10 0 cur = M at *
  obtain ⟨r, h, e⟩ := M
  simp only at h2 h3 h4 h5 ⊢
  cases h with
  | false =>
    simp only [Bool.not_false, ↓reduceIte, accL_none]
    cases e with
    | true => simp [accS]
    | false =>
      have hr := h3 rfl rfl
      subst hr
      cases r with
      | nil => simp [accS]
      | cons d t => simp [accS]
  | true =>
    obtain ⟨d, t, rfl, hd⟩ := h5 rfl
    have hd' : ¬ (10 ≤ digitVal d) := by omega
    simp only [hd', decide_false, Bool.or_false, Bool.not_true, Bool.false_eq_true, ↓reduceIte]
    apply exit_agree Kind.float r (err || e)
    intro hn
    rcases h4 hn with h | h
    · simp [h]
    · have := h2 rfl
      rw [h] at this
      omega

theorem exponent_agree (tok : Kind) (cur : Str) (err : Bool)
    (hinv : nulErr cur = true → err = true) :
    accS (sExponent tok cur err) = accL (lExponent (tok == .float) cur err) := by
  cases cur with
  | nil =>
    have := exit_agree tok [] err hinv
    simpa [sExponent, lExponent, isMul] using this
  | cons c cs =>
    unfold sExponent lExponent
    simp only [chL_cons]
    by_cases hm : isMul c = true
    · simp only [hm, ↓reduceIte, lNext_cons]
      cases cs with
      | nil => simpa using mul_tail_agree [] err (by simp)
      | cons d ds =>
        by_cases hd : d = 105
        · subst hd
          have h1 : nulErr (105 :: ds) = false := nulErr_cons_ne (by decide)
          simp only [chL_cons, BEq.rfl, ↓reduceIte, lNext_cons, h1, Bool.or_false]
          exact mul_tail_agree ds _ (by intro h; simp [h])
        · have hd' : (d == 105) = false := by simpa using hd
          simp only [chL_cons, hd', Bool.false_eq_true, ↓reduceIte, Bool.or_false]
          split
          · rename_i heq
            simp only [List.cons.injEq] at heq
            exact absurd heq.1 hd
          · exact mul_tail_agree (d :: ds) _ (by intro h; simp [h])
    · have hm' : isMul c = false := by simpa using hm
      simp only [hm', Bool.false_eq_true, ↓reduceIte]
      by_cases he : (c == 101 || c == 69) = true
      · simp only [he, ↓reduceIte, lNext_cons, sign_agree]
        apply expDigits_agree
        intro hn
        rcases lSign_inv cs hn with h | h <;> simp [h]
      · have he' : (c == 101 || c == 69) = false := by simpa using he
        simp only [he', Bool.false_eq_true, ↓reduceIte]
        exact exit_agree tok (c :: cs) err hinv

theorem lMant_inv (base last : Nat) (s : Str) (hn : nulErr (lMant base last s).1 = true) :
    nulErr s = true ∨ (lMant base last s).2.2 = true := by
  rcases (lMant_spec base last s).2.2.2.1 hn with h | h
  · exact Or.inr h
  · rw [h] at hn; exact Or.inl hn

theorem lMant_stop (base last c : Nat) (t : Str) (hc : ¬ digitVal c < base) :
    lMant base last (c :: t) = (c :: t, false, last == 95) := by
  unfold lMant
  simp [hc]

theorem fraction_agree (tok : Kind) (cur : Str) (err : Bool)
    (hinv : nulErr cur = true → err = true) :
    accS (sFraction tok cur err) = accL (lFraction (tok == .float) cur err) := by
  unfold sFraction lFraction
  split
  · -- "..": the scanner leaves the range operator, the literal parser fails at `exit:`
    rename_i t
    have h1 : lMant 10 0 (46 :: t) = (46 :: t, false, false) :=
      lMant_stop 10 0 46 t (by decide)
    simp [h1, lExponent, isMul, lExit, accS, accL]
  · rename_i cs _
    simp only [chL_cons, BEq.rfl, ↓reduceIte, lNext_cons]
    rw [sMant_eq]
    have hi := lMant_inv 10 0 cs
    generalize lMant 10 0 cs = M at *
    obtain ⟨r, h, e⟩ := M
    simp only at hi ⊢
    have := exponent_agree .float r (err || nulErr cs || e) (by
      intro hn
      rcases hi hn with h | h <;> simp [h])
    simpa using this
  · rename_i h1 h2
    have hc : (chL cur == 46) = false := by
      cases cur with
      | nil => rfl
      | cons c cs =>
        simp only [chL_cons, beq_eq_false_iff_ne, ne_eq]
        intro hc
        exact h2 cs (by rw [hc])
    simp only [hc, Bool.false_eq_true, ↓reduceIte]
    exact exponent_agree tok cur err hinv

theorem prefixed_core (n : Nat) (r : Str) (h e err : Bool)
    (h2 : h = true → r.length < n) (h3 : h = false → e = false → r.length = n)
    (hi : nulErr r = true → err = true ∨ e = true) :
    accS (Kind.int, r, err || e || decide (n + 2 - r.length ≤ 2)) =
      accL (if !h then none else lExit false r (err || e)) := by
  cases h with
  | false =>
    simp only [Bool.not_false, ↓reduceIte, accL_none]
    cases e with
    | true => simp [accS]
    | false =>
      have hr := h3 rfl rfl
      have : n + 2 - r.length ≤ 2 := by omega
      simp [accS, this]
  | true =>
    have hlt := h2 rfl
    have hd : ¬ (n + 2 - r.length ≤ 2) := by omega
    simp only [hd, decide_false, Bool.or_false, Bool.not_true, Bool.false_eq_true, ↓reduceIte]
    apply exit_agree Kind.int r
    intro hn
    rcases hi hn with h | h <;> simp [h]

theorem prefixed_agree (base x : Nat) (cs' : Str) (err : Bool) :
    accS (sPrefixed base (cs'.length + 2) cs' err) = accL (lPrefixed base (x :: cs') err) := by
  unfold sPrefixed lPrefixed
  simp only [lNext_cons]
  rw [sMant_eq]
  obtain ⟨-, h2, h3, -, -⟩ := lMant_spec base 0 cs'
  have hi := lMant_inv base 0 cs'
  exact prefixed_core cs'.length (lMant base 0 cs').1 (lMant base 0 cs').2.1 (lMant base 0 cs').2.2
    (err || nulErr cs') h2 (fun a b => by rw [h3 a b])
    (fun hn => by rcases hi hn with h | h <;> simp [h])

theorem sExpDigits_err (cur : Str) : accS (sExpDigits cur true) = none := by
  simp [sExpDigits, accS]

theorem sExponent_err (tok : Kind) (cur : Str) : accS (sExponent tok cur true) = none := by
  unfold sExponent
  split
  · simp [accS]
  · split
    · split <;> simp [accS]
    · split
      · simp only [Bool.true_or]
        exact sExpDigits_err _
      · simp [accS]

theorem zeroTail_agree (r : Str) (sd : Bool) (err : Bool)
    (hinv : nulErr r = true → err = true) :
    accS (sZeroTail r sd err) = accL (lZeroTail r sd err) := by
  unfold sZeroTail lZeroTail
  split
  · -- "..": the literal parser goes to `fraction:` and fails
    rename_i t
    have := fraction_agree .int (46 :: 46 :: t) err hinv
    have hk : (Kind.int == Kind.float) = false := rfl
    simp only [sFraction, hk] at this
    simp only [chL_cons, BEq.rfl, Bool.or_true, ↓reduceIte]
    rw [← this]
    simp [accS]
  · cases r with
    | nil =>
      cases sd <;> cases err <;> simp [sExponent, lExit, accS, accL, kindOf]
    | cons c t =>
      simp only [chL_cons]
      by_cases hf : (c == 46 || c == 101 || c == 69) = true
      · have hf' : (c == 101 || c == 69 || c == 46) = true := by
          simp only [Bool.or_eq_true, beq_iff_eq] at hf ⊢; omega
        simp only [hf, hf', ↓reduceIte]
        exact fraction_agree .int (c :: t) err hinv
      · have hf1 : (c == 46 || c == 101 || c == 69) = false := by simpa using hf
        have hf' : (c == 101 || c == 69 || c == 46) = false := by
          simp only [Bool.or_eq_false_iff, beq_eq_false_iff_ne] at hf1 ⊢; omega
        have he : (c == 101 || c == 69) = false := by
          simp only [Bool.or_eq_false_iff, beq_eq_false_iff_ne] at hf1 ⊢; omega
        simp only [hf1, hf', Bool.false_eq_true, ↓reduceIte]
        cases sd with
        | true =>
          simp only [Bool.or_true, ↓reduceIte, accL_none]
          exact sExponent_err _ _
        | false =>
          simp only [Bool.or_false, Bool.false_eq_true, ↓reduceIte]
          have := exponent_agree .int (c :: t) err hinv
          rw [this]
          have hk : (Kind.int == Kind.float) = false := rfl
          simp only [lExponent, chL_cons, he, hk, Bool.false_eq_true, ↓reduceIte]
          by_cases hm : isMul c = true
          · have hc0 : (c != 0) = true := by
              cases hc : c with
              | zero => rw [hc] at hm; simp [isMul] at hm
              | succ n => simp
            simp [hm, hc0]
          · have hm' : isMul c = false := by simpa using hm
            simp only [hm', Bool.false_eq_true, ↓reduceIte]
            by_cases hc0 : c = 0
            · simp [hc0]
            · simp [hc0, lExit]

/-! ### the two `scanNumber` functions -/

theorem isDec_iff {c : Nat} : isDec c = true ↔ 48 ≤ c ∧ c ≤ 57 := by
  simp [isDec]

theorem digitVal_dec {c : Nat} (h : isDec c = true) : digitVal c < 10 := by
  have := isDec_iff.mp h
  unfold digitVal
  rw [if_pos this]
  omega

theorem digitVal_nondec {c : Nat} (h : isDec c = false) (h95 : c ≠ 95) : ¬ digitVal c < 10 := by
  have hd : ¬ (48 ≤ c ∧ c ≤ 57) := by
    intro hh
    rw [isDec_iff.mpr hh] at h
    cases h
  unfold digitVal
  rw [if_neg hd, if_neg h95]
  split
  · omega
  · split <;> omega

theorem lMant_dec {c : Nat} (last : Nat) (cs : Str) (h : isDec c = true) :
    (lMant 10 last (c :: cs)).2.1 = true := by
  unfold lMant
  rw [if_pos (digitVal_dec h)]
  have := isDec_iff.mp h
  have hc : c ≠ 95 := by omega
  simp [hc]

/-- `scanNumber(true)`: the character after the '.' is a decimal digit -/
theorem seen_agree (d : Nat) (ds : Str) (hd : isDec d = true) :
    accS (sScanNumber true (d :: ds)) = accL (lScanNumber true (d :: ds) false) := by
  unfold sScanNumber lScanNumber
  simp only [↓reduceIte]
  rw [sMant_eq]
  have hh := lMant_dec 0 ds hd
  have hi := lMant_inv 10 0 (d :: ds)
  have hd0 : d ≠ 0 := by have := isDec_iff.mp hd; omega
  simp only [hh, Bool.not_true, Bool.false_eq_true, ↓reduceIte, Bool.false_or]
  apply exponent_agree Kind.float
  intro hn
  rcases hi hn with h | h
  · rw [nulErr_cons_ne hd0] at h; cases h
  · exact h

/-- `scanNumber(false)` on a spelling that starts with a non-zero decimal digit -/
theorem unseen_nonzero_agree (c : Nat) (cs : Str) (hc : isDec c = true) (h48 : c ≠ 48) :
    accS (sScanNumber false (c :: cs)) = accL (lScanNumber false (c :: cs) false) := by
  unfold sScanNumber lScanNumber
  have h48' : (c == 48) = false := by simpa using h48
  simp only [Bool.false_eq_true, ↓reduceIte, chL_cons, h48']
  have hh := lMant_dec 0 cs hc
  have hi := lMant_inv 10 0 (c :: cs)
  have hc0 : c ≠ 0 := by have := isDec_iff.mp hc; omega
  split
  · rename_i heq
    simp only [List.cons.injEq] at heq
    exact absurd heq.1 h48
  · rw [sMant_eq]
    simp only [hh, Bool.not_true, Bool.false_eq_true, ↓reduceIte, Bool.false_or]
    apply fraction_agree Kind.int
    intro hn
    rcases hi hn with h | h
    · rw [nulErr_cons_ne hc0] at h; cases h
    · exact h

/-- the "0 or float" branch -/
theorem unseen_zero_default (d : Nat) (ds : Str) (h120 : d ≠ 120) (h88 : d ≠ 88) (h98 : d ≠ 98)
    (h111 : d ≠ 111) (hz : zeroUnderscore (48 :: d :: ds) = false) :
    accS (sScanNumber false (48 :: d :: ds)) = accL (lScanNumber false (48 :: d :: ds) false) := by
  have h95 : d ≠ 95 := by
    intro h; subst h; simp [zeroUnderscore] at hz
  have e120 : (d == 120) = false := by simpa using h120
  have e88 : (d == 88) = false := by simpa using h88
  have e98 : (d == 98) = false := by simpa using h98
  have e111 : (d == 111) = false := by simpa using h111
  unfold sScanNumber lScanNumber
  simp only [Bool.false_eq_true, ↓reduceIte, chL_cons, BEq.rfl, lNext_cons, e120, e88, e98, e111,
    Bool.or_self, Bool.false_or]
  split
  · rename_i heq; simp only [List.cons.injEq] at heq; exact absurd heq.1 h120
  · rename_i heq; simp only [List.cons.injEq] at heq; exact absurd heq.1 h88
  · rename_i heq; simp only [List.cons.injEq] at heq; exact absurd heq.1 h98
  · rename_i heq; simp only [List.cons.injEq] at heq; exact absurd heq.1 h111
  · cases hd : isDec d with
    | true =>
      simp only [↓reduceIte]
      rw [sMant_eq]
      have hh := lMant_dec 0 ds hd
      have hi := lMant_inv 10 0 (d :: ds)
      simp only [hh]
      apply zeroTail_agree
      intro hn
      rcases hi hn with h | h <;> simp [h]
    | false =>
      have hstop := lMant_stop 10 0 d ds (digitVal_nondec hd h95)
      simp only [Bool.false_eq_true, ↓reduceIte, hstop]
      apply zeroTail_agree
      intro hn
      simp [hn]

/-- `scanNumber(false)` on a spelling that starts with '0' but not with "0_" -/
theorem unseen_zero_agree (cs : Str) (hz : zeroUnderscore (48 :: cs) = false) :
    accS (sScanNumber false (48 :: cs)) = accL (lScanNumber false (48 :: cs) false) := by
  cases cs with
  | nil =>
    simp [sScanNumber, lScanNumber, lMant, sZeroTail, lZeroTail, sExponent, lExit, accS, accL,
      kindOf]
  | cons d ds =>
    by_cases h120 : d = 120
    · subst h120
      have := prefixed_agree 16 120 ds false
      have hn : nulErr (120 :: ds) = false := nulErr_cons_ne (by decide)
      simpa [sScanNumber, lScanNumber, hn] using this
    · by_cases h88 : d = 88
      · subst h88
        have := prefixed_agree 16 88 ds false
        have hn : nulErr (88 :: ds) = false := nulErr_cons_ne (by decide)
        simpa [sScanNumber, lScanNumber, hn] using this
      · by_cases h98 : d = 98
        · subst h98
          have := prefixed_agree 2 98 ds false
          have hn : nulErr (98 :: ds) = false := nulErr_cons_ne (by decide)
          simpa [sScanNumber, lScanNumber, hn] using this
        · by_cases h111 : d = 111
          · subst h111
            have := prefixed_agree 8 111 ds false
            have hn : nulErr (111 :: ds) = false := nulErr_cons_ne (by decide)
            simpa [sScanNumber, lScanNumber, hn] using this
          · exact unseen_zero_default d ds h120 h88 h98 h111 hz

/-! ### the top level: `Scan`'s dispatch and `ParseNum` -/

theorem accS_of_consumed (k : Kind) (r : Str) (e : Bool) (n : Nat) (hn : 0 < n) :
    (if (n - r.length == n) && !e then some k else none) = accS (k, r, e) := by
  cases r with
  | nil => simp [accS]
  | cons x t =>
    have : ¬ (n - (t.length + 1) = n) := by omega
    simp [accS, this]

theorem scannerAccepts_dec (c : Nat) (cs : Str) (hc : isDec c = true) :
    scannerAccepts (c :: cs) = accS (sScanNumber false (c :: cs)) := by
  unfold scannerAccepts scanNumber
  simp only [hc, ↓reduceIte]
  exact accS_of_consumed _ _ _ _ (by simp)

theorem scannerAccepts_dot (d : Nat) (ds : Str) (hd : isDec d = true) :
    scannerAccepts (46 :: d :: ds) = accS (sScanNumber true (d :: ds)) := by
  have h46 : isDec 46 = false := by decide
  have hd0 : d ≠ 0 := by have := isDec_iff.mp hd; omega
  unfold scannerAccepts scanNumber
  simp only [h46, Bool.false_eq_true, ↓reduceIte, BEq.rfl, hd, nulErr_cons_ne hd0, Bool.or_false]
  exact accS_of_consumed _ _ _ _ (by simp)

theorem parseNum_dec (c : Nat) (cs : Str) (hc : isDec c = true) :
    parseNum (c :: cs) = accL (lScanNumber false (c :: cs) false) := by
  have := isDec_iff.mp hc
  have h0 : (c == 0) = false := by simp only [beq_eq_false_iff_ne]; omega
  have h45 : (c == 45) = false := by simp only [beq_eq_false_iff_ne]; omega
  have h43 : (c == 43) = false := by simp only [beq_eq_false_iff_ne]; omega
  have h46 : (c == 46) = false := by simp only [beq_eq_false_iff_ne]; omega
  unfold parseNum parseNumFrom
  simp only [h0, h45, h43, h46, chL_cons, Bool.or_self, Bool.false_eq_true, ↓reduceIte]
  rfl

theorem parseNum_dot (d : Nat) (ds : Str) (hd : isDec d = true) :
    parseNum (46 :: d :: ds) = accL (lScanNumber true (d :: ds) false) := by
  have hd0 : d ≠ 0 := by have := isDec_iff.mp hd; omega
  unfold parseNum parseNumFrom
  simp only [chL_cons, BEq.rfl, ↓reduceIte, lNext_cons, nulErr_cons_ne hd0]
  rfl

theorem scannerAccepts_not_start (s : Str) (h : startsNumber s = false) :
    scannerAccepts s = none := by
  unfold scannerAccepts scanNumber
  cases s with
  | nil => rfl
  | cons c rest =>
    simp only [startsNumber, Bool.or_eq_false_iff, Bool.and_eq_false_imp] at h
    simp only [h.1, Bool.false_eq_true, ↓reduceIte]
    by_cases h46 : (c == 46) = true
    · have h2 := h.2 h46
      simp only [h46, ↓reduceIte]
      cases rest with
      | nil => rfl
      | cons d ds =>
        simp only at h2
        simp [h2]
    · simp [h46]

theorem scannerAccepts_zeroUnderscore (s : Str) (h : zeroUnderscore s = true) :
    scannerAccepts s = none := by
  unfold zeroUnderscore at h
  split at h
  · rename_i t
    rw [scannerAccepts_dec 48 _ (by decide)]
    simp [sScanNumber, isDec, sZeroTail, sExponent, isMul, accS]
  · cases h

/-- **Agreement.**  On every spelling on which `Scan` starts a number token, except the
spellings beginning with "0_", the scanner lexes the whole input as one error-free number
token of kind `k` iff `literal.ParseNum` accepts it with kind `k`. -/
theorem numbers_agree (s : Str) (h : startsNumber s = true) (hz : zeroUnderscore s = false) :
    scannerAccepts s = parseNum s := by
  cases s with
  | nil => cases h
  | cons c rest =>
    cases hc : isDec c with
    | true =>
      rw [scannerAccepts_dec c rest hc, parseNum_dec c rest hc]
      by_cases h48 : c = 48
      · subst h48; exact unseen_zero_agree rest hz
      · exact unseen_nonzero_agree c rest hc h48
    | false =>
      simp only [startsNumber, hc, Bool.false_or, Bool.and_eq_true, beq_iff_eq] at h
      obtain ⟨rfl, h2⟩ := h
      cases rest with
      | nil => cases h2
      | cons d ds =>
        simp only at h2
        rw [scannerAccepts_dot d ds h2, parseNum_dot d ds h2]
        exact seen_agree d ds h2

/-- everything the scanner accepts as a number, `literal.ParseNum` accepts with the same kind -/
theorem scanner_sub_literal (s : Str) (k : Kind) :
    scannerAccepts s = some k → parseNum s = some k := by
  intro h
  cases hs : startsNumber s with
  | false => rw [scannerAccepts_not_start s hs] at h; cases h
  | true =>
    cases hz : zeroUnderscore s with
    | true => rw [scannerAccepts_zeroUnderscore s hz] at h; cases h
    | false => rw [← numbers_agree s hs hz]; exact h

/-- the full statement (no side condition) -/
def numbers_agree_stmt : Prop := ∀ s, scannerAccepts s = parseNum s

/-- FALSE: `literal.ParseNum` accepts "_1" (a leading '_' is treated as a digit separator);
the scanner lexes "_1" as an identifier.  Likewise "._5", "+1", "-1". -/
theorem numbers_agree_false : ¬ numbers_agree_stmt := by
  intro h
  exact absurd (h [95, 49]) (by decide)

/-- the statement restricted to the spellings on which `Scan` starts a number token -/
def numbers_agree_started_stmt : Prop :=
  ∀ s, startsNumber s = true → scannerAccepts s = parseNum s

/-- FALSE as well: `literal.ParseNum` accepts "0_1.5" as a float; the scanner lexes INT "0"
followed by the identifier "_1".  (num.go's "0 or float" branch runs `scanMantissa(10)`
unconditionally and jumps to `fraction:` before the "illegal integer number" check.) -/
theorem numbers_agree_started_false : ¬ numbers_agree_started_stmt := by
  intro h
  exact absurd (h [48, 95, 49, 46, 53] (by decide)) (by decide)

/-- the spellings only `literal.ParseNum` accepts lie outside the scanner's number dispatch or
begin with "0_" -/
theorem literal_only (s : Str) (k : Kind) :
    parseNum s = some k → scannerAccepts s = none →
      startsNumber s = false ∨ zeroUnderscore s = true := by
  intro hp hsn
  cases hs : startsNumber s with
  | false => exact Or.inl rfl
  | true =>
    cases hz : zeroUnderscore s with
    | true => exact Or.inr rfl
    | false =>
      rw [numbers_agree s hs hz, hp] at hsn
      cases hsn

/-! ### tests (evaluation on samples; NOT the property) -/

-- "1.5e3", "0x_1f", ".5", "12Ki", "00.5" are accepted by both with the same kind
example : scannerAccepts [49, 46, 53, 101, 51] = some .float ∧
    parseNum [49, 46, 53, 101, 51] = some .float := by decide
example : scannerAccepts [48, 120, 95, 49, 102] = some .int ∧
    parseNum [48, 120, 95, 49, 102] = some .int := by decide
example : scannerAccepts [46, 53] = some .float ∧ parseNum [46, 53] = some .float := by decide
example : scannerAccepts [49, 50, 75, 105] = some .int ∧ parseNum [49, 50, 75, 105] = some .int := by
  decide
example : scannerAccepts [48, 48, 46, 53] = some .float ∧ parseNum [48, 48, 46, 53] = some .float := by
  decide
-- "09", "1__0", "0b2", "1..", "1e" are rejected by both
example : scannerAccepts [48, 57] = none ∧ parseNum [48, 57] = none := by decide
example : scannerAccepts [49, 95, 95, 48] = none ∧ parseNum [49, 95, 95, 48] = none := by decide
example : scannerAccepts [48, 98, 50] = none ∧ parseNum [48, 98, 50] = none := by decide
example : scannerAccepts [49, 46, 46] = none ∧ parseNum [49, 46, 46] = none := by decide
example : scannerAccepts [49, 101] = none ∧ parseNum [49, 101] = none := by decide
-- the hypotheses of `numbers_agree` are satisfiable by a non-trivial value ("0.5")
example : startsNumber [48, 46, 53] = true ∧ zeroUnderscore [48, 46, 53] = false ∧
    parseNum [48, 46, 53] = some .float := by decide
-- signed spellings are accepted by `ParseNum` only
example : parseNum [45, 49] = some .int ∧ scannerAccepts [45, 49] = none ∧
    parseNumUnsigned [45, 49] = none := by decide

/-! ### a small independent sanity layer: plain decimal spellings of the CUE grammar

`decimal_lit = "0" | ( "1" … "9" ) { [ "_" ] decimal_digit }` and
`float_lit ⊇ decimals "." decimals`, here without underscores. -/

/-- the mantissa loop over a run of decimal digits followed by end of input or '.' -/
theorem lMant_digits (last : Nat) (ds rest : Str) (hl : last ≠ 95)
    (hds : ds.all isDec = true) (hrest : rest = [] ∨ ∃ t, rest = 46 :: t) :
    lMant 10 last (ds ++ rest) = (rest, !ds.isEmpty, false) := by
  have hl' : (last == 95) = false := by simpa using hl
  induction ds generalizing last with
  | nil =>
    rcases hrest with rfl | ⟨t, rfl⟩
    · simp [lMant, hl']
    · simp [lMant_stop 10 last 46 t (by decide), hl']
  | cons d ds ih =>
    simp only [List.all_cons, Bool.and_eq_true] at hds
    have hd := isDec_iff.mp hds.1
    have hd95 : d ≠ 95 := by omega
    have hd95' : (d == 95) = false := by simpa using hd95
    have hnext : nulErr (ds ++ rest) = false := by
      cases ds with
      | nil =>
        rcases hrest with rfl | ⟨t, rfl⟩
        · rfl
        · exact nulErr_cons_ne (by decide)
      | cons e es =>
        simp only [List.all_cons, Bool.and_eq_true] at hds
        have := isDec_iff.mp hds.2.1
        exact nulErr_cons_ne (by omega)
    rw [List.cons_append, lMant, if_pos (digitVal_dec hds.1), ih d hd95 hds.2 (by simpa using hd95)]
    simp [hd95', hd95, hnext]

/-- `"1"…"9" { digit }` is an INT for both -/
theorem decimal_lit_accepted (c : Nat) (ds : Str) (hc : 49 ≤ c ∧ c ≤ 57)
    (hds : ds.all isDec = true) :
    parseNum (c :: ds) = some .int ∧ scannerAccepts (c :: ds) = some .int := by
  have hcd : isDec c = true := isDec_iff.mpr ⟨by omega, hc.2⟩
  have h48 : (c == 48) = false := by simp only [beq_eq_false_iff_ne]; omega
  have hm := lMant_digits 0 (c :: ds) [] (by decide) (by simp [hcd, hds]) (Or.inl rfl)
  rw [List.append_nil] at hm
  have hp : parseNum (c :: ds) = some .int := by
    rw [parseNum_dec c ds hcd]
    simp [lScanNumber, h48, hm, lFraction, lExponent, isMul, lExit, accL, kindOf]
  refine ⟨hp, ?_⟩
  rw [numbers_agree (c :: ds) (by simp [startsNumber, hcd]) ?_, hp]
  unfold zeroUnderscore
  split
  · rename_i heq
    simp only [List.cons.injEq] at heq
    omega
  · rfl

/-- "0" is an INT for both -/
theorem zero_lit_accepted : parseNum [48] = some .int ∧ scannerAccepts [48] = some .int := by
  decide

/-- `"1"…"9" { digit } "." digit { digit }` is a FLOAT for both -/
theorem simple_float_accepted (c : Nat) (ds fs : Str) (hc : 49 ≤ c ∧ c ≤ 57)
    (hds : ds.all isDec = true) (hfs : fs.all isDec = true) (hne : fs ≠ []) :
    parseNum (c :: ds ++ 46 :: fs) = some .float ∧
      scannerAccepts (c :: ds ++ 46 :: fs) = some .float := by
  have hcd : isDec c = true := isDec_iff.mpr ⟨by omega, hc.2⟩
  have h48 : (c == 48) = false := by simp only [beq_eq_false_iff_ne]; omega
  have hm := lMant_digits 0 (c :: ds) (46 :: fs) (by decide) (by simp [hcd, hds])
    (Or.inr ⟨fs, rfl⟩)
  have hm2 := lMant_digits 0 fs [] (by decide) hfs (Or.inl rfl)
  rw [List.append_nil] at hm2
  have hnul : nulErr fs = false := by
    cases fs with
    | nil => rfl
    | cons f t =>
      simp only [List.all_cons, Bool.and_eq_true] at hfs
      have := isDec_iff.mp hfs.1
      exact nulErr_cons_ne (by omega)
  have hp : parseNum (c :: ds ++ 46 :: fs) = some .float := by
    rw [List.cons_append, parseNum_dec c _ hcd]
    rw [List.cons_append] at hm
    simp [lScanNumber, h48, hm, lFraction, hm2, hnul, lExponent, isMul, lExit, accL, kindOf]
  refine ⟨hp, ?_⟩
  rw [numbers_agree _ (by simp [startsNumber, hcd]) ?_, hp]
  unfold zeroUnderscore
  split
  · rename_i heq
    simp only [List.cons_append, List.cons.injEq] at heq
    omega
  · rfl

end CueVerif.NumLit
