/-
C02 — toposort.Graph.Sort does not depend on the presentation of the graph (node order =
Go map iteration order, edge insertion order, the order in which Tarjan's algorithm delivers
the components and their nodes, the tie behaviour of the unstable sort), PROVIDED the
comparison tells the labels of the graph apart.
-/
import CueVerif.Proofs.ToposortKahn
namespace CueVerif.Toposort
open CueVerif.Sanitize (TotalPreorder SortedBy lexList)

/-! ### sorting a duplicate-free list with an injective comparison has one result -/

theorem strict_of_sorted_nodup {α : Type} {cmp : α → α → Ordering} (l : List α)
    (hs : SortedBy cmp l) (hn : l.Nodup) (hinj : ∀ a ∈ l, ∀ b ∈ l, cmp a b = .eq → a = b) :
    l.Pairwise (fun a b => cmp a b = .lt) := by
  have h2 : l.Pairwise (fun a b => cmp a b ≠ .gt ∧ a ≠ b) := List.Pairwise.and hs hn
  refine List.Pairwise.imp_of_mem ?_ h2
  intro a b ha hb hab
  cases hc : cmp a b with
  | lt => rfl
  | gt => exact absurd hc hab.1
  | eq => exact absurd (hinj a ha b hb hc) hab.2

theorem sort_unique {α : Type} {cmp : α → α → Ordering} (h : TotalPreorder cmp) (S S' : SortFn)
    (hS : S.Contract) (hS' : S'.Contract) (l l' : List α) (hn : l.Nodup) (hn' : l'.Nodup)
    (hmem : ∀ x, x ∈ l ↔ x ∈ l') (hinj : ∀ a ∈ l, ∀ b ∈ l, cmp a b = .eq → a = b) :
    S.sort cmp l = S'.sort cmp l' := by
  have p := hS.perm cmp l
  have p' := hS'.perm cmp l'
  refine Sanitize.strict_unique h _ _ ?_ ?_ ?_
  · exact strict_of_sorted_nodup _ (hS.sorted cmp l h) (p.nodup_iff.2 hn)
      (fun a ha b hb => hinj a (p.mem_iff.1 ha) b (p.mem_iff.1 hb))
  · exact strict_of_sorted_nodup _ (hS'.sorted cmp l' h) (p'.nodup_iff.2 hn')
      (fun a ha b hb => hinj a ((hmem a).2 (p'.mem_iff.1 ha)) b ((hmem b).2 (p'.mem_iff.1 hb)))
  · intro x; rw [p.mem_iff, p'.mem_iff]; exact hmem x

theorem lexList_eq_inj {α : Type} {ce : α → α → Ordering} :
    ∀ (l m : List α), lexList ce l m = .eq → (∀ a ∈ l, ∀ b ∈ m, ce a b = .eq → a = b) → l = m
  | [], [], _, _ => rfl
  | [], _ :: _, h, _ => by simp [lexList] at h
  | _ :: _, [], h, _ => by simp [lexList] at h
  | a :: as, b :: bs, h, hinj => by
    simp only [lexList] at h
    cases hc : ce a b with
    | eq =>
      rw [hc] at h
      have hab : a = b := hinj a (by simp) b (by simp) hc
      have := lexList_eq_inj as bs h (fun x hx y hy => hinj x (List.mem_cons_of_mem _ hx) y (List.mem_cons_of_mem _ hy))
      rw [hab, this]
    | lt => rw [hc] at h; cases h
    | gt => rw [hc] at h; cases h

/-! ### what two presentations of one graph share -/

theorem nodup_of_mem_flatten_nodup : ∀ (l : List Comp), l.flatten.Nodup → ∀ c ∈ l, c.Nodup
  | [], _, c, hc => by cases hc
  | a :: rest, hn, c, hc => by
    rw [List.flatten_cons, List.nodup_append] at hn
    rcases List.mem_cons.1 hc with rfl | h
    · exact hn.1
    · exact nodup_of_mem_flatten_nodup rest hn.2.1 c h

theorem reach_congr {g g' : Graph} (h : ∀ u v, v ∈ g.out u ↔ v ∈ g'.out u) {u v : Label}
    (r : Reach g u v) : Reach g' u v := by
  induction r with
  | refl => exact .refl _
  | step hw _ ih => exact .step ((h _ _).1 hw) ih

theorem reach_mem {g : Graph} (hg : g.WF) {u v : Label} (r : Reach g u v) (hu : u ∈ g.nodes) : v ∈ g.nodes := by
  induction r with
  | refl => exact hu
  | step hw _ ih => exact ih (hg.closed _ hu _ hw)

/-- membership in the component of `u` is a matter of reachability only -/
theorem IsSCC.mem_iff_reach {g : Graph} {comps : List Comp} (hg : g.WF) (h : IsSCC g comps) {c : Comp}
    (hc : c ∈ comps) {u : Label} (hu : u ∈ c) (x : Label) :
    x ∈ c ↔ (Reach g u x ∧ Reach g x u) := by
  constructor
  · intro hx; exact ⟨h.intra hc hu hx, h.intra hc hx hu⟩
  · intro hr
    have hun : u ∈ g.nodes := (h.cover u).2 ⟨c, hc, hu⟩
    rcases (h.cover x).1 (reach_mem hg hr.1 hun) with ⟨e, he, hxe⟩
    have : c = e := (h.scc c hc e he u hu x hxe).2 hr
    rw [this]; exact hxe

theorem cedge_congr {g g' : Graph} (h : ∀ u v, v ∈ g.out u ↔ v ∈ g'.out u) (c d : Comp) :
    cedge g c d = cedge g' c d := by
  rw [Bool.eq_iff_iff, cedge_iff, cedge_iff]
  constructor
  · rintro ⟨hne, u, hu, v, hv, hvd⟩; exact ⟨hne, u, hu, v, (h u v).1 hv, hvd⟩
  · rintro ⟨hne, u, hu, v, hv, hvd⟩; exact ⟨hne, u, hu, v, (h u v).2 hv, hvd⟩

variable (fixed : Bool)

/-- the sorted component lists of two presentations are the same set of lists -/
theorem sorted_comps_sub (S S' : SortFn) (hS : S.Contract) (hS' : S'.Contract)
    (g g' : Graph) (comps comps' : List Comp) (hg : g.WF) (hg' : g'.WF) (hsame : g.Same g')
    (hc : IsSCC g comps) (hc' : IsSCC g' comps') (hd : LabelsDistinct fixed g) (c : Comp)
    (hcc : c ∈ comps.map (fun c => S.sort (cmpLabel fixed) c)) :
    c ∈ comps'.map (fun c => S'.sort (cmpLabel fixed) c) := by
  rcases List.mem_map.1 hcc with ⟨c0, hc0, rfl⟩
  cases hc0e : c0 with
  | nil => exact absurd hc0e (hc.nonempty c0 hc0)
  | cons u t =>
    have hu : u ∈ c0 := by rw [hc0e]; simp
    have hun : u ∈ g.nodes := (hc.cover u).2 ⟨c0, hc0, hu⟩
    have hun' : u ∈ g'.nodes := hsame.nodes.mem_iff.1 hun
    rcases (hc'.cover u).1 hun' with ⟨d0, hd0, hud⟩
    have hmem : ∀ x, x ∈ c0 ↔ x ∈ d0 := by
      intro x
      rw [hc.mem_iff_reach hg hc0 hu x, hc'.mem_iff_reach hg' hd0 hud x]
      constructor
      · rintro ⟨r1, r2⟩; exact ⟨reach_congr hsame.edges r1, reach_congr hsame.edges r2⟩
      · rintro ⟨r1, r2⟩
        exact ⟨reach_congr (fun a b => (hsame.edges a b).symm) r1, reach_congr (fun a b => (hsame.edges a b).symm) r2⟩
    have hn0 : c0.Nodup := nodup_of_mem_flatten_nodup _ hc.nodup c0 hc0
    have hn0' : d0.Nodup := nodup_of_mem_flatten_nodup _ hc'.nodup d0 hd0
    have hinj : ∀ a ∈ c0, ∀ b ∈ c0, cmpLabel fixed a b = .eq → a = b := by
      intro a ha b hb
      exact hd a ((hc.cover a).2 ⟨c0, hc0, ha⟩) b ((hc.cover b).2 ⟨c0, hc0, hb⟩)
    have := sort_unique (cmpLabel_tp fixed) S S' hS hS' c0 d0 hn0 hn0' hmem hinj
    rw [← hc0e, this]
    exact List.mem_map.2 ⟨d0, hd0, rfl⟩

theorem labelsDistinct_same {g g' : Graph} (hsame : g.Same g') (hd : LabelsDistinct fixed g) :
    LabelsDistinct fixed g' :=
  fun a ha b hb => hd a (hsame.nodes.mem_iff.2 ha) b (hsame.nodes.mem_iff.2 hb)

theorem same_symm {g g' : Graph} (h : g.Same g') : g'.Same g :=
  ⟨h.nodes.symm, fun u v => (h.edges u v).symm⟩

/-- `cmpComp` tells sorted components of the graph apart -/
theorem cmpComp_inj {g : Graph} {cs : List Comp} (hc : IsSCC g cs) (hd : LabelsDistinct fixed g)
    (c d : Comp) (hcc : c ∈ cs) (hdc : d ∈ cs) (h : cmpComp fixed c d = .eq) : c = d := by
  rw [cmpComp_eq_lexList] at h
  refine lexList_eq_inj c d h ?_
  intro a ha b hb
  exact hd a ((hc.cover a).2 ⟨c, hcc, ha⟩) b ((hc.cover b).2 ⟨d, hdc, hb⟩)

/-! ### the two runs proceed in lock step -/

structure Rel (st st' : St) : Prop where
  ready : st.ready = st'.ready
  sorted : st.sorted = st'.sorted
  vis : ∀ c, c ∈ st.visited ↔ c ∈ st'.visited

theorem kahn_panic (S : SortFn) (g : Graph) (cs : List Comp) (fuel : Nat) (st : St)
    (h : st.visited.length ≠ cs.length) (hr : st.ready = []) :
    kahn fixed S g cs (fuel + 1) st = .panic := by
  rw [kahn]; simp [h, hr]

section
variable (S S' : SortFn) (hS : S.Contract) (hS' : S'.Contract) (g g' : Graph) (cs cs' : List Comp)
  (hedges : ∀ u v, v ∈ g.out u ↔ v ∈ g'.out u) (hcs : ∀ c, c ∈ cs ↔ c ∈ cs')
  (hscc : IsSCC g cs) (hscc' : IsSCC g' cs') (hd : LabelsDistinct fixed g)
include hS hS' hedges hcs hscc hscc' hd

omit hS hS' hscc hscc' hd in
theorem incoming_mem_congr (c d : Comp) : d ∈ incoming g cs c ↔ d ∈ incoming g' cs' c := by
  rw [mem_incoming, mem_incoming, hcs d, cedge_congr hedges]

theorem rel_next (st st' : St) (cur : Comp) (rest : List Comp) (hinv : Inv g cs st) (hinv' : Inv g' cs' st')
    (hr : st.ready = cur :: rest) (hr' : st'.ready = cur :: rest) (hrel : Rel st st') :
    Rel (next fixed S g cs st cur rest) (next fixed S' g' cs' st' cur rest) := by
  have hn := inv_next fixed S hS g cs hscc.comps_nodup st cur rest hinv hr
  have hn' := inv_next fixed S' hS' g' cs' hscc'.comps_nodup st' cur rest hinv' hr'
  have hvis : ∀ c, c ∈ cur :: st.visited ↔ c ∈ cur :: st'.visited := by
    intro c; simp only [List.mem_cons, hrel.vis c]
  have hnewly : ∀ c,
      c ∈ (outgoing g cs cur).filter (fun nx => (incoming g cs nx).all (fun rq => (cur :: st.visited).contains rq)) ↔
      c ∈ (outgoing g' cs' cur).filter (fun nx => (incoming g' cs' nx).all (fun rq => (cur :: st'.visited).contains rq)) := by
    intro c
    rw [mem_newly, mem_newly, hcs c, cedge_congr hedges]
    constructor
    · rintro ⟨h1, h2, h3⟩
      exact ⟨h1, h2, fun d hd' => (hvis d).1 (h3 d ((incoming_mem_congr g g' cs cs' hedges hcs c d).2 hd'))⟩
    · rintro ⟨h1, h2, h3⟩
      exact ⟨h1, h2, fun d hd' => (hvis d).2 (h3 d ((incoming_mem_congr g g' cs cs' hedges hcs c d).1 hd'))⟩
  refine ⟨?_, ?_, hvis⟩
  · -- the new ready lists
    show (next fixed S g cs st cur rest).ready = (next fixed S' g' cs' st' cur rest).ready
    have hrn := hn.rdy_nodup
    have hrn' := hn'.rdy_nodup
    have hrs := hn.rdy_sound
    unfold next at hrn hrn' hrs ⊢
    simp only at hrn hrn' hrs ⊢
    generalize hN : (outgoing g cs cur).filter (fun nx => (incoming g cs nx).all (fun rq => (cur :: st.visited).contains rq)) = newly at *
    generalize hN' : (outgoing g' cs' cur).filter (fun nx => (incoming g' cs' nx).all (fun rq => (cur :: st'.visited).contains rq)) = newly' at *
    by_cases he : newly.isEmpty = true
    · have h1 : newly = [] := List.isEmpty_iff.1 he
      have h2 : newly' = [] := by
        cases hnl : newly' with
        | nil => rfl
        | cons a t =>
          have : a ∈ newly := (hnewly a).2 (by rw [hnl]; simp)
          rw [h1] at this; cases this
      rw [h1, h2]; rfl
    · have he' : ¬ newly'.isEmpty = true := by
        intro h
        have h2 : newly' = [] := List.isEmpty_iff.1 h
        apply he
        cases hnl : newly with
        | nil => rfl
        | cons a t =>
          have : a ∈ newly' := (hnewly a).1 (by rw [hnl]; simp)
          rw [h2] at this; cases this
      rw [if_neg he] at hrn hrs ⊢
      rw [if_neg he'] at hrn' ⊢
      have p := hS.perm (cmpComp fixed) (rest ++ newly)
      have p' := hS'.perm (cmpComp fixed) (rest ++ newly')
      refine sort_unique (cmpComp_tp fixed) S S' hS hS' _ _ (p.nodup_iff.1 hrn) (p'.nodup_iff.1 hrn') ?_ ?_
      · intro x
        simp only [List.mem_append, hnewly x]
      · intro a ha b hb
        exact cmpComp_inj fixed hscc hd a b (hrs a (p.mem_iff.2 ha)).1 (hrs b (p.mem_iff.2 hb)).1
  · show st.sorted ++ cur = st'.sorted ++ cur
    rw [hrel.sorted]

theorem kahn_lockstep (hlen : cs.length = cs'.length) :
    ∀ (fuel : Nat) (st st' : St), Inv g cs st → Inv g' cs' st' → Rel st st' →
      fuel + st.visited.length = cs.length → fuel + st'.visited.length = cs'.length →
      kahn fixed S g cs fuel st = kahn fixed S' g' cs' fuel st' := by
  intro fuel
  induction fuel with
  | zero =>
    intro st st' _ _ hrel h1 h2
    rw [kahn_done fixed S g cs 0 st (by omega), kahn_done fixed S' g' cs' 0 st' (by omega), hrel.sorted]
  | succ fuel ih =>
    intro st st' hinv hinv' hrel h1 h2
    have hl : st.visited.length ≠ cs.length := by omega
    have hl' : st'.visited.length ≠ cs'.length := by omega
    cases hr : st.ready with
    | nil =>
      have hr' : st'.ready = [] := by rw [← hrel.ready, hr]
      rw [kahn_panic fixed S g cs fuel st hl hr, kahn_panic fixed S' g' cs' fuel st' hl' hr']
    | cons cur rest =>
      have hr' : st'.ready = cur :: rest := by rw [← hrel.ready, hr]
      have hcur := hinv.rdy_sound cur (by rw [hr]; simp)
      have hcur' := hinv'.rdy_sound cur (by rw [hr']; simp)
      rw [kahn_step fixed S g cs fuel st cur rest hl hr (by simpa using hcur.2.1),
        kahn_step fixed S' g' cs' fuel st' cur rest hl' hr' (by simpa using hcur'.2.1)]
      refine ih _ _ (inv_next fixed S hS g cs hscc.comps_nodup st cur rest hinv hr)
        (inv_next fixed S' hS' g' cs' hscc'.comps_nodup st' cur rest hinv' hr')
        (rel_next fixed S S' hS hS' g g' cs cs' hedges hcs hscc hscc' hd st st' cur rest hinv hinv' hr hr' hrel) ?_ ?_
      · show fuel + (cur :: st.visited).length = cs.length
        simp only [List.length_cons]; omega
      · show fuel + (cur :: st'.visited).length = cs'.length
        simp only [List.length_cons]; omega

end

theorem sortWith_indep (S S' : SortFn) (hS : S.Contract) (hS' : S'.Contract)
    (g g' : Graph) (comps comps' : List Comp) (hg : g.WF) (hg' : g'.WF) (hsame : g.Same g')
    (hc : IsSCC g comps) (hc' : IsSCC g' comps') (hd : LabelsDistinct fixed g) :
    sortWith fixed S g comps = sortWith fixed S' g' comps' := by
  have hscc : IsSCC g (comps.map fun c => S.sort (cmpLabel fixed) c) := hc.map _ (fun c => hS.perm _ c)
  have hscc' : IsSCC g' (comps'.map fun c => S'.sort (cmpLabel fixed) c) := hc'.map _ (fun c => hS'.perm _ c)
  have hd' := labelsDistinct_same fixed hsame hd
  have hcs : ∀ c, c ∈ comps.map (fun c => S.sort (cmpLabel fixed) c) ↔ c ∈ comps'.map (fun c => S'.sort (cmpLabel fixed) c) :=
    fun c => ⟨sorted_comps_sub fixed S S' hS hS' g g' comps comps' hg hg' hsame hc hc' hd c,
      sorted_comps_sub fixed S' S hS' hS g' g comps' comps hg' hg (same_symm hsame) hc' hc hd' c⟩
  have hperm := perm_of_nodup_subset_length _ _ hscc.comps_nodup hscc'.comps_nodup (fun c h => (hcs c).1 h)
    (length_le_of_nodup_subset _ _ hscc'.comps_nodup (fun c h => (hcs c).2 h))
  have hlen := hperm.length_eq
  unfold sortWith
  simp only
  rw [← hlen]
  have hinit := inv_init fixed S hS g _ hscc.comps_nodup
  have hinit' := inv_init fixed S' hS' g' _ hscc'.comps_nodup
  refine kahn_lockstep fixed S S' hS hS' g g' _ _ hsame.edges hcs hscc hscc' hd hlen _ _ _ hinit hinit' ?_ (by simp) (by simp [hlen])
  refine ⟨?_, rfl, fun c => Iff.rfl⟩
  show S.sort (cmpComp fixed) _ = S'.sort (cmpComp fixed) _
  refine sort_unique (cmpComp_tp fixed) S S' hS hS' _ _ (hscc.comps_nodup.filter _) (hscc'.comps_nodup.filter _) ?_ ?_
  · intro x
    simp only [List.mem_filter, hcs x]
    have : (incoming g (comps.map fun c => S.sort (cmpLabel fixed) c) x).isEmpty
        = (incoming g' (comps'.map fun c => S'.sort (cmpLabel fixed) c) x).isEmpty := by
      rw [Bool.eq_iff_iff, List.isEmpty_iff, List.isEmpty_iff, List.eq_nil_iff_forall_not_mem, List.eq_nil_iff_forall_not_mem]
      constructor
      · intro h d hdm; exact h d ((incoming_mem_congr g g' _ _ hsame.edges hcs x d).2 hdm)
      · intro h d hdm; exact h d ((incoming_mem_congr g g' _ _ hsame.edges hcs x d).1 hdm)
    rw [this]
  · intro a ha b hb
    exact cmpComp_inj fixed hscc hd a b (List.mem_filter.1 ha).1 (List.mem_filter.1 hb).1

theorem perm_fixed : ∀ (S S' : SortFn), S.Contract → S'.Contract →
    ∀ (g g' : Graph) (comps comps' : List Comp), g.WF → g'.WF → g.Same g' →
      IsSCC g comps → IsSCC g' comps' → sortWith true S g comps = sortWith true S' g' comps' :=
  fun S S' hS hS' g g' comps comps' hg hg' hsame hc hc' =>
    sortWith_indep true S S' hS hS' g g' comps comps' hg hg' hsame hc hc'
      (fun a _ b _ h => cmpLabel_fixed_eq a b h)

end CueVerif.Toposort
