/-
Lemmas for C09 about the quoting model (Model/Quote.lean).
-/
import CueVerif.Model.Quote
import CueVerif.Proofs.Utf8
namespace CueVerif.Quote

/-- The whole contract on `strconv.IsPrint` / `strconv.IsGraphic` the proofs need: NUL, LF
and CR are neither printable nor graphic. -/
structure Env.Ok (E : Env) : Prop where
  p0 : E.isPrint 0 = false
  p10 : E.isPrint 10 = false
  p13 : E.isPrint 13 = false
  g0 : E.isGraphic 0 = false
  g10 : E.isGraphic 10 = false
  g13 : E.isGraphic 13 = false

/-- the forms the library exports: string-like (`"`, lossy) or bytes-like (`'`, exact) -/
def Form.WF (f : Form) : Prop :=
  (f.quote = 0x22 ∧ f.exact = false) ∨ (f.quote = 0x27 ∧ f.exact = true)

theorem Form.isPrint_not_ctl {E : Env} (hE : E.Ok) (f : Form) (r : Nat) (h : f.isPrint E r = true) :
    r ≠ 0 ∧ r ≠ 10 ∧ r ≠ 13 := by
  refine ⟨?_, ?_, ?_⟩ <;> intro hr <;> subst hr <;>
    simp [Form.isPrint, hE.p0, hE.p10, hE.p13, hE.g0, hE.g10, hE.g13] at h

/-! ### small list facts -/

theorem hashes_isPrefixOf (h : Nat) (t : Bytes) : (hashes h).isPrefixOf (hashes h ++ t) = true := by
  simp [List.isPrefixOf_iff_prefix]

theorem drop_hashes (h : Nat) (t : Bytes) : (hashes h ++ t).drop h = t := by
  have : (hashes h).length = h := by simp [hashes]
  rw [List.drop_append_of_le_length (by omega)]
  simp [this]

/-! ### `unquoteChar` on the chunks `quote` emits -/

/-- a backslash, the hashes and an escape character: the escape switch is reached -/
theorem uc_backslash (q : QuoteInfo) (hq : q.char = 0x22 ∨ q.char = 0x27) (e : Nat) (t : Bytes) :
    unquoteChar (0x5C :: (hashes q.numHash ++ e :: t)) q = unquoteEscape q e t := by
  have h1 : ((0x5C : Nat) == q.char) = false := by rcases hq with h | h <;> simp [h]
  have hl : (hashes q.numHash).length = q.numHash := by simp [hashes]
  simp only [unquoteChar, h1, Bool.false_and, Bool.false_eq_true, if_false]
  have h2 : ¬ (0x80 ≤ (0x5C : Nat)) := by decide
  simp only [h2, if_false]
  have h3 : ((0x5C : Nat) != 0x5C) = false := by decide
  simp only [h3, Bool.false_eq_true, if_false]
  have h4 : ¬ ((0x5C :: (hashes q.numHash ++ e :: t)).length ≤ 1 + q.numHash) := by
    simp only [List.length_cons, List.length_append, hl]; omega
  simp only [h4, if_false, hashes_isPrefixOf, Bool.not_true, Bool.false_eq_true]
  have h5 : (0x5C :: (hashes q.numHash ++ e :: t)).drop (1 + q.numHash) = e :: t := by
    rw [Nat.add_comm, List.drop_succ_cons, drop_hashes]
  rw [h5]

/-- a plain ASCII character -/
theorem uc_plain (q : QuoteInfo) (c : Nat) (t : Bytes) (h1 : c < 0x80) (h2 : c ≠ 0) (h3 : c ≠ 0x5C)
    (h4 : c ≠ q.char) : unquoteChar (c :: t) q = .ok (.char c false, t) := by
  have e1 : (c == q.char) = false := by simpa using h4
  have e2 : ¬ (0x80 ≤ c) := by omega
  have e3 : (c != 0x5C) = true := by simpa using h3
  have e4 : (c == 0) = false := by simpa using h2
  simp [unquoteChar, e1, e2, e3, e4]

/-- a multi-byte UTF-8 sequence of a Unicode scalar value -/
theorem uc_multibyte (q : QuoteInfo) (hq : q.char = 0x22 ∨ q.char = 0x27) (r : Nat) (t : Bytes)
    (h1 : 0x80 ≤ r) (h2 : r ≤ 0x10FFFF) (h3 : ¬ (0xD800 ≤ r ∧ r < 0xE000)) :
    unquoteChar (encodeRune r ++ t) q = .ok (.char r true, t) := by
  have hd := decodeRune_encodeRune r t h1 h2 h3
  have hl := encodeRune_length r h1
  have hb := encodeRune_bytes_high r h1
  match he : encodeRune r with
  | [] => rw [he] at hl; simp at hl
  | c :: cs =>
    rw [he] at hd hl hb
    have hc := hb c (by simp)
    have e1 : (c == q.char) = false := by
      rcases hq with h | h <;> rw [h] <;> simp <;> omega
    have e2 : (0x80 ≤ c) := hc.1
    have hd' : decodeRune (c :: (cs ++ t)) = (r, (c :: cs).length) := by simpa using hd
    have e5 : ¬ ((c :: cs).length = 1) := by omega
    simp only [List.cons_append, unquoteChar, e1, Bool.false_and, Bool.false_eq_true, if_false, e2,
      if_true, hd']
    have : ((r == 0xFFFD) && ((c :: cs).length == 1)) = false := by
      simp only [Bool.and_eq_false_iff, beq_eq_false_iff_ne]; right; exact e5
    simp only [this, Bool.false_eq_true, if_false]
    have : List.drop (c :: cs).length (c :: (cs ++ t)) = t := by
      have : c :: (cs ++ t) = (c :: cs) ++ t := rfl
      rw [this, List.drop_left]
    rw [this]

/-- the terminating quote of a single-line literal -/
theorem uc_close_single (q : QuoteInfo) (hq : q.char = 0x22 ∨ q.char = 0x27) (hm : q.multiline = false) :
    unquoteChar (q.char :: hashes q.numHash) q = .ok (.termQuote, []) := by
  have h0 : (q.char != 0) = true := by rcases hq with h | h <;> simp [h]
  have hc : q.closing = q.char :: hashes q.numHash := by
    simp [QuoteInfo.closing, QuoteInfo.numChar, hm]
  simp [unquoteChar, h0, hc, List.isPrefixOf_iff_prefix]

/-! ### the escape switch on what `escapeBody` emits -/

theorem hexDigit_lt (d : Nat) (h : d < 16) : hexDigit d < 0x80 := by
  unfold hexDigit; split <;> omega

/-- `\a \b \f \n \r \t \v`, `\xNN`, `\uNNNN`, `\UNNNNNNNN` decode to the rune they encode.
`mb` (multibyte) is false only for runes below 0x80. -/
theorem esc_body_uc (q : QuoteInfo) (exact : Bool) (r : Nat) (t : Bytes)
    (hx : exact = true → q.char = 0x27) (hr : r ≤ 0x10FFFF) :
    ∃ e t' mb, escapeBody exact r ++ t = e :: t' ∧
      unquoteEscape q e t' = .ok (.char r mb, t) ∧ (mb = false → r < 0x80) := by
  by_cases h7 : r = 7
  · subst h7; exact ⟨0x61, t, false, by simp [escapeBody], by simp [unquoteEscape], by intro; omega⟩
  by_cases h8 : r = 8
  · subst h8; exact ⟨0x62, t, false, by simp [escapeBody], by simp [unquoteEscape], by intro; omega⟩
  by_cases h12 : r = 12
  · subst h12; exact ⟨0x66, t, false, by simp [escapeBody], by simp [unquoteEscape], by intro; omega⟩
  by_cases h10 : r = 10
  · subst h10; exact ⟨0x6E, t, false, by simp [escapeBody], by simp [unquoteEscape], by intro; omega⟩
  by_cases h13 : r = 13
  · subst h13; exact ⟨0x72, t, false, by simp [escapeBody], by simp [unquoteEscape], by intro; omega⟩
  by_cases h9 : r = 9
  · subst h9; exact ⟨0x74, t, false, by simp [escapeBody], by simp [unquoteEscape], by intro; omega⟩
  by_cases h11 : r = 11
  · subst h11; exact ⟨0x76, t, false, by simp [escapeBody], by simp [unquoteEscape], by intro; omega⟩
  have b7 : (r == 7) = false := by simpa using h7
  have b8 : (r == 8) = false := by simpa using h8
  have b12 : (r == 12) = false := by simpa using h12
  have b10 : (r == 10) = false := by simpa using h10
  have b13 : (r == 13) = false := by simpa using h13
  have b9 : (r == 9) = false := by simpa using h9
  have b11 : (r == 11) = false := by simpa using h11
  unfold escapeBody
  simp only [b7, b8, b12, b10, b13, b9, b11, Bool.false_eq_true, if_false]
  split
  · next h =>
    simp only [Bool.and_eq_true, decide_eq_true_eq] at h
    have hq := hx h.2
    have hv := hexVal_two r (by omega)
    have e1 : r % 256 / 16 = r / 16 % 16 := by omega
    refine ⟨_, _, false, rfl, ?_, by intro; omega⟩
    simp [unquoteEscape, e1, hv, hq]
  split
  · omega
  split
  · next h =>
    have hv := hexVal_four r h
    refine ⟨_, _, true, rfl, ?_, by intro h; cases h⟩
    have h1 : ¬ (r ≥ 2147483648) := by omega
    have h2 : ¬ (r > 0x10FFFF) := by omega
    simp [unquoteEscape, hv, h1, h2]
  · have hv := hexVal_eight r (by omega)
    refine ⟨_, _, true, rfl, ?_, by intro h; cases h⟩
    have h1 : ¬ (r ≥ 2147483648) := by omega
    have h2 : ¬ (r > 0x10FFFF) := by omega
    simp [unquoteEscape, hv, h1, h2]

/-! ### one iteration of the main loop -/

/-- a decoded unit: its rune and the bytes it was decoded from -/
def GoodUnit (r : Nat) (orig : Bytes) : Prop :=
  (r < 0x80 ∧ orig = [r]) ∨
  (0x80 ≤ r ∧ r ≤ 0x10FFFF ∧ ¬ (0xD800 ≤ r ∧ r < 0xE000) ∧ encodeRune r = orig)

theorem GoodUnit.le {r : Nat} {orig : Bytes} (h : GoodUnit r orig) : r ≤ 0x10FFFF := by
  rcases h with h | h <;> omega

theorem GoodUnit.notSur {r : Nat} {orig : Bytes} (h : GoodUnit r orig) : ¬ (0xD800 ≤ r ∧ r < 0xE000) := by
  rcases h with h | h
  · omega
  · exact h.2.2.1

theorem pushChar_good {r : Nat} {orig : Bytes} (hu : GoodUnit r orig) (buf : Bytes) (mb : Bool)
    (h : mb = false → r < 0x80) : pushChar buf r mb = buf ++ orig := by
  unfold pushChar
  rcases hu with ⟨h1, h2⟩ | ⟨h1, _, _, h4⟩
  · subst h2
    cases mb
    · simp; omega
    · simp [encodeRune_ascii r h1]
  · cases mb
    · have := h rfl; omega
    · simp [h4]

theorem loop_step_char (q : QuoteInfo) (c : Nat) (rest : Bytes) (hc13 : c ≠ 13) (hc10 : c ≠ 10)
    (v : Nat) (mb : Bool) (ss : Bytes) (huc : unquoteChar (c :: rest) q = .ok (.char v mb, ss))
    (hv : ¬ (0xD800 ≤ v ∧ v < 0xE000)) (fuel : Nat) (buf : Bytes) (sn we : Bool) :
    unquoteLoop q (fuel + 1) (c :: rest) buf sn we = unquoteLoop q fuel ss (pushChar buf v mb) false false := by
  have e13 : (c == 13) = false := by simpa using hc13
  have e10 : (c == 10) = false := by simpa using hc10
  have hs : (decide (0xD800 ≤ v) && decide (v < 0xE000)) = false := by
    simp only [Bool.and_eq_false_iff, decide_eq_false_iff_not]; omega
  simp [unquoteLoop, unquoteCharSur, huc, e13, e10, hs]

theorem loop_step_close (q : QuoteInfo) (hq : q.char = 0x22 ∨ q.char = 0x27) (hm : q.multiline = false)
    (fuel : Nat) (buf : Bytes) :
    unquoteLoop q (fuel + 1) (q.char :: hashes q.numHash) buf false false = .ok buf := by
  have e13 : (q.char == 13) = false := by rcases hq with h | h <;> simp [h]
  have e10 : (q.char == 10) = false := by rcases hq with h | h <;> simp [h]
  simp [unquoteLoop, unquoteCharSur, uc_close_single q hq hm, e13, e10]

/-- what `appendEscapedRune` emits for one good unit is read back as exactly that unit
(single-line forms; any number of hashes) -/
theorem step_rune {E : Env} (hE : E.Ok) (f : Form) (hf : f.WF) (q : QuoteInfo) (hqc : q.char = f.quote)
    (r : Nat) (orig : Bytes) (hu : GoodUnit r orig) (tail buf : Bytes) (fuel : Nat) (sn we : Bool) :
    unquoteLoop q (fuel + 1) (appendEscapedRune E f false q.numHash r ++ tail) buf sn we
      = unquoteLoop q fuel tail (buf ++ orig) false false := by
  have hq : q.char = 0x22 ∨ q.char = 0x27 := by rcases hf with h | h <;> simp [hqc, h.1]
  unfold appendEscapedRune
  split
  · -- quote or backslash: `\` + the character
    next h =>
    have hr : r = f.quote ∨ r = 0x5C := by simpa using h
    have hr80 : r < 0x80 := by rcases hr with h | h <;> rcases hf with g | g <;> simp [h, g.1]
    have horig : orig = [r] := by
      rcases hu with ⟨_, h2⟩ | ⟨h1, _⟩
      · exact h2
      · omega
    have hshape : appendEscape q.numHash ++ [r] ++ tail = 0x5C :: (hashes q.numHash ++ r :: tail) := by
      simp [appendEscape]
    rw [hshape]
    have huc : unquoteChar (0x5C :: (hashes q.numHash ++ r :: tail)) q = .ok (.char r false, tail) := by
      rw [uc_backslash q hq]
      rcases hr with h | h
      · rcases hf with g | g <;> simp [unquoteEscape, h, hqc, g.1]
      · simp [unquoteEscape, h]
    rw [loop_step_char q _ _ (by decide) (by decide) r false tail huc (by omega)]
    rw [pushChar_good hu buf false (fun _ => hr80)]
  · next hnq =>
    have hnq' : r ≠ f.quote ∧ r ≠ 0x5C := by simpa using hnq
    split
    · -- printed raw
      next hp =>
      have hctl := Form.isPrint_not_ctl hE f r hp
      rcases hu with ⟨h1, h2⟩ | ⟨h1, h2, h3, h4⟩
      · subst h2
        rw [encodeRune_ascii r h1]
        have huc := uc_plain q r tail h1 hctl.1 hnq'.2 (by rw [hqc]; exact hnq'.1)
        show unquoteLoop q (fuel + 1) (r :: tail) buf sn we = _
        rw [loop_step_char q r tail hctl.2.2 hctl.2.1 r false tail huc (by omega)]
        have hm : r % 256 = r := by omega
        simp [pushChar, hm]
      · have huc := uc_multibyte q hq r tail h1 h2 h3
        have hb := encodeRune_bytes_high r h1
        have hl := encodeRune_length r h1
        match he : encodeRune r with
        | [] => rw [he] at hl; simp at hl
        | c :: cs =>
          rw [he] at huc hb
          have hc := (hb c (by simp)).1
          show unquoteLoop q (fuel + 1) (c :: (cs ++ tail)) buf sn we = _
          rw [loop_step_char q c (cs ++ tail) (by omega) (by omega) r true tail huc h3]
          simp [pushChar, ← h4, he]
    · -- escaped
      have hx : f.exact = true → q.char = 0x27 := by
        intro hex; rcases hf with g | g
        · rw [g.2] at hex; cases hex
        · rw [hqc]; exact g.1
      obtain ⟨e, t', mb, hsh, hue, hmb⟩ := esc_body_uc q f.exact r tail hx hu.le
      have hshape : appendEscape q.numHash ++ escapeBody f.exact r ++ tail
          = 0x5C :: (hashes q.numHash ++ e :: t') := by
        simp only [appendEscape, List.cons_append, List.append_assoc, hsh]
      rw [hshape]
      have huc : unquoteChar (0x5C :: (hashes q.numHash ++ e :: t')) q = .ok (.char r mb, tail) := by
        rw [uc_backslash q hq, hue]
      rw [loop_step_char q _ _ (by decide) (by decide) r mb tail huc hu.notSur]
      rw [pushChar_good hu buf mb hmb]

/-- the `\xNN` escape of a byte that is not valid UTF-8 (bytes form only) -/
theorem step_badbyte (q : QuoteInfo) (hq : q.char = 0x27) (b0 : Nat) (hb : b0 < 256)
    (tail buf : Bytes) (fuel : Nat) (sn we : Bool) :
    unquoteLoop q (fuel + 1)
      (appendEscape q.numHash ++ [0x78, hexDigit (b0 / 16 % 16), hexDigit (b0 % 16)] ++ tail) buf sn we
      = unquoteLoop q fuel tail (buf ++ [b0]) false false := by
  have hshape : appendEscape q.numHash ++ [0x78, hexDigit (b0 / 16 % 16), hexDigit (b0 % 16)] ++ tail
      = 0x5C :: (hashes q.numHash ++ 0x78 :: (hexDigit (b0 / 16 % 16) :: hexDigit (b0 % 16) :: tail)) := by
    simp [appendEscape]
  rw [hshape]
  have hv := hexVal_two b0 hb
  have huc : unquoteChar (0x5C :: (hashes q.numHash ++ 0x78 :: (hexDigit (b0 / 16 % 16) :: hexDigit (b0 % 16) :: tail))) q
      = .ok (.char b0 false, tail) := by
    rw [uc_backslash q (Or.inr hq)]
    simp [unquoteEscape, hv, hq]
  rw [loop_step_char q _ _ (by decide) (by decide) b0 false tail huc (by omega)]
  have hm : b0 % 256 = b0 := by omega
  simp [pushChar, hm]

/-! ### decoding a unit of the source string -/

theorem IsBytes.tail {b : Nat} {s : Bytes} (h : IsBytes (b :: s)) : IsBytes s :=
  fun x hx => h x (List.mem_cons_of_mem _ hx)

theorem IsBytes.drop {s : Bytes} (h : IsBytes s) (n : Nat) : IsBytes (s.drop n) :=
  fun x hx => h x (List.mem_of_mem_drop hx)

theorem take_drop_unit (b0 : Nat) (rest : Bytes) (w : Nat) (hw : 1 ≤ w) :
    (b0 :: rest).take w ++ rest.drop (w - 1) = b0 :: rest := by
  obtain ⟨k, rfl⟩ : ∃ k, w = k + 1 := ⟨w - 1, by omega⟩
  simp [List.take_succ_cons]

/-- what the Go loops see at the head of a string: either a good unit together with the
bytes it occupies, or an invalid byte (width 1, RuneError) -/
theorem decodeFirst_cases (b0 : Nat) (rest : Bytes) :
    (1 ≤ (decodeFirst b0 rest).2) ∧
    ((GoodUnit (decodeFirst b0 rest).1 ((b0 :: rest).take (decodeFirst b0 rest).2) ∧
        ¬ (0x80 ≤ b0 ∧ (decodeFirst b0 rest).2 = 1)) ∨
     (0x80 ≤ b0 ∧ (decodeFirst b0 rest).2 = 1 ∧ (decodeFirst b0 rest).1 = 0xFFFD)) := by
  unfold decodeFirst
  split
  · next h =>
    refine ⟨by simp, Or.inl ⟨Or.inl ⟨h, by simp⟩, by omega⟩⟩
  · next h =>
    have hw := decodeRune_width_pos b0 rest
    refine ⟨hw.1, ?_⟩
    by_cases h1 : (decodeRune (b0 :: rest)).2 = 1
    · right
      have := decodeRune_width_one b0 rest h1
      refine ⟨by omega, h1, ?_⟩
      rcases this with ⟨_, h3⟩ | ⟨h2, _⟩
      · omega
      · exact h2
    · left
      have h2 : 2 ≤ (decodeRune (b0 :: rest)).2 := by omega
      have := encodeRune_decodeRune (b0 :: rest) h2
      exact ⟨Or.inr ⟨this.2.2.1, this.2.2.2.1, this.2.2.2.2, this.1⟩, by omega⟩

theorem encodeRune_ne_nil (r : Nat) : 1 ≤ (encodeRune r).length := by
  unfold encodeRune; repeat' split
  all_goals simp

theorem appendEscapedRune_pos (E : Env) (f : Form) (ml : Bool) (h r : Nat) :
    1 ≤ (appendEscapedRune E f ml h r).length := by
  unfold appendEscapedRune
  split
  · simp [appendEscape]
  split
  · exact encodeRune_ne_nil r
  · simp [appendEscape]

theorem escapeLoop_cons_good (E : Env) (f : Form) (h b0 : Nat) (rest : Bytes)
    (hbr : (f.exact && (decodeFirst b0 rest).2 == 1 && (decodeFirst b0 rest).1 == 0xFFFD) = false) :
    escapeLoop E f false h (b0 :: rest) =
      appendEscapedRune E f false h (decodeFirst b0 rest).1 ++
        escapeLoop E f false h (rest.drop ((decodeFirst b0 rest).2 - 1)) := by
  conv => lhs; unfold escapeLoop
  simp only [hbr, Bool.false_and, Bool.false_eq_true, if_false]

theorem escapeLoop_cons_bad (E : Env) (f : Form) (h b0 : Nat) (rest : Bytes)
    (hbr : (f.exact && (decodeFirst b0 rest).2 == 1 && (decodeFirst b0 rest).1 == 0xFFFD) = true) :
    escapeLoop E f false h (b0 :: rest) =
      appendEscape h ++ [0x78, hexDigit (b0 / 16 % 16), hexDigit (b0 % 16)] ++ escapeLoop E f false h rest := by
  conv => lhs; unfold escapeLoop
  simp only [hbr, if_true]

/-! ### C09_roundtrip_single: the loop over a whole single-line body -/

theorem loop_single {E : Env} (hE : E.Ok) (f : Form) (hf : f.WF) (q : QuoteInfo)
    (hqc : q.char = f.quote) (hm : q.multiline = false) :
    ∀ (n : Nat) (s : Bytes), s.length ≤ n → IsBytes s → (f.exact = true ∨ validUTF8 s = true) →
    ∀ (fuel : Nat) (buf : Bytes), (escapeLoop E f false q.numHash s).length + 1 ≤ fuel →
      unquoteLoop q fuel (escapeLoop E f false q.numHash s ++ (q.char :: hashes q.numHash)) buf false false
        = .ok (buf ++ s) := by
  have hq : q.char = 0x22 ∨ q.char = 0x27 := by rcases hf with h | h <;> simp [hqc, h.1]
  intro n
  induction n with
  | zero =>
    intro s hn _ _ fuel buf hfuel
    have : s = [] := List.length_eq_zero_iff.mp (by omega)
    subst this
    obtain ⟨k, rfl⟩ : ∃ k, fuel = k + 1 := ⟨fuel - 1, by omega⟩
    simp [escapeLoop, loop_step_close q hq hm]
  | succ n ih =>
    intro s hn hb hv fuel buf hfuel
    match s with
    | [] =>
      obtain ⟨k, rfl⟩ : ∃ k, fuel = k + 1 := ⟨fuel - 1, by omega⟩
      simp [escapeLoop, loop_step_close q hq hm]
    | b0 :: rest =>
      obtain ⟨k, rfl⟩ : ∃ k, fuel = k + 1 := ⟨fuel - 1, by omega⟩
      have hb0 : b0 < 256 := hb b0 (by simp)
      have hlen : rest.length ≤ n := by simp at hn; omega
      obtain ⟨hw1, hcase⟩ := decodeFirst_cases b0 rest
      rcases hcase with ⟨hgood, hnot⟩ | ⟨h80, hw, hr⟩
      · -- a good unit
        have hbr : (f.exact && (decodeFirst b0 rest).2 == 1 && (decodeFirst b0 rest).1 == 0xFFFD) = false := by
          by_cases hx : (decodeFirst b0 rest).2 = 1
          · -- width 1 and not (b0 ≥ 0x80): ASCII, rune = b0 < 0x80 ≠ 0xFFFD
            have hlt : b0 < 0x80 := by omega
            have : (decodeFirst b0 rest).1 = b0 := by simp [decodeFirst, hlt]
            have hne : ((decodeFirst b0 rest).1 == 0xFFFD) = false := by
              rw [this]; simp; omega
            simp [hne]
          · have : ((decodeFirst b0 rest).2 == 1) = false := by simpa using hx
            simp [this]
        rw [escapeLoop_cons_good E f _ b0 rest hbr] at hfuel ⊢
        have hpos := appendEscapedRune_pos E f false q.numHash (decodeFirst b0 rest).1
        simp only [List.append_assoc]
        rw [step_rune hE f hf q hqc _ _ hgood]
        have hv' : f.exact = true ∨ validUTF8 (rest.drop ((decodeFirst b0 rest).2 - 1)) = true := by
          rcases hv with h | h
          · exact Or.inl h
          · right
            unfold validUTF8 at h
            have : (decide (0x80 ≤ b0) && (decodeFirst b0 rest).2 == 1) = false := by
              simp only [Bool.and_eq_false_iff, decide_eq_false_iff_not, beq_eq_false_iff_ne]
              by_cases h80 : 0x80 ≤ b0
              · right; intro hh; exact hnot ⟨h80, hh⟩
              · left; exact h80
            simpa [this] using h
        have hlen' : (rest.drop ((decodeFirst b0 rest).2 - 1)).length ≤ n := by
          simp only [List.length_drop]; omega
        have hk' : (escapeLoop E f false q.numHash (rest.drop ((decodeFirst b0 rest).2 - 1))).length + 1 ≤ k := by
          simp only [List.length_append] at hfuel; omega
        rw [ih _ hlen' (hb.tail.drop _) hv' k _ hk']
        rw [List.append_assoc, take_drop_unit b0 rest _ hw1]
      · -- an invalid byte: only the bytes form gets here
        have hx : f.exact = true := by
          rcases hv with h | h
          · exact h
          · unfold validUTF8 at h
            have : (decide (0x80 ≤ b0) && (decodeFirst b0 rest).2 == 1) = true := by simp [h80, hw]
            simp [this] at h
        have hq27 : q.char = 0x27 := by
          rcases hf with g | g
          · rw [g.2] at hx; cases hx
          · rw [hqc]; exact g.1
        have hbr : (f.exact && (decodeFirst b0 rest).2 == 1 && (decodeFirst b0 rest).1 == 0xFFFD) = true := by
          simp [hx, hw, hr]
        rw [escapeLoop_cons_bad E f _ b0 rest hbr] at hfuel ⊢
        have hk : (escapeLoop E f false q.numHash rest).length + 1 ≤ k := by
          simp only [List.length_append, List.length_cons] at hfuel; omega
        simp only [List.append_assoc]
        have := step_badbyte q hq27 b0 hb0 (escapeLoop E f false q.numHash rest ++ (q.char :: hashes q.numHash)) buf k false false
        simp only [List.append_assoc] at this
        rw [this]
        rw [ih rest hlen hb.tail (Or.inl hx) k _ hk]
        simp

/-! ### facts about the bytes of a single-line body (needed by `ParseQuotes` and the fast path) -/

/-- induction principle along the units of the source string for single-line bodies -/
theorem escapeLoop_ind {E : Env} (f : Form) (h : Nat) (P : Bytes → Bytes → Prop)
    (h0 : P [] [])
    (hgood : ∀ r orig s', GoodUnit r orig → P s' (escapeLoop E f false h s') →
      P (orig ++ s') (appendEscapedRune E f false h r ++ escapeLoop E f false h s'))
    (hbad : ∀ b0 s', f.exact = true → 0x80 ≤ b0 → b0 < 256 → P s' (escapeLoop E f false h s') →
      P (b0 :: s') (appendEscape h ++ [0x78, hexDigit (b0 / 16 % 16), hexDigit (b0 % 16)] ++
        escapeLoop E f false h s')) :
    ∀ (n : Nat) (s : Bytes), s.length ≤ n → IsBytes s → (f.exact = true ∨ validUTF8 s = true) →
      P s (escapeLoop E f false h s) := by
  intro n
  induction n with
  | zero =>
    intro s hn _ _
    have : s = [] := List.length_eq_zero_iff.mp (by omega)
    subst this
    simpa [escapeLoop] using h0
  | succ n ih =>
    intro s hn hb hv
    match s with
    | [] => simpa [escapeLoop] using h0
    | b0 :: rest =>
      have hb0 : b0 < 256 := hb b0 (by simp)
      have hlen : rest.length ≤ n := by simp at hn; omega
      obtain ⟨hw1, hcase⟩ := decodeFirst_cases b0 rest
      rcases hcase with ⟨hgood', hnot⟩ | ⟨h80, hw, hr⟩
      · have hbr : (f.exact && (decodeFirst b0 rest).2 == 1 && (decodeFirst b0 rest).1 == 0xFFFD) = false := by
          by_cases hx : (decodeFirst b0 rest).2 = 1
          · have hlt : b0 < 0x80 := by omega
            have : (decodeFirst b0 rest).1 = b0 := by simp [decodeFirst, hlt]
            have hne : ((decodeFirst b0 rest).1 == 0xFFFD) = false := by
              rw [this]; simp; omega
            simp [hne]
          · have : ((decodeFirst b0 rest).2 == 1) = false := by simpa using hx
            simp [this]
        rw [escapeLoop_cons_good E f _ b0 rest hbr]
        have hv' : f.exact = true ∨ validUTF8 (rest.drop ((decodeFirst b0 rest).2 - 1)) = true := by
          rcases hv with h | h
          · exact Or.inl h
          · right
            unfold validUTF8 at h
            have : (decide (0x80 ≤ b0) && (decodeFirst b0 rest).2 == 1) = false := by
              simp only [Bool.and_eq_false_iff, decide_eq_false_iff_not, beq_eq_false_iff_ne]
              by_cases h80 : 0x80 ≤ b0
              · right; intro hh; exact hnot ⟨h80, hh⟩
              · left; exact h80
            simpa [this] using h
        have hlen' : (rest.drop ((decodeFirst b0 rest).2 - 1)).length ≤ n := by
          simp only [List.length_drop]; omega
        have := hgood _ _ _ hgood' (ih _ hlen' (hb.tail.drop _) hv')
        rwa [take_drop_unit b0 rest _ hw1] at this
      · have hx : f.exact = true := by
          rcases hv with h | h
          · exact h
          · unfold validUTF8 at h
            have : (decide (0x80 ≤ b0) && (decodeFirst b0 rest).2 == 1) = true := by simp [h80, hw]
            simp [this] at h
        have hbr : (f.exact && (decodeFirst b0 rest).2 == 1 && (decodeFirst b0 rest).1 == 0xFFFD) = true := by
          simp [hx, hw, hr]
        rw [escapeLoop_cons_bad E f _ b0 rest hbr]
        exact hbad b0 rest hx h80 hb0 (ih rest hlen hb.tail (Or.inl hx))

theorem hexDigit_ge (d : Nat) : 48 ≤ hexDigit d := by
  unfold hexDigit; split <;> omega

theorem escapeBody_ge48 (x : Bool) (r : Nat) : ∀ b ∈ escapeBody x r, 48 ≤ b := by
  have H := hexDigit_ge
  intro b hb
  unfold escapeBody at hb
  repeat' split at hb
  all_goals
    simp only [List.mem_cons, List.mem_nil_iff, or_false] at hb
    rcases hb with rfl | rfl | rfl | rfl | rfl | rfl | rfl | rfl | rfl <;> first | exact H _ | decide

theorem isSimple_backslash (q : Nat) (t : Bytes) : isSimple q (0x5C :: t) = false := by
  unfold isSimple
  simp [decodeRune_ascii 0x5C t (by decide)]

theorem isSimple_ascii_tail (q r : Nat) (t : Bytes) (h : r < 0x80) (hs : isSimple q (r :: t) = true) :
    isSimple q t = true := by
  unfold isSimple at hs
  rw [decodeRune_ascii r t h] at hs
  dsimp only at hs
  split at hs
  · cases hs
  split at hs
  · cases hs
  · simpa using hs

theorem isSimple_mb_tail (q r : Nat) (t : Bytes) (h1 : 0x80 ≤ r) (h2 : r ≤ 0x10FFFF)
    (h3 : ¬ (0xD800 ≤ r ∧ r < 0xE000)) (hs : isSimple q (encodeRune r ++ t) = true) :
    isSimple q t = true := by
  have hd := decodeRune_encodeRune r t h1 h2 h3
  have hl := encodeRune_length r h1
  match he : encodeRune r with
  | [] => rw [he] at hl; simp at hl
  | c :: cs =>
    rw [he] at hd hs
    have hd' : decodeRune (c :: (cs ++ t)) = (r, (c :: cs).length) := by simpa using hd
    simp only [List.cons_append] at hs
    unfold isSimple at hs
    rw [hd'] at hs
    dsimp only at hs
    split at hs
    · cases hs
    split at hs
    · cases hs
    · simpa using hs

/-- what one good unit contributes to a single-line body without hashes -/
theorem chunk_facts {E : Env} (hE : E.Ok) (f : Form) (hf : f.WF) (r : Nat) (orig : Bytes)
    (hu : GoodUnit r orig) :
    (∀ b ∈ appendEscapedRune E f false 0 r, b ≠ 10) ∧
    (appendEscapedRune E f false 0 r).head? ≠ some f.quote ∧
    (∀ t, isSimple f.quote (appendEscapedRune E f false 0 r ++ t) = true →
      appendEscapedRune E f false 0 r = orig ∧ isSimple f.quote t = true) := by
  have hq : f.quote = 0x22 ∨ f.quote = 0x27 := by rcases hf with h | h <;> simp [h.1]
  unfold appendEscapedRune
  split
  · next h =>
    have hr : r = f.quote ∨ r = 0x5C := by simpa using h
    have hr10 : r ≠ 10 := by rcases hr with h | h <;> rcases hq with g | g <;> simp [h, g]
    refine ⟨?_, ?_, ?_⟩
    · intro b hb
      simp [appendEscape, hashes] at hb
      rcases hb with rfl | rfl
      · decide
      · exact hr10
    · rcases hq with g | g <;> simp [appendEscape, hashes, g]
    · intro t hs
      simp only [appendEscape, hashes, List.replicate, List.cons_append, List.nil_append] at hs
      rw [isSimple_backslash] at hs; cases hs
  · next hnq =>
    have hnq' : r ≠ f.quote ∧ r ≠ 0x5C := by simpa using hnq
    split
    · next hp =>
      have hctl := Form.isPrint_not_ctl hE f r hp
      rcases hu with ⟨h1, h2⟩ | ⟨h1, h2, h3, h4⟩
      · subst h2
        rw [encodeRune_ascii r h1]
        refine ⟨?_, ?_, ?_⟩
        · intro b hb; simp at hb; subst hb; exact hctl.2.1
        · simp; exact hnq'.1
        · intro t hs; exact ⟨rfl, isSimple_ascii_tail _ r t h1 hs⟩
      · have hbh := encodeRune_bytes_high r h1
        have hl := encodeRune_length r h1
        refine ⟨?_, ?_, ?_⟩
        · intro b hb; have := (hbh b hb).1; omega
        · match he : encodeRune r with
          | [] => rw [he] at hl; simp at hl
          | c :: cs =>
            have := (hbh c (by rw [he]; simp)).1
            simp only [List.head?_cons, ne_eq, Option.some.injEq]
            rcases hq with g | g <;> rw [g] <;> omega
        · intro t hs; exact ⟨h4, isSimple_mb_tail _ r t h1 h2 h3 hs⟩
    · refine ⟨?_, ?_, ?_⟩
      · intro b hb
        simp only [appendEscape, hashes, List.replicate, List.cons_append, List.nil_append,
          List.mem_cons] at hb
        rcases hb with rfl | hb
        · decide
        · have := escapeBody_ge48 f.exact r b hb; omega
      · rcases hq with g | g <;> simp [appendEscape, hashes, g]
      · intro t hs
        simp only [appendEscape, hashes, List.replicate, List.cons_append, List.nil_append] at hs
        rw [isSimple_backslash] at hs; cases hs

/-- the three facts about a whole single-line body without hashes -/
theorem body_facts {E : Env} (hE : E.Ok) (f : Form) (hf : f.WF) (s : Bytes) (hb : IsBytes s)
    (hv : f.exact = true ∨ validUTF8 s = true) :
    (∀ b ∈ escapeLoop E f false 0 s, b ≠ 10) ∧
    (escapeLoop E f false 0 s).head? ≠ some f.quote ∧
    (isSimple f.quote (escapeLoop E f false 0 s) = true → escapeLoop E f false 0 s = s) := by
  have hq : f.quote = 0x22 ∨ f.quote = 0x27 := by rcases hf with h | h <;> simp [h.1]
  refine escapeLoop_ind (E := E) f 0
    (fun s body => (∀ b ∈ body, b ≠ 10) ∧ body.head? ≠ some f.quote ∧
      (isSimple f.quote body = true → body = s)) ?_ ?_ ?_ s.length s (Nat.le_refl _) hb hv
  · exact ⟨by simp, by simp, fun _ => rfl⟩
  · intro r orig s' hu ih
    obtain ⟨c1, c2, c3⟩ := chunk_facts hE f hf r orig hu
    have hpos := appendEscapedRune_pos E f false 0 r
    refine ⟨?_, ?_, ?_⟩
    · intro b hb
      rcases List.mem_append.mp hb with h | h
      · exact c1 b h
      · exact ih.1 b h
    · match he : appendEscapedRune E f false 0 r with
      | [] => rw [he] at hpos; simp at hpos
      | c :: cs => rw [he] at c2; simpa using c2
    · intro hs
      obtain ⟨e1, e2⟩ := c3 _ hs
      rw [e1, ih.2.2 e2]
  · intro b0 s' hx h80 hb0 ih
    refine ⟨?_, ?_, ?_⟩
    · intro b hb
      simp only [appendEscape, hashes, List.replicate, List.cons_append, List.nil_append,
        List.mem_cons, List.mem_append] at hb
      have g1 := hexDigit_ge (b0 / 16 % 16)
      have g2 := hexDigit_ge (b0 % 16)
      rcases hb with rfl | rfl | rfl | rfl | hb
      · decide
      · decide
      · omega
      · omega
      · exact ih.1 b hb
    · rcases hq with g | g <;> simp [appendEscape, hashes, g]
    · intro hs
      simp only [appendEscape, hashes, List.replicate, List.cons_append, List.nil_append] at hs
      rw [isSimple_backslash] at hs; cases hs

/-! ### `ParseQuotes` and `QuoteInfo.Unquote` on a single-line literal without hashes -/

theorem parseQuotes_single (q : Nat) (hq : q = 0x22 ∨ q = 0x27) (body : Bytes)
    (hh : body.head? ≠ some q) :
    parseQuotes (q :: (body ++ [q])) =
      .ok ({ char := q, numHash := 0, multiline := false, whitespace := [] }, 1) := by
  match body with
  | [] => rcases hq with rfl | rfl <;> simp [parseQuotes, hashRun]
  | b :: bs =>
    have hb : b ≠ q := by simpa using hh
    have hb' : (b == q) = false := by simpa using hb
    rcases hq with rfl | rfl <;> simp [parseQuotes, hashRun, hb, hb']

/-- the plain single-line form (hash count 0): `Unquote(Quote(s)) = s` -/
theorem roundtrip_single_plain {E : Env} (hE : E.Ok) (slhc : Env → Form → Bytes → Nat) (f : Form)
    (hf : f.WF) (s : Bytes) (hb : IsBytes s) (hv : f.exact = true ∨ validUTF8 s = true)
    (hml : f.effMultiline s = false) (hh : hashCountWith slhc E f false s = 0) :
    unquote (quoteWith slhc E f s) = .ok s := by
  have hq : f.quote = 0x22 ∨ f.quote = 0x27 := by rcases hf with h | h <;> simp [h.1]
  obtain ⟨f1, f2, f3⟩ := body_facts hE f hf s hb hv
  have hlit : quoteWith slhc E f s = f.quote :: (escapeLoop E f false 0 s ++ [f.quote]) := by
    simp [quoteWith, hml, hh, hashes, appendEscaped]
  rw [hlit]
  unfold unquote
  rw [parseQuotes_single f.quote hq _ f2]
  simp only [List.drop_succ_cons, List.drop_zero]
  -- QuoteInfo.unquote
  have hq10 : f.quote ≠ 10 := by rcases hq with g | g <;> simp [g]
  have hc : (escapeLoop E f false 0 s ++ [f.quote]).contains 10 = false := by
    rw [Bool.eq_false_iff]
    intro hc
    rw [List.contains_iff_mem] at hc
    rcases List.mem_append.mp hc with h | h
    · exact f1 10 h rfl
    · simp at h; exact hq10 h.symm
  unfold QuoteInfo.unquote
  simp only [hc, Bool.and_false, Bool.false_eq_true, if_false]
  by_cases hs : isSimple f.quote (escapeLoop E f false 0 s) = true
  · have := f3 hs
    rw [this] at hs
    simp [this, hs]
  · have hs' : isSimple f.quote (escapeLoop E f false 0 s) = false := by simpa using hs
    simp only [List.dropLast_concat, hs', Bool.and_false, Bool.false_eq_true, if_false, Bool.false_and]
    have key : ∀ (fuel : Nat) (buf : Bytes), (escapeLoop E f false 0 s).length + 1 ≤ fuel →
        unquoteLoop { char := f.quote, numHash := 0, multiline := false, whitespace := [] } fuel
          (escapeLoop E f false 0 s ++ (f.quote :: hashes 0)) buf false false = .ok (buf ++ s) :=
      loop_single hE f hf { char := f.quote, numHash := 0, multiline := false, whitespace := [] }
        rfl rfl s.length s (Nat.le_refl _) hb hv
    have := key ((escapeLoop E f false 0 s ++ [f.quote]).length + 1) []
      (by simp only [List.length_append, List.length_cons, List.length_nil]; omega)
    simpa [hashes] using this

end CueVerif.Quote
