import CueVerif.Proofs.ModzipPath
import CueVerif.Proofs.ModzipSizes
import CueVerif.Proofs.ModzipColl
/-!
C15: `create` (= modzip.Create after sorting) only emits archives that `checkZip`
(= modzip.CheckZip) accepts, with the same list of valid names.

Sections: create unfolding; simulation of the collision checker on a sub-map; `splitCUEMod` /
`inSubmodule` on good names; the cue.mod placement rules on a valid name; one `czStep` on a valid
name; the fold over the files; the final theorem.
-/
namespace CueVerif.Modzip

/-! ### create unfolding -/

/-- what Open delivers for the valid entry `e`: content of the first source file with that Lstat -/
def srcOf (files : List SrcFile) (e : FEnt) : List Nat :=
  match files.find? (fun s => s.ent = e) with
  | some s => s.content
  | none => []

/-- the archive entry `create` writes for a valid entry -/
def mkEnt (files : List SrcFile) (e : FEnt) : ZEnt :=
  { name := e.path, declared := (srcOf files e).length, data := srcOf files e }

theorem create_eq (U : Uni) (files : List SrcFile) :
    create U files =
      if (checkFiles U (files.map (·.ent))).1.isErr then none
      else if (checkFiles U (files.map (·.ent))).2.any
          (fun e => decide ((srcOf files e).length > e.size.toNat)) then none
      else some ((checkFiles U (files.map (·.ent))).2.map (mkEnt files)) := rfl

theorem create_some (U : Uni) (files : List SrcFile) (z : List ZEnt)
    (hc : create U files = some z) :
    (checkFiles U (files.map (·.ent))).1.isErr = false ∧
    (∀ e ∈ (checkFiles U (files.map (·.ent))).2, (srcOf files e).length ≤ e.size.toNat) ∧
    z = (checkFiles U (files.map (·.ent))).2.map (mkEnt files) := by
  rw [create_eq] at hc
  split at hc
  · cases hc
  · rename_i h1
    split at hc
    · cases hc
    · rename_i h2
      refine ⟨by simpa using h1, ?_, (Option.some.inj hc).symm⟩
      intro e he
      have h3 : ¬ ∃ x ∈ (checkFiles U (files.map (·.ent))).2,
          decide ((srcOf files x).length > x.size.toNat) = true := by
        intro hx; exact h2 (List.any_eq_true.mpr hx)
      have h4 : ¬ (srcOf files e).length > e.size.toNat := fun hgt =>
        h3 ⟨e, he, by simpa using hgt⟩
      omega

theorem srcOf_spec (files : List SrcFile) (e : FEnt) (he : e ∈ files.map (·.ent)) :
    ∃ s ∈ files, s.ent = e ∧ srcOf files e = s.content := by
  obtain ⟨s0, hs0, hs0e⟩ := List.mem_map.mp he
  unfold srcOf
  cases hf : files.find? (fun s => s.ent = e) with
  | none =>
    have := List.find?_eq_none.mp hf s0 hs0
    simp [hs0e] at this
  | some s =>
    refine ⟨s, List.mem_of_find?_eq_some hf, ?_, rfl⟩
    have := List.find?_some hf
    simpa using this

/-! ### the collision checker on a sub-map -/

theorem ccMono_cons_left {small big : CC} {k : List Nat} {v : Str × Bool}
    (h : CCMono small big) (hk : ccLookup big k = some v) : CCMono ((k, v) :: small) big := by
  intro k' v' h'
  simp only [ccLookup] at h'
  split at h'
  · rename_i hkk
    subst hkk
    cases h'
    exact hk
  · exact h _ _ h'

/-- if the check of `p` succeeds on a map, it succeeds on every sub-map, and the results are
again sub-map and map -/
theorem ccCheck_sim (U : Uni) (fuel : Nat) (small big big' : CC) (p : Str) (d : Bool)
    (hsub : CCMono small big) (h : ccCheck U fuel big p d = (big', none)) :
    ∃ small', ccCheck U fuel small p d = (small', none) ∧ CCMono small' big' := by
  induction fuel generalizing small big p d with
  | zero =>
    refine ⟨small, rfl, ?_⟩
    have : big' = big := (Prod.mk.inj h).1.symm
    rw [this]; exact hsub
  | succ fuel ih =>
    obtain ⟨cc1, hm1, hl1, hfile, hrec⟩ := Coll.ccCheck_step_ok U fuel big big' p d h
    rw [Coll.ccCheck_succ]
    cases hl : ccLookup small (foldKey U p) with
    | none =>
      have hs1 : CCMono ((foldKey U p, p, d) :: small) cc1 :=
        ccMono_cons_left (hsub.trans hm1) hl1
      dsimp only
      by_cases hp : pathDir p ≠ sDot
      · rw [if_pos hp] at hrec ⊢
        exact ih _ _ _ _ hs1 hrec
      · rw [if_neg hp] at hrec ⊢
        exact ⟨_, rfl, by rw [hrec]; exact hs1⟩
    | some v =>
      obtain ⟨op, oDir⟩ := v
      have hb : ccLookup big (foldKey U p) = some (op, oDir) := hsub _ _ hl
      have hv : (op, oDir) = (p, d) := by
        have := hm1 _ _ hb
        rw [hl1] at this
        exact (Option.some.inj this).symm
      obtain ⟨rfl, rfl⟩ := Prod.mk.inj hv
      have hd : oDir = true := by
        cases oDir with
        | true => rfl
        | false => rw [hfile rfl] at hb; cases hb
      subst hd
      have hs1 : CCMono small cc1 := hsub.trans hm1
      simp only [ne_eq, not_true_eq_false, if_false, Bool.not_true, Bool.false_eq_true]
      by_cases hp : pathDir op ≠ sDot
      · rw [if_pos hp] at hrec
        rw [if_pos hp]
        exact ih _ _ _ _ hs1 hrec
      · rw [if_neg hp] at hrec
        rw [if_neg hp]
        exact ⟨_, rfl, by rw [hrec]; exact hs1⟩

theorem ccCheckTop_sim (U : Uni) (small big big' : CC) (p : Str) (d : Bool)
    (hsub : CCMono small big) (h : ccCheckTop U big p d = (big', none)) :
    ∃ small', ccCheckTop U small p d = (small', none) ∧ CCMono small' big' :=
  ccCheck_sim U _ small big big' p d hsub h

/-! ### byte-string helpers -/

theorem ne47_of_not_mem {e : Str} (h : 47 ∉ e) : ∀ a ∈ e, (a != 47) = true := by
  intro a ha
  simp only [bne_iff_ne, ne_eq]
  rintro rfl
  exact h ha

theorem dropWhile_all (p : Nat → Bool) (l : Str) (h : ∀ a ∈ l, p a = true) :
    l.dropWhile p = [] := by
  induction l with
  | nil => rfl
  | cons c cs ih =>
    rw [List.dropWhile_cons_of_pos (h c List.mem_cons_self)]
    exact ih (fun a ha => h a (List.mem_cons_of_mem _ ha))

theorem takeWhile_all (p : Nat → Bool) (l : Str) (h : ∀ a ∈ l, p a = true) :
    l.takeWhile p = l := by
  induction l with
  | nil => rfl
  | cons c cs ih =>
    rw [List.takeWhile_cons_of_pos (h c List.mem_cons_self),
      ih (fun a ha => h a (List.mem_cons_of_mem _ ha))]

theorem pathSplit_single (e : Str) (h : 47 ∉ e) : pathSplit e = ([], e) := by
  have h1 : ∀ a ∈ e.reverse, (a != 47) = true :=
    fun a ha => ne47_of_not_mem h a (List.mem_reverse.mp ha)
  have hd : e.reverse.dropWhile (· != 47) = [] := dropWhile_all _ _ h1
  have ht : e.reverse.takeWhile (· != 47) = e.reverse := takeWhile_all _ _ h1
  unfold pathSplit
  simp only [hd, ht, List.reverse_nil, List.reverse_reverse]

theorem pathSplit_concat2 (q e : Str) (h : 47 ∉ e) :
    pathSplit (q ++ 47 :: e) = (q ++ [47], e) := by
  have h1 : ∀ a ∈ e.reverse, (a != 47) = true :=
    fun a ha => ne47_of_not_mem h a (List.mem_reverse.mp ha)
  have hfst := Coll.pathSplit_concat q e h
  have hsnd : (pathSplit (q ++ 47 :: e)).2 = e := by
    unfold pathSplit
    simp only [List.reverse_append, List.reverse_cons, List.append_assoc, List.singleton_append]
    rw [List.takeWhile_append_of_pos h1]
    simp
  exact Prod.ext hfst hsnd

theorem trimRightSlash_nil : trimRightSlash [] = [] := rfl

theorem trimRightSlash_snoc (q : Str) (h : q.getLast? ≠ some 47) :
    trimRightSlash (q ++ [47]) = q := by
  unfold trimRightSlash
  simp only [List.reverse_append, List.reverse_cons, List.reverse_nil, List.nil_append,
    List.singleton_append]
  rw [List.dropWhile_cons_of_pos (by simp)]
  cases hq : q.reverse with
  | nil =>
    have : q = [] := List.reverse_eq_nil_iff.mp hq
    simp [this]
  | cons c cs =>
    have hqq : q = (c :: cs).reverse := by rw [← hq, List.reverse_reverse]
    have hc : c ≠ 47 := by
      intro hc
      apply h
      rw [hqq, hc]
      simp
    rw [List.dropWhile_cons_of_neg (by simpa using hc), hqq]

theorem cutAt_single (a : Str) (h : 47 ∉ a) : cutAt 47 a = (a, []) := by
  have h1 := ne47_of_not_mem h
  unfold cutAt
  rw [takeWhile_all _ _ h1, dropWhile_all _ _ h1]
  rfl

theorem cutAt_concat (a r : Str) (h : 47 ∉ a) : cutAt 47 (a ++ 47 :: r) = (a, r) := by
  have h1 := ne47_of_not_mem h
  unfold cutAt
  rw [List.takeWhile_append_of_pos h1, List.dropWhile_append_of_pos h1]
  simp

theorem joinSlash_append (xs ys : List Str) (hx : xs ≠ []) (hy : ys ≠ []) :
    joinSlash (xs ++ ys) = joinSlash xs ++ 47 :: joinSlash ys := by
  induction xs with
  | nil => exact absurd rfl hx
  | cons x xs ih =>
    cases xs with
    | nil => exact Coll.joinSlash_cons_of_ne_nil x ys hy
    | cons x' xs' =>
      rw [List.cons_append, Coll.joinSlash_cons_of_ne_nil x _ (by simp), ih (by simp),
        Coll.joinSlash_cons_of_ne_nil x (x' :: xs') (by simp)]
      simp

/-! ### case folding of an ASCII prefix -/

theorem runes_cons_ascii (b : Nat) (s : Str) (hb : b < 128) : runes (b :: s) = b :: runes s := by
  simp [runes, runesAux, decodeRune, hb]

theorem foldKey_cons_ascii (U : Uni) (b : Nat) (s : Str) (hb : b < 128) :
    foldKey U (b :: s) = foldRune U b :: foldKey U s := by
  simp [foldKey, runes_cons_ascii b s hb]

theorem equalFold_iff (U : Uni) (s t : Str) : equalFold U s t = true ↔ foldKey U s = foldKey U t := by
  simp [equalFold]

/-- "cue.mod/" ++ r folds to "cue.mod/module.cue" only when r folds to "module.cue" -/
theorem equalFold_cueModSlash (U : Uni) (r : Str)
    (h : equalFold U (sCueMod ++ 47 :: r) sCueModModule = true) :
    equalFold U r sModuleCue = true := by
  rw [equalFold_iff] at h ⊢
  have e : sCueModModule = sCueMod ++ 47 :: sModuleCue := by decide
  rw [e] at h
  simp only [sCueMod, List.cons_append, List.nil_append] at h
  repeat rw [foldKey_cons_ascii U _ _ (by decide)] at h
  simp only [List.cons.injEq, true_and] at h
  exact h

/-! ### `splitCUEMod` and `inSubmodule` on good names -/

theorem splitCUEModAux_succ (U : Uni) (p : Str) (fuel : Nat) (s : Str) :
    splitCUEModAux U p (fuel + 1) s =
      if equalFold U (pathSplit s).2 sCueMod then
        (p.take (pathSplit s).1.length, p.drop (pathSplit s).1.length)
      else if (trimRightSlash (pathSplit s).1).isEmpty then (p, [])
      else splitCUEModAux U p fuel (trimRightSlash (pathSplit s).1) := rfl

/-- the possible results of `splitCUEMod` on a good name: no element folds to "cue.mod"; or the
last such element is the first one; or it is a later one -/
theorem splitAux_char (U : Uni) (es : List Str) (hg : GoodElems es) (fuel : Nat) :
    ∀ (as bs : List Str), as ≠ [] → es = as ++ bs → as.length ≤ fuel →
    splitCUEModAux U (joinSlash es) fuel (joinSlash as) = (joinSlash es, []) ∨
    (splitCUEModAux U (joinSlash es) fuel (joinSlash as) = ([], joinSlash es) ∧
      ∃ a t, es = a :: t ∧ equalFold U a sCueMod = true) ∨
    (∃ xs ys, xs ≠ [] ∧ ys ≠ [] ∧ es = xs ++ ys ∧
      splitCUEModAux U (joinSlash es) fuel (joinSlash as) = (joinSlash xs ++ [47], joinSlash ys)) := by
  induction fuel with
  | zero =>
    intro as bs hne _ hlen
    cases as with
    | nil => exact absurd rfl hne
    | cons a as => simp at hlen
  | succ fuel ih =>
    intro as bs hne hes hlen
    rcases List.eq_nil_or_concat as with h0 | ⟨as0, a, h0⟩
    · exact absurd h0 hne
    rw [List.concat_eq_append] at h0
    subst h0
    have ha : GoodElem a := hg a (by rw [hes]; simp)
    rw [splitCUEModAux_succ]
    by_cases has0 : as0 = []
    · subst has0
      simp only [List.nil_append, joinSlash]
      rw [pathSplit_single a ha.2.2.2]
      dsimp only
      by_cases hf : equalFold U a sCueMod = true
      · rw [if_pos hf]
        refine Or.inr (Or.inl ⟨by simp, a, bs, by simpa using hes, hf⟩)
      · rw [if_neg hf]
        exact Or.inl (by simp [trimRightSlash_nil])
    · have hg0 : GoodElems as0 := fun x hx => hg x (by rw [hes]; simp [hx])
      rw [Coll.joinSlash_concat as0 a has0, pathSplit_concat2 _ _ ha.2.2.2]
      dsimp only
      have hes' : es = as0 ++ a :: bs := by rw [hes]; simp
      by_cases hf : equalFold U a sCueMod = true
      · rw [if_pos hf]
        refine Or.inr (Or.inr ⟨as0, a :: bs, has0, by simp, hes', ?_⟩)
        have hj : joinSlash es = (joinSlash as0 ++ [47]) ++ joinSlash (a :: bs) := by
          rw [hes', joinSlash_append as0 (a :: bs) has0 (by simp)]; simp
        rw [hj, List.take_left' rfl, List.drop_left' rfl]
      · rw [if_neg hf, trimRightSlash_snoc _ (Coll.joinSlash_getLast as0 has0 hg0)]
        have hne0 : (joinSlash as0).isEmpty = false := by
          simpa using Coll.joinSlash_ne_nil as0 has0 hg0
        rw [hne0]
        simp only [Bool.false_eq_true, if_false]
        apply ih as0 (a :: bs) has0 hes'
        simp only [List.length_append, List.length_cons, List.length_nil] at hlen
        omega

theorem splitCUEMod_char (U : Uni) (es : List Str) (hne : es ≠ []) (hg : GoodElems es) :
    splitCUEMod U (joinSlash es) = (joinSlash es, []) ∨
    (splitCUEMod U (joinSlash es) = ([], joinSlash es) ∧
      ∃ a t, es = a :: t ∧ equalFold U a sCueMod = true) ∨
    (∃ xs ys, xs ≠ [] ∧ ys ≠ [] ∧ es = xs ++ ys ∧
      splitCUEMod U (joinSlash es) = (joinSlash xs ++ [47], joinSlash ys)) := by
  have hlen := Coll.length_le_joinSlash es (fun e he => (hg e he).1)
  exact splitAux_char U es hg _ es [] hne (by simp) (by omega)

theorem inSubmoduleAux_succ (hv : List Str) (fuel : Nat) (p : Str) :
    inSubmoduleAux hv (fuel + 1) p =
      if (pathSplit p).1.isEmpty then false
      else if hv.contains (pathSplit p).1 then true
      else inSubmoduleAux hv fuel ((pathSplit p).1.take ((pathSplit p).1.length - 1)) := rfl

theorem inSubAux_true (hv : List Str) (xs : List Str) (hx : xs ≠ [])
    (hmem : (joinSlash xs ++ [47]) ∈ hv) (fuel : Nat) :
    ∀ (ys : List Str), GoodElems (xs ++ ys) → ys ≠ [] → (xs ++ ys).length ≤ fuel →
      inSubmoduleAux hv fuel (joinSlash (xs ++ ys)) = true := by
  induction fuel with
  | zero =>
    intro ys _ hy hlen
    cases ys with
    | nil => exact absurd rfl hy
    | cons a as => simp at hlen
  | succ fuel ih =>
    intro ys hg hy hlen
    rcases List.eq_nil_or_concat ys with h0 | ⟨ys0, a, h0⟩
    · exact absurd h0 hy
    rw [List.concat_eq_append] at h0
    subst h0
    have ha : GoodElem a := hg a (by simp)
    have hne0 : xs ++ ys0 ≠ [] := by simp [hx]
    have hg0 : GoodElems (xs ++ ys0) := fun x hxm => hg x (by
      rcases List.mem_append.mp hxm with h | h <;> simp [h])
    rw [← List.append_assoc, Coll.joinSlash_concat _ a hne0, inSubmoduleAux_succ,
      Coll.pathSplit_concat _ _ ha.2.2.2]
    have he : (joinSlash (xs ++ ys0) ++ [47]).isEmpty = false := by simp
    rw [he]
    simp only [Bool.false_eq_true, if_false]
    by_cases hc : hv.contains (joinSlash (xs ++ ys0) ++ [47]) = true
    · rw [if_pos hc]
    · rw [if_neg hc]
      have hy0 : ys0 ≠ [] := by
        intro h0
        subst h0
        apply hc
        simpa using hmem
      have ht : (joinSlash (xs ++ ys0) ++ [47]).take ((joinSlash (xs ++ ys0) ++ [47]).length - 1)
          = joinSlash (xs ++ ys0) := List.take_left' (by simp)
      rw [ht]
      apply ih ys0 hg0 hy0
      simp only [List.length_append, List.length_cons, List.length_nil] at hlen ⊢
      omega

theorem inSubmodule_true (hv : List Str) (xs ys : List Str) (hx : xs ≠ []) (hy : ys ≠ [])
    (hg : GoodElems (xs ++ ys)) (hmem : (joinSlash xs ++ [47]) ∈ hv) :
    inSubmodule hv (joinSlash (xs ++ ys)) = true := by
  have hlen := Coll.length_le_joinSlash (xs ++ ys) (fun e he => (hg e he).1)
  exact inSubAux_true hv xs hx hmem _ ys hg hy (by omega)

theorem mem_haveCUEMod (U : Uni) (ents : List FEnt) (f : FEnt) (hf : f ∈ ents) (d r : Str)
    (hs : splitCUEMod U f.path = (d, r)) (hr : r ≠ []) : d ∈ haveCUEMod U ents := by
  unfold haveCUEMod
  apply List.mem_filterMap.mpr
  refine ⟨f, hf, ?_⟩
  rw [hs]
  simp [hr]

/-! ### the cue.mod placement rules on a valid name -/

theorem cueModTopRule_single (U : Uni) (a : Str) (ha : 47 ∉ a)
    (hfold : equalFold U a sCueMod = true) (h : cueModTopRule U a = none) : a = sCueMod := by
  unfold cueModTopRule at h
  rw [cutAt_single a ha] at h
  dsimp only at h
  rw [if_pos hfold] at h
  by_cases h1 : a = sCueMod
  · exact h1
  · rw [if_pos h1] at h; cases h

theorem cueModTopRule_cons (U : Uni) (a r : Str) (ha : 47 ∉ a)
    (hfold : equalFold U a sCueMod = true) (h : cueModTopRule U (a ++ 47 :: r) = none) :
    a = sCueMod ∧ (equalFold U r sModuleCue = true → r = sModuleCue) := by
  unfold cueModTopRule at h
  rw [cutAt_concat a r ha] at h
  dsimp only at h
  rw [if_pos hfold] at h
  by_cases h1 : a = sCueMod
  · refine ⟨h1, ?_⟩
    intro hr
    rw [if_neg (fun hh => hh h1)] at h
    by_cases h2 : r = sModuleCue
    · exact h2
    · simp [hr, h2] at h
  · rw [if_pos h1] at h; cases h

theorem cueModZipRule_module (U : Uni) : cueModZipRule U sCueModModule = (none, true) := rfl

/-- a name that passed all the tests of `checkFiles` (and is not the file "cue.mod") passes the
cue.mod placement rules of CheckZip -/
theorem cueModZipRule_of_valid (U : Uni) (hv : List Str) (p : Str)
    (hhv : ∀ d r, splitCUEMod U p = (d, r) → r ≠ [] → d ∈ hv)
    (hp : checkFilePath U p = none) (hsub : inSubmodule hv p = false)
    (htop : cueModTopRule U p = none) (hne : p ≠ sCueMod) (hm : p ≠ sCueModModule) :
    cueModZipRule U p = (none, false) := by
  obtain ⟨es, hnil, rfl, hg⟩ := Coll.checkFilePath_good U p hp
  rcases splitCUEMod_char U es hnil hg with h1 | ⟨h2, a, t, hes, hfold⟩ | ⟨xs, ys, hx, hy, hes, h3⟩
  · unfold cueModZipRule
    rw [h1]
    simp
  · subst hes
    have ha : GoodElem a := hg a List.mem_cons_self
    cases t with
    | nil =>
      exact absurd (cueModTopRule_single U a ha.2.2.2 hfold htop) hne
    | cons b t =>
      rw [Coll.joinSlash_cons_of_ne_nil a (b :: t) (by simp)] at htop h2 hm ⊢
      obtain ⟨rfl, hcase⟩ := cueModTopRule_cons U a _ ha.2.2.2 hfold htop
      unfold cueModZipRule
      rw [h2]
      dsimp only
      have e1 : (sCueMod ++ 47 :: joinSlash (b :: t)).isEmpty = false := by simp [sCueMod]
      have e3 : sCueModSlash.isPrefixOf (sCueMod ++ 47 :: joinSlash (b :: t)) = true := by
        apply List.isPrefixOf_iff_prefix.mpr
        exact ⟨joinSlash (b :: t), by simp [sCueModSlash]⟩
      have e4 : equalFold U (sCueMod ++ 47 :: joinSlash (b :: t)) sCueModModule = false := by
        cases hq : equalFold U (sCueMod ++ 47 :: joinSlash (b :: t)) sCueModModule with
        | false => rfl
        | true =>
          exfalso
          apply hm
          rw [hcase (equalFold_cueModSlash U _ hq)]
          decide
      simp [e1, e3, e4]
  · subst hes
    exfalso
    have hgy : GoodElems ys := fun e he => hg e (List.mem_append_right _ he)
    have hmem := hhv _ _ h3 (Coll.joinSlash_ne_nil ys hy hgy)
    have := inSubmodule_true hv xs ys hx hy hg hmem
    rw [hsub] at this
    cases this

/-! ### one step of CheckZip on a valid name -/

theorem isDirName_false_of_path {U : Uni} {p : Str} (hp : checkFilePath U p = none) :
    isDirName p = false := by
  have := (checkFilePath_clean U p hp).2.2
  unfold isDirName
  simpa using this

theorem czStep_valid (U : Uni) (cz : CZState) (e : ZEnt) (cc2 : CC) (b : Bool)
    (hp : checkFilePath U e.name = none) (hloc : e.name ≠ sLocalModule)
    (hcc : ccCheckTop U cz.cc e.name false = (cc2, none))
    (hrule : cueModZipRule U e.name = (none, b)) :
    czStep U cz e = czTail (czMod { cz with cc := cc2 } b) e := by
  have hdir := isDirName_false_of_path hp
  have hclean := (checkFilePath_clean U _ hp).1
  have hent : entName e = e.name := by unfold entName; rw [hdir]; rfl
  rw [czStep_eq, hent, hdir]
  simp only [hclean, ne_eq, not_true_eq_false, if_false, hp, hloc, hcc, hrule]

theorem czTail_valid (st : CZState) (e : ZEnt) (hdir : isDirName e.name = false)
    (h0 : 0 ≤ st.size)
    (hfit : st.size + (e.declared : Int) ≤ (maxZipFile : Int))
    (hmod : e.name = sCueModModule → e.declared ≤ maxCUEMod)
    (hlic : e.name = sLICENSE → e.declared ≤ maxLICENSE) :
    czTail st e = { st with size := st.size + (e.declared : Int),
                            cf := { st.cf with valid := st.cf.valid ++ [e.name] } } := by
  have hlt : e.declared < 9223372036854775808 := by
    have : (maxZipFile : Int) = 524288000 := rfl
    omega
  have hent : entName e = e.name := by unfold entName; rw [hdir]; rfl
  have hsz : czSize st (e.declared : Int) = { st with size := st.size + (e.declared : Int) } := by
    unfold czSize
    rw [if_pos ⟨by omega, by omega⟩]
  unfold czTail
  rw [hdir, toInt64_of_lt hlt, hent, hsz]
  simp only [Bool.false_eq_true, if_false]
  have n1 : ¬ (e.name = sCueModModule ∧ (e.declared : Int) > (maxCUEMod : Int)) := by
    rintro ⟨h1, h2⟩; have := hmod h1; omega
  have n2 : ¬ (e.name = sLICENSE ∧ (e.declared : Int) > (maxLICENSE : Int)) := by
    rintro ⟨h1, h2⟩; have := hlic h1; omega
  rw [if_neg n1, if_neg n2]

/-! ### one step of checkFiles, with the collision-map bookkeeping -/

/-- `cfStep_cases` with the facts about the collision map added -/
theorem cfStep_cases2 (U : Uni) (hv : List Str) (st : CFState) (f : FEnt) :
    cfStep U hv st f = st ∨
    (∃ cc' o w, CCMono st.cc cc' ∧
      cfStep U hv st f = ({ st with cc := cc' }).addError f.path o w) ∨
    (∃ cc', ccCheckTop U st.cc f.path false = (cc', none) ∧
      cfStep U hv st f = cfTail { st with cc := cc' } f ∧
      checkFilePath U f.path = none ∧ f.path ≠ sLocalModule ∧
      inSubmodule hv f.path = false ∧ cueModTopRule U f.path = none) := by
  rw [cfStep_eq]
  have err : ∀ (X : CFState) (Q : Prop) cc' o w, CCMono st.cc cc' →
      X = ({ st with cc := cc' } : CFState).addError f.path o w →
      (X = st ∨ (∃ cc'' o' w', CCMono st.cc cc'' ∧
        X = ({ st with cc := cc'' } : CFState).addError f.path o' w') ∨ Q) :=
    fun _ _ cc' o w hm h => Or.inr (Or.inl ⟨cc', o, w, hm, h⟩)
  have rf := CCMono.refl st.cc
  by_cases h1 : f.kind = .lstatErr
  · rw [if_pos h1]; exact err _ _ st.cc _ _ rf rfl
  rw [if_neg h1]
  by_cases h2 : f.kind = .dir
  · rw [if_pos h2]; exact Or.inl rfl
  rw [if_neg h2]
  by_cases h3 : f.path ≠ pathClean f.path
  · rw [if_pos h3]; exact err _ _ st.cc _ _ rf rfl
  rw [if_neg h3]
  by_cases h4 : isAbs f.path = true
  · rw [if_pos h4]; exact err _ _ st.cc _ _ rf rfl
  rw [if_neg h4]
  by_cases h5 : isVendoredPackage f.path = true
  · rw [if_pos h5]; exact err _ _ st.cc _ _ rf rfl
  rw [if_neg h5]
  by_cases h6 : inSubmodule hv f.path = true
  · rw [if_pos h6]; exact err _ _ st.cc _ _ rf rfl
  rw [if_neg h6]
  by_cases h7 : f.path = sHgArchival
  · rw [if_pos h7]; exact err _ _ st.cc _ _ rf rfl
  rw [if_neg h7]
  by_cases h8 : f.path = sLocalModule
  · rw [if_pos h8]; exact err _ _ st.cc _ _ rf rfl
  rw [if_neg h8]
  cases h9 : checkFilePath U f.path with
  | some e => dsimp only; exact err _ _ st.cc _ _ rf rfl
  | none =>
  dsimp only
  cases h10 : cueModTopRule U f.path with
  | some w => dsimp only; exact err _ _ st.cc _ _ rf rfl
  | none =>
  dsimp only
  rcases h11 : ccCheckTop U st.cc f.path false with ⟨cc', _ | w⟩
  · dsimp only
    have hm := Coll.ccCheckTop_mono h11
    by_cases h12 : f.kind = .symlink
    · rw [if_pos h12]; exact err _ _ cc' _ _ hm rfl
    rw [if_neg h12]
    by_cases h13 : f.kind ≠ .regular
    · rw [if_pos h13]; exact err _ _ cc' _ _ hm rfl
    rw [if_neg h13]
    exact Or.inr (Or.inr ⟨cc', rfl, rfl, rfl, h8, by simpa using h6, rfl⟩)
  · dsimp only; exact err _ _ cc' _ _ (Coll.ccCheckTop_mono h11) rfl

theorem cfSize_cc (st : CFState) (f : FEnt) : (cfSize st f).cc = st.cc := by
  unfold cfSize; split <;> rfl

theorem cfFound_cc (st : CFState) (f : FEnt) : (cfFound st f).cc = st.cc := by
  unfold cfFound; split <;> rfl

/-- the outcomes of the size accounting of `cfStep`: an error, or the entry becomes valid -/
theorem cfTail_cases (st : CFState) (f : FEnt) :
    ((cfTail st f).validEnts = st.validEnts ∧ (cfTail st f).cf.valid = st.cf.valid ∧
      (cfTail st f).cc = st.cc ∧ ((cfTail st f).found = true → st.found = true) ∧
      ((cfTail st f).cf.sizeError = false →
        st.cf.sizeError = false ∧ (cfTail st f).maxSize ≤ st.maxSize)) ∨
    ((cfTail st f).validEnts = st.validEnts ++ [f] ∧
      (cfTail st f).cf.valid = st.cf.valid ++ [f.path] ∧
      (cfTail st f).cc = st.cc ∧
      ((cfTail st f).found = true → st.found = true ∨ f.path = sCueModModule) ∧
      ((cfTail st f).cf.sizeError = false →
        st.cf.sizeError = false ∧ 0 ≤ f.size ∧ f.size ≤ st.maxSize ∧
        (cfTail st f).maxSize = st.maxSize - f.size) ∧
      (f.path = sCueModModule → f.size ≤ (maxCUEMod : Int)) ∧
      (f.path = sLICENSE → f.size ≤ (maxLICENSE : Int))) := by
  obtain ⟨a2, b2, c2, -, d2, -⟩ := cfSize_frame st f
  obtain ⟨a3, b3, c3, d3, e3⟩ := cfFound_frame (cfSize st f) f
  have errCase : ∀ w, 
      ((cfSize st f).addError f.path false w).validEnts = st.validEnts ∧
      ((cfSize st f).addError f.path false w).cf.valid = st.cf.valid ∧
      ((cfSize st f).addError f.path false w).cc = st.cc ∧
      (((cfSize st f).addError f.path false w).found = true → st.found = true) ∧
      (((cfSize st f).addError f.path false w).cf.sizeError = false →
        st.cf.sizeError = false ∧ ((cfSize st f).addError f.path false w).maxSize ≤ st.maxSize) := by
    intro w
    obtain ⟨x1, x2, x3, x4, x5, x6⟩ := CFState.addError_frame (cfSize st f) f.path false w
    refine ⟨x2.trans b2, x1.trans a2, x6.trans (cfSize_cc st f), ?_, ?_⟩
    · intro h; rw [x3, c2] at h; exact h
    · intro h
      rw [x4] at h
      obtain ⟨k1, k2, k3, k4⟩ := d2 h
      rw [x5, k4]
      exact ⟨k1, by omega⟩
  unfold cfTail
  simp only []
  split
  · exact Or.inl (errCase _)
  · rename_i hcm
    split
    · rename_i hl
      rw [e3 (by rw [hl.1]; exact sLICENSE_ne_cueModModule)]
      exact Or.inl (errCase _)
    · rename_i hli
      refine Or.inr ⟨?_, ?_, ?_, ?_, ?_, ?_, ?_⟩
      · show (cfFound (cfSize st f) f).validEnts ++ [f] = _
        rw [b3, b2]
      · show (cfFound (cfSize st f) f).cf.valid ++ [f.path] = _
        rw [a3, a2]
      · show (cfFound (cfSize st f) f).cc = _
        rw [cfFound_cc, cfSize_cc]
      · intro h
        have h' : (cfFound (cfSize st f) f).found = true := h
        rcases d3 h' with h'' | h''
        · rw [c2] at h''; exact Or.inl h''
        · exact Or.inr h''
      · intro h
        have h' : (cfFound (cfSize st f) f).cf.sizeError = false := h
        rw [a3] at h'
        obtain ⟨k1, k2, k3, k4⟩ := d2 h'
        refine ⟨k1, k2, k3, ?_⟩
        show (cfFound (cfSize st f) f).maxSize = _
        rw [c3, k4]
      · exact fun hp => Int.not_lt.mp (fun h => hcm ⟨hp, h⟩)
      · exact fun hp => Int.not_lt.mp (fun h => hli ⟨hp, h⟩)

theorem cfStep_validEnts_prefix (U : Uni) (hv : List Str) (st : CFState) (f : FEnt) :
    st.validEnts <+: (cfStep U hv st f).validEnts := by
  rcases cfStep_cases2 U hv st f with h | ⟨cc', o, w, -, h⟩ | ⟨cc', -, h, -⟩ <;> rw [h]
  · exact List.prefix_refl _
  · rw [(CFState.addError_frame _ _ _ _).2.1]; exact List.prefix_refl _
  · rcases cfTail_cases { st with cc := cc' } f with ⟨t1, -⟩ | ⟨t1, -⟩ <;> rw [t1]
    · exact List.prefix_refl _
    · exact List.prefix_append _ _

theorem cfFold_validEnts_prefix (U : Uni) (hv : List Str) (l : List FEnt) (st : CFState) :
    st.validEnts <+: (l.foldl (cfStep U hv) st).validEnts := by
  induction l generalizing st with
  | nil => exact List.prefix_refl _
  | cons f fs ih => exact List.IsPrefix.trans (cfStep_validEnts_prefix U hv st f) (ih _)

/-! ### the simulation relation between the two loops -/

/-- `cz` is the state of CheckZip after the entries written for the valid files seen so far by
checkFiles, whose state is `st` -/
structure Rel (st : CFState) (cz : CZState) : Prop where
  cc : CCMono cz.cc st.cc
  valid : cz.cf.valid = st.cf.valid
  ok : cz.ok
  size : st.cf.sizeError = false → 0 ≤ cz.size ∧ cz.size + st.maxSize ≤ (maxZipFile : Int)
  found : st.found = true → cz.modFile = true

theorem Rel.init : Rel {} {} := by
  refine ⟨CCMono.refl _, rfl, ⟨rfl, rfl⟩, fun _ => ⟨Int.le_refl _, ?_⟩, fun h => by cases h⟩
  show (0 : Int) + (maxZipFile : Int) ≤ (maxZipFile : Int)
  omega

theorem Rel.frame {st st' : CFState} {cz : CZState} (h : Rel st cz)
    (hcc : CCMono st.cc st'.cc) (hv : st'.cf.valid = st.cf.valid)
    (hs : st'.cf.sizeError = false → st.cf.sizeError = false ∧ st'.maxSize ≤ st.maxSize)
    (hf : st'.found = true → st.found = true) : Rel st' cz := by
  refine ⟨h.cc.trans hcc, by rw [hv]; exact h.valid, h.ok, ?_, fun hh => h.found (hf hh)⟩
  intro hh
  obtain ⟨s1, s2⟩ := hs hh
  obtain ⟨z1, z2⟩ := h.size s1
  exact ⟨z1, by omega⟩

theorem czMod_cc (st : CZState) (b : Bool) : (czMod st b).cc = st.cc := by
  unfold czMod; split <;> rfl

theorem czMod_modFile (st : CZState) (b : Bool) :
    (czMod st b).modFile = (st.modFile || b) := by
  unfold czMod; cases b <;> simp

/-- one iteration of checkFiles against zero or one iteration of CheckZip -/
theorem step_rel (U : Uni) (ents : List FEnt) (st : CFState) (cz : CZState) (f : FEnt)
    (hf : f ∈ ents) (hrel : Rel st cz)
    (hse : (cfStep U (haveCUEMod U ents) st f).cf.sizeError = false) :
    ((cfStep U (haveCUEMod U ents) st f).validEnts = st.validEnts ∧
      Rel (cfStep U (haveCUEMod U ents) st f) cz) ∨
    ((cfStep U (haveCUEMod U ents) st f).validEnts = st.validEnts ++ [f] ∧
      ∀ e : ZEnt, e.name = f.path → f.path ≠ sCueMod → e.declared ≤ f.size.toNat →
        Rel (cfStep U (haveCUEMod U ents) st f) (czStep U cz e)) := by
  rcases cfStep_cases2 U (haveCUEMod U ents) st f with h | ⟨cc', o, w, hm, h⟩ |
    ⟨cc', hcc, h, hp, hloc, hsub, htop⟩ <;> rw [h] at hse ⊢
  · exact Or.inl ⟨rfl, hrel⟩
  · obtain ⟨x1, x2, x3, x4, x5, x6⟩ :=
      CFState.addError_frame ({ st with cc := cc' } : CFState) f.path o w
    refine Or.inl ⟨x2, hrel.frame (by rw [x6]; exact hm) x1 ?_ (by rw [x3]; exact id)⟩
    intro hh
    rw [x4] at hh
    exact ⟨hh, by rw [x5]; exact Int.le_refl _⟩
  · have hm : CCMono st.cc cc' := Coll.ccCheckTop_mono hcc
    rcases cfTail_cases { st with cc := cc' } f with ⟨t1, t2, t3, t4, t5⟩ |
      ⟨t1, t2, t3, t4, t5, t6, t7⟩
    · exact Or.inl ⟨t1, hrel.frame (by rw [t3]; exact hm) t2 t5 t4⟩
    · refine Or.inr ⟨t1, ?_⟩
      intro e hn hne hdecl
      obtain ⟨s1, s2, s3, s4⟩ := t5 hse
      have s1' : st.cf.sizeError = false := s1
      have s3' : f.size ≤ st.maxSize := s3
      have s4' : (cfTail { st with cc := cc' } f).maxSize = st.maxSize - f.size := s4
      obtain ⟨z1, z2⟩ := hrel.size s1'
      obtain ⟨cc2, hcc2, hm2⟩ := ccCheckTop_sim U cz.cc st.cc cc' f.path false hrel.cc hcc
      have hrule : ∃ b, cueModZipRule U f.path = (none, b) ∧ (f.path = sCueModModule → b = true) := by
        by_cases hmod : f.path = sCueModModule
        · exact ⟨true, by rw [hmod]; exact cueModZipRule_module U, fun _ => rfl⟩
        · exact ⟨false, cueModZipRule_of_valid U _ f.path
            (fun d r hs hr => mem_haveCUEMod U ents f hf d r hs hr) hp hsub htop hne hmod,
            fun hh => absurd hh hmod⟩
      obtain ⟨b, hb, hbm⟩ := hrule
      have hdir : isDirName e.name = false := by rw [hn]; exact isDirName_false_of_path hp
      have hstep := czStep_valid U cz e cc2 b (by rw [hn]; exact hp) (by rw [hn]; exact hloc)
        (by rw [hn]; exact hcc2) (by rw [hn]; exact hb)
      obtain ⟨m1, m2⟩ := czMod_frame { cz with cc := cc2 } b
      have m2' : (czMod { cz with cc := cc2 } b).size = cz.size := m2
      have hdI : (e.declared : Int) ≤ f.size := by omega
      have htail := czTail_valid (czMod { cz with cc := cc2 } b) e hdir (by rw [m2']; exact z1)
        (by rw [m2']; omega)
        (by intro h1; rw [hn] at h1; have := t6 h1; omega)
        (by intro h1; rw [hn] at h1; have := t7 h1; omega)
      rw [hstep, htail]
      refine ⟨?_, ?_, ?_, ?_, ?_⟩
      · show CCMono (czMod { cz with cc := cc2 } b).cc _
        rw [czMod_cc, t3]; exact hm2
      · show (czMod { cz with cc := cc2 } b).cf.valid ++ [e.name] = _
        rw [m1, t2, hn]
        show cz.cf.valid ++ [f.path] = st.cf.valid ++ [f.path]
        rw [hrel.valid]
      · have := hrel.ok
        refine ⟨?_, ?_⟩
        · show (czMod { cz with cc := cc2 } b).cf.invalid = []
          rw [m1]; exact this.1
        · show (czMod { cz with cc := cc2 } b).cf.sizeError = false
          rw [m1]; exact this.2
      · intro _
        show 0 ≤ (czMod { cz with cc := cc2 } b).size + (e.declared : Int) ∧
          (czMod { cz with cc := cc2 } b).size + (e.declared : Int) +
            (cfTail { st with cc := cc' } f).maxSize ≤ (maxZipFile : Int)
        rw [m2', s4']
        omega
      · intro hfd
        show (czMod { cz with cc := cc2 } b).modFile = true
        rw [czMod_modFile]
        rcases t4 hfd with h1 | h1
        · have : cz.modFile = true := hrel.found h1
          show (cz.modFile || b) = true
          rw [this]; rfl
        · rw [hbm h1]; simp

/-! ### the fold over the files -/

theorem fold_rel (U : Uni) (ents : List FEnt) (files : List SrcFile) :
    ∀ (l : List FEnt) (st : CFState) (cz : CZState), (∀ f ∈ l, f ∈ ents) → Rel st cz →
      (l.foldl (cfStep U (haveCUEMod U ents)) st).cf.sizeError = false →
      (∀ f ∈ (l.foldl (cfStep U (haveCUEMod U ents)) st).validEnts,
        f.path ≠ sCueMod ∧ (srcOf files f).length ≤ f.size.toNat) →
      ∃ new, (l.foldl (cfStep U (haveCUEMod U ents)) st).validEnts = st.validEnts ++ new ∧
        Rel (l.foldl (cfStep U (haveCUEMod U ents)) st)
          ((new.map (mkEnt files)).foldl (czStep U) cz) := by
  intro l
  induction l with
  | nil =>
    intro st cz _ hrel _ _
    exact ⟨[], by simp, hrel⟩
  | cons f fs ih =>
    intro st cz hmem hrel hse hgood
    rw [List.foldl_cons] at hse hgood ⊢
    have hse1 : (cfStep U (haveCUEMod U ents) st f).cf.sizeError = false := by
      cases h : (cfStep U (haveCUEMod U ents) st f).cf.sizeError with
      | false => rfl
      | true =>
        have := cfFold_sizeError_mono U (haveCUEMod U ents) fs _ h
        rw [hse] at this
        cases this
    have hmem' : ∀ g ∈ fs, g ∈ ents := fun g hg => hmem g (List.mem_cons_of_mem _ hg)
    rcases step_rel U ents st cz f (hmem f List.mem_cons_self) hrel hse1 with
      ⟨hv1, hr1⟩ | ⟨hv1, hr1⟩
    · obtain ⟨new, hn, hr⟩ := ih _ cz hmem' hr1 hse hgood
      exact ⟨new, by rw [hn, hv1], hr⟩
    · have hfmem : f ∈ (fs.foldl (cfStep U (haveCUEMod U ents))
          (cfStep U (haveCUEMod U ents) st f)).validEnts :=
        (cfFold_validEnts_prefix U _ fs _).subset (by rw [hv1]; simp)
      obtain ⟨g1, g2⟩ := hgood f hfmem
      have hr1' := hr1 (mkEnt files f) rfl g1 g2
      obtain ⟨new, hn, hr⟩ := ih _ _ hmem' hr1' hse hgood
      exact ⟨f :: new, by rw [hn, hv1]; simp, hr⟩

/-! ### the final theorem -/

theorem le_foldl_sum (l : List Int) (h : ∀ x ∈ l, 0 ≤ x) :
    ∀ a : Int, a ≤ l.foldl (· + ·) a ∧ ∀ x ∈ l, a + x ≤ l.foldl (· + ·) a := by
  induction l with
  | nil => intro a; exact ⟨Int.le_refl _, fun x hx => by cases hx⟩
  | cons c cs ih =>
    intro a
    have hc := h c List.mem_cons_self
    obtain ⟨i1, i2⟩ := ih (fun x hx => h x (List.mem_cons_of_mem _ hx)) (a + c)
    rw [List.foldl_cons]
    refine ⟨by omega, ?_⟩
    intro x hx
    rcases List.mem_cons.mp hx with rfl | hx
    · exact i1
    · have := i2 x hx
      have := h x (List.mem_cons_of_mem _ hx)
      omega

theorem isAncestor_cueMod : IsAncestor sCueMod sCueModModule :=
  ⟨by decide, sModuleCue, by decide, by decide⟩

theorem create_passes_checkZip_aux (U : Uni) (files : List SrcFile) (ents : List FEnt)
    (z : List ZEnt) (zipSize : Nat) (hents : ents = files.map (·.ent))
    (herr : (checkFiles U ents).1.isErr = false)
    (hsrc : ∀ e ∈ (checkFiles U ents).2, (srcOf files e).length ≤ e.size.toNat)
    (hzeq : z = (checkFiles U ents).2.map (mkEnt files))
    (hz : zipSize ≤ maxZipFile) :
    (checkZip U zipSize z).isErr = false ∧
    (checkZip U zipSize z).valid = (checkFiles U ents).1.valid ∧
    z.map (·.name) = (checkFiles U ents).1.valid ∧
    (∀ e ∈ z, skipEntry e = false ∧ Honest e) ∧
    (∀ e ∈ z, ∃ s ∈ files, s.ent ∈ (checkFiles U ents).2 ∧
        e.name = s.ent.path ∧ e.data = s.content) := by
  have hok := checkFiles_ok U ents herr
  simp only [] at hok
  obtain ⟨k1, k2, k3, k4, k5, k6, k7⟩ := hok
  have hcoll := checkFiles_collisionFree U ents
  -- the final state of checkFiles
  have hr1 : (checkFiles U ents).1.valid =
      (checkFilesState U ents).cf.valid := rfl
  have hr2 : (checkFiles U ents).2 =
      (checkFilesState U ents).validEnts := rfl
  have hse : (checkFilesState U ents).cf.sizeError = false := by
    have : (checkFiles U ents).1.sizeError =
        (checkFilesState U ents).cf.sizeError := rfl
    rw [← this]
    simp only [Checked.isErr, Bool.or_eq_false_iff] at herr
    exact herr.1.1
  have hfound : (checkFilesState U ents).found = true := by
    have : (checkFiles U ents).1.noMod =
        !(checkFilesState U ents).found := rfl
    simp only [Checked.isErr, Bool.or_eq_false_iff] at herr
    have h2 := herr.2
    rw [this] at h2
    simpa using h2
  -- no valid name is the file "cue.mod"
  have hnoCueMod : ∀ f ∈ (checkFiles U ents).2, f.path ≠ sCueMod := by
    intro f hf hfp
    have hfv : f.path ∈ (checkFiles U ents).1.valid := by
      rw [k1]; exact List.mem_map.mpr ⟨f, hf, rfl⟩
    have := hcoll.2 f.path hfv sCueModModule k4 sCueMod isAncestor_cueMod
    exact this (by rw [hfp])
  -- the simulation
  obtain ⟨new, hnew, hrel⟩ := fold_rel U ents files ents {} {}
    (fun _ h => h) Rel.init hse
    (fun f hf => ⟨hnoCueMod f (by rw [hr2]; exact hf), hsrc f (by rw [hr2]; exact hf)⟩)
  have hnew' : (checkFilesState U ents).validEnts = new := by
    rw [show checkFilesState U ents =
      ents.foldl (cfStep U (haveCUEMod U ents)) {} from rfl, hnew]
    rfl
  have hzst : checkZipState U z =
      (new.map (mkEnt files)).foldl (czStep U) {} := by
    rw [hzeq, hr2, hnew']; rfl
  have hrel' : Rel (checkFilesState U ents) (checkZipState U z) := by
    rw [hzst]; exact hrel
  have hcz : checkZip U zipSize z =
      { (checkZipState U z).cf with noMod := !(checkZipState U z).modFile } := by
    unfold checkZip
    rw [if_neg (by omega)]
  have hnames : z.map (·.name) = (checkFiles U ents).1.valid := by
    rw [k1, hzeq, List.map_map]
    rfl
  refine ⟨?_, ?_, hnames, ?_, ?_⟩
  · rw [hcz]
    obtain ⟨o1, o2⟩ := hrel'.ok
    have o3 := hrel'.found hfound
    simp [Checked.isErr, o1, o2, o3]
  · rw [hcz, hr1]
    exact hrel'.valid
  · intro e he
    rw [hzeq] at he
    obtain ⟨f, hf, rfl⟩ := List.mem_map.mp he
    obtain ⟨-, -, hsz0, hpath⟩ := k2 f hf
    obtain ⟨hne, hlast, -⟩ := checkFilePath_none hpath
    refine ⟨?_, ?_, rfl, rfl, rfl, rfl⟩
    · unfold skipEntry
      have e1 : (mkEnt files f).name = f.path := rfl
      rw [e1]
      have : f.path.isEmpty = false := by simpa using hne
      rw [this]
      simpa using hlast
    · show (srcOf files f).length < 2 ^ 64
      have h1 := hsrc f hf
      have hall : ∀ x ∈ (checkFiles U ents).2.map (·.size), 0 ≤ x := by
        intro x hx
        obtain ⟨g, hg, rfl⟩ := List.mem_map.mp hx
        exact (k2 g hg).2.2.1
      have h2 := (le_foldl_sum _ hall 0).2 f.size (List.mem_map.mpr ⟨f, hf, rfl⟩)
      have : (maxZipFile : Int) = 524288000 := rfl
      omega
  · intro e he
    rw [hzeq] at he
    obtain ⟨f, hf, rfl⟩ := List.mem_map.mp he
    obtain ⟨s, hs, hse', hsc⟩ := srcOf_spec files f (by rw [← hents]; exact (k2 f hf).1)
    exact ⟨s, hs, by rw [hse']; exact hf, by rw [hse']; rfl, hsc⟩

/-- `create` only emits archives that pass `checkZip`, with the same valid list; the entries are
the valid files, in order, honest, none skipped by Unzip, each with the content of its source -/
theorem create_passes_checkZip (U : Uni) (files : List SrcFile) (z : List ZEnt) (zipSize : Nat)
    (hc : create U files = some z) (hz : zipSize ≤ maxZipFile) :
    (checkZip U zipSize z).isErr = false ∧
    (checkZip U zipSize z).valid = (checkFiles U (files.map (·.ent))).1.valid ∧
    z.map (·.name) = (checkFiles U (files.map (·.ent))).1.valid ∧
    (∀ e ∈ z, skipEntry e = false ∧ Honest e) ∧
    (∀ e ∈ z, ∃ s ∈ files, s.ent ∈ (checkFiles U (files.map (·.ent))).2 ∧
        e.name = s.ent.path ∧ e.data = s.content) := by
  obtain ⟨herr, hsrc, hzeq⟩ := create_some U files z hc
  exact create_passes_checkZip_aux U files _ z zipSize rfl herr hsrc hzeq hz

end CueVerif.Modzip
