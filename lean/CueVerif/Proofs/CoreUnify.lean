/-
C01 helper lemmas, part 2: `unify` on values is commutative and associative, top is its
identity, bottom absorbs.
-/
import CueVerif.Proofs.CoreSc
namespace CueVerif.Core

theorem ArcTy.min_comm (a b : ArcTy) : a.min b = b.min a := by cases a <;> cases b <;> rfl
theorem ArcTy.min_assoc (a b c : ArcTy) : (a.min b).min c = a.min (b.min c) := by
  cases a <;> cases b <;> cases c <;> rfl
theorem ArcTy.min_idem (a : ArcTy) : a.min a = a := by cases a <;> rfl
@[simp] theorem ArcTy.regular_min (a : ArcTy) : ArcTy.regular.min a = .regular := by cases a <;> rfl

@[simp] theorem unify_bot_left (a : Val) : unify .bot a = .bot := by simp [unify]
@[simp] theorem unify_bot_right (a : Val) : unify a .bot = .bot := by cases a <;> simp [unify]
@[simp] theorem unify_top_left (a : Val) : unify .top a = a := by simp [unify]
@[simp] theorem unify_top_right (a : Val) : unify a .top = a := by cases a <;> simp [unify]

@[simp] theorem unify_sc_sc (s t : Sc) : unify (.sc s) (.sc t) = scMeet s t := by simp [unify]
@[simp] theorem unify_sc_struct (s : Sc) (ys : Slots) (d : Bool) :
    unify (.sc s) (.struct ys d) = .bot := by simp [unify]
@[simp] theorem unify_struct_sc (s : Sc) (ys : Slots) (d : Bool) :
    unify (.struct ys d) (.sc s) = .bot := by simp [unify]
theorem unify_struct_struct (xs : Slots) (c : Bool) (ys : Slots) (d : Bool) :
    unify (.struct xs c) (.struct ys d) = normS (mergeSlots xs c ys d) (c || d) := by simp [unify]
@[simp] theorem closeSlot_none (c : Bool) : closeSlot c .none = .none := rfl
theorem closeSlot_some (c : Bool) (t : ArcTy) (v : Val) :
    closeSlot c (.some t v) = if c then .some t .bot else .some t v := rfl
@[simp] theorem closeSlot_false (s : Slot) : closeSlot false s = s := by cases s <;> simp [closeSlot]
@[simp] theorem closeSlot_true_some (t : ArcTy) (v : Val) :
    closeSlot true (.some t v) = .some t .bot := rfl

theorem scMeet_comm (s t : Sc) : scMeet s t = scMeet t s := by simp [scMeet, Sc.meet_comm s t]

mutual
theorem unify_comm : ∀ a b : Val, unify a b = unify b a
  | .bot, b => by simp
  | .top, b => by simp
  | .sc s, .bot => by simp
  | .sc s, .top => by simp
  | .sc s, .sc t => by simp [unify, scMeet_comm s t]
  | .sc s, .struct _ _ => by simp [unify]
  | .struct _ _, .bot => by simp
  | .struct xs c, .top => by simp
  | .struct _ _, .sc _ => by simp [unify]
  | .struct xs c, .struct ys d => by
    simp only [unify]; rw [mergeSlots_comm xs c ys d, Bool.or_comm]
theorem mergeSlots_comm : ∀ (xs : Slots) (c : Bool) (ys : Slots) (d : Bool),
    mergeSlots xs c ys d = mergeSlots ys d xs c
  | .nil, c, .nil, d => by simp [mergeSlots, closeBy]
  | .nil, c, .cons y ys, d => by simp [mergeSlots]
  | .cons x xs, c, .nil, d => by simp [mergeSlots]
  | .cons x xs, c, .cons y ys, d => by
    simp only [mergeSlots]; rw [mergeSlot_comm x c y d, mergeSlots_comm xs c ys d]
theorem mergeSlot_comm : ∀ (x : Slot) (c : Bool) (y : Slot) (d : Bool),
    mergeSlot x c y d = mergeSlot y d x c
  | .none, c, .none, d => by simp [mergeSlot, closeSlot]
  | .none, c, .some t v, d => by simp [mergeSlot]
  | .some t v, c, .none, d => by simp [mergeSlot]
  | .some t v, c, .some t' w, d => by
    simp only [mergeSlot]; rw [unify_comm v w, ArcTy.min_comm]
end

/-! ### closing -/

theorem closeSlot_closeSlot (c d : Bool) (s : Slot) :
    closeSlot c (closeSlot d s) = closeSlot (c || d) s := by
  cases s <;> cases c <;> cases d <;> simp [closeSlot]

theorem closeBy_closeBy (c d : Bool) (xs : Slots) :
    closeBy c (closeBy d xs) = closeBy (c || d) xs := by
  match xs with
  | .nil => rfl
  | .cons s rest => simp [closeBy, closeSlot_closeSlot, closeBy_closeBy c d rest]

theorem mergeSlot_none_right (x : Slot) (c d : Bool) : mergeSlot x c .none d = closeSlot d x := by
  cases x <;> simp [mergeSlot, closeSlot]

theorem mergeSlots_nil_right (xs : Slots) (c d : Bool) : mergeSlots xs c .nil d = closeBy d xs := by
  cases xs <;> simp [mergeSlots, closeBy]

theorem mergeSlot_close_left (c d e : Bool) (y z : Slot) :
    mergeSlot (closeSlot c y) (c || d) z e = closeSlot c (mergeSlot y d z e) := by
  cases y with
  | none => simp [mergeSlot, closeSlot_closeSlot]
  | some t v =>
    cases z with
    | none =>
      rw [mergeSlot_none_right, mergeSlot_none_right, closeSlot_closeSlot, closeSlot_closeSlot,
        Bool.or_comm]
    | some t' w => cases c <;> simp [mergeSlot]

theorem mergeSlots_close_left (c d e : Bool) (ys zs : Slots) :
    mergeSlots (closeBy c ys) (c || d) zs e = closeBy c (mergeSlots ys d zs e) := by
  match ys, zs with
  | .nil, zs => simp [closeBy, mergeSlots, closeBy_closeBy]
  | .cons y ys, .nil =>
      rw [mergeSlots_nil_right, mergeSlots_nil_right, closeBy_closeBy, closeBy_closeBy,
        Bool.or_comm]
  | .cons y ys, .cons z zs =>
    simp [closeBy, mergeSlots, mergeSlot_close_left, mergeSlots_close_left c d e ys zs]

theorem mergeSlot_close_mid (c d e : Bool) (x z : Slot) :
    mergeSlot (closeSlot d x) (c || d) z e = mergeSlot x c (closeSlot d z) (d || e) := by
  cases x with
  | none => simp [mergeSlot, closeSlot_closeSlot]
  | some t v =>
    cases z with
    | none =>
      rw [mergeSlot_none_right, closeSlot_closeSlot, closeSlot_none, mergeSlot_none_right,
        Bool.or_comm]
    | some t' w => cases d <;> simp [mergeSlot]

theorem mergeSlots_close_mid (c d e : Bool) (xs zs : Slots) :
    mergeSlots (closeBy d xs) (c || d) zs e = mergeSlots xs c (closeBy d zs) (d || e) := by
  match xs, zs with
  | .nil, zs => simp [closeBy, mergeSlots, closeBy_closeBy]
  | .cons x xs, .nil =>
      rw [mergeSlots_nil_right, closeBy_closeBy, closeBy, mergeSlots_nil_right, Bool.or_comm]
  | .cons x xs, .cons z zs =>
    simp [closeBy, mergeSlots, mergeSlot_close_mid, mergeSlots_close_mid c d e xs zs]

theorem mergeSlot_close_right (c d e : Bool) (x y : Slot) :
    closeSlot e (mergeSlot x c y d) = mergeSlot x c (closeSlot e y) (d || e) := by
  rw [mergeSlot_comm x c y d, mergeSlot_comm x c _ _, Bool.or_comm, mergeSlot_close_left]

theorem mergeSlots_close_right (c d e : Bool) (xs ys : Slots) :
    closeBy e (mergeSlots xs c ys d) = mergeSlots xs c (closeBy e ys) (d || e) := by
  rw [mergeSlots_comm xs c ys d, mergeSlots_comm xs c _ _, Bool.or_comm, mergeSlots_close_left]

/-! ### a bottom regular field stays one -/

theorem isRegBot_closeSlot (d : Bool) (x : Slot) (h : x.isRegBot = true) :
    (closeSlot d x).isRegBot = true := by
  cases x with
  | none => simp [Slot.isRegBot] at h
  | some t v =>
    cases t <;> cases v <;> simp [Slot.isRegBot] at h
    cases d <;> simp [Slot.isRegBot]

theorem hasRegBot_closeBy (d : Bool) (xs : Slots) (h : xs.hasRegBot = true) :
    (closeBy d xs).hasRegBot = true := by
  match xs with
  | .nil => simp [Slots.hasRegBot] at h
  | .cons x xs =>
    simp only [Slots.hasRegBot, Bool.or_eq_true, closeBy] at h ⊢
    rcases h with h | h
    · exact Or.inl (isRegBot_closeSlot d x h)
    · exact Or.inr (hasRegBot_closeBy d xs h)

theorem isRegBot_mergeSlot (x : Slot) (c : Bool) (y : Slot) (d : Bool) (h : x.isRegBot = true) :
    (mergeSlot x c y d).isRegBot = true := by
  cases y with
  | none => rw [mergeSlot_none_right]; exact isRegBot_closeSlot d x h
  | some t' w =>
    cases x with
    | none => simp [Slot.isRegBot] at h
    | some t v =>
      cases t <;> cases v <;> simp [Slot.isRegBot] at h
      simp [mergeSlot, Slot.isRegBot]

theorem hasRegBot_mergeSlots (xs : Slots) (c : Bool) (ys : Slots) (d : Bool)
    (h : xs.hasRegBot = true) : (mergeSlots xs c ys d).hasRegBot = true := by
  match xs, ys with
  | .nil, _ => simp [Slots.hasRegBot] at h
  | .cons x xs, .nil => rw [mergeSlots_nil_right]; exact hasRegBot_closeBy d _ h
  | .cons x xs, .cons y ys =>
      simp only [Slots.hasRegBot, Bool.or_eq_true, mergeSlots] at h ⊢
      rcases h with h | h
      · exact Or.inl (isRegBot_mergeSlot x c y d h)
      · exact Or.inr (hasRegBot_mergeSlots xs c ys d h)

theorem hasRegBot_mergeSlots_right (xs : Slots) (c : Bool) (ys : Slots) (d : Bool)
    (h : ys.hasRegBot = true) : (mergeSlots xs c ys d).hasRegBot = true := by
  rw [mergeSlots_comm]; exact hasRegBot_mergeSlots ys d xs c h

/-! ### associativity -/

@[simp] theorem unify_sc_normS (s : Sc) (xs : Slots) (c : Bool) :
    unify (.sc s) (normS xs c) = .bot := by
  unfold normS; split <;> simp

@[simp] theorem unify_normS_sc (s : Sc) (xs : Slots) (c : Bool) :
    unify (normS xs c) (.sc s) = .bot := by
  unfold normS; split <;> simp

@[simp] theorem unify_scMeet_struct (s t : Sc) (xs : Slots) (c : Bool) :
    unify (scMeet s t) (.struct xs c) = .bot := by
  unfold scMeet; split <;> simp

@[simp] theorem unify_struct_scMeet (s t : Sc) (xs : Slots) (c : Bool) :
    unify (.struct xs c) (scMeet s t) = .bot := by
  unfold scMeet; split <;> simp

theorem scMeet_assoc (s t u : Sc) :
    unify (scMeet s t) (.sc u) = unify (.sc s) (scMeet t u) := by
  have h := Sc.meet_assoc s t u
  unfold scMeet
  cases hst : Sc.meet s t <;> cases htu : Sc.meet t u <;> simp [hst, htu, scMeet] at h ⊢
  · simp [← h]
  · simp [h]
  · simp [h]

mutual
theorem unify_assoc : ∀ a b c : Val, unify (unify a b) c = unify a (unify b c)
  | .bot, _, _ => by simp
  | .top, _, _ => by simp
  | _, .bot, _ => by simp
  | _, .top, _ => by simp
  | _, _, .bot => by simp
  | _, _, .top => by simp
  | .sc s, .sc t, .sc u => by
    simp only [unify_sc_sc]; exact scMeet_assoc s t u
  | .sc s, .sc t, .struct zs e => by simp
  | .sc s, .struct ys d, .sc u => by simp
  | .sc s, .struct ys d, .struct zs e => by simp [unify_struct_struct]
  | .struct xs c, .sc t, .sc u => by simp
  | .struct xs c, .sc t, .struct zs e => by simp
  | .struct xs c, .struct ys d, .sc u => by simp [unify_struct_struct]
  | .struct xs c, .struct ys d, .struct zs e => by
    simp only [unify_struct_struct]
    have hm := mergeSlots_assoc xs c ys d zs e
    unfold normS
    by_cases h1 : (mergeSlots xs c ys d).hasRegBot = true
    · have h3 := hasRegBot_mergeSlots _ (c || d) zs e h1
      rw [hm] at h3
      by_cases h2 : (mergeSlots ys d zs e).hasRegBot = true
      · simp [h1, h2]
      · simp [h1, h2, unify_struct_struct, normS, h3]
    · by_cases h2 : (mergeSlots ys d zs e).hasRegBot = true
      · have h3 := hasRegBot_mergeSlots_right xs c _ (d || e) h2
        rw [← hm] at h3
        simp [h1, h2, unify_struct_struct, normS, h3]
      · simp [h1, h2, unify_struct_struct, normS, hm, Bool.or_assoc]
termination_by structural a _ _ => a
theorem mergeSlots_assoc : ∀ (xs : Slots) (c : Bool) (ys : Slots) (d : Bool) (zs : Slots) (e : Bool),
    mergeSlots (mergeSlots xs c ys d) (c || d) zs e = mergeSlots xs c (mergeSlots ys d zs e) (d || e)
  | .nil, c, ys, d, zs, e => by
    simp only [mergeSlots]; exact mergeSlots_close_left c d e ys zs
  | .cons x xs, c, .nil, d, zs, e => by
    simp only [mergeSlots]; exact mergeSlots_close_mid c d e (.cons x xs) zs
  | .cons x xs, c, .cons y ys, d, .nil, e => by
    rw [mergeSlots_nil_right, mergeSlots_nil_right]; exact mergeSlots_close_right c d e _ _
  | .cons x xs, c, .cons y ys, d, .cons z zs, e => by
    simp only [mergeSlots]
    rw [mergeSlot_assoc x c y d z e, mergeSlots_assoc xs c ys d zs e]
termination_by structural xs _ _ _ _ _ => xs
theorem mergeSlot_assoc : ∀ (x : Slot) (c : Bool) (y : Slot) (d : Bool) (z : Slot) (e : Bool),
    mergeSlot (mergeSlot x c y d) (c || d) z e = mergeSlot x c (mergeSlot y d z e) (d || e)
  | .none, c, y, d, z, e => by
    simp only [mergeSlot]; exact mergeSlot_close_left c d e y z
  | .some t v, c, .none, d, z, e => by
    simp only [mergeSlot]; exact mergeSlot_close_mid c d e (.some t v) z
  | .some t v, c, .some t' w, d, .none, e => by
    rw [mergeSlot_none_right, mergeSlot_none_right]; exact mergeSlot_close_right c d e _ _
  | .some t v, c, .some t' w, d, .some t'' u, e => by
    simp only [mergeSlot]
    rw [unify_assoc v w u, ArcTy.min_assoc]
termination_by structural x _ _ _ _ _ => x
end

end CueVerif.Core
