/-
C01 helper lemmas, part 2: `unify` on values is commutative and associative, top is its
identity, bottom absorbs.
-/
import CueVerif.Proofs.CoreSc
namespace CueVerif.Core

theorem ArcTy.min_comm (a b : ArcTy) : a.min b = b.min a := by cases a <;> cases b <;> rfl
theorem ArcTy.min_assoc (a b c : ArcTy) : (a.min b).min c = a.min (b.min c) := by
  cases a <;> cases b <;> cases c <;> rfl
theorem ArcTy.min_idem (a : ArcTy) : a.min a = a := by cases a <;> rfl
@[simp] theorem ArcTy.regular_min (a : ArcTy) : ArcTy.regular.min a = .regular := by cases a <;> rfl

@[simp] theorem unify_bot_left (a : Val) : unify .bot a = .bot := by simp [unify]
@[simp] theorem unify_bot_right (a : Val) : unify a .bot = .bot := by cases a <;> simp [unify]
@[simp] theorem unify_top_left (a : Val) : unify .top a = a := by simp [unify]
@[simp] theorem unify_top_right (a : Val) : unify a .top = a := by cases a <;> simp [unify]

@[simp] theorem unify_sc_sc (s t : Sc) : unify (.sc s) (.sc t) = scMeet s t := by simp [unify]
@[simp] theorem unify_sc_struct (s : Sc) (ys : Slots) (d : Bool) :
    unify (.sc s) (.struct ys d) = .bot := by simp [unify]
@[simp] theorem unify_struct_sc (s : Sc) (ys : Slots) (d : Bool) :
    unify (.struct ys d) (.sc s) = .bot := by simp [unify]
theorem unify_struct_struct (xs : Slots) (c : Bool) (ys : Slots) (d : Bool) :
    unify (.struct xs c) (.struct ys d) = normS (mergeSlots xs c ys d) (c || d) := by simp [unify]
@[simp] theorem unify_sc_list (s : Sc) (ys : Vals) : unify (.sc s) (.list ys) = .bot := by
  simp [unify]
@[simp] theorem unify_list_sc (s : Sc) (ys : Vals) : unify (.list ys) (.sc s) = .bot := by
  simp [unify]
@[simp] theorem unify_struct_list (xs : Slots) (c : Bool) (ys : Vals) :
    unify (.struct xs c) (.list ys) = .bot := by simp [unify]
@[simp] theorem unify_list_struct (xs : Slots) (c : Bool) (ys : Vals) :
    unify (.list ys) (.struct xs c) = .bot := by simp [unify]
theorem unify_list_list (xs ys : Vals) : unify (.list xs) (.list ys) = listRes (zipU xs ys) := by
  simp [unify]
@[simp] theorem listRes_some (r : Vals) : listRes (some r) = normL r := rfl
@[simp] theorem listRes_none : listRes none = .bot := rfl
@[simp] theorem closeSlot_none (c : Bool) : closeSlot c .none = .none := rfl
theorem closeSlot_some (c : Bool) (t : ArcTy) (v : Val) :
    closeSlot c (.some t v) = if c then .some t .bot else .some t v := rfl
@[simp] theorem closeSlot_false (s : Slot) : closeSlot false s = s := by cases s <;> simp [closeSlot]
@[simp] theorem closeSlot_true_some (t : ArcTy) (v : Val) :
    closeSlot true (.some t v) = .some t .bot := rfl

theorem scMeet_comm (s t : Sc) : scMeet s t = scMeet t s := by simp [scMeet, Sc.meet_comm s t]

mutual
theorem unify_comm : ∀ a b : Val, unify a b = unify b a
  | .bot, b => by simp
  | .top, b => by simp
  | .sc s, .bot => by simp
  | .sc s, .top => by simp
  | .sc s, .sc t => by simp [scMeet_comm s t]
  | .sc s, .struct _ _ => by simp
  | .sc s, .list _ => by simp
  | .struct _ _, .bot => by simp
  | .struct xs c, .top => by simp
  | .struct _ _, .sc _ => by simp
  | .struct xs c, .struct ys d => by
    simp only [unify]; rw [mergeSlots_comm xs c ys d, Bool.or_comm]
  | .struct _ _, .list _ => by simp
  | .list _, .bot => by simp
  | .list _, .top => by simp
  | .list _, .sc _ => by simp
  | .list _, .struct _ _ => by simp
  | .list xs, .list ys => by
    simp only [unify_list_list]; rw [zipU_comm xs ys]
theorem mergeSlots_comm : ∀ (xs : Slots) (c : Bool) (ys : Slots) (d : Bool),
    mergeSlots xs c ys d = mergeSlots ys d xs c
  | .nil, c, .nil, d => by simp [mergeSlots, closeBy]
  | .nil, c, .cons y ys, d => by simp [mergeSlots]
  | .cons x xs, c, .nil, d => by simp [mergeSlots]
  | .cons x xs, c, .cons y ys, d => by
    simp only [mergeSlots]; rw [mergeSlot_comm x c y d, mergeSlots_comm xs c ys d]
theorem mergeSlot_comm : ∀ (x : Slot) (c : Bool) (y : Slot) (d : Bool),
    mergeSlot x c y d = mergeSlot y d x c
  | .none, c, .none, d => by simp [mergeSlot, closeSlot]
  | .none, c, .some t v, d => by simp [mergeSlot]
  | .some t v, c, .none, d => by simp [mergeSlot]
  | .some t v, c, .some t' w, d => by
    simp only [mergeSlot]; rw [unify_comm v w, ArcTy.min_comm]
theorem zipU_comm : ∀ (xs ys : Vals), zipU xs ys = zipU ys xs
  | .nil, .nil => rfl
  | .nil, .cons _ _ => by simp [zipU]
  | .cons _ _, .nil => by simp [zipU]
  | .cons x xs, .cons y ys => by
    simp only [zipU]; rw [unify_comm x y, zipU_comm xs ys]
end

/-! ### closing -/

theorem closeSlot_closeSlot (c d : Bool) (s : Slot) :
    closeSlot c (closeSlot d s) = closeSlot (c || d) s := by
  cases s <;> cases c <;> cases d <;> simp [closeSlot]

theorem closeBy_closeBy (c d : Bool) (xs : Slots) :
    closeBy c (closeBy d xs) = closeBy (c || d) xs := by
  match xs with
  | .nil => rfl
  | .cons s rest => simp [closeBy, closeSlot_closeSlot, closeBy_closeBy c d rest]

theorem mergeSlot_none_right (x : Slot) (c d : Bool) : mergeSlot x c .none d = closeSlot d x := by
  cases x <;> simp [mergeSlot, closeSlot]

theorem mergeSlots_nil_right (xs : Slots) (c d : Bool) : mergeSlots xs c .nil d = closeBy d xs := by
  cases xs <;> simp [mergeSlots, closeBy]

theorem mergeSlot_close_left (c d e : Bool) (y z : Slot) :
    mergeSlot (closeSlot c y) (c || d) z e = closeSlot c (mergeSlot y d z e) := by
  cases y with
  | none => simp [mergeSlot, closeSlot_closeSlot]
  | some t v =>
    cases z with
    | none =>
      rw [mergeSlot_none_right, mergeSlot_none_right, closeSlot_closeSlot, closeSlot_closeSlot,
        Bool.or_comm]
    | some t' w => cases c <;> simp [mergeSlot]

theorem mergeSlots_close_left (c d e : Bool) (ys zs : Slots) :
    mergeSlots (closeBy c ys) (c || d) zs e = closeBy c (mergeSlots ys d zs e) := by
  match ys, zs with
  | .nil, zs => simp [closeBy, mergeSlots, closeBy_closeBy]
  | .cons y ys, .nil =>
      rw [mergeSlots_nil_right, mergeSlots_nil_right, closeBy_closeBy, closeBy_closeBy,
        Bool.or_comm]
  | .cons y ys, .cons z zs =>
    simp [closeBy, mergeSlots, mergeSlot_close_left, mergeSlots_close_left c d e ys zs]

theorem mergeSlot_close_mid (c d e : Bool) (x z : Slot) :
    mergeSlot (closeSlot d x) (c || d) z e = mergeSlot x c (closeSlot d z) (d || e) := by
  cases x with
  | none => simp [mergeSlot, closeSlot_closeSlot]
  | some t v =>
    cases z with
    | none =>
      rw [mergeSlot_none_right, closeSlot_closeSlot, closeSlot_none, mergeSlot_none_right,
        Bool.or_comm]
    | some t' w => cases d <;> simp [mergeSlot]

theorem mergeSlots_close_mid (c d e : Bool) (xs zs : Slots) :
    mergeSlots (closeBy d xs) (c || d) zs e = mergeSlots xs c (closeBy d zs) (d || e) := by
  match xs, zs with
  | .nil, zs => simp [closeBy, mergeSlots, closeBy_closeBy]
  | .cons x xs, .nil =>
      rw [mergeSlots_nil_right, closeBy_closeBy, closeBy, mergeSlots_nil_right, Bool.or_comm]
  | .cons x xs, .cons z zs =>
    simp [closeBy, mergeSlots, mergeSlot_close_mid, mergeSlots_close_mid c d e xs zs]

theorem mergeSlot_close_right (c d e : Bool) (x y : Slot) :
    closeSlot e (mergeSlot x c y d) = mergeSlot x c (closeSlot e y) (d || e) := by
  rw [mergeSlot_comm x c y d, mergeSlot_comm x c _ _, Bool.or_comm, mergeSlot_close_left]

theorem mergeSlots_close_right (c d e : Bool) (xs ys : Slots) :
    closeBy e (mergeSlots xs c ys d) = mergeSlots xs c (closeBy e ys) (d || e) := by
  rw [mergeSlots_comm xs c ys d, mergeSlots_comm xs c _ _, Bool.or_comm, mergeSlots_close_left]

/-! ### a bottom regular field stays one -/

theorem isRegBot_closeSlot (d : Bool) (x : Slot) (h : x.isRegBot = true) :
    (closeSlot d x).isRegBot = true := by
  cases x with
  | none => simp [Slot.isRegBot] at h
  | some t v =>
    cases t <;> cases v <;> simp [Slot.isRegBot] at h
    cases d <;> simp [Slot.isRegBot]

theorem hasRegBot_closeBy (d : Bool) (xs : Slots) (h : xs.hasRegBot = true) :
    (closeBy d xs).hasRegBot = true := by
  match xs with
  | .nil => simp [Slots.hasRegBot] at h
  | .cons x xs =>
    simp only [Slots.hasRegBot, Bool.or_eq_true, closeBy] at h ⊢
    rcases h with h | h
    · exact Or.inl (isRegBot_closeSlot d x h)
    · exact Or.inr (hasRegBot_closeBy d xs h)

theorem isRegBot_mergeSlot (x : Slot) (c : Bool) (y : Slot) (d : Bool) (h : x.isRegBot = true) :
    (mergeSlot x c y d).isRegBot = true := by
  cases y with
  | none => rw [mergeSlot_none_right]; exact isRegBot_closeSlot d x h
  | some t' w =>
    cases x with
    | none => simp [Slot.isRegBot] at h
    | some t v =>
      cases t <;> cases v <;> simp [Slot.isRegBot] at h
      simp [mergeSlot, Slot.isRegBot]

theorem hasRegBot_mergeSlots (xs : Slots) (c : Bool) (ys : Slots) (d : Bool)
    (h : xs.hasRegBot = true) : (mergeSlots xs c ys d).hasRegBot = true := by
  match xs, ys with
  | .nil, _ => simp [Slots.hasRegBot] at h
  | .cons x xs, .nil => rw [mergeSlots_nil_right]; exact hasRegBot_closeBy d _ h
  | .cons x xs, .cons y ys =>
      simp only [Slots.hasRegBot, Bool.or_eq_true, mergeSlots] at h ⊢
      rcases h with h | h
      · exact Or.inl (isRegBot_mergeSlot x c y d h)
      · exact Or.inr (hasRegBot_mergeSlots xs c ys d h)

theorem hasRegBot_mergeSlots_right (xs : Slots) (c : Bool) (ys : Slots) (d : Bool)
    (h : ys.hasRegBot = true) : (mergeSlots xs c ys d).hasRegBot = true := by
  rw [mergeSlots_comm]; exact hasRegBot_mergeSlots ys d xs c h

/-! ### associativity -/

@[simp] theorem unify_sc_normS (s : Sc) (xs : Slots) (c : Bool) :
    unify (.sc s) (normS xs c) = .bot := by
  unfold normS; split <;> simp

@[simp] theorem unify_normS_sc (s : Sc) (xs : Slots) (c : Bool) :
    unify (normS xs c) (.sc s) = .bot := by
  unfold normS; split <;> simp

@[simp] theorem unify_scMeet_struct (s t : Sc) (xs : Slots) (c : Bool) :
    unify (scMeet s t) (.struct xs c) = .bot := by
  unfold scMeet; split <;> simp

@[simp] theorem unify_struct_scMeet (s t : Sc) (xs : Slots) (c : Bool) :
    unify (.struct xs c) (scMeet s t) = .bot := by
  unfold scMeet; split <;> simp

@[simp] theorem unify_scMeet_list (s t : Sc) (xs : Vals) :
    unify (scMeet s t) (.list xs) = .bot := by
  unfold scMeet; split <;> simp

@[simp] theorem unify_list_scMeet (s t : Sc) (xs : Vals) :
    unify (.list xs) (scMeet s t) = .bot := by
  unfold scMeet; split <;> simp

@[simp] theorem unify_normS_list (xs : Slots) (c : Bool) (ys : Vals) :
    unify (normS xs c) (.list ys) = .bot := by
  unfold normS; split <;> simp

@[simp] theorem unify_list_normS (xs : Slots) (c : Bool) (ys : Vals) :
    unify (.list ys) (normS xs c) = .bot := by
  unfold normS; split <;> simp

@[simp] theorem unify_sc_listRes (s : Sc) (o : Option Vals) : unify (.sc s) (listRes o) = .bot := by
  cases o <;> simp only [listRes, normL] <;> (try split) <;> simp

@[simp] theorem unify_listRes_sc (s : Sc) (o : Option Vals) : unify (listRes o) (.sc s) = .bot := by
  cases o <;> simp only [listRes, normL] <;> (try split) <;> simp

@[simp] theorem unify_struct_listRes (xs : Slots) (c : Bool) (o : Option Vals) :
    unify (.struct xs c) (listRes o) = .bot := by
  cases o <;> simp only [listRes, normL] <;> (try split) <;> simp

@[simp] theorem unify_listRes_struct (xs : Slots) (c : Bool) (o : Option Vals) :
    unify (listRes o) (.struct xs c) = .bot := by
  cases o <;> simp only [listRes, normL] <;> (try split) <;> simp

/-! ### a bottom list element stays one -/

theorem isBot_iff (v : Val) : v.isBot = true ↔ v = .bot := by
  cases v <;> simp [Val.isBot]

theorem hasBot_zipU : ∀ (xs ys r : Vals), zipU xs ys = some r → xs.hasBot = true → r.hasBot = true
  | .nil, _, _, _, h => by simp [Vals.hasBot] at h
  | .cons _ _, .nil, _, h, _ => by simp [zipU] at h
  | .cons x xs, .cons y ys, r, h, hb => by
    simp only [zipU] at h
    cases hz : zipU xs ys with
    | none => simp [hz] at h
    | some r' =>
      simp only [hz, Option.some.injEq] at h
      subst h
      simp only [Vals.hasBot, Bool.or_eq_true] at hb ⊢
      rcases hb with hb | hb
      · left; rw [(isBot_iff x).1 hb]; simp [Val.isBot]
      · right; exact hasBot_zipU xs ys r' hz hb

theorem hasBot_zipU_right (xs ys r : Vals) (h : zipU xs ys = some r) (hb : ys.hasBot = true) :
    r.hasBot = true := by
  rw [zipU_comm] at h; exact hasBot_zipU ys xs r h hb

theorem listRes_hasBot_left (xs ys : Vals) (h : xs.hasBot = true) : listRes (zipU xs ys) = .bot := by
  cases hz : zipU xs ys with
  | none => rfl
  | some r => simp [listRes, normL, hasBot_zipU xs ys r hz h]

theorem listRes_hasBot_right (xs ys : Vals) (h : ys.hasBot = true) : listRes (zipU xs ys) = .bot := by
  rw [zipU_comm]; exact listRes_hasBot_left ys xs h

theorem unify_normL_list (r zs : Vals) :
    unify (normL r) (.list zs) = if r.hasBot then .bot else listRes (zipU r zs) := by
  unfold normL; split <;> simp [unify_list_list]

theorem unify_list_normL (xs r : Vals) :
    unify (.list xs) (normL r) = if r.hasBot then .bot else listRes (zipU xs r) := by
  unfold normL; split <;> simp [unify_list_list]

theorem scMeet_assoc (s t u : Sc) :
    unify (scMeet s t) (.sc u) = unify (.sc s) (scMeet t u) := by
  have h := Sc.meet_assoc s t u
  unfold scMeet
  cases hst : Sc.meet s t <;> cases htu : Sc.meet t u <;> simp [hst, htu, scMeet] at h ⊢
  · simp [← h]
  · simp [h]
  · simp [h]

mutual
theorem unify_assoc : ∀ a b c : Val, unify (unify a b) c = unify a (unify b c)
  | .bot, _, _ => by simp
  | .top, _, _ => by simp
  | _, .bot, _ => by simp
  | _, .top, _ => by simp
  | _, _, .bot => by simp
  | _, _, .top => by simp
  | .sc s, .sc t, .sc u => by
    simp only [unify_sc_sc]; exact scMeet_assoc s t u
  | .sc s, .sc t, .struct zs e => by simp
  | .sc s, .struct ys d, .sc u => by simp
  | .sc s, .struct ys d, .struct zs e => by simp [unify_struct_struct]
  | .struct xs c, .sc t, .sc u => by simp
  | .struct xs c, .sc t, .struct zs e => by simp
  | .struct xs c, .struct ys d, .sc u => by simp [unify_struct_struct]
  | .sc _, .sc _, .list _ => by simp
  | .sc _, .struct _ _, .list _ => by simp
  | .sc _, .list _, .sc _ => by simp
  | .sc _, .list _, .struct _ _ => by simp
  | .sc _, .list _, .list _ => by simp [unify_list_list]
  | .struct _ _, .sc _, .list _ => by simp
  | .struct _ _, .struct _ _, .list _ => by simp [unify_struct_struct]
  | .struct _ _, .list _, .sc _ => by simp
  | .struct _ _, .list _, .struct _ _ => by simp
  | .struct _ _, .list _, .list _ => by simp [unify_list_list]
  | .list _, .sc _, .sc _ => by simp
  | .list _, .sc _, .struct _ _ => by simp
  | .list _, .sc _, .list _ => by simp
  | .list _, .struct _ _, .sc _ => by simp
  | .list _, .struct _ _, .struct _ _ => by simp [unify_struct_struct]
  | .list _, .struct _ _, .list _ => by simp
  | .list _, .list _, .sc _ => by simp [unify_list_list]
  | .list _, .list _, .struct _ _ => by simp [unify_list_list]
  | .list xs, .list ys, .list zs => by
    simp only [unify_list_list]
    have hz := zipU_assoc xs ys zs
    cases hxy : zipU xs ys with
    | none =>
      cases hyz : zipU ys zs with
      | none => simp
      | some r' =>
        simp only [hxy, hyz, Option.bind_none, Option.bind_some] at hz
        simp only [listRes_some, listRes_none, unify_list_normL, ← hz, unify_bot_left]
        split <;> rfl
    | some r =>
      cases hyz : zipU ys zs with
      | none =>
        simp only [hxy, hyz, Option.bind_none, Option.bind_some] at hz
        simp only [listRes_some, listRes_none, unify_normL_list, hz, unify_bot_right]
        split <;> rfl
      | some r' =>
        simp only [hxy, hyz, Option.bind_some] at hz
        simp only [listRes_some, unify_normL_list, unify_list_normL, hz]
        by_cases h1 : r.hasBot = true
        · have := listRes_hasBot_left r zs h1
          rw [hz] at this
          simp [h1, this]
        · by_cases h2 : r'.hasBot = true
          · simp [h1, h2, listRes_hasBot_right xs r' h2]
          · simp [h1, h2]
  | .struct xs c, .struct ys d, .struct zs e => by
    simp only [unify_struct_struct]
    have hm := mergeSlots_assoc xs c ys d zs e
    unfold normS
    by_cases h1 : (mergeSlots xs c ys d).hasRegBot = true
    · have h3 := hasRegBot_mergeSlots _ (c || d) zs e h1
      rw [hm] at h3
      by_cases h2 : (mergeSlots ys d zs e).hasRegBot = true
      · simp [h1, h2]
      · simp [h1, h2, unify_struct_struct, normS, h3]
    · by_cases h2 : (mergeSlots ys d zs e).hasRegBot = true
      · have h3 := hasRegBot_mergeSlots_right xs c _ (d || e) h2
        rw [← hm] at h3
        simp [h1, h2, unify_struct_struct, normS, h3]
      · simp [h1, h2, unify_struct_struct, normS, hm, Bool.or_assoc]
termination_by structural a _ _ => a
theorem mergeSlots_assoc : ∀ (xs : Slots) (c : Bool) (ys : Slots) (d : Bool) (zs : Slots) (e : Bool),
    mergeSlots (mergeSlots xs c ys d) (c || d) zs e = mergeSlots xs c (mergeSlots ys d zs e) (d || e)
  | .nil, c, ys, d, zs, e => by
    simp only [mergeSlots]; exact mergeSlots_close_left c d e ys zs
  | .cons x xs, c, .nil, d, zs, e => by
    simp only [mergeSlots]; exact mergeSlots_close_mid c d e (.cons x xs) zs
  | .cons x xs, c, .cons y ys, d, .nil, e => by
    rw [mergeSlots_nil_right, mergeSlots_nil_right]; exact mergeSlots_close_right c d e _ _
  | .cons x xs, c, .cons y ys, d, .cons z zs, e => by
    simp only [mergeSlots]
    rw [mergeSlot_assoc x c y d z e, mergeSlots_assoc xs c ys d zs e]
termination_by structural xs _ _ _ _ _ => xs
theorem mergeSlot_assoc : ∀ (x : Slot) (c : Bool) (y : Slot) (d : Bool) (z : Slot) (e : Bool),
    mergeSlot (mergeSlot x c y d) (c || d) z e = mergeSlot x c (mergeSlot y d z e) (d || e)
  | .none, c, y, d, z, e => by
    simp only [mergeSlot]; exact mergeSlot_close_left c d e y z
  | .some t v, c, .none, d, z, e => by
    simp only [mergeSlot]; exact mergeSlot_close_mid c d e (.some t v) z
  | .some t v, c, .some t' w, d, .none, e => by
    rw [mergeSlot_none_right, mergeSlot_none_right]; exact mergeSlot_close_right c d e _ _
  | .some t v, c, .some t' w, d, .some t'' u, e => by
    simp only [mergeSlot]
    rw [unify_assoc v w u, ArcTy.min_assoc]
termination_by structural x _ _ _ _ _ => x
theorem zipU_assoc : ∀ (xs ys zs : Vals),
    (zipU xs ys).bind (fun r => zipU r zs) = (zipU ys zs).bind (fun r => zipU xs r)
  | .nil, .nil, .nil => by simp [zipU]
  | .nil, .nil, .cons _ _ => by simp [zipU]
  | .nil, .cons y ys, .nil => by simp [zipU]
  | .nil, .cons y ys, .cons z zs => by
    cases h : zipU ys zs <;> simp [zipU, h]
  | .cons x xs, .nil, .nil => by simp [zipU]
  | .cons x xs, .nil, .cons _ _ => by simp [zipU]
  | .cons x xs, .cons y ys, .nil => by
    cases h : zipU xs ys <;> simp [zipU, h]
  | .cons x xs, .cons y ys, .cons z zs => by
    have ih := zipU_assoc xs ys zs
    cases hxy : zipU xs ys with
    | none =>
      cases hyz : zipU ys zs with
      | none => simp [zipU, hxy, hyz]
      | some r' =>
        simp only [hxy, hyz, Option.bind_none, Option.bind_some] at ih
        simp [zipU, hxy, hyz, ← ih]
    | some r =>
      cases hyz : zipU ys zs with
      | none =>
        simp only [hxy, hyz, Option.bind_none, Option.bind_some] at ih
        simp [zipU, hxy, hyz, ih]
      | some r' =>
        simp only [hxy, hyz, Option.bind_some] at ih
        simp [zipU, hxy, hyz, ih, unify_assoc x y z]
termination_by structural xs _ _ => xs
end

end CueVerif.Core
