import CueVerif.Proofs.ModCacheStep1
/-! C16: `Inv` is preserved by the transitions of each program point (part 2) -/
namespace CueVerif.ModCache

theorem inv_zCreate {n s t c s' o} (h : Inv n s) (hp : s.pc t = .zCreate)
    (hn : next n s t c = some (s', o)) : Inv n s' := by
  open_next
  all_goals step_pre
  all_goals step_main

theorem inv_zGet {n s t c s' o k} (h : Inv n s) (hp : s.pc t = .zGet k)
    (hn : next n s t c = some (s', o)) : Inv n s' := by
  open_next
  all_goals step_pre
  all_goals step_main

theorem inv_zCopy {n s t c s' o k} (h : Inv n s) (hp : s.pc t = .zCopy k)
    (hn : next n s t c = some (s', o)) : Inv n s' := by
  open_next
  all_goals step_pre
  all_goals step_main

theorem inv_zRename {n s t c s' o k} (h : Inv n s) (hp : s.pc t = .zRename k)
    (hn : next n s t c = some (s', o)) : Inv n s' := by
  open_next
  all_goals step_pre
  all_goals step_main

theorem inv_zFail {n s t c s' o k} (h : Inv n s) (hp : s.pc t = .zFail k)
    (hn : next n s t c = some (s', o)) : Inv n s' := by
  open_next
  all_goals step_pre
  all_goals step_main

theorem inv_zUnlock {n s t c s' o k} (h : Inv n s) (hp : s.pc t = .zUnlock k)
    (hn : next n s t c = some (s', o)) : Inv n s' := by
  open_next
  all_goals step_pre
  all_goals step_main

theorem inv_lLock {n s t c s' o} (h : Inv n s) (hp : s.pc t = .lLock)
    (hn : next n s t c = some (s', o)) : Inv n s' := by
  open_next
  all_goals step_pre
  all_goals step_main

theorem inv_lStatDir {n s t c s' o} (h : Inv n s) (hp : s.pc t = .lStatDir)
    (hn : next n s t c = some (s', o)) : Inv n s' := by
  open_next
  all_goals step_pre
  all_goals step_main

theorem inv_lStatMark {n s t c s' o} (h : Inv n s) (hp : s.pc t = .lStatMark)
    (hn : next n s t c = some (s', o)) : Inv n s' := by
  open_next
  all_goals step_pre
  all_goals step_main

theorem inv_lRmAll {n s t c s' o} (h : Inv n s) (hp : s.pc t = .lRmAll)
    (hn : next n s t c = some (s', o)) : Inv n s' := by
  open_next
  all_goals step_pre
  all_goals step_main

end CueVerif.ModCache
