/-
C09: the round trip of the MULTI-LINE forms of `Form.Append` (`WithTabIndent`, and
`WithOptionalTabIndent` on a string that contains a line feed):
  #^h """ LF [indent] body LF indent """ #^h      with h = requiredHashCount
-/
import CueVerif.Proofs.Quote
import CueVerif.Proofs.QuoteHash
namespace CueVerif.Quote

/-! ### `escapeLoop` with ml = true -/

/-- the indentation `appendEscaped` emits after a line feed: only when another byte follows
and that byte is not a line feed -/
def nlIndent (f : Form) (rest : Bytes) : Bytes :=
  match rest with
  | [] => []
  | b1 :: _ => if b1 != 10 then tabs f.indent else []

theorem escapeLoop_ml_bad (E : Env) (f : Form) (h b0 : Nat) (rest : Bytes)
    (hbr : (f.exact && (decodeFirst b0 rest).2 == 1 && (decodeFirst b0 rest).1 == 0xFFFD) = true) :
    escapeLoop E f true h (b0 :: rest) =
      appendEscape h ++ [0x78, hexDigit (b0 / 16 % 16), hexDigit (b0 % 16)] ++ escapeLoop E f true h rest := by
  conv => lhs; unfold escapeLoop
  simp only [hbr, if_true]

theorem escapeLoop_ml_nl (E : Env) (f : Form) (h : Nat) (rest : Bytes) :
    escapeLoop E f true h (10 :: rest) = 10 :: (nlIndent f rest ++ escapeLoop E f true h rest) := by
  conv => lhs; unfold escapeLoop
  have h1 : decodeFirst 10 rest = (10, 1) := by simp [decodeFirst]
  simp only [h1]
  cases rest <;> simp [nlIndent]

theorem escapeLoop_ml_good (E : Env) (f : Form) (h b0 : Nat) (rest : Bytes)
    (hbr : (f.exact && (decodeFirst b0 rest).2 == 1 && (decodeFirst b0 rest).1 == 0xFFFD) = false)
    (h10 : (decodeFirst b0 rest).1 ≠ 10) :
    escapeLoop E f true h (b0 :: rest) =
      appendEscapedRune E f true h (decodeFirst b0 rest).1 ++
        escapeLoop E f true h (rest.drop ((decodeFirst b0 rest).2 - 1)) := by
  conv => lhs; unfold escapeLoop
  have : ((decodeFirst b0 rest).1 == 10) = false := by simpa using h10
  simp only [hbr, this, Bool.and_false, Bool.false_eq_true, if_false]

/-! ### `unquoteChar` on a raw quote character inside a multi-line literal -/

theorem closing_ml (Q : QuoteInfo) (hm : Q.multiline = true) :
    Q.closing = Q.char :: Q.char :: Q.char :: hashes Q.numHash := by
  simp [QuoteInfo.closing, QuoteInfo.numChar, hm, List.replicate]

/-- a raw quote character is a plain character as long as more than the closing delimiter follows -/
theorem uc_quote_ml (Q : QuoteInfo) (hq : Q.char = 0x22 ∨ Q.char = 0x27) (hm : Q.multiline = true)
    (X : Bytes) (hl : Q.closing.length ≤ X.length) :
    unquoteChar (Q.char :: X) Q = .ok (.char Q.char false, X) := by
  have h0 : (Q.char != 0) = true := by rcases hq with h | h <;> simp [h]
  have hne : ((Q.char :: X).length != Q.closing.length) = true := by
    simp only [List.length_cons, bne_iff_ne, ne_eq]; omega
  simp only [unquoteChar, beq_self_eq_true, h0, Bool.and_self, if_true, hne, hm]
  split <;> rfl

theorem uc_close_ml (Q : QuoteInfo) (hq : Q.char = 0x22 ∨ Q.char = 0x27) (hm : Q.multiline = true) :
    unquoteChar (Q.char :: Q.char :: Q.char :: hashes Q.numHash) Q = .ok (.termQuote, []) := by
  have h0 : (Q.char != 0) = true := by rcases hq with h | h <;> simp [h]
  have hc := closing_ml Q hm
  simp [unquoteChar, h0, hc, List.isPrefixOf_iff_prefix]

theorem loop_close_ml (Q : QuoteInfo) (hq : Q.char = 0x22 ∨ Q.char = 0x27) (hm : Q.multiline = true)
    (fuel : Nat) (buf : Bytes) :
    unquoteLoop Q (fuel + 1) (Q.char :: Q.char :: Q.char :: hashes Q.numHash) buf true false
      = .ok buf.dropLast := by
  have e13 : (Q.char == 13) = false := by rcases hq with h | h <;> simp [h]
  have e10 : (Q.char == 10) = false := by rcases hq with h | h <;> simp [h]
  simp [unquoteLoop, unquoteCharSur, uc_close_ml Q hq hm, e13, e10]

/-- what `appendEscapedRune` emits in a multi-line body for one good unit is read back as
exactly that unit, provided more than the closing delimiter follows -/
theorem step_rune_ml {E : Env} (hE : E.Ok) (f : Form) (hf : f.WF) (Q : QuoteInfo) (hqc : Q.char = f.quote)
    (hm : Q.multiline = true)
    (r : Nat) (orig : Bytes) (hu : GoodUnit r orig) (tail buf : Bytes) (hl : Q.closing.length ≤ tail.length)
    (fuel : Nat) (sn we : Bool) :
    unquoteLoop Q (fuel + 1) (appendEscapedRune E f true Q.numHash r ++ tail) buf sn we
      = unquoteLoop Q fuel tail (buf ++ orig) false false := by
  have hq : Q.char = 0x22 ∨ Q.char = 0x27 := by rcases hf with h | h <;> simp [hqc, h.1]
  unfold appendEscapedRune
  split
  · -- backslash: `\` + hashes + `\`
    next h =>
    have hr : r = 0x5C := by simpa using h
    have hr80 : r < 0x80 := by omega
    have horig : orig = [r] := by
      rcases hu with ⟨_, h2⟩ | ⟨h1, _⟩
      · exact h2
      · omega
    have hshape : appendEscape Q.numHash ++ [r] ++ tail = 0x5C :: (hashes Q.numHash ++ r :: tail) := by
      simp [appendEscape]
    rw [hshape]
    have huc : unquoteChar (0x5C :: (hashes Q.numHash ++ r :: tail)) Q = .ok (.char r false, tail) := by
      rw [uc_backslash Q hq]
      simp [unquoteEscape, hr]
    rw [loop_step_char Q _ _ (by decide) (by decide) r false tail huc (by omega)]
    rw [pushChar_good hu buf false (fun _ => hr80)]
  · next hnq =>
    have hnq' : r ≠ 0x5C := by simpa using hnq
    split
    · -- printed raw
      next hp =>
      have hctl := Form.isPrint_not_ctl hE f r hp
      rcases hu with ⟨h1, h2⟩ | ⟨h1, h2, h3, h4⟩
      · subst h2
        rw [encodeRune_ascii r h1]
        have huc : unquoteChar (r :: tail) Q = .ok (.char r false, tail) := by
          by_cases hrq : r = Q.char
          · rw [hrq]; exact uc_quote_ml Q hq hm tail hl
          · exact uc_plain Q r tail h1 hctl.1 hnq' hrq
        show unquoteLoop Q (fuel + 1) (r :: tail) buf sn we = _
        rw [loop_step_char Q r tail hctl.2.2 hctl.2.1 r false tail huc (by omega)]
        have hm : r % 256 = r := by omega
        simp [pushChar, hm]
      · have huc := uc_multibyte Q hq r tail h1 h2 h3
        have hb := encodeRune_bytes_high r h1
        have hl := encodeRune_length r h1
        match he : encodeRune r with
        | [] => rw [he] at hl; simp at hl
        | c :: cs =>
          rw [he] at huc hb
          have hc := (hb c (by simp)).1
          show unquoteLoop Q (fuel + 1) (c :: (cs ++ tail)) buf sn we = _
          rw [loop_step_char Q c (cs ++ tail) (by omega) (by omega) r true tail huc h3]
          simp [pushChar, ← h4, he]
    · -- escaped
      have hx : f.exact = true → Q.char = 0x27 := by
        intro hex; rcases hf with g | g
        · rw [g.2] at hex; cases hex
        · rw [hqc]; exact g.1
      obtain ⟨e, t', mb, hsh, hue, hmb⟩ := esc_body_uc Q f.exact r tail hx hu.le
      have hshape : appendEscape Q.numHash ++ escapeBody f.exact r ++ tail
          = 0x5C :: (hashes Q.numHash ++ e :: t') := by
        simp only [appendEscape, List.cons_append, List.append_assoc, hsh]
      rw [hshape]
      have huc : unquoteChar (0x5C :: (hashes Q.numHash ++ e :: t')) Q = .ok (.char r mb, tail) := by
        rw [uc_backslash Q hq, hue]
      rw [loop_step_char Q _ _ (by decide) (by decide) r mb tail huc hu.notSur]
      rw [pushChar_good hu buf mb hmb]

/-! ### the main loop over a multi-line body -/

/-- the end of a multi-line literal: LF, indentation, closing delimiter -/
def mlEnd (Q : QuoteInfo) : Bytes :=
  10 :: (Q.whitespace ++ Q.char :: Q.char :: Q.char :: hashes Q.numHash)

theorem skipWS_indent (Q : QuoteInfo) (hm : Q.multiline = true) (X : Bytes) :
    skipWS (Q.whitespace ++ X) Q = .ok X := by
  simp [skipWS, hm, List.isPrefixOf_iff_prefix]

theorem skipWS_nl (Q : QuoteInfo) (hm : Q.multiline = true) (n : Nat) (hws : Q.whitespace = tabs n)
    (X : Bytes) : skipWS (10 :: X) Q = .ok (10 :: X) := by
  cases n with
  | zero => simp [skipWS, hm, hws, tabs]
  | succ k => simp [skipWS, hm, hws, tabs, List.replicate_succ]

theorem closing_le_end (Q : QuoteInfo) (hm : Q.multiline = true) (X : Bytes) :
    Q.closing.length ≤ (X ++ mlEnd Q).length := by
  simp only [closing_ml Q hm, mlEnd, List.length_append, List.length_cons]; omega

theorem loop_step_nl (Q : QuoteInfo) (X X' : Bytes) (h1 : skipWS X Q = .ok X')
    (h2 : (Q.multiline && hasClosingDelimPrefix X' Q && decide (X'.length > Q.closing.length)) = false)
    (fuel : Nat) (buf : Bytes) (sn we : Bool) :
    unquoteLoop Q (fuel + 1) (10 :: X) buf sn we = unquoteLoop Q fuel X' (buf ++ [10]) true false := by
  simp [unquoteLoop, h1, h2]

theorem loop_end (Q : QuoteInfo) (hq : Q.char = 0x22 ∨ Q.char = 0x27) (hm : Q.multiline = true)
    (fuel : Nat) (buf : Bytes) (sn we : Bool) :
    unquoteLoop Q (fuel + 2) (mlEnd Q) buf sn we = .ok buf := by
  have h1 := skipWS_indent Q hm (Q.char :: Q.char :: Q.char :: hashes Q.numHash)
  have h2 := loop_close_ml Q hq hm fuel (buf ++ [10])
  have hcl : (Q.multiline && hasClosingDelimPrefix (Q.char :: Q.char :: Q.char :: hashes Q.numHash) Q &&
      decide ((Q.char :: Q.char :: Q.char :: hashes Q.numHash).length > Q.closing.length)) = false := by
    simp [closing_ml Q hm]
  show unquoteLoop Q ((fuel + 1) + 1) (10 :: _) buf sn we = _
  rw [loop_step_nl Q _ _ h1 hcl, h2]
  simp

theorem decodeFirst_ne10 (b0 : Nat) (rest : Bytes) (h : b0 ≠ 10) : (decodeFirst b0 rest).1 ≠ 10 := by
  obtain ⟨hw1, hcase⟩ := decodeFirst_cases b0 rest
  rcases hcase with ⟨hg, _⟩ | ⟨_, _, hr⟩
  · rcases hg with ⟨_, h2⟩ | ⟨h1, _⟩
    · obtain ⟨k, hk⟩ : ∃ k, (decodeFirst b0 rest).2 = k + 1 := ⟨(decodeFirst b0 rest).2 - 1, by omega⟩
      rw [hk, List.take_succ_cons] at h2
      simp only [List.cons.injEq] at h2
      omega
    · omega
  · omega

/-- no line of the body (and not the body itself) starts with the closing delimiter -/
def Safe (E : Env) (f : Form) (Q : QuoteInfo) (s : Bytes) : Prop :=
  ∀ t, (10 :: t) <:+ s → Q.closing.isPrefixOf (escapeLoop E f true Q.numHash t ++ mlEnd Q) = false

theorem Safe.suffix {E : Env} {f : Form} {Q : QuoteInfo} {s s' : Bytes} (h : Safe E f Q s) (hs : s' <:+ s) :
    Safe E f Q s' := fun t ht => h t (ht.trans hs)

theorem loop_multi {E : Env} (hE : E.Ok) (f : Form) (hf : f.WF) (Q : QuoteInfo)
    (hqc : Q.char = f.quote) (hm : Q.multiline = true) (hws : Q.whitespace = tabs f.indent) :
    ∀ (n : Nat) (s : Bytes), s.length ≤ n → IsBytes s → (f.exact = true ∨ validUTF8 s = true) →
      Safe E f Q s →
    ∀ (fuel : Nat) (buf : Bytes) (sn we : Bool), (escapeLoop E f true Q.numHash s).length + 2 ≤ fuel →
      unquoteLoop Q fuel (escapeLoop E f true Q.numHash s ++ mlEnd Q) buf sn we = .ok (buf ++ s) := by
  have hq : Q.char = 0x22 ∨ Q.char = 0x27 := by rcases hf with h | h <;> simp [hqc, h.1]
  have hnil : ∀ (fuel : Nat) (buf : Bytes) (sn we : Bool), (escapeLoop E f true Q.numHash []).length + 2 ≤ fuel →
      unquoteLoop Q fuel (escapeLoop E f true Q.numHash [] ++ mlEnd Q) buf sn we = .ok (buf ++ []) := by
    intro fuel buf sn we hfuel
    obtain ⟨k, rfl⟩ : ∃ k, fuel = k + 2 := ⟨fuel - 2, by omega⟩
    simp [escapeLoop, loop_end Q hq hm]
  intro n
  induction n with
  | zero =>
    intro s hn _ _ _ fuel buf sn we hfuel
    have : s = [] := List.length_eq_zero_iff.mp (by omega)
    subst this
    exact hnil fuel buf sn we hfuel
  | succ n ih =>
    intro s hn hb hv hsafe fuel buf sn we hfuel
    match s with
    | [] => exact hnil fuel buf sn we hfuel
    | b0 :: rest =>
      obtain ⟨k, rfl⟩ : ∃ k, fuel = k + 1 := ⟨fuel - 1, by omega⟩
      have hb0 : b0 < 256 := hb b0 (by simp)
      have hlen : rest.length ≤ n := by simp at hn; omega
      by_cases h10 : b0 = 10
      · -- a line feed
        subst h10
        rw [escapeLoop_ml_nl] at hfuel ⊢
        have hv' : f.exact = true ∨ validUTF8 rest = true := by
          rcases hv with h | h
          · exact Or.inl h
          · right
            unfold validUTF8 at h
            simpa [decodeFirst] using h
        have hsk : skipWS (nlIndent f rest ++ escapeLoop E f true Q.numHash rest ++ mlEnd Q) Q
            = .ok (escapeLoop E f true Q.numHash rest ++ mlEnd Q) := by
          match rest with
          | [] => simp [nlIndent, escapeLoop, mlEnd, skipWS_nl Q hm f.indent hws]
          | b1 :: r =>
            by_cases h1 : b1 = 10
            · subst h1
              rw [escapeLoop_ml_nl]
              simp [nlIndent, skipWS_nl Q hm f.indent hws]
            · have : (b1 != 10) = true := by simpa using h1
              simp only [nlIndent, this, if_true, ← hws, List.append_assoc]
              exact skipWS_indent Q hm _
        have hcl : (Q.multiline && hasClosingDelimPrefix (escapeLoop E f true Q.numHash rest ++ mlEnd Q) Q &&
            decide ((escapeLoop E f true Q.numHash rest ++ mlEnd Q).length > Q.closing.length)) = false := by
          have := hsafe rest (List.suffix_refl _)
          simp [hasClosingDelimPrefix, this]
        have hk : (escapeLoop E f true Q.numHash rest).length + 2 ≤ k := by
          simp only [List.length_append, List.length_cons] at hfuel; omega
        show unquoteLoop Q (k + 1) (10 :: (nlIndent f rest ++ escapeLoop E f true Q.numHash rest ++ mlEnd Q)) buf sn we = _
        rw [loop_step_nl Q _ _ hsk hcl]
        rw [ih rest hlen hb.tail hv' (hsafe.suffix (List.suffix_cons _ _)) k _ _ _ hk]
        simp
      · have hr10 := decodeFirst_ne10 b0 rest h10
        obtain ⟨hw1, hcase⟩ := decodeFirst_cases b0 rest
        rcases hcase with ⟨hgood, hnot⟩ | ⟨h80, hw, hr⟩
        · -- a good unit
          have hbr : (f.exact && (decodeFirst b0 rest).2 == 1 && (decodeFirst b0 rest).1 == 0xFFFD) = false := by
            by_cases hx : (decodeFirst b0 rest).2 = 1
            · have hlt : b0 < 0x80 := by omega
              have : (decodeFirst b0 rest).1 = b0 := by simp [decodeFirst, hlt]
              have hne : ((decodeFirst b0 rest).1 == 0xFFFD) = false := by
                rw [this]; simp; omega
              simp [hne]
            · have : ((decodeFirst b0 rest).2 == 1) = false := by simpa using hx
              simp [this]
          rw [escapeLoop_ml_good E f _ b0 rest hbr hr10] at hfuel ⊢
          have hpos := appendEscapedRune_pos E f true Q.numHash (decodeFirst b0 rest).1
          simp only [List.append_assoc]
          rw [step_rune_ml hE f hf Q hqc hm _ _ hgood _ _ (closing_le_end Q hm _)]
          have hv' : f.exact = true ∨ validUTF8 (rest.drop ((decodeFirst b0 rest).2 - 1)) = true := by
            rcases hv with h | h
            · exact Or.inl h
            · right
              unfold validUTF8 at h
              have : (decide (0x80 ≤ b0) && (decodeFirst b0 rest).2 == 1) = false := by
                simp only [Bool.and_eq_false_iff, decide_eq_false_iff_not, beq_eq_false_iff_ne]
                by_cases h80 : 0x80 ≤ b0
                · right; intro hh; exact hnot ⟨h80, hh⟩
                · left; exact h80
              simpa [this] using h
          have hlen' : (rest.drop ((decodeFirst b0 rest).2 - 1)).length ≤ n := by
            simp only [List.length_drop]; omega
          have hk' : (escapeLoop E f true Q.numHash (rest.drop ((decodeFirst b0 rest).2 - 1))).length + 2 ≤ k := by
            simp only [List.length_append] at hfuel; omega
          have hsuf : rest.drop ((decodeFirst b0 rest).2 - 1) <:+ b0 :: rest :=
            (List.drop_suffix _ _).trans (List.suffix_cons _ _)
          rw [ih _ hlen' (hb.tail.drop _) hv' (hsafe.suffix hsuf) k _ _ _ hk']
          rw [List.append_assoc, take_drop_unit b0 rest _ hw1]
        · -- an invalid byte: only the bytes form gets here
          have hx : f.exact = true := by
            rcases hv with h | h
            · exact h
            · unfold validUTF8 at h
              have : (decide (0x80 ≤ b0) && (decodeFirst b0 rest).2 == 1) = true := by simp [h80, hw]
              simp [this] at h
          have hq27 : Q.char = 0x27 := by
            rcases hf with g | g
            · rw [g.2] at hx; cases hx
            · rw [hqc]; exact g.1
          have hbr : (f.exact && (decodeFirst b0 rest).2 == 1 && (decodeFirst b0 rest).1 == 0xFFFD) = true := by
            simp [hx, hw, hr]
          rw [escapeLoop_ml_bad E f _ b0 rest hbr] at hfuel ⊢
          have hk : (escapeLoop E f true Q.numHash rest).length + 2 ≤ k := by
            simp only [List.length_append, List.length_cons] at hfuel; omega
          simp only [List.append_assoc]
          have := step_badbyte Q hq27 b0 hb0 (escapeLoop E f true Q.numHash rest ++ mlEnd Q) buf k sn we
          simp only [List.append_assoc] at this
          rw [this]
          rw [ih rest hlen hb.tail (Or.inl hx) (hsafe.suffix (List.suffix_cons _ _)) k _ _ _ hk]
          simp

/-! ### the quote / hash structure of the body mirrors the source -/

/-- an ASCII byte other than LF is copied raw or becomes an escape -/
theorem esc_ascii (E : Env) (f : Form) (h b0 : Nat) (rest : Bytes) (hlt : b0 < 0x80) (h10 : b0 ≠ 10) :
    escapeLoop E f true h (b0 :: rest) = b0 :: escapeLoop E f true h rest ∨
    ∃ tl, escapeLoop E f true h (b0 :: rest) = 0x5C :: tl := by
  have hd : decodeFirst b0 rest = (b0, 1) := by simp [decodeFirst, hlt]
  have hbr : (f.exact && (decodeFirst b0 rest).2 == 1 && (decodeFirst b0 rest).1 == 0xFFFD) = false := by
    rw [hd]
    have : (b0 == 0xFFFD) = false := by simp; omega
    simp [this]
  rw [escapeLoop_ml_good E f h b0 rest hbr (by rw [hd]; exact h10), hd]
  simp only [Nat.sub_self, List.drop_zero]
  unfold appendEscapedRune
  split
  · right; simp only [appendEscape, List.cons_append]; exact ⟨_, rfl⟩
  split
  · left; rw [encodeRune_ascii b0 hlt]; rfl
  · right; simp only [appendEscape, List.cons_append]; exact ⟨_, rfl⟩

theorem aer_head_high (E : Env) (f : Form) (ml : Bool) (h r : Nat) (hr : 0x80 ≤ r) :
    ∃ c tl, appendEscapedRune E f ml h r = c :: tl ∧ (c = 0x5C ∨ 0x80 ≤ c) := by
  unfold appendEscapedRune
  split
  · simp only [appendEscape, List.cons_append]; exact ⟨_, _, rfl, Or.inl rfl⟩
  split
  · have hb := encodeRune_bytes_high r hr
    have hl := encodeRune_length r hr
    match he : encodeRune r with
    | [] => rw [he] at hl; simp at hl
    | c :: cs =>
      rw [he] at hb
      exact ⟨c, cs, rfl, Or.inr (hb c (by simp)).1⟩
  · simp only [appendEscape, List.cons_append]; exact ⟨_, _, rfl, Or.inl rfl⟩

/-- a non-ASCII byte: the chunk starts with a backslash or a non-ASCII byte -/
theorem esc_high (E : Env) (f : Form) (h a : Nat) (rest : Bytes) (ha : 0x80 ≤ a) :
    ∃ c tl, escapeLoop E f true h (a :: rest) = c :: tl ∧ (c = 0x5C ∨ 0x80 ≤ c) := by
  have hr80 : 0x80 ≤ (decodeFirst a rest).1 := by
    obtain ⟨hw1, hcase⟩ := decodeFirst_cases a rest
    rcases hcase with ⟨hg, _⟩ | ⟨_, _, hr⟩
    · rcases hg with ⟨h1, h2⟩ | ⟨h1, _⟩
      · obtain ⟨k, hk⟩ : ∃ k, (decodeFirst a rest).2 = k + 1 := ⟨(decodeFirst a rest).2 - 1, by omega⟩
        rw [hk, List.take_succ_cons] at h2
        simp only [List.cons.injEq] at h2
        omega
      · exact h1
    · omega
  by_cases hbr : (f.exact && (decodeFirst a rest).2 == 1 && (decodeFirst a rest).1 == 0xFFFD) = true
  · rw [escapeLoop_ml_bad E f h a rest hbr]
    simp only [appendEscape, List.cons_append]; exact ⟨_, _, rfl, Or.inl rfl⟩
  · have hbr' : (f.exact && (decodeFirst a rest).2 == 1 && (decodeFirst a rest).1 == 0xFFFD) = false := by
      simpa using hbr
    rw [escapeLoop_ml_good E f h a rest hbr' (by omega)]
    obtain ⟨c, tl, he, hc⟩ := aer_head_high E f true h _ hr80
    exact ⟨c, _, by rw [he]; rfl, hc⟩

/-- an ASCII character of the body that is neither a backslash nor LF can only come from the
same character of the source, copied raw -/
theorem peel (E : Env) (f : Form) (h c : Nat) (hc80 : c < 0x80) (hc5c : c ≠ 0x5C) (hc10 : c ≠ 10)
    (P t Y : Bytes) (hp : (c :: P).isPrefixOf (escapeLoop E f true h t ++ 10 :: Y) = true) :
    ∃ t1, t = c :: t1 ∧ P.isPrefixOf (escapeLoop E f true h t1 ++ 10 :: Y) = true := by
  match t with
  | [] =>
    simp [escapeLoop, List.isPrefixOf] at hp
    omega
  | a :: t1 =>
    by_cases ha10 : a = 10
    · subst ha10
      rw [escapeLoop_ml_nl] at hp
      simp [List.isPrefixOf] at hp
      omega
    by_cases ha : a < 0x80
    · rcases esc_ascii E f h a t1 ha ha10 with he | ⟨tl, he⟩
      · rw [he] at hp
        simp only [List.cons_append, List.isPrefixOf, Bool.and_eq_true, beq_iff_eq] at hp
        exact ⟨t1, by rw [hp.1], hp.2⟩
      · rw [he] at hp
        simp only [List.cons_append, List.isPrefixOf, Bool.and_eq_true, beq_iff_eq] at hp
        omega
    · obtain ⟨c', tl, he, hc'⟩ := esc_high E f h a t1 (by omega)
      rw [he] at hp
      simp only [List.cons_append, List.isPrefixOf, Bool.and_eq_true, beq_iff_eq] at hp
      omega

theorem hash_le (E : Env) (f : Form) (h : Nat) (Y : Bytes) : ∀ (k : Nat) (t : Bytes),
    (hashes k).isPrefixOf (escapeLoop E f true h t ++ 10 :: Y) = true → k ≤ hashRun t := by
  intro k
  induction k with
  | zero => intros; omega
  | succ k ih =>
    intro t hp
    have hh : hashes (k + 1) = 0x23 :: hashes k := by simp [hashes, List.replicate_succ]
    rw [hh] at hp
    obtain ⟨t1, rfl, hp'⟩ := peel E f h 0x23 (by decide) (by decide) (by decide) _ _ _ hp
    have := ih t1 hp'
    rw [hashRun_cons_hash]; omega

/-- what `requiredHashCount` has to guarantee: more hashes than follow any run of three or
more quote characters at the start of the string or of one of its lines -/
def HashOK (q h : Nat) (s : Bytes) : Prop :=
  ∀ t', (q :: q :: q :: t' = s ∨ (10 :: q :: q :: q :: t') <:+ s) →
    hashRun (t'.dropWhile (· == q)) + 1 ≤ h

theorem noclose {E : Env} (f : Form) (hq : f.quote = 0x22 ∨ f.quote = 0x27) (h : Nat) (s : Bytes)
    (hok : HashOK f.quote h s) (t : Bytes) (ht : t = s ∨ (10 :: t) <:+ s) (Y : Bytes) :
    (f.quote :: f.quote :: f.quote :: hashes h).isPrefixOf (escapeLoop E f true h t ++ 10 :: Y) = false := by
  rw [Bool.eq_false_iff]
  intro hp
  have q80 : f.quote < 0x80 := by rcases hq with g | g <;> omega
  have q5c : f.quote ≠ 0x5C := by rcases hq with g | g <;> omega
  have q10 : f.quote ≠ 10 := by rcases hq with g | g <;> omega
  have q23 : f.quote ≠ 0x23 := by rcases hq with g | g <;> omega
  obtain ⟨t1, rfl, hp1⟩ := peel E f h f.quote q80 q5c q10 _ _ _ hp
  obtain ⟨t2, rfl, hp2⟩ := peel E f h f.quote q80 q5c q10 _ _ _ hp1
  obtain ⟨t3, rfl, hp3⟩ := peel E f h f.quote q80 q5c q10 _ _ _ hp2
  have h1 := hash_le E f h Y h t3 hp3
  have h2 := hok t3 (by
    rcases ht with ht | ht
    · left; exact ht
    · right; exact ht)
  have h3 : hashRun t3 ≤ hashRun (t3.dropWhile (· == f.quote)) := by
    match t3 with
    | [] => simp
    | a :: r =>
      by_cases ha : a = f.quote
      · rw [ha, hashRun_cons_ne _ _ q23]; omega
      · have : (a == f.quote) = false := by simpa using ha
        simp [this]
  omega

/-! ### `requiredHashCount` -/

theorem rhc_cons (q b : Nat) (rest : Bytes) (acc : Nat) :
    rhcLoop q (b :: rest) acc =
      if [q, q, q].isPrefixOf (b :: rest) then
        rhcLoop q (((rest.drop 2).dropWhile (· == q)).drop (hashRun ((rest.drop 2).dropWhile (· == q))))
          (max acc (hashRun ((rest.drop 2).dropWhile (· == q)) + 1))
      else rhcLoop q rest acc := by
  conv => lhs; unfold rhcLoop

theorem jump_len (q : Nat) (rest : Bytes) (k : Nat) :
    (((rest.drop 2).dropWhile (· == q)).drop k).length ≤ rest.length := by
  have h1 := (List.dropWhile_sublist (l := List.drop 2 rest) (· == q)).length_le
  simp only [List.length_drop] at h1 ⊢
  omega

theorem rhc_mono (q : Nat) : ∀ (n : Nat) (s : Bytes) (acc : Nat), s.length ≤ n → acc ≤ rhcLoop q s acc := by
  intro n
  induction n with
  | zero =>
    intro s acc hn
    have : s = [] := List.length_eq_zero_iff.mp (by omega)
    subst this
    simp [rhcLoop]
  | succ n ih =>
    intro s acc hn
    match s with
    | [] => simp [rhcLoop]
    | b :: rest =>
      have hlen : rest.length ≤ n := by simp at hn; omega
      rw [rhc_cons]
      split
      · exact Nat.le_trans (Nat.le_max_left _ _) (ih _ _ (Nat.le_trans (jump_len q rest _) hlen))
      · exact ih rest acc hlen

/-- a run of three or more quote characters at the very start -/
theorem rhc_start (q : Nat) (t' : Bytes) (acc : Nat) :
    hashRun (t'.dropWhile (· == q)) + 1 ≤ rhcLoop q (q :: q :: q :: t') acc := by
  rw [rhc_cons]
  have : [q, q, q].isPrefixOf (q :: q :: q :: t') = true := by simp [List.isPrefixOf]
  simp only [this, if_true, List.drop_succ_cons, List.drop_zero]
  exact Nat.le_trans (Nat.le_max_right _ _) (rhc_mono q _ _ _ (Nat.le_refl _))

theorem suffix_of_cons_ne {c a : Nat} {u l : Bytes} (h : (c :: u) <:+ (a :: l)) (hne : c ≠ a) :
    (c :: u) <:+ l := by
  rcases List.suffix_cons_iff.mp h with h | h
  · simp only [List.cons.injEq] at h; exact absurd h.1 hne
  · exact h

theorem suffix_dropWhile (p : Nat → Bool) (c : Nat) (u : Bytes) (hc : p c = false) :
    ∀ l : Bytes, (c :: u) <:+ l → (c :: u) <:+ l.dropWhile p := by
  intro l
  induction l with
  | nil => intro h; simp at h
  | cons a l ih =>
    intro h
    by_cases ha : p a = true
    · rw [List.dropWhile_cons_of_pos ha]
      exact ih (suffix_of_cons_ne h (by intro e; rw [e, ha] at hc; cases hc))
    · rw [List.dropWhile_cons_of_neg ha]; exact h

theorem suffix_drop_hashRun (c : Nat) (u : Bytes) (hc : c ≠ 0x23) :
    ∀ l : Bytes, (c :: u) <:+ l → (c :: u) <:+ l.drop (hashRun l) := by
  intro l
  induction l with
  | nil => intro h; simp at h
  | cons a l ih =>
    intro h
    by_cases ha : a = 0x23
    · subst ha
      rw [hashRun_cons_hash, List.drop_succ_cons]
      exact ih (suffix_of_cons_ne h hc)
    · rw [hashRun_cons_ne a l ha]; exact h

/-- a run of three or more quote characters right after a character that is neither a quote
nor a hash is seen by the scan -/
theorem rhc_suffix (q c : Nat) (t' : Bytes) (hcq : c ≠ q) (hc23 : c ≠ 0x23) :
    ∀ (n : Nat) (s : Bytes) (acc : Nat), s.length ≤ n → (c :: q :: q :: q :: t') <:+ s →
      hashRun (t'.dropWhile (· == q)) + 1 ≤ rhcLoop q s acc := by
  intro n
  induction n with
  | zero =>
    intro s acc hn hs
    have : s = [] := List.length_eq_zero_iff.mp (by omega)
    subst this
    simp at hs
  | succ n ih =>
    intro s acc hn hs
    match s with
    | [] => simp at hs
    | b :: rest =>
      have hlen : rest.length ≤ n := by simp at hn; omega
      rw [rhc_cons]
      split
      · next hpre =>
        -- the scan jumps over the run; the jump cannot pass `c`
        match rest, hpre with
        | b1 :: b2 :: r3, hpre =>
          simp only [List.isPrefixOf, Bool.and_eq_true, beq_iff_eq, Bool.and_true] at hpre
          obtain ⟨rfl, rfl, rfl⟩ := hpre
          have s1 := suffix_of_cons_ne (suffix_of_cons_ne (suffix_of_cons_ne hs hcq) hcq) hcq
          have hpc : (fun x : Nat => x == q) c = false := by simpa using hcq
          have s2 := suffix_dropWhile (fun x : Nat => x == q) c _ hpc r3 s1
          have s3 := suffix_drop_hashRun c _ hc23 _ s2
          simp only [List.drop_succ_cons, List.drop_zero]
          refine ih _ _ ?_ s3
          have := jump_len q (q :: q :: r3) (hashRun (List.dropWhile (fun x => x == q) r3))
          simp only [List.drop_succ_cons, List.drop_zero] at this
          exact Nat.le_trans this hlen
        | [], hpre => simp [List.isPrefixOf] at hpre
        | [_], hpre => simp [List.isPrefixOf] at hpre
      · rcases List.suffix_cons_iff.mp hs with h | h
        · simp only [List.cons.injEq] at h
          obtain ⟨rfl, rfl⟩ := h
          exact rhc_start q t' acc
        · exact ih rest acc hlen h

theorem requiredHashCount_ok (f : Form) (hq : f.quote = 0x22 ∨ f.quote = 0x27) (s : Bytes) :
    ∀ t', (f.quote :: f.quote :: f.quote :: t' = s ∨ (10 :: f.quote :: f.quote :: f.quote :: t') <:+ s) →
    hashRun (t'.dropWhile (· == f.quote)) + 1 ≤ requiredHashCount f s := by
  intro t' ht
  unfold requiredHashCount
  rcases ht with rfl | ht
  · exact rhc_start _ _ _
  · exact rhc_suffix f.quote 10 t' (by rcases hq with g | g <;> omega) (by decide) s.length s 0 (Nat.le_refl _) ht

/-! ### `ParseQuotes` on a multi-line literal -/

theorem decodeLast_ascii (X : Bytes) (c : Nat) (hc : c < 0x80) : decodeLastRune (X ++ [c]) = (c, 1) := by
  simp [decodeLastRune, hc]

theorem tabs_succ (k : Nat) : tabs (k + 1) = tabs k ++ [9] := by
  simp [tabs, List.replicate_succ']

theorem scanBack_tabs (P : Bytes) : ∀ (k fuel : Nat), k + 1 ≤ fuel →
    scanBackWS fuel (P ++ 10 :: tabs k) = (P.length + 1, true) := by
  intro k
  induction k with
  | zero =>
    intro fuel hf
    obtain ⟨j, rfl⟩ : ∃ j, fuel = j + 1 := ⟨fuel - 1, by omega⟩
    have h1 : decodeLastRune (P ++ [10]) = (10, 1) := decodeLast_ascii P 10 (by decide)
    simp [scanBackWS, tabs, h1]
  | succ k ih =>
    intro fuel hf
    obtain ⟨j, rfl⟩ : ∃ j, fuel = j + 1 := ⟨fuel - 1, by omega⟩
    have e1 : P ++ 10 :: tabs (k + 1) = (P ++ 10 :: tabs k) ++ [9] := by simp [tabs_succ]
    have h1 : decodeLastRune ((P ++ 10 :: tabs k) ++ [9]) = (9, 1) := decodeLast_ascii _ 9 (by decide)
    rw [e1]
    have h2 : ((P ++ 10 :: tabs k) ++ [9]).isEmpty = false := by simp
    have h3 : ((P ++ 10 :: tabs k) ++ [9]).take (((P ++ 10 :: tabs k) ++ [9]).length - 1) = P ++ 10 :: tabs k := by
      have : ((P ++ 10 :: tabs k) ++ [9]).length - 1 = (P ++ 10 :: tabs k).length := by simp
      rw [this, List.take_left]
    have h4 : isSpace 9 = true := by decide
    simp only [scanBackWS, h2, h1, h3, h4]
    simpa using ih j (by omega)

theorem parseQuotes_multi (q : Nat) (hq : q = 0x22 ∨ q = 0x27) (h n : Nat) (W Z : Bytes)
    (hZ : 10 :: Z = W ++ 10 :: (tabs n ++ q :: q :: q :: hashes h)) :
    parseQuotes (hashes h ++ q :: q :: q :: 10 :: Z) =
      if Z.head? != some 10 then
        (if (tabs n).isPrefixOf Z then
          .ok ({ char := q, numHash := h, multiline := true, whitespace := tabs n }, 3 + h + 1 + n)
         else .error .whitespace)
      else .ok ({ char := q, numHash := h, multiline := true, whitespace := tabs n }, 3 + h + 1) := by
  have hq23 : q ≠ 0x23 := by rcases hq with g | g <;> omega
  have hrun := hashRun_hashes h q (q :: q :: 10 :: Z) hq23
  have hdrop := drop_hashes h (q :: q :: q :: 10 :: Z)
  have hc : (q != 0x22 && q != 0x27) = false := by rcases hq with g | g <;> simp [g]
  -- the literal, split in front of the closing delimiter
  have hL : hashes h ++ q :: q :: q :: 10 :: Z
      = (hashes h ++ q :: q :: q :: W) ++ 10 :: tabs n ++ (q :: q :: q :: hashes h) := by
    rw [hZ]; simp
  have hlenC : (hashes h ++ [q, q, q]).length = 3 + h := by simp [hashes]; omega
  have hlenC' : (q :: q :: q :: hashes h).length = 3 + h := by simp [hashes]; omega
  have hop1 : (decide ((q :: q :: q :: 10 :: Z).length > 3) && (q :: q :: q :: 10 :: Z)[1]? == some q &&
      (q :: q :: q :: 10 :: Z)[2]? == some q && (q :: q :: q :: 10 :: Z)[3]? != some 35) = true := by simp
  have hop2 : ((q :: q :: q :: 10 :: Z)[3]? == some 10) = true := by simp
  have htake : List.take (3 + h) (hashes h ++ q :: q :: q :: 10 :: Z) = hashes h ++ [q, q, q] := by
    have hl : (hashes h).length = h := by simp [hashes]
    rw [List.take_append, hl]
    have : 3 + h - h = 3 := by omega
    rw [this, List.take_of_length_le (by omega)]
    simp
  have hrev : (hashes h ++ [q, q, q]).isPrefixOf (List.reverse (hashes h ++ q :: q :: q :: 10 :: Z)) = true := by
    rw [hL, List.reverse_append]
    have : (q :: q :: q :: hashes h).reverse = hashes h ++ [q, q, q] := by
      simp [reverse_hashes]
    rw [this]
    simp [List.isPrefixOf_iff_prefix]
  have hbody : List.take (List.length (hashes h ++ q :: q :: q :: 10 :: Z) - (hashes h ++ [q, q, q]).length)
      (hashes h ++ q :: q :: q :: 10 :: Z) = (hashes h ++ q :: q :: q :: W) ++ 10 :: tabs n := by
    rw [hlenC, hL]
    have : ((hashes h ++ q :: q :: q :: W) ++ 10 :: tabs n ++ (q :: q :: q :: hashes h)).length - (3 + h)
        = ((hashes h ++ q :: q :: q :: W) ++ 10 :: tabs n).length := by
      rw [List.length_append (bs := q :: q :: q :: hashes h), hlenC']; omega
    rw [this, List.take_left]
  have hscan := scanBack_tabs (hashes h ++ q :: q :: q :: W) n
    (((hashes h ++ q :: q :: q :: W) ++ 10 :: tabs n).length + 1)
    (by simp [tabs]; omega)
  have hws : List.drop ((hashes h ++ q :: q :: q :: W).length + 1) ((hashes h ++ q :: q :: q :: W) ++ 10 :: tabs n)
      = tabs n := by
    have : (hashes h ++ q :: q :: q :: W) ++ 10 :: tabs n = ((hashes h ++ q :: q :: q :: W) ++ [10]) ++ tabs n := by simp
    rw [this]
    have : (hashes h ++ q :: q :: q :: W).length + 1 = ((hashes h ++ q :: q :: q :: W) ++ [10]).length := by
      simp only [List.length_append, List.length_cons, List.length_nil]
    rw [this, List.drop_left]
  have hdropN : List.drop (3 + h + 1) (hashes h ++ q :: q :: q :: 10 :: Z) = Z := by
    have : 3 + h + 1 = h + 4 := by omega
    rw [this, ← List.drop_drop, drop_hashes]; rfl
  have hidx : (hashes h ++ q :: q :: q :: 10 :: Z)[3 + h + 1]? = Z.head? := by
    rw [← List.head?_drop, hdropN]
  have hZlen : 3 ≤ Z.length := by
    have := congrArg List.length hZ
    simp at this; omega
  have hlen : decide (List.length (hashes h ++ q :: q :: q :: 10 :: Z) > 3 + h + 1) = true := by
    simp [hashes]; omega
  have htl : (tabs n).length = n := by simp [tabs]
  unfold parseQuotes
  simp only [hrun, hdrop, hc, Bool.false_eq_true, if_false]
  simp only [hop1, hop2, if_true]
  simp only [htake, hrev, Bool.not_true, Bool.false_eq_true, if_false, hbody, hscan, hws,
    hidx, hlen, hdropN, htl, Bool.true_and]
  cases (Z.head? != some 10) <;> cases (tabs n).isPrefixOf Z <;> simp

/-! ### assembly -/

/-- what `ParseQuotes` finds in a multi-line literal -/
def mlInfo (f : Form) (h : Nat) : QuoteInfo :=
  { char := f.quote, numHash := h, multiline := true, whitespace := tabs f.indent }

theorem drop_opener (h q : Nat) (Z : Bytes) : (hashes h ++ q :: q :: q :: 10 :: Z).drop (3 + h + 1) = Z := by
  have : 3 + h + 1 = h + 4 := by omega
  rw [this, ← List.drop_drop, drop_hashes]; rfl

theorem parse_lit (f : Form) (hq : f.quote = 0x22 ∨ f.quote = 0x27) (h : Nat) (X ind0 W : Bytes)
    (hind : ind0 = tabs f.indent ∨ (ind0 = [] ∧ X.head? = some 10))
    (hW : 10 :: (ind0 ++ X) = W ++ 10 :: (tabs f.indent ++ f.quote :: f.quote :: f.quote :: hashes h)) :
    ∃ N, parseQuotes (hashes h ++ f.quote :: f.quote :: f.quote :: 10 :: (ind0 ++ X)) = .ok (mlInfo f h, N) ∧
      (hashes h ++ f.quote :: f.quote :: f.quote :: 10 :: (ind0 ++ X)).drop N = X := by
  rw [parseQuotes_multi f.quote hq h f.indent W (ind0 ++ X) hW]
  have htl : (tabs f.indent).length = f.indent := by simp [tabs]
  rcases hind with rfl | ⟨rfl, hX⟩
  · have hp : (tabs f.indent).isPrefixOf (tabs f.indent ++ X) = true := by simp [List.isPrefixOf_iff_prefix]
    simp only [hp, if_true]
    by_cases c : ((tabs f.indent ++ X).head? != some 10) = true
    · refine ⟨3 + h + 1 + f.indent, by simp only [c, if_true]; rfl, ?_⟩
      rw [← List.drop_drop, drop_opener]
      conv => lhs; arg 1; rw [← htl]
      exact List.drop_left
    · refine ⟨3 + h + 1, by simp only [c]; rfl, ?_⟩
      rw [drop_opener]
      match hn : f.indent with
      | 0 => simp [tabs]
      | k + 1 => rw [hn] at c; simp [tabs, List.replicate_succ] at c
  · refine ⟨3 + h + 1, ?_, by rw [drop_opener]; rfl⟩
    simp [hX]; rfl

theorem unquote_mlInfo_nil (f : Form) (hq : f.quote = 0x22 ∨ f.quote = 0x27) :
    (mlInfo f 0).unquote [f.quote, f.quote, f.quote] = .ok [] := by
  have h0 : (f.quote != 0) = true := by rcases hq with h | h <;> simp [h]
  have e13 : (f.quote == 13) = false := by rcases hq with h | h <;> simp [h]
  have e10 : (f.quote == 10) = false := by rcases hq with h | h <;> simp [h]
  have huc := uc_close_ml (mlInfo f 0) hq rfl
  simp only [mlInfo, hashes, List.replicate] at huc
  simp [QuoteInfo.unquote, mlInfo, hasClosingDelimPrefix, QuoteInfo.closing, QuoteInfo.numChar, hashes,
    unquoteLoop, unquoteCharSur, huc, e13, e10]

/-- `QuoteInfo.Unquote` on a body followed by LF, indentation and the closing delimiter -/
theorem unquote_body {E : Env} (hE : E.Ok) (f : Form) (hf : f.WF) (h : Nat) (s : Bytes) (hb : IsBytes s)
    (hv : f.exact = true ∨ validUTF8 s = true) (hok : HashOK f.quote h s) :
    (mlInfo f h).unquote (escapeLoop E f true h s ++ mlEnd (mlInfo f h)) = .ok s := by
  have hq : f.quote = 0x22 ∨ f.quote = 0x27 := by rcases hf with h | h <;> simp [h.1]
  have hcl : (mlInfo f h).closing = f.quote :: f.quote :: f.quote :: hashes h := closing_ml (mlInfo f h) rfl
  have hnc : ∀ t, (t = s ∨ (10 :: t) <:+ s) →
      (mlInfo f h).closing.isPrefixOf (escapeLoop E f true h t ++ mlEnd (mlInfo f h)) = false := by
    intro t ht
    rw [hcl]
    exact noclose f hq h s hok t ht _
  have hsafe : Safe E f (mlInfo f h) s := fun t ht => hnc t (Or.inr ht)
  have hm : (mlInfo f h).multiline = true := rfl
  have hloop : ∀ fuel, (escapeLoop E f true h s).length + 2 ≤ fuel →
      unquoteLoop (mlInfo f h) fuel (escapeLoop E f true h s ++ mlEnd (mlInfo f h)) [] false false
        = .ok ([] ++ s) := fun fuel hfu =>
    loop_multi hE f hf (mlInfo f h) rfl rfl rfl s.length s (Nat.le_refl _) hb hv hsafe fuel [] false false hfu
  simp only [QuoteInfo.unquote, hm, Bool.not_true, Bool.and_false, Bool.false_and, Bool.false_eq_true,
    if_false, hasClosingDelimPrefix, hnc s (Or.inl rfl)]
  rw [hloop _ (by simp only [List.length_append, mlEnd, List.length_cons]; omega)]
  rfl

/-- multi-line forms round-trip, for any single-line hash counter (it is not consulted) -/
theorem roundtrip_multi_with {E : Env} (hE : E.Ok) (slhc : Env → Form → Bytes → Nat) (f : Form) (hf : f.WF)
    (s : Bytes) (hb : IsBytes s) (hv : f.exact = true ∨ validUTF8 s = true)
    (hml : f.effMultiline s = true) : unquote (quoteWith slhc E f s) = .ok s := by
  have hq : f.quote = 0x22 ∨ f.quote = 0x27 := by rcases hf with h | h <;> simp [h.1]
  match s with
  | [] =>
    have hlit : quoteWith slhc E f [] =
        hashes 0 ++ f.quote :: f.quote :: f.quote :: 10 :: (tabs f.indent ++ [f.quote, f.quote, f.quote]) := by
      simp [quoteWith, hml, hashCountWith, requiredHashCount, rhcLoop, Form.triple, hashes]
    obtain ⟨N, hp, hd⟩ := parse_lit f hq 0 [f.quote, f.quote, f.quote] (tabs f.indent) [] (Or.inl rfl)
      (by simp [hashes])
    rw [hlit]
    unfold unquote
    rw [hp]
    simp only [hd]
    exact unquote_mlInfo_nil f hq
  | b0 :: rest =>
    have hok : HashOK f.quote (requiredHashCount f (b0 :: rest)) (b0 :: rest) := requiredHashCount_ok f hq _
    have hbody := unquote_body hE f hf _ (b0 :: rest) hb hv hok
    have hlit : quoteWith slhc E f (b0 :: rest) =
        hashes (requiredHashCount f (b0 :: rest)) ++ f.quote :: f.quote :: f.quote :: 10 ::
          ((if b0 = 10 then [] else tabs f.indent) ++
            (escapeLoop E f true (requiredHashCount f (b0 :: rest)) (b0 :: rest) ++
              mlEnd (mlInfo f (requiredHashCount f (b0 :: rest))))) := by
      simp [quoteWith, hml, hashCountWith, appendEscaped, Form.triple, mlEnd, mlInfo]
    rw [hlit]
    generalize requiredHashCount f (b0 :: rest) = h at hok hbody ⊢
    have hparse : ∃ N,
        parseQuotes (hashes h ++ f.quote :: f.quote :: f.quote :: 10 ::
          ((if b0 = 10 then [] else tabs f.indent) ++
            (escapeLoop E f true h (b0 :: rest) ++ mlEnd (mlInfo f h)))) = .ok (mlInfo f h, N) ∧
        (hashes h ++ f.quote :: f.quote :: f.quote :: 10 ::
          ((if b0 = 10 then [] else tabs f.indent) ++
            (escapeLoop E f true h (b0 :: rest) ++ mlEnd (mlInfo f h)))).drop N
          = escapeLoop E f true h (b0 :: rest) ++ mlEnd (mlInfo f h) := by
      by_cases h10 : b0 = 10
      · subst h10
        simp only [if_true]
        refine parse_lit f hq h _ [] (10 :: escapeLoop E f true h (10 :: rest)) (Or.inr ⟨rfl, ?_⟩) ?_
        · rw [escapeLoop_ml_nl]; rfl
        · simp [mlEnd, mlInfo]
      · simp only [h10, if_false]
        exact parse_lit f hq h _ (tabs f.indent) (10 :: (tabs f.indent ++ escapeLoop E f true h (b0 :: rest)))
          (Or.inl rfl) (by simp [mlEnd, mlInfo])
    obtain ⟨N, hp, hd⟩ := hparse
    unfold unquote
    rw [hp]
    simp only [hd]
    exact hbody

/-- C09_roundtrip_multi: every multi-line form (`WithTabIndent(n)`, `WithOptionalTabIndent(n)` on a
string that contains a line feed; String and Bytes; any options) reads back what was quoted -/
theorem roundtrip_multi {E : Env} (hE : E.Ok) (f : Form) (hf : f.WF) (s : Bytes) (hb : IsBytes s)
    (hv : f.exact = true ∨ validUTF8 s = true) (hml : f.effMultiline s = true) :
    unquote (quote E f s) = .ok s :=
  roundtrip_multi_with hE singleLineHashCount f hf s hb hv hml

/-- three consecutive quote characters somewhere in the string -/
def hasTriple (q : Nat) : Bytes → Bool
  | a :: b :: c :: t => (a == q && b == q && c == q) || hasTriple q (b :: c :: t)
  | _ => false

/-- stage 1 (kept as a named special case; the hypothesis is not needed any more):
strings without three consecutive quote characters -/
theorem roundtrip_multi_notriple {E : Env} (hE : E.Ok) (f : Form) (hf : f.WF) (s : Bytes) (hb : IsBytes s)
    (hv : f.exact = true ∨ validUTF8 s = true) (hml : f.effMultiline s = true)
    (_hnoq : hasTriple f.quote s = false) : unquote (quote E f s) = .ok s :=
  roundtrip_multi hE f hf s hb hv hml

end CueVerif.Quote
