/-
C09: the round trip of the MULTI-LINE forms of `Form.Append` (`WithTabIndent`, and
`WithOptionalTabIndent` on a string that contains a line feed):
  #^h """ LF [indent] body LF indent """ #^h      with h = requiredHashCount
-/
import CueVerif.Proofs.Quote
import CueVerif.Proofs.QuoteHash
namespace CueVerif.Quote

/-! ### `escapeLoop` with ml = true -/

/-- the indentation `appendEscaped` emits after a line feed: only when another byte follows
and that byte is not a line feed -/
def nlIndent (f : Form) (rest : Bytes) : Bytes :=
  match rest with
  | [] => []
  | b1 :: _ => if b1 != 10 then tabs f.indent else []

theorem escapeLoop_ml_bad (E : Env) (f : Form) (h b0 : Nat) (rest : Bytes)
    (hbr : (f.exact && (decodeFirst b0 rest).2 == 1 && (decodeFirst b0 rest).1 == 0xFFFD) = true) :
    escapeLoop E f true h (b0 :: rest) =
      appendEscape h ++ [0x78, hexDigit (b0 / 16 % 16), hexDigit (b0 % 16)] ++ escapeLoop E f true h rest := by
  conv => lhs; unfold escapeLoop
  simp only [hbr, if_true]

theorem escapeLoop_ml_nl (E : Env) (f : Form) (h : Nat) (rest : Bytes) :
    escapeLoop E f true h (10 :: rest) = 10 :: (nlIndent f rest ++ escapeLoop E f true h rest) := by
  conv => lhs; unfold escapeLoop
  have h1 : decodeFirst 10 rest = (10, 1) := by simp [decodeFirst]
  simp only [h1]
  cases rest <;> simp [nlIndent]

theorem escapeLoop_ml_good (E : Env) (f : Form) (h b0 : Nat) (rest : Bytes)
    (hbr : (f.exact && (decodeFirst b0 rest).2 == 1 && (decodeFirst b0 rest).1 == 0xFFFD) = false)
    (h10 : (decodeFirst b0 rest).1 ≠ 10) :
    escapeLoop E f true h (b0 :: rest) =
      appendEscapedRune E f true h (decodeFirst b0 rest).1 ++
        escapeLoop E f true h (rest.drop ((decodeFirst b0 rest).2 - 1)) := by
  conv => lhs; unfold escapeLoop
  have : ((decodeFirst b0 rest).1 == 10) = false := by simpa using h10
  simp only [hbr, this, Bool.and_false, Bool.false_eq_true, if_false]

/-! ### `unquoteChar` on a raw quote character inside a multi-line literal -/

theorem closing_ml (Q : QuoteInfo) (hm : Q.multiline = true) :
    Q.closing = Q.char :: Q.char :: Q.char :: hashes Q.numHash := by
  simp [QuoteInfo.closing, QuoteInfo.numChar, hm, List.replicate]

/-- a raw quote character is a plain character as long as more than the closing delimiter follows -/
theorem uc_quote_ml (Q : QuoteInfo) (hq : Q.char = 0x22 ∨ Q.char = 0x27) (hm : Q.multiline = true)
    (X : Bytes) (hl : Q.closing.length ≤ X.length) :
    unquoteChar (Q.char :: X) Q = .ok (.char Q.char false, X) := by
  have h0 : (Q.char != 0) = true := by rcases hq with h | h <;> simp [h]
  have hne : ((Q.char :: X).length != Q.closing.length) = true := by
    simp only [List.length_cons, bne_iff_ne, ne_eq]; omega
  simp only [unquoteChar, beq_self_eq_true, h0, Bool.and_self, if_true, hne, hm]
  split <;> rfl

theorem uc_close_ml (Q : QuoteInfo) (hq : Q.char = 0x22 ∨ Q.char = 0x27) (hm : Q.multiline = true) :
    unquoteChar (Q.char :: Q.char :: Q.char :: hashes Q.numHash) Q = .ok (.termQuote, []) := by
  have h0 : (Q.char != 0) = true := by rcases hq with h | h <;> simp [h]
  have hc := closing_ml Q hm
  simp [unquoteChar, h0, hc, List.isPrefixOf_iff_prefix]

theorem loop_close_ml (Q : QuoteInfo) (hq : Q.char = 0x22 ∨ Q.char = 0x27) (hm : Q.multiline = true)
    (fuel : Nat) (buf : Bytes) :
    unquoteLoop Q (fuel + 1) (Q.char :: Q.char :: Q.char :: hashes Q.numHash) buf true false
      = .ok buf.dropLast := by
  have e13 : (Q.char == 13) = false := by rcases hq with h | h <;> simp [h]
  have e10 : (Q.char == 10) = false := by rcases hq with h | h <;> simp [h]
  simp [unquoteLoop, unquoteCharSur, uc_close_ml Q hq hm, e13, e10]

/-- what `appendEscapedRune` emits in a multi-line body for one good unit is read back as
exactly that unit, provided more than the closing delimiter follows -/
theorem step_rune_ml {E : Env} (hE : E.Ok) (f : Form) (hf : f.WF) (Q : QuoteInfo) (hqc : Q.char = f.quote)
    (hm : Q.multiline = true)
    (r : Nat) (orig : Bytes) (hu : GoodUnit r orig) (tail buf : Bytes) (hl : Q.closing.length ≤ tail.length)
    (fuel : Nat) (sn we : Bool) :
    unquoteLoop Q (fuel + 1) (appendEscapedRune E f true Q.numHash r ++ tail) buf sn we
      = unquoteLoop Q fuel tail (buf ++ orig) false false := by
  have hq : Q.char = 0x22 ∨ Q.char = 0x27 := by rcases hf with h | h <;> simp [hqc, h.1]
  unfold appendEscapedRune
  split
  · -- backslash: `\` + hashes + `\`
    next h =>
    have hr : r = 0x5C := by simpa using h
    have hr80 : r < 0x80 := by omega
    have horig : orig = [r] := by
      rcases hu with ⟨_, h2⟩ | ⟨h1, _⟩
      · exact h2
      · omega
    have hshape : appendEscape Q.numHash ++ [r] ++ tail = 0x5C :: (hashes Q.numHash ++ r :: tail) := by
      simp [appendEscape]
    rw [hshape]
    have huc : unquoteChar (0x5C :: (hashes Q.numHash ++ r :: tail)) Q = .ok (.char r false, tail) := by
      rw [uc_backslash Q hq]
      simp [unquoteEscape, hr]
    rw [loop_step_char Q _ _ (by decide) (by decide) r false tail huc (by omega)]
    rw [pushChar_good hu buf false (fun _ => hr80)]
  · next hnq =>
    have hnq' : r ≠ 0x5C := by simpa using hnq
    split
    · -- printed raw
      next hp =>
      have hctl := Form.isPrint_not_ctl hE f r hp
      rcases hu with ⟨h1, h2⟩ | ⟨h1, h2, h3, h4⟩
      · subst h2
        rw [encodeRune_ascii r h1]
        have huc : unquoteChar (r :: tail) Q = .ok (.char r false, tail) := by
          by_cases hrq : r = Q.char
          · rw [hrq]; exact uc_quote_ml Q hq hm tail hl
          · exact uc_plain Q r tail h1 hctl.1 hnq' hrq
        show unquoteLoop Q (fuel + 1) (r :: tail) buf sn we = _
        rw [loop_step_char Q r tail hctl.2.2 hctl.2.1 r false tail huc (by omega)]
        have hm : r % 256 = r := by omega
        simp [pushChar, hm]
      · have huc := uc_multibyte Q hq r tail h1 h2 h3
        have hb := encodeRune_bytes_high r h1
        have hl := encodeRune_length r h1
        match he : encodeRune r with
        | [] => rw [he] at hl; simp at hl
        | c :: cs =>
          rw [he] at huc hb
          have hc := (hb c (by simp)).1
          show unquoteLoop Q (fuel + 1) (c :: (cs ++ tail)) buf sn we = _
          rw [loop_step_char Q c (cs ++ tail) (by omega) (by omega) r true tail huc h3]
          simp [pushChar, ← h4, he]
    · -- escaped
      have hx : f.exact = true → Q.char = 0x27 := by
        intro hex; rcases hf with g | g
        · rw [g.2] at hex; cases hex
        · rw [hqc]; exact g.1
      obtain ⟨e, t', mb, hsh, hue, hmb⟩ := esc_body_uc Q f.exact r tail hx hu.le
      have hshape : appendEscape Q.numHash ++ escapeBody f.exact r ++ tail
          = 0x5C :: (hashes Q.numHash ++ e :: t') := by
        simp only [appendEscape, List.cons_append, List.append_assoc, hsh]
      rw [hshape]
      have huc : unquoteChar (0x5C :: (hashes Q.numHash ++ e :: t')) Q = .ok (.char r mb, tail) := by
        rw [uc_backslash Q hq, hue]
      rw [loop_step_char Q _ _ (by decide) (by decide) r mb tail huc hu.notSur]
      rw [pushChar_good hu buf mb hmb]

/-! ### the main loop over a multi-line body -/

/-- the end of a multi-line literal: LF, indentation, closing delimiter -/
def mlEnd (Q : QuoteInfo) : Bytes :=
  10 :: (Q.whitespace ++ Q.char :: Q.char :: Q.char :: hashes Q.numHash)

theorem skipWS_indent (Q : QuoteInfo) (hm : Q.multiline = true) (X : Bytes) :
    skipWS (Q.whitespace ++ X) Q = .ok X := by
  simp [skipWS, hm, List.isPrefixOf_iff_prefix]

theorem skipWS_nl (Q : QuoteInfo) (hm : Q.multiline = true) (n : Nat) (hws : Q.whitespace = tabs n)
    (X : Bytes) : skipWS (10 :: X) Q = .ok (10 :: X) := by
  cases n with
  | zero => simp [skipWS, hm, hws, tabs]
  | succ k => simp [skipWS, hm, hws, tabs, List.replicate_succ]

theorem closing_le_end (Q : QuoteInfo) (hm : Q.multiline = true) (X : Bytes) :
    Q.closing.length ≤ (X ++ mlEnd Q).length := by
  simp only [closing_ml Q hm, mlEnd, List.length_append, List.length_cons]; omega

theorem loop_step_nl (Q : QuoteInfo) (X X' : Bytes) (h1 : skipWS X Q = .ok X')
    (h2 : (Q.multiline && hasClosingDelimPrefix X' Q && decide (X'.length > Q.closing.length)) = false)
    (fuel : Nat) (buf : Bytes) (sn we : Bool) :
    unquoteLoop Q (fuel + 1) (10 :: X) buf sn we = unquoteLoop Q fuel X' (buf ++ [10]) true false := by
  simp [unquoteLoop, h1, h2]

theorem loop_end (Q : QuoteInfo) (hq : Q.char = 0x22 ∨ Q.char = 0x27) (hm : Q.multiline = true)
    (fuel : Nat) (buf : Bytes) (sn we : Bool) :
    unquoteLoop Q (fuel + 2) (mlEnd Q) buf sn we = .ok buf := by
  have h1 := skipWS_indent Q hm (Q.char :: Q.char :: Q.char :: hashes Q.numHash)
  have h2 := loop_close_ml Q hq hm fuel (buf ++ [10])
  have hcl : (Q.multiline && hasClosingDelimPrefix (Q.char :: Q.char :: Q.char :: hashes Q.numHash) Q &&
      decide ((Q.char :: Q.char :: Q.char :: hashes Q.numHash).length > Q.closing.length)) = false := by
    simp [closing_ml Q hm]
  show unquoteLoop Q ((fuel + 1) + 1) (10 :: _) buf sn we = _
  rw [loop_step_nl Q _ _ h1 hcl, h2]
  simp

theorem decodeFirst_ne10 (b0 : Nat) (rest : Bytes) (h : b0 ≠ 10) : (decodeFirst b0 rest).1 ≠ 10 := by
  obtain ⟨hw1, hcase⟩ := decodeFirst_cases b0 rest
  rcases hcase with ⟨hg, _⟩ | ⟨_, _, hr⟩
  · rcases hg with ⟨_, h2⟩ | ⟨h1, _⟩
    · obtain ⟨k, hk⟩ : ∃ k, (decodeFirst b0 rest).2 = k + 1 := ⟨(decodeFirst b0 rest).2 - 1, by omega⟩
      rw [hk, List.take_succ_cons] at h2
      simp only [List.cons.injEq] at h2
      omega
    · omega
  · omega

/-- no line of the body (and not the body itself) starts with the closing delimiter -/
def Safe (E : Env) (f : Form) (Q : QuoteInfo) (s : Bytes) : Prop :=
  ∀ t, (10 :: t) <:+ s → Q.closing.isPrefixOf (escapeLoop E f true Q.numHash t ++ mlEnd Q) = false

theorem Safe.suffix {E : Env} {f : Form} {Q : QuoteInfo} {s s' : Bytes} (h : Safe E f Q s) (hs : s' <:+ s) :
    Safe E f Q s' := fun t ht => h t (ht.trans hs)

theorem loop_multi {E : Env} (hE : E.Ok) (f : Form) (hf : f.WF) (Q : QuoteInfo)
    (hqc : Q.char = f.quote) (hm : Q.multiline = true) (hws : Q.whitespace = tabs f.indent) :
    ∀ (n : Nat) (s : Bytes), s.length ≤ n → IsBytes s → (f.exact = true ∨ validUTF8 s = true) →
      Safe E f Q s →
    ∀ (fuel : Nat) (buf : Bytes) (sn we : Bool), (escapeLoop E f true Q.numHash s).length + 2 ≤ fuel →
      unquoteLoop Q fuel (escapeLoop E f true Q.numHash s ++ mlEnd Q) buf sn we = .ok (buf ++ s) := by
  have hq : Q.char = 0x22 ∨ Q.char = 0x27 := by rcases hf with h | h <;> simp [hqc, h.1]
  have hnil : ∀ (fuel : Nat) (buf : Bytes) (sn we : Bool), (escapeLoop E f true Q.numHash []).length + 2 ≤ fuel →
      unquoteLoop Q fuel (escapeLoop E f true Q.numHash [] ++ mlEnd Q) buf sn we = .ok (buf ++ []) := by
    intro fuel buf sn we hfuel
    obtain ⟨k, rfl⟩ : ∃ k, fuel = k + 2 := ⟨fuel - 2, by omega⟩
    simp [escapeLoop, loop_end Q hq hm]
  intro n
  induction n with
  | zero =>
    intro s hn _ _ _ fuel buf sn we hfuel
    have : s = [] := List.length_eq_zero_iff.mp (by omega)
    subst this
    exact hnil fuel buf sn we hfuel
  | succ n ih =>
    intro s hn hb hv hsafe fuel buf sn we hfuel
    match s with
    | [] => exact hnil fuel buf sn we hfuel
    | b0 :: rest =>
      obtain ⟨k, rfl⟩ : ∃ k, fuel = k + 1 := ⟨fuel - 1, by omega⟩
      have hb0 : b0 < 256 := hb b0 (by simp)
      have hlen : rest.length ≤ n := by simp at hn; omega
      by_cases h10 : b0 = 10
      · -- a line feed
        subst h10
        rw [escapeLoop_ml_nl] at hfuel ⊢
        have hv' : f.exact = true ∨ validUTF8 rest = true := by
          rcases hv with h | h
          · exact Or.inl h
          · right
            unfold validUTF8 at h
            simpa [decodeFirst] using h
        have hsk : skipWS (nlIndent f rest ++ escapeLoop E f true Q.numHash rest ++ mlEnd Q) Q
            = .ok (escapeLoop E f true Q.numHash rest ++ mlEnd Q) := by
          match rest with
          | [] => simp [nlIndent, escapeLoop, mlEnd, skipWS_nl Q hm f.indent hws]
          | b1 :: r =>
            by_cases h1 : b1 = 10
            · subst h1
              rw [escapeLoop_ml_nl]
              simp [nlIndent, skipWS_nl Q hm f.indent hws]
            · have : (b1 != 10) = true := by simpa using h1
              simp only [nlIndent, this, if_true, ← hws, List.append_assoc]
              exact skipWS_indent Q hm _
        have hcl : (Q.multiline && hasClosingDelimPrefix (escapeLoop E f true Q.numHash rest ++ mlEnd Q) Q &&
            decide ((escapeLoop E f true Q.numHash rest ++ mlEnd Q).length > Q.closing.length)) = false := by
          have := hsafe rest (List.suffix_refl _)
          simp [hasClosingDelimPrefix, this]
        have hk : (escapeLoop E f true Q.numHash rest).length + 2 ≤ k := by
          simp only [List.length_append, List.length_cons] at hfuel; omega
        show unquoteLoop Q (k + 1) (10 :: (nlIndent f rest ++ escapeLoop E f true Q.numHash rest ++ mlEnd Q)) buf sn we = _
        rw [loop_step_nl Q _ _ hsk hcl]
        rw [ih rest hlen hb.tail hv' (hsafe.suffix (List.suffix_cons _ _)) k _ _ _ hk]
        simp
      · have hr10 := decodeFirst_ne10 b0 rest h10
        obtain ⟨hw1, hcase⟩ := decodeFirst_cases b0 rest
        rcases hcase with ⟨hgood, hnot⟩ | ⟨h80, hw, hr⟩
        · -- a good unit
          have hbr : (f.exact && (decodeFirst b0 rest).2 == 1 && (decodeFirst b0 rest).1 == 0xFFFD) = false := by
            by_cases hx : (decodeFirst b0 rest).2 = 1
            · have hlt : b0 < 0x80 := by omega
              have : (decodeFirst b0 rest).1 = b0 := by simp [decodeFirst, hlt]
              have hne : ((decodeFirst b0 rest).1 == 0xFFFD) = false := by
                rw [this]; simp; omega
              simp [hne]
            · have : ((decodeFirst b0 rest).2 == 1) = false := by simpa using hx
              simp [this]
          rw [escapeLoop_ml_good E f _ b0 rest hbr hr10] at hfuel ⊢
          have hpos := appendEscapedRune_pos E f true Q.numHash (decodeFirst b0 rest).1
          simp only [List.append_assoc]
          rw [step_rune_ml hE f hf Q hqc hm _ _ hgood _ _ (closing_le_end Q hm _)]
          have hv' : f.exact = true ∨ validUTF8 (rest.drop ((decodeFirst b0 rest).2 - 1)) = true := by
            rcases hv with h | h
            · exact Or.inl h
            · right
              unfold validUTF8 at h
              have : (decide (0x80 ≤ b0) && (decodeFirst b0 rest).2 == 1) = false := by
                simp only [Bool.and_eq_false_iff, decide_eq_false_iff_not, beq_eq_false_iff_ne]
                by_cases h80 : 0x80 ≤ b0
                · right; intro hh; exact hnot ⟨h80, hh⟩
                · left; exact h80
              simpa [this] using h
          have hlen' : (rest.drop ((decodeFirst b0 rest).2 - 1)).length ≤ n := by
            simp only [List.length_drop]; omega
          have hk' : (escapeLoop E f true Q.numHash (rest.drop ((decodeFirst b0 rest).2 - 1))).length + 2 ≤ k := by
            simp only [List.length_append] at hfuel; omega
          have hsuf : rest.drop ((decodeFirst b0 rest).2 - 1) <:+ b0 :: rest :=
            (List.drop_suffix _ _).trans (List.suffix_cons _ _)
          rw [ih _ hlen' (hb.tail.drop _) hv' (hsafe.suffix hsuf) k _ _ _ hk']
          rw [List.append_assoc, take_drop_unit b0 rest _ hw1]
        · -- an invalid byte: only the bytes form gets here
          have hx : f.exact = true := by
            rcases hv with h | h
            · exact h
            · unfold validUTF8 at h
              have : (decide (0x80 ≤ b0) && (decodeFirst b0 rest).2 == 1) = true := by simp [h80, hw]
              simp [this] at h
          have hq27 : Q.char = 0x27 := by
            rcases hf with g | g
            · rw [g.2] at hx; cases hx
            · rw [hqc]; exact g.1
          have hbr : (f.exact && (decodeFirst b0 rest).2 == 1 && (decodeFirst b0 rest).1 == 0xFFFD) = true := by
            simp [hx, hw, hr]
          rw [escapeLoop_ml_bad E f _ b0 rest hbr] at hfuel ⊢
          have hk : (escapeLoop E f true Q.numHash rest).length + 2 ≤ k := by
            simp only [List.length_append, List.length_cons] at hfuel; omega
          simp only [List.append_assoc]
          have := step_badbyte Q hq27 b0 hb0 (escapeLoop E f true Q.numHash rest ++ mlEnd Q) buf k sn we
          simp only [List.append_assoc] at this
          rw [this]
          rw [ih rest hlen hb.tail (Or.inl hx) (hsafe.suffix (List.suffix_cons _ _)) k _ _ _ hk]
          simp

end CueVerif.Quote
