/-
Concrete universes on which full-strength clauses of C17 FAIL, on the model and (replayed by
harness/c17.go, `c17WitnessList`) on the real implementation alike.  Each lemma here is a closed
computation checked by the kernel (`decide +kernel`): evidence about ONE universe, used only
to refute a universally quantified statement.
-/
import CueVerif.Spec.Tidy
namespace CueVerif.Tidy.Witness
open CueVerif.Tidy

def okDeps (r : Except Err (List Dep)) (ds : List Dep) : Bool :=
  match r with
  | .ok x => x == ds
  | .error _ => false

theorem okDeps_iff (r : Except Err (List Dep)) (ds : List Dep) : okDeps r ds = true ↔ r = .ok ds := by
  cases r <;> simp [okDeps]

def isError (r : Except Err (List Dep)) : Bool :=
  match r with
  | .ok _ => false
  | .error _ => true

def mp (b : Path) (j : Nat) : MPath := ⟨b, j⟩

/-! ### W1: a listed version below the version MVS selects in the tidied file's own graph -/

/-- t.test/m lists only t.test/a v0.1.0 -/
def main1 : Mod := ⟨mp [8,5] 0, 0, [⟨mp [8,1] 0, 3, false⟩], [⟨[8,5,10], [⟨[8,1,10], none⟩]⟩]⟩
def mods1 : List Mod := [
  ⟨mp [8,1] 0, 3, [⟨mp [8,2] 0, 3, false⟩, ⟨mp [8,3] 0, 3, false⟩], [⟨[8,1,10], [⟨[8,2,10], none⟩, ⟨[8,3,10], none⟩]⟩]⟩,
  ⟨mp [8,2] 0, 3, [], [⟨[8,2,10], []⟩]⟩,
  ⟨mp [8,2] 0, 5, [], [⟨[8,2,10], []⟩]⟩,
  ⟨mp [8,3] 0, 3, [⟨mp [8,2] 0, 5, false⟩], [⟨[8,3,10], []⟩]⟩]
def deps1 : List Dep := [⟨mp [8,1] 0, 3, false⟩, ⟨mp [8,2] 0, 3, false⟩, ⟨mp [8,3] 0, 3, false⟩]

theorem w1_tidy : tidy main1 (regOf mods1) 60 = .ok deps1 :=
  (okDeps_iff _ _).1 (by decide +kernel)

theorem w1_selected : specSel (regOf mods1) (deps1.map (fun d => (d.mp, d.rank))) (mp [8,2] 0) = 5 := by
  decide +kernel

theorem w1_flaws : specFlaws main1 (regOf mods1) deps1 60 = [Flaw.belowSelected] := by decide +kernel

/-- the tidied file is nevertheless a fixpoint and passes the check -/
theorem w1_stable : okDeps (tidy { main1 with deps := deps1 } (regOf mods1) 60) deps1 = true ∧
    checkTidy { main1 with deps := deps1 } (regOf mods1) 60 = .ok := by decide +kernel

/-! ### W2: a module promoted to a root brings a requirement that was pruned away while loading -/

/-- main lists u.test/d@v0 only; d@v0 requires t.test/c@v1, whose package imports "u.test/d/n/x"
without a major version and which itself requires u.test/d@v1.  While loading, c is not a root,
its requirement on d@v1 is pruned, and the import falls back to the main module's default d@v0.
In the tidied file c is a root, d@v1 enters the build list and c's own default resolves the
import to d@v1: a second tidy lists d@v1 instead of d@v0. -/
def main2 : Mod := ⟨mp [8,5] 0, 0, [⟨mp [9,4] 0, 5, false⟩], [⟨[8,5,10], [⟨[8,3,11], some 1⟩]⟩]⟩
def mods2 : List Mod := [
  ⟨mp [8,3] 1, 7, [⟨mp [9,4] 1, 7, false⟩], [⟨[8,3,11], [⟨[9,4,6,10], none⟩]⟩]⟩,
  ⟨mp [9,4] 0, 5, [⟨mp [8,3] 1, 7, false⟩], [⟨[9,4,6,10], []⟩]⟩,
  ⟨mp [9,4] 1, 7, [], [⟨[9,4,6,10], []⟩]⟩]
def deps2 : List Dep := [⟨mp [8,3] 1, 7, false⟩, ⟨mp [9,4] 0, 5, false⟩]
def deps2' : List Dep := [⟨mp [8,3] 1, 7, false⟩, ⟨mp [9,4] 1, 7, false⟩]

theorem w2_tidy : tidy main2 (regOf mods2) 60 = .ok deps2 :=
  (okDeps_iff _ _).1 (by decide +kernel)

theorem w2_second_differs : okDeps (tidy { main2 with deps := deps2 } (regOf mods2) 60) deps2' = true ∧
    checkTidy { main2 with deps := deps2 } (regOf mods2) 60 = .nottidy := by decide +kernel

theorem w2_flaws : specFlaws main2 (regOf mods2) deps2 60 = [Flaw.unused, Flaw.unlisted] := by
  decide +kernel

/-! ### R: the former finding `two-majors-no-default`, repaired by keepImpliedDefaults (8593d77)

"t.test/a/x" is imported without a major version (resolved by "the only major of t.test/a among
the roots"), "t.test/a/y@v1" is reached through b's requirement on a@v1: both majors become
roots; the major the unqualified import used is now marked default and the result is stable. -/

def mainR : Mod := ⟨mp [8,5] 0, 0, [⟨mp [8,1] 0, 3, false⟩, ⟨mp [8,2] 0, 3, false⟩],
  [⟨[8,5,10], [⟨[8,1,10], none⟩, ⟨[8,1,11], some 1⟩]⟩]⟩
def modsR : List Mod := [
  ⟨mp [8,1] 0, 3, [], [⟨[8,1,10], []⟩]⟩,
  ⟨mp [8,1] 1, 3, [], [⟨[8,1,11], []⟩]⟩,
  ⟨mp [8,2] 0, 3, [⟨mp [8,1] 1, 3, false⟩], [⟨[8,2,10], []⟩]⟩]
def depsR : List Dep := [⟨mp [8,1] 0, 3, true⟩, ⟨mp [8,1] 1, 3, false⟩]

theorem r_tidy : tidy mainR (regOf modsR) 60 = .ok depsR :=
  (okDeps_iff _ _).1 (by decide +kernel)

theorem r_stable : okDeps (tidy { mainR with deps := depsR } (regOf modsR) 60) depsR = true ∧
    checkTidy { mainR with deps := depsR } (regOf modsR) 60 = .ok ∧
    specFlaws mainR (regOf modsR) depsR 60 = [] := by decide +kernel

/-! ### W3: a package provided by two modules of the build list, not reported -/

def main3 : Mod := ⟨mp [8,5] 0, 0, [], [⟨[8,5,10], [⟨[8,3,10], some 0⟩]⟩]⟩
def mods3 : List Mod := [
  ⟨mp [8] 0, 3, [], [⟨[8,2,10], []⟩]⟩,
  ⟨mp [8,3] 0, 3, [⟨mp [8,2] 0, 3, false⟩], [⟨[8,3,10], [⟨[8,2,10], none⟩]⟩]⟩,
  ⟨mp [8,2] 0, 3, [], [⟨[8,2,10], []⟩]⟩]
def deps3 : List Dep := [⟨mp [8,3] 0, 3, false⟩, ⟨mp [8] 0, 3, false⟩]

theorem w3_tidy : tidy main3 (regOf mods3) 60 = .ok deps3 :=
  (okDeps_iff _ _).1 (by decide +kernel)

theorem w3_flaws : specFlaws main3 (regOf mods3) deps3 60 = [Flaw.ambiguous, Flaw.unused] := by
  decide +kernel

end CueVerif.Tidy.Witness
