/-
C17 — order-independence of `tidy` / `checkTidy` (model: `CueVerif.Model.Tidy`).

The result does not depend on the order of the registry listing, of the packages (directories /
files) of a module, of the imports inside a package, or of the dependency entries of a module
file.  The model normalises its inputs at entry (`normMod`, `regOf`); the theorems here show that
those normalisations are invariant under the permutations in question.
Core Lean only.
-/
import CueVerif.Model.Tidy

namespace CueVerif.Tidy

/-! ## 1. `lexLt` is a strict total order -/

theorem lexLt_irrefl (a : List Nat) : lexLt a a = false := by
  induction a with
  | nil => rfl
  | cons x xs ih => simp [lexLt, ih]

theorem lexLt_trans (a b c : List Nat) (h1 : lexLt a b = true) (h2 : lexLt b c = true) :
    lexLt a c = true := by
  induction a generalizing b c with
  | nil => cases b <;> cases c <;> simp_all [lexLt]
  | cons x xs ih =>
    cases b with
    | nil => simp [lexLt] at h1
    | cons y ys =>
      cases c with
      | nil => simp [lexLt] at h2
      | cons z zs =>
        simp only [lexLt] at h1 h2 ⊢
        have := ih ys zs
        grind

theorem lexLt_total (a b : List Nat) (h1 : lexLt a b = false) (h2 : lexLt b a = false) :
    a = b := by
  induction a generalizing b with
  | nil => cases b <;> simp_all [lexLt]
  | cons x xs ih =>
    cases b with
    | nil => simp [lexLt] at h2
    | cons y ys =>
      simp only [lexLt] at h1 h2
      have := ih ys
      grind

theorem lexLt_asymm (a b : List Nat) (h : lexLt a b = true) : lexLt b a = false := by
  cases hba : lexLt b a with
  | false => rfl
  | true =>
    have := lexLt_trans a b a h hba
    rw [lexLt_irrefl] at this
    exact absurd this (by decide)

/-! ## 2. `sortDedup` depends only on the set of elements (for an injective key) -/

/-- strictly sorted w.r.t. the key -/
def KSorted {α} (k : α → List Nat) (l : List α) : Prop :=
  l.Pairwise (fun a b => lexLt (k a) (k b) = true)

theorem insertBy_mem_sub {α} (k : α → List Nat) (x z : α) (l : List α)
    (h : z ∈ insertBy k x l) : z = x ∨ z ∈ l := by
  induction l with
  | nil => simpa [insertBy] using h
  | cons y ys ih =>
    simp only [insertBy] at h
    split at h
    · simpa using h
    · split at h
      · rcases List.mem_cons.1 h with h | h
        · exact .inr (h ▸ List.mem_cons_self)
        · rcases ih h with h | h
          · exact .inl h
          · exact .inr (List.mem_cons_of_mem _ h)
      · exact .inr h

theorem mem_insertBy_of_mem {α} (k : α → List Nat) (x z : α) (l : List α)
    (h : z ∈ l) : z ∈ insertBy k x l := by
  induction l with
  | nil => cases h
  | cons y ys ih =>
    simp only [insertBy]
    split
    · exact List.mem_cons_of_mem _ h
    · split
      · rcases List.mem_cons.1 h with h | h
        · exact h ▸ List.mem_cons_self
        · exact List.mem_cons_of_mem _ (ih h)
      · exact h

theorem self_mem_insertBy {α} (k : α → List Nat) (x : α) (l : List α)
    (hinj : ∀ y ∈ l, k x = k y → x = y) : x ∈ insertBy k x l := by
  induction l with
  | nil => simp [insertBy]
  | cons y ys ih =>
    simp only [insertBy]
    split
    · exact List.mem_cons_self
    · split
      · exact List.mem_cons_of_mem _ (ih (fun z hz => hinj z (List.mem_cons_of_mem _ hz)))
      · rename_i h1 h2
        have hk : k x = k y :=
          lexLt_total _ _ (by simpa using h1) (by simpa using h2)
        exact hinj y List.mem_cons_self hk ▸ List.mem_cons_self

theorem mem_insertBy_iff {α} (k : α → List Nat) (x z : α) (l : List α)
    (hinj : ∀ y ∈ l, k x = k y → x = y) : z ∈ insertBy k x l ↔ z = x ∨ z ∈ l := by
  constructor
  · exact insertBy_mem_sub k x z l
  · rintro (h | h)
    · exact h ▸ self_mem_insertBy k x l hinj
    · exact mem_insertBy_of_mem k x z l h

theorem insertBy_sorted {α} (k : α → List Nat) (x : α) (l : List α) (h : KSorted k l) :
    KSorted k (insertBy k x l) := by
  induction l with
  | nil => simp [insertBy, KSorted]
  | cons y ys ih =>
    have hy : ∀ z ∈ ys, lexLt (k y) (k z) = true := (List.pairwise_cons.1 h).1
    have hys : KSorted k ys := (List.pairwise_cons.1 h).2
    simp only [insertBy]
    split
    · rename_i hxy
      refine List.pairwise_cons.2 ⟨?_, h⟩
      intro z hz
      rcases List.mem_cons.1 hz with hz | hz
      · exact hz ▸ hxy
      · exact lexLt_trans _ _ _ hxy (hy z hz)
    · split
      · rename_i _ hyx
        refine List.pairwise_cons.2 ⟨?_, ih hys⟩
        intro z hz
        rcases insertBy_mem_sub k x z ys hz with hz | hz
        · exact hz ▸ hyx
        · exact hy z hz
      · exact h

theorem foldl_insertBy_sorted {α} (k : α → List Nat) (l acc : List α) (h : KSorted k acc) :
    KSorted k (l.foldl (fun acc x => insertBy k x acc) acc) := by
  induction l generalizing acc with
  | nil => exact h
  | cons x xs ih => exact ih _ (insertBy_sorted k x acc h)

theorem sortDedup_sorted {α} (k : α → List Nat) (l : List α) : KSorted k (sortDedup k l) :=
  foldl_insertBy_sorted k l [] List.Pairwise.nil

theorem mem_foldl_insertBy {α} (k : α → List Nat) (z : α) (l acc : List α)
    (hinj : ∀ x ∈ acc ++ l, ∀ y ∈ acc ++ l, k x = k y → x = y) :
    z ∈ l.foldl (fun acc x => insertBy k x acc) acc ↔ z ∈ acc ∨ z ∈ l := by
  induction l generalizing acc with
  | nil => simp
  | cons x xs ih =>
    have hx : ∀ y ∈ acc, k x = k y → x = y := fun y hy =>
      hinj x (by simp) y (by simp [hy])
    have hsub : ∀ w, w ∈ insertBy k x acc ++ xs → w ∈ acc ++ x :: xs := by
      intro w hw
      rcases List.mem_append.1 hw with hw | hw
      · rcases insertBy_mem_sub k x w acc hw with hw | hw
        · simp [hw]
        · simp [hw]
      · simp [hw]
    rw [List.foldl_cons, ih (insertBy k x acc)
      (fun a ha b hb => hinj a (hsub a ha) b (hsub b hb)), mem_insertBy_iff k x z acc hx]
    simp only [List.mem_cons]
    constructor
    · rintro ((h | h) | h)
      · exact .inr (.inl h)
      · exact .inl h
      · exact .inr (.inr h)
    · rintro (h | h | h)
      · exact .inl (.inr h)
      · exact .inl (.inl h)
      · exact .inr h

theorem mem_sortDedup {α} (k : α → List Nat) (z : α) (l : List α)
    (hinj : ∀ x ∈ l, ∀ y ∈ l, k x = k y → x = y) : z ∈ sortDedup k l ↔ z ∈ l := by
  have := mem_foldl_insertBy k z l [] (by simpa using hinj)
  simpa [sortDedup] using this

/-- two strictly sorted lists with the same members are equal -/
theorem ksorted_ext {α} (k : α → List Nat) (l1 l2 : List α) (h1 : KSorted k l1)
    (h2 : KSorted k l2) (hm : ∀ x, x ∈ l1 ↔ x ∈ l2) : l1 = l2 := by
  induction l1 generalizing l2 with
  | nil =>
    cases l2 with
    | nil => rfl
    | cons b bs => exact absurd ((hm b).2 List.mem_cons_self) (by simp)
  | cons a as ih =>
    cases l2 with
    | nil => exact absurd ((hm a).1 List.mem_cons_self) (by simp)
    | cons b bs =>
      have ha := List.pairwise_cons.1 h1
      have hb := List.pairwise_cons.1 h2
      have hab : a = b := by
        rcases List.mem_cons.1 ((hm a).1 List.mem_cons_self) with h | h
        · exact h
        · rcases List.mem_cons.1 ((hm b).2 List.mem_cons_self) with h' | h'
          · exact h'.symm
          · have e1 := hb.1 a h
            have e2 := ha.1 b h'
            rw [lexLt_asymm _ _ e1] at e2
            exact absurd e2 (by decide)
      subst hab
      congr 1
      refine ih bs ha.2 hb.2 ?_
      intro x
      constructor
      · intro hx
        rcases List.mem_cons.1 ((hm x).1 (List.mem_cons_of_mem _ hx)) with h | h
        · have := ha.1 x hx
          rw [h, lexLt_irrefl] at this
          exact absurd this (by decide)
        · exact h
      · intro hx
        rcases List.mem_cons.1 ((hm x).2 (List.mem_cons_of_mem _ hx)) with h | h
        · have := hb.1 x hx
          rw [h, lexLt_irrefl] at this
          exact absurd this (by decide)
        · exact h

/-- `sortDedup` is a function of the SET of elements, for a key injective on that set -/
theorem sortDedup_congr {α} (k : α → List Nat) (l l' : List α)
    (hinj : ∀ x ∈ l, ∀ y ∈ l, k x = k y → x = y) (hm : ∀ x, x ∈ l ↔ x ∈ l') :
    sortDedup k l = sortDedup k l' := by
  have hinj' : ∀ x ∈ l', ∀ y ∈ l', k x = k y → x = y :=
    fun x hx y hy => hinj x ((hm x).2 hx) y ((hm y).2 hy)
  refine ksorted_ext k _ _ (sortDedup_sorted k l) (sortDedup_sorted k l') ?_
  intro x
  rw [mem_sortDedup k x l hinj, mem_sortDedup k x l' hinj', hm]

theorem sortDedup_perm {α} (k : α → List Nat) (l l' : List α)
    (hinj : ∀ x ∈ l, ∀ y ∈ l, k x = k y → x = y) (h : l.Perm l') :
    sortDedup k l = sortDedup k l' :=
  sortDedup_congr k l l' hinj (fun _ => h.mem_iff)

/-! ## 3. the keys are injective on small paths -/

theorem append_split (p q s t : List Nat) (hp : ∀ x ∈ p, x < 1000) (hq : ∀ x ∈ q, x < 1000)
    (hs : ∀ x ∈ s, 1000 ≤ x) (ht : ∀ x ∈ t, 1000 ≤ x) (h : p ++ s = q ++ t) :
    p = q ∧ s = t := by
  induction p generalizing q with
  | nil =>
    cases q with
    | nil => exact ⟨rfl, by simpa using h⟩
    | cons b q' =>
      exfalso
      have hb : b ∈ s := by
        have : s = b :: (q' ++ t) := by simpa using h
        rw [this]; exact List.mem_cons_self
      have := hs b hb
      have := hq b List.mem_cons_self
      omega
  | cons a p' ih =>
    cases q with
    | nil =>
      exfalso
      have ha : a ∈ t := by
        have : a :: (p' ++ s) = t := by simpa using h
        rw [← this]; exact List.mem_cons_self
      have := ht a ha
      have := hp a List.mem_cons_self
      omega
    | cons b q' =>
      simp only [List.cons_append, List.cons.injEq] at h
      obtain ⟨hab, h⟩ := h
      have := ih q' (fun x hx => hp x (List.mem_cons_of_mem _ hx))
        (fun x hx => hq x (List.mem_cons_of_mem _ hx)) h
      exact ⟨by rw [hab, this.1], this.2⟩

/-- all path elements are proper element ids (< 1000, the offset `Imp.key` uses for majors) -/
abbrev Imp.small (i : Imp) : Prop := ∀ x ∈ i.path, x < 1000

abbrev MPath.small (m : MPath) : Prop := ∀ x ∈ m.base, x < 1000

theorem Imp.key_inj (i j : Imp) (hi : i.small) (hj : j.small) (h : i.key = j.key) : i = j := by
  obtain ⟨ip, im⟩ := i
  obtain ⟨jp, jm⟩ := j
  simp only [Imp.key] at h
  have := append_split ip jp _ _ hi hj
    (by cases im <;> simp) (by cases jm <;> simp) h
  obtain ⟨h1, h2⟩ := this
  subst h1
  cases im <;> cases jm <;> simp_all

theorem MPath.key_inj (a b : MPath) (ha : a.small) (hb : b.small) (h : a.key = b.key) :
    a = b := by
  obtain ⟨ab, am⟩ := a
  obtain ⟨bb, bm⟩ := b
  simp only [MPath.key] at h
  have := append_split ab bb _ _ ha hb (by simp) (by simp) h
  obtain ⟨h1, h2⟩ := this
  subst h1
  simp only [List.cons.injEq, and_true] at h2
  have : am = bm := by omega
  rw [this]

/-! ## 4. permuting the contents of one module -/

/-- element-wise relatedness of two lists (core Lean has no `List.Forall₂`) -/
inductive Forall₂ {α β} (R : α → β → Prop) : List α → List β → Prop
  | nil : Forall₂ R [] []
  | cons {a b l1 l2} : R a b → Forall₂ R l1 l2 → Forall₂ R (a :: l1) (b :: l2)

theorem forall₂_mem_left {α β} {R : α → β → Prop} {l1 : List α} {l2 : List β}
    (h : Forall₂ R l1 l2) : ∀ a ∈ l1, ∃ b ∈ l2, R a b := by
  induction h with
  | nil => intro a ha; cases ha
  | cons hab _ ih =>
    intro a ha
    rcases List.mem_cons.1 ha with ha | ha
    · exact ⟨_, List.mem_cons_self, ha ▸ hab⟩
    · obtain ⟨b, hb, hr⟩ := ih a ha
      exact ⟨b, List.mem_cons_of_mem _ hb, hr⟩

theorem forall₂_mem_right {α β} {R : α → β → Prop} {l1 : List α} {l2 : List β}
    (h : Forall₂ R l1 l2) : ∀ b ∈ l2, ∃ a ∈ l1, R a b := by
  induction h with
  | nil => intro b hb; cases hb
  | cons hab _ ih =>
    intro b hb
    rcases List.mem_cons.1 hb with hb | hb
    · exact ⟨_, List.mem_cons_self, hb ▸ hab⟩
    · obtain ⟨a, ha, hr⟩ := ih b hb
      exact ⟨a, List.mem_cons_of_mem _ ha, hr⟩

theorem forall₂_map_eq {α β γ} {R : α → β → Prop} {f : α → γ} {g : β → γ}
    (hfg : ∀ a b, R a b → f a = g b) {l1 : List α} {l2 : List β}
    (h : Forall₂ R l1 l2) : l1.map f = l2.map g := by
  induction h with
  | nil => rfl
  | cons hab _ ih => simp only [List.map_cons, hfg _ _ hab, ih]

/-- the same module up to the order of its dependency entries, of its packages (directories /
files) and of the imports inside each package -/
def ModPerm (m m' : Mod) : Prop :=
  m.mp = m'.mp ∧ m.rank = m'.rank ∧ m.deps.Perm m'.deps ∧
  ∃ l, Forall₂ (fun p q => p.path = q.path ∧ p.imports.Perm q.imports) m.pkgs l ∧
    l.Perm m'.pkgs

/-- every path element is a proper element id (the keys reserve ≥ 1000 for major versions) -/
structure Mod.smallPaths (m : Mod) : Prop where
  imps : ∀ p ∈ m.pkgs, ∀ i ∈ p.imports, Imp.small i
  deps : ∀ d ∈ m.deps, d.mp.small

/-- a module file has one entry per module path (what `wfMain` checks for the main module) -/
abbrev Mod.depsDistinct (m : Mod) : Prop :=
  ∀ d ∈ m.deps, ∀ d' ∈ m.deps, d.mp = d'.mp → d = d'

structure Mod.small (m : Mod) : Prop where
  paths : m.smallPaths
  distinct : m.depsDistinct

theorem mem_pkgImports (m : Mod) (p : Path) (i : Imp) :
    i ∈ pkgImports m p ↔ ∃ q ∈ m.pkgs, q.path = p ∧ i ∈ q.imports := by
  simp only [pkgImports, List.mem_flatMap, List.mem_filter, beq_iff_eq]
  constructor
  · rintro ⟨q, ⟨hq, hp⟩, hi⟩; exact ⟨q, hq, hp, hi⟩
  · rintro ⟨q, hq, hp, hi⟩; exact ⟨q, ⟨hq, hp⟩, hi⟩

theorem ModPerm.pkg_mem {m m' : Mod} (h : ModPerm m m') (p : Path) (i : Imp) :
    (∃ q ∈ m.pkgs, q.path = p ∧ i ∈ q.imports) ↔ (∃ q ∈ m'.pkgs, q.path = p ∧ i ∈ q.imports) := by
  obtain ⟨_, _, _, l, hf, hp⟩ := h
  constructor
  · rintro ⟨q, hq, hqp, hi⟩
    obtain ⟨q', hq', hpath, himp⟩ := forall₂_mem_left hf q hq
    exact ⟨q', hp.mem_iff.1 hq', hpath ▸ hqp, himp.mem_iff.1 hi⟩
  · rintro ⟨q', hq', hqp, hi⟩
    obtain ⟨q, hq, hpath, himp⟩ := forall₂_mem_right hf q' (hp.mem_iff.2 hq')
    exact ⟨q, hq, hpath.trans hqp, himp.mem_iff.2 hi⟩

theorem ModPerm.path_mem {m m' : Mod} (h : ModPerm m m') (p : Path) :
    p ∈ m.pkgs.map (·.path) ↔ p ∈ m'.pkgs.map (·.path) := by
  obtain ⟨_, _, _, l, hf, hp⟩ := h
  have e : m.pkgs.map (·.path) = l.map (·.path) := forall₂_map_eq (fun _ _ r => r.1) hf
  rw [e]
  exact (hp.map _).mem_iff

theorem normPkgs_modPerm {m m' : Mod} (h : ModPerm m m') (hs : m.smallPaths) :
    normPkgs m = normPkgs m' := by
  have h1 : sortDedup id (m.pkgs.map (·.path)) = sortDedup id (m'.pkgs.map (·.path)) :=
    sortDedup_congr id _ _ (fun _ _ _ _ e => e) (fun p => h.path_mem p)
  have h2 : (fun p => (⟨p, sortDedup Imp.key (pkgImports m p)⟩ : Pkg)) =
      fun p => ⟨p, sortDedup Imp.key (pkgImports m' p)⟩ := by
    funext p
    congr 1
    refine sortDedup_congr _ _ _ ?_ ?_
    · intro x hx y hy hk
      obtain ⟨q, hq, _, hi⟩ := (mem_pkgImports m p x).1 hx
      obtain ⟨q', hq', _, hi'⟩ := (mem_pkgImports m p y).1 hy
      exact Imp.key_inj x y (hs.imps q hq x hi) (hs.imps q' hq' y hi') hk
    · intro i
      rw [mem_pkgImports, mem_pkgImports]
      exact h.pkg_mem p i
  unfold normPkgs
  rw [h1, h2]

theorem normDeps_modPerm {m m' : Mod} (h : ModPerm m m') (hs : m.smallPaths)
    (hd : m.depsDistinct) :
    sortDedup (fun d : Dep => d.mp.key) m.deps = sortDedup (fun d : Dep => d.mp.key) m'.deps :=
  sortDedup_perm _ _ _
    (fun x hx y hy hk => hd x hx y hy (MPath.key_inj _ _ (hs.deps x hx) (hs.deps y hy) hk))
    h.2.2.1

theorem normMod_modPerm_of {m m' : Mod} (h : ModPerm m m') (hs : m.smallPaths)
    (hd : m.depsDistinct) : normMod m = normMod m' := by
  unfold normMod
  rw [normPkgs_modPerm h hs, normDeps_modPerm h hs hd, h.1, h.2.1]

theorem normMod_modPerm {m m' : Mod} (h : ModPerm m m') (hs : m.small) :
    normMod m = normMod m' :=
  normMod_modPerm_of h hs.paths hs.distinct

theorem nodupKeys_iff {α} [DecidableEq α] (l : List α) : nodupKeys l = true ↔ l.Nodup := by
  induction l with
  | nil => simp [nodupKeys]
  | cons x xs ih => simp [nodupKeys, ih]

theorem nodupKeys_perm {α} [DecidableEq α] {l l' : List α} (h : l.Perm l') :
    nodupKeys l = nodupKeys l' := by
  rw [Bool.eq_iff_iff, nodupKeys_iff, nodupKeys_iff]
  exact h.nodup_iff

theorem any_perm {α} {p : α → Bool} {l l' : List α} (h : l.Perm l') : l.any p = l'.any p := by
  rw [Bool.eq_iff_iff, List.any_eq_true, List.any_eq_true]
  constructor
  · rintro ⟨x, hx, hp⟩; exact ⟨x, h.mem_iff.1 hx, hp⟩
  · rintro ⟨x, hx, hp⟩; exact ⟨x, h.mem_iff.2 hx, hp⟩

theorem wfMain_modPerm {m m' : Mod} (h : ModPerm m m') : wfMain m = wfMain m' := by
  have hd := h.2.2.1
  have a : nodupKeys (m.deps.map (·.mp)) = nodupKeys (m'.deps.map (·.mp)) :=
    nodupKeys_perm (hd.map _)
  have b : m.deps.any (fun d => d.mp == m.mp) = m'.deps.any (fun d => d.mp == m'.mp) := by
    rw [← h.1]; exact any_perm hd
  have c : nodupKeys (fileDflts m |>.map (·.1)) = nodupKeys (fileDflts m' |>.map (·.1)) := by
    apply nodupKeys_perm
    unfold fileDflts
    rw [← h.1]
    exact ((((hd.filter _).map _).cons _).map _)
  unfold wfMain
  rw [a, b, c]

theorem distinct_of_nodup_map {α β} (f : α → β) (l : List α) (h : (l.map f).Nodup) :
    ∀ x ∈ l, ∀ y ∈ l, f x = f y → x = y := by
  induction l with
  | nil => intro x hx; cases hx
  | cons a as ih =>
    rw [List.map_cons, List.nodup_cons] at h
    intro x hx y hy e
    rcases List.mem_cons.1 hx with hx | hx <;> rcases List.mem_cons.1 hy with hy | hy
    · rw [hx, hy]
    · exact absurd (List.mem_map.2 ⟨y, hy, by rw [← e, hx]⟩) h.1
    · exact absurd (List.mem_map.2 ⟨x, hx, by rw [e, hy]⟩) h.1
    · exact ih h.2 x hx y hy e

theorem depsDistinct_of_wfMain {m : Mod} (h : wfMain m = true) : m.depsDistinct := by
  unfold wfMain at h
  simp only [Bool.and_eq_true] at h
  exact distinct_of_nodup_map (·.mp) m.deps ((nodupKeys_iff _).1 h.1.1)

/-- for the main module only the path bound is needed: `wfMain` rejects duplicate entries -/
theorem tidy_modPerm_paths (main main' : Mod) (reg : Reg) (fuel : Nat) (h : ModPerm main main')
    (hs : Mod.smallPaths main) : tidy main' reg fuel = tidy main reg fuel := by
  cases hw : wfMain main with
  | false =>
    have hw' : wfMain main' = false := by rw [← wfMain_modPerm h, hw]
    simp [tidy, hw, hw']
  | true =>
    have e := normMod_modPerm_of h hs (depsDistinct_of_wfMain hw)
    unfold tidy
    rw [← wfMain_modPerm h, ← e]

theorem checkTidy_modPerm_paths (main main' : Mod) (reg : Reg) (fuel : Nat)
    (h : ModPerm main main') (hs : Mod.smallPaths main) :
    checkTidy main' reg fuel = checkTidy main reg fuel := by
  cases hw : wfMain main with
  | false =>
    have hw' : wfMain main' = false := by rw [← wfMain_modPerm h, hw]
    simp [checkTidy, hw, hw']
  | true =>
    have e := normMod_modPerm_of h hs (depsDistinct_of_wfMain hw)
    unfold checkTidy
    rw [← wfMain_modPerm h, ← e]

theorem tidy_modPerm (main main' : Mod) (reg : Reg) (fuel : Nat) (h : ModPerm main main')
    (hs : Mod.small main) : tidy main' reg fuel = tidy main reg fuel :=
  tidy_modPerm_paths main main' reg fuel h hs.paths

theorem checkTidy_modPerm (main main' : Mod) (reg : Reg) (fuel : Nat) (h : ModPerm main main')
    (hs : Mod.small main) : checkTidy main' reg fuel = checkTidy main reg fuel :=
  checkTidy_modPerm_paths main main' reg fuel h hs.paths

/-! ## 5. the registry listing -/

theorem verLt_iff (a b : Nat × Nat) :
    verLt a b = true ↔ a.1 < b.1 ∨ (a.1 = b.1 ∧ a.2 < b.2) := by
  simp [verLt]

theorem verLt_false_iff (a b : Nat × Nat) :
    verLt a b = false ↔ ¬ (a.1 < b.1 ∨ (a.1 = b.1 ∧ a.2 < b.2)) := by
  rw [← verLt_iff]; simp

theorem verLt_irrefl (a : Nat × Nat) : verLt a a = false := by
  rw [verLt_false_iff]; omega

theorem verLt_total (a b : Nat × Nat) (h1 : verLt a b = false) (h2 : verLt b a = false) :
    a = b := by
  rw [verLt_false_iff] at h1 h2
  apply Prod.ext <;> omega

/-- `c ≥ b ≥ a`-style chaining in the two shapes the fold needs -/
theorem verLt_chain1 (a v c : Nat × Nat) (h1 : verLt a v = true) (h2 : verLt c v = false) :
    verLt c a = false := by
  rw [verLt_false_iff] at *; rw [verLt_iff] at h1; omega

theorem verLt_chain2 (a v c : Nat × Nat) (h1 : verLt a v = false) (h2 : verLt c a = false) :
    verLt c v = false := by
  rw [verLt_false_iff] at *; omega

abbrev maxStep (acc : Option (Nat × Nat)) (v : Nat × Nat) : Option (Nat × Nat) :=
  match acc with
  | none => some v
  | some a => if verLt a v then some v else some a

theorem maxVer_eq (l : List (Nat × Nat)) : maxVer l = l.foldl maxStep none := rfl

theorem foldl_maxStep_some (l : List (Nat × Nat)) (a : Nat × Nat) :
    ∃ c, l.foldl maxStep (some a) = some c ∧ c ∈ a :: l ∧ ∀ b ∈ a :: l, verLt c b = false := by
  induction l generalizing a with
  | nil => exact ⟨a, rfl, List.mem_cons_self, by simp [verLt_irrefl]⟩
  | cons v vs ih =>
    rw [List.foldl_cons]
    cases hav : verLt a v with
    | true =>
      have e : maxStep (some a) v = some v := by simp [maxStep, hav]
      rw [e]
      obtain ⟨c, hc, hmem, hmax⟩ := ih v
      refine ⟨c, hc, List.mem_cons_of_mem _ hmem, ?_⟩
      intro b hb
      rcases List.mem_cons.1 hb with hb | hb
      · rw [hb]; exact verLt_chain1 a v c hav (hmax v List.mem_cons_self)
      · exact hmax b hb
    | false =>
      have e : maxStep (some a) v = some a := by simp [maxStep, hav]
      rw [e]
      obtain ⟨c, hc, hmem, hmax⟩ := ih a
      refine ⟨c, hc, ?_, ?_⟩
      · rcases List.mem_cons.1 hmem with h | h
        · exact h ▸ List.mem_cons_self
        · exact List.mem_cons_of_mem _ (List.mem_cons_of_mem _ h)
      · intro b hb
        rcases List.mem_cons.1 hb with hb | hb
        · rw [hb]; exact hmax a List.mem_cons_self
        · rcases List.mem_cons.1 hb with hb | hb
          · rw [hb]; exact verLt_chain2 a v c hav (hmax a List.mem_cons_self)
          · exact hmax b (List.mem_cons_of_mem _ hb)

theorem maxVer_nil : maxVer [] = none := rfl

/-- `maxVer` returns a maximal member -/
theorem maxVer_cons (v : Nat × Nat) (vs : List (Nat × Nat)) :
    ∃ c, maxVer (v :: vs) = some c ∧ c ∈ v :: vs ∧ ∀ b ∈ v :: vs, verLt c b = false := by
  rw [maxVer_eq, List.foldl_cons]
  exact foldl_maxStep_some vs v

theorem maxVer_perm {l l' : List (Nat × Nat)} (h : l.Perm l') : maxVer l = maxVer l' := by
  cases l with
  | nil => rw [h.nil_eq]
  | cons v vs =>
    cases l' with
    | nil => exact absurd h.eq_nil (by simp)
    | cons w ws =>
      obtain ⟨c, hc, hmem, hmax⟩ := maxVer_cons v vs
      obtain ⟨c', hc', hmem', hmax'⟩ := maxVer_cons w ws
      rw [hc, hc']
      congr 1
      exact verLt_total c c' (hmax c' (h.mem_iff.2 hmem')) (hmax' c (h.mem_iff.1 hmem))

theorem latest_perm {l l' : List (Nat × Nat)} (h : l.Perm l') : latest l = latest l' := by
  unfold latest
  rw [maxVer_perm (h.filter _), maxVer_perm h]

theorem find?_perm_of_unique {α} {p : α → Bool} {l l' : List α} (h : l.Perm l')
    (hu : ∀ x ∈ l, ∀ y ∈ l, p x = true → p y = true → x = y) : l.find? p = l'.find? p := by
  cases h1 : l.find? p with
  | none =>
    rw [List.find?_eq_none] at h1
    symm
    rw [List.find?_eq_none]
    exact fun x hx => h1 x (h.mem_iff.2 hx)
  | some a =>
    cases h2 : l'.find? p with
    | none =>
      rw [List.find?_eq_none] at h2
      exact absurd (List.find?_some h1) (h2 a (h.mem_iff.1 (List.mem_of_find?_eq_some h1)))
    | some b =>
      congr 1
      exact hu a (List.mem_of_find?_eq_some h1) b (h.mem_iff.2 (List.mem_of_find?_eq_some h2))
        (List.find?_some h1) (List.find?_some h2)

theorem regOf_perm (mods mods' : List Mod) (h : mods.Perm mods')
    (hn : (mods.map (fun m => (m.mp, m.rank))).Nodup) : regOf mods' = regOf mods := by
  have hf : ∀ mp r, mods'.find? (fun m => m.mp == mp && m.rank == r) =
      mods.find? (fun m => m.mp == mp && m.rank == r) := by
    intro mp r
    refine (find?_perm_of_unique h ?_).symm
    intro x hx y hy px py
    simp only [Bool.and_eq_true, beq_iff_eq] at px py
    refine distinct_of_nodup_map _ mods hn x hx y hy ?_
    show (x.mp, x.rank) = (y.mp, y.rank)
    rw [px.1, px.2, py.1, py.2]
  simp only [regOf, Reg.mk.injEq]
  refine ⟨?_, ?_⟩
  · funext mp r
    rw [hf]
  · funext b mj
    exact latest_perm ((h.symm.filter _).map _)

theorem forall₂_filter_map {α γ} {R : α → α → Prop} {q : α → Bool} {g : α → γ}
    (hq : ∀ a b, R a b → q a = q b) (hg : ∀ a b, R a b → g a = g b) {l1 l2 : List α}
    (h : Forall₂ R l1 l2) : (l1.filter q).map g = (l2.filter q).map g := by
  induction h with
  | nil => rfl
  | @cons a b _ _ hab _ ih =>
    simp only [List.filter_cons, hq a b hab]
    cases q b with
    | true => simp only [if_true, List.map_cons, hg a b hab, ih]
    | false => simpa using ih

theorem find?_forall₂_modPerm {mods l : List Mod} (h : Forall₂ ModPerm mods l)
    (hs : ∀ m ∈ mods, Mod.small m) (mp : MPath) (r : Nat) :
    (l.find? (fun m => m.mp == mp && m.rank == r)).map normMod =
      (mods.find? (fun m => m.mp == mp && m.rank == r)).map normMod := by
  induction h with
  | nil => rfl
  | @cons a b _ _ hab _ ih =>
    have hq : (b.mp == mp && b.rank == r) = (a.mp == mp && a.rank == r) := by
      rw [hab.1, hab.2.1]
    simp only [List.find?_cons, hq]
    cases (a.mp == mp && a.rank == r) with
    | true =>
      simp only [Option.map_some]
      rw [normMod_modPerm hab (hs a List.mem_cons_self)]
    | false => exact ih (fun m hm => hs m (List.mem_cons_of_mem _ hm))

/-- replacing every published module by a permuted presentation of it -/
theorem regOf_modPerm (mods l : List Mod) (h : Forall₂ ModPerm mods l)
    (hs : ∀ m ∈ mods, Mod.small m) : regOf l = regOf mods := by
  simp only [regOf, Reg.mk.injEq]
  refine ⟨?_, ?_⟩
  · funext mp r
    exact find?_forall₂_modPerm h hs mp r
  · funext b mj
    congr 1
    refine (forall₂_filter_map (R := ModPerm) ?_ ?_ h).symm
    · intro x y hxy; rw [hxy.1]
    · intro x y hxy; rw [hxy.1, hxy.2.1]

/-! ## 6. the combined statement -/

theorem regOf_order_indep (mods mods' : List Mod)
    (hr : ∃ l, Forall₂ ModPerm mods l ∧ l.Perm mods') (hsm : ∀ m ∈ mods, Mod.small m)
    (hn : (mods.map (fun m => (m.mp, m.rank))).Nodup) : regOf mods' = regOf mods := by
  obtain ⟨l, hf, hp⟩ := hr
  have e : mods.map (fun m => (m.mp, m.rank)) = l.map (fun m => (m.mp, m.rank)) :=
    forall₂_map_eq (fun a b r => by rw [r.1, r.2.1]) hf
  rw [regOf_perm l mods' hp (e ▸ hn), regOf_modPerm mods l hf hsm]

/-- C17: `tidy` and `checkTidy` do not depend on the order of the registry listing, of the
packages of a module, of the imports inside a package, or of the dependency entries of a module
file -/
theorem tidy_order_indep (main main' : Mod) (mods mods' : List Mod) (fuel : Nat)
    (hm : ModPerm main main') (hs : Mod.small main)
    (hr : ∃ l, Forall₂ ModPerm mods l ∧ l.Perm mods') (hsm : ∀ m ∈ mods, Mod.small m)
    (hn : (mods.map (fun m => (m.mp, m.rank))).Nodup) :
    tidy main' (regOf mods') fuel = tidy main (regOf mods) fuel ∧
      checkTidy main' (regOf mods') fuel = checkTidy main (regOf mods) fuel := by
  rw [regOf_order_indep mods mods' hr hsm hn]
  exact ⟨tidy_modPerm main main' _ fuel hm hs, checkTidy_modPerm main main' _ fuel hm hs⟩

/-! ## non-vacuity of the hypotheses (a TEST on one sample universe, not the property) -/

namespace Example

def main : Mod :=
  { mp := ⟨[1, 2], 0⟩, rank := 0
    deps := [⟨⟨[1, 3], 0⟩, 3, true⟩, ⟨⟨[1, 4], 1⟩, 5, false⟩]
    pkgs := [⟨[1, 2], [⟨[1, 3, 6], none⟩, ⟨[1, 4, 7], some 1⟩]⟩,
             ⟨[1, 2, 5], [⟨[0, 9], none⟩, ⟨[1, 2], none⟩]⟩] }

/-- `main` with every list reversed -/
def main' : Mod :=
  { mp := ⟨[1, 2], 0⟩, rank := 0
    deps := [⟨⟨[1, 4], 1⟩, 5, false⟩, ⟨⟨[1, 3], 0⟩, 3, true⟩]
    pkgs := [⟨[1, 2, 5], [⟨[1, 2], none⟩, ⟨[0, 9], none⟩]⟩,
             ⟨[1, 2], [⟨[1, 4, 7], some 1⟩, ⟨[1, 3, 6], none⟩]⟩] }

def modA : Mod :=
  { mp := ⟨[1, 3], 0⟩, rank := 3
    deps := [⟨⟨[1, 4], 1⟩, 5, false⟩, ⟨⟨[1, 5], 0⟩, 3, false⟩]
    pkgs := [⟨[1, 3], [⟨[0, 9], none⟩, ⟨[0, 7], none⟩]⟩,
             ⟨[1, 3, 6], [⟨[1, 4, 7], none⟩, ⟨[0, 8], none⟩]⟩] }

def modA' : Mod :=
  { mp := ⟨[1, 3], 0⟩, rank := 3
    deps := [⟨⟨[1, 5], 0⟩, 3, false⟩, ⟨⟨[1, 4], 1⟩, 5, false⟩]
    pkgs := [⟨[1, 3, 6], [⟨[0, 8], none⟩, ⟨[1, 4, 7], none⟩]⟩,
             ⟨[1, 3], [⟨[0, 7], none⟩, ⟨[0, 9], none⟩]⟩] }

def modB : Mod :=
  { mp := ⟨[1, 4], 1⟩, rank := 5
    deps := []
    pkgs := [⟨[1, 4, 7], [⟨[0, 9], none⟩, ⟨[0, 8], none⟩]⟩,
             ⟨[1, 4], [⟨[0, 7], none⟩, ⟨[0, 9], none⟩]⟩] }

def modB' : Mod :=
  { mp := ⟨[1, 4], 1⟩, rank := 5
    deps := []
    pkgs := [⟨[1, 4], [⟨[0, 9], none⟩, ⟨[0, 7], none⟩]⟩,
             ⟨[1, 4, 7], [⟨[0, 8], none⟩, ⟨[0, 9], none⟩]⟩] }

theorem main_perm : ModPerm main main' :=
  ⟨rfl, rfl, List.Perm.swap _ _ _,
    [⟨[1, 2], [⟨[1, 4, 7], some 1⟩, ⟨[1, 3, 6], none⟩]⟩,
     ⟨[1, 2, 5], [⟨[1, 2], none⟩, ⟨[0, 9], none⟩]⟩],
    .cons ⟨rfl, List.Perm.swap _ _ _⟩ (.cons ⟨rfl, List.Perm.swap _ _ _⟩ .nil),
    List.Perm.swap _ _ _⟩

theorem modA_perm : ModPerm modA modA' :=
  ⟨rfl, rfl, List.Perm.swap _ _ _,
    [⟨[1, 3], [⟨[0, 7], none⟩, ⟨[0, 9], none⟩]⟩,
     ⟨[1, 3, 6], [⟨[0, 8], none⟩, ⟨[1, 4, 7], none⟩]⟩],
    .cons ⟨rfl, List.Perm.swap _ _ _⟩ (.cons ⟨rfl, List.Perm.swap _ _ _⟩ .nil),
    List.Perm.swap _ _ _⟩

theorem modB_perm : ModPerm modB modB' :=
  ⟨rfl, rfl, List.Perm.nil,
    [⟨[1, 4, 7], [⟨[0, 8], none⟩, ⟨[0, 9], none⟩]⟩,
     ⟨[1, 4], [⟨[0, 9], none⟩, ⟨[0, 7], none⟩]⟩],
    .cons ⟨rfl, List.Perm.swap _ _ _⟩ (.cons ⟨rfl, List.Perm.swap _ _ _⟩ .nil),
    List.Perm.swap _ _ _⟩

theorem main_small : Mod.small main := ⟨⟨by decide, by decide⟩, by decide⟩
theorem modA_small : Mod.small modA := ⟨⟨by decide, by decide⟩, by decide⟩
theorem modB_small : Mod.small modB := ⟨⟨by decide, by decide⟩, by decide⟩

/-- the hypotheses of `tidy_order_indep` are satisfiable by a universe and its reversal -/
example :
    tidy main' (regOf [modB', modA']) 40 = tidy main (regOf [modA, modB]) 40 ∧
      checkTidy main' (regOf [modB', modA']) 40 = checkTidy main (regOf [modA, modB]) 40 :=
  tidy_order_indep main main' [modA, modB] [modB', modA'] 40 main_perm main_small
    ⟨[modA', modB'], .cons modA_perm (.cons modB_perm .nil), List.Perm.swap _ _ _⟩
    (by
      intro m hm
      rcases List.mem_cons.1 hm with h | h
      · exact h ▸ modA_small
      · rcases List.mem_cons.1 h with h | h
        · exact h ▸ modB_small
        · cases h)
    (by decide)

/-- ... and on it the common value is not an error (the file is tidy) -/
example : checkTidy main (regOf [modA, modB]) 40 = .ok := by decide +kernel

example : (match tidy main' (regOf [modB', modA']) 40 with
    | .ok d => d == main.deps
    | .error _ => false) = true := by decide +kernel

end Example

end CueVerif.Tidy
