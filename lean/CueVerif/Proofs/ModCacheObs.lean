import CueVerif.Proofs.ModCache
/-!
C16: observable consequences — what a caller is handed, that "available" is stable, and
that the per-process counters count exactly the `getZip` events.
-/
namespace CueVerif.ModCache

set_option hygiene false in
macro "all_next" : tactic => `(tactic| (
  unfold next at hn
  split at hn
  all_goals (first | contradiction | skip)
  all_goals (simp only at hn; split at hn)
  all_goals (repeat' (split at hn))
  all_goals (first | contradiction | skip)
  all_goals (simp only [Option.some.injEq, Prod.mk.injEq] at hn; obtain ⟨rfl, rfl⟩ := hn)))

/-- whenever Fetch / FetchFromCache hands a directory to its caller, that directory is — at
that very moment, lock or no lock — the complete module, and no marker exists -/
theorem avail_event {n s t c s' o} (h : Inv n s) (hn : next n s t c = some (s', o))
    (he : o.ev = .avail) : Complete n s' ∧ s'.mark = false := by
  have hl := h.loc t
  have h3 := h.avail_ok
  all_next
  all_goals (first | (cases he; done) | skip)
  all_goals (simp_all [Local, Complete])
  all_goals (cases hd : s.dir <;> simp_all)

/-- whenever ModFile serves bytes read from the cached module file, they are the complete file -/
theorem modRead_event {n s t c s' o} (h : Inv n s) (hn : next n s t c = some (s', o))
    (he : o.ev = .modRead) : s.modf = some .full := by
  have h2 := h.mod_ok
  all_next
  all_goals (first | (cases he; done) | skip)
  all_goals (simp_all)

/-- the counter `nget p` counts exactly the `getZip` events of process p -/
theorem nget_event {n s t c s' o} (hn : next n s t c = some (s', o)) (p : Pid) :
    s'.nget p = s.nget p + (if o.ev = .getZip ∧ t.1 = p then 1 else 0) := by
  all_next
  all_goals (first | rfl | skip)
  all_goals (by_cases e : t.1 = p <;> simp [upd, e] <;> (try (intro e'; exact absurd e'.symm e)))
  all_goals (subst e; rfl)

/-- once a directory is available it stays available: no step of anyone (and no crash)
takes it away again -/
theorem avail_stable_next {n s t c s' o} (h : Inv n s) (hn : next n s t c = some (s', o))
    (ha : Available s) : Available s' := by
  have hl := h.loc t
  obtain ⟨ha1, ha2⟩ := ha
  all_next
  all_goals (first | exact ⟨ha1, ha2⟩ | skip)
  all_goals (simp_all [Local, Available])

theorem avail_stable {n s s'} (h : Inv n s) (hs : Step n s s') (ha : Available s) : Available s' := by
  cases hs with
  | act _ t c o hn => exact avail_stable_next h hn ha
  | crash p => exact ha

/-! ### the whole cache -/

/-- the invariant of the whole cache: every version's component satisfies `Inv` -/
def GInv (n : Ver → Nat) (g : GSt) : Prop := ∀ v, Inv (n v) (g v)

theorem ginv_init (n : Ver → Nat) : GInv n (fun _ => VSt.init) := fun v => inv_init (n v)

theorem ginv_step {n g g'} (h : GInv n g) (hs : GStep n g g') : GInv n g' := by
  cases hs with
  | act v s' t c o hn =>
    intro w
    by_cases e : w = v
    · subst e; simp only [upd_same]; exact inv_next (h w) hn
    · rw [upd_other _ _ _ _ e]; exact h w
  | crash p => intro w; exact inv_crash (h w) p

theorem greachable_inv {n g} (hr : GReachable n g) : GInv n g := by
  induction hr with
  | init => exact ginv_init n
  | step _ hs ih => exact ginv_step ih hs

end CueVerif.ModCache
