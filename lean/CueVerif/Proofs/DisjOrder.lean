/-
C04 / C01: order independence of `d1 & d2 & … & dn` at the level of the transcribed
algorithm.

* values: for EVERY expression tree, the set of disjunct values of `eval` is invariant under
  `Expr.Reorder` (permutation / re-association / re-parenthesisation of the conjuncts);
* defaults: on the flat fragment with at most one marked disjunction (`Expr.Flat`) the
  default set (`Out.defaultSet`, what `Default()` returns) and `resolve` are invariant too.
  (With two marked disjunctions the algorithm IS order dependent: `C04_order_dependent`.)
* `reorder_of_perm`: every permutation of a list of conjuncts is a `Reorder`.
-/
import CueVerif.Spec.DisjOrder
import CueVerif.Proofs.DisjValues
import CueVerif.Proofs.DisjDefault
namespace CueVerif.Disj
variable {V : Type} [DecidableEq V]
set_option linter.unusedSectionVars false

/-! ### every permutation of the conjuncts is a `Reorder` -/

/-- `d1 & (d2 & (… & dn))`; the empty conjunction is `top` -/
def andList (top : V) : List (Expr V) → Expr V
  | [] => .atom top
  | [d] => d
  | d :: d' :: ds => .and d (andList top (d' :: ds))

theorem reorder_of_perm (top : V) {l l' : List (Expr V)} (hp : l.Perm l') :
    Expr.Reorder (andList top l) (andList top l') := by
  induction hp with
  | nil => exact .refl _
  | cons x p ih =>
    rename_i l1 l2
    match l1, l2, p, ih with
    | [], l2, p, _ => rw [List.nil_perm.1 p]; exact .refl _
    | y :: l1', [], p, _ => exact absurd p.length_eq (by simp)
    | y :: l1', z :: l2', _, ih => exact .cong (.refl _) ih
  | swap x y l =>
    match l with
    | [] => exact .comm _ _
    | z :: l' =>
      exact .trans (.symm (.assoc _ _ _)) (.trans (.cong (.comm _ _) (.refl _)) (.assoc _ _ _))
  | trans _ _ ih1 ih2 => exact .trans ih1 ih2

/-! ### values: every tree -/

theorem por_comm (A B : V → Prop) : por A B = por B A := by
  funext x; apply propext; exact Or.comm

theorem por_assoc (A B C : V → Prop) : por (por A B) C = por A (por B C) := by
  funext x; apply propext; exact or_assoc

/-- the spec's value component as a predicate is a homomorphism for `&` -/
theorem specV_and (S : Sl V) (l r : Expr V) :
    memP (specPair S (.and l r)).v = mt S (memP (specPair S l).v) (memP (specPair S r).v) :=
  memP_meetV S _ _

theorem specV_reorder {S : Sl V} (h : Laws S) {e e' : Expr V} (hr : Expr.Reorder e e') :
    memP (specPair S e).v = memP (specPair S e').v := by
  induction hr with
  | refl e => rfl
  | symm _ ih => exact ih.symm
  | trans _ _ ih1 ih2 => exact ih1.trans ih2
  | comm l r => rw [specV_and, specV_and, mt_comm h]
  | assoc a b c => rw [specV_and, specV_and, specV_and, specV_and, mt_assoc h]
  | cong _ _ ih1 ih2 => rw [specV_and, specV_and, ih1, ih2]
  | paren e => rfl

/-- the disjunct values of the transcribed algorithm do not depend on the order, the
bracketing or the parenthesisation of the conjuncts — every expression tree -/
theorem values_reorder (S : Sl V) (h : Laws S) {e e' : Expr V} (hr : Expr.Reorder e e') (x : V) :
    x ∈ (eval S e).values ↔ x ∈ (eval S e').values := by
  rw [values_iff S h, values_iff S h]
  exact Iff.of_eq (congrFun (specV_reorder h hr) x)

/-! ### the flat fragment: scalar part, chain values, chain defaults are invariant -/

theorem flat_reorder {S : Sl V} (h : Laws S) {e e' : Expr V} (hr : Expr.Reorder e e') :
    e.flatConj = e'.flatConj ∧ e.markedChains = e'.markedChains ∧
    (e.flatConj = true → svP S e = svP S e' ∧ CV S e = CV S e' ∧ CD S e = CD S e') := by
  induction hr with
  | refl e => exact ⟨rfl, rfl, fun _ => ⟨rfl, rfl, rfl⟩⟩
  | symm _ ih =>
    refine ⟨ih.1.symm, ih.2.1.symm, fun hf => ?_⟩
    obtain ⟨a, b, c⟩ := ih.2.2 (ih.1.trans hf)
    exact ⟨a.symm, b.symm, c.symm⟩
  | trans _ _ ih1 ih2 =>
    refine ⟨ih1.1.trans ih2.1, ih1.2.1.trans ih2.2.1, fun hf => ?_⟩
    obtain ⟨a, b, c⟩ := ih1.2.2 hf
    obtain ⟨a', b', c'⟩ := ih2.2.2 (ih1.1.symm.trans hf)
    exact ⟨a.trans a', b.trans b', c.trans c'⟩
  | comm l r =>
    refine ⟨by simp only [Expr.flatConj, Bool.and_comm],
      by simp only [Expr.markedChains, Nat.add_comm], fun hf => ?_⟩
    simp only [Expr.flatConj, Bool.and_eq_true] at hf
    refine ⟨?_, ?_, ?_⟩
    · rw [svP_and h l r hf.2, svP_and h r l hf.1, mt_comm h]
    · simp only [CV]; rw [mt_comm h]
    · simp only [CD]; rw [por_comm, mt_comm h (CV S l), mt_comm h (CD S l)]
  | assoc a b c =>
    refine ⟨by simp only [Expr.flatConj, Bool.and_assoc],
      by simp only [Expr.markedChains, Nat.add_assoc], fun hf => ?_⟩
    simp only [Expr.flatConj, Bool.and_eq_true] at hf
    have hbc : (Expr.and b c).flatConj = true := by
      simp only [Expr.flatConj, Bool.and_eq_true]; exact ⟨hf.1.2, hf.2⟩
    refine ⟨?_, ?_, ?_⟩
    · rw [svP_and h _ c hf.2, svP_and h a b hf.1.2, svP_and h a _ hbc, svP_and h b c hf.2,
        mt_assoc h]
    · simp only [CV]; rw [mt_assoc h]
    · simp only [CD, CV]
      rw [mt_por_left, mt_por_right, mt_assoc h, mt_assoc h, mt_assoc h, por_assoc]
  | cong _ _ ih1 ih2 =>
    rename_i l l' r r' _ _
    refine ⟨by simp only [Expr.flatConj, ih1.1, ih2.1],
      by simp only [Expr.markedChains, ih1.2.1, ih2.2.1], fun hf => ?_⟩
    simp only [Expr.flatConj, Bool.and_eq_true] at hf
    obtain ⟨a1, b1, c1⟩ := ih1.2.2 hf.1
    obtain ⟨a2, b2, c2⟩ := ih2.2.2 hf.2
    refine ⟨?_, ?_, ?_⟩
    · rw [svP_and h l r hf.2, svP_and h l' r' (ih2.1.symm.trans hf.2), a1, a2]
    · simp only [CV]; rw [b1, b2]
    · simp only [CD]; rw [b1, b2, c1, c2]
  | paren e => exact ⟨rfl, rfl, fun _ => ⟨rfl, rfl, rfl⟩⟩

theorem Flat_reorder {S : Sl V} (h : Laws S) {e e' : Expr V} (hr : Expr.Reorder e e')
    (hf : e.Flat = true) : e'.Flat = true := by
  obtain ⟨a, b, _⟩ := flat_reorder h hr
  simp only [Expr.Flat, Bool.and_eq_true, decide_eq_true_eq] at hf ⊢
  exact ⟨a.symm.trans hf.1, b ▸ hf.2⟩

/-! ### the default set of the evaluator only depends on the two sets -/

/-- what `Default()` chooses from, as a function of the value list and the default list -/
def dsetOf (vs ds : List V) : List V := if ds.isEmpty then vs else ds

theorem eval_defaultSet (S : Sl V) (e : Expr V) (x : V) :
    x ∈ (eval S e).defaultSet ↔
      match sv S e with
      | none => False
      | some b =>
        x ∈ dsetOf (((sem S e).conj [⟨b, .maybe, .maybe⟩]).map (·.v))
          ((((sem S e).conj [⟨b, .maybe, .maybe⟩]).filter (·.dm = .isDef)).map (·.v)) := by
  unfold eval doDisj sv
  simp only
  cases (sem S e).scalar (some S.top) with
  | none => simp [Out.defaultSet, Out.defaults, Out.values]
  | some b =>
    simp only
    generalize (sem S e).conj [⟨b, .maybe, .maybe⟩] = L
    match L with
    | [] => simp [Out.defaultSet, Out.defaults, Out.values, dsetOf]
    | [y] =>
      by_cases hy : y.dm = .isDef
      · simp [Out.defaultSet, Out.defaults, Out.values, dsetOf, hy]
      · simp [Out.defaultSet, Out.defaults, Out.values, dsetOf, hy]
    | y :: z :: r => exact Iff.rfl

theorem mem_dsetOf_congr {vs vs' ds ds' : List V} (hv : memP vs = memP vs')
    (hd : memP ds = memP ds') (x : V) : x ∈ dsetOf vs ds ↔ x ∈ dsetOf vs' ds' := by
  have hE : ds.isEmpty = ds'.isEmpty := by
    cases ds with
    | nil =>
      cases ds' with
      | nil => rfl
      | cons a t => exact absurd (congrFun hd a) (by simp [memP])
    | cons a t =>
      cases ds' with
      | nil => exact absurd (congrFun hd a) (by simp [memP])
      | cons _ _ => rfl
  unfold dsetOf
  rw [hE]
  cases ds'.isEmpty
  · exact Iff.of_eq (congrFun hd x)
  · exact Iff.of_eq (congrFun hv x)

/-- model side, set level: on the flat fragment with at most one marked disjunction the
default set of the evaluator is determined by ⟨scalars ⊓ chain values, scalars ⊓ chain
defaults⟩ -/
theorem model_flat1_dset {S : Sl V} (h : Laws S) (e : Expr V) (hf : e.flatConj = true)
    (h1 : e.markedChains ≤ 1) :
    ∃ vs ds : List V, memP vs = mt S (svP S e) (CV S e) ∧
      memP ds = mt S (svP S e) (CD S e) ∧ ∀ x, x ∈ (eval S e).defaultSet ↔ x ∈ dsetOf vs ds := by
  cases hb : sv S e with
  | none =>
    have : svP S e = pnone := eq_pnone (by intro x hx; unfold svP at hx; rw [hb] at hx; cases hx)
    refine ⟨[], [], ?_, ?_, fun x => ?_⟩
    · rw [this, mt_pnone_left]; exact eq_pnone (by intro x hx; cases hx)
    · rw [this, mt_pnone_left]; exact eq_pnone (by intro x hx; cases hx)
    · rw [eval_defaultSet, hb]; simp [dsetOf]
  | some b =>
    have hnd : (([⟨b, .maybe, .maybe⟩] : List (Leaf V)).map (·.v)).Nodup := by simp
    have hns : NoStale ([⟨b, .maybe, .maybe⟩] : List (Leaf V)) := by
      intro q hq; simp at hq; subst hq; intro hh; cases hh
    have hd0 : ∀ x, ¬ defsP ([⟨b, .maybe, .maybe⟩] : List (Leaf V)) x := by
      rintro x ⟨q, hq, _, hdm⟩; simp at hq; subst hq; cases hdm
    have hv0 : valsP ([⟨b, .maybe, .maybe⟩] : List (Leaf V)) = svP S e := by
      funext x; apply propext; simp [valsP, svP, hb]
    obtain ⟨_, a2⟩ := conj_vals h e hf _ hnd
    obtain ⟨_, d2⟩ := conj_defs h e hf _ hnd hns (Or.inr ⟨h1, hd0⟩)
    refine ⟨((sem S e).conj [⟨b, .maybe, .maybe⟩]).map (·.v),
      (((sem S e).conj [⟨b, .maybe, .maybe⟩]).filter (·.dm = .isDef)).map (·.v), ?_, ?_, fun x => ?_⟩
    · rw [memP_vals, a2, hv0]
    · rw [memP_defs, d2, eq_pnone hd0, mt_pnone_left, por_pnone_left, hv0]
    · rw [eval_defaultSet, hb]

/-- On the flat fragment (any number of atoms and flat disjunctions, at most one of them
marked) the default set of the transcribed algorithm — the disjuncts `Default()` returns —
does not depend on the order / bracketing / parenthesisation of the conjuncts. -/
theorem defaultSet_reorder (S : Sl V) (h : Laws S) {e e' : Expr V} (hr : Expr.Reorder e e')
    (hf : e.Flat = true) (x : V) :
    x ∈ (eval S e).defaultSet ↔ x ∈ (eval S e').defaultSet := by
  have hf' := Flat_reorder h hr hf
  simp only [Expr.Flat, Bool.and_eq_true, decide_eq_true_eq] at hf hf'
  obtain ⟨vs, ds, m1, m2, k⟩ := model_flat1_dset h e hf.1 hf.2
  obtain ⟨vs', ds', m1', m2', k'⟩ := model_flat1_dset h e' hf'.1 hf'.2
  obtain ⟨a, b, c⟩ := (flat_reorder h hr).2.2 hf.1
  rw [k, k']
  exact mem_dsetOf_congr (by rw [m1, m1', a, b]) (by rw [m2, m2', a, c]) x

/-- … and neither does what a use that needs a concrete value sees. -/
theorem resolve_reorder (S : Sl V) (h : Laws S) {e e' : Expr V} (hr : Expr.Reorder e e')
    (hf : e.Flat = true) : (eval S e).resolve = (eval S e').resolve := by
  have hf' := Flat_reorder h hr hf
  simp only [Expr.Flat, Bool.and_eq_true, decide_eq_true_eq] at hf hf'
  obtain ⟨vs, ds, n1, n2, m1, m2, k⟩ := model_flat1 h e hf.1 hf.2
  obtain ⟨vs', ds', n1', n2', m1', m2', k'⟩ := model_flat1 h e' hf'.1 hf'.2
  obtain ⟨a, b, c⟩ := (flat_reorder h hr).2.2 hf.1
  rw [k, k']
  exact resOf_congr n1 n1' n2 n2' (by rw [m1, m1', a, b]) (by rw [m2, m2', a, c])

end CueVerif.Disj
