/-
Proofs for the generic lock machine (Model/Lockset.lean): mutual exclusion of RWMutex
holders, soundness of the static lockset check (no race, no fatal unlock, no leak) and
deadlock freedom of strictly checked protocols.
-/
import CueVerif.Proofs.LocksetMutex
namespace CueVerif.Lockset

/-! ### the per-thread invariant: the rest of the thread's protocol passes the check -/

def ThOk {L : Type} (g : Loc → Lk) (strict : Bool) (t : Th L) : Prop :=
  match t.st with
  | .run => ∃ fuel, check g strict t.prog fuel t.pc t.held t.dfr = true
  | .unwinding => checkUnwind t.dfr t.held = true
  | .done => t.held = []

/-- what a successful check at `pc` says, one instruction deep (any fuel) -/
def CheckInv (g : Loc → Lk) (strict : Bool) (prog : Prog) (pc : Nat) (held dfr : Held) : Prop :=
  match prog[pc]? with
  | none => checkUnwind dfr held = true
  | some .ret => checkUnwind dfr held = true
  | some (.acq l w) =>
    (if strict then held.isEmpty else !(holdsAny held l)) = true ∧
      ∃ fuel, check g strict prog fuel (pc + 1) ((l, w) :: held) dfr = true
  | some (.rel l w) =>
    held.contains (l, w) = true ∧ ∃ fuel, check g strict prog fuel (pc + 1) (held.erase (l, w)) dfr = true
  | some (.dfr l w) => ∃ fuel, check g strict prog fuel (pc + 1) held ((l, w) :: dfr) = true
  | some (.acc x k) => okAcc g held x k = true ∧ ∃ fuel, check g strict prog fuel (pc + 1) held dfr = true
  | some (.br _ n) =>
    (∃ fuel, check g strict prog fuel (pc + 1) held dfr = true) ∧
      ∃ fuel, check g strict prog fuel (pc + 1 + n) held dfr = true
  | some (.jmp n) => ∃ fuel, check g strict prog fuel (pc + 1 + n) held dfr = true
  | some (.call _) => ∃ fuel, check g strict prog fuel (pc + 1) held dfr = true
  | some (.bad _) => False

theorem check_inv {g : Loc → Lk} {strict : Bool} {prog : Prog} {pc : Nat} {held dfr : Held}
    (h : ∃ fuel, check g strict prog fuel pc held dfr = true) : CheckInv g strict prog pc held dfr := by
  obtain ⟨fuel, h⟩ := h
  cases fuel with
  | zero => simp only [check] at h; cases h
  | succ fuel =>
    rw [check] at h
    unfold CheckInv
    split at h
    · next he => simp only [he]; exact h
    · next he => simp only [he]; exact h
    · next he =>
      simp only [he]; rw [Bool.and_eq_true] at h; exact ⟨h.1, fuel, h.2⟩
    · next he =>
      simp only [he]; rw [Bool.and_eq_true] at h; exact ⟨h.1, fuel, h.2⟩
    · next he => simp only [he]; exact ⟨fuel, h⟩
    · next he =>
      simp only [he]; rw [Bool.and_eq_true] at h; exact ⟨h.1, fuel, h.2⟩
    · next he =>
      simp only [he]; rw [Bool.and_eq_true] at h; exact ⟨⟨fuel, h.1⟩, fuel, h.2⟩
    · next he => simp only [he]; exact ⟨fuel, h⟩
    · next he =>
      simp only [he]; rw [Bool.and_eq_true] at h; exact ⟨fuel, h.2⟩
    · cases h

theorem ThOk_run {L : Type} {g : Loc → Lk} {strict : Bool} {t : Th L} (hst : t.st = .run)
    (h : ThOk g strict t) : CheckInv g strict t.prog t.pc t.held t.dfr := by
  simp only [ThOk, hst] at h
  exact check_inv h

theorem ThOk_unwinding {L : Type} {g : Loc → Lk} {strict : Bool} {t : Th L}
    (hst : t.st = .unwinding) (h : ThOk g strict t) : checkUnwind t.dfr t.held = true := by
  simpa only [ThOk, hst] using h

theorem ThOk_done {L : Type} {g : Loc → Lk} {strict : Bool} {t : Th L}
    (hst : t.st = .done) (h : ThOk g strict t) : t.held = [] := by
  simpa only [ThOk, hst] using h

theorem ThOk_new {L : Type} {g : Loc → Lk} {strict : Bool} {p : Prog} (l0 : L)
    (h : wellLocked g strict p = true) : ThOk g strict (Th.new p l0) := by
  simp only [ThOk, Th.new]
  exact ⟨_, h⟩

/-- every enabled instruction preserves the per-thread invariant -/
theorem next_ok {D L : Type} {g : Loc → Lk} {strict : Bool} (sem : Sem D L)
    (fr : Lk → Bool → Bool) (d : D) (t : Th L) (d' : D) (t' : Th L)
    (hok : ThOk g strict t) (h : next sem fr d t = some (d', t')) : ThOk g strict t' := by
  unfold next at h
  split at h
  · cases h
  · next hst =>
    have hu := ThOk_unwinding hst hok
    split at h
    · next hd =>
      cases h
      rw [hd, checkUnwind] at hu
      simp only [ThOk]
      exact List.isEmpty_iff.1 hu
    · next l w r hd =>
      rw [hd, checkUnwind, Bool.and_eq_true] at hu
      split at h
      · cases h
        simp only [ThOk, hst]
        exact hu.2
      · cases h
  · next hst =>
    have hc := ThOk_run hst hok
    unfold CheckInv at hc
    split at h
    · next he =>
      cases h
      simp only [he] at hc
      simp only [ThOk]; exact hc
    · next l w he =>
      simp only [he] at hc
      split at h
      · cases h; simp only [ThOk, hst]; exact hc.2
      · cases h
    · next l w he =>
      simp only [he] at hc
      split at h
      · cases h; simp only [ThOk, hst]; exact hc.2
      · cases h
    · next l w he =>
      simp only [he] at hc
      cases h; simp only [ThOk, hst]; exact hc
    · next x k he =>
      simp only [he] at hc
      cases h; simp only [ThOk, hst]; exact hc.2
    · next c n he =>
      simp only [he] at hc
      cases h; simp only [ThOk, hst]
      split
      · exact hc.1
      · exact hc.2
    · next n he =>
      simp only [he] at hc
      cases h; simp only [ThOk, hst]; exact hc
    · next he =>
      simp only [he] at hc
      cases h; simp only [ThOk]; exact hc
    · next f he =>
      simp only [he] at hc
      cases h; simp only [ThOk, hst]; exact hc
    · cases h

/-- the global invariant -/
theorem all_ok {D L : Type} (sem : Sem D L) (progs : List Prog) (initL : L → Prop) (d0 : D)
    (g : Loc → Lk) (strict : Bool) (hp : ∀ p ∈ progs, wellLocked g strict p = true)
    (s : St D L) (hr : Run sem progs initL d0 s) : ∀ t ∈ s.ths, ThOk g strict t := by
  induction hr with
  | init => intro t ht; cases ht
  | step _ hs ih =>
    cases hs with
    | spawn p hpp l0 hl =>
      intro t ht
      rcases List.mem_append.1 ht with ht | ht
      · exact ih t ht
      · rw [List.mem_singleton] at ht
        subst ht
        exact ThOk_new l0 (hp p hpp)
    | thread i t hi d' t' hn =>
      intro u hu
      rcases List.mem_or_eq_of_mem_set hu with hu | hu
      · exact ih u hu
      · subst hu
        exact next_ok sem _ _ t d' _ (ih t (List.mem_of_getElem? hi)) hn

/-! ### no race -/

theorem okAcc_write {g : Loc → Lk} {held : Held} {x : Loc} {k : Acc}
    (h : okAcc g held x k = true) (hs : k.isSync = false) (hw : k.isWrite = true) :
    held.contains (g x, true) = true := by
  simpa only [okAcc, hs, hw, Bool.false_eq_true, if_false, if_true] using h

theorem okAcc_any {g : Loc → Lk} {held : Held} {x : Loc} {k : Acc}
    (h : okAcc g held x k = true) (hs : k.isSync = false) :
    holdsAny held (g x) = true := by
  simp only [okAcc, hs, Bool.false_eq_true, if_false] at h
  split at h
  · exact holdsAny_eq_true.2 ⟨true, held_contains.1 h⟩
  · exact h

theorem poised_ok {L : Type} {g : Loc → Lk} {strict : Bool} {t : Th L} {x : Loc} {w : Bool}
    (hok : ThOk g strict t) (hp : Poised t x w) :
    holdsAny t.held (g x) = true ∧ (w = true → t.held.contains (g x, true) = true) := by
  obtain ⟨hst, k, he, hs, hw⟩ := hp
  have hc := ThOk_run hst hok
  unfold CheckInv at hc
  simp only [he] at hc
  exact ⟨okAcc_any hc.1 hs, fun h => okAcc_write hc.1 hs (hw.trans h)⟩

theorem no_race {D L : Type} (sem : Sem D L) (progs : List Prog) (initL : L → Prop) (d0 : D)
    (g : Loc → Lk) (strict : Bool) (hp : ∀ p ∈ progs, wellLocked g strict p = true)
    (s : St D L) (hr : Run sem progs initL d0 s) : ¬ Race s := by
  rintro ⟨i, j, ti, tj, x, wi, wj, hij, hi, hj, hpi, hpj, hw⟩
  have hok := all_ok sem progs initL d0 g strict hp s hr
  have hi' := poised_ok (hok ti (List.mem_of_getElem? hi)) hpi
  have hj' := poised_ok (hok tj (List.mem_of_getElem? hj)) hpj
  rcases hw with hw | hw
  · have := mutual_exclusion sem progs initL d0 s hr i j ti tj (g x) hij hi hj (hi'.2 hw)
    rw [hj'.1] at this; cases this
  · have := mutual_exclusion sem progs initL d0 s hr j i tj ti (g x) (Ne.symm hij) hj hi (hj'.2 hw)
    rw [hi'.1] at this; cases this

/-! ### no fatal unlock, no leak -/

theorem no_fatal_unlock {D L : Type} (sem : Sem D L) (progs : List Prog) (initL : L → Prop)
    (d0 : D) (g : Loc → Lk) (strict : Bool) (hp : ∀ p ∈ progs, wellLocked g strict p = true)
    (s : St D L) (hr : Run sem progs initL d0 s) : ∀ t ∈ s.ths, ¬ FatalUnlock t := by
  intro t ht hf
  have hok := all_ok sem progs initL d0 g strict hp s hr t ht
  rcases hf with ⟨hst, l, w, he, hc⟩ | ⟨hst, l, w, r, hd, hc⟩
  · have h := ThOk_run hst hok
    unfold CheckInv at h
    simp only [he] at h
    rw [h.1] at hc; cases hc
  · have h := ThOk_unwinding hst hok
    rw [hd, checkUnwind, Bool.and_eq_true] at h
    rw [h.1] at hc; cases hc

theorem no_lock_leak {D L : Type} (sem : Sem D L) (progs : List Prog) (initL : L → Prop)
    (d0 : D) (g : Loc → Lk) (strict : Bool) (hp : ∀ p ∈ progs, wellLocked g strict p = true)
    (s : St D L) (hr : Run sem progs initL d0 s) : ∀ t ∈ s.ths, t.st = .done → t.held = [] :=
  fun t ht hst => ThOk_done hst (all_ok sem progs initL d0 g strict hp s hr t ht)

/-! ### no deadlock (strict check) -/

/-- a strictly checked thread that is not finished and cannot move is waiting for a lock
while holding none -/
theorem blocked_at_acq {D L : Type} {g : Loc → Lk} (sem : Sem D L) (fr : Lk → Bool → Bool)
    (d : D) (t : Th L) (hok : ThOk g true t) (hnd : t.st ≠ .done)
    (h : next sem fr d t = none) : t.held = [] ∧ ∃ l w, fr l w = false := by
  unfold next at h
  split at h
  · next hst => exact absurd hst hnd
  · next hst =>
    have hu := ThOk_unwinding hst hok
    split at h
    · cases h
    · next l w r hd =>
      rw [hd, checkUnwind, Bool.and_eq_true] at hu
      rw [if_pos hu.1] at h; cases h
  · next hst =>
    have hc := ThOk_run hst hok
    unfold CheckInv at hc
    split at h
    · cases h
    · next l w he =>
      simp only [he, if_true] at hc
      split at h
      · cases h
      · next hf => exact ⟨List.isEmpty_iff.1 hc.1, l, w, by simpa using hf⟩
    · next l w he =>
      simp only [he] at hc
      rw [if_pos hc.1] at h; cases h
    · cases h
    · cases h
    · cases h
    · cases h
    · cases h
    · cases h
    · next he => simp only [he] at hc

theorem free_of_nothing_held {L : Type} (ths : List (Th L)) (hn : ∀ t ∈ ths, t.held = [])
    (l : Lk) (w : Bool) : free ths l w = true := by
  simp only [free, List.all_eq_true]
  intro u hu
  rw [hn u hu]
  cases w <;> rfl

theorem no_deadlock {D L : Type} (sem : Sem D L) (progs : List Prog) (initL : L → Prop)
    (d0 : D) (g : Loc → Lk) (hp : ∀ p ∈ progs, wellLocked g true p = true)
    (s : St D L) (hr : Run sem progs initL d0 s) : ¬ Deadlock sem s := by
  rintro ⟨hnd, hblk⟩
  have hok := all_ok sem progs initL d0 g true hp s hr
  -- nobody holds anything
  have hnone : ∀ t ∈ s.ths, t.held = [] := by
    intro t ht
    by_cases hst : t.st = .done
    · exact ThOk_done hst (hok t ht)
    · obtain ⟨i, hi⟩ := List.getElem?_of_mem ht
      exact (blocked_at_acq sem _ _ t (hok t ht) hst (hblk i t hi)).1
  apply hnd
  intro t ht
  apply Classical.byContradiction
  intro hst
  obtain ⟨i, hi⟩ := List.getElem?_of_mem ht
  obtain ⟨_, l, w, hf⟩ := blocked_at_acq sem _ _ t (hok t ht) hst (hblk i t hi)
  rw [free_of_nothing_held s.ths hnone l w] at hf
  cases hf

end CueVerif.Lockset
