/-
C10 helper lemmas: RFC 8259 string tokens read by the CUE scanner (`scanStringTok`) and by
`literal.Unquote` (`Quote.unquote`).  Core Lean only.
-/
import CueVerif.Spec.Json
import CueVerif.Model.Json
import CueVerif.Proofs.Utf8
import CueVerif.Proofs.Quote
namespace CueVerif.Json
open CueVerif CueVerif.Quote

/-- no item is a raw (unescaped) U+FEFF -/
def noRawBOM (items : List JItem) : Bool := items.all fun i => i != JItem.raw 0xFEFF

/-- witness: the token `"\ud800"` (a lone surrogate escape) is rejected by `Unquote` -/
theorem lone_surrogate_rejected :
    Quote.unquote (stringText [JItem.u 0x64 0x38 0x30 0x30]) = .error .surrogate := by
  have h1 : stringText [JItem.u 0x64 0x38 0x30 0x30] = 0x22 :: ([0x5C, 0x75, 0x64, 0x38, 0x30, 0x30] ++ [0x22]) := rfl
  rw [h1]
  unfold unquote
  rw [parseQuotes_single 0x22 (Or.inl rfl) _ (by decide)]
  simp only [List.drop_succ_cons, List.drop_zero]
  unfold QuoteInfo.unquote
  have h2 : isSimple 0x22 ([0x5C, 0x75, 0x64, 0x38, 0x30, 0x30] ++ [0x22]).dropLast = false :=
    isSimple_backslash _ _
  rw [h2]
  rfl

/-- the quote info of a JSON string token -/
def jq : QuoteInfo := { char := 0x22, numHash := 0, multiline := false, whitespace := [] }

theorem raw_wf {r : Nat} (h : (JItem.raw r).wf = true) :
    r ≤ 0x10FFFF ∧ ¬ (0xD800 ≤ r ∧ r < 0xE000) ∧ 0x20 ≤ r ∧ r ≠ 0x22 ∧ r ≠ 0x5C := by
  simp only [JItem.wf, isScalar, Bool.and_eq_true, decide_eq_true_eq, Bool.not_eq_true',
    Bool.and_eq_false_iff, decide_eq_false_iff_not, bne_iff_ne, ne_eq] at h
  omega

theorem item_text_facts (i : JItem) (h : i.wf = true) :
    (∃ c cs, i.text = c :: cs ∧ c ≠ 0x22) ∧ (∀ b ∈ i.text, b ≠ 10) := by
  cases i with
  | raw r =>
    have hw := raw_wf h
    by_cases h80 : r < 0x80
    · simp only [JItem.text, encodeRune_ascii r h80]
      exact ⟨⟨r, [], rfl, hw.2.2.2.1⟩, by intro b hb; simp at hb; omega⟩
    · have hb := encodeRune_bytes_high r (by omega)
      have hl := encodeRune_length r (by omega)
      simp only [JItem.text]
      refine ⟨?_, fun b hb' => by have := hb b hb'; omega⟩
      match he : encodeRune r with
      | [] => rw [he] at hl; simp at hl
      | c :: cs =>
        have := hb c (by rw [he]; simp)
        exact ⟨c, cs, rfl, by omega⟩
  | esc e =>
    refine ⟨⟨0x5C, [e.letter], rfl, by decide⟩, ?_⟩
    intro b hb
    cases e <;> simp [JItem.text, Esc.letter] at hb <;> omega
  | u a b c d =>
    refine ⟨⟨0x5C, _, rfl, by decide⟩, ?_⟩
    simp only [JItem.wf, isHexChar, Bool.and_eq_true, Bool.or_eq_true, decide_eq_true_eq] at h
    intro x hx
    simp only [JItem.text, List.mem_cons, List.mem_nil_iff, or_false] at hx
    omega


/-! ### hex digits -/

theorem unhex_hexChar (c : Nat) (h : isHexChar c = true) :
    unhexByte c = some (hexCharVal c) ∧ hexCharVal c < 16 := by
  simp only [isHexChar, Bool.and_eq_true, Bool.or_eq_true, decide_eq_true_eq] at h
  unfold unhexByte hexCharVal
  repeat' split
  all_goals simp only [Option.some.injEq, reduceCtorEq, false_and, true_and]
  all_goals omega

theorem hexVal_u (a b c d : Nat) (h : (JItem.u a b c d).wf = true) :
    hexVal [a, b, c, d] 0 = some (uVal a b c d) ∧ uVal a b c d < 65536 := by
  simp only [JItem.wf, Bool.and_eq_true] at h
  obtain ⟨⟨⟨ha, hb⟩, hc⟩, hd⟩ := h
  have ha := unhex_hexChar a ha
  have hb := unhex_hexChar b hb
  have hc := unhex_hexChar c hc
  have hd := unhex_hexChar d hd
  refine ⟨?_, ?_⟩
  · simp [hexVal, ha.1, hb.1, hc.1, hd.1, uVal]
  · unfold uVal; omega

theorem scanHexOk_hexChar (c : Nat) (h : isHexChar c = true) : scanHexOk c = true := by
  simp only [isHexChar, Bool.and_eq_true, Bool.or_eq_true, decide_eq_true_eq] at h
  simp only [scanHexOk, NumLit.digitVal, Bool.and_eq_true, bne_iff_ne, ne_eq]
  refine ⟨by omega, ?_⟩
  repeat' split
  all_goals simp only [decide_eq_true_eq]
  all_goals omega

/-! ### `unquoteChar` on the three kinds of items -/

theorem uc_esc (e : Esc) (t : Bytes) :
    unquoteChar (0x5C :: e.letter :: t) jq = .ok (.char e.value false, t) := by
  have := uc_backslash jq (Or.inl rfl) e.letter t
  refine Eq.trans this ?_
  cases e <;> simp [unquoteEscape, Esc.letter, Esc.value, jq]

theorem uc_u (a b c d : Nat) (h : (JItem.u a b c d).wf = true) (t : Bytes) :
    unquoteChar (0x5C :: 0x75 :: a :: b :: c :: d :: t) jq = .ok (.char (uVal a b c d) true, t) := by
  have := uc_backslash jq (Or.inl rfl) 0x75 (a :: b :: c :: d :: t)
  refine Eq.trans this ?_
  obtain ⟨hv, hlt⟩ := hexVal_u a b c d h
  have h1 : ¬ (uVal a b c d ≥ 2147483648) := by omega
  have h2 : ¬ (uVal a b c d > 0x10FFFF) := by omega
  simp [unquoteEscape, hv, h1, h2]


theorem high_iff (v : Nat) : isHigh v = true ↔ 0xD800 ≤ v ∧ v < 0xDC00 := by
  unfold isHigh
  rw [Bool.and_eq_true, decide_eq_true_eq, decide_eq_true_eq]

theorem low_iff (v : Nat) : isLow v = true ↔ 0xDC00 ≤ v ∧ v < 0xE000 := by
  unfold isLow
  rw [Bool.and_eq_true, decide_eq_true_eq, decide_eq_true_eq]

/-! ### unfolding `denote` / `wellPaired` at a `\u` item -/

theorem denote_u_notHigh (a b c d : Nat) (t : List JItem) (h : isHigh (uVal a b c d) = false) :
    denote (.u a b c d :: t) = encodeRune (uVal a b c d) ++ denote t := by
  match t with
  | [] => simp [denote]
  | .raw _ :: _ => simp [denote]
  | .esc _ :: _ => simp [denote]
  | .u _ _ _ _ :: _ => simp [denote, h]

theorem wellPaired_u_notHigh (a b c d : Nat) (t : List JItem) (h : isHigh (uVal a b c d) = false) :
    wellPaired (.u a b c d :: t) = (!isLow (uVal a b c d) && wellPaired t) := by
  match t with
  | [] => simp [wellPaired, h]
  | .raw _ :: _ => simp [wellPaired, h]
  | .esc _ :: _ => simp [wellPaired, h]
  | .u _ _ _ _ :: _ => simp [wellPaired, h]

theorem wellPaired_u_high (a b c d : Nat) (t : List JItem) (h : isHigh (uVal a b c d) = true)
    (hp : wellPaired (.u a b c d :: t) = true) :
    ∃ a' b' c' d' t', t = .u a' b' c' d' :: t' ∧ isLow (uVal a' b' c' d') = true ∧
      wellPaired t' = true := by
  match t with
  | [] => simp [wellPaired, h] at hp
  | .raw _ :: _ => simp [wellPaired, h] at hp
  | .esc _ :: _ => simp [wellPaired, h] at hp
  | .u a' b' c' d' :: t' =>
    simp only [wellPaired, h, if_true, Bool.and_eq_true] at hp
    exact ⟨a', b', c', d', t', rfl, hp.1, hp.2⟩

theorem denote_u_pair (a b c d a' b' c' d' : Nat) (t : List JItem)
    (h : isHigh (uVal a b c d) = true) (h' : isLow (uVal a' b' c' d') = true) :
    denote (.u a b c d :: .u a' b' c' d' :: t) =
      encodeRune (combine (uVal a b c d) (uVal a' b' c' d')) ++ denote t := by
  simp [denote, h, h']

/-! ### one iteration of `unquoteLoop` per item -/

theorem step_raw (r : Nat) (h : (JItem.raw r).wf = true) (tail buf : Bytes) (fuel : Nat)
    (sn we : Bool) :
    unquoteLoop jq (fuel + 1) (encodeRune r ++ tail) buf sn we =
      unquoteLoop jq fuel tail (buf ++ encodeRune r) false false := by
  have hw := raw_wf h
  by_cases h80 : r < 0x80
  · rw [encodeRune_ascii r h80]
    have huc := uc_plain jq r tail h80 (by omega) hw.2.2.2.2 hw.2.2.2.1
    show unquoteLoop jq (fuel + 1) (r :: tail) buf sn we = _
    rw [loop_step_char jq r tail (by omega) (by omega) r false tail huc (by omega)]
    have hm : r % 256 = r := by omega
    simp [pushChar, hm]
  · have h1 : 0x80 ≤ r := by omega
    have huc := uc_multibyte jq (Or.inl rfl) r tail h1 hw.1 hw.2.1
    have hb := encodeRune_bytes_high r h1
    have hl := encodeRune_length r h1
    match he : encodeRune r with
    | [] => rw [he] at hl; simp at hl
    | c :: cs =>
      rw [he] at huc hb
      have hc := (hb c (by simp)).1
      show unquoteLoop jq (fuel + 1) (c :: (cs ++ tail)) buf sn we = _
      rw [loop_step_char jq c (cs ++ tail) (by omega) (by omega) r true tail huc hw.2.1]
      simp [pushChar, he]

theorem step_esc (e : Esc) (tail buf : Bytes) (fuel : Nat) (sn we : Bool) :
    unquoteLoop jq (fuel + 1) (0x5C :: e.letter :: tail) buf sn we =
      unquoteLoop jq fuel tail (buf ++ [e.value]) false false := by
  rw [loop_step_char jq _ _ (by decide) (by decide) e.value false tail (uc_esc e tail)
    (by cases e <;> simp only [Esc.value] <;> omega)]
  have : e.value % 256 = e.value := by cases e <;> rfl
  simp [pushChar, this]

theorem step_u (a b c d : Nat) (h : (JItem.u a b c d).wf = true)
    (hs : isHigh (uVal a b c d) = false) (hl : isLow (uVal a b c d) = false)
    (tail buf : Bytes) (fuel : Nat) (sn we : Bool) :
    unquoteLoop jq (fuel + 1) (0x5C :: 0x75 :: a :: b :: c :: d :: tail) buf sn we =
      unquoteLoop jq fuel tail (buf ++ encodeRune (uVal a b c d)) false false := by
  have hv : ¬ (0xD800 ≤ uVal a b c d ∧ uVal a b c d < 0xE000) := by
    simp only [isHigh, isLow, Bool.and_eq_false_iff, decide_eq_false_iff_not] at hs hl
    omega
  rw [loop_step_char jq _ _ (by decide) (by decide) _ true tail (uc_u a b c d h tail) hv]
  simp [pushChar]

theorem sur_pair (q : QuoteInfo) (s : Bytes) (hi lo : Nat) (mb mb' : Bool) (c' : Nat) (rest' ss' : Bytes)
    (huc : unquoteChar s q = .ok (.char hi mb, c' :: rest'))
    (huc' : unquoteChar (c' :: rest') q = .ok (.char lo mb', ss'))
    (hhi : 0xD800 ≤ hi ∧ hi < 0xDC00) (hlo : 0xDC00 ≤ lo ∧ lo < 0xE000) :
    unquoteCharSur s q = .ok (.char (combine hi lo) mb, ss') := by
  have e1 : (decide (0xD800 ≤ hi) && decide (hi < 0xE000)) = true := by
    simp only [Bool.and_eq_true, decide_eq_true_eq]; omega
  have e2 : ¬ (hi ≥ 0xDC00) := by omega
  have e3 : (decide (lo < 0xDC00) || decide (0xE000 ≤ lo)) = false := by
    simp only [Bool.or_eq_false_iff, decide_eq_false_iff_not]; omega
  unfold unquoteCharSur
  rw [huc]
  simp only [e1, if_true]
  rw [if_neg e2, huc']
  dsimp only
  rw [e3]
  rfl

theorem loop_step_sur (q : QuoteInfo) (c : Nat) (rest : Bytes) (hc13 : c ≠ 13) (hc10 : c ≠ 10)
    (v : Nat) (mb : Bool) (ss : Bytes) (huc : unquoteCharSur (c :: rest) q = .ok (.char v mb, ss))
    (fuel : Nat) (buf : Bytes) (sn we : Bool) :
    unquoteLoop q (fuel + 1) (c :: rest) buf sn we = unquoteLoop q fuel ss (pushChar buf v mb) false false := by
  have e13 : (c == 13) = false := by simpa using hc13
  have e10 : (c == 10) = false := by simpa using hc10
  simp [unquoteLoop, huc, e13, e10]

theorem step_pair (a b c d a' b' c' d' : Nat) (h : (JItem.u a b c d).wf = true)
    (h' : (JItem.u a' b' c' d').wf = true)
    (hs : isHigh (uVal a b c d) = true) (hl : isLow (uVal a' b' c' d') = true)
    (tail buf : Bytes) (fuel : Nat) (sn we : Bool) :
    unquoteLoop jq (fuel + 1)
        (0x5C :: 0x75 :: a :: b :: c :: d :: 0x5C :: 0x75 :: a' :: b' :: c' :: d' :: tail) buf sn we =
      unquoteLoop jq fuel tail (buf ++ encodeRune (combine (uVal a b c d) (uVal a' b' c' d')))
        false false := by
  rw [high_iff] at hs
  rw [low_iff] at hl
  have hsur := sur_pair jq _ _ _ _ _ _ _ _ (uc_u a b c d h (0x5C :: 0x75 :: a' :: b' :: c' :: d' :: tail))
    (uc_u a' b' c' d' h' tail) hs hl
  rw [loop_step_sur jq _ _ (by decide) (by decide) _ _ _ hsur]
  simp [pushChar]


theorem step_close (fuel : Nat) (buf : Bytes) :
    unquoteLoop jq (fuel + 1) [0x22] buf false false = .ok buf :=
  loop_step_close jq (Or.inl rfl) rfl fuel buf

/-! ### whole bodies -/

theorem WfItems.head {i : JItem} {t : List JItem} (h : WfItems (i :: t)) : i.wf = true :=
  h i (List.mem_cons_self ..)

theorem WfItems.tail {i : JItem} {t : List JItem} (h : WfItems (i :: t)) : WfItems t :=
  fun x hx => h x (List.mem_cons_of_mem _ hx)

theorem item_text_pos (i : JItem) (h : i.wf = true) : 1 ≤ i.text.length := by
  obtain ⟨⟨c, cs, he, _⟩, _⟩ := item_text_facts i h
  rw [he]; simp

theorem body_no_nl (items : List JItem) (hwf : WfItems items) : ∀ b ∈ bodyText items, b ≠ 10 := by
  induction items with
  | nil => intro b hb; simp [bodyText] at hb
  | cons i t ih =>
    intro b hb
    simp only [bodyText, List.mem_append] at hb
    rcases hb with hb | hb
    · exact (item_text_facts i hwf.head).2 b hb
    · exact ih hwf.tail b hb

theorem body_head (items : List JItem) (hwf : WfItems items) :
    (bodyText items).head? ≠ some 0x22 := by
  match items with
  | [] => simp [bodyText]
  | i :: t =>
    obtain ⟨⟨c, cs, he, hc⟩, _⟩ := item_text_facts i hwf.head
    simp only [bodyText, he, List.cons_append, List.head?_cons, ne_eq, Option.some.injEq]
    exact hc

/-- the fast path of `QuoteInfo.Unquote` only fires when there is no escape at all -/
theorem simple_denote (items : List JItem) (hwf : WfItems items)
    (hs : isSimple 0x22 (bodyText items) = true) : denote items = bodyText items := by
  induction items with
  | nil => simp [denote, bodyText]
  | cons i t ih =>
    cases i with
    | raw r =>
      have hw := raw_wf hwf.head
      simp only [bodyText, JItem.text] at hs ⊢
      have ht : isSimple 0x22 (bodyText t) = true := by
        by_cases h80 : r < 0x80
        · rw [encodeRune_ascii r h80] at hs
          exact isSimple_ascii_tail _ r _ h80 hs
        · exact isSimple_mb_tail _ r _ (by omega) hw.1 hw.2.1 hs
      simp only [denote, ih hwf.tail ht]
    | esc e =>
      simp only [bodyText, JItem.text, List.cons_append] at hs
      rw [isSimple_backslash] at hs; cases hs
    | u a b c d =>
      simp only [bodyText, JItem.text, List.cons_append] at hs
      rw [isSimple_backslash] at hs; cases hs

/-- the main loop of `QuoteInfo.Unquote` on the body of a well-paired token -/
theorem loop_items : ∀ (n : Nat) (items : List JItem), items.length ≤ n → WfItems items →
    wellPaired items = true → ∀ (fuel : Nat) (buf : Bytes), (bodyText items).length + 1 ≤ fuel →
    unquoteLoop jq fuel (bodyText items ++ [0x22]) buf false false = .ok (buf ++ denote items) := by
  intro n
  induction n with
  | zero =>
    intro items hn _ _ fuel buf hf
    match items, hn with
    | [], _ =>
      obtain ⟨f, rfl⟩ : ∃ f, fuel = f + 1 := ⟨fuel - 1, by omega⟩
      simp only [denote, bodyText, List.nil_append, List.append_nil]
      exact step_close f buf
  | succ n ih =>
    intro items hn hwf hp fuel buf hf
    match items, hn, hwf, hp, hf with
    | [], _, _, _, _ =>
      obtain ⟨f, rfl⟩ : ∃ f, fuel = f + 1 := ⟨fuel - 1, by omega⟩
      simp only [denote, bodyText, List.nil_append, List.append_nil]
      exact step_close f buf
    | .raw r :: t, hn, hwf, hp, hf =>
      have hpos := item_text_pos _ hwf.head
      simp only [bodyText, JItem.text, List.length_append, List.length_cons] at hf hn hpos
      obtain ⟨f, rfl⟩ : ∃ f, fuel = f + 1 := ⟨fuel - 1, by omega⟩
      simp only [bodyText, JItem.text, List.append_assoc, denote]
      rw [step_raw r hwf.head, ih t (by omega) hwf.tail (by simpa [wellPaired] using hp) f _ (by omega)]
      simp
    | .esc e :: t, hn, hwf, hp, hf =>
      simp only [bodyText, JItem.text, List.length_append, List.length_cons] at hf hn
      obtain ⟨f, rfl⟩ : ∃ f, fuel = f + 1 := ⟨fuel - 1, by omega⟩
      simp only [bodyText, JItem.text, List.cons_append, List.nil_append, denote]
      rw [step_esc e, ih t (by omega) hwf.tail (by simpa [wellPaired] using hp) f _ (by omega)]
      simp
    | .u a b c d :: t, hn, hwf, hp, hf =>
      simp only [bodyText, JItem.text, List.length_append, List.length_cons] at hf hn
      obtain ⟨f, rfl⟩ : ∃ f, fuel = f + 1 := ⟨fuel - 1, by omega⟩
      by_cases hh : isHigh (uVal a b c d) = true
      · obtain ⟨a', b', c', d', t', rfl, hlo, hp'⟩ := wellPaired_u_high a b c d t hh hp
        simp only [bodyText, JItem.text, List.length_append, List.length_cons] at hf hn
        simp only [bodyText, JItem.text, List.cons_append, List.nil_append]
        rw [denote_u_pair a b c d a' b' c' d' t' hh hlo,
          step_pair a b c d a' b' c' d' hwf.head hwf.tail.head hh hlo,
          ih t' (by omega) hwf.tail.tail hp' f _ (by omega)]
        simp
      · have hh' : isHigh (uVal a b c d) = false := by simpa using hh
        rw [wellPaired_u_notHigh a b c d t hh'] at hp
        simp only [Bool.and_eq_true, Bool.not_eq_true'] at hp
        simp only [bodyText, JItem.text, List.cons_append, List.nil_append]
        rw [denote_u_notHigh a b c d t hh', step_u a b c d hwf.head hh' hp.1,
          ih t (by omega) hwf.tail hp.2 f _ (by omega)]
        simp


/-- Every RFC 8259 string token whose surrogate escapes are well paired unquotes, under the
CUE rules, to exactly the string it denotes. -/
theorem string_embed (items : List JItem) (hwf : WfItems items) (hp : wellPaired items = true) :
    Quote.unquote (stringText items) = .ok (denote items) := by
  unfold stringText unquote
  rw [parseQuotes_single 0x22 (Or.inl rfl) _ (body_head items hwf)]
  simp only [List.drop_succ_cons, List.drop_zero]
  have hc : (bodyText items ++ [0x22]).contains 10 = false := by
    rw [Bool.eq_false_iff]
    intro hc
    rw [List.contains_iff_mem] at hc
    rcases List.mem_append.mp hc with h | h
    · exact body_no_nl items hwf 10 h rfl
    · simp at h
  unfold QuoteInfo.unquote
  simp only [hc, Bool.and_false, Bool.false_eq_true, if_false]
  by_cases hs : isSimple 0x22 (bodyText items) = true
  · simp [hs, simple_denote items hwf hs]
  · have hs' : isSimple 0x22 (bodyText items) = false := by simpa using hs
    simp only [List.dropLast_concat, hs', Bool.and_false, Bool.false_eq_true, if_false, Bool.false_and]
    have := loop_items items.length items (Nat.le_refl _) hwf hp
      ((bodyText items ++ [0x22]).length + 1) []
      (by simp only [List.length_append, List.length_cons, List.length_nil]; omega)
    simpa [jq] using this

theorem scanTok_body (body : Bytes) (hh : body.head? ≠ some 0x22) :
    scanStringTok (0x22 :: (body ++ [0x22])) = scanStrLoop (body ++ [0x22]) := by
  match body with
  | [] => simp [scanStringTok]
  | c :: cs =>
    have hc : c ≠ 0x22 := by simpa using hh
    simp only [List.cons_append]
    unfold scanStringTok
    split
    · next heq => simp at heq; omega
    · next heq => simp at heq; rw [heq]
    · next h1 h2 => exact absurd rfl (h2 _)


/-! ### the scanner loop -/

theorem scan_close : scanStrLoop [0x22] = true := by
  simp [scanStrLoop]

theorem scan_esc (e : Esc) (t : Bytes) : scanStrLoop (0x5C :: e.letter :: t) = scanStrLoop t := by
  cases e <;> simp [scanStrLoop, Esc.letter, scanSimpleEscape]

theorem scan_u (a b c d : Nat) (h : (JItem.u a b c d).wf = true) (t : Bytes) :
    scanStrLoop (0x5C :: 0x75 :: a :: b :: c :: d :: t) = scanStrLoop t := by
  simp only [JItem.wf, Bool.and_eq_true] at h
  obtain ⟨⟨⟨ha, hb⟩, hc⟩, hd⟩ := h
  simp [scanStrLoop, scanHexOk_hexChar a ha, scanHexOk_hexChar b hb, scanHexOk_hexChar c hc,
    scanHexOk_hexChar d hd]

theorem scan_raw (r : Nat) (h : (JItem.raw r).wf = true) (t : Bytes) :
    scanStrLoop (encodeRune r ++ t) = (r != 0xFEFF && scanStrLoop t) := by
  have hw := raw_wf h
  by_cases h80 : r < 0x80
  · rw [encodeRune_ascii r h80]
    have e1 : (r == 10) = false := by simp; omega
    have e2 : (r == 0) = false := by simp; omega
    have e3 : (r == 0x22) = false := by simp; omega
    have e4 : ¬ (0x80 ≤ r) := by omega
    have e5 : (r != 0xFEFF) = true := by simp; omega
    have e6 : r ≠ 0x5C := hw.2.2.2.2
    show scanStrLoop (r :: t) = _
    rw [scanStrLoop.eq_def]
    split
    · next heq => cases heq
    · next heq => simp at heq; omega
    · next c rest hne heq =>
      simp only [List.cons.injEq] at heq
      obtain ⟨rfl, rfl⟩ := heq
      simp [e1, e2, e3, e4, e5]
  · have h1 : 0x80 ≤ r := by omega
    have hd := decodeRune_encodeRune r t h1 hw.1 hw.2.1
    have hb := encodeRune_bytes_high r h1
    have hl := encodeRune_length r h1
    match he : encodeRune r with
    | [] => rw [he] at hl; simp at hl
    | c :: cs =>
      rw [he] at hd hb hl
      have hc := (hb c (by simp)).1
      have hd' : decodeRune (c :: (cs ++ t)) = (r, cs.length + 1) := by simpa using hd
      have e1 : (c == 10) = false := by simp; omega
      have e2 : (c == 0) = false := by simp; omega
      have e3 : (c == 0x22) = false := by simp; omega
      have e4 : ((r == 0xFFFD) && (cs.length + 1 == 1)) = false := by
        simp only [List.length_cons] at hl
        simp only [Bool.and_eq_false_iff, beq_eq_false_iff_ne]; right; omega
      have e5 : (cs ++ t).drop (cs.length + 1 - 1) = t := by
        rw [Nat.add_sub_cancel, List.drop_left]
      show scanStrLoop (c :: (cs ++ t)) = _
      rw [scanStrLoop.eq_def]
      split
      · next heq => cases heq
      · next heq => simp at heq; omega
      · next c' rest hne heq =>
        simp only [List.cons.injEq] at heq
        obtain ⟨rfl, rfl⟩ := heq
        simp only [e1, e2, e3, hc, hd', e4, e5, Bool.false_eq_true, if_false, if_true]
        by_cases hr : r = 0xFEFF
        · simp [hr]
        · have : (r == 0xFEFF) = false := by simpa using hr
          simp [this, hr]

theorem raw_bne (r : Nat) : (JItem.raw r != JItem.raw 0xFEFF) = (r != 0xFEFF) := by
  by_cases h : r = 0xFEFF
  · subst h; simp
  · have h' : JItem.raw r ≠ JItem.raw 0xFEFF := by intro h'; injection h' with h'; exact h h'
    have e1 : (JItem.raw r != JItem.raw 0xFEFF) = true := by simpa using h'
    have e2 : (r != 0xFEFF) = true := by simpa using h
    rw [e1, e2]

theorem noRawBOM_cons (i : JItem) (t : List JItem) :
    noRawBOM (i :: t) = (i != JItem.raw 0xFEFF && noRawBOM t) := by
  simp [noRawBOM]

theorem scan_items (items : List JItem) (hwf : WfItems items) :
    scanStrLoop (bodyText items ++ [0x22]) = noRawBOM items := by
  induction items with
  | nil => simp [bodyText, noRawBOM, scan_close]
  | cons i t ih =>
    rw [noRawBOM_cons, ← ih hwf.tail]
    cases i with
    | raw r =>
      simp only [bodyText, JItem.text, List.append_assoc]
      rw [scan_raw r hwf.head, raw_bne]
    | esc e =>
      simp only [bodyText, JItem.text, List.cons_append, List.nil_append]
      rw [scan_esc]
      simp
    | u a b c d =>
      simp only [bodyText, JItem.text, List.cons_append, List.nil_append]
      rw [scan_u a b c d hwf.head]
      simp

/-- The CUE scanner accepts an RFC 8259 string token as one clean STRING token iff the token
contains no raw U+FEFF. -/
theorem string_scan (items : List JItem) (hwf : WfItems items) :
    scanStringTok (stringText items) = noRawBOM items := by
  unfold stringText
  rw [scanTok_body _ (body_head items hwf), scan_items items hwf]

end CueVerif.Json
