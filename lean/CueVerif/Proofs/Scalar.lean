import CueVerif.Spec.Scalar
import CueVerif.Proofs.Dec
/-!
C03 — proofs: every outcome of `simplifyBounds` is sound for the specification `sat`, conjunct
insertion refines set intersection, and `finalize` reports exactly the satisfying atom.
Core Lean only.
-/
namespace CueVerif.Scalar
open CueVerif Std

/-! ### orderings: the finite facts -/

/-- what transitivity allows for `cmp v b` given `cmp v a` and `cmp a b` -/
def consistent : Ordering → Ordering → Ordering → Bool
  | .lt, .lt, o | .lt, .eq, o | .eq, .lt, o => o == .lt
  | .eq, .eq, o => o == .eq
  | .gt, .gt, o | .gt, .eq, o | .eq, .gt, o => o == .gt
  | _, _, _ => true

theorem consistent_of_trans {α} (cmp : α → α → Ordering) [TransCmp cmp] (v a b : α) :
    consistent (cmp v a) (cmp a b) (cmp v b) = true := by
  cases h1 : cmp v a <;> cases h2 : cmp a b <;> simp only [consistent, beq_iff_eq]
  · exact TransCmp.lt_trans h1 h2
  · exact TransCmp.lt_of_lt_of_eq h1 h2
  · exact TransCmp.lt_of_eq_of_lt h1 h2
  · exact TransCmp.eq_trans h1 h2
  · exact TransCmp.gt_of_eq_of_gt h1 h2
  · exact TransCmp.gt_of_gt_of_eq h1 h2
  · exact TransCmp.gt_trans h1 h2

/-! ### keys: the sort of an atom and its comparable content -/

inductive Key
  | null | bool (b : Bool) | num (d : Dec) | str (s : Bytes) | bytes (s : Bytes)

def Atom.key : Atom → Key
  | .null => .null
  | .bool b => .bool b
  | .int z => .num (Dec.ofInt z)
  | .float d => .num d
  | .str s => .str s
  | .bytes s => .bytes s

def Key.ord : Key → Key → Option Ordering
  | .num x, .num y => some (Dec.cmp x y)
  | .str a, .str b => some (compare a b)
  | .bytes a, .bytes b => some (compare a b)
  | _, _ => none

def Key.eqv : Key → Key → Bool
  | .null, .null => true
  | .bool a, .bool b => a == b
  | .num x, .num y => Dec.cmp x y == .eq
  | .str a, .str b => a == b
  | .bytes a, .bytes b => a == b
  | _, _ => false

theorem ordCmp_key (a b : Atom) : ordCmp a b = Key.ord a.key b.key := by
  cases a <;> cases b <;> rfl

theorem eqv_key (a b : Atom) : a.eqv b = Key.eqv a.key b.key := by
  cases a <;> cases b <;> rfl

theorem Key.ord_consistent (v a b : Key) (o1 o2 : Ordering)
    (h1 : Key.ord v a = some o1) (h2 : Key.ord a b = some o2) :
    ∃ o3, Key.ord v b = some o3 ∧ consistent o1 o2 o3 = true := by
  cases v <;> cases a <;> simp only [Key.ord, reduceCtorEq] at h1 <;>
    cases b <;> simp only [Key.ord, reduceCtorEq] at h2
  · rename_i x y z
    refine ⟨_, rfl, ?_⟩
    cases h1; cases h2
    exact consistent_of_trans Dec.cmp x y z
  · rename_i x y z
    refine ⟨_, rfl, ?_⟩
    cases h1; cases h2
    exact consistent_of_trans (compare : Bytes → Bytes → Ordering) x y z
  · rename_i x y z
    refine ⟨_, rfl, ?_⟩
    cases h1; cases h2
    exact consistent_of_trans (compare : Bytes → Bytes → Ordering) x y z

theorem Key.ord_swap (a b : Key) : Key.ord b a = (Key.ord a b).map Ordering.swap := by
  cases a <;> cases b <;> simp only [Key.ord, Option.map]
  · exact congrArg some (OrientedCmp.eq_swap (cmp := Dec.cmp))
  · exact congrArg some (OrientedCmp.eq_swap (cmp := (compare : Bytes → Bytes → Ordering)))
  · exact congrArg some (OrientedCmp.eq_swap (cmp := (compare : Bytes → Bytes → Ordering)))

theorem bytes_compare_eq (a b : Bytes) : compare a b = .eq ↔ a = b :=
  LawfulEqCmp.compare_eq_iff_eq (cmp := (compare : Bytes → Bytes → Ordering))

/-- when two keys are comparable, `eqv` is "compares equal" -/
theorem Key.eqv_of_ord (a b : Key) (o : Ordering) (h : Key.ord a b = some o) :
    Key.eqv a b = (o == .eq) := by
  cases a <;> cases b <;> simp only [Key.ord, reduceCtorEq] at h <;> cases h <;> simp only [Key.eqv]
  · rename_i x y
    rw [Bool.eq_iff_iff]; simp only [beq_iff_eq]; exact (bytes_compare_eq x y).symm
  · rename_i x y
    rw [Bool.eq_iff_iff]; simp only [beq_iff_eq]; exact (bytes_compare_eq x y).symm

theorem Key.eqv_symm (a b : Key) : Key.eqv a b = Key.eqv b a := by
  cases a <;> cases b <;> simp only [Key.eqv]
  all_goals first
    | (rename_i x y
       rw [OrientedCmp.eq_swap (cmp := Dec.cmp) (a := x) (b := y)]
       cases Dec.cmp y x <;> rfl)
    | (rw [Bool.eq_iff_iff]; simp only [beq_iff_eq]; exact eq_comm)

/-- equal keys compare alike with every third key -/
theorem Key.ord_congr_left (a b c : Key) (h : Key.eqv a b = true) : Key.ord a c = Key.ord b c := by
  cases a <;> cases b <;> simp only [Key.eqv, reduceCtorEq, Bool.false_eq_true, beq_iff_eq] at h <;>
    cases c <;> simp only [Key.ord] <;> try (subst h; rfl)
  rename_i x y z
  exact congrArg some (TransCmp.congr_left (cmp := Dec.cmp) h)

theorem Key.eqv_congr_left (a b c : Key) (h : Key.eqv a b = true) : Key.eqv a c = Key.eqv b c := by
  cases a <;> cases b <;> simp only [Key.eqv, reduceCtorEq, Bool.false_eq_true, beq_iff_eq] at h <;>
    cases c <;> simp only [Key.eqv] <;> try (subst h; rfl)
  rename_i x y z
  rw [TransCmp.congr_left (cmp := Dec.cmp) h]

theorem Key.eqv_refl (a : Key) : Key.eqv a a = true := by
  cases a <;> simp only [Key.eqv, beq_self_eq_true]
  rename_i x
  rw [ReflCmp.compare_self (cmp := Dec.cmp)]; rfl

/-! the same facts on atoms -/

theorem ordCmp_consistent (v a b : Atom) (o1 o2 : Ordering)
    (h1 : ordCmp v a = some o1) (h2 : ordCmp a b = some o2) :
    ∃ o3, ordCmp v b = some o3 ∧ consistent o1 o2 o3 = true := by
  simp only [ordCmp_key] at *
  exact Key.ord_consistent _ _ _ _ _ h1 h2

theorem ordCmp_swap (a b : Atom) : ordCmp b a = (ordCmp a b).map Ordering.swap := by
  simp only [ordCmp_key]; exact Key.ord_swap _ _

theorem eqv_of_ordCmp (a b : Atom) (o : Ordering) (h : ordCmp a b = some o) :
    a.eqv b = (o == .eq) := by
  simp only [ordCmp_key, eqv_key] at *; exact Key.eqv_of_ord _ _ _ h

theorem eqv_symm (a b : Atom) : a.eqv b = b.eqv a := by
  simp only [eqv_key]; exact Key.eqv_symm _ _

theorem ordCmp_congr_left (a b c : Atom) (h : a.eqv b = true) : ordCmp a c = ordCmp b c := by
  simp only [ordCmp_key, eqv_key] at *; exact Key.ord_congr_left _ _ _ h

theorem eqv_congr_left (a b c : Atom) (h : a.eqv b = true) : a.eqv c = b.eqv c := by
  simp only [eqv_key] at *; exact Key.eqv_congr_left _ _ _ h

theorem eqv_refl (a : Atom) : a.eqv a = true := by
  simp only [eqv_key]; exact Key.eqv_refl _

theorem eqv_trans (a b c : Atom) (h1 : a.eqv b = true) (h2 : b.eqv c = true) : a.eqv c = true := by
  rw [eqv_congr_left a b c h1]; exact h2


/-! ### finite tables about the comparison operators -/

def isOrd : Op → Bool
  | .lt | .le | .gt | .ge => true
  | _ => false

def isLower : Op → Bool
  | .gt | .ge => true
  | _ => false

def isUpper : Op → Bool
  | .lt | .le => true
  | _ => false

/-- same direction, `x` wins: everything above/below `x` is above/below `y` -/
theorem fin_sameX (xop yop : Op) (o1 o2 o3 : Ordering) :
    isOrd xop = true → (opInfo xop).2 = (opInfo yop).2 → consistent o1 o2 o3 = true →
    opHolds (opInfo xop).1 o2 = true → opHolds xop o1 = true → opHolds yop o3 = true := by
  cases xop <;> cases yop <;> cases o1 <;> cases o2 <;> cases o3 <;> decide

/-- same direction, `y` wins (`o1 = cmp v b`, `o2 = cmp a b`, `o3 = cmp v a`) -/
theorem fin_sameY (xop yop : Op) (o1 o2 o3 : Ordering) :
    isOrd xop = true → (opInfo xop).2 = (opInfo yop).2 → consistent o1 o2.swap o3 = true →
    opHolds (opInfo xop).1 o2 = false → opHolds yop o1 = true → opHolds xop o3 = true := by
  cases xop <;> cases yop <;> cases o1 <;> cases o2 <;> cases o3 <;> decide

/-- opposite directions: an error outcome of the string/bytes/number cell means the interval is
empty (`o1 = cmp v a`, `c = cmp a b`, `o3 = cmp v b`) -/
theorem fin_opp (xop yop : Op) (o1 c o3 : Ordering) :
    isLower xop = true → isUpper yop = true → consistent o1 c o3 = true →
    simplifyStrOpp xop yop c = .err → ¬ (opHolds xop o1 = true ∧ opHolds yop o3 = true) := by
  cases xop <;> cases yop <;> cases o1 <;> cases c <;> cases o3 <;> decide

theorem cat_same_ord (xop yop : Op) (h : (opInfo xop).2 = (opInfo yop).2) (hx : isOrd xop = true) :
    isOrd yop = true := by
  cases xop <;> cases yop <;> revert h hx <;> decide

theorem cat_same_nonord (xop yop : Op) (h : (opInfo xop).2 = (opInfo yop).2) (hx : ¬ isOrd xop = true) :
    yop = xop := by
  cases xop <;> cases yop <;> revert h hx <;> decide

theorem cat_opp (xop yop : Op) (h : (opInfo xop).2 = -(opInfo yop).2) (hne : (opInfo xop).2 ≠ (opInfo yop).2) :
    (isLower xop = true ∧ isUpper yop = true ∧ (opInfo xop).2 = 1) ∨
    (isUpper xop = true ∧ isLower yop = true ∧ (opInfo xop).2 = -1) := by
  cases xop <;> cases yop <;> revert h hne <;> decide

/-! ### unfolding `boundHolds` / `binOpBool` -/

theorem boundHolds_ord (re : Bytes → Bytes → Bool) (op : Op) (a v : Atom) (h : isOrd op = true) :
    boundHolds re ⟨op, a⟩ v = (match ordCmp v a with | some o => opHolds op o | none => false) := by
  cases op <;> first | rfl | cases h

theorem binOpBool_ord (re : Bytes → Bytes → Bool) (op : Op) (l r : Atom) (h : isOrd op = true) :
    binOpBool re op l r = (match ordCmp l r with | some o => opHolds op o | none => false) := by
  cases op <;> first | rfl | cases h

/-- on atoms the bound admits, validation by `BinOp` is the specification's comparison -/
theorem binOpBool_eq_holds (re : Bytes → Bytes → Bool) (b : Bound) (v : Atom) :
    binOpBool re b.op v b.val = boundHolds re b v := by
  obtain ⟨op, a⟩ := b
  cases op
  case mat => cases v <;> cases a <;> simp [binOpBool, boundHolds, Atom.isStr, Atom.strVal]
  case nmat => cases v <;> cases a <;> simp [binOpBool, boundHolds, Atom.isStr, Atom.strVal]
  all_goals rfl

theorem isOrd_cmpOp (op : Op) (h : isOrd op = true) : isOrd (opInfo op).1 = true := by
  cases op <;> first | rfl | cases h

/-- an atom a well-kinded ordering bound admits is comparable with the operand as soon as it is
comparable with anything -/
theorem ordCmp_some_of_admits (op : Op) (a v w : Atom) (o : Ordering) (hop : isOrd op = true)
    (had : boundAdmits ⟨op, a⟩ v = true) (hw : ordCmp v w = some o) : ∃ o', ordCmp v a = some o' := by
  cases a <;> cases v <;>
    simp [boundAdmits, Atom.isNum, Atom.sameKind, Atom.kindBit, Atom.isNull] at had <;>
    first
      | exact ⟨_, rfl⟩
      | (subst had; simp [isOrd] at hop)
      | (cases w <;> simp [ordCmp, Atom.num?] at hw)

/-! ### the same-category cells -/

theorem ite_X_both {c : Prop} [Decidable c] (h : (if c then Outcome.keepX else .both) = .keepX) : c := by
  split at h <;> first | assumption | cases h

theorem ite_X_Y {c : Prop} [Decidable c] (h : (if c then Outcome.keepX else .keepY) = .keepX) : c := by
  split at h <;> first | assumption | cases h

theorem ite_X_Y' {c : Prop} [Decidable c] (h : (if c then Outcome.keepX else .keepY) = .keepY) : ¬ c := by
  split at h <;> first | assumption | cases h

theorem same_keepX (re : Bytes → Bytes → Bool) (x y : Bound) (v : Atom)
    (hcat : (opInfo x.op).2 = (opInfo y.op).2)
    (h : simplifySame re x y = .keepX) (hv : boundHolds re x v = true) : boundHolds re y v = true := by
  obtain ⟨xop, a⟩ := x
  obtain ⟨yop, b⟩ := y
  by_cases hx : isOrd xop = true
  · -- ordering bounds of the same direction
    have hy := cat_same_ord xop yop hcat hx
    have h' : binOpBool re (opInfo xop).1 a b = true := by
      cases xop <;> simp [isOrd] at hx <;> exact ite_X_Y h
    rw [binOpBool_ord re _ _ _ (isOrd_cmpOp _ hx)] at h'
    rw [boundHolds_ord re _ _ _ hx] at hv
    rw [boundHolds_ord re _ _ _ hy]
    cases h1 : ordCmp v a with
    | none => rw [h1] at hv; cases hv
    | some o1 =>
      cases h2 : ordCmp a b with
      | none => rw [h2] at h'; cases h'
      | some o2 =>
        rw [h1] at hv; rw [h2] at h'
        obtain ⟨o3, h3, hc⟩ := ordCmp_consistent v a b o1 o2 h1 h2
        rw [h3]
        exact fin_sameX xop yop o1 o2 o3 hx hcat hc h' hv
  · -- `!=`, `=~`, `!~`: the operands are equal
    have he : a.eqv b = true := by
      cases xop <;> simp [isOrd] at hx <;> exact ite_X_both h
    have hyop : yop = xop := cat_same_nonord xop yop hcat hx
    subst hyop
    cases yop <;> simp [isOrd] at hx
    · -- ne
      simp only [boundHolds] at hv ⊢
      rw [eqv_symm v b, ← eqv_congr_left a b v he, eqv_symm a v]; exact hv
    · -- mat
      cases v <;> cases a <;> cases b <;> simp_all [boundHolds, Atom.eqv, Atom.num?]
    · cases v <;> cases a <;> cases b <;> simp_all [boundHolds, Atom.eqv, Atom.num?]

theorem same_keepY (re : Bytes → Bytes → Bool) (x y : Bound) (v : Atom)
    (hcat : (opInfo x.op).2 = (opInfo y.op).2) (hadx : boundAdmits x v = true)
    (h : simplifySame re x y = .keepY) (hv : boundHolds re y v = true) : boundHolds re x v = true := by
  obtain ⟨xop, a⟩ := x
  obtain ⟨yop, b⟩ := y
  have hx : isOrd xop = true := by
    cases xop <;> first | rfl | (exfalso; simp only [simplifySame] at h; split at h <;> cases h)
  have hy := cat_same_ord xop yop hcat hx
  have h' : binOpBool re (opInfo xop).1 a b = false := by
    cases xop <;> simp [isOrd] at hx <;> exact Bool.eq_false_iff.2 (ite_X_Y' h)
  rw [binOpBool_ord re _ _ _ (isOrd_cmpOp _ hx)] at h'
  rw [boundHolds_ord re _ _ _ hy] at hv
  rw [boundHolds_ord re _ _ _ hx]
  cases h1 : ordCmp v b with
  | none => rw [h1] at hv; cases hv
  | some o1 =>
    rw [h1] at hv
    obtain ⟨o3, h3⟩ := ordCmp_some_of_admits xop a v b o1 hx hadx h1
    -- then `a` and `b` are comparable
    have hab : ∃ o2, ordCmp a b = some o2 := by
      have h3' : ordCmp a v = some o3.swap := by rw [ordCmp_swap v a, h3]; rfl
      obtain ⟨o, ho, _⟩ := ordCmp_consistent a v b _ _ h3' h1
      exact ⟨o, ho⟩
    obtain ⟨o2, h2⟩ := hab
    rw [h2] at h'
    have hba : ordCmp b a = some o2.swap := by rw [ordCmp_swap a b, h2]; rfl
    obtain ⟨o3', h3', hc⟩ := ordCmp_consistent v b a o1 _ h1 hba
    rw [h3] at h3'; cases h3'
    rw [h3]
    exact fin_sameY xop yop o1 o2 o3 hx hcat hc h' hv


/-! ### the `!=` cells -/

theorem binOpBool_congr_left (re : Bytes → Bytes → Bool) (op : Op) (l l' r : Atom)
    (h : l.eqv l' = true) : binOpBool re op l r = binOpBool re op l' r := by
  cases op
  case ne => simp only [binOpBool]; rw [eqv_congr_left l l' r h]
  case mat => cases l <;> cases l' <;> simp_all [binOpBool, Atom.eqv, Atom.num?, Atom.isStr, Atom.strVal]
  case nmat => cases l <;> cases l' <;> simp_all [binOpBool, Atom.eqv, Atom.num?, Atom.isStr, Atom.strVal]
  all_goals (simp only [binOpBool]; rw [ordCmp_congr_left l l' r h])

theorem ne_keepY (re : Bytes → Bytes → Bool) (x y : Bound) (v : Atom)
    (h : simplifyNe re x y = .keepY) (hv : boundHolds re y v = true) : boundHolds re x v = true := by
  obtain ⟨xop, a⟩ := x
  unfold simplifyNe at h
  split at h
  · rename_i hx
    simp only [beq_iff_eq] at hx; subst hx
    split at h
    · rename_i hb
      simp only [boundHolds]
      cases hva : v.eqv a with
      | false => rfl
      | true =>
        rw [← binOpBool_eq_holds, binOpBool_congr_left re y.op v a y.val hva] at hv
        simp [hv] at hb
    · cases h
  · split at h
    · split at h <;> cases h
    · cases h

theorem ne_keepX (re : Bytes → Bytes → Bool) (x y : Bound) (v : Atom)
    (h : simplifyNe re x y = .keepX) (hv : boundHolds re x v = true) : boundHolds re y v = true := by
  obtain ⟨yop, b⟩ := y
  unfold simplifyNe at h
  split at h
  · split at h <;> cases h
  · split at h
    · rename_i hy
      simp only [beq_iff_eq] at hy; subst hy
      split at h
      · rename_i hb
        simp only [boundHolds]
        cases hvb : v.eqv b with
        | false => rfl
        | true =>
          rw [← binOpBool_eq_holds, binOpBool_congr_left re x.op v b x.val hvb] at hv
          simp [hv] at hb
      · cases h
    · cases h

theorem ne_not_err (re : Bytes → Bytes → Bool) (x y : Bound) : simplifyNe re x y ≠ .err := by
  unfold simplifyNe
  repeat' split
  all_goals simp

theorem same_not_err (re : Bytes → Bytes → Bool) (x y : Bound) : simplifySame re x y ≠ .err := by
  unfold simplifySame
  repeat' split
  all_goals simp

/-! ### the opposite-direction cells -/

theorem opHolds_ge (o : Ordering) : opHolds .ge o = o.isGE := by cases o <;> rfl
theorem opHolds_gt (o : Ordering) : opHolds .gt o = (o == .gt) := by cases o <;> rfl
theorem opHolds_le (o : Ordering) : opHolds .le o = o.isLE := by cases o <;> rfl
theorem opHolds_lt (o : Ordering) : opHolds .lt o = (o == .lt) := by cases o <;> rfl

/-- a decimal that equals the integer `m` compares with integers like `m` -/
theorem cmp_int_of_eq (d : Dec) (m n : Int) (h : Dec.cmp d (Dec.ofInt m) = .eq) :
    Dec.cmp d (Dec.ofInt n) = compare m n := by
  rw [TransCmp.congr_left (cmp := Dec.cmp) h, Dec.cmp_ofInt_ofInt]

theorem numOpp_err_float (k : Kind) (xop yop : Op) (a b : Dec) (hk : k.hasFloat = true)
    (h : simplifyNumOpp k xop yop a b = .err) : simplifyStrOpp xop yop (Dec.cmp a b) = .err := by
  have e1 : adjLo k xop a = some a := by simp [adjLo, hk]
  have e2 : adjHi k yop b = some b := by simp [adjHi, hk]
  unfold simplifyNumOpp at h
  rw [e1, e2] at h
  simp only at h
  unfold numOppCore at h
  split at h
  · cases h
  · split at h
    · cases h
    · rename_i d hd
      have hd' := Dec.sub34_eq _ _ _ hd
      subst hd'
      split at h
      · rename_i hneg
        have h1 := (Dec.sub_coeff_neg_iff b a).1 hneg
        have h2 : Dec.cmp a b = .gt := OrientedCmp.gt_of_lt h1
        rw [h2]; rfl
      · split at h
        · cases h
        · rename_i z hz
          split at h
          · simp [hk] at h
          · split at h
            · rename_i hz0
              have hz0' : z = 0 := by simpa using hz0
              subst hz0'
              have h1 := Dec.intVal?_eq_some _ _ hz
              rw [Dec.cmp_sub_zero] at h1
              have h2 : Dec.cmp a b = .eq := OrientedCmp.eq_symm h1
              rw [h2]; simp only [simplifyStrOpp]; exact h
            · cases h

/-- the integer adjusted lower end: `>=a` starts at `ceil a`, `>a` above `floor a` -/
theorem lo_int (k : Kind) (xop : Op) (a lo : Dec) (hk : k.hasFloat = false)
    (h : adjLo k xop a = some lo) :
    Dec.cmp lo (Dec.ofInt (if xop == .ge then Dec.ceil a else Dec.floor a)) = .eq := by
  unfold adjLo at h
  by_cases he : a.exp < 0
  · simp only [hk, he, Bool.not_false, Bool.true_and, decide_true, if_true] at h
    by_cases hx : (xop == .ge) = true
    · simp only [hx, if_true] at h ⊢; exact Dec.ceil34?_eq a lo h
    · simp only [hx, if_false, Bool.false_eq_true] at h ⊢; exact Dec.floor34?_eq a lo h
  · simp only [hk, he, Bool.not_false, Bool.true_and, decide_false, Bool.false_eq_true, if_false] at h
    cases h
    have hi := Dec.isInt_of_exp_nonneg a (by omega)
    rw [Dec.ceil_eq_floor_of_isInt a hi]
    simp only [ite_self]
    exact Dec.cmp_floor_of_isInt a hi

theorem hi_int (k : Kind) (yop : Op) (b hi : Dec) (hk : k.hasFloat = false)
    (h : adjHi k yop b = some hi) :
    Dec.cmp hi (Dec.ofInt (if yop == .le then Dec.floor b else Dec.ceil b)) = .eq := by
  unfold adjHi at h
  by_cases he : b.exp < 0
  · simp only [hk, he, Bool.not_false, Bool.true_and, decide_true, if_true] at h
    by_cases hx : (yop == .le) = true
    · simp only [hx, if_true] at h ⊢; exact Dec.floor34?_eq b hi h
    · simp only [hx, if_false, Bool.false_eq_true] at h ⊢; exact Dec.ceil34?_eq b hi h
  · simp only [hk, he, Bool.not_false, Bool.true_and, decide_false, Bool.false_eq_true, if_false] at h
    cases h
    have hi' := Dec.isInt_of_exp_nonneg b (by omega)
    rw [Dec.ceil_eq_floor_of_isInt b hi']
    simp only [ite_self]
    exact Dec.cmp_floor_of_isInt b hi'

/-- the integer cell in terms of the adjusted integer ends `L` (lower) and `H` (upper) -/
theorem numOpp_err_core (k : Kind) (xop yop : Op) (lo hi : Dec) (L H : Int)
    (hlo : Dec.cmp lo (Dec.ofInt L) = .eq) (hhi : Dec.cmp hi (Dec.ofInt H) = .eq)
    (h : numOppCore k xop yop lo hi = .err) :
    H < L ∨ (H = L + 1 ∧ xop = .gt ∧ yop = .lt) ∨ (H = L ∧ ¬ (xop = .ge ∧ yop = .le)) := by
  unfold numOppCore at h
  split at h
  · cases h
  split at h
  · cases h
  · rename_i d hd
    have hd' := Dec.sub34_eq _ _ _ hd
    subst hd'
    have hD := Dec.cmp_sub_ofInt hi lo H L hhi hlo
    split at h
    · rename_i hneg
      left
      have h1 := (Dec.sub_coeff_neg_iff hi lo).1 hneg
      rw [← Dec.cmp_sub_zero, cmp_int_of_eq _ _ 0 hD] at h1
      have := Int.compare_eq_lt.1 h1
      omega
    · split at h
      · cases h
      · rename_i z hz
        have h1 := Dec.intVal?_eq_some _ _ hz
        rw [cmp_int_of_eq _ _ z hD] at h1
        have hz' : H - L = z := Int.compare_eq_eq.1 h1
        split at h
        · rename_i hz1
          have : z = 1 := by simpa using hz1
          split at h
          · rename_i hc
            simp only [Bool.and_eq_true, beq_iff_eq] at hc
            right; left; exact ⟨by omega, hc.1.2, hc.2⟩
          · cases h
        · split at h
          · rename_i hz0
            have : z = 0 := by simpa using hz0
            split at h
            · cases h
            · rename_i hc
              simp only [Bool.and_eq_true, beq_iff_eq] at hc
              right; right; exact ⟨by omega, hc⟩
          · cases h

theorem numOpp_err_int (k : Kind) (xop yop : Op) (a b : Dec) (hk : k.hasFloat = false)
    (hx : isLower xop = true) (hy : isUpper yop = true)
    (h : simplifyNumOpp k xop yop a b = .err) (n : Int) :
    ¬ (opHolds xop (Dec.cmp (Dec.ofInt n) a) = true ∧ opHolds yop (Dec.cmp (Dec.ofInt n) b) = true) := by
  unfold simplifyNumOpp at h
  split at h
  · rename_i lo hi hlo hhi
    have hcore := numOpp_err_core k xop yop _ _ _ _ (lo_int k xop a lo hk hlo) (hi_int k yop b hi hk hhi) h
    intro ⟨h1, h2⟩
    cases xop <;> simp [isLower] at hx <;> cases yop <;> simp [isUpper] at hy <;>
      simp only [opHolds_ge, opHolds_gt, opHolds_le, opHolds_lt, beq_iff_eq,
        Dec.ofInt_ge_iff, Dec.ofInt_gt_iff, Dec.ofInt_le_iff, Dec.ofInt_lt_iff] at h1 h2 <;>
      simp at hcore <;> omega
  · cases h

/-! ### kinds -/

def Kind.sub (k k' : Kind) : Prop := ∀ v : Atom, Kind.has k v = true → Kind.has k' v = true

theorem Kind.has_and (k k' : Kind) (v : Atom) : Kind.has (k &&& k') v = (Kind.has k v && Kind.has k' v) := by
  simp only [Kind.has, Nat.testBit_and]

theorem Kind.has_zero (v : Atom) : Kind.has 0 v = false := by
  simp only [Kind.has, Nat.zero_testBit]

theorem Kind.sub_and_left (k k' : Kind) : Kind.sub (k &&& k') k := by
  intro v h; rw [Kind.has_and] at h; simp only [Bool.and_eq_true] at h; exact h.1

theorem Kind.sub_and_right (k k' : Kind) : Kind.sub (k &&& k') k' := by
  intro v h; rw [Kind.has_and] at h; simp only [Bool.and_eq_true] at h; exact h.2

theorem Kind.sub_trans {a b c : Kind} (h1 : Kind.sub a b) (h2 : Kind.sub b c) : Kind.sub a c :=
  fun v h => h2 v (h1 v h)

theorem kind_has_admits (b : Bound) (v : Atom) : Kind.has b.kind v = boundAdmits b v := by
  obtain ⟨op, a⟩ := b
  cases a <;> cases v <;> (try cases op) <;>
    simp [Bound.kind, boundAdmits, Kind.has, Atom.kind, Atom.kindBit, Atom.isNull, Atom.isNum, Atom.sameKind,
      Kind.nonNull, Kind.null, Kind.number] <;> decide

theorem atom_kind_has (a v : Atom) : Kind.has a.kind v = v.sameKind a := by
  cases a <;> cases v <;> simp [Kind.has, Atom.kind, Atom.kindBit, Atom.sameKind] <;> decide

theorem bound_kind_ne_zero (b : Bound) : b.kind ≠ 0 := by
  obtain ⟨op, a⟩ := b
  cases a <;> (try cases op) <;>
    simp [Bound.kind, Atom.kind, Atom.kindBit, Kind.nonNull, Kind.null, Kind.number]

theorem atom_kind_ne_zero (a : Atom) : a.kind ≠ 0 := by
  cases a <;> simp [Atom.kind, Atom.kindBit]

theorem top_has (v : Atom) : Kind.has Kind.top v = true := by
  cases v <;> simp [Kind.has, Kind.top, Atom.kindBit] <;> decide

theorem has_float (k : Kind) (d : Dec) : Kind.has k (.float d) = k.hasFloat := rfl

/-! ### soundness of `simplifyBounds` -/

theorem isOrd_of_lower (op : Op) (h : isLower op = true) : isOrd op = true := by
  cases op <;> first | rfl | cases h

theorem isOrd_of_upper (op : Op) (h : isUpper op = true) : isOrd op = true := by
  cases op <;> first | rfl | cases h

theorem opp_generic (re : Bytes → Bytes → Bool) (lo hi : Bound) (v : Atom) (c : Ordering)
    (hlo : isLower lo.op = true) (hhi : isUpper hi.op = true)
    (hc : ordCmp lo.val hi.val = some c) (he : simplifyStrOpp lo.op hi.op c = .err) :
    ¬ (boundHolds re lo v = true ∧ boundHolds re hi v = true) := by
  obtain ⟨lop, a⟩ := lo
  obtain ⟨hop, b⟩ := hi
  intro ⟨h1, h2⟩
  rw [boundHolds_ord re _ _ _ (isOrd_of_lower _ hlo)] at h1
  rw [boundHolds_ord re _ _ _ (isOrd_of_upper _ hhi)] at h2
  cases hva : ordCmp v a with
  | none => rw [hva] at h1; cases h1
  | some o1 =>
    rw [hva] at h1
    obtain ⟨o3, h3, hcons⟩ := ordCmp_consistent v a b o1 c hva hc
    rw [h3] at h2
    exact fin_opp lop hop o1 c o3 hlo hhi hcons he ⟨h1, h2⟩

theorem ordCmp_num (v w : Atom) (x y : Dec) (hv : v.num? = some x) (hw : w.num? = some y) :
    ordCmp v w = some (Dec.cmp x y) := by
  cases v <;> simp [Atom.num?] at hv <;> cases w <;> simp [Atom.num?] at hw <;> subst hv <;> subst hw <;> rfl

theorem ordCmp_nonnum (v w : Atom) (y : Dec) (hv : v.num? = none) (hw : w.num? = some y) :
    ordCmp v w = none := by
  cases v <;> simp [Atom.num?] at hv <;> cases w <;> simp [Atom.num?] at hw <;> rfl

theorem opp_err (re : Bytes → Bytes → Bool) (k : Kind) (lo hi : Bound) (v : Atom)
    (hlo : isLower lo.op = true) (hhi : isUpper hi.op = true)
    (hk : Kind.has k v = true)
    (h : simplifyOpp k lo hi = .err) :
    ¬ (boundHolds re lo v = true ∧ boundHolds re hi v = true) := by
  unfold simplifyOpp at h
  split at h
  · split at h
    · rename_i a b ha hb
      exact opp_generic re lo hi v _ hlo hhi (by rw [ha, hb]; rfl) h
    · cases h
  · split at h
    · split at h
      · rename_i a b ha hb
        exact opp_generic re lo hi v _ hlo hhi (by rw [ha, hb]; rfl) h
      · cases h
    · split at h
      · rename_i a b ha hb
        by_cases hf : k.hasFloat = true
        · exact opp_generic re lo hi v _ hlo hhi (ordCmp_num _ _ _ _ ha hb)
            (numOpp_err_float k _ _ a b hf h)
        · have hf' : k.hasFloat = false := by simpa using hf
          intro ⟨h1, h2⟩
          obtain ⟨lop, lv⟩ := lo
          obtain ⟨hop, hv⟩ := hi
          rw [boundHolds_ord re _ _ _ (isOrd_of_lower _ hlo)] at h1
          rw [boundHolds_ord re _ _ _ (isOrd_of_upper _ hhi)] at h2
          cases hvn : v.num? with
          | none => rw [ordCmp_nonnum v lv a hvn ha] at h1; cases h1
          | some dv =>
            cases v <;> simp [Atom.num?] at hvn
            · subst hvn
              rw [ordCmp_num _ _ _ _ rfl ha] at h1
              rw [ordCmp_num _ _ _ _ rfl hb] at h2
              exact numOpp_err_int k lop hop a b hf' hlo hhi h _ ⟨h1, h2⟩
            · rw [has_float, hf'] at hk; cases hk
      · cases h

theorem strOpp_both_or_err (xop yop : Op) (c : Ordering) :
    simplifyStrOpp xop yop c = .both ∨ simplifyStrOpp xop yop c = .err := by
  unfold simplifyStrOpp
  cases c
  · simp
  · by_cases h : (xop == Op.ge && yop == Op.le) = true <;> simp [h]
  · simp

theorem numOpp_both_or_err (k : Kind) (xop yop : Op) (a b : Dec) :
    simplifyNumOpp k xop yop a b = .both ∨ simplifyNumOpp k xop yop a b = .err := by
  unfold simplifyNumOpp numOppCore
  repeat' split
  all_goals simp

theorem opp_both_or_err (k : Kind) (lo hi : Bound) :
    simplifyOpp k lo hi = .both ∨ simplifyOpp k lo hi = .err := by
  unfold simplifyOpp
  repeat' split
  all_goals first | exact strOpp_both_or_err _ _ _ | exact numOpp_both_or_err _ _ _ _ _ | simp

/-- Every outcome of `SimplifyBounds` is sound for atoms both bounds admit. -/
theorem simplify_sound (re : Bytes → Bytes → Bool) (k : Kind) (x y : Bound) (v : Atom)
    (hax : boundAdmits x v = true) (_hay : boundAdmits y v = true) (hk : Kind.has k v = true) :
    match simplifyBounds re k x y with
    | .keepX => boundHolds re x v = true → boundHolds re y v = true
    | .keepY => boundHolds re y v = true → boundHolds re x v = true
    | .err => ¬ (boundHolds re x v = true ∧ boundHolds re y v = true)
    | .both => True := by
  unfold simplifyBounds
  simp only
  by_cases hc : (opInfo x.op).2 = (opInfo y.op).2
  · simp only [hc, beq_self_eq_true, if_true]
    cases h : simplifySame re x y with
    | keepX => exact same_keepX re x y v hc h
    | keepY => exact same_keepY re x y v hc hax h
    | both => trivial
    | err => exact absurd h (same_not_err re x y)
  · have hc' : ((opInfo x.op).2 == (opInfo y.op).2) = false := by simpa using hc
    simp only [hc', Bool.false_eq_true, if_false]
    by_cases ho : (opInfo x.op).2 = -(opInfo y.op).2
    · have ho' : ((opInfo x.op).2 == -(opInfo y.op).2) = true := by simpa using ho
      simp only [ho', if_true]
      rcases cat_opp x.op y.op ho hc with ⟨hl, hu, h1⟩ | ⟨hu, hl, h1⟩
      · have : ((opInfo x.op).2 == -1) = false := by rw [h1]; decide
        simp only [this, Bool.false_eq_true, if_false]
        rcases opp_both_or_err k x y with h | h <;> rw [h]
        · trivial
        · exact opp_err re k x y v hl hu hk h
      · have : ((opInfo x.op).2 == -1) = true := by rw [h1]; decide
        simp only [this, if_true]
        rcases opp_both_or_err k y x with h | h <;> rw [h]
        · trivial
        · intro ⟨h1, h2⟩
          exact opp_err re k y x v hl hu hk h ⟨h2, h1⟩
    · have ho' : ((opInfo x.op).2 == -(opInfo y.op).2) = false := by simpa using ho
      simp only [ho', Bool.false_eq_true, if_false]
      cases h : simplifyNe re x y with
      | keepX => exact ne_keepX re x y v h
      | keepY => exact ne_keepY re x y v h
      | both => trivial
      | err => exact absurd h (ne_not_err re x y)

end CueVerif.Scalar
