import CueVerif.Spec.Scalar
import CueVerif.Proofs.Dec
/-!
C03 — proofs: every outcome of `simplifyBounds` is sound for the specification `sat`, conjunct
insertion refines set intersection, and `finalize` reports exactly the satisfying atom.
Core Lean only.
-/
namespace CueVerif.Scalar
open CueVerif Std

/-! ### orderings: the finite facts -/

/-- what transitivity allows for `cmp v b` given `cmp v a` and `cmp a b` -/
def consistent : Ordering → Ordering → Ordering → Bool
  | .lt, .lt, o | .lt, .eq, o | .eq, .lt, o => o == .lt
  | .eq, .eq, o => o == .eq
  | .gt, .gt, o | .gt, .eq, o | .eq, .gt, o => o == .gt
  | _, _, _ => true

theorem consistent_of_trans {α} (cmp : α → α → Ordering) [TransCmp cmp] (v a b : α) :
    consistent (cmp v a) (cmp a b) (cmp v b) = true := by
  cases h1 : cmp v a <;> cases h2 : cmp a b <;> simp only [consistent, beq_iff_eq]
  · exact TransCmp.lt_trans h1 h2
  · exact TransCmp.lt_of_lt_of_eq h1 h2
  · exact TransCmp.lt_of_eq_of_lt h1 h2
  · exact TransCmp.eq_trans h1 h2
  · exact TransCmp.gt_of_eq_of_gt h1 h2
  · exact TransCmp.gt_of_gt_of_eq h1 h2
  · exact TransCmp.gt_trans h1 h2

/-! ### keys: the sort of an atom and its comparable content -/

inductive Key
  | null | bool (b : Bool) | num (d : Dec) | str (s : Bytes) | bytes (s : Bytes)

def Atom.key : Atom → Key
  | .null => .null
  | .bool b => .bool b
  | .int z => .num (Dec.ofInt z)
  | .float d => .num d
  | .str s => .str s
  | .bytes s => .bytes s

def Key.ord : Key → Key → Option Ordering
  | .num x, .num y => some (Dec.cmp x y)
  | .str a, .str b => some (compare a b)
  | .bytes a, .bytes b => some (compare a b)
  | _, _ => none

def Key.eqv : Key → Key → Bool
  | .null, .null => true
  | .bool a, .bool b => a == b
  | .num x, .num y => Dec.cmp x y == .eq
  | .str a, .str b => a == b
  | .bytes a, .bytes b => a == b
  | _, _ => false

theorem ordCmp_key (a b : Atom) : ordCmp a b = Key.ord a.key b.key := by
  cases a <;> cases b <;> rfl

theorem eqv_key (a b : Atom) : a.eqv b = Key.eqv a.key b.key := by
  cases a <;> cases b <;> rfl

theorem Key.ord_consistent (v a b : Key) (o1 o2 : Ordering)
    (h1 : Key.ord v a = some o1) (h2 : Key.ord a b = some o2) :
    ∃ o3, Key.ord v b = some o3 ∧ consistent o1 o2 o3 = true := by
  cases v <;> cases a <;> simp only [Key.ord, reduceCtorEq] at h1 <;>
    cases b <;> simp only [Key.ord, reduceCtorEq] at h2
  · rename_i x y z
    refine ⟨_, rfl, ?_⟩
    cases h1; cases h2
    exact consistent_of_trans Dec.cmp x y z
  · rename_i x y z
    refine ⟨_, rfl, ?_⟩
    cases h1; cases h2
    exact consistent_of_trans (compare : Bytes → Bytes → Ordering) x y z
  · rename_i x y z
    refine ⟨_, rfl, ?_⟩
    cases h1; cases h2
    exact consistent_of_trans (compare : Bytes → Bytes → Ordering) x y z

theorem Key.ord_swap (a b : Key) : Key.ord b a = (Key.ord a b).map Ordering.swap := by
  cases a <;> cases b <;> simp only [Key.ord, Option.map]
  · exact congrArg some (OrientedCmp.eq_swap (cmp := Dec.cmp))
  · exact congrArg some (OrientedCmp.eq_swap (cmp := (compare : Bytes → Bytes → Ordering)))
  · exact congrArg some (OrientedCmp.eq_swap (cmp := (compare : Bytes → Bytes → Ordering)))

theorem bytes_compare_eq (a b : Bytes) : compare a b = .eq ↔ a = b :=
  LawfulEqCmp.compare_eq_iff_eq (cmp := (compare : Bytes → Bytes → Ordering))

/-- when two keys are comparable, `eqv` is "compares equal" -/
theorem Key.eqv_of_ord (a b : Key) (o : Ordering) (h : Key.ord a b = some o) :
    Key.eqv a b = (o == .eq) := by
  cases a <;> cases b <;> simp only [Key.ord, reduceCtorEq] at h <;> cases h <;> simp only [Key.eqv]
  · rename_i x y
    rw [Bool.eq_iff_iff]; simp only [beq_iff_eq]; exact (bytes_compare_eq x y).symm
  · rename_i x y
    rw [Bool.eq_iff_iff]; simp only [beq_iff_eq]; exact (bytes_compare_eq x y).symm

theorem Key.eqv_symm (a b : Key) : Key.eqv a b = Key.eqv b a := by
  cases a <;> cases b <;> simp only [Key.eqv]
  all_goals first
    | (rename_i x y
       rw [OrientedCmp.eq_swap (cmp := Dec.cmp) (a := x) (b := y)]
       cases Dec.cmp y x <;> rfl)
    | (rw [Bool.eq_iff_iff]; simp only [beq_iff_eq]; exact eq_comm)

/-- equal keys compare alike with every third key -/
theorem Key.ord_congr_left (a b c : Key) (h : Key.eqv a b = true) : Key.ord a c = Key.ord b c := by
  cases a <;> cases b <;> simp only [Key.eqv, reduceCtorEq, Bool.false_eq_true, beq_iff_eq] at h <;>
    cases c <;> simp only [Key.ord] <;> try (subst h; rfl)
  rename_i x y z
  exact congrArg some (TransCmp.congr_left (cmp := Dec.cmp) h)

theorem Key.eqv_congr_left (a b c : Key) (h : Key.eqv a b = true) : Key.eqv a c = Key.eqv b c := by
  cases a <;> cases b <;> simp only [Key.eqv, reduceCtorEq, Bool.false_eq_true, beq_iff_eq] at h <;>
    cases c <;> simp only [Key.eqv] <;> try (subst h; rfl)
  rename_i x y z
  rw [TransCmp.congr_left (cmp := Dec.cmp) h]

theorem Key.eqv_refl (a : Key) : Key.eqv a a = true := by
  cases a <;> simp only [Key.eqv, beq_self_eq_true]
  rename_i x
  rw [ReflCmp.compare_self (cmp := Dec.cmp)]; rfl

/-! the same facts on atoms -/

theorem ordCmp_consistent (v a b : Atom) (o1 o2 : Ordering)
    (h1 : ordCmp v a = some o1) (h2 : ordCmp a b = some o2) :
    ∃ o3, ordCmp v b = some o3 ∧ consistent o1 o2 o3 = true := by
  simp only [ordCmp_key] at *
  exact Key.ord_consistent _ _ _ _ _ h1 h2

theorem ordCmp_swap (a b : Atom) : ordCmp b a = (ordCmp a b).map Ordering.swap := by
  simp only [ordCmp_key]; exact Key.ord_swap _ _

theorem eqv_of_ordCmp (a b : Atom) (o : Ordering) (h : ordCmp a b = some o) :
    a.eqv b = (o == .eq) := by
  simp only [ordCmp_key, eqv_key] at *; exact Key.eqv_of_ord _ _ _ h

theorem eqv_symm (a b : Atom) : a.eqv b = b.eqv a := by
  simp only [eqv_key]; exact Key.eqv_symm _ _

theorem ordCmp_congr_left (a b c : Atom) (h : a.eqv b = true) : ordCmp a c = ordCmp b c := by
  simp only [ordCmp_key, eqv_key] at *; exact Key.ord_congr_left _ _ _ h

theorem eqv_congr_left (a b c : Atom) (h : a.eqv b = true) : a.eqv c = b.eqv c := by
  simp only [eqv_key] at *; exact Key.eqv_congr_left _ _ _ h

theorem eqv_refl (a : Atom) : a.eqv a = true := by
  simp only [eqv_key]; exact Key.eqv_refl _

theorem eqv_trans (a b c : Atom) (h1 : a.eqv b = true) (h2 : b.eqv c = true) : a.eqv c = true := by
  rw [eqv_congr_left a b c h1]; exact h2

end CueVerif.Scalar
